(* Byte-level models of the volume descriptor codecs of /repo/pycdlib/headervd.py and of the 17-byte
   dates.VolumeDescriptorDate.  Definitions only; proofs are in Proofs/VolDescProofs.v,
   Proofs/VolDescPairProofs.v.

   Sources modelled (statement by statement):
     dates.py    string_to_timestruct (time.strptime '%Y%m%d%H%M%S')        -> strptime14, string_to_timestruct
     dates.py    VolumeDescriptorDate.parse / .record / .new                -> parse_vddate, record_vddate, vddate_new(_zero)
     utils.py    encode_space_pad                                           -> encode_space_pad (pad_loop)
     dr.py       DirectoryRecord.parse (parent is None), new_root, record   -> parse_root, root_new, root_record
     headervd.py PrimaryOrSupplementaryVD.new / .record / .parse            -> vd_new, record_vd, parse_vd
     headervd.py pvd_factory, enhanced_vd_factory, joliet_vd_factory        -> pvd_factory, enhanced_vd_factory, joliet_vd_factory
     headervd.py add_to_space_size, remove_from_space_size, copy_sizes      -> vd_add_to_space_size, ...
     headervd.py VolumeDescriptorSetTerminator.new/record/parse             -> record_vdst, parse_vdst
     headervd.py BootRecord.new/record/parse/update_boot_system_use         -> br_new, record_br, parse_br, br_update_boot_system_use

   bytes = list Z (0..255); struct.pack/unpack = field lists cut with the GENERATED widths
   fmt_pvd_widths / fmt_vdst_widths / fmt_br_widths / fmt_dr_widths of Gen/GenConst.v.  Any raised
   exception is [None]; a run of `if ...: raise` statements is folded into one conjunction
   ([vd_checks]) since every branch maps to None.

   What is NOT modelled / simplified (trusted base):
   * the clock: record() stamps the modification date with time.time(); [record_vd] takes that date
     ([now]) as an argument; new() takes the already built date objects and the root record's 7-byte
     date (time.localtime is modelled in Model/Dates.v).  vddate_new uses 4 year digits (exact for
     1000 <= tm_year <= 9999; glibc's %Y does not pad shorter years).
   * strptime14 is exact when the 14 date bytes are ASCII (< 128); for bytes >= 128 the model says
     "ValueError" (unspecified date) although Python's \d also accepts multi-byte Unicode digits.
   * encode_space_pad is exact for ASCII identifiers; a non-ASCII identifier gives None (Python:
     UnicodeEncodeError for 'ascii', a real UCS-2 string for 'utf-16_be').
   * a root record's extent None (fresh new()) is the value -1: record() then fails, as in Python.
   * attributes that never reach the bytes are dropped: orig/new_extent_loc, rr_ce_blocks,
     _initialized (every method is modelled in its "initialized as required" state).
   * a vd_type other than 1 or 2 makes vd_new return None (Python leaves attributes unset). *)
From Coq Require Import ZArith List Bool.
From PV.Base Require Import Prim.
From PV.Gen Require Import GenConst GenFun.
From PV.Model Require Import Codec.
Import ListNotations.
Local Open Scope Z_scope.

Notation "'do' x <- e ; k" := (match e with Some x => k | None => None end)
  (at level 200, x pattern, e at level 100, k at level 200, only parsing).

Definition is_nil (l : list Z) : bool := match l with [] => true | _ => false end.
Definition len_is (n : nat) (l : list Z) : bool := (length l =? n)%nat.
(* bytes.ljust(n, c) *)
Definition ljust (n : nat) (c : Z) (s : list Z) : list Z := s ++ repeat c (n - length s)%nat.
Definition fld (k : nat) (fs : list (list Z)) : list Z := nth k fs [].
(* struct 'Q' read little-endian *)
Definition dle64 (l : list Z) : Z := fold_right (fun b acc => b + 256 * acc) 0 l.

(* ---- 17-byte volume descriptor date ------------------------------------------------------ *)

Record vddate := mk_vddate {
  dd_year : Z; dd_month : Z; dd_day : Z; dd_hour : Z; dd_min : Z; dd_sec : Z;
  dd_hsec : Z; dd_off : Z; dd_str : list Z }.

Definition isdig (c : Z) : bool := (48 <=? c) && (c <=? 57).
Definition num2 (a b : Z) : Z := 10 * (a - 48) + (b - 48).
Definition dig2 (v : Z) : list Z := [48 + (v / 10) mod 10; 48 + v mod 10].
Definition dig4 (v : Z) : list Z :=
  [48 + (v / 10 / 10 / 10) mod 10; 48 + (v / 10 / 10) mod 10; 48 + (v / 10) mod 10; 48 + v mod 10].

Definition is_leap (y : Z) : bool := ((y mod 4 =? 0) && negb (y mod 100 =? 0)) || (y mod 400 =? 0).
Definition days_in_month (y m : Z) : Z :=
  if m =? 2 then (if is_leap y then 29 else 28)
  else if (m =? 4) || (m =? 6) || (m =? 9) || (m =? 11) then 30 else 31.

(* time.strptime(s, '%Y%m%d%H%M%S') on a 14-character ASCII string.  _strptime's regex is
   (\d\d\d\d)(1[0-2]|0[1-9]|[1-9])(3[01]|[12]\d|0[1-9]|[1-9]| [1-9])(2[0-3]|[01]\d|\d)([0-5]\d|\d)
   (6[01]|[0-5]\d|\d) and the whole string must be consumed, so every field takes two characters;
   then datetime.date(year, month, day) must exist (year >= 1, day <= days in month).
   None = ValueError. *)
Definition strptime14 (s : list Z) : option (Z * Z * Z * Z * Z * Z) :=
  match s with
  | [y1; y2; y3; y4; m1; m2; d1; d2; h1; h2; i1; i2; s1; s2] =>
      let y := 1000 * (y1 - 48) + 100 * (y2 - 48) + 10 * (y3 - 48) + (y4 - 48) in
      let m := num2 m1 m2 in
      let d := if d1 =? 32 then d2 - 48 else num2 d1 d2 in
      let h := num2 h1 h2 in
      let mi := num2 i1 i2 in
      let se := num2 s1 s2 in
      if isdig y1 && isdig y2 && isdig y3 && isdig y4 && isdig m1 && isdig m2 &&
         (isdig d1 || (d1 =? 32)) && isdig d2 && isdig h1 && isdig h2 && isdig i1 && isdig i2 &&
         isdig s1 && isdig s2 &&
         (1 <=? m) && (m <=? 12) && (1 <=? d) && (h <=? 23) && (mi <=? 59) && (se <=? 61) &&
         (1 <=? y) && (d <=? days_in_month y m)
      then Some (y, m, d, h, mi, se) else None
  | _ => None
  end.

(* dates.string_to_timestruct: any ValueError gives the all-zero struct_time *)
Definition string_to_timestruct (s : list Z) : Z * Z * Z * Z * Z * Z :=
  match strptime14 s with Some t => t | None => (0, 0, 0, 0, 0, 0) end.

(* int(datestr[14:16]) on two bytes (optional sign, surrounding ASCII white space); on ValueError
   struct.unpack('>H', ...) *)
Definition is_space (c : Z) : bool := ((9 <=? c) && (c <=? 13)) || (c =? 32).
Definition int2 (a b : Z) : Z :=
  if isdig a && isdig b then num2 a b
  else if is_space a && isdig b then b - 48
  else if isdig a && is_space b then a - 48
  else if (a =? 43) && isdig b then b - 48
  else if (a =? 45) && isdig b then - (b - 48)
  else 256 * a + b.

(* VolumeDescriptorDate.EMPTY_STRING = b'0' * 16 + b'\x00' *)
Definition vddate_empty_string : list Z := repeat 48 16 ++ [0].
Definition vddate_zero : vddate := mk_vddate 0 0 0 0 0 0 0 0 vddate_empty_string.

(* VolumeDescriptorDate.parse(datestr) *)
Definition parse_vddate (datestr : list Z) : option vddate :=
  if negb (len_is 17 datestr) then None else
  let '(y, m, d, h, mi, se) := string_to_timestruct (firstn 14 datestr) in
  if (y =? 0) && (m =? 0) && (d =? 0) && (h =? 0) && (mi =? 0) && (se =? 0) then Some vddate_zero
  else Some (mk_vddate y m d h mi se (int2 (nth 14 datestr 0) (nth 15 datestr 0))
                       (dec_s8 (nth 16 datestr 0)) datestr).

(* VolumeDescriptorDate.record() *)
Definition record_vddate (d : vddate) : list Z := dd_str d.

(* VolumeDescriptorDate.new(tm) for tm != 0.0, given local = time.localtime(tm) broken down and
   gmtoffset = utils.gmtoffset_from_tm(tm, local); struct.pack('=b', gmtoffset) may raise *)
Definition vddate_new (y m d h mi se gmtoffset : Z) : option vddate :=
  if s8_ok gmtoffset then
    Some (mk_vddate y m d h mi se 0 gmtoffset
            (dig4 y ++ dig2 m ++ dig2 d ++ dig2 h ++ dig2 mi ++ dig2 se ++ [48; 48] ++ [enc_s8 gmtoffset]))
  else None.
(* VolumeDescriptorDate.new(0.0) *)
Definition vddate_new_zero : vddate := vddate_zero.

Definition vddate_eqb (a b : vddate) : bool :=
  (dd_year a =? dd_year b) && (dd_month a =? dd_month b) && (dd_day a =? dd_day b) &&
  (dd_hour a =? dd_hour b) && (dd_min a =? dd_min b) && (dd_sec a =? dd_sec b) &&
  (dd_hsec a =? dd_hsec b) && (dd_off a =? dd_off b) && zlist_eqb (dd_str a) (dd_str b).

(* range predicate: the unspecified form, or a calendar date written as 16 digits + offset byte *)
Definition vddate_ok (d : vddate) : bool :=
  vddate_eqb d vddate_zero ||
  ((1 <=? dd_year d) && (dd_year d <=? 9999) && (1 <=? dd_month d) && (dd_month d <=? 12) &&
   (1 <=? dd_day d) && (dd_day d <=? days_in_month (dd_year d) (dd_month d)) &&
   (0 <=? dd_hour d) && (dd_hour d <=? 23) && (0 <=? dd_min d) && (dd_min d <=? 59) &&
   (0 <=? dd_sec d) && (dd_sec d <=? 61) && (0 <=? dd_hsec d) && (dd_hsec d <=? 99) &&
   s8_ok (dd_off d) &&
   zlist_eqb (dd_str d)
     (dig4 (dd_year d) ++ dig2 (dd_month d) ++ dig2 (dd_day d) ++ dig2 (dd_hour d) ++
      dig2 (dd_min d) ++ dig2 (dd_sec d) ++ dig2 (dd_hsec d) ++ [enc_s8 (dd_off d)])).

(* ---- utils.encode_space_pad -------------------------------------------------------------- *)

(* instr.decode('utf-8').encode(encoding) for ASCII input *)
Definition encode_id (utf16 : bool) (s : list Z) : option (list Z) :=
  if forallb (fun c => (0 <=? c) && (c <? 128)) s
  then Some (if utf16 then flat_map (fun c => [0; c]) s else s) else None.

(* while left > 0: output += encoded_space; left -= len(encoded_space)   ([lft] is the Python variable left) *)
Fixpoint pad_loop (fuel : nat) (sp output : list Z) (lft : Z) : list Z * Z :=
  match fuel with
  | O => (output, lft)
  | S f => if 0 <? lft then pad_loop f sp (output ++ sp) (lft - zlen sp) else (output, lft)
  end.

Definition encode_space_pad (instr : list Z) (len : Z) (utf16 : bool) : option (list Z) :=
  do output <- encode_id utf16 instr;
  if len <? zlen output then None else
  let encoded_space := if utf16 then [0; 32] else [32] in
  let lft := len - zlen output in
  let '(output, lft) := pad_loop (Z.to_nat lft) encoded_space output lft in
  Some (if lft <? 0 then firstn (Z.to_nat (zlen output + lft)) output else output).

(* ---- the root directory record embedded in a PVD/SVD ------------------------------------- *)

(* the attributes record() reads: dr_len, len_fi and the fields of Codec.drec (ident is b'\x00',
   no XA / Rock Ridge on a root record: sysuse = []) *)
Record rootdr := mk_rootdr { rd_dr_len : Z; rd_len_fi : Z; rd_rec : drec }.

(* DirectoryRecord.record() *)
Definition root_record (r : rootdr) : option (list Z) :=
  enc_dr_raw (rd_dr_len r) (rd_len_fi r) (rd_rec r).

(* DirectoryRecord.parse(vd, record, None): the 34 bytes of the '34s' field *)
Definition parse_root (record : list Z) : option rootdr :=
  if 255 <? zlen record then None else
  match split_widths (widths fmt_dr_widths) (firstn 33 record) with
  | Some (fs, _) =>
      let xattr := d8 (fld 1 fs) in
      let extent_location_le := dle32 (fld 2 fs) in
      let extent_location_be := dle32 (fld 3 fs) in
      let data_length_le := dle32 (fld 4 fs) in
      let fl := d8 (fld 7 fs) in
      let seqnum_le := dle16 (fld 10 fs) in
      let seqnum_be := dle16 (fld 11 fs) in
      if negb (extent_location_le =? swab32 extent_location_be) then None else
      if negb (seqnum_le =? swab16 seqnum_be) then None else
      (* file_ident = bytes(bytearray([record[33]])): IndexError when shorter; then forced to b'\x00' *)
      if (length record <? 34)%nat then None else
      if negb (xattr =? 0) && (flag_set fl FILE_FLAG_RECORD_BIT || flag_set fl FILE_FLAG_PROTECTION_BIT)
      then None
      else Some (mk_rootdr (d8 (fld 0 fs)) (d8 (fld 12 fs))
                   (mk_drec xattr extent_location_le data_length_le (fld 6 fs) fl (d8 (fld 8 fs))
                            (d8 (fld 9 fs)) seqnum_le [0] []))
  | None => None
  end.

(* DirectoryRecord.new_root -> _new(vd, b'\x00', None, seqnum, True, log_block_size, False, t):
   extent None (-1) until set_data_location, flags = directory bit, dr_len = 33 + 1 *)
Definition root_new (seqnum log_block_size : Z) (date7 : list Z) : option rootdr :=
  if 4294967295 <? log_block_size then None else
  Some (mk_rootdr (new_dr_len 1 0) 1 (mk_drec 0 (-1) log_block_size date7 2 0 0 seqnum [0] [])).

Definition root_ok (r : rootdr) : bool :=
  dr_ranges_ok (rd_dr_len r) (rd_len_fi r) (rd_rec r) && len_is 7 (date (rd_rec r)) &&
  zlist_eqb (ident (rd_rec r)) [0] && is_nil (sysuse (rd_rec r)) &&
  ((xattr_len (rd_rec r) =? 0) ||
   (negb (flag_set (flags (rd_rec r)) FILE_FLAG_RECORD_BIT) &&
    negb (flag_set (flags (rd_rec r)) FILE_FLAG_PROTECTION_BIT))).

(* ---- PrimaryOrSupplementaryVD ------------------------------------------------------------ *)

Definition VD_TYPE_BOOT_RECORD : Z := 0.
Definition VD_TYPE_PRIMARY : Z := 1.
Definition VD_TYPE_SUPPLEMENTARY : Z := 2.
Definition VD_TYPE_SET_TERMINATOR : Z := 255.
Definition cd001 : list Z := [67; 68; 48; 48; 49].

Record voldesc := mk_vd {
  vd_type : Z; vd_version : Z; vd_flags : Z; vd_sysid : list Z; vd_volid : list Z;
  vd_space : Z; vd_escape : list Z; vd_setsize : Z; vd_seqnum : Z; vd_lbs : Z; vd_ptsize : Z;
  vd_ptextents : Z; vd_ptloc_le : Z; vd_optloc_le : Z; vd_ptloc_be : Z; vd_optloc_be : Z;
  vd_root : rootdr; vd_volset : list Z; vd_pub : list Z; vd_prep : list Z; vd_app : list Z;
  vd_copyright : list Z; vd_abstract : list Z; vd_biblio : list Z;
  vd_cdate : vddate; vd_mdate : vddate; vd_xdate : vddate; vd_edate : vddate;
  vd_fsv : Z; vd_appuse : list Z; vd_utf16 : bool }.

(* the 38 arguments of struct.pack(self.FMT, ...) in record() *)
Definition vd_fields (now : vddate) (v : voldesc) (root : list Z) : list (list Z) :=
  [ [vd_type v]; pack_s 5 cd001; [vd_version v]; [vd_flags v];
    pack_s 32 (vd_sysid v); pack_s 32 (vd_volid v); repeat 0 8;
    le32 (vd_space v); le32 (swab32 (vd_space v)); pack_s 32 (vd_escape v);
    le16 (vd_setsize v); le16 (swab16 (vd_setsize v));
    le16 (vd_seqnum v); le16 (swab16 (vd_seqnum v));
    le16 (vd_lbs v); le16 (swab16 (vd_lbs v));
    le32 (vd_ptsize v); le32 (swab32 (vd_ptsize v));
    le32 (vd_ptloc_le v); le32 (vd_optloc_le v); le32 (swab32 (vd_ptloc_be v)); le32 (vd_optloc_be v);
    pack_s 34 root; pack_s 128 (vd_volset v); pack_s 128 (vd_pub v); pack_s 128 (vd_prep v);
    pack_s 128 (vd_app v); pack_s 37 (vd_copyright v); pack_s 37 (vd_abstract v);
    pack_s 37 (vd_biblio v);
    pack_s 17 (record_vddate (vd_cdate v)); pack_s 17 (record_vddate now);
    pack_s 17 (record_vddate (vd_xdate v)); pack_s 17 (record_vddate (vd_edate v));
    [vd_fsv v]; [0]; pack_s 512 (vd_appuse v); repeat 0 653 ].

(* where struct.pack / swab_* raise *)
Definition vd_ranges_ok (v : voldesc) : bool :=
  u8_ok (vd_type v) && u8_ok (vd_version v) && u8_ok (vd_flags v) && u32_ok (vd_space v) &&
  u16_ok (vd_setsize v) && u16_ok (vd_seqnum v) && u16_ok (vd_lbs v) && u32_ok (vd_ptsize v) &&
  u32_ok (vd_ptloc_le v) && u32_ok (vd_optloc_le v) && u32_ok (vd_ptloc_be v) &&
  u32_ok (vd_optloc_be v) && u8_ok (vd_fsv v).

(* record(): [now] is the VolumeDescriptorDate built from time.time() inside record(); the stored
   volume_modification_date is NOT what is written *)
Definition record_vd (now : vddate) (v : voldesc) : option (list Z) :=
  do root <- root_record (vd_root v);
  if vd_ranges_ok v then Some (concat (vd_fields now v root)) else None.

Definition esc_at : list Z := [37; 47; 64].   (* b'%/@' Joliet level 1 *)
Definition esc_c : list Z := [37; 47; 67].    (* b'%/C' level 2 *)
Definition esc_e : list Z := [37; 47; 69].    (* b'%/E' level 3 *)
Definition is_joliet_esc (e : list Z) : bool :=
  zlist_eqb e esc_at || zlist_eqb e esc_c || zlist_eqb e esc_e.
Definition is_joliet_esc32 (e : list Z) : bool :=
  zlist_eqb e (ljust 32 0 esc_at) || zlist_eqb e (ljust 32 0 esc_c) || zlist_eqb e (ljust 32 0 esc_e).

(* all the `raise PyCdlibInvalidISO` tests of parse() *)
Definition vd_checks (ty descriptor_type : Z) (identifier : list Z)
    (version fl unused1 fsv unused2 space_le space_be set_le set_be seq_le seq_be lbs_le lbs_be
     pts_le pts_be : Z) : bool :=
  (descriptor_type =? ty) && zlist_eqb identifier cd001 &&
  ((version =? 1) || ((ty =? VD_TYPE_SUPPLEMENTARY) && (version =? 2))) &&
  negb ((ty =? VD_TYPE_PRIMARY) && negb (fl =? 0)) &&
  (unused1 =? 0) &&
  negb ((ty =? VD_TYPE_SUPPLEMENTARY) && negb ((fsv =? 1) || (fsv =? 2))) &&
  (unused2 =? 0) &&
  (space_le =? swab32 space_be) && (set_le =? swab16 set_be) && (seq_le =? swab16 seq_be) &&
  (lbs_le =? swab16 lbs_be) && (pts_le =? swab32 pts_be).

Definition parse_vd_fields (ty : Z) (fs : list (list Z)) : option voldesc :=
  let version := d8 (fld 2 fs) in
  let fl := d8 (fld 3 fs) in
  let fsv := d8 (fld 34 fs) in
  if negb (vd_checks ty (d8 (fld 0 fs)) (fld 1 fs) version fl (dle64 (fld 6 fs)) fsv (d8 (fld 35 fs))
             (dle32 (fld 7 fs)) (dle32 (fld 8 fs)) (dle16 (fld 10 fs)) (dle16 (fld 11 fs))
             (dle16 (fld 12 fs)) (dle16 (fld 13 fs)) (dle16 (fld 14 fs)) (dle16 (fld 15 fs))
             (dle32 (fld 16 fs)) (dle32 (fld 17 fs)))
  then None else
  (* PVD: a file structure version other than 1 is forcibly set to 1 *)
  let fsv := if ty =? VD_TYPE_PRIMARY then (if negb (fsv =? 1) then 1 else fsv) else fsv in
  let path_table_location_le := dle32 (fld 18 fs) in
  let path_table_location_be := swab32 (dle32 (fld 20 fs)) in
  let escape_sequences := fld 9 fs in
  do cdate <- parse_vddate (fld 30 fs);
  do mdate <- parse_vddate (fld 31 fs);
  do xdate <- parse_vddate (fld 32 fs);
  do edate <- parse_vddate (fld 33 fs);
  do root <- parse_root (fld 22 fs);
  Some (mk_vd ty version fl (fld 4 fs) (fld 5 fs) (dle32 (fld 7 fs)) escape_sequences
              (dle16 (fld 10 fs)) (dle16 (fld 12 fs)) (dle16 (fld 14 fs)) (dle32 (fld 16 fs))
              (path_table_location_be - path_table_location_le)
              path_table_location_le (dle32 (fld 19 fs)) path_table_location_be (dle32 (fld 21 fs))
              root (fld 23 fs) (fld 24 fs) (fld 25 fs) (fld 26 fs) (fld 27 fs) (fld 28 fs) (fld 29 fs)
              cdate mdate xdate edate fsv (fld 36 fs) (is_joliet_esc32 escape_sequences)).

(* parse(vd, extent_loc) of an object constructed with _vd_type = ty *)
Definition parse_vd (ty : Z) (vd : list Z) : option voldesc :=
  match split_widths (widths fmt_pvd_widths) vd with
  | Some (fs, _) => parse_vd_fields ty fs
  | None => None
  end.

Definition xa_sig : list Z := [67; 68; 45; 88; 65; 48; 48; 49].   (* b'CD-XA001' *)

(* new(flags, sys_ident, ..., xa, version, escape_sequence) on an object of type ty; now_date is the
   VolumeDescriptorDate of time.time(), vol_expire_date that of the vol_expire_date argument *)
Definition vd_new (ty fl : Z) (sys_ident vol_ident : list Z) (set_size seqnum log_block_size : Z)
    (vol_set_ident pub_ident_str preparer_ident_str app_ident_str copyright_file abstract_file
     bibli_file : list Z) (now_date vol_expire_date : vddate) (root_date : list Z)
    (app_use : list Z) (xa : bool) (version : Z) (escape_sequence : list Z) : option voldesc :=
  do (utf16, escape_sequences) <-
     (if ty =? VD_TYPE_PRIMARY then
        if negb (fl =? 0) || negb (is_nil escape_sequence) || negb (version =? 1) then None
        else Some (false, repeat 0 32)
      else if ty =? VD_TYPE_SUPPLEMENTARY then
        if negb ((version =? 1) || (version =? 2)) then None
        else Some (is_joliet_esc escape_sequence, ljust 32 0 escape_sequence)
      else None);
  if 32 <? zlen sys_ident then None else
  do system_identifier <- encode_space_pad sys_ident 32 utf16;
  if 32 <? zlen vol_ident then None else
  do volume_identifier <- encode_space_pad vol_ident 32 utf16;
  if set_size <? seqnum then None else
  do root <- root_new seqnum log_block_size root_date;
  if 128 <? zlen vol_set_ident then None else
  do volume_set_identifier <- encode_space_pad vol_set_ident 128 utf16;
  do pub <- encode_space_pad pub_ident_str 128 utf16;
  do prep <- encode_space_pad preparer_ident_str 128 utf16;
  do app <- encode_space_pad app_ident_str 128 utf16;
  do copyright <- encode_space_pad copyright_file 37 utf16;
  do abstract <- encode_space_pad abstract_file 37 utf16;
  do biblio <- encode_space_pad bibli_file 37 utf16;
  do application_use <-
     (if xa then
        if 141 <? zlen app_use then None
        else Some (ljust 512 32 (ljust 141 32 app_use ++ xa_sig ++ repeat 0 18))
      else if 512 <? zlen app_use then None else Some (ljust 512 32 app_use));
  Some (mk_vd ty version 0 system_identifier volume_identifier 17 escape_sequences set_size seqnum
              log_block_size 10 (ceiling_div 10 4096 * 2) 19 0 21 0 root volume_set_identifier
              pub prep app copyright abstract biblio now_date now_date vol_expire_date now_date
              version application_use utf16).

Definition pvd_factory sys vol set_size seqnum lbs volset pub prep app cpr abs bib now xdate rdate app_use xa :=
  vd_new VD_TYPE_PRIMARY 0 sys vol set_size seqnum lbs volset pub prep app cpr abs bib now xdate rdate
         app_use xa 1 [].
Definition enhanced_vd_factory sys vol set_size seqnum lbs volset pub prep app cpr abs bib now xdate rdate app_use xa :=
  vd_new VD_TYPE_SUPPLEMENTARY 0 sys vol set_size seqnum lbs volset pub prep app cpr abs bib now xdate
         rdate app_use xa 2 [].
Definition joliet_vd_factory (joliet : Z) sys vol set_size seqnum lbs volset pub prep app cpr abs bib now xdate rdate app_use xa :=
  do escape_sequence <- (if joliet =? 1 then Some esc_at else if joliet =? 2 then Some esc_c
                         else if joliet =? 3 then Some esc_e else None);
  vd_new VD_TYPE_SUPPLEMENTARY 0 sys vol set_size seqnum lbs volset pub prep app cpr abs bib now xdate
         rdate app_use xa 1 escape_sequence.

(* attribute updates: the accounting attributes, the path table locations and the root record *)
Definition vd_with (v : voldesc) (space ptsize ptextents ptloc_le ptloc_be : Z) (root : rootdr)
    (mdate : vddate) : voldesc :=
  mk_vd (vd_type v) (vd_version v) (vd_flags v) (vd_sysid v) (vd_volid v) space (vd_escape v)
        (vd_setsize v) (vd_seqnum v) (vd_lbs v) ptsize ptextents ptloc_le (vd_optloc_le v) ptloc_be
        (vd_optloc_be v) root (vd_volset v) (vd_pub v) (vd_prep v) (vd_app v) (vd_copyright v)
        (vd_abstract v) (vd_biblio v) (vd_cdate v) mdate (vd_xdate v) (vd_edate v) (vd_fsv v)
        (vd_appuse v) (vd_utf16 v).
Definition vd_set_space (v : voldesc) (space : Z) : voldesc :=
  vd_with v space (vd_ptsize v) (vd_ptextents v) (vd_ptloc_le v) (vd_ptloc_be v) (vd_root v) (vd_mdate v).
Definition vd_set_mdate (now : vddate) (v : voldesc) : voldesc :=
  vd_with v (vd_space v) (vd_ptsize v) (vd_ptextents v) (vd_ptloc_le v) (vd_ptloc_be v) (vd_root v) now.
(* root_dir_record.set_data_location / data_length updates done by pycdlib.py *)
Definition root_set_extent (r : rootdr) (ext len : Z) : rootdr :=
  let d := rd_rec r in
  mk_rootdr (rd_dr_len r) (rd_len_fi r)
    (mk_drec (xattr_len d) ext len (date d) (flags d) (unit_size d) (gap_size d) (seqnum d)
             (ident d) (sysuse d)).
Definition vd_set_root_extent (v : voldesc) (ext len : Z) : voldesc :=
  vd_with v (vd_space v) (vd_ptsize v) (vd_ptextents v) (vd_ptloc_le v) (vd_ptloc_be v)
          (root_set_extent (vd_root v) ext len) (vd_mdate v).

(* add_to_space_size / remove_from_space_size / copy_sizes *)
Definition add_to_space_size (space_size log_block_size addition_bytes : Z) : Z :=
  space_size + ceiling_div addition_bytes log_block_size.
Definition remove_from_space_size (space_size log_block_size removal_bytes : Z) : Z :=
  space_size - ceiling_div removal_bytes log_block_size.
Definition vd_add_to_space_size (v : voldesc) (n : Z) : voldesc :=
  vd_set_space v (add_to_space_size (vd_space v) (vd_lbs v) n).
Definition vd_remove_from_space_size (v : voldesc) (n : Z) : voldesc :=
  vd_set_space v (remove_from_space_size (vd_space v) (vd_lbs v) n).
Definition vd_copy_sizes (v other : voldesc) : voldesc :=
  vd_with v (vd_space other) (vd_ptsize other) (vd_ptextents other) (vd_ptloc_le v) (vd_ptloc_be v)
          (vd_root v) (vd_mdate v).

(* range predicate of the round trip *)
Definition vd_ok (v : voldesc) : bool :=
  (((vd_type v =? 1) && (vd_version v =? 1) && (vd_flags v =? 0) && (vd_fsv v =? 1)) ||
   ((vd_type v =? 2) && ((vd_version v =? 1) || (vd_version v =? 2)) &&
    ((vd_fsv v =? 1) || (vd_fsv v =? 2)))) &&
  vd_ranges_ok v &&
  len_is 32 (vd_sysid v) && len_is 32 (vd_volid v) && len_is 32 (vd_escape v) &&
  len_is 128 (vd_volset v) && len_is 128 (vd_pub v) && len_is 128 (vd_prep v) &&
  len_is 128 (vd_app v) && len_is 37 (vd_copyright v) && len_is 37 (vd_abstract v) &&
  len_is 37 (vd_biblio v) && len_is 512 (vd_appuse v) &&
  (vd_ptextents v =? vd_ptloc_be v - vd_ptloc_le v) && root_ok (vd_root v) &&
  vddate_ok (vd_cdate v) && vddate_ok (vd_xdate v) && vddate_ok (vd_edate v) &&
  Bool.eqb (vd_utf16 v) (is_joliet_esc32 (vd_escape v)).

(* ---- VolumeDescriptorSetTerminator ------------------------------------------------------- *)

(* the object has no recorded attribute: new() is the unit value *)
Definition record_vdst : list Z :=
  concat [[VD_TYPE_SET_TERMINATOR]; pack_s 5 cd001; [1]; pack_s 2041 (repeat 0 2041)].
Definition parse_vdst (vd : list Z) : option unit :=
  match split_widths (widths fmt_vdst_widths) vd with
  | Some (fs, _) =>
      let version := d8 (fld 2 fs) in
      if negb (d8 (fld 0 fs) =? VD_TYPE_SET_TERMINATOR) then None else
      if negb (zlist_eqb (fld 1 fs) cd001) then None else
      if negb ((version =? 0) || (version =? 1)) then None else Some tt
  | None => None
  end.

(* ---- BootRecord -------------------------------------------------------------------------- *)

Record bootrec := mk_br { br_sysid : list Z; br_ident : list Z; br_sysuse : list Z }.
Definition br_new (boot_system_id : list Z) : bootrec :=
  mk_br (ljust 32 0 boot_system_id) (repeat 0 32) (repeat 0 1977).
Definition record_br (b : bootrec) : list Z :=
  concat [[VD_TYPE_BOOT_RECORD]; pack_s 5 cd001; [1]; pack_s 32 (br_sysid b); pack_s 32 (br_ident b);
          pack_s 1977 (br_sysuse b)].
Definition parse_br (vd : list Z) : option bootrec :=
  match split_widths (widths fmt_br_widths) vd with
  | Some (fs, _) =>
      if negb (d8 (fld 0 fs) =? VD_TYPE_BOOT_RECORD) then None else
      if negb (zlist_eqb (fld 1 fs) cd001) then None else
      if negb (d8 (fld 2 fs) =? 1) then None else Some (mk_br (fld 3 fs) (fld 4 fs) (fld 5 fs))
  | None => None
  end.
Definition br_update_boot_system_use (b : bootrec) (boot_sys_use : list Z) : option bootrec :=
  if negb (len_is 1977 boot_sys_use) then None else Some (mk_br (br_sysid b) (br_ident b) boot_sys_use).
Definition br_ok (b : bootrec) : bool :=
  len_is 32 (br_sysid b) && len_is 32 (br_ident b) && len_is 1977 (br_sysuse b).

(* ---- executable checkers for the external differential harness --------------------------- *)

(* kind 0 PVD, 1 SVD (version 1), 2 enhanced VD (version 2), 3 terminator, 4 boot record: the real
   2048 bytes, decoded by the model's parse and re-recorded (clock := the parsed modification date),
   must give the same bytes *)
Definition check_vd_bytes (kind : Z) (b : list Z) : bool :=
  if kind =? 0 then
    match parse_vd 1 b with Some v => opt_bytes_eqb (record_vd (vd_mdate v) v) b | None => false end
  else if (kind =? 1) || (kind =? 2) then
    match parse_vd 2 b with
    | Some v => (vd_version v =? kind) && opt_bytes_eqb (record_vd (vd_mdate v) v) b
    | None => false end
  else if kind =? 3 then
    match parse_vdst b with Some _ => zlist_eqb record_vdst b | None => false end
  else if kind =? 4 then
    match parse_br b with Some r => zlist_eqb (record_br r) b | None => false end
  else false.

Definition vddate_of_str (s : list Z) : vddate :=
  match parse_vddate s with Some d => d | None => vddate_zero end.

(* new(...) of a descriptor of type ty (1 PVD; 2 SVD with version/escape), then the attribute
   updates pycdlib.py performs (space_size, path_tbl_size, path table locations, root extent and
   data length), then record() at a clock whose VolumeDescriptorDate string is mod17.
   now17 / exp17 = the 17-byte strings of volume_creation_date / volume_expiration_date,
   root7 = the root record's 7-byte date.  expected = [] stands for "the Python raised". *)
Definition check_vd_new_case (ty version : Z) (escape sys vol volset pub prep app cpr abs bib app_use : list Z)
    (xa : bool) (set_size seqnum lbs : Z) (now17 exp17 root7 : list Z)
    (space ptsize ptloc_le ptloc_be root_extent root_len : Z) (mod17 expected : list Z) : bool :=
  match vd_new ty 0 sys vol set_size seqnum lbs volset pub prep app cpr abs bib (vddate_of_str now17)
               (vddate_of_str exp17) root7 app_use xa version escape with
  | Some v =>
      let v := vd_with v space ptsize (vd_ptextents v) ptloc_le ptloc_be
                       (root_set_extent (vd_root v) root_extent root_len) (vd_mdate v) in
      opt_bytes_eqb (record_vd (vddate_of_str mod17) v) expected
  | None => is_nil expected
  end.

Definition check_pvd_new_case (sys vol volset pub prep app cpr abs bib app_use : list Z) (xa : bool)
    (set_size seqnum lbs : Z) (now17 exp17 root7 : list Z)
    (space ptsize ptloc_le ptloc_be root_extent root_len : Z) (mod17 expected : list Z) : bool :=
  check_vd_new_case 1 1 [] sys vol volset pub prep app cpr abs bib app_use xa set_size seqnum lbs
                    now17 exp17 root7 space ptsize ptloc_le ptloc_be root_extent root_len mod17 expected.

(* TUPLE ORDER of a new-case for the index-list functions:
     ((ty, version, xa), strs, nums, expected) with
     strs = [escape; sys; vol; volset; pub; prep; app; cpr; abs; bib; app_use; now17; exp17; root7; mod17]
     nums = [set_size; seqnum; lbs; space; ptsize; ptloc_le; ptloc_be; root_extent; root_len] *)
Definition vd_new_case : Type := ((Z * Z * bool) * list (list Z) * list Z * list Z)%type.
Definition check_vd_new_tuple (c : vd_new_case) : bool :=
  let '((ty, version, xa), strs, nums, expected) := c in
  let s k := nth k strs [] in
  let n k := nth k nums 0 in
  check_vd_new_case ty version (s 0%nat) (s 1%nat) (s 2%nat) (s 3%nat) (s 4%nat) (s 5%nat) (s 6%nat)
    (s 7%nat) (s 8%nat) (s 9%nat) (s 10%nat) xa (n 0%nat) (n 1%nat) (n 2%nat) (s 11%nat) (s 12%nat)
    (s 13%nat) (n 3%nat) (n 4%nat) (n 5%nat) (n 6%nat) (n 7%nat) (n 8%nat) (s 14%nat) expected.

Fixpoint bad_vd_new_cases (k : nat) (cs : list vd_new_case) : list nat :=
  match cs with
  | [] => []
  | c :: r => if check_vd_new_tuple c then bad_vd_new_cases (S k) r else k :: bad_vd_new_cases (S k) r
  end.
Fixpoint bad_vd_bytes_cases (k : nat) (cs : list (Z * list Z)) : list nat :=
  match cs with
  | [] => []
  | (kind, b) :: r =>
      if check_vd_bytes kind b then bad_vd_bytes_cases (S k) r else k :: bad_vd_bytes_cases (S k) r
  end.
(* 17-byte date strings: (datestr, (year, month, day, hour, minute, second, hundredths, gmtoffset),
   date_str after parse) as observed on dates.VolumeDescriptorDate().parse(datestr) *)
Definition check_vddate_case (s : list Z) (f : list Z) (out : list Z) : bool :=
  match parse_vddate s with
  | Some d => zlist_eqb [dd_year d; dd_month d; dd_day d; dd_hour d; dd_min d; dd_sec d; dd_hsec d; dd_off d] f
              && zlist_eqb (record_vddate d) out
  | None => is_nil out
  end.
Fixpoint bad_vddate_cases (k : nat) (cs : list (list Z * list Z * list Z)) : list nat :=
  match cs with
  | [] => []
  | (s, f, o) :: r =>
      if check_vddate_case s f o then bad_vddate_cases (S k) r else k :: bad_vddate_cases (S k) r
  end.
