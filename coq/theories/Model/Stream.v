(* Model of pycdlib/pycdlibio.py PyCdlibIO over a backing file with ONE shared OS-level
   position (inode.InodeOpenData hands every stream the same file object).
   Statement-by-statement: which methods seek, which advance _offset.
   [fixed = true]  is the code after the "fix:" commit (seek to startpos+offset before every
                   read; readinto advances the offset);
   [fixed = false] is the pinned original (no seek before read; readinto does not advance). *)
From Coq Require Import ZArith List Bool Lia.
From PV.Base Require Import Prim.
Import ListNotations.
Local Open Scope Z_scope.

Record stream := { st_start : Z; st_len : Z; st_off : Z; st_open : bool }.
Record world := { w_data : list Z; w_pos : Z; w_streams : list stream }.

Inductive out :=
| OBytes (l : list Z)      (* bytes returned by read/readall, or placed by readinto *)
| OInt (n : Z)             (* seek/tell result *)
| ORefused                 (* PyCdlibInvalidInput *)
| OUnit.

Inductive sop :=
| Open (start len : Z)                 (* open_file_from_iso(...).__enter__() *)
| Read (i : nat) (n : option Z)        (* read(n); None = read() *)
| ReadAll (i : nat)
| ReadInto (i : nat) (k : Z)           (* readinto(bytearray(k)) *)
| Seek (i : nat) (off whence : Z)
| Tell (i : nat)
| Close (i : nat)
| EnvSetPos (p : Z).                   (* any other reader of the image moved the shared position *)

(* file.read(n) at position pos: clipped at EOF; returns bytes and new position *)
Definition fread (data : list Z) (pos n : Z) : list Z * Z :=
  let r := slice pos (pos + n) data in (r, pos + zlen r).

Definition set_stream (i : nat) (s : stream) (l : list stream) : list stream :=
  firstn i l ++ s :: skipn (S i) l.

Definition upd (w : world) (i : nat) (s : stream) (pos : Z) : world :=
  {| w_data := w_data w; w_pos := pos; w_streams := set_stream i s (w_streams w) |}.

Definition with_off (s : stream) (o : Z) : stream :=
  {| st_start := st_start s; st_len := st_len s; st_off := o; st_open := st_open s |}.

Definition do_readall (fixed : bool) (w : world) (i : nat) (s : stream) : world * out :=
  let readsize := st_len s - st_off s in
  if readsize >? 0 then
    let pos := if fixed then st_start s + st_off s else w_pos w in
    let '(d, pos') := fread (w_data w) pos readsize in
    (upd w i (with_off s (st_off s + readsize)) pos', OBytes d)
  else (w, OBytes []).

Definition do_read (fixed : bool) (w : world) (i : nat) (s : stream) (n : option Z) : world * out :=
  if st_off s >=? st_len s then (w, OBytes [])
  else match n with
       | None => do_readall fixed w i s
       | Some size =>
         if size <? 0 then do_readall fixed w i s
         else
           let readsize := Z.min (st_len s - st_off s) size in
           let pos := if fixed then st_start s + st_off s else w_pos w in
           let '(d, pos') := fread (w_data w) pos readsize in
           (upd w i (with_off s (st_off s + readsize)) pos', OBytes d)
       end.

Definition do_readinto (fixed : bool) (w : world) (i : nat) (s : stream) (k : Z) : world * out :=
  let readsize := st_len s - st_off s in
  if readsize >? 0 then
    let readsize := Z.min readsize k in
    let pos := if fixed then st_start s + st_off s else w_pos w in
    let '(d, pos') := fread (w_data w) pos readsize in
    (upd w i (with_off s (if fixed then st_off s + zlen d else st_off s)) pos', OBytes d)
  else (w, OBytes []).

Definition do_seek (w : world) (i : nat) (s : stream) (offset whence : Z) : world * out :=
  if whence =? 0 then
    if offset <? 0 then (w, ORefused)
    else
      let pos := if offset <? st_len s then st_start s + offset else w_pos w in
      (upd w i (with_off s offset) pos, OInt offset)
  else if whence =? 1 then
    if st_off s + offset <? 0 then (w, ORefused)
    else
      let pos := if st_off s + offset <? st_len s then st_start s + st_off s + offset else w_pos w in
      (upd w i (with_off s (st_off s + offset)) pos, OInt (st_off s + offset))
  else if whence =? 2 then
    if (offset <? 0) && (Z.abs offset >? st_len s) then (w, ORefused)
    else
      let pos := if st_len s + offset <? st_len s then st_start s + st_len s + offset else w_pos w in
      (upd w i (with_off s (st_len s + offset)) pos, OInt (st_len s + offset))
  else (w, ORefused).

Definition step (fixed : bool) (w : world) (o : sop) : world * out :=
  match o with
  | Open start len =>
    ({| w_data := w_data w; w_pos := start;
        w_streams := w_streams w ++ [{| st_start := start; st_len := len; st_off := 0; st_open := true |}] |},
     OUnit)
  | EnvSetPos p => ({| w_data := w_data w; w_pos := p; w_streams := w_streams w |}, OUnit)
  | Read i n => match nth_error (w_streams w) i with
                | None => (w, OUnit)
                | Some s => if st_open s then do_read fixed w i s n else (w, ORefused) end
  | ReadAll i => match nth_error (w_streams w) i with
                 | None => (w, OUnit)
                 | Some s => if st_open s then do_readall fixed w i s else (w, ORefused) end
  | ReadInto i k => match nth_error (w_streams w) i with
                    | None => (w, OUnit)
                    | Some s => if st_open s then do_readinto fixed w i s k else (w, ORefused) end
  | Seek i off wh => match nth_error (w_streams w) i with
                     | None => (w, OUnit)
                     | Some s => if st_open s then do_seek w i s off wh else (w, ORefused) end
  | Tell i => match nth_error (w_streams w) i with
              | None => (w, OUnit)
              | Some s => if st_open s then (w, OInt (st_off s)) else (w, ORefused) end
  | Close i => match nth_error (w_streams w) i with
               | None => (w, OUnit)
               | Some s => (upd w i {| st_start := st_start s; st_len := st_len s; st_off := st_off s;
                                       st_open := false |} (w_pos w), OUnit) end
  end.

Fixpoint run (fixed : bool) (w : world) (ops : list sop) : list out :=
  match ops with
  | [] => []
  | o :: r => let '(w', x) := step fixed w o in x :: run fixed w' r
  end.

(* ------------------------------------------------------------------ the specification:
   each stream alone is an in-memory binary stream over ITS file's content. *)
Record astream := { a_content : list Z; a_pos : Z; a_open : bool }.

Definition a_with (s : astream) (p : Z) : astream :=
  {| a_content := a_content s; a_pos := p; a_open := a_open s |}.

Definition aset (i : nat) (s : astream) (l : list astream) := firstn i l ++ s :: skipn (S i) l.

Definition spec_read (s : astream) (n : Z) : astream * out :=
  (* bytes [p, p+n) of the content clipped at its end; position advances by what was returned *)
  let len := zlen (a_content s) in
  if a_pos s >=? len then (s, OBytes [])
  else let k := Z.min (len - a_pos s) n in
       (a_with s (a_pos s + k), OBytes (slice (a_pos s) (a_pos s + k) (a_content s))).

Definition spec_step (data : list Z) (l : list astream) (o : sop) : list astream * out :=
  match o with
  | Open start len => (l ++ [{| a_content := slice start (start + len) data; a_pos := 0; a_open := true |}], OUnit)
  | EnvSetPos _ => (l, OUnit)
  | Read i n => match nth_error l i with
    | None => (l, OUnit)
    | Some s => if a_open s then
        let len := zlen (a_content s) in
        let want := match n with None => len | Some k => if k <? 0 then len else k end in
        let '(s', x) := spec_read s want in (aset i s' l, x)
      else (l, ORefused) end
  | ReadAll i => match nth_error l i with
    | None => (l, OUnit)
    | Some s => if a_open s then let '(s', x) := spec_read s (zlen (a_content s)) in (aset i s' l, x)
                else (l, ORefused) end
  | ReadInto i k => match nth_error l i with
    | None => (l, OUnit)
    | Some s => if a_open s then let '(s', x) := spec_read s (Z.max k 0) in (aset i s' l, x)
                else (l, ORefused) end
  | Seek i off wh => match nth_error l i with
    | None => (l, OUnit)
    | Some s => if a_open s then
        let len := zlen (a_content s) in
        let target := if wh =? 0 then Some off else if wh =? 1 then Some (a_pos s + off)
                      else if wh =? 2 then Some (len + off) else None in
        match target with
        | Some t => if t <? 0 then (l, ORefused) else (aset i (a_with s t) l, OInt t)
        | None => (l, ORefused)
        end
      else (l, ORefused) end
  | Tell i => match nth_error l i with
    | None => (l, OUnit)
    | Some s => if a_open s then (l, OInt (a_pos s)) else (l, ORefused) end
  | Close i => match nth_error l i with
    | None => (l, OUnit)
    | Some s => (aset i {| a_content := a_content s; a_pos := a_pos s; a_open := false |} l, OUnit) end
  end.

Fixpoint spec_run (data : list Z) (l : list astream) (ops : list sop) : list out :=
  match ops with
  | [] => []
  | o :: r => let '(l', x) := spec_step data l o in x :: spec_run data l' r
  end.

Definition abs_stream (data : list Z) (s : stream) : astream :=
  {| a_content := slice (st_start s) (st_start s + st_len s) data; a_pos := st_off s; a_open := st_open s |}.
Definition abs (w : world) : list astream := map (abs_stream (w_data w)) (w_streams w).

(* well-formedness: every stream's file lies inside the backing file *)
Definition wf_stream (data : list Z) (s : stream) : Prop :=
  0 <= st_start s /\ 0 <= st_len s /\ st_start s + st_len s <= zlen data /\ 0 <= st_off s.
Definition wf (w : world) : Prop := Forall (wf_stream (w_data w)) (w_streams w).
Definition op_ok (data : list Z) (o : sop) : Prop :=
  match o with
  | Open start len => 0 <= start /\ 0 <= len /\ start + len <= zlen data
  | ReadInto _ k => 0 <= k
  | _ => True end.
