(* pycdlib's OWN parser of the directory area of a plain ISO9660 image (PyCdlib._walk_directories),
   composed with the writer model of Model/Master.v.

   Fragment (as Master.v): one PVD, no Rock Ridge / Joliet / UDF / El Torito / XA, logical block
   size 2048, one extent per file.  An input outside the fragment is answered [PUnsupported], an
   input on which the library raises is answered [PInvalid] (the number names the raise statement).

   Sources modelled (statement by statement; all in /repo/pycdlib):
     pycdlib.py  _walk_directories: dirs = deque([root]); the 'Directory loop' / 'Overlapping directories'
                 tests (ps_enter); seek + read of
                 data_length bytes; `while offset < length`; 'Invalid directory record' (short
                 data); lenbyte == 0 -> padsize / 'Invalid padding on ISO'; DirectoryRecord.parse
                 of data[offset:offset+lenbyte]; the Inode created or SHARED through the dict
                 extent_to_inode (zero-length files: extent 0, length 0, never entered in the dict,
                 so each gets an Inode of its own -- commit 1d57d0b); the truncation of files that
                 end beyond the end of the image; lastbyte; dirs.append + extent_to_ptr[extent]
                 (KeyError -> PyCdlibInvalidISO through _open_fp_checked); track_child with the
                 duplicate-name retry; interchange level inference        -> ps_record, ps_scan, ps_walk
     pycdlib.py  _interchange_level_from_filename / _from_directory           -> ps_level_file / _dir
     dr.py       DirectoryRecord.parse (parent given)                         -> Codec.parse_dr (reused)
                 the XA / Rock Ridge detection in the bytes after the name: a record with an 'XA'
                 or a Rock Ridge signature there is outside the fragment      -> ps_outside, PUnsupported 1
     dr.py       __lt__, bisect.bisect_left (a real binary search), _add_child (check_overflow =
                 False), _recalculate_extents_and_offsets(index)              -> ps_lt, ps_bisect, ps_track
     dr.py       record() of a PARSED record (stored dr_len and len_fi)       -> ps_rec_bytes
     pycdlib.py  _write_directory_records on the opened object (no reshuffle: the extents are the
                 parsed ones)                                                 -> ps_write
     inode.py    Inode.parse (extent, length)                                 -> the pairs of s_inodes

   The parsed OBJECT GRAPH is a heap: directory k (k = the order in which the walk pops it; the
   root is 0) has the children list [nth k g_dirs]; a record carries its parsed fields, its cached
   position (index_in_parent, extents_to_here, offset_to_here), [p_ino] = the index in
   PyCdlib.inodes of the Inode it is linked to, [p_dir] = the number of the directory it heads.

   [graph_of] is the object graph the WRITER had, numbered breadth first in the same way: it is
   built from the writer's record objects (Master.ms_kid_rec), Pack.cached and Account.dr_len_of,
   with no bytes, no search and no check.  Definitions only; proofs are in Proofs/Parse*.v. *)
From Coq Require Import ZArith List Bool.
From PV.Base Require Import Prim.
From PV.Gen Require Import GenConst GenFun.
From PV.Model Require Import Codec Pack PathTable Names Master.
From PV.Model Require Export ParseCore.
From PV.Model Require Account.
Import ListNotations.
Local Open Scope Z_scope.

(* ---- the writer's object graph, numbered breadth first ---------------------------------------------- *)

Definition ps_push_cur (st : pstate) (c : prec) : pstate :=
  mk_pstate (s_dirs st) (s_cur st ++ [c]) (s_queue st) (s_inodes st) (s_e2i st) (s_seen st)
            (s_level st) (s_lastbyte st).

(* the record objects of children[2:], with index_in_parent 2 + j and the cached positions [cache] *)
Fixpoint ps_spec_kids (dt : list Z) (DB FB : list dirrec) (p : list nat) (j : nat) (kids : list node)
         (cache : list (Z * Z)) (st : pstate) : pstate :=
  match kids, cache with
  | c :: r, (eth, oth) :: cr =>
      let rc := ms_kid_rec dt DB FB (p ++ [j]) c in
      let nm := Account.name_of c in
      let mk := fun ino dir => mk_prec rc (Account.dr_len_of nm) (zlen nm) (data_len rc) ino dir
                                       (Z.of_nat (2 + j)) eth oth in
      let st' :=
        match c with
        | File _ len =>
            let i := length (s_inodes st) in
            let e := if len =? 0 then 0 else extent rc in
            mk_pstate (s_dirs st) (s_cur st ++ [mk (Some i) None]) (s_queue st)
                      (s_inodes st ++ [(e, len)])
                      (if len =? 0 then s_e2i st else s_e2i st ++ [(e, i)])
                      (s_seen st) (s_level st) (Z.max (s_lastbyte st) (e * BS + len))
        | Dir _ dl _ =>
            let k := (length (s_dirs st) + 1 + length (s_queue st))%nat in
            mk_pstate (s_dirs st) (s_cur st ++ [mk None (Some k)]) (s_queue st ++ [(extent rc, dl)])
                      (s_inodes st) (s_e2i st) (s_seen st) (s_level st) (s_lastbyte st)
        end in
      ps_spec_kids dt DB FB p (S j) r cr st'
  | _, _ => st
  end.

(* the blocks of a directory extent of data_length dl *)
Definition ps_blocks_of (ext dl : Z) : list Z :=
  map (fun k => ext + Z.of_nat k) (seq 0 (Z.to_nat (Z.max (ceiling_div dl BS) 1))).

Definition ps_dot_prec (r : drec) (i eth oth : Z) : prec := mk_prec r 34 1 (data_len r) None None i eth oth.

(* the directory at position p (data_length dl, children[2:] = kids) *)
Definition ps_spec_dir (dt : list Z) (t : node) (DB FB : list dirrec) (p : list nat) (dl : Z)
           (kids : list node) (st : pstate) : pstate :=
  let cache := cached BS (34 :: 34 :: map Account.dr_len_of (map Account.name_of kids)) in
  let dot := ms_rec dt (ms_ext_at DB p) dl 2 [0] in
  let dotdot := ms_rec dt (ms_ext_at DB (removelast p)) (ms_dlen_at t (removelast p)) 2 [1] in
  let st0 := mk_pstate (s_dirs st) [ps_dot_prec dot 0 1 34; ps_dot_prec dotdot 1 1 68] (tl (s_queue st))
                       (s_inodes st) (s_e2i st) (ps_blocks_of (ms_ext_at DB p) dl ++ s_seen st) 3 (s_lastbyte st) in
  ps_end_dir (ps_spec_kids dt DB FB p 0 kids (skipn 2 cache) st0).

Fixpoint ps_items (p : list nat) (j : nat) (kids : list node) : list (list nat * node) :=
  match kids with
  | [] => []
  | c :: r => (p ++ [j], c) :: ps_items p (S j) r
  end.

(* the walk over every record object (the deque of _reassign_vd_dirrecord_extents, which is the
   order of PathTable.wgo); a file record has nothing below it *)
Fixpoint ps_gwalk (fuel : nat) (dt : list Z) (t : node) (DB FB : list dirrec)
         (items : list (list nat * node)) (st : pstate) : pstate :=
  match fuel with
  | O => st
  | S f =>
      match items with
      | [] => st
      | (p, File _ _) :: q => ps_gwalk f dt t DB FB q st
      | (p, Dir _ dl kids) :: q =>
          ps_gwalk f dt t DB FB (q ++ ps_items p 0 kids) (ps_spec_dir dt t DB FB p dl kids st)
      end
  end.

Definition graph_of (dt : list Z) (t : node) : pgraph :=
  ps_graph (ps_gwalk (tsize (ms_dtree t)) dt t (ms_DB t) (ms_FB t) [([], t)]
                     (ps_init (root_extent t) (root_len t))).

(* what the L path table of the mastered image holds: one record per directory, in written order *)
Definition ps_ptr_exts (t : node) : list Z := map (ms_ext_at (ms_DB t)) (ms_dir_positions t).

Definition ps_fuel (t : node) : nat := S (tsize (ms_dtree t)).
(* ---- from the opened object back to a tree --------------------------------------------------------- *)

(* children[2:] of directory [id]; a record that heads a directory becomes Dir, any other File;
   lengths are the records' data_length *)
Fixpoint ps_tree_kids (fuel : nat) (dirs : list (list prec)) (id : nat) : list node :=
  match fuel with
  | O => []
  | S f =>
      map (fun c => match p_dir c with
                    | Some k => Dir (Codec.ident (p_rec c)) (p_dlen c) (ps_tree_kids f dirs k)
                    | None => File (Codec.ident (p_rec c)) (p_dlen c)
                    end)
          (skipn 2 (nth id dirs []))
  end.

Definition tree_of (g : pgraph) (root_len : Z) : node :=
  Dir [0] root_len (ps_tree_kids (length (g_dirs g)) (g_dirs g) 0).

(* ---- write_fp of the opened object: _write_directory_records --------------------------------------- *)

(* DirectoryRecord.record() of a parsed record *)
Definition ps_rec_bytes (c : prec) : option (list Z) :=
  let r := p_rec c in
  enc_dr_raw (p_drlen c) (p_lenfi c)
             (mk_drec (xattr_len r) (extent r) (p_dlen c) (date r) (flags r) (unit_size r) (gap_size r)
                      (seqnum r) (Codec.ident r) (sysuse r)).

Fixpoint ps_opt_all {A} (l : list (option A)) : option (list A) :=
  match l with
  | [] => Some []
  | Some a :: r => match ps_opt_all r with Some b => Some (a :: b) | None => None end
  | None :: _ => None
  end.

Definition ps_child_dirs (ch : list prec) : list (nat * Z * Z) :=
  flat_map (fun c => if ps_is_dir (p_rec c) && negb (ps_is_dot (p_rec c) || ps_is_dotdot (p_rec c))
                     then match p_dir c with
                          | Some k => [(k, extent (p_rec c), p_dlen c)]
                          | None => []
                          end
                     else []) ch.

Fixpoint ps_wwalk (fuel : nat) (dirs : list (list prec)) (queue : list (nat * Z * Z)) : option image :=
  match fuel with
  | O => match queue with [] => Some [] | _ => None end
  | S f =>
      match queue with
      | [] => Some []
      | (id, ext, dl) :: q =>
          let ch := nth id dirs [] in
          match ps_opt_all (map ps_rec_bytes ch), ps_wwalk f dirs (q ++ ps_child_dirs ch) with
          | Some bs, Some rest => Some ((ext, ms_dir_bytes dl bs) :: rest)
          | _, _ => None
          end
      end
  end.

Definition ps_write (g : pgraph) (root_ext root_len : Z) : option image :=
  ps_wwalk (length (g_dirs g)) (g_dirs g) [(0%nat, root_ext, root_len)].

(* ---- names the library itself accepts (Account.step_add_file / step_add_dir test exactly this) ----- *)

Fixpoint ps_names_ok (n : node) : bool :=
  match n with
  | File nm _ => match check_iso9660_filename nm 3 with Accept => true | _ => false end
  | Dir nm _ kids =>
      match check_iso9660_directory nm 3 with Accept => true | _ => false end
      && forallb ps_names_ok kids
  end.

Definition ps_tree_ok (t : node) : bool :=
  wf_tree t && forallb ps_names_ok (Account.kids_of t).

Definition ps_all_recs (g : pgraph) : list prec := concat (g_dirs g).

(* ---- harness -------------------------------------------------------------------------------------------- *)

(* a record as the tool reads it off the opened object:
   (file_ident, file_flags, extent_location(), data_length, dr_len,
    (index_in_parent, extents_to_here, offset_to_here), (inode index or -1, directory number or -1)) *)
Definition erec : Type := (list Z * Z * Z * Z * Z * (Z * Z * Z) * (Z * Z))%type.
Definition ps_oz (o : option nat) : Z := match o with Some k => Z.of_nat k | None => -1 end.
Definition ps_erec_of (c : prec) : erec :=
  (Codec.ident (p_rec c), flags (p_rec c), extent (p_rec c), p_dlen c, p_drlen c,
   (p_idx c, p_eth c, p_oth c), (ps_oz (p_ino c), ps_oz (p_dir c))).
Definition ps_erec_eqb (a b : erec) : bool :=
  let '(n1, f1, e1, l1, d1, (i1, x1, o1), (k1, m1)) := a in
  let '(n2, f2, e2, l2, d2, (i2, x2, o2), (k2, m2)) := b in
  zlist_eqb n1 n2 && (f1 =? f2) && (e1 =? e2) && (l1 =? l2) && (d1 =? d2) && (i1 =? i2) && (x1 =? x2)
  && (o1 =? o2) && (k1 =? k2) && (m1 =? m2).
Fixpoint ps_list_eqb {A} (eqb : A -> A -> bool) (a b : list A) : bool :=
  match a, b with
  | [], [] => true
  | x :: a', y :: b' => eqb x y && ps_list_eqb eqb a' b'
  | _, _ => false
  end.

(* the expected graph: children lists in walk order, iso.inodes as (extent_location(), length),
   interchange_level, the largest end of file data *)
Definition egraph : Type := (list (list erec) * list (Z * Z) * Z * Z)%type.
Definition ps_graph_eqb (g : pgraph) (e : egraph) : bool :=
  let '(dirs, inodes, lvl, lastb) := e in
  ps_list_eqb (ps_list_eqb ps_erec_eqb) (map (map ps_erec_of) (g_dirs g)) dirs
  && zz_list_eqb (g_inodes g) inodes && (g_level g =? lvl) && (g_lastbyte g =? lastb).
Fixpoint ps_node_eqb (a b : node) : bool :=
  match a, b with
  | File n1 l1, File n2 l2 => zlist_eqb n1 n2 && (l1 =? l2)
  | Dir n1 l1 k1, Dir n2 l2 k2 =>
      zlist_eqb n1 n2 && (l1 =? l2) &&
      (fix go (x y : list node) : bool :=
         match x, y with
         | [], [] => true
         | a' :: x', b' :: y' => ps_node_eqb a' b' && go x' y'
         | _, _ => false
         end) k1 k2
  | _, _ => false
  end.

(* a case: (the writer's tree if the history has no hard link, date bytes, (root extent, root length),
            extents of the L path table records, length of the image in bytes,
            [(extent, run-length coded bytes of the directory)] in written order,
            the object graph read off the opened object, second image = first image) *)
Definition ps_case : Type :=
  (option node * list Z * (Z * Z) * list Z * Z * list (Z * list (Z * list Z)) * egraph * bool)%type.
Definition ps_case_ok (c : ps_case) : bool :=
  let '(ot, dt, (re, rl), ptr, isz, expected, eg, fix_flag) := c in
  let img := map (fun x : Z * list (Z * list Z) => (fst x, ms_unrle (snd x))) expected in
  match parse (S (length img)) img ptr isz re rl with
  | POk g =>
      ps_graph_eqb g eg &&
      Bool.eqb fix_flag (match ps_write g re rl with Some w => ms_image_eqb w img | None => false end) &&
      match ot with
      | None => true
      | Some t =>
          ps_tree_ok t && (re =? root_extent t) && (rl =? root_len t) &&
          ps_list_eqb Z.eqb ptr (ps_ptr_exts t) && (ms_layout_end t * BS <=? isz) &&
          match master dt t with Some m => ms_image_eqb m img | None => false end &&
          ps_graph_eqb (graph_of dt t) eg &&
          ps_node_eqb (tree_of g rl) t
      end
  | _ => false
  end.
Fixpoint bad_parse_cases (k : nat) (cs : list ps_case) : list nat :=
  match cs with
  | [] => []
  | c :: r => if ps_case_ok c then bad_parse_cases (S k) r else k :: bad_parse_cases (S k) r
  end.
