(* pycdlib's OWN parser of the directory area of a plain ISO9660 image (PyCdlib._walk_directories),
   composed with the writer model of Model/Master.v.

   Fragment (as Master.v): one PVD, no Rock Ridge / Joliet / UDF / El Torito / XA, logical block
   size 2048, one extent per file.  An input outside the fragment is answered [PUnsupported], an
   input on which the library raises is answered [PInvalid] (the number names the raise statement).

   Sources modelled (statement by statement; all in /repo/pycdlib):
     pycdlib.py  _walk_directories: dirs = deque([root]); the 'Directory loop' / 'Overlapping directories'
                 tests (ps_enter); seek + read of
                 data_length bytes; `while offset < length`; 'Invalid directory record' (short
                 data); lenbyte == 0 -> padsize / 'Invalid padding on ISO'; DirectoryRecord.parse
                 of data[offset:offset+lenbyte]; the Inode created or SHARED through the dict
                 extent_to_inode (zero-length files: extent 0, length 0, never entered in the dict,
                 so each gets an Inode of its own -- commit 1d57d0b); the truncation of files that
                 end beyond the end of the image; lastbyte; dirs.append + extent_to_ptr[extent]
                 (KeyError -> PyCdlibInvalidISO through _open_fp_checked); track_child with the
                 duplicate-name retry; interchange level inference        -> ps_record, ps_scan, ps_walk
     pycdlib.py  _interchange_level_from_filename / _from_directory           -> ps_level_file / _dir
     dr.py       DirectoryRecord.parse (parent given)                         -> Codec.parse_dr (reused)
                 the XA / Rock Ridge detection in the bytes after the name: a record with an 'XA'
                 or a Rock Ridge signature there is outside the fragment      -> ps_outside, PUnsupported 1
     dr.py       __lt__, bisect.bisect_left (a real binary search), _add_child (check_overflow =
                 False), _recalculate_extents_and_offsets(index)              -> ps_lt, ps_bisect, ps_track
     dr.py       record() of a PARSED record (stored dr_len and len_fi)       -> ps_rec_bytes
     pycdlib.py  _write_directory_records on the opened object (no reshuffle: the extents are the
                 parsed ones)                                                 -> ps_write
     inode.py    Inode.parse (extent, length)                                 -> the pairs of s_inodes

   The parsed OBJECT GRAPH is a heap: directory k (k = the order in which the walk pops it; the
   root is 0) has the children list [nth k g_dirs]; a record carries its parsed fields, its cached
   position (index_in_parent, extents_to_here, offset_to_here), [p_ino] = the index in
   PyCdlib.inodes of the Inode it is linked to, [p_dir] = the number of the directory it heads.

   [graph_of] is the object graph the WRITER had, numbered breadth first in the same way: it is
   built from the writer's record objects (Master.ms_kid_rec), Pack.cached and Account.dr_len_of,
   with no bytes, no search and no check.  Definitions only; proofs are in Proofs/Parse*.v. *)
From Coq Require Import ZArith List Bool.
From PV.Base Require Import Prim.
From PV.Gen Require Import GenConst GenFun.
From PV.Model Require Import Codec Pack PathTable Names Master.
From PV.Model Require Account.
Import ListNotations.
Local Open Scope Z_scope.

Inductive presult (A : Type) : Type :=
| POk (a : A)
| PInvalid (why : Z)          (* the library raises (PyCdlibInvalidISO, or PyCdlibInvalidInput for 4) *)
| PUnsupported (why : Z)      (* outside the modelled fragment *)
| PFuel.
Arguments POk {A} a. Arguments PInvalid {A} why. Arguments PUnsupported {A} why. Arguments PFuel {A}.

(* a DirectoryRecord object after parse *)
Record prec := mk_prec {
  p_rec : drec;              (* the fields DirectoryRecord.parse read (extent = orig_extent_loc) *)
  p_drlen : Z;               (* self.dr_len: byte 0 of the record *)
  p_lenfi : Z;               (* self.len_fi: byte 32 *)
  p_dlen : Z;                (* self.data_length now (set_data_length may have changed it) *)
  p_ino : option nat;        (* self.inode: index in PyCdlib.inodes *)
  p_dir : option nat;        (* the directory this record heads (it was appended to `dirs`) *)
  p_idx : Z; p_eth : Z; p_oth : Z }.   (* index_in_parent, extents_to_here, offset_to_here *)

Record pstate := mk_pstate {
  s_dirs : list (list prec);     (* children lists of the directories walked completely *)
  s_cur : list prec;             (* dir_record.children of the directory being read *)
  s_queue : list (Z * Z);        (* dirs: (extent_location(), get_data_length()) *)
  s_inodes : list (Z * Z);       (* self.inodes: (orig_extent_loc, data_length) *)
  s_e2i : list (Z * nat);        (* extent_to_inode *)
  s_seen : list Z;               (* seen_dir_extents *)
  s_level : Z; s_lastbyte : Z }.

Definition ps_mem (x : Z) (l : list Z) : bool := existsb (Z.eqb x) l.
Fixpoint ps_assoc (x : Z) (l : list (Z * nat)) : option nat :=
  match l with
  | [] => None
  | (k, v) :: r => if k =? x then Some v else ps_assoc x r
  end.

(* ---- names ------------------------------------------------------------------------------------ *)

Definition ps_is_dot (r : drec) : bool := zlist_eqb (Codec.ident r) [0].
Definition ps_is_dotdot (r : drec) : bool := zlist_eqb (Codec.ident r) [1].
Definition ps_is_dir (r : drec) : bool := flag_set (flags r) 1.
Definition ps_is_assoc (r : drec) : bool := flag_set (flags r) 2.

(* file_identifier(): _printable_name *)
Definition ps_printable (r : drec) : list Z :=
  if ps_is_dot r then [46] else if ps_is_dotdot r then [46; 46] else Codec.ident r.

(* DirectoryRecord.__lt__ on file_ident *)
Definition ps_lt (a b : list Z) : bool :=
  if zlist_eqb a [0] then negb (zlist_eqb b [0])
  else if zlist_eqb b [0] then false
  else if zlist_eqb a [1] then true
  else if zlist_eqb b [1] then false
  else Account.bytes_ltb a b.

(* _interchange_level_from_directory *)
Definition ps_level_dir (name : list Z) : Z :=
  if (zlen name >? 8) || negb (all_d1 name) then 3 else 1.

(* _interchange_level_from_filename; None = int(version) raised ValueError *)
Definition ps_level_file (full : list Z) : option Z :=
  let '(name, ext, version) := split_iso9660_filename full in
  let vbad := match version with
              | [] => Some false
              | _ => match py_int version with
                     | Some v => Some ((v <? 1) || (v >? 32767))
                     | None => None
                     end
              end in
  match vbad with
  | None => None
  | Some b =>
      Some (if b || Names.mem semi name || Names.mem semi ext || (zlen name >? 8) || (zlen ext >? 3)
               || negb (all_d1 name && all_d1 ext) then 3 else 1)
  end.

(* ---- track_child ------------------------------------------------------------------------------ *)

(* bisect.bisect_left(children, child): lo, hi = 0, len; while lo < hi: mid = (lo + hi) // 2;
   if children[mid] < child: lo = mid + 1 else: hi = mid *)
Fixpoint ps_bisect (fuel : nat) (lt : prec -> bool) (l : list prec) (lo hi : nat) : nat :=
  match fuel with
  | O => lo
  | S f =>
      if (lo <? hi)%nat then
        let mid := ((lo + hi) / 2)%nat in
        match nth_error l mid with
        | Some a => if lt a then ps_bisect f lt l (S mid) hi else ps_bisect f lt l lo mid
        | None => lo
        end
      else lo
  end.

Definition ps_set_cache (c : prec) (i eth oth : Z) : prec :=
  mk_prec (p_rec c) (p_drlen c) (p_lenfi c) (p_dlen c) (p_ino c) (p_dir c) i eth oth.

(* the loop of _recalculate_extents_and_offsets over children[index:] *)
Fixpoint ps_renum (i : nat) (n off : Z) (l : list prec) : list prec :=
  match l with
  | [] => []
  | c :: r =>
      let n' := if (off + p_drlen c) >? BS then n + 1 else n in
      let off' := (if (off + p_drlen c) >? BS then 0 else off) + p_drlen c in
      ps_set_cache c (Z.of_nat i) n' off' :: ps_renum (S i) n' off' r
  end.

Definition ps_recalc (index : nat) (l : list prec) : list prec :=
  let start := match index with
               | O => (1, 0)
               | S k => match nth_error l k with
                        | Some c => (p_eth c, p_oth c)
                        | None => (1, 0)
                        end
               end in
  firstn index l ++ ps_renum index (fst start) (snd start) (skipn index l).

(* parent.track_child(new_record) with the retry of _walk_directories;
   [last] = last_record.file_identifier() *)
Definition ps_track (cur : list prec) (child : prec) (last : option (list Z)) : presult (list prec) :=
  let nm := Codec.ident (p_rec child) in
  let index := ps_bisect (S (length cur)) (fun a => ps_lt (Codec.ident (p_rec a)) nm) cur 0 (length cur) in
  let dup := match nth_error cur index with
             | Some c => zlist_eqb (Codec.ident (p_rec c)) nm && negb (ps_is_assoc (p_rec c))
                         && negb (ps_is_assoc (p_rec child))
             | None => false
             end in
  if dup then
    if ps_is_dir (p_rec child)
       || match last with
          | None => true
          | Some l => negb (zlist_eqb l (ps_printable (p_rec child)))
          end
    then PInvalid 4                     (* 'Failed adding duplicate name to parent' *)
    else PUnsupported 2                 (* a further extent of a multi-extent file *)
  else POk (ps_recalc index (insert_at index child cur)).

(* ---- the Inode of a file record ------------------------------------------------------------------ *)

Definition ps_set_dlen (i : nat) (v : Z) (c : prec) : prec :=
  match p_ino c with
  | Some k => if Nat.eqb k i
              then mk_prec (p_rec c) (p_drlen c) (p_lenfi c) v (p_ino c) (p_dir c) (p_idx c) (p_eth c) (p_oth c)
              else c
  | None => c
  end.

Definition ps_set_ilen (i : nat) (v : Z) (l : list (Z * Z)) : list (Z * Z) :=
  match nth_error l i with
  | Some (e, _) => firstn i l ++ (e, v) :: skipn (S i) l
  | None => l
  end.

(* returns (index of the inode, data_length of the new record, new state).
   [fixed = true]: the code after commit 10cfb30 -- a file that ends beyond the end of the image: the Inode
   AND every record linked to it get the bytes that are left (rec.set_data_length(inode.data_length));
   [fixed = false]: the code before it, rec.set_data_length(new_end) = the ABSOLUTE end offset *)
Definition ps_link_gen (fixed : bool) (isz : Z) (st : pstate) (ext dl : Z) : nat * Z * pstate :=
  let len_to_use := if dl =? 0 then 0 else dl in
  let extent_to_use := if dl =? 0 then 0 else ext in
  let found := if negb (len_to_use =? 0) then ps_assoc extent_to_use (s_e2i st) else None in
  let i := match found with Some i => i | None => length (s_inodes st) end in
  let inodes1 := match found with
                 | Some _ => s_inodes st
                 | None => s_inodes st ++ [(extent_to_use, len_to_use)]
                 end in
  let e2i1 := match found with
              | Some _ => s_e2i st
              | None => if negb (len_to_use =? 0) then s_e2i st ++ [(extent_to_use, i)] else s_e2i st
              end in
  let new_end := extent_to_use * BS + len_to_use in
  if new_end >? isz then
    let left := isz - extent_to_use * BS in
    let v := if fixed then left else new_end in
    (i, v,
     mk_pstate (map (map (ps_set_dlen i v)) (s_dirs st)) (map (ps_set_dlen i v) (s_cur st))
               (s_queue st) (ps_set_ilen i left inodes1) e2i1 (s_seen st)
               (s_level st) (s_lastbyte st))
  else
    (i, dl,
     mk_pstate (s_dirs st) (s_cur st) (s_queue st) inodes1 e2i1 (s_seen st) (s_level st)
               (Z.max (s_lastbyte st) new_end)).

Definition ps_link : Z -> pstate -> Z -> Z -> nat * Z * pstate := ps_link_gen true.

(* the bytes after the identifier (and its pad).  XARecord.parse: for offset in (0, len_fi rounded up to even):
   fewer than 14 bytes left -> no XA record (at once); bytes 6..7 = 'XA' -> an XA record.  Otherwise a Rock
   Ridge record is recognised by one of 15 two-byte signatures.  Either one is outside the fragment *)
Definition ps_rr_sigs : list (Z * Z) :=                 (* SP RR CE PX ER ES PN SL NM CL PL TF SF RE AL *)
  [(83, 80); (82, 82); (67, 69); (80, 88); (69, 82); (69, 83); (80, 78); (83, 76); (78, 77); (67, 76);
   (80, 76); (84, 70); (83, 70); (82, 69); (65, 76)].
Definition ps_xa_sig (s : list Z) : bool := (nth 6 s 0 =? 88) && (nth 7 s 0 =? 65).
Definition ps_outside (su : list Z) (len_fi : Z) : bool :=
  (if zlen su <? 14 then false
   else ps_xa_sig su
        || (let s2 := skipn (Z.to_nat (len_fi + len_fi mod 2)) su in
            if zlen s2 <? 14 then false else ps_xa_sig s2))
  || match su with
     | a :: b :: _ => existsb (fun s => (fst s =? a) && (snd s =? b)) ps_rr_sigs
     | _ => false
     end.

(* ---- one record ------------------------------------------------------------------------------------ *)

(* [ptr]: the extents of the records of the L path table (keys of extent_to_ptr);
   [isz]: the length of the image in bytes (_get_iso_size) *)
Definition ps_record (ptr : list Z) (isz : Z) (sl : pstate * option (list Z)) (record : list Z)
  : presult (pstate * option (list Z)) :=
  let '(st, last) := sl in
  match parse_dr record with
  | None => PInvalid 2
  | Some r =>
      if ps_outside (sysuse r) (znth 32 record) then PUnsupported 1 else
      let is_dir := ps_is_dir r in
      let dots := ps_is_dot r || ps_is_dotdot r in
      let '(ino, dlen1, st1) :=
        if is_dir then (None, data_len r, st)
        else let '(i, d, s) := ps_link isz st (extent r) (data_len r) in (Some i, d, s) in
      let queued := is_dir && negb dots in
      if queued && negb (ps_mem (extent r) ptr) then PInvalid 3 else
      let dirid := if queued then Some (length (s_dirs st1) + 1 + length (s_queue st1))%nat else None in
      let queue2 := if queued then s_queue st1 ++ [(extent r, data_len r)] else s_queue st1 in
      let child := mk_prec r (znth 0 record) (znth 32 record) dlen1 ino dirid (-1) 1 0 in
      match ps_track (s_cur st1) child last with
      | POk cur2 =>
          match (if is_dir then Some (ps_level_dir (ps_printable r)) else ps_level_file (ps_printable r)) with
          | None => PInvalid 5
          | Some lv =>
              POk (mk_pstate (s_dirs st1) cur2 queue2 (s_inodes st1) (s_e2i st1) (s_seen st1)
                             (Z.max (s_level st1) lv) (s_lastbyte st1),
                   Some (ps_printable r))
          end
      | PInvalid w => PInvalid w
      | PUnsupported w => PUnsupported w
      | PFuel => PFuel
      end
  end.

(* ---- the records of one directory extent ----------------------------------------------------------- *)

(* [data] = data[offset:] *)
Section Scan.
  Context {S : Type}.
  Variable step : S -> list Z -> presult S.

  Fixpoint ps_scan (fuel : nat) (data : list Z) (offset length : Z) (s : S) : presult S :=
    match fuel with
    | O => PFuel
    | Datatypes.S f =>
        if offset <? length then
          match data with
          | [] => PInvalid 1                                   (* 'Invalid directory record' *)
          | lenbyte :: _ =>
              if lenbyte =? 0 then
                let padsize := BS - offset mod BS in
                if zlist_eqb (firstn (Z.to_nat padsize) data) (repeat 0 (Z.to_nat padsize))
                then ps_scan f (skipn (Z.to_nat padsize) data) (offset + padsize) length s
                else PInvalid 6                                (* 'Invalid padding on ISO' *)
              else
                match step s (firstn (Z.to_nat lenbyte) data) with
                | POk s' => ps_scan f (skipn (Z.to_nat lenbyte) data) (offset + lenbyte) length s'
                | e => e
                end
          end
        else POk s
    end.
End Scan.

(* ---- the walk ---------------------------------------------------------------------------------------- *)

Definition ps_begin_dir (st : pstate) (q : list (Z * Z)) (seen : list Z) : pstate :=
  mk_pstate (s_dirs st) [] q (s_inodes st) (s_e2i st) seen (s_level st) (s_lastbyte st).

(* dir_block_range (commit 863c802): the blocks of the directory that lie inside the image, at least one *)
Definition ps_range (isz ext len : Z) : list Z :=
  map (fun k => ext + Z.of_nat k)
      (seq 0 (Z.to_nat (Z.max (ceiling_div (Z.min len (Z.max (isz - ext * BS) 0)) BS) 1))).

(* entering a directory.  [fixed = true], the code after commit 863c802: [seen] is seen_dir_blocks; a block of
   the range seen before -> 'Overlapping directories on the ISO' (9).  That commit also dropped the line
   seen_dir_extents.add(...): the set stays empty and 'Directory loop on the ISO' (7) can no longer be raised.
   [fixed = false], the code before it: [seen] is seen_dir_extents, raise 7 *)
Definition ps_enter (fixed : bool) (isz : Z) (seen : list Z) (ext len : Z) : Z + list Z :=
  if fixed then
    let r := ps_range isz ext len in
    if existsb (fun b => ps_mem b seen) r then inl 9 else inr (r ++ seen)
  else if ps_mem ext seen then inl 7 else inr (ext :: seen).

Definition ps_end_dir (st : pstate) : pstate :=
  mk_pstate (s_dirs st ++ [s_cur st]) [] (s_queue st) (s_inodes st) (s_e2i st) (s_seen st)
            (s_level st) (s_lastbyte st).

(* [rd ext len]: self._seek_to_extent(ext); cdfp.read(len); None = the medium is not described there *)
Fixpoint ps_walk (fixed : bool) (fuel : nat) (rd : Z -> Z -> option (list Z)) (ptr : list Z) (isz : Z)
         (st : pstate) : presult pstate :=
  match fuel with
  | O => PFuel
  | S f =>
      match s_queue st with
      | [] => POk st
      | (ext, len) :: q =>
          match ps_enter fixed isz (s_seen st) ext len with
          | inl w => PInvalid w
          | inr seen =>
              match rd ext len with
              | None => PUnsupported 3                          (* blocks the image does not describe *)
              | Some data =>
                  match ps_scan (ps_record ptr isz) (S (length data)) data 0 len
                                (ps_begin_dir st q seen, None) with
                  | POk (st', _) => ps_walk fixed f rd ptr isz (ps_end_dir st')
                  | PInvalid w => PInvalid w
                  | PUnsupported w => PUnsupported w
                  | PFuel => PFuel
                  end
              end
          end
      end
  end.

Record pgraph := mk_pgraph {
  g_dirs : list (list prec); g_inodes : list (Z * Z); g_level : Z; g_lastbyte : Z }.

Definition ps_graph (st : pstate) : pgraph :=
  mk_pgraph (s_dirs st) (s_inodes st) (s_level st) (s_lastbyte st).

Definition ps_init (root_ext root_len : Z) : pstate :=
  mk_pstate [] [] [(root_ext, root_len)] [] [] [] 1 0.

(* root_dir_record.set_ptr(path_table_records[0]): IndexError on an empty path table *)
Definition ps_parse_gen (fixed : bool) (fuel : nat) (rd : Z -> Z -> option (list Z)) (ptr : list Z)
           (isz root_ext root_len : Z) : presult pgraph :=
  match ptr with
  | [] => PInvalid 8
  | _ =>
      match ps_walk fixed fuel rd ptr isz (ps_init root_ext root_len) with
      | POk st => POk (ps_graph st)
      | PInvalid w => PInvalid w
      | PUnsupported w => PUnsupported w
      | PFuel => PFuel
      end
  end.
Definition ps_parse := ps_parse_gen true.

(* the medium given as a finite map of directory extents (Master.image) *)
Definition parse (fuel : nat) (img : image) (ptr : list Z) (isz root_ext root_len : Z) : presult pgraph :=
  ps_parse fuel (ms_img_read img) ptr isz root_ext root_len.

(* the medium given as the WHOLE file: seek(ext * 2048) and read(len) return what is there, fewer bytes (or
   none) at the end of the file.  Extents come out of struct.unpack('<L'): a negative one cannot occur. *)
Definition ps_file_read (bytes : list Z) (ext len : Z) : option (list Z) :=
  if (ext <? 0) || (len <? 0) then None
  else Some (firstn (Z.to_nat (Z.min len (zlen bytes)))
                    (skipn (Z.to_nat (Z.min (ext * BS) (zlen bytes))) bytes)).   (* = bytes[ext*2048:][:len] *)

Definition parse_file_gen (fixed : bool) (fuel : nat) (bytes : list Z) (ptr : list Z) (root_ext root_len : Z)
  : presult pgraph := ps_parse_gen fixed fuel (ps_file_read bytes) ptr (zlen bytes) root_ext root_len.
Definition parse_file := parse_file_gen true.

(* ---- the writer's object graph, numbered breadth first ---------------------------------------------- *)

Definition ps_push_cur (st : pstate) (c : prec) : pstate :=
  mk_pstate (s_dirs st) (s_cur st ++ [c]) (s_queue st) (s_inodes st) (s_e2i st) (s_seen st)
            (s_level st) (s_lastbyte st).

(* the record objects of children[2:], with index_in_parent 2 + j and the cached positions [cache] *)
Fixpoint ps_spec_kids (dt : list Z) (DB FB : list dirrec) (p : list nat) (j : nat) (kids : list node)
         (cache : list (Z * Z)) (st : pstate) : pstate :=
  match kids, cache with
  | c :: r, (eth, oth) :: cr =>
      let rc := ms_kid_rec dt DB FB (p ++ [j]) c in
      let nm := Account.name_of c in
      let mk := fun ino dir => mk_prec rc (Account.dr_len_of nm) (zlen nm) (data_len rc) ino dir
                                       (Z.of_nat (2 + j)) eth oth in
      let st' :=
        match c with
        | File _ len =>
            let i := length (s_inodes st) in
            let e := if len =? 0 then 0 else extent rc in
            mk_pstate (s_dirs st) (s_cur st ++ [mk (Some i) None]) (s_queue st)
                      (s_inodes st ++ [(e, len)])
                      (if len =? 0 then s_e2i st else s_e2i st ++ [(e, i)])
                      (s_seen st) (s_level st) (Z.max (s_lastbyte st) (e * BS + len))
        | Dir _ dl _ =>
            let k := (length (s_dirs st) + 1 + length (s_queue st))%nat in
            mk_pstate (s_dirs st) (s_cur st ++ [mk None (Some k)]) (s_queue st ++ [(extent rc, dl)])
                      (s_inodes st) (s_e2i st) (s_seen st) (s_level st) (s_lastbyte st)
        end in
      ps_spec_kids dt DB FB p (S j) r cr st'
  | _, _ => st
  end.

(* the blocks of a directory extent of data_length dl *)
Definition ps_blocks_of (ext dl : Z) : list Z :=
  map (fun k => ext + Z.of_nat k) (seq 0 (Z.to_nat (Z.max (ceiling_div dl BS) 1))).

Definition ps_dot_prec (r : drec) (i eth oth : Z) : prec := mk_prec r 34 1 (data_len r) None None i eth oth.

(* the directory at position p (data_length dl, children[2:] = kids) *)
Definition ps_spec_dir (dt : list Z) (t : node) (DB FB : list dirrec) (p : list nat) (dl : Z)
           (kids : list node) (st : pstate) : pstate :=
  let cache := cached BS (34 :: 34 :: map Account.dr_len_of (map Account.name_of kids)) in
  let dot := ms_rec dt (ms_ext_at DB p) dl 2 [0] in
  let dotdot := ms_rec dt (ms_ext_at DB (removelast p)) (ms_dlen_at t (removelast p)) 2 [1] in
  let st0 := mk_pstate (s_dirs st) [ps_dot_prec dot 0 1 34; ps_dot_prec dotdot 1 1 68] (tl (s_queue st))
                       (s_inodes st) (s_e2i st) (ps_blocks_of (ms_ext_at DB p) dl ++ s_seen st) 3 (s_lastbyte st) in
  ps_end_dir (ps_spec_kids dt DB FB p 0 kids (skipn 2 cache) st0).

Fixpoint ps_items (p : list nat) (j : nat) (kids : list node) : list (list nat * node) :=
  match kids with
  | [] => []
  | c :: r => (p ++ [j], c) :: ps_items p (S j) r
  end.

(* the walk over every record object (the deque of _reassign_vd_dirrecord_extents, which is the
   order of PathTable.wgo); a file record has nothing below it *)
Fixpoint ps_gwalk (fuel : nat) (dt : list Z) (t : node) (DB FB : list dirrec)
         (items : list (list nat * node)) (st : pstate) : pstate :=
  match fuel with
  | O => st
  | S f =>
      match items with
      | [] => st
      | (p, File _ _) :: q => ps_gwalk f dt t DB FB q st
      | (p, Dir _ dl kids) :: q =>
          ps_gwalk f dt t DB FB (q ++ ps_items p 0 kids) (ps_spec_dir dt t DB FB p dl kids st)
      end
  end.

Definition graph_of (dt : list Z) (t : node) : pgraph :=
  ps_graph (ps_gwalk (tsize (ms_dtree t)) dt t (ms_DB t) (ms_FB t) [([], t)]
                     (ps_init (root_extent t) (root_len t))).

(* what the L path table of the mastered image holds: one record per directory, in written order *)
Definition ps_ptr_exts (t : node) : list Z := map (ms_ext_at (ms_DB t)) (ms_dir_positions t).

Definition ps_fuel (t : node) : nat := S (tsize (ms_dtree t)).
(* ---- from the opened object back to a tree --------------------------------------------------------- *)

(* children[2:] of directory [id]; a record that heads a directory becomes Dir, any other File;
   lengths are the records' data_length *)
Fixpoint ps_tree_kids (fuel : nat) (dirs : list (list prec)) (id : nat) : list node :=
  match fuel with
  | O => []
  | S f =>
      map (fun c => match p_dir c with
                    | Some k => Dir (Codec.ident (p_rec c)) (p_dlen c) (ps_tree_kids f dirs k)
                    | None => File (Codec.ident (p_rec c)) (p_dlen c)
                    end)
          (skipn 2 (nth id dirs []))
  end.

Definition tree_of (g : pgraph) (root_len : Z) : node :=
  Dir [0] root_len (ps_tree_kids (length (g_dirs g)) (g_dirs g) 0).

(* ---- write_fp of the opened object: _write_directory_records --------------------------------------- *)

(* DirectoryRecord.record() of a parsed record *)
Definition ps_rec_bytes (c : prec) : option (list Z) :=
  let r := p_rec c in
  enc_dr_raw (p_drlen c) (p_lenfi c)
             (mk_drec (xattr_len r) (extent r) (p_dlen c) (date r) (flags r) (unit_size r) (gap_size r)
                      (seqnum r) (Codec.ident r) (sysuse r)).

Fixpoint ps_opt_all {A} (l : list (option A)) : option (list A) :=
  match l with
  | [] => Some []
  | Some a :: r => match ps_opt_all r with Some b => Some (a :: b) | None => None end
  | None :: _ => None
  end.

Definition ps_child_dirs (ch : list prec) : list (nat * Z * Z) :=
  flat_map (fun c => if ps_is_dir (p_rec c) && negb (ps_is_dot (p_rec c) || ps_is_dotdot (p_rec c))
                     then match p_dir c with
                          | Some k => [(k, extent (p_rec c), p_dlen c)]
                          | None => []
                          end
                     else []) ch.

Fixpoint ps_wwalk (fuel : nat) (dirs : list (list prec)) (queue : list (nat * Z * Z)) : option image :=
  match fuel with
  | O => match queue with [] => Some [] | _ => None end
  | S f =>
      match queue with
      | [] => Some []
      | (id, ext, dl) :: q =>
          let ch := nth id dirs [] in
          match ps_opt_all (map ps_rec_bytes ch), ps_wwalk f dirs (q ++ ps_child_dirs ch) with
          | Some bs, Some rest => Some ((ext, ms_dir_bytes dl bs) :: rest)
          | _, _ => None
          end
      end
  end.

Definition ps_write (g : pgraph) (root_ext root_len : Z) : option image :=
  ps_wwalk (length (g_dirs g)) (g_dirs g) [(0%nat, root_ext, root_len)].

(* ---- names the library itself accepts (Account.step_add_file / step_add_dir test exactly this) ----- *)

Fixpoint ps_names_ok (n : node) : bool :=
  match n with
  | File nm _ => match check_iso9660_filename nm 3 with Accept => true | _ => false end
  | Dir nm _ kids =>
      match check_iso9660_directory nm 3 with Accept => true | _ => false end
      && forallb ps_names_ok kids
  end.

Definition ps_tree_ok (t : node) : bool :=
  wf_tree t && forallb ps_names_ok (Account.kids_of t).

Definition ps_all_recs (g : pgraph) : list prec := concat (g_dirs g).

(* ---- harness -------------------------------------------------------------------------------------------- *)

(* a record as the tool reads it off the opened object:
   (file_ident, file_flags, extent_location(), data_length, dr_len,
    (index_in_parent, extents_to_here, offset_to_here), (inode index or -1, directory number or -1)) *)
Definition erec : Type := (list Z * Z * Z * Z * Z * (Z * Z * Z) * (Z * Z))%type.
Definition ps_oz (o : option nat) : Z := match o with Some k => Z.of_nat k | None => -1 end.
Definition ps_erec_of (c : prec) : erec :=
  (Codec.ident (p_rec c), flags (p_rec c), extent (p_rec c), p_dlen c, p_drlen c,
   (p_idx c, p_eth c, p_oth c), (ps_oz (p_ino c), ps_oz (p_dir c))).
Definition ps_erec_eqb (a b : erec) : bool :=
  let '(n1, f1, e1, l1, d1, (i1, x1, o1), (k1, m1)) := a in
  let '(n2, f2, e2, l2, d2, (i2, x2, o2), (k2, m2)) := b in
  zlist_eqb n1 n2 && (f1 =? f2) && (e1 =? e2) && (l1 =? l2) && (d1 =? d2) && (i1 =? i2) && (x1 =? x2)
  && (o1 =? o2) && (k1 =? k2) && (m1 =? m2).
Fixpoint ps_list_eqb {A} (eqb : A -> A -> bool) (a b : list A) : bool :=
  match a, b with
  | [], [] => true
  | x :: a', y :: b' => eqb x y && ps_list_eqb eqb a' b'
  | _, _ => false
  end.

(* the expected graph: children lists in walk order, iso.inodes as (extent_location(), length),
   interchange_level, the largest end of file data *)
Definition egraph : Type := (list (list erec) * list (Z * Z) * Z * Z)%type.
Definition ps_graph_eqb (g : pgraph) (e : egraph) : bool :=
  let '(dirs, inodes, lvl, lastb) := e in
  ps_list_eqb (ps_list_eqb ps_erec_eqb) (map (map ps_erec_of) (g_dirs g)) dirs
  && zz_list_eqb (g_inodes g) inodes && (g_level g =? lvl) && (g_lastbyte g =? lastb).
Fixpoint ps_node_eqb (a b : node) : bool :=
  match a, b with
  | File n1 l1, File n2 l2 => zlist_eqb n1 n2 && (l1 =? l2)
  | Dir n1 l1 k1, Dir n2 l2 k2 =>
      zlist_eqb n1 n2 && (l1 =? l2) &&
      (fix go (x y : list node) : bool :=
         match x, y with
         | [], [] => true
         | a' :: x', b' :: y' => ps_node_eqb a' b' && go x' y'
         | _, _ => false
         end) k1 k2
  | _, _ => false
  end.

(* a case: (the writer's tree if the history has no hard link, date bytes, (root extent, root length),
            extents of the L path table records, length of the image in bytes,
            [(extent, run-length coded bytes of the directory)] in written order,
            the object graph read off the opened object, second image = first image) *)
Definition ps_case : Type :=
  (option node * list Z * (Z * Z) * list Z * Z * list (Z * list (Z * list Z)) * egraph * bool)%type.
Definition ps_case_ok (c : ps_case) : bool :=
  let '(ot, dt, (re, rl), ptr, isz, expected, eg, fix_flag) := c in
  let img := map (fun x : Z * list (Z * list Z) => (fst x, ms_unrle (snd x))) expected in
  match parse (S (length img)) img ptr isz re rl with
  | POk g =>
      ps_graph_eqb g eg &&
      Bool.eqb fix_flag (match ps_write g re rl with Some w => ms_image_eqb w img | None => false end) &&
      match ot with
      | None => true
      | Some t =>
          ps_tree_ok t && (re =? root_extent t) && (rl =? root_len t) &&
          ps_list_eqb Z.eqb ptr (ps_ptr_exts t) && (ms_layout_end t * BS <=? isz) &&
          match master dt t with Some m => ms_image_eqb m img | None => false end &&
          ps_graph_eqb (graph_of dt t) eg &&
          ps_node_eqb (tree_of g rl) t
      end
  | _ => false
  end.
Fixpoint bad_parse_cases (k : nat) (cs : list ps_case) : list nat :=
  match cs with
  | [] => []
  | c :: r => if ps_case_ok c then bad_parse_cases (S k) r else k :: bad_parse_cases (S k) r
  end.
