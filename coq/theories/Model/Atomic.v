(* C14 -- failure atomicity of a multi-stage API call.
   A public mutating call of PyCdlib is a sequence of stages executed in order; a stage either
   validates (and may refuse: raise PyCdlibInvalidInput) or mutates the object graph.  This is
   how _add_fp / add_directory / add_symlink / add_eltorito / rm_directory / add_hard_link are
   written: the ISO9660 part is validated and applied, then the Joliet part is validated and
   applied, then the UDF part, and the size accounting (_finish_add / _finish_remove) comes last.
   [stages] is generic; the catalogue of concrete calls with the stage at which each refusal cause
   is detected is in harness/props/c14.py and is validated against the implementation on every run
   (a cause classified EARLY must be observed atomic). *)
From Coq Require Import List Bool.
Import ListNotations.

Section Atomic.
  Variable state : Type.

  Inductive stage :=
  | Check (ok : state -> bool)        (* refuse when false *)
  | Mutate (f : state -> state).

  Inductive result := Done (s : state) | Refused (leftover : state).

  Fixpoint exec (stages : list stage) (s : state) : result :=
    match stages with
    | [] => Done s
    | Check ok :: r => if ok s then exec r s else Refused s
    | Mutate f :: r => exec r (f s)
    end.

  Definition is_check (st : stage) : bool := match st with Check _ => true | Mutate _ => false end.

  (* validate-first discipline: every check precedes every mutation *)
  Fixpoint validate_first (stages : list stage) : bool :=
    match stages with
    | [] => true
    | Check _ :: r => validate_first r
    | Mutate _ :: r => forallb (fun st => negb (is_check st)) r
    end.

  (* the stage index at which a refusal is raised, and whether a mutation ran before it *)
  Fixpoint refusal_after_mutation (stages : list stage) (s : state) (mutated : bool) : option bool :=
    match stages with
    | [] => None
    | Check ok :: r => if ok s then refusal_after_mutation r s mutated else Some mutated
    | Mutate f :: r => refusal_after_mutation r (f s) true
    end.
End Atomic.
