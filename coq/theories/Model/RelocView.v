(* Model/RelocView.v -- what write_fp lays down for a state of Model/RelocCore.v (every physical
   directory with its extent and its records incl. CL / PL / RE), an independent Rock Ridge
   reader (the checker for tools/reloc_cases.py is in Model/Reloc.v).  Executable definitions only.

   Python sources modelled:
     pycdlib.py  _reassign_vd_dirrecord_extents   directory extents in breadth-first order
                    ([ext]: closed form -- start + the block counts of all directories that come
                    earlier in (depth, path) order, which is the order of the deque walk over
                    children lists sorted by identifier; the walk itself is Model/PathTable.v),
                    '.' = own extent, '..' = extent of the PHYSICAL parent and
                    copy_file_links(parent's parent record, or the root's '.'),
                    placeholder: set_data_location(0, 0),
                    child_link_update_from_dirrecord / parent_link_update_from_dirrecord
     dr.py / rockridge.py   which record carries CL (placeholder), RE (record inside RR_MOVED),
                    PL ('..' of the relocated directory); placeholder PX links = PX.new + 1.
   File data extents are not modelled (leaf records carry extent 0 here and in the tool). *)
From Coq Require Import ZArith List Bool.
From PV.Model Require Import RelocCore.
Import ListNotations.
Local Open Scope Z_scope.

Definition ppath := list name.

(* physical path of the directory n whose record (or placeholder) lives in the directory pcur *)
Definition self_path (pcur : ppath) (n : node) : ppath :=
  match n with
  | Dir _ _ _ _ (Some mn) _ => [moved_name; mn]
  | _ => pcur ++ [niso n]
  end.

(* every directory object with (physical path of the directory that holds its record or its
   placeholder, PX links the '..' of a child of that directory copies) *)
Fixpoint nodes_of (pcur : ppath) (plinks : Z) (n : node) : list (ppath * Z * node) :=
  match n with
  | Leaf _ _ _ => []
  | Dir _ _ e _ _ ks => (pcur, plinks, n) :: flat_map (nodes_of (self_path pcur n) e) ks
  end.
Definition all_nodes (s : state) : list (ppath * Z * node) :=
  flat_map (nodes_of [] (s_dot s)) (s_kids s).

Definition node_path (x : ppath * Z * node) : ppath := self_path (fst (fst x)) (snd x).

Definition moved_live (s : state) : bool :=
  match s_moved s with Some _ => true | None => false end.
Definition moved_ent (s : state) : Z := match s_moved s with Some (e, _) => e | None => 0 end.
Definition moved_dot (s : state) : Z := match s_moved s with Some (_, d) => d | None => 0 end.

Definition ppaths (s : state) : list ppath :=
  [] :: (if moved_live s then [[moved_name]] else []) ++ map node_path (all_nodes s).

(* ---- extents ------------------------------------------------------------------------------- *)
Fixpoint plt (a b : ppath) : bool :=
  match a, b with
  | x :: a', y :: b' => if nlt x y then true else if nlt y x then false else plt a' b'
  | _, _ => false
  end.
Definition bfs_lt (a b : ppath) : bool :=
  (length a <? length b)%nat || ((length a =? length b)%nat && plt a b).

Definition sumZ (l : list Z) : Z := fold_right Z.add 0 l.

Definition ext (sz : ppath -> Z) (start : Z) (all : list ppath) (p : ppath) : Z :=
  start + sumZ (map sz (filter (fun q => bfs_lt q p) all)).

(* ---- records ------------------------------------------------------------------------------- *)
Record prec := mkRec {
  r_iso : name; r_rr : name;
  r_dir : bool;            (* ISO9660 directory flag *)
  r_sym : bool;            (* SL entry *)
  r_re : bool;             (* RE entry *)
  r_links : Z;             (* PX.posix_file_links *)
  r_ext : Z;               (* extent of the record *)
  r_cl : option Z;         (* CL child_log_block_num *)
  r_pl : option Z }.       (* PL parent_log_block_num *)

Section View.
Variable E : ppath -> Z.

Definition kid_rec (self : ppath) (n : node) : prec :=
  match n with
  | Dir i r e _ None _ => mkRec i r true false false e (E (self ++ [i])) None None
  | Dir i r _ _ (Some mn) _ =>
      mkRec i r false false false (px_new + 1) 0 (Some (E [moved_name; mn])) None
  | Leaf sy i r => mkRec i r false sy false px_new 0 None None
  end.

Definition dir_recs (self parent : ppath) (dotl ddl : Z) (pl : option Z) (kids : list node)
  : list prec :=
  mkRec dot_name [] true false false dotl (E self) None None ::
  mkRec dotdot_name [] true false false ddl (E parent) None pl ::
  map (kid_rec self) kids.

Definition entry (mvent : Z) (x : ppath * Z * node) : ppath * list prec :=
  match x with
  | (pcur, plinks, Dir i r e d None ks) =>
      (pcur ++ [i], dir_recs (pcur ++ [i]) pcur d plinks None ks)
  | (pcur, plinks, Dir i r e d (Some mn) ks) =>
      ([moved_name; mn], dir_recs [moved_name; mn] [moved_name] d mvent (Some (E pcur)) ks)
  | (pcur, _, Leaf _ i _) => (pcur ++ [i], [])      (* never: all_nodes holds directories only *)
  end.

Fixpoint ins_rec (r : prec) (l : list prec) : list prec :=
  match l with
  | [] => [r]
  | h :: t => if nlt (r_iso h) (r_iso r) then h :: ins_rec r t else r :: l
  end.

Definition moved_rec (n : node) : list prec :=
  match n with
  | Dir _ r e _ (Some mn) _ => [mkRec mn r true false true e (E [moved_name; mn]) None None]
  | _ => []
  end.
Definition moved_recs (s : state) : list prec :=
  fold_right ins_rec [] (flat_map (fun x => moved_rec (snd x)) (all_nodes s)).

Definition root_entry (s : state) : ppath * list prec :=
  let own := mkRec moved_name moved_rr true false false (moved_ent s) (E [moved_name]) None None in
  let kids := map (kid_rec []) (s_kids s) in
  ([], mkRec dot_name [] true false false (s_dot s) (E []) None None ::
       mkRec dotdot_name [] true false false (s_dotdot s) (E []) None None ::
       (if moved_live s then ins_rec own kids else kids)).

Definition moved_entry (s : state) : list (ppath * list prec) :=
  if moved_live s
  then [([moved_name],
         mkRec dot_name [] true false false (moved_dot s) (E [moved_name]) None None ::
         mkRec dotdot_name [] true false false (s_dot s) (E []) None None ::
         moved_recs s)]
  else [].

Definition phys (s : state) : list (ppath * list prec) :=
  root_entry s :: moved_entry s ++ map (entry (moved_ent s)) (all_nodes s).
End View.

Definition image := list (Z * list prec).

Definition ext_of (sz : ppath -> Z) (start : Z) (s : state) : ppath -> Z :=
  ext sz start (ppaths s).

Definition view (sz : ppath -> Z) (start : Z) (s : state) : image :=
  map (fun x => (ext_of sz start s (fst x), snd x)) (phys (ext_of sz start s) s).

(* ---- an independent reader (Linux isofs style) ---------------------------------------------- *)
Inductive rnode :=
| RDir (iso rr : name) (nlink : Z) (kids : list rnode)
| RLeaf (sym : bool) (iso rr : name).

Fixpoint lookup (im : image) (e : Z) : option (list prec) :=
  match im with
  | [] => None
  | (e', recs) :: t => if e' =? e then Some recs else lookup t e
  end.

(* One node per record: '.' and '..' are not listed, a record with RE is skipped, a record with CL
   is the directory found at the CL extent under the placeholder's names, the root-level RR_MOVED
   is hidden; nothing else is hidden.  [rd] reads a sub-directory given its extent. *)
Definition read_recs (rd : Z -> option (Z * list rnode)) (isroot : bool)
  : list prec -> option (list rnode) :=
  fix go (rs : list prec) : option (list rnode) :=
    match rs with
    | [] => Some []
    | r :: rs' =>
        if neqb (r_iso r) dot_name || neqb (r_iso r) dotdot_name then go rs'
        else if r_re r then go rs'
        else if isroot && neqb (r_iso r) moved_name then go rs'
        else
          match r_cl r with
          | Some ce =>
              match rd ce, go rs' with
              | Some (n, ks), Some rest => Some (RDir (r_iso r) (r_rr r) n ks :: rest)
              | _, _ => None
              end
          | None =>
              if r_dir r
              then match rd (r_ext r), go rs' with
                   | Some (n, ks), Some rest => Some (RDir (r_iso r) (r_rr r) n ks :: rest)
                   | _, _ => None
                   end
              else match go rs' with
                   | Some rest => Some (RLeaf (r_sym r) (r_iso r) (r_rr r) :: rest)
                   | None => None
                   end
          end
    end.

(* Read the directory whose extent is e: st_nlink from its first record ('.'), then its records *)
Fixpoint read_dir (im : image) (fuel : nat) (isroot : bool) (e : Z) : option (Z * list rnode) :=
  match fuel with
  | O => None
  | S f =>
      match lookup im e with
      | Some (dotr :: recs) =>
          match read_recs (read_dir im f false) isroot (dotr :: recs) with
          | Some ks => Some (r_links dotr, ks)
          | None => None
          end
      | _ => None
      end
  end.

Definition rr_reader (im : image) (root : Z) (fuel : nat) : option (list rnode) :=
  option_map snd (read_dir im fuel true root).
Definition rr_root_nlink (im : image) (root : Z) (fuel : nat) : option Z :=
  option_map fst (read_dir im fuel true root).

(* the parent a reader computes for the directory at extent e: PL of its '..' if present,
   otherwise the extent of '..' *)
Definition rr_parent (im : image) (e : Z) : option Z :=
  match lookup im e with
  | Some (_ :: dd :: _) => Some (match r_pl dd with Some p => p | None => r_ext dd end)
  | _ => None
  end.

(* what a reader expects: the logical tree, st_nlink of a directory = 2 + logical sub-directories *)
Fixpoint ldirs (l : list lnode) : Z :=
  match l with [] => 0 | h :: t => b2z (l_is_dir h) + ldirs t end.
Fixpoint decorate (n : lnode) : rnode :=
  match n with
  | LDir i r ks => RDir i r (2 + ldirs ks) (map decorate ks)
  | LLeaf sy i r => RLeaf sy i r
  end.
Definition expected (t : list lnode) : list rnode := map decorate t.

Fixpoint height (n : node) : nat :=
  match n with
  | Dir _ _ _ _ _ ks => S (list_max (map height ks))
  | Leaf _ _ _ => O
  end.
Definition fuel_of (s : state) : nat := S (S (list_max (map height (s_kids s)))).

