(* Evaluation support for the C18 / C13 leaf correspondences. *)
From Coq Require Import ZArith List Bool.
From PV.Base Require Import Prim.
From PV.Model Require Import Names StreamCases.
Import ListNotations.
Local Open Scope Z_scope.

Fixpoint lookup (c : Z) (tbl : list (Z * list Z)) : list Z :=
  match tbl with
  | [] => [c]
  | (k, v) :: r => if k =? c then v else lookup c r
  end.
Definition up_of (tbl : list (Z * list Z)) (c : Z) : list Z := lookup c tbl.

Definition utf8_enc1 (c : Z) : list Z :=
  if c <? 128 then [c]
  else if c <? 2048 then [192 + c / 64; 128 + c mod 64]
  else if c <? 65536 then [224 + c / 4096; 128 + (c / 64) mod 64; 128 + c mod 64]
  else [240 + c / 262144; 128 + (c / 4096) mod 64; 128 + (c / 64) mod 64; 128 + c mod 64].
Definition utf8 (s : list Z) : list Z := flat_map utf8_enc1 s.

Definition outcome_code (o : outcome) : Z := match o with Accept => 0 | Refuse => 1 | Fault => 2 end.

(* mangling case: original name, level, is_dir, the identifier pycdlib derived, and the outcome of
   pycdlib's own check on it *)
Record mcase := { m_orig : list Z; m_lvl : Z; m_dir : bool; m_expect : list Z; m_check : Z }.

Definition mcase_ok (tbl : list (Z * list Z)) (c : mcase) : bool :=
  let up := up_of tbl in
  if m_dir c then
    let r := mangle_dir up true (m_orig c) (m_lvl c) in
    list_eqb r (m_expect c) && (outcome_code (check_iso9660_directory (utf8 r) (m_lvl c)) =? m_check c)
  else
    let r := mangled_file_name up true (m_orig c) (m_lvl c) in
    list_eqb r (m_expect c) && (outcome_code (check_iso9660_filename (utf8 r) (m_lvl c)) =? m_check c).

Fixpoint bad_from {A} (ok : A -> bool) (k : nat) (cs : list A) : list nat :=
  match cs with
  | [] => []
  | c :: r => (if ok c then [] else [k]) ++ bad_from ok (S k) r
  end.
Definition bad_mcases tbl := bad_from (mcase_ok tbl) 0.

(* checker case: a byte string, level, is_dir, outcome of pycdlib's checker *)
Record ccase := { k_name : list Z; k_lvl : Z; k_dir : bool; k_out : Z }.
Definition ccase_ok (c : ccase) : bool :=
  outcome_code (if k_dir c then check_iso9660_directory (k_name c) (k_lvl c)
                else check_iso9660_filename (k_name c) (k_lvl c)) =? k_out c.
Definition bad_ccases := bad_from ccase_ok 0.
