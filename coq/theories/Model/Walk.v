(* Control skeleton of the directory walk done when an image is opened.
   Faithful to /repo/pycdlib/pycdlib.py:
     _walk_directories      : dirs = collections.deque([root_dir_record]); seen_dir_extents = set()
                              while dirs: dir_record = dirs.popleft()
                                  if dir_record.extent_location() in seen_dir_extents: raise PyCdlibInvalidISO
                                  seen_dir_extents.add(...); ...parse the records of that directory...
                                  for every non-dot, non-CL directory record found: dirs.append(new_record)
     _walk_udf_directories  : same shape with udf_file_entries / seen_dir_entries.
   The image is abstracted as [subdirs : Z -> list Z]: for the directory stored at extent e, the
   extents of the sub-directory records found in it, in record order.  Any function is allowed (the
   image is adversarial: extents may repeat, point to ancestors, or to the directory itself).
   [visited] is the seen-set, most recently dequeued extent first; one unit of fuel is consumed per
   dequeued directory (popleft), including the dequeue on which the loop check fires.
   [walk_unchecked] is the pinned original, which had no seen-set test.  Definitions only. *)
From Coq Require Import ZArith List Bool.
Import ListNotations.
Open Scope Z_scope.

Inductive outcome :=
| Finished (visited : list Z)
| Loop (visited : list Z) (at_extent : Z)
| OutOfFuel (visited : list Z) (queue : list Z).

(* `x in seen_dir_extents` *)
Definition zmem (e : Z) (l : list Z) : bool := existsb (Z.eqb e) l.

Fixpoint walk_checked (subdirs : Z -> list Z) (fuel : nat) (queue visited : list Z)
  {struct fuel} : outcome :=
  match queue with
  | [] => Finished visited                                     (* while dirs: -> falls out *)
  | e :: rest =>                                               (* dirs.popleft() *)
      match fuel with
      | O => OutOfFuel visited queue
      | S fuel' =>
          if zmem e visited then Loop visited e                (* raise 'Directory loop on the ISO' *)
          else walk_checked subdirs fuel' (rest ++ subdirs e)  (* dirs.append(new_record) ... *)
                            (e :: visited)                     (* seen_dir_extents.add(e) *)
      end
  end.

Fixpoint walk_unchecked (subdirs : Z -> list Z) (fuel : nat) (queue visited : list Z)
  {struct fuel} : outcome :=
  match queue with
  | [] => Finished visited
  | e :: rest =>
      match fuel with
      | O => OutOfFuel visited queue
      | S fuel' => walk_unchecked subdirs fuel' (rest ++ subdirs e) (e :: visited)
      end
  end.

Definition open_walk (subdirs : Z -> list Z) (root : Z) (fuel : nat) : outcome :=
  walk_checked subdirs fuel [root] [].

Definition open_walk_unchecked (subdirs : Z -> list Z) (root : Z) (fuel : nat) : outcome :=
  walk_unchecked subdirs fuel [root] [].

Definition outcome_visited (o : outcome) : list Z :=
  match o with
  | Finished v => v
  | Loop v _ => v
  | OutOfFuel v _ => v
  end.

(* Specification side: extents reachable from the root through [subdirs]. *)
Inductive reach (subdirs : Z -> list Z) (root : Z) : Z -> Prop :=
| reach_root : reach subdirs root root
| reach_step : forall p c, reach subdirs root p -> In c (subdirs p) -> reach subdirs root c.

(* "Tree": among reachable directories no extent is listed twice and nobody lists the root. *)
Definition tree_like (subdirs : Z -> list Z) (root : Z) : Prop :=
  forall l, NoDup l -> (forall x, In x l -> reach subdirs root x) ->
            NoDup (root :: flat_map subdirs l).

(* ---- executable helpers for the external harness ---- *)
Definition walk_result_code (o : outcome) : Z :=
  match o with
  | Finished _ => 0
  | Loop _ _ => 1
  | OutOfFuel _ _ => 2
  end.

(* subdirs from an association list; first binding wins; unknown extent = no sub-directories *)
Fixpoint sd_of (al : list (Z * list Z)) (e : Z) : list Z :=
  match al with
  | [] => []
  | (k, l) :: tl => if Z.eqb k e then l else sd_of tl e
  end.

Definition run_case (al : list (Z * list Z)) (root : Z) (fuel : nat) : Z * Z :=
  let r := open_walk (sd_of al) root fuel in
  (walk_result_code r, Z.of_nat (length (outcome_visited r))).

Definition run_case_unchecked (al : list (Z * list Z)) (root : Z) (fuel : nat) : Z * Z :=
  let r := open_walk_unchecked (sd_of al) root fuel in
  (walk_result_code r, Z.of_nat (length (outcome_visited r))).

(* witnesses used in the proofs *)
Definition sd_self : Z -> list Z := sd_of [(0, [0])].                 (* a directory listing itself *)
Definition sd_two : Z -> list Z := sd_of [(0, [1]); (1, [0])].        (* two-directory cycle *)
Definition sd_diamond : Z -> list Z := sd_of [(0, [1; 2]); (1, [3]); (2, [3])]. (* shared child, no cycle *)
