(* The parser proper of Model/Parse.v (which re-exports this file): PyCdlib._walk_directories on a reader of the
   medium.  See the header of Parse.v for the sources modelled.  Definitions only. *)
From Coq Require Import ZArith List Bool.
From PV.Base Require Import Prim.
From PV.Gen Require Import GenConst GenFun.
From PV.Model Require Import Codec Pack PathTable Names Master.
From PV.Model Require Account.
Import ListNotations.
Local Open Scope Z_scope.

Inductive presult (A : Type) : Type :=
| POk (a : A)
| PInvalid (why : Z)          (* the library raises (PyCdlibInvalidISO, or PyCdlibInvalidInput for 4) *)
| PUnsupported (why : Z)      (* outside the modelled fragment *)
| PFuel.
Arguments POk {A} a. Arguments PInvalid {A} why. Arguments PUnsupported {A} why. Arguments PFuel {A}.

(* a DirectoryRecord object after parse *)
Record prec := mk_prec {
  p_rec : drec;              (* the fields DirectoryRecord.parse read (extent = orig_extent_loc) *)
  p_drlen : Z;               (* self.dr_len: byte 0 of the record *)
  p_lenfi : Z;               (* self.len_fi: byte 32 *)
  p_dlen : Z;                (* self.data_length now (set_data_length may have changed it) *)
  p_ino : option nat;        (* self.inode: index in PyCdlib.inodes *)
  p_dir : option nat;        (* the directory this record heads (it was appended to `dirs`) *)
  p_idx : Z; p_eth : Z; p_oth : Z }.   (* index_in_parent, extents_to_here, offset_to_here *)

Record pstate := mk_pstate {
  s_dirs : list (list prec);     (* children lists of the directories walked completely *)
  s_cur : list prec;             (* dir_record.children of the directory being read *)
  s_queue : list (Z * Z);        (* dirs: (extent_location(), get_data_length()) *)
  s_inodes : list (Z * Z);       (* self.inodes: (orig_extent_loc, data_length) *)
  s_e2i : list (Z * nat);        (* extent_to_inode *)
  s_seen : list Z;               (* seen_dir_extents *)
  s_level : Z; s_lastbyte : Z }.

Definition ps_mem (x : Z) (l : list Z) : bool := existsb (Z.eqb x) l.
Fixpoint ps_assoc (x : Z) (l : list (Z * nat)) : option nat :=
  match l with
  | [] => None
  | (k, v) :: r => if k =? x then Some v else ps_assoc x r
  end.

(* ---- names ------------------------------------------------------------------------------------ *)

Definition ps_is_dot (r : drec) : bool := zlist_eqb (Codec.ident r) [0].
Definition ps_is_dotdot (r : drec) : bool := zlist_eqb (Codec.ident r) [1].
Definition ps_is_dir (r : drec) : bool := flag_set (flags r) 1.
Definition ps_is_assoc (r : drec) : bool := flag_set (flags r) 2.

(* file_identifier(): _printable_name *)
Definition ps_printable (r : drec) : list Z :=
  if ps_is_dot r then [46] else if ps_is_dotdot r then [46; 46] else Codec.ident r.

(* DirectoryRecord.__lt__ on file_ident *)
Definition ps_lt (a b : list Z) : bool :=
  if zlist_eqb a [0] then negb (zlist_eqb b [0])
  else if zlist_eqb b [0] then false
  else if zlist_eqb a [1] then true
  else if zlist_eqb b [1] then false
  else Account.bytes_ltb a b.

(* _interchange_level_from_directory *)
Definition ps_level_dir (name : list Z) : Z :=
  if (zlen name >? 8) || negb (all_d1 name) then 3 else 1.

(* _interchange_level_from_filename; None = int(version) raised ValueError *)
Definition ps_level_file (full : list Z) : option Z :=
  let '(name, ext, version) := split_iso9660_filename full in
  let vbad := match version with
              | [] => Some false
              | _ => match py_int version with
                     | Some v => Some ((v <? 1) || (v >? 32767))
                     | None => None
                     end
              end in
  match vbad with
  | None => None
  | Some b =>
      Some (if b || Names.mem semi name || Names.mem semi ext || (zlen name >? 8) || (zlen ext >? 3)
               || negb (all_d1 name && all_d1 ext) then 3 else 1)
  end.

(* ---- track_child ------------------------------------------------------------------------------ *)

(* bisect.bisect_left(children, child): lo, hi = 0, len; while lo < hi: mid = (lo + hi) // 2;
   if children[mid] < child: lo = mid + 1 else: hi = mid *)
Fixpoint ps_bisect (fuel : nat) (lt : prec -> bool) (l : list prec) (lo hi : nat) : nat :=
  match fuel with
  | O => lo
  | S f =>
      if (lo <? hi)%nat then
        let mid := ((lo + hi) / 2)%nat in
        match nth_error l mid with
        | Some a => if lt a then ps_bisect f lt l (S mid) hi else ps_bisect f lt l lo mid
        | None => lo
        end
      else lo
  end.

Definition ps_set_cache (c : prec) (i eth oth : Z) : prec :=
  mk_prec (p_rec c) (p_drlen c) (p_lenfi c) (p_dlen c) (p_ino c) (p_dir c) i eth oth.

(* the loop of _recalculate_extents_and_offsets over children[index:] *)
Fixpoint ps_renum (i : nat) (n off : Z) (l : list prec) : list prec :=
  match l with
  | [] => []
  | c :: r =>
      let n' := if (off + p_drlen c) >? BS then n + 1 else n in
      let off' := (if (off + p_drlen c) >? BS then 0 else off) + p_drlen c in
      ps_set_cache c (Z.of_nat i) n' off' :: ps_renum (S i) n' off' r
  end.

Definition ps_recalc (index : nat) (l : list prec) : list prec :=
  let start := match index with
               | O => (1, 0)
               | S k => match nth_error l k with
                        | Some c => (p_eth c, p_oth c)
                        | None => (1, 0)
                        end
               end in
  firstn index l ++ ps_renum index (fst start) (snd start) (skipn index l).

(* parent.track_child(new_record) with the retry of _walk_directories;
   [last] = last_record.file_identifier() *)
Definition ps_track (cur : list prec) (child : prec) (last : option (list Z)) : presult (list prec) :=
  let nm := Codec.ident (p_rec child) in
  let index := ps_bisect (S (length cur)) (fun a => ps_lt (Codec.ident (p_rec a)) nm) cur 0 (length cur) in
  let dup := match nth_error cur index with
             | Some c => zlist_eqb (Codec.ident (p_rec c)) nm && negb (ps_is_assoc (p_rec c))
                         && negb (ps_is_assoc (p_rec child))
             | None => false
             end in
  if dup then
    if ps_is_dir (p_rec child)
       || match last with
          | None => true
          | Some l => negb (zlist_eqb l (ps_printable (p_rec child)))
          end
    then PInvalid 4                     (* 'Failed adding duplicate name to parent' *)
    else PUnsupported 2                 (* a further extent of a multi-extent file *)
  else POk (ps_recalc index (insert_at index child cur)).

(* ---- the Inode of a file record ------------------------------------------------------------------ *)

Definition ps_set_dlen (i : nat) (v : Z) (c : prec) : prec :=
  match p_ino c with
  | Some k => if Nat.eqb k i
              then mk_prec (p_rec c) (p_drlen c) (p_lenfi c) v (p_ino c) (p_dir c) (p_idx c) (p_eth c) (p_oth c)
              else c
  | None => c
  end.

Definition ps_set_ilen (i : nat) (v : Z) (l : list (Z * Z)) : list (Z * Z) :=
  match nth_error l i with
  | Some (e, _) => firstn i l ++ (e, v) :: skipn (S i) l
  | None => l
  end.

(* returns (index of the inode, data_length of the new record, new state).
   [fixed = true]: the code after commit 10cfb30 -- a file that ends beyond the end of the image: the Inode
   AND every record linked to it get the bytes that are left (rec.set_data_length(inode.data_length));
   [fixed = false]: the code before it, rec.set_data_length(new_end) = the ABSOLUTE end offset *)
Definition ps_link_gen (fixed : bool) (isz : Z) (st : pstate) (ext dl : Z) : nat * Z * pstate :=
  let len_to_use := if dl =? 0 then 0 else dl in
  let extent_to_use := if dl =? 0 then 0 else ext in
  let found := if negb (len_to_use =? 0) then ps_assoc extent_to_use (s_e2i st) else None in
  let i := match found with Some i => i | None => length (s_inodes st) end in
  let inodes1 := match found with
                 | Some _ => s_inodes st
                 | None => s_inodes st ++ [(extent_to_use, len_to_use)]
                 end in
  let e2i1 := match found with
              | Some _ => s_e2i st
              | None => if negb (len_to_use =? 0) then s_e2i st ++ [(extent_to_use, i)] else s_e2i st
              end in
  let new_end := extent_to_use * BS + len_to_use in
  if new_end >? isz then
    let left := isz - extent_to_use * BS in
    let v := if fixed then left else new_end in
    (i, v,
     mk_pstate (map (map (ps_set_dlen i v)) (s_dirs st)) (map (ps_set_dlen i v) (s_cur st))
               (s_queue st) (ps_set_ilen i left inodes1) e2i1 (s_seen st)
               (s_level st) (s_lastbyte st))
  else
    (i, dl,
     mk_pstate (s_dirs st) (s_cur st) (s_queue st) inodes1 e2i1 (s_seen st) (s_level st)
               (Z.max (s_lastbyte st) new_end)).

Definition ps_link : Z -> pstate -> Z -> Z -> nat * Z * pstate := ps_link_gen true.

(* the bytes after the identifier (and its pad).  XARecord.parse: for offset in (0, len_fi rounded up to even):
   fewer than 14 bytes left -> no XA record (at once); bytes 6..7 = 'XA' -> an XA record.  Otherwise a Rock
   Ridge record is recognised by one of 15 two-byte signatures.  Either one is outside the fragment *)
Definition ps_rr_sigs : list (Z * Z) :=                 (* SP RR CE PX ER ES PN SL NM CL PL TF SF RE AL *)
  [(83, 80); (82, 82); (67, 69); (80, 88); (69, 82); (69, 83); (80, 78); (83, 76); (78, 77); (67, 76);
   (80, 76); (84, 70); (83, 70); (82, 69); (65, 76)].
Definition ps_xa_sig (s : list Z) : bool := (nth 6 s 0 =? 88) && (nth 7 s 0 =? 65).
Definition ps_outside (su : list Z) (len_fi : Z) : bool :=
  (if zlen su <? 14 then false
   else ps_xa_sig su
        || (let s2 := skipn (Z.to_nat (len_fi + len_fi mod 2)) su in
            if zlen s2 <? 14 then false else ps_xa_sig s2))
  || match su with
     | a :: b :: _ => existsb (fun s => (fst s =? a) && (snd s =? b)) ps_rr_sigs
     | _ => false
     end.

(* ---- one record ------------------------------------------------------------------------------------ *)

(* [ptr]: the extents of the records of the L path table (keys of extent_to_ptr);
   [isz]: the length of the image in bytes (_get_iso_size) *)
Definition ps_record (ptr : list Z) (isz : Z) (sl : pstate * option (list Z)) (record : list Z)
  : presult (pstate * option (list Z)) :=
  let '(st, last) := sl in
  match parse_dr record with
  | None => PInvalid 2
  | Some r =>
      if ps_outside (sysuse r) (znth 32 record) then PUnsupported 1 else
      let is_dir := ps_is_dir r in
      let dots := ps_is_dot r || ps_is_dotdot r in
      let '(ino, dlen1, st1) :=
        if is_dir then (None, data_len r, st)
        else let '(i, d, s) := ps_link isz st (extent r) (data_len r) in (Some i, d, s) in
      let queued := is_dir && negb dots in
      if queued && negb (ps_mem (extent r) ptr) then PInvalid 3 else
      let dirid := if queued then Some (length (s_dirs st1) + 1 + length (s_queue st1))%nat else None in
      let queue2 := if queued then s_queue st1 ++ [(extent r, data_len r)] else s_queue st1 in
      let child := mk_prec r (znth 0 record) (znth 32 record) dlen1 ino dirid (-1) 1 0 in
      match ps_track (s_cur st1) child last with
      | POk cur2 =>
          match (if is_dir then Some (ps_level_dir (ps_printable r)) else ps_level_file (ps_printable r)) with
          | None => PInvalid 5
          | Some lv =>
              POk (mk_pstate (s_dirs st1) cur2 queue2 (s_inodes st1) (s_e2i st1) (s_seen st1)
                             (Z.max (s_level st1) lv) (s_lastbyte st1),
                   Some (ps_printable r))
          end
      | PInvalid w => PInvalid w
      | PUnsupported w => PUnsupported w
      | PFuel => PFuel
      end
  end.

(* ---- the records of one directory extent ----------------------------------------------------------- *)

(* [data] = data[offset:] *)
Section Scan.
  Context {S : Type}.
  Variable step : S -> list Z -> presult S.

  Fixpoint ps_scan (fuel : nat) (data : list Z) (offset length : Z) (s : S) : presult S :=
    match fuel with
    | O => PFuel
    | Datatypes.S f =>
        if offset <? length then
          match data with
          | [] => PInvalid 1                                   (* 'Invalid directory record' *)
          | lenbyte :: _ =>
              if lenbyte =? 0 then
                let padsize := BS - offset mod BS in
                if zlist_eqb (firstn (Z.to_nat padsize) data) (repeat 0 (Z.to_nat padsize))
                then ps_scan f (skipn (Z.to_nat padsize) data) (offset + padsize) length s
                else PInvalid 6                                (* 'Invalid padding on ISO' *)
              else
                match step s (firstn (Z.to_nat lenbyte) data) with
                | POk s' => ps_scan f (skipn (Z.to_nat lenbyte) data) (offset + lenbyte) length s'
                | e => e
                end
          end
        else POk s
    end.
End Scan.

(* ---- the walk ---------------------------------------------------------------------------------------- *)

Definition ps_begin_dir (st : pstate) (q : list (Z * Z)) (seen : list Z) : pstate :=
  mk_pstate (s_dirs st) [] q (s_inodes st) (s_e2i st) seen (s_level st) (s_lastbyte st).

(* dir_block_range (commit 863c802): the blocks of the directory that lie inside the image, at least one *)
Definition ps_range (isz ext len : Z) : list Z :=
  map (fun k => ext + Z.of_nat k)
      (seq 0 (Z.to_nat (Z.max (ceiling_div (Z.min len (Z.max (isz - ext * BS) 0)) BS) 1))).

(* entering a directory.  [fixed = true], the code after commit 863c802: [seen] is seen_dir_blocks; a block of
   the range seen before -> 'Overlapping directories on the ISO' (9).  That commit also dropped the line
   seen_dir_extents.add(...): the set stays empty and 'Directory loop on the ISO' (7) can no longer be raised.
   [fixed = false], the code before it: [seen] is seen_dir_extents, raise 7 *)
Definition ps_enter (fixed : bool) (isz : Z) (seen : list Z) (ext len : Z) : Z + list Z :=
  if fixed then
    let r := ps_range isz ext len in
    if existsb (fun b => ps_mem b seen) r then inl 9 else inr (r ++ seen)
  else if ps_mem ext seen then inl 7 else inr (ext :: seen).

Definition ps_end_dir (st : pstate) : pstate :=
  mk_pstate (s_dirs st ++ [s_cur st]) [] (s_queue st) (s_inodes st) (s_e2i st) (s_seen st)
            (s_level st) (s_lastbyte st).

(* [rd ext len]: self._seek_to_extent(ext); cdfp.read(len); None = the medium is not described there *)
Fixpoint ps_walk (fixed : bool) (fuel : nat) (rd : Z -> Z -> option (list Z)) (ptr : list Z) (isz : Z)
         (st : pstate) : presult pstate :=
  match fuel with
  | O => PFuel
  | S f =>
      match s_queue st with
      | [] => POk st
      | (ext, len) :: q =>
          match ps_enter fixed isz (s_seen st) ext len with
          | inl w => PInvalid w
          | inr seen =>
              match rd ext len with
              | None => PUnsupported 3                          (* blocks the image does not describe *)
              | Some data =>
                  match ps_scan (ps_record ptr isz) (S (length data)) data 0 len
                                (ps_begin_dir st q seen, None) with
                  | POk (st', _) => ps_walk fixed f rd ptr isz (ps_end_dir st')
                  | PInvalid w => PInvalid w
                  | PUnsupported w => PUnsupported w
                  | PFuel => PFuel
                  end
              end
          end
      end
  end.

Record pgraph := mk_pgraph {
  g_dirs : list (list prec); g_inodes : list (Z * Z); g_level : Z; g_lastbyte : Z }.

Definition ps_graph (st : pstate) : pgraph :=
  mk_pgraph (s_dirs st) (s_inodes st) (s_level st) (s_lastbyte st).

Definition ps_init (root_ext root_len : Z) : pstate :=
  mk_pstate [] [] [(root_ext, root_len)] [] [] [] 1 0.

(* root_dir_record.set_ptr(path_table_records[0]): IndexError on an empty path table *)
Definition ps_parse_gen (fixed : bool) (fuel : nat) (rd : Z -> Z -> option (list Z)) (ptr : list Z)
           (isz root_ext root_len : Z) : presult pgraph :=
  match ptr with
  | [] => PInvalid 8
  | _ =>
      match ps_walk fixed fuel rd ptr isz (ps_init root_ext root_len) with
      | POk st => POk (ps_graph st)
      | PInvalid w => PInvalid w
      | PUnsupported w => PUnsupported w
      | PFuel => PFuel
      end
  end.
Definition ps_parse := ps_parse_gen true.

(* the medium given as a finite map of directory extents (Master.image) *)
Definition parse (fuel : nat) (img : image) (ptr : list Z) (isz root_ext root_len : Z) : presult pgraph :=
  ps_parse fuel (ms_img_read img) ptr isz root_ext root_len.

(* the medium given as the WHOLE file: seek(ext * 2048) and read(len) return what is there, fewer bytes (or
   none) at the end of the file.  Extents come out of struct.unpack('<L'): a negative one cannot occur. *)
Definition ps_file_read (bytes : list Z) (ext len : Z) : option (list Z) :=
  if (ext <? 0) || (len <? 0) then None
  else Some (firstn (Z.to_nat (Z.min len (zlen bytes)))
                    (skipn (Z.to_nat (Z.min (ext * BS) (zlen bytes))) bytes)).   (* = bytes[ext*2048:][:len] *)

Definition parse_file_gen (fixed : bool) (fuel : nat) (bytes : list Z) (ptr : list Z) (root_ext root_len : Z)
  : presult pgraph := ps_parse_gen fixed fuel (ps_file_read bytes) ptr (zlen bytes) root_ext root_len.
Definition parse_file := parse_file_gen true.

