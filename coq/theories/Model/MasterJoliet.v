(* C09 -- the JOLIET directory area and path tables of an ISO9660+Joliet image
   (PyCdlib.new(interchange_level=3, joliet=3)) as pycdlib masters them, the ISO9660 directory area of
   the same image, and an independent reader that starts from the root pointer of the supplementary
   volume descriptor and decodes the identifiers as UTF-16BE.

   The input is a state of Model/AccountNs.v (the object graph: the ISO9660 tree [niso], the Joliet
   tree [njol] -- both of type AccountLinks.lnode, a file record naming its inode --, the inode table,
   the path table sizes of both descriptors, both volume sizes).  Fragment: that of AccountNs (no Rock
   Ridge / UDF / El Torito / XA, block size 2048, file length <= 0xfffff800), but Joliet identifiers
   are ANY byte strings here (the library stores name.decode('utf-8').encode('utf-16_be')).

   Sources modelled (/repo/pycdlib):
     pycdlib.py  _reshuffle_extents: 16 system blocks, PVD, SVD, terminator, version block; PVD L and
                 M path tables; Joliet L and M path tables; ISO9660 directories; Joliet directories;
                 file data once per inode (pvd_files + joliet_files, linked_inodes)
                                                     -> mj_jptl .. mj_data_start, mj_ino_layout, mj_fext
     pycdlib.py  _reassign_vd_dirrecord_extents (one deque walk per descriptor over EVERY record; a
                 directory advances the extent; ptr_index counts directories only)
                                                     -> PathTable.bfs over mj_dtree (extents) and over
                                                        mj_ptree (directories only: the path table)
     pycdlib.py  _set_inode (`for rec in ino.linked_records: rec.set_data_location(...)`: every
                 record of an inode, in either hierarchy, gets the inode's extent)  -> mj_fext
     pycdlib.py  _write_directory_records(joliet_vd) (path table records at
                 path_table_location_le/be, directory records packed into blocks)
                                                     -> mj_ptable_chunk, mj_chunk, master_joliet
     dr.py       _new / new_file / new_dir / new_dot / new_dotdot / record, __lt__ (children sorted by
                 Python's bytes `<` on the encoded identifier)   -> Master.ms_rec, Codec.enc_dr (reused)

   REUSED, not copied: Master.ms_rec / ms_enc / ms_pack / ms_dir_bytes / ms_ext_at / image / read (the
   record format of a Joliet directory is that of an ISO9660 one), PathTable.bfs / assign_end /
   write_order / ptable_bytes_le / ptable_bytes_be, AccountNs.nlaid_out / nall / nlayout,
   AccountLinks.len_of, Alloc.bump, LongNames.utf16be_dec.
   Definitions only; proofs are in Proofs/MasterJoliet*.v. *)
From Coq Require Import ZArith List Bool.
From PV.Base Require Import Prim.
From PV.Gen Require Import GenConst GenFun.
From PV.Model Require Import Codec Pack PathTable Master.
From PV.Model Require Alloc Account AccountLinks AccountNs LongNames.
Import ListNotations.
Local Open Scope Z_scope.

Notation lnode := AccountLinks.lnode.
Notation LFile := AccountLinks.LFile.
Notation LDir := AccountLinks.LDir.
Notation nstate := AccountNs.nstate.
Notation itable := AccountLinks.itable.

(* ---- positions in a tree of records --------------------------------------------------------- *)

Fixpoint mj_node_at (n : lnode) (p : list nat) : option lnode :=
  match p with
  | [] => Some n
  | i :: q => match nth_error (AccountLinks.lkids n) i with
              | Some c => mj_node_at c q
              | None => None
              end
  end.

Definition mj_is_dir_at (t : lnode) (p : list nat) : bool :=
  match mj_node_at t p with Some (LDir _ _ _) => true | _ => false end.

Definition mj_dlen_at (t : lnode) (p : list nat) : Z :=
  match mj_node_at t p with Some (LDir _ dl _) => dl | _ => 0 end.

(* the deque of _reassign_vd_dirrecord_extents: every record; a directory takes
   ceiling_div(data_length, 2048) extents, a file none *)
Fixpoint mj_dtree (n : lnode) : dtree :=
  match n with
  | LFile nm _ _ => Node nm 0 []
  | LDir nm dl kids => Node nm (ceiling_div dl BS) (map mj_dtree kids)
  end.

(* the same walk seen by the path table: only directories have a PathTableRecord, and ptr_index
   counts directories only *)
Fixpoint mj_ptree (n : lnode) : dtree :=
  match n with
  | LFile nm _ _ => Node nm 0 []
  | LDir nm dl kids =>
      Node nm (ceiling_div dl BS)
        ((fix go (l : list lnode) : list dtree :=
            match l with
            | [] => []
            | c :: r => match c with
                        | LDir _ _ _ => mj_ptree c :: go r
                        | LFile _ _ _ => go r
                        end
            end) kids)
  end.

(* ---- _reshuffle_extents ------------------------------------------------------------------------ *)

Section Layout.
  Variable s : nstate.

  (* system area 0..15, PVD 16, SVD 17, terminator 18, version block 19 *)
  Definition mj_iptl : Z := 16 + 1 + 1 + 1 + 1.
  Definition mj_iptm : Z := mj_iptl + AccountNs.ipe s.
  Definition mj_jptl : Z := mj_iptm + AccountNs.ipe s.           (* joliet_vd.path_table_location_le *)
  Definition mj_jptm : Z := mj_jptl + AccountNs.jpe s.           (* joliet_vd.path_table_location_be *)
  Definition mj_idir_start : Z := mj_jptm + AccountNs.jpe s.
  Definition mj_jdir_start : Z := assign_end mj_idir_start (mj_dtree (AccountNs.niso s)).
  Definition mj_data_start : Z := assign_end mj_jdir_start (mj_dtree (AccountNs.njol s)).

  (* `for ino in pvd_files + joliet_files: if id(ino) in linked_inodes: continue; _set_inode(...)` *)
  Definition mj_ino_len (i : nat) : Z := AccountLinks.len_of i (AccountNs.nall s).
  Definition mj_ino_sizes : list Z := map (fun i => ceiling_div (mj_ino_len i) BS) (AccountNs.nlaid_out s).
  Definition mj_ino_layout : list (nat * (Z * Z)) :=
    combine (AccountNs.nlaid_out s) (Alloc.bump mj_data_start mj_ino_sizes).
  Definition mj_end : Z := Alloc.bump_end mj_data_start mj_ino_sizes.

  Fixpoint mj_assoc (i : nat) (l : list (nat * (Z * Z))) : Z :=
    match l with
    | [] => 0
    | (j, (e, _)) :: r => if Nat.eqb j i then e else mj_assoc i r
    end.

  (* new_extent_loc of EVERY record of inode i, in either hierarchy:
     `if dir_record.data_length == 0: set_data_location(0, 0)`, else _set_inode *)
  Definition mj_fext (i : nat) : Z := if mj_ino_len i =? 0 then 0 else mj_assoc i mj_ino_layout.
End Layout.

(* ---- the records of one directory --------------------------------------------------------------- *)

Section Area.
  Variable dt : list Z.                 (* the 7 date bytes *)
  Variable s : nstate.
  Variable t : lnode.                   (* the hierarchy: niso s or njol s *)
  Variable DB : list dirrec.            (* the walk over t *)

  Definition mj_kid_rec (p : list nat) (c : lnode) : drec :=
    match c with
    | LFile nm i _ => ms_rec dt (mj_fext s i) (mj_ino_len s i) 0 nm
    | LDir nm dl _ => ms_rec dt (ms_ext_at DB p) dl 2 nm
    end.

  Fixpoint mj_kid_recs (p : list nat) (j : nat) (kids : list lnode) : list drec :=
    match kids with
    | [] => []
    | c :: r => mj_kid_rec (p ++ [j]) c :: mj_kid_recs p (S j) r
    end.

  (* children[0] = '.', children[1] = '..', children[2:] sorted *)
  Definition mj_dir_recs (p : list nat) : list drec :=
    match mj_node_at t p with
    | Some (LDir _ dl kids) =>
        ms_rec dt (ms_ext_at DB p) dl 2 [0]
        :: ms_rec dt (ms_ext_at DB (removelast p)) (mj_dlen_at t (removelast p)) 2 [1]
        :: mj_kid_recs p 0 kids
    | _ => []
    end.

  Definition mj_chunk (p : list nat) : Z * list Z :=
    (ms_ext_at DB p, ms_dir_bytes (mj_dlen_at t p) (map ms_enc (mj_dir_recs p))).
End Area.

(* the directories in the order _write_directory_records pops them *)
Definition mj_dir_positions (t : lnode) : list (list nat) :=
  filter (mj_is_dir_at t) (write_order (mj_dtree t)).

(* the directory extents of one hierarchy; None = record() raised *)
Definition mj_area (dt : list Z) (s : nstate) (start : Z) (t : lnode) : option image :=
  let DB := PathTable.bfs start (mj_dtree t) in
  let ps := mj_dir_positions t in
  if forallb (fun p => forallb ms_enc_ok (mj_dir_recs dt s t DB p)) ps
  then Some (map (mj_chunk dt s t DB) ps)
  else None.

(* a path table: its records at the start of its extents, zeros behind *)
Definition mj_ptable_chunk (loc nblocks : Z) (bytes : option (list Z)) : option (Z * list Z) :=
  match bytes with
  | Some b => Some (loc, b ++ repeat 0 (Z.to_nat (nblocks * BS - zlen b)))
  | None => None
  end.

Definition mj_jptable_le (s : nstate) : option (list Z) :=
  ptable_bytes_le (mj_jdir_start s) (mj_ptree (AccountNs.njol s)).
Definition mj_jptable_be (s : nstate) : option (list Z) :=
  ptable_bytes_be (mj_jdir_start s) (mj_ptree (AccountNs.njol s)).

Definition master_joliet_dirs (dt : list Z) (s : nstate) : option image :=
  mj_area dt s (mj_jdir_start s) (AccountNs.njol s).

(* everything _write_directory_records(joliet_vd) writes: L table, M table, directory extents *)
Definition master_joliet (dt : list Z) (s : nstate) : option image :=
  match mj_ptable_chunk (mj_jptl s) (AccountNs.jpe s) (mj_jptable_le s),
        mj_ptable_chunk (mj_jptm s) (AccountNs.jpe s) (mj_jptable_be s),
        master_joliet_dirs dt s with
  | Some l, Some m, Some ds => Some (l :: m :: ds)
  | _, _, _ => None
  end.

(* the ISO9660 directory extents of the same image *)
Definition master_joliet_iso (dt : list Z) (s : nstate) : option image :=
  mj_area dt s (mj_idir_start s) (AccountNs.niso s).

(* what the supplementary volume descriptor declares:
   space_size, path_tbl_size, path_table_location_le, path_table_location_be,
   extent and data_length of the root directory record *)
Definition mj_svd (s : nstate) : list Z :=
  [AccountNs.jspace s; AccountNs.jps s; mj_jptl s; mj_jptm s; mj_jdir_start s;
   mj_dlen_at (AccountNs.njol s) []].
Definition mj_pvd_root (s : nstate) : Z * Z := (mj_idir_start s, mj_dlen_at (AccountNs.niso s) []).

(* ---- what a byte-level reader must find (Master.rnode: identifier bytes, extent, length) ------- *)

Section View.
  Variable s : nstate.
  Variable DB : list dirrec.

  Fixpoint mj_view (p : list nat) (n : lnode) : rnode :=
    match n with
    | LFile nm i _ => RFile nm (mj_fext s i) (mj_ino_len s i)
    | LDir nm dl kids =>
        RDir nm (ms_ext_at DB p) dl
          ((fix go (j : nat) (l : list lnode) : list rnode :=
              match l with
              | [] => []
              | c :: r => mj_view (p ++ [j]) c :: go (S j) r
              end) 0%nat kids)
    end.
End View.

Definition mj_jview (s : nstate) : rnode :=
  mj_view s (PathTable.bfs (mj_jdir_start s) (mj_dtree (AccountNs.njol s))) [] (AccountNs.njol s).
Definition mj_iview (s : nstate) : rnode :=
  mj_view s (PathTable.bfs (mj_idir_start s) (mj_dtree (AccountNs.niso s))) [] (AccountNs.niso s).

Fixpoint mj_height (n : lnode) : nat :=
  match n with
  | LFile _ _ _ => 1%nat
  | LDir _ _ kids => S (fold_right (fun c m => Nat.max (mj_height c) m) 0%nat kids)
  end.

(* ---- the Joliet reader: Master.read, then every identifier decoded as UTF-16BE -------------------
   names become lists of Unicode scalar values (bytes.decode('utf-16_be'), strict) *)

Inductive unode : Type :=
| UFile (name : list Z) (ext len : Z)
| UDir (name : list Z) (ext len : Z) (kids : list unode).

Fixpoint mj_decode (r : rnode) : option unode :=
  match r with
  | RFile nm e l =>
      match LongNames.utf16be_dec nm with Some u => Some (UFile u e l) | None => None end
  | RDir nm e l ks =>
      match LongNames.utf16be_dec nm,
            (fix go (l : list rnode) : option (list unode) :=
               match l with
               | [] => Some []
               | a :: r => match mj_decode a, go r with
                           | Some x, Some y => Some (x :: y)
                           | _, _ => None
                           end
               end) ks with
      | Some u, Some us => Some (UDir u e l us)
      | _, _ => None
      end
  end.

Fixpoint mj_decode_list (l : list rnode) : option (list unode) :=
  match l with
  | [] => Some []
  | a :: r => match mj_decode a, mj_decode_list r with
              | Some x, Some y => Some (x :: y)
              | _, _ => None
              end
  end.

(* the root has no name of its own (its record carries the identifier byte 0) *)
Definition mj_decode_root (r : rnode) : option unode :=
  match r with
  | RDir _ e l ks => match mj_decode_list ks with Some us => Some (UDir [] e l us) | None => None end
  | RFile _ _ _ => None
  end.

Definition read_joliet (fuel : nat) (img : image) (root_ext root_len : Z) : option unode :=
  match read fuel img root_ext root_len with
  | Some r => mj_decode_root r
  | None => None
  end.

(* the identifier as the Unicode string it encodes ([] when it is not UTF-16BE) *)
Definition mj_uname (nm : list Z) : list Z :=
  match LongNames.utf16be_dec nm with Some u => u | None => [] end.

Fixpoint mj_uview_node (r : rnode) : unode :=
  match r with
  | RFile nm e l => UFile (mj_uname nm) e l
  | RDir nm e l ks => UDir (mj_uname nm) e l (map mj_uview_node ks)
  end.

(* what the Joliet reader must return *)
Definition mj_uview (s : nstate) : unode :=
  match mj_jview s with
  | RDir _ e l ks => UDir [] e l (map mj_uview_node ks)
  | RFile _ e l => UFile [] e l
  end.

(* every identifier below the root is the UTF-16BE form of some Unicode string *)
Definition mj_decodes (nm : list Z) : bool :=
  match LongNames.utf16be_dec nm with Some _ => true | None => false end.
Fixpoint mj_names_ok (n : lnode) : bool :=
  match n with
  | LFile nm _ _ => mj_decodes nm
  | LDir nm _ kids => mj_decodes nm && forallb mj_names_ok kids
  end.
Definition mj_kid_names_ok (t : lnode) : bool := forallb mj_names_ok (AccountLinks.lkids t).

(* ---- the tree a user built: Unicode names, kinds, lengths ---------------------------------------- *)

Inductive shape : Type :=
| SFile (name : list Z) (len : Z)
| SDir (name : list Z) (kids : list shape).

Fixpoint mj_shape (u : unode) : shape :=
  match u with
  | UFile nm _ l => SFile nm l
  | UDir nm _ _ ks => SDir nm (map mj_shape ks)
  end.

(* ---- well-formed states -------------------------------------------------------------------------- *)

(* dr_len = 33 + len + pad <= 254 *)
Definition mj_name_ok (nm : list Z) : bool := Account.dr_len_of nm <=? 254.

Fixpoint mj_tree_ok (n : lnode) : bool :=
  match n with
  | LFile nm _ _ => mj_name_ok nm
  | LDir nm dl kids =>
      mj_name_ok nm && Invb BS (AccountLinks.ldir_st dl kids) && (dl <=? 4294967295) &&
      ms_sorted (map AccountLinks.lname kids) && forallb mj_tree_ok kids
  end.

(* every directory extent is shorter than 4 GiB (its data_length is a 32-bit field) *)
Fixpoint mj_dl_ok (n : lnode) : bool :=
  match n with
  | LFile _ _ _ => true
  | LDir _ dl kids => (dl <=? 4294967295) && forallb mj_dl_ok kids
  end.

Definition mj_root_ok (t : lnode) : bool :=
  match t with LDir nm _ _ => Account.bytes_eqb nm [0] | LFile _ _ _ => false end.

Definition mj_wf (s : nstate) : bool :=
  mj_root_ok (AccountNs.niso s) && mj_root_ok (AccountNs.njol s) &&
  mj_tree_ok (AccountNs.niso s) && mj_tree_ok (AccountNs.njol s) &&
  forallb (fun e : nat * Z => (0 <=? snd e) && (snd e <=? Account.max_len)) (AccountNs.nall s) &&
  (0 <=? AccountNs.ipe s) && (0 <=? AccountNs.jpe s) &&
  (AccountNs.jps s =? AccountLinks.ltotal AccountLinks.lw_ptr (AccountNs.njol s)) &&
  (ceiling_div (AccountNs.jps s) 4096 * 2 <=? AccountNs.jpe s) &&
  (mj_end s <=? 4294967296).

(* ---- the order of the records --------------------------------------------------------------------- *)

(* ECMA-119 9.3 read on the encoded identifier: the shorter one is padded with [pad] bytes
   ((20) in ECMA-119; the Joliet specification pads with (00)) *)
Fixpoint mj_vs_pad (pad : Z) (a : list Z) : comparison :=
  match a with
  | [] => Eq
  | x :: a' => match x ?= pad with Eq => mj_vs_pad pad a' | c => c end
  end.
Fixpoint mj_pad_cmp (pad : Z) (a b : list Z) : comparison :=
  match a, b with
  | [], _ => CompOpp (mj_vs_pad pad b)
  | _, [] => mj_vs_pad pad a
  | x :: a', y :: b' => match x ?= y with Eq => mj_pad_cmp pad a' b' | c => c end
  end.
Definition mj_pad_leb (pad : Z) (a b : list Z) : bool :=
  match mj_pad_cmp pad a b with Gt => false | _ => true end.
Fixpoint mj_pad_sorted (pad : Z) (l : list (list Z)) : bool :=
  match l with
  | [] => true
  | a :: r => match r with [] => true | b :: _ => mj_pad_leb pad a b end && mj_pad_sorted pad r
  end.

(* 16-bit code units of an encoded identifier (an odd trailing byte is dropped) *)
Fixpoint mj_units (b : list Z) : list Z :=
  match b with
  | h :: l :: r => (h * 256 + l) :: mj_units r
  | _ => []
  end.

(* the identifiers of the records of a directory extent, '.' and '..' included *)
Definition mj_idents (recs : list drec) : list (list Z) := map Codec.ident recs.

(* ---- harness -------------------------------------------------------------------------------------- *)

Fixpoint mj_unode_eqb (a b : unode) : bool :=
  match a, b with
  | UFile n1 e1 l1, UFile n2 e2 l2 => zlist_eqb n1 n2 && (e1 =? e2) && (l1 =? l2)
  | UDir n1 e1 l1 k1, UDir n2 e2 l2 k2 =>
      zlist_eqb n1 n2 && (e1 =? e2) && (l1 =? l2) &&
      (fix go (x y : list unode) : bool :=
         match x, y with
         | [], [] => true
         | a' :: x', b' :: y' => mj_unode_eqb a' b' && go x' y'
         | _, _ => false
         end) k1 k2
  | _, _ => false
  end.

Fixpoint mj_shape_eqb (a b : shape) : bool :=
  match a, b with
  | SFile n1 l1, SFile n2 l2 => zlist_eqb n1 n2 && (l1 =? l2)
  | SDir n1 k1, SDir n2 k2 =>
      zlist_eqb n1 n2 &&
      (fix go (x y : list shape) : bool :=
         match x, y with
         | [], [] => true
         | a' :: x', b' :: y' => mj_shape_eqb a' b' && go x' y'
         | _, _ => false
         end) k1 k2
  | _, _ => false
  end.

(* the extents used here are those of AccountNs.nlayout: after the 9 fixed objects it lists
   (extent, blocks) of the ISO9660 directories, of the Joliet directories, of the inodes with data *)
Definition mj_dir_pairs (start : Z) (t : lnode) : list (Z * Z) :=
  map (fun r => (d_extent r, d_blocks r))
      (filter (fun r => mj_is_dir_at t (d_pos r)) (PathTable.bfs start (mj_dtree t))).

Definition mj_layout_pairs (s : nstate) : list (Z * Z) :=
  mj_dir_pairs (mj_idir_start s) (AccountNs.niso s)
  ++ mj_dir_pairs (mj_jdir_start s) (AccountNs.njol s)
  ++ map snd (mj_ino_layout s).

Definition mj_fixed_pairs (s : nstate) : list (Z * Z) :=
  [(0, 16); (16, 1); (17, 1); (18, 1); (19, 1); (mj_iptl, AccountNs.ipe s); (mj_iptm s, AccountNs.ipe s);
   (mj_jptl s, AccountNs.jpe s); (mj_jptm s, AccountNs.jpe s)].

Definition mj_layout_agrees (s : nstate) : bool :=
  zz_list_eqb (AccountNs.nlayout s) (mj_fixed_pairs s ++ mj_layout_pairs s) &&
  (AccountNs.nlayout_end s =? mj_end s).

Definition mj_rle : Type := list (Z * list Z).
Definition mj_unrle_chunk (x : Z * mj_rle) : Z * list Z := (fst x, ms_unrle (snd x)).

(* a case, cut out of an image written by the library:
     the state (object graph just before the write), the 7 date bytes,
     the 6 SVD values of [mj_svd], the (extent, data_length) of the PVD root record,
     the blocks of the Joliet L and M path tables, of every Joliet directory (in breadth-first
     order from the SVD root record), of every ISO9660 directory (from the PVD root record), all run-length
     coded; the Joliet namespace the history built, as Unicode names / kinds / lengths, children
     sorted by their UTF-16BE bytes *)
Record mj_case : Type := mk_mj_case {
  c_state : nstate; c_dt : list Z; c_svd : list Z; c_pvd_root : Z * Z;
  c_ltable : mj_rle; c_mtable : mj_rle;
  c_jdirs : list (Z * mj_rle); c_idirs : list (Z * mj_rle);
  c_shadow : shape }.

Definition mj_case_ok (c : mj_case) : bool :=
  let s := c_state c in
  let ltab := (nth 2 (c_svd c) 0, ms_unrle (c_ltable c)) in
  let mtab := (nth 3 (c_svd c) 0, ms_unrle (c_mtable c)) in
  let jimg := ltab :: mtab :: map mj_unrle_chunk (c_jdirs c) in
  let iimg := map mj_unrle_chunk (c_idirs c) in
  mj_wf s && mj_kid_names_ok (AccountNs.njol s) &&
  zlist_eqb (c_svd c) (mj_svd s) &&
  (fst (c_pvd_root c) =? fst (mj_pvd_root s)) && (snd (c_pvd_root c) =? snd (mj_pvd_root s)) &&
  (AccountNs.ispace s =? mj_end s) &&
  match master_joliet (c_dt c) s with Some m => ms_image_eqb m jimg | None => false end &&
  match master_joliet_iso (c_dt c) s with Some m => ms_image_eqb m iimg | None => false end &&
  match read_joliet (mj_height (AccountNs.njol s)) jimg (nth 4 (c_svd c) 0) (nth 5 (c_svd c) 0) with
  | Some v => mj_unode_eqb v (mj_uview s) && mj_shape_eqb (mj_shape v) (c_shadow c)
  | None => false
  end &&
  match read (mj_height (AccountNs.niso s)) iimg (fst (c_pvd_root c)) (snd (c_pvd_root c)) with
  | Some v => ms_rnode_eqb v (mj_iview s)
  | None => false
  end &&
  match PathTable.reader_of_bytes (firstn (Z.to_nat (nth 1 (c_svd c) 0)) (snd ltab)) with
  | Some paths => (length paths =? length (mj_dir_positions (AccountNs.njol s)))%nat
  | None => false
  end &&
  mj_layout_agrees s.

Fixpoint bad_masterjoliet_cases (k : nat) (cs : list mj_case) : list nat :=
  match cs with
  | [] => []
  | c :: r => if mj_case_ok c then bad_masterjoliet_cases (S k) r
              else k :: bad_masterjoliet_cases (S k) r
  end.

(* which of the checks of mj_case_ok fail (for debugging a disagreement) *)
Definition mj_case_diag (c : mj_case) : list bool :=
  let s := c_state c in
  let ltab := (nth 2 (c_svd c) 0, ms_unrle (c_ltable c)) in
  let mtab := (nth 3 (c_svd c) 0, ms_unrle (c_mtable c)) in
  let jimg := ltab :: mtab :: map mj_unrle_chunk (c_jdirs c) in
  let iimg := map mj_unrle_chunk (c_idirs c) in
  [ mj_wf s; mj_kid_names_ok (AccountNs.njol s); zlist_eqb (c_svd c) (mj_svd s);
    (fst (c_pvd_root c) =? fst (mj_pvd_root s)) && (snd (c_pvd_root c) =? snd (mj_pvd_root s));
    AccountNs.ispace s =? mj_end s;
    match master_joliet (c_dt c) s with Some m => ms_image_eqb m jimg | None => false end;
    match master_joliet_iso (c_dt c) s with Some m => ms_image_eqb m iimg | None => false end;
    match read_joliet (mj_height (AccountNs.njol s)) jimg (nth 4 (c_svd c) 0) (nth 5 (c_svd c) 0) with
    | Some v => mj_unode_eqb v (mj_uview s) | None => false end;
    match read_joliet (mj_height (AccountNs.njol s)) jimg (nth 4 (c_svd c) 0) (nth 5 (c_svd c) 0) with
    | Some v => mj_shape_eqb (mj_shape v) (c_shadow c) | None => false end;
    match read (mj_height (AccountNs.niso s)) iimg (fst (c_pvd_root c)) (snd (c_pvd_root c)) with
    | Some v => ms_rnode_eqb v (mj_iview s) | None => false end;
    mj_layout_agrees s ].
