(* Evaluation support for the C19 correspondence: each case carries (t, off) and the bytes the
   implementation's record() produced for the 7-byte, 17-byte and UDF timestamps. *)
From Coq Require Import ZArith List Bool.
From PV.Base Require Import Prim.
From PV.Model Require Import Dates StreamCases.
Import ListNotations.
Local Open Scope Z_scope.

Record dcase := { d_t : Z; d_off : Z; d_dr : list Z; d_vd : list Z; d_udf : list Z }.

Definition opt_eqb (a : option (list Z)) (b : list Z) : bool :=
  match a with Some x => list_eqb x b | None => false end.

Definition dcase_ok (c : dcase) : bool :=
  opt_eqb (dr_date_record (dr_date_new (d_off c) (d_t c))) (d_dr c) &&
  opt_eqb (vd_date_new (d_off c) (d_t c)) (d_vd c) &&
  list_eqb (udf_ts_record (udf_ts_new 15 (d_off c) (d_t c))) (d_udf c).

Fixpoint bad_dcases_from (k : nat) (cs : list dcase) : list nat :=
  match cs with
  | [] => []
  | c :: r => (if dcase_ok c then [] else [k]) ++ bad_dcases_from (S k) r
  end.
Definition bad_dcases := bad_dcases_from 0.
