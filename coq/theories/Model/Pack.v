(* Packing of ISO9660 directory records into logical blocks, as done by pycdlib.

   Sources modelled (statement by statement):
     /repo/pycdlib/dr.py      DirectoryRecord._recalculate_extents_and_offsets   -> nf, nf_pos
     /repo/pycdlib/dr.py      DirectoryRecord._add_child (check_overflow part)   -> dir_add
     /repo/pycdlib/dr.py      DirectoryRecord.remove_child (underflow part)      -> dir_remove
     /repo/pycdlib/pycdlib.py PyCdlib._write_directory_records (record loop)     -> writer_pos

   [C] is the logical block size, a directory is the list of the lengths (dr_len) of its
   children in order.  Definitions only; all proofs are in Proofs/PackProofs.v. *)
From Coq Require Import ZArith List Bool.
Import ListNotations.
Local Open Scope Z_scope.

(* ---- _recalculate_extents_and_offsets -------------------------------------------------- *)

(* for c in children[index:]:
       if (dirrecord_offset + dirrecord_len) > logical_block_size:
           num_extents += 1 ; dirrecord_offset = 0
       dirrecord_offset += dirrecord_len
       c.extents_to_here = num_extents ; c.offset_to_here = dirrecord_offset
   return num_extents, dirrecord_offset *)
Fixpoint nf (C n off : Z) (ls : list Z) : Z * Z :=
  match ls with
  | [] => (n, off)
  | x :: r => if (off + x) >? C then nf C (n + 1) (0 + x) r else nf C n (off + x) r
  end.

(* the (extents_to_here, offset_to_here) values stored in each child *)
Fixpoint nf_pos (C n off : Z) (ls : list Z) : list (Z * Z) :=
  match ls with
  | [] => []
  | x :: r =>
      if (off + x) >? C then (n + 1, 0 + x) :: nf_pos C (n + 1) (0 + x) r
      else (n, off + x) :: nf_pos C n (off + x) r
  end.

(* index = 0: dirrecord_offset = 0, num_extents = 1 *)
Definition cached (C : Z) (ls : list Z) : list (Z * Z) := nf_pos C 1 0 ls.
Definition num_extents (C : Z) (ls : list Z) : Z := fst (nf C 1 0 ls).
Definition last_offset (C : Z) (ls : list Z) : Z := snd (nf C 1 0 ls).

(* ---- _write_directory_records ---------------------------------------------------------- *)

(* for child in curr.children:
       if (curr_dirrecord_offset + len(recstr)) > logical_block_size:
           dir_extent += 1 ; curr_dirrecord_offset = 0
       seek(dir_extent * logical_block_size + curr_dirrecord_offset) ; write(recstr)
       curr_dirrecord_offset += len(recstr)
   The pair emitted is (dir_extent - extent_location(), curr_dirrecord_offset) at the seek. *)
Fixpoint writer_pos (C ext off : Z) (ls : list Z) : list (Z * Z) :=
  match ls with
  | [] => []
  | x :: r =>
      if (off + x) >? C then (ext + 1, 0) :: writer_pos C (ext + 1) (0 + x) r
      else (ext, off) :: writer_pos C ext (off + x) r
  end.

Definition written (C : Z) (ls : list Z) : list (Z * Z) := writer_pos C 0 0 ls.

(* the same writer with the test [>=] instead of [>] (NOT what pycdlib does; used to show that
   the agreement theorem depends on the two loops using the very same test) *)
Fixpoint writer_pos_ge (C ext off : Z) (ls : list Z) : list (Z * Z) :=
  match ls with
  | [] => []
  | x :: r =>
      if (off + x) >=? C then (ext + 1, 0) :: writer_pos_ge C (ext + 1) (0 + x) r
      else (ext, off) :: writer_pos_ge C ext (off + x) r
  end.

Definition written_ge (C : Z) (ls : list Z) : list (Z * Z) := writer_pos_ge C 0 0 ls.

(* where the cache says record i lives: zero-based extent, start offset *)
Definition place (t : Z * Z * Z) : Z * Z := (fst (fst t) - 1, snd (fst t) - snd t).
Definition cached_places (C : Z) (ls : list Z) : list (Z * Z) :=
  map place (combine (cached C ls) ls).

(* ---- directory length policy ------------------------------------------------------------ *)

Definition zsum (ls : list Z) : Z := fold_right Z.add 0 ls.

(* list.insert(k, x) (k >= 0): an index past the end appends, like Python *)
Definition insert_at {A} (k : nat) (x : A) (l : list A) : list A := firstn k l ++ x :: skipn k l.
(* del l[k] (for k < len l; the model leaves the list unchanged otherwise) *)
Definition remove_at {A} (k : nat) (l : list A) : list A := firstn k l ++ skipn (S k) l.

Record dirst := { recs : list Z; dlen : Z }.

(* _add_child(..., check_overflow=True) *)
Definition dir_add (C : Z) (d : dirst) (k : nat) (x : Z) : dirst :=
  let ls := insert_at k x (recs d) in
  let n := num_extents C ls in
  {| recs := ls; dlen := if (n * C) >? dlen d then dlen d + C else dlen d |}.

(* remove_child *)
Definition dir_remove (C : Z) (d : dirst) (k : nat) : dirst :=
  let ls := remove_at k (recs d) in
  let n := num_extents C ls in
  let off := last_offset C ls in
  let total := (n - 1) * C + off in
  {| recs := ls; dlen := if (dlen d - total) >? C then dlen d - C else dlen d |}.

(* a new directory: '.' and '..' (34 bytes each without extensions), one block *)
Definition dir_init (C : Z) : dirst := {| recs := [34; 34]; dlen := C |}.
Definition dir_init_gen (C : Z) (ls : list Z) : dirst := {| recs := ls; dlen := C |}.

Inductive dirop := OpAdd (k : nat) (x : Z) | OpRemove (k : nat).

Definition dir_step (C : Z) (d : dirst) (o : dirop) : dirst :=
  match o with
  | OpAdd k x => dir_add C d k x
  | OpRemove k => dir_remove C d k
  end.

Definition dir_run (C : Z) (d : dirst) (ops : list dirop) : dirst := fold_left (dir_step C) ops d.

Fixpoint dir_trace (C : Z) (d : dirst) (ops : list dirop) : list dirst :=
  match ops with
  | [] => [d]
  | o :: r => d :: dir_trace C (dir_step C d o) r
  end.

(* boolean form of the invariant of Proofs/PackProofs.v *)
Definition Invb (C : Z) (d : dirst) : bool :=
  (dlen d mod C =? 0) && (num_extents C (recs d) * C <=? dlen d).

(* example data for the non-vacuity check: 100 records of lengths 40..60 inserted at scattered
   indices after '.' and '..', then 60 removals, then 20 further insertions *)
Definition ex_len (i : Z) : Z := 40 + (i * 8) mod 21.
Definition ex_adds (lo cnt : nat) : list dirop :=
  map (fun i => OpAdd (2 + Z.to_nat ((Z.of_nat i * 5) mod (Z.of_nat i + 1))) (ex_len (Z.of_nat i)))
      (seq lo cnt).
Definition ex_removes (cnt : nat) : list dirop :=
  map (fun i => OpRemove (2 + Z.to_nat ((Z.of_nat i * 3) mod 40))) (seq 0 cnt).
Definition ex_ops100 : list dirop := ex_adds 0 100.
Definition ex_ops : list dirop := ex_adds 0 100 ++ ex_removes 60 ++ ex_adds 100 20.

(* ---- checker used by the external harness ------------------------------------------------ *)

Fixpoint zz_list_eqb (a b : list (Z * Z)) : bool :=
  match a, b with
  | [], [] => true
  | (a1, a2) :: ra, (b1, b2) :: rb => (a1 =? b1) && (a2 =? b2) && zz_list_eqb ra rb
  | _, _ => false
  end.

(* true iff nf C 1 0 ls = (n, off) and cached C ls = pos *)
Definition pack_case_ok (C : Z) (ls : list Z) (n off : Z) (pos : list (Z * Z)) : bool :=
  (fst (nf C 1 0 ls) =? n) && (snd (nf C 1 0 ls) =? off) && zz_list_eqb (cached C ls) pos.

Fixpoint bad_cases (k : nat) (cs : list (Z * list Z * Z * Z * list (Z * Z))) : list nat :=
  match cs with
  | [] => []
  | (C, ls, n, off, pos) :: r =>
      (if pack_case_ok C ls n off pos then [] else [k]) ++ bad_cases (S k) r
  end.
