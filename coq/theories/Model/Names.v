(* Model of pycdlib's identifier checks (pycdlib.py: _check_d1_characters, _split_iso9660_filename,
   _check_iso9660_filename, _check_iso9660_directory, Python's int(bytes)) and of the name-mangling
   helpers (utils.py: truncate_basename, mangle_file_for_iso9660, mangle_dir_for_iso9660;
   facade.py: iso_path_to_rr_name's name part).  Strings are lists of code points / bytes (Z). *)
From Coq Require Import ZArith List Bool Lia.
From PV.Base Require Import Prim.
From PV.Gen Require Import GenConst.
Import ListNotations.
Local Open Scope Z_scope.

Inductive outcome := Accept | Refuse (* PyCdlibInvalidInput *) | Fault (* any other exception *).

Definition is_d1 (c : Z) : bool := existsb (Z.eqb c) allowed_d1_characters.   (* translated set *)
Definition all_d1 (s : list Z) : bool := forallb is_d1 s.

Definition semi : Z := 59.   (* ; *)
Definition dot : Z := 46.    (* . *)
Definition underscore : Z := 95.

(* split at the LAST occurrence of sep: Some (before, after), or None if sep does not occur *)
Fixpoint split_last (sep : Z) (l : list Z) : option (list Z * list Z) :=
  match l with
  | [] => None
  | c :: r =>
    match split_last sep r with
    | Some (b, a) => Some (c :: b, a)
    | None => if c =? sep then Some ([], r) else None
    end
  end.

Definition mem (c : Z) (l : list Z) : bool := existsb (Z.eqb c) l.

(* _split_iso9660_filename *)
Definition split_iso9660_filename (full : list Z) : list Z * list Z * list Z :=
  let '(rest, version) := match split_last semi full with
                          | Some (b, a) => (b, a) | None => (full, []) end in
  match split_last dot rest with
  | Some (n, e) => (n, e, version)
  | None => (rest, [], version)
  end.

(* Python int(bytes): surrounding ASCII whitespace stripped, optional sign, decimal digits with
   single underscores between digits.  None = ValueError. *)
Definition is_ws (c : Z) : bool := (c =? 32) || ((9 <=? c) && (c <=? 13)).
Definition is_digit (c : Z) : bool := (48 <=? c) && (c <=? 57).
Fixpoint lstrip (l : list Z) : list Z :=
  match l with c :: r => if is_ws c then lstrip r else l | [] => [] end.
Definition strip (l : list Z) : list Z := rev (lstrip (rev (lstrip l))).

(* digits with optional single underscores between them; [prev_digit] says whether the previous
   character was a digit (an underscore is only allowed then, and must be followed by a digit) *)
Fixpoint int_digits (l : list Z) (acc : Z) (prev_digit : bool) : option Z :=
  match l with
  | [] => if prev_digit then Some acc else None
  | c :: r =>
    if is_digit c then int_digits r (acc * 10 + (c - 48)) true
    else if (c =? underscore) && prev_digit then
      match r with
      | d :: _ => if is_digit d then int_digits r acc false else None
      | [] => None
      end
    else None
  end.

Definition py_int (l : list Z) : option Z :=
  match strip l with
  | [] => None
  | c :: r =>
    if c =? 43 then int_digits r 0 false             (* + *)
    else if c =? 45 then option_map Z.opp (int_digits r 0 false)   (* - *)
    else int_digits (c :: r) 0 false
  end.

Definition all_digits (s : list Z) : bool := forallb is_digit s.
Fixpoint digits_value (l : list Z) (acc : Z) : Z :=
  match l with [] => acc | c :: r => digits_value r (acc * 10 + (c - 48)) end.

(* the version test.  [fixed = true]: version.isdigit() and len <= 5 required before int() (fix: commit);
   [fixed = false]: the pinned original, int(version) on anything (ValueError escapes as Fault). *)
Definition check_version (fixed : bool) (version : list Z) : outcome :=
  match version with
  | [] => Accept
  | _ =>
    if fixed then
      if negb (all_digits version) || (zlen version >? 5) then Refuse
      else let v := digits_value version 0 in if (v <? 1) || (v >? 32767) then Refuse else Accept
    else
      match py_int version with
      | None => Fault
      | Some v => if (v <? 1) || (v >? 32767) then Refuse else Accept
      end
  end.

(* _check_iso9660_filename(fullname, interchange_level) *)
Definition check_iso9660_filename_gen (fixed : bool) (full : list Z) (lvl : Z) : outcome :=
  let '(name, ext, version) := split_iso9660_filename full in
  match check_version fixed version with
  | Accept =>
    if (match name with [] => true | _ => false end) && (match ext with [] => true | _ => false end) then Refuse
    else if mem semi name || mem semi ext then Refuse
    else if (lvl =? 1) && ((zlen name >? 8) || (zlen ext >? 3)) then Refuse
    else if (lvl <? 4) && negb (all_d1 name && all_d1 ext) then Refuse
    else Accept
  | o => o
  end.
Definition check_iso9660_filename := check_iso9660_filename_gen true.

(* _check_iso9660_directory *)
Definition check_iso9660_directory (full : list Z) (lvl : Z) : outcome :=
  match full with
  | [] => Refuse
  | _ =>
    if (lvl =? 1) && (zlen full >? 8) then Refuse
    else if ((lvl =? 2) || (lvl =? 3)) && (zlen full >? 207) then Refuse
    else if (lvl <? 4) && negb (all_d1 full) then Refuse
    else Accept
  end.

(* ------------------------------------------------------------------ mangling (utils.py)
   [up c] is str.upper() of the single code point c (may be several code points). *)
Section Mangle.
  Variable up : Z -> list Z.

  Definition upper (s : list Z) : list Z := flat_map up s.
  Definition sub_char (c : Z) : Z := if is_d1 c then c else underscore.   (* re.sub('[^A-Z0-9_]{1}', '_') *)

  (* [fixed = true]: truncate again after upper-casing (the fix: commit);
     [fixed = false]: the pinned original (truncate, then upper-case). *)
  Definition truncate_basename (fixed : bool) (basename : list Z) (lvl : Z) (is_dir : bool) : list Z :=
    if lvl =? 4 then basename
    else
      let maxlen := if lvl =? 1 then 8%nat else if is_dir then 31%nat else 30%nat in
      let u := upper (firstn maxlen basename) in
      map sub_char (if fixed then firstn maxlen u else u).

  Definition mangle_file (fixed : bool) (orig : list Z) (lvl : Z) : list Z * list Z :=
    if lvl =? 4 then
      (* level 4 allows "anything": (basename, ext) split at the last dot, no version appended *)
      match split_last dot orig with
      | None => (orig, [])
      | Some (base, ext) => (base, ext)
      end
    else
    match split_last dot orig with
    | None => (truncate_basename fixed orig lvl false, [semi; 49])
    | Some (base, ext) =>
        let extlen := zlen ext in
        let tmpext := upper ext in
        let ext_ok := negb ((extlen =? 0) || (extlen >? 3)) && all_d1 tmpext &&
                      (if fixed then zlen tmpext <=? 3 else true) in
        if ext_ok then (truncate_basename fixed base lvl false, tmpext ++ [semi; 49])
        else (truncate_basename fixed orig lvl false, [semi; 49])
    end.

  Definition mangle_dir (fixed : bool) (orig : list Z) (lvl : Z) : list Z :=
    truncate_basename fixed orig lvl true.

  (* the identifier the facades build: '.'.join([basename, ext]) *)
  Definition mangled_file_name (fixed : bool) (orig : list Z) (lvl : Z) : list Z :=
    let '(b, e) := mangle_file fixed orig lvl in b ++ [dot] ++ e.
End Mangle.

(* ------------------------------------------------------------------ declarative legality (the rules
   the library documents: d-characters, 8.3 at level 1, versions 1..32767 written in digits) *)
Definition legal_file (lvl : Z) (s : list Z) : Prop :=
  exists name ext ver,
    (s = name ++ [dot] ++ ext ++ [semi] ++ ver \/ (ver = [] /\ s = name ++ [dot] ++ ext) \/
     (ext = [] /\ s = name ++ [semi] ++ ver) \/ (ext = [] /\ ver = [] /\ s = name)) /\
    all_d1 name = true /\ all_d1 ext = true /\ (name <> [] \/ ext <> []) /\
    (lvl = 1 -> zlen name <= 8 /\ zlen ext <= 3) /\
    all_digits ver = true /\ (ver <> [] -> 1 <= digits_value ver 0 <= 32767).

Definition legal_dir (lvl : Z) (s : list Z) : Prop :=
  s <> [] /\ all_d1 s = true /\ (lvl = 1 -> zlen s <= 8) /\ (lvl = 2 \/ lvl = 3 -> zlen s <= 207).
