(* C10 / C02 -- pycdlib's OWN parser of the UDF tree (PyCdlib._walk_udf_directories), on the SUMMARY level
   of Model/UdfLayout.v (view : partition block -> File Entry summary | identifier area summary),
   composed with the layout model: what `open` builds from what `write` recorded.
   Definitions only; proofs are in Proofs/UdfParse*Proofs.v.

   Sources modelled (statement by statement; /repo/pycdlib/pycdlib.py, udf.py):
     _walk_udf_directories   -> udf_parse_from / up_loop (the deque of File Entry objects, 'Directory loop'),
                                up_areas ("for desc in udf_file_entry.alloc_descs": read extent_length bytes
                                at part_start + log_block_num), up_fids ("while offset < len(data)":
                                parse_file_ident, offset += bytes_forward, the parent FID is tracked and
                                skipped, parse_file_entry(part_start + icb.log_block_num, ..., udf_file_entry)
                                for EVERY other FID, track_file_ident_desc, 'Empty UDF File Entry for
                                directories', file_ident.file_entry / next_entry.file_ident, the deque
                                append for is_dir() FIDs, the Inode otherwise), up_link (abs_file_data_extent
                                = part_start + alloc_descs[0].log_block_num if get_data_length() > 0 else 0;
                                ino_key = that, or -abs_file_entry_extent when it is 0 (commit efe6323);
                                extent_to_inode lookup or Inode.parse + self.inodes.append;
                                linked_records.append((next_entry, False)); num_udf += 1; next_entry.inode)
     udf.parse_file_entry    -> the three answers of up_fe_at: all-zero block -> None; tag_ident != 261 ->
                                PyCdlibInvalidISO; else a NEW UDFFileEntry object (UDFFileEntry.parse stores
                                info_len, alloc_descs, orig_extent_loc = extent, parent = the argument)
     udf.parse_file_ident / UDFFileIdentifierDescriptor.parse -> one turn of up_fids: isdir / isparent from
                                file_characteristics, icb, fi (b'' for a parent), orig_extent_loc =
                                (abs area extent * 2048 + offset) // 2048, bytes_forward = length(len(fi))
     UDFTag.parse            -> NOTHING is checked about tag_location ("just silently fix it up"): the
                                tag fields of the view are not read by the parser

   What pycdlib does with two FIDs that point at ONE File Entry block (a UDF hard link): parse_file_entry
   is called once per FID, so each FID gets a File Entry OBJECT OF ITS OWN (never shared), whose .parent
   is the directory being read and whose .file_ident is that FID; the two objects share an INODE exactly
   when their keys agree: same first data block (info_len > 0) or same File Entry block (info_len = 0).
   A symlink (file_type 12) goes through the same code as a file (nothing reads file_type here; the
   queue is fed by the FID's directory bit, not by the File Entry's type).

   The parsed OBJECT GRAPH (ugraph): File Entry objects are numbered in creation order (root = 0;
   pe_obj); g_dirs lists, in the order the walk pops them, the fi_descs of every directory object
   (insertion order, parent FID first as recorded); a pfid NESTS its file_entry (pf_entry), which is
   the statement file_ident.file_entry = next_entry / next_entry.file_ident = file_ident; pe_parent is
   the identity of file_entry.parent; pe_inode the index in PyCdlib.inodes.

   Attributes COMPARED between the graph the writer had (ugraph_of) and the graph open builds:
     per directory: identity of its File Entry object, its block, fi_descs in order; per FID: fi,
     isdir, isparent, icb.log_block_num, extent_location() - part_start, file_entry (present or None);
     per File Entry object: identity, extent_location() - part_start, is_dir(), info_len, alloc_descs
     (log_block_num, extent_length), parent (identity), file_ident (nesting), inode (index);
     per Inode: extent, length, the UDF File Entry objects in linked_records, num_udf = their number.
   Attributes that LEGITIMATELY DIFFER after open (not in ugraph): new_extent_loc (-1 until the next
   reshuffle; extent_location() is compared instead), the ORDER of PyCdlib.inodes (writer: order of the
   add_fp calls; open: ISO9660 walk first, then first encounter in this walk) and of linked_records
   (writer: order of the calls; open: walk order) -- ugraph_of numbers both the way open does;
   Inode.orig_extent_loc of an EMPTY file (unset in the writer, 0 after open), fp/manage_fp/offsets;
   an EMPTY file that also has an ISO9660 name has ONE Inode in the writer and TWO after open (the
   ISO9660 walk makes one that is entered in no dictionary, this walk makes one keyed by the File Entry);
   FID.parent, desc_tag (crc length), times, uid/gid/perms, file_link_count, unique_id,
   log_block_recorded, hidden, impl_use, encoding (latin-1 / utf-16_be: below the summary level).

   Simplifications (trusted base): summary level (no bytes: tag checksum/CRC/version, file_version_num,
   the encoding byte 8/16, record_format etc. are not modelled; a block the view does not describe is
   the all-zero block for parse_file_entry and PUnsupported for an identifier area); one partition, short
   allocation descriptors at block granularity (desc.offset = 0, no inline/long ADs); an identifier area
   is looked up by its first block; no El Torito (the boot-catalog branch); short reads (truncated
   image) are not modelled. *)
From Coq Require Import ZArith List Bool.
From PV.Base Require Import Prim.
From PV.Gen Require Import GenConst GenFun.
From PV.Model Require Import Codec Fid Udf UdfDir UdfLayout.
Import ListNotations.
Local Open Scope Z_scope.

Inductive presult (A : Type) : Type :=
| POk (a : A)
| PInvalid (why : Z)          (* open raises (PyCdlibInvalidISO, or PyCdlibInternalError for 7) *)
| PUnsupported (why : Z)      (* outside the vocabulary of the view *)
| PFuel.
Arguments POk {A} a.
Arguments PInvalid {A} why.
Arguments PUnsupported {A} why.
Arguments PFuel {A}.

(* a UDFFileEntry object made by parse_file_entry *)
Record pentry := mk_pentry {
  pe_obj : nat;             (* identity: the k-th UDFFileEntry object the walk creates (udf_root = 0) *)
  pe_block : Z;             (* orig_extent_loc - part_start (= the icb block it was read through) *)
  pe_isdir : bool;          (* icb_tag.file_type == 4 *)
  pe_info : Z;              (* info_len *)
  pe_ads : list (Z * Z);    (* alloc_descs: (log_block_num, extent_length) *)
  pe_parent : option nat;   (* .parent: identity of a File Entry object *)
  pe_inode : option nat }.  (* .inode: index in PyCdlib.inodes *)

(* a UDFFileIdentifierDescriptor object; its file_entry is nested: that entry's file_ident is this object *)
Record pfid := mk_pfid {
  pf_name : uname; pf_isdir : bool; pf_isparent : bool;
  pf_icb : Z;               (* icb.log_block_num *)
  pf_block : Z;             (* orig_extent_loc - part_start *)
  pf_entry : option pentry }.

(* fi_descs of the File Entry object pd_obj, which lives at block pd_block *)
Record pdir := mk_pdir { pd_obj : nat; pd_block : Z; pd_fids : list pfid }.

(* an Inode: its key in extent_to_inode (None: entered in no dictionary), Inode.parse(extent, length),
   the UDF File Entry objects this walk appended to linked_records (num_udf = their number) *)
Record pinode := mk_pinode { pi_key : option Z; pi_extent : Z; pi_len : Z; pi_links : list nat }.

Record ugraph := mk_ugraph { g_root : option pentry; g_dirs : list pdir; g_inodes : list pinode }.

(* ---- the Inode table ------------------------------------------------------------------------- *)
Definition up_key_is (key : Z) (p : pinode) : bool :=
  match pi_key p with Some k => k =? key | None => false end.

Fixpoint up_find_from {A} (p : A -> bool) (l : list A) (k : nat) : option nat :=
  match l with
  | [] => None
  | x :: r => if p x then Some k else up_find_from p r (S k)
  end.

Definition up_push (obj : nat) (p : pinode) : pinode :=
  mk_pinode (pi_key p) (pi_extent p) (pi_len p) (pi_links p ++ [obj]).

Fixpoint up_update {A} (f : A -> A) (ix : nat) (l : list A) : list A :=
  match l, ix with
  | [], _ => []
  | x :: r, O => f x :: r
  | x :: r, S j => x :: up_update f j r
  end.

(* the non-directory branch; None = alloc_descs[0] of an empty list (IndexError -> PyCdlibInvalidISO) *)
Definition up_link (ps : Z) (inos : list pinode) (obj : nat) (icb info : Z) (ads : list (Z * Z))
  : option (list pinode * nat) :=
  let dext := if info >? 0 then match ads with (b, _) :: _ => Some (ps + b) | [] => None end else Some 0 in
  match dext with
  | None => None
  | Some d =>
      let key := if d =? 0 then - (ps + icb) else d in
      match up_find_from (up_key_is key) inos 0 with
      | Some ix => Some (up_update (up_push obj) ix inos, ix)
      | None => Some (inos ++ [mk_pinode (Some key) d info [obj]], length inos)
      end
  end.

(* ---- one identifier area --------------------------------------------------------------------- *)
(* result of the loops: fi_descs tracked, File Entry objects appended to the deque, next object
   number, the Inode table *)
Definition pacc : Type := list pfid * list pentry * nat * list pinode.

Fixpoint up_fids (ps : Z) (v : list (Z * summary)) (dobj : nat) (apos alen : Z) (fids : list fidsum)
         (off : Z) (next : nat) (inos : list pinode) : presult pacc :=
  if off <? alen then                                   (* while offset < len(data) *)
    match fids with
    | [] => PInvalid 6                                  (* what follows the last descriptor is no descriptor *)
    | (tag, n, isdir, isparent, icb) :: r =>
        let len := udf_fid_length (zlen n) in
        if alen <? off + len then PInvalid 7            (* the descriptor is cut by extent_length *)
        else if negb isparent && (zlen n =? 0) then PInvalid 8    (* no encoding byte 8 / 16 *)
        else
          let blk := apos + off / 2048 in
          let continue (f : pfid) (q : list pentry) (next' : nat) (inos' : list pinode) : presult pacc :=
            match up_fids ps v dobj apos alen r (off + len) next' inos' with
            | POk (fs, q', nx, is) => POk (f :: fs, q ++ q', nx, is)
            | PInvalid w => PInvalid w
            | PUnsupported w => PUnsupported w
            | PFuel => PFuel
            end in
          if isparent then continue (mk_pfid [] isdir true icb blk None) [] next inos
          else
            match vlookup icb v with
            | None =>                                    (* all zeros: parse_file_entry returns None *)
                if isdir then PInvalid 2 else continue (mk_pfid n isdir false icb blk None) [] next inos
            | Some (SArea _) => PInvalid 3               (* 'UDF File Entry Tag identifier not 261' *)
            | Some (SFe fdir _ info ads) =>
                if isdir then
                  let e := mk_pentry next icb fdir info ads (Some dobj) None in
                  continue (mk_pfid n isdir false icb blk (Some e)) [e] (S next) inos
                else
                  match up_link ps inos next icb info ads with
                  | None => PInvalid 5
                  | Some (inos', ix) =>
                      let e := mk_pentry next icb fdir info ads (Some dobj) (Some ix) in
                      continue (mk_pfid n isdir false icb blk (Some e)) [] (S next) inos'
                  end
            end
    end
  else POk ([], [], next, inos).

(* for desc in udf_file_entry.alloc_descs *)
Fixpoint up_areas (ps : Z) (v : list (Z * summary)) (dobj : nat) (ads : list (Z * Z))
         (next : nat) (inos : list pinode) : presult pacc :=
  match ads with
  | [] => POk ([], [], next, inos)
  | (apos, alen) :: r =>
      let here :=
        if alen <=? 0 then POk ([], [], next, inos)      (* nothing is read, the loop body never runs *)
        else match vlookup apos v with
             | Some (SArea fids) => up_fids ps v dobj apos alen fids 0 next inos
             | Some (SFe _ _ _ _) => PInvalid 9          (* 'UDF File Identifier Tag identifier not 257' *)
             | None => PUnsupported 1
             end in
      match here with
      | POk (fs, q, nx, is) =>
          match up_areas ps v dobj r nx is with
          | POk (fs', q', nx', is') => POk (fs ++ fs', q ++ q', nx', is')
          | e => e
          end
      | e => e
      end
  end.

(* ---- the deque loop -------------------------------------------------------------------------- *)
Definition up_zmem (x : Z) (l : list Z) : bool := existsb (Z.eqb x) l.

Fixpoint up_loop (fuel : nat) (ps : Z) (v : list (Z * summary)) (queue : list pentry) (seen : list Z)
         (next : nat) (inos : list pinode) : presult (list pdir * list pinode) :=
  match queue with
  | [] => POk ([], inos)
  | e :: rest =>
      match fuel with
      | O => PFuel
      | S f =>
          if up_zmem (pe_block e) seen then PInvalid 1   (* 'Directory loop in the UDF part of the ISO' *)
          else
            match up_areas ps v (pe_obj e) (pe_ads e) next inos with
            | POk (fs, q, nx, is) =>
                match up_loop f ps v (rest ++ q) (pe_block e :: seen) nx is with
                | POk (ds, is') => POk (mk_pdir (pe_obj e) (pe_block e) fs :: ds, is')
                | err => err
                end
            | PInvalid w => PInvalid w
            | PUnsupported w => PUnsupported w
            | PFuel => PFuel
            end
      end
  end.

(* ps = part_start; ino0 = PyCdlib.inodes as the ISO9660 walk left it; root = root_dir_icb.log_block_num *)
Definition udf_parse_from (ps : Z) (ino0 : list pinode) (fuel : nat) (v : list (Z * summary)) (root : Z)
  : presult ugraph :=
  match vlookup root v with
  | None => POk (mk_ugraph None [] ino0)                 (* udf_root = None; the deque holds None: skipped *)
  | Some (SArea _) => PInvalid 3
  | Some (SFe fdir _ info ads) =>
      let e := mk_pentry 0 root fdir info ads None None in
      match up_loop fuel ps v [e] [] 1 ino0 with
      | POk (ds, is) => POk (mk_ugraph (Some e) ds is)
      | PInvalid w => PInvalid w
      | PUnsupported w => PUnsupported w
      | PFuel => PFuel
      end
  end.

(* an image without ISO9660 files; s = part_start (257 in every image pycdlib writes) *)
Definition udf_parse (s : Z) (fuel : nat) (v : layout_view) (root : Z) : presult ugraph :=
  udf_parse_from s [] fuel (snd v) root.

(* ---- the object graph the WRITER had --------------------------------------------------------- *)
(* built from the layout (lo_dirs carries the tree) with no lookup in the view and no check; the
   Inode table is keyed by the writer's inode IDENTITY (the model's inode id), not by extents *)
Record winode := mk_winode { wi_id : nat; wi_ino : pinode }.

Definition ug_fe_block (lo : layout) (i : nat) : Z :=
  match ul_find i (lo_fes lo) with Some fe => fe - lo_ps lo | None => 2 end.
Definition ug_extent (lo : layout) (i : nat) (l : Z) : Z :=
  if l >? 0 then lo_ps lo + ul_data_pos lo i else 0.
Definition ug_key (lo : layout) (i : nat) (l : Z) : Z :=
  if l >? 0 then lo_ps lo + ul_data_pos lo i else - (lo_ps lo + ug_fe_block lo i).

Definition ug_link (lo : layout) (wt : list winode) (obj : nat) (i : nat) (l : Z) : list winode * nat :=
  match up_find_from (fun w => Nat.eqb (wi_id w) i) wt 0 with
  | Some ix => (up_update (fun w => mk_winode (wi_id w) (up_push obj (wi_ino w))) ix wt, ix)
  | None => (wt ++ [mk_winode i (mk_pinode (Some (ug_key lo i l)) (ug_extent lo i l) l [obj])], length wt)
  end.

(* the children of directory object dobj; j = position in lo_dirs of its next child directory;
   tags / icbs = what _udf_assign_extents gave the FIDs *)
Fixpoint ug_kids (lo : layout) (dobj : nat) (cs : list utree) (tags icbs : list Z) (j : nat)
         (next : nat) (wt : list winode) : list pfid * list pentry * nat * list winode :=
  match cs, tags, icbs with
  | c :: cs', tg :: tags', icb :: icbs' =>
      match c with
      | UDir n sub =>
          let e := mk_pentry next icb true (ul_dir_info sub) [(icb + 1, ul_dir_info sub)] (Some dobj) None in
          let '(fs, q, nx, wt') := ug_kids lo dobj cs' tags' icbs' (S j) (S next) wt in
          (mk_pfid n true false icb tg (Some e) :: fs, e :: q, nx, wt')
      | UFile n l i =>
          let '(wt1, ix) := ug_link lo wt next i l in
          let e := mk_pentry next icb false l (ul_ads (ul_data_pos lo i) l) (Some dobj) (Some ix) in
          let '(fs, q, nx, wt') := ug_kids lo dobj cs' tags' icbs' j (S next) wt1 in
          (mk_pfid n false false icb tg (Some e) :: fs, q, nx, wt')
      end
  | _, _, _ => ([], [], next, wt)
  end.

Definition ug_dir (lo : layout) (dobj : nat) (r : dirrec) (next : nat) (wt : list winode)
  : pdir * list pentry * nat * list winode :=
  match ul_dir_tags lo r, ul_dir_icbs lo r with
  | ptag :: tags, picb :: icbs =>
      let '(fs, q, nx, wt') := ug_kids lo dobj (dr_node r) tags icbs (dr_kid0 r) next wt in
      (mk_pdir dobj (dr_fe r - lo_ps lo) (mk_pfid [] true true picb ptag None :: fs), q, nx, wt')
  | _, _ => (mk_pdir dobj (dr_fe r - lo_ps lo) [], [], next, wt)
  end.

(* objs = the File Entry objects of the directories not yet visited, in deque order *)
Fixpoint ug_dirs (lo : layout) (rs : list dirrec) (objs : list nat) (next : nat) (wt : list winode)
  : list pdir * list winode :=
  match rs, objs with
  | r :: rs', o :: objs' =>
      let '(d, q, nx, wt1) := ug_dir lo o r next wt in
      let '(ds, wt2) := ug_dirs lo rs' (objs' ++ map pe_obj q) nx wt1 in
      (d :: ds, wt2)
  | _, _ => ([], wt)
  end.

Definition ugraph_of (lo : layout) : ugraph :=
  match lo_dirs lo with
  | [] => mk_ugraph None [] []
  | r0 :: _ =>
      let info := ul_dir_info (dr_node r0) in
      let blk := dr_fe r0 - lo_ps lo in
      let '(ds, wt) := ug_dirs lo (lo_dirs lo) [0%nat] 1 [] in
      mk_ugraph (Some (mk_pentry 0 blk true info [(blk + 1, info)] None None)) ds (map wi_ino wt)
  end.

(* ---- editing the opened object --------------------------------------------------------------- *)
Definition up_fident (f : pfid) : fident := mk_fident (pf_name f) (pf_isdir f) (pf_isparent f).
Definition up_dir_descs (d : pdir) : list fident := map up_fident (pd_fids d).
Definition up_find_dir (g : ugraph) (obj : nat) : option pdir :=
  find (fun d => Nat.eqb (pd_obj d) obj) (g_dirs g).

(* rm_hard_link(udf_path = the name of FID j of directory k): _find_udf_record returns that FID's
   file_entry e; _rm_udf_link(e) ends in e.parent.remove_file_ident_desc_by_name(e.file_ident.fi):
   (the File Entry object whose fi_descs shrink, the fi_descs left); the bookkeeping numbers are
   UdfDir.udfdir_remove's *)
Definition up_rm_name (g : ugraph) (k j : nat) : option (nat * list fident) :=
  match nth_error (g_dirs g) k with
  | Some d =>
      match nth_error (pd_fids d) j with
      | Some f =>
          match pf_entry f with
          | Some e =>
              match pe_parent e with
              | Some po =>
                  match up_find_dir g po with
                  | Some pd =>
                      match take_first (pf_name f) (up_dir_descs pd) with
                      | Some (_, rest) => Some (pd_obj pd, rest)
                      | None => None
                      end
                  | None => None
                  end
              | None => None
              end
          | None => None
          end
      | None => None
      end
  | None => None
  end.

Fixpoint up_remove_nth {A} (j : nat) (l : list A) : list A :=
  match l, j with
  | [], _ => []
  | _ :: r, O => r
  | x :: r, S j' => x :: up_remove_nth j' r
  end.

(* ---- the tree the opened object presents (what _udf_assign_extents walks) -------------------- *)
Fixpoint up_tree_kids (rec : nat -> option (list utree)) (fids : list pfid) : option (list utree) :=
  match fids with
  | [] => Some []
  | f :: r =>
      if pf_isparent f then up_tree_kids rec r
      else
        let c :=
          match pf_entry f with
          | None => None
          | Some e =>
              if pf_isdir f then
                match rec (pe_obj e) with Some cs => Some (UDir (pf_name f) cs) | None => None end
              else match pe_inode e with Some ix => Some (UFile (pf_name f) (pe_info e) ix) | None => None end
          end in
        match c, up_tree_kids rec r with
        | Some c', Some cs => Some (c' :: cs)
        | _, _ => None
        end
  end.
Fixpoint up_tree (fuel : nat) (g : ugraph) (obj : nat) : option (list utree) :=
  match fuel with
  | O => None
  | S f => match up_find_dir g obj with
           | Some d => up_tree_kids (up_tree f g) (pd_fids d)
           | None => None
           end
  end.
Definition utree_of_graph (fuel : nat) (g : ugraph) : option utree :=
  match g_root g with
  | Some e => match up_tree fuel g (pe_obj e) with Some cs => Some (UDir [] cs) | None => None end
  | None => None
  end.

(* ---- observation (what tools/udf_parse_cases.py reads off the OPENED object) ------------------ *)
Definition up_optnat (o : option nat) : Z := match o with Some k => Z.of_nat k | None => -1 end.
Definition up_b (b : bool) : Z := if b then 1 else 0.
(* [obj; block; is_dir; info_len; parent; inode; number of descriptors] ++ descriptors *)
Definition up_entry_obs (e : pentry) : list Z :=
  [Z.of_nat (pe_obj e); pe_block e; up_b (pe_isdir e); pe_info e; up_optnat (pe_parent e); up_optnat (pe_inode e);
   zlen (pe_ads e)] ++ ul_flat_ads (pe_ads e).
Definition up_fid_obs (f : pfid) : list Z :=
  [0; up_b (pf_isdir f); up_b (pf_isparent f); pf_icb f; pf_block f] ++
  match pf_entry f with Some e => 1 :: up_entry_obs e | None => [0] end ++ pf_name f.
Definition up_dir_obs (d : pdir) : list (list Z) :=
  [1; Z.of_nat (pd_obj d); pd_block d; zlen (pd_fids d)] :: map up_fid_obs (pd_fids d).
Definition up_ino_obs (p : pinode) : list Z :=
  [2; pi_extent p; pi_len p; zlen (pi_links p)] ++ map Z.of_nat (pi_links p).
Definition up_obs (g : ugraph) : list (list Z) :=
  (3 :: match g_root g with Some e => up_entry_obs e | None => [-1] end) ::
  flat_map up_dir_obs (g_dirs g) ++ map up_ino_obs (g_inodes g).

(* a case: the history, the ISO9660 side of the layout, PyCdlib.inodes before the UDF walk as
   (key or 0, extent, length), the observation of the opened object *)
Definition udfparse_case : Type := list uop * (Z * list (nat * Z)) * list (Z * Z * Z) * list (list Z).
Definition up_ino0 (l : list (Z * Z * Z)) : list pinode :=
  map (fun '(k, e, n) => mk_pinode (if k =? 0 then None else Some k) e n []) l.
(* the view as integers *)
Definition up_view_flat (v : layout_view) : list (list Z) :=
  map (fun x => fst x :: match snd x with
                         | SFe d tg info ads => [up_b d; tg; info] ++ ul_flat_ads ads
                         | SArea fids => flat_map (fun '(tg, n, d, p, icb) => [tg; up_b d; up_b p; icb; zlen n] ++ n) fids
                         end) (snd v).
(* the model's parse of the model's layout is what was observed; without ISO9660 files also: it is
   ugraph_of, and laying out the tree the opened object presents gives the same view and globals *)
Definition check_udfparse_case (c : udfparse_case) : bool :=
  let '(ops, (meta, ifiles), ino0, obs) := c in
  let t := ul_run ops in
  let lo := udf_layout_iso udf_part_start (mk_iso meta ifiles) t in
  match udf_parse_from udf_part_start (up_ino0 ino0) (S (ul_count_dirs t)) (snd (view lo)) (fst (view lo)) with
  | POk g =>
      zll_eqb (up_obs g) obs &&
      match ino0 with
      | [] =>
          zll_eqb (up_obs (ugraph_of lo)) obs &&
          match utree_of_graph (S (ul_depth t)) g with
          | Some t' =>
              let lo' := udf_layout_iso udf_part_start (mk_iso meta ifiles) t' in
              zll_eqb (up_view_flat (view lo')) (up_view_flat (view lo)) && zlist_eqb (ul_globals lo') (ul_globals lo)
          | None => false
          end
      | _ => true
      end
  | _ => false
  end.
Definition bad_udfparse_cases (k : nat) (cs : list udfparse_case) : list nat := bad_idx check_udfparse_case k cs.
