(* C07 -- Model/Account.v extended with HARD LINKS inside the ISO9660 namespace: a file record
   points to an inode (content), several records may share one inode, the content is laid out once
   and its space is released exactly when its last record goes away.

   Same fragment as Model/Account.v (one PVD, interchange level 3, no Rock Ridge / Joliet / UDF /
   El Torito / XA, block size 2048, file length in [0, 0xfffff800]).  Additional sources modelled
   (/repo/pycdlib/pycdlib.py): add_hard_link(iso_old_path, iso_new_path) with
   _add_hard_link_to_inode, rm_hard_link(iso_path) with _rm_dr_link, rm_file with _rm_file_inodes
   (all linked records, in linked_records order), self.inodes, and the de-duplication of inodes
   in _reshuffle_extents (linked_inodes).

   The names shared with Model/Account.v (C, max_len, ident, path, bytes_ltb, bytes_eqb,
   dr_len_of, pos, set_at, st_of, add_overflows, rm_underflows, too_deep, unsnoc) are reused from
   it; everything that mentions the tree is redefined with an "l" prefix.  Definitions only. *)
From Coq Require Import ZArith List Bool Arith.
From PV.Base Require Import Prim.
From PV.Gen Require Import GenConst GenFun.
From PV.Model Require Import Names Pack Alloc Account.
Import ListNotations.
Local Open Scope Z_scope.

(* a Directory Record: for a file, the inode it points to and a creation stamp, which orders the
   records of one inode as inode.linked_records does *)
Inductive lnode : Type :=
| LFile (name : ident) (ino : nat) (stamp : nat)
| LDir (name : ident) (dlen : Z) (kids : list lnode).

Definition lname (n : lnode) : ident := match n with LFile nm _ _ => nm | LDir nm _ _ => nm end.
Definition l_is_dir (n : lnode) : bool := match n with LDir _ _ _ => true | _ => false end.
Definition lkids (n : lnode) : list lnode := match n with LDir _ _ k => k | _ => [] end.

Definition llookup (nm : ident) (kids : list lnode) : option (nat * lnode) :=
  let k := pos nm (map lname kids) in
  match nth_error kids k with
  | Some c => if bytes_eqb (lname c) nm then Some (k, c) else None
  | None => None
  end.

Fixpoint lsubtree (p : path) (n : lnode) : option lnode :=
  match p with
  | [] => Some n
  | x :: q =>
      match n with
      | LDir _ _ kids => match llookup x kids with Some (_, c) => lsubtree q c | None => None end
      | LFile _ _ _ => None
      end
  end.

Fixpoint lreplace (p : path) (t : lnode) (n : lnode) : lnode :=
  match p with
  | [] => t
  | x :: q =>
      match n with
      | LDir nm dl kids =>
          match llookup x kids with
          | Some (k, c) => LDir nm dl (set_at k (lreplace q t c) kids)
          | None => n
          end
      | LFile _ _ _ => n
      end
  end.

Definition ldir_st (dl : Z) (kids : list lnode) : dirst := st_of dl (map lname kids).

(* ---- additive measures -------------------------------------------------------------------- *)

(* a weight looks at one record only: it is applied to the node with its children cut off *)
Definition hdr (n : lnode) : lnode :=
  match n with LFile a b c => LFile a b c | LDir nm dl _ => LDir nm dl [] end.

Fixpoint ltotal (w : lnode -> Z) (n : lnode) : Z :=
  match n with
  | LFile _ _ _ => w (hdr n)
  | LDir nm dl kids =>
      w (LDir nm dl []) +
      (fix go (l : list lnode) : Z := match l with [] => 0 | c :: r => ltotal w c + go r end) kids
  end.

Definition is_ref (i : nat) (n : lnode) : bool :=
  match n with LFile _ j _ => Nat.eqb j i | _ => false end.

Definition lw_ref (i : nat) (n : lnode) : Z := if is_ref i n then 1 else 0.
Definition lw_dlen (n : lnode) : Z := match n with LDir _ dl _ => dl | _ => 0 end.
Definition lw_nrec (n : lnode) : Z := match n with LFile _ _ _ => 1 | _ => 0 end.
Definition lw_ptr (n : lnode) : Z :=
  match n with LDir nm _ _ => ptr_record_length (zlen nm) | _ => 0 end.
Definition lw_dblk (n : lnode) : Z := match n with LDir _ dl _ => ceiling_div dl C | _ => 0 end.

(* len(inode.linked_records) *)
Definition lrefcount (i : nat) (n : lnode) : Z := ltotal (lw_ref i) n.

(* ---- the inode table (self.inodes): (id, data length), in order of creation --------------- *)

Definition itable := list (nat * Z).

Fixpoint len_of (i : nat) (t : itable) : Z :=
  match t with
  | [] => 0
  | (j, l) :: r => if Nat.eqb j i then l else len_of i r
  end.

(* del self.inodes[found_index] *)
Fixpoint del_ino (i : nat) (t : itable) : itable :=
  match t with
  | [] => []
  | (j, l) :: r => if Nat.eqb j i then r else (j, l) :: del_ino i r
  end.

Record lstate := {
  lroot : lnode; linodes : itable; lnext : nat;       (* lnext: next inode id / record stamp *)
  lptr_size : Z; lptr_ext : Z; lspace : Z }.

Definition linit : lstate :=
  {| lroot := LDir [0] C []; linodes := []; lnext := O;
     lptr_size := 10; lptr_ext := ceiling_div 10 4096 * 2;
     lspace := 17 + ceiling_div ((C + C) + (4 * C + C)) C |}.

Inductive lop :=
| LAddFile (dir : path) (name : ident) (len : Z)        (* add_fp *)
| LAddDir (parent : path) (name : ident)                (* add_directory *)
| LAddLink (src : path) (dir : path) (name : ident)     (* add_hard_link(iso_old_path=src,
                                                           iso_new_path=dir/name) *)
| LRmLink (dir : path) (name : ident)                   (* rm_hard_link(iso_path=dir/name) *)
| LRmFile (dir : path) (name : ident)                   (* rm_file(dir/name) *)
| LRmDir (p : path).                                    (* rm_directory(p) *)

Definition lrefuse (s : lstate) : lstate * bool := (s, false).

(* new_file + _add_child_to_dr: insert a file record into the directory found at dirp.
   [tbl] / [extra]: the new inode table and the data bytes accounted together with the growth. *)
Definition add_record (s : lstate) (dirp : path) (nm : ident) (ino : nat)
           (tbl : itable) (extra : Z) : lstate * bool :=
  if too_deep dirp then lrefuse s
  else
    match lsubtree dirp (lroot s) with
    | Some (LDir dn dl kids) =>
        match check_iso9660_filename nm 3 with
        | Accept =>
            let x := dr_len_of nm in
            if x >? 255 then lrefuse s
            else
              match llookup nm kids with
              | Some _ => lrefuse s                              (* duplicate name *)
              | None =>
                  let k := pos nm (map lname kids) in
                  let d := ldir_st dl kids in
                  let grow := if add_overflows d (2 + k) x then C else 0 in
                  let d' := dir_add C d (2 + k) x in
                  let num_bytes_to_add := extra + grow in
                  ({| lroot := lreplace dirp
                                 (LDir dn (dlen d') (insert_at k (LFile nm ino (lnext s)) kids))
                                 (lroot s);
                      linodes := tbl; lnext := S (lnext s);
                      lptr_size := lptr_size s; lptr_ext := lptr_ext s;
                      lspace := lspace s + ceiling_div (0 + num_bytes_to_add) C |}, true)
              end
        | _ => lrefuse s
        end
    | _ => lrefuse s
    end.

(* add_fp: a fresh inode (inode.Inode(); self.inodes.append(ino)) and its first record *)
Definition lstep_add_file (s : lstate) (dirp : path) (nm : ident) (len : Z) : lstate * bool :=
  if negb ((0 <=? len) && (len <=? max_len)) then lrefuse s      (* outside the fragment *)
  else add_record s dirp nm (lnext s) (linodes s ++ [(lnext s, len)]) len.

(* add_hard_link: old_rec = _find_iso_record(old); `if old_rec.is_dir(): raise` (a directory or
   the root cannot be linked); data_ino = old_rec.inode; only the directory growth is accounted *)
Definition lstep_add_link (s : lstate) (src dirp : path) (nm : ident) : lstate * bool :=
  match lsubtree src (lroot s) with
  | Some (LFile _ data_ino _) => add_record s dirp nm data_ino (linodes s) 0
  | Some (LDir _ _ _) => lrefuse s               (* 'Cannot make a hard link to a directory' *)
  | None => lrefuse s                            (* 'Could not find path' *)
  end.

Definition lstep_add_dir (s : lstate) (parent : path) (nm : ident) : lstate * bool :=
  if too_deep parent then lrefuse s
  else
    match lsubtree parent (lroot s) with
    | Some (LDir dn dl kids) =>
        match check_iso9660_directory nm 3 with
        | Accept =>
            let x := dr_len_of nm in
            if x >? 255 then lrefuse s
            else
              match llookup nm kids with
              | Some _ => lrefuse s
              | None =>
                  let k := pos nm (map lname kids) in
                  let d := ldir_st dl kids in
                  let grow := if add_overflows d (2 + k) x then C else 0 in
                  let d' := dir_add C d (2 + k) x in
                  let '(b, ps, pe) :=
                    add_to_ptr_size (lptr_size s) (lptr_ext s) (ptr_record_length (zlen nm)) in
                  let num_bytes_to_add := grow + ((if b then 4 * C else 0) + C) in
                  ({| lroot := lreplace parent (LDir dn (dlen d') (insert_at k (LDir nm C []) kids))
                                        (lroot s);
                      linodes := linodes s; lnext := lnext s;
                      lptr_size := ps; lptr_ext := pe;
                      lspace := lspace s + ceiling_div (0 + num_bytes_to_add) C |}, true)
              end
        | _ => lrefuse s
        end
    | _ => lrefuse s
    end.

(* rm_hard_link -> _rm_dr_link: the record goes; `if not rec.inode.linked_records:` the inode
   leaves self.inodes and its data length is released *)
Definition lstep_rm_link (s : lstate) (dirp : path) (nm : ident) : lstate * bool :=
  match lsubtree dirp (lroot s) with
  | Some (LDir dn dl kids) =>
      match llookup nm kids with
      | Some (k, LFile _ i _) =>
          let d := ldir_st dl kids in
          let shrink := if rm_underflows d (2 + k) then C else 0 in
          let d' := dir_remove C d (2 + k) in
          let root' := lreplace dirp (LDir dn (dlen d') (remove_at k kids)) (lroot s) in
          let '(tbl, data) :=
            if lrefcount i root' =? 0
            then (del_ino i (linodes s), len_of i (linodes s))
            else (linodes s, 0) in
          let num_bytes_to_remove := shrink + data in
          ({| lroot := root'; linodes := tbl; lnext := lnext s;
              lptr_size := lptr_size s; lptr_ext := lptr_ext s;
              lspace := lspace s - ceiling_div num_bytes_to_remove C |}, true)
      | _ => lrefuse s                         (* not found / 'Cannot remove a directory' *)
      end
  | _ => lrefuse s
  end.

(* ---- rm_file: `while child.inode.linked_records: _rm_dr_link(linked_records[0][0])` --------
   (the `if child.inode is None` branch of _rm_file_inodes and the `inode is not None` tests are
   not modelled: in this fragment every file record has an inode, add_hard_link refusing a
   directory as the source)
   Records of the inode in different directories are independent, so the loop is modelled
   directory by directory; inside one directory the records go in linked_records order (smallest
   stamp first), each by its index, with remove_child's decision taken on the current state. *)

Definition stamp_of (n : lnode) : nat := match n with LFile _ _ st => st | _ => O end.

(* (index, stamp) of the record of inode i with the smallest stamp *)
Fixpoint victim (i : nat) (kids : list lnode) : option (nat * nat) :=
  match kids with
  | [] => None
  | c :: r =>
      let rest := match victim i r with Some (k, st) => Some (S k, st) | None => None end in
      if is_ref i c then
        match rest with
        | Some (_, st') => if (st' <? stamp_of c)%nat then rest else Some (O, stamp_of c)
        | None => Some (O, stamp_of c)
        end
      else rest
  end.

(* returns (data_length, children, bytes released by the directory) *)
Fixpoint purge_dir (fuel : nat) (i : nat) (dl : Z) (kids : list lnode) (b : Z)
  : Z * list lnode * Z :=
  match fuel with
  | O => (dl, kids, b)
  | S f =>
      match victim i kids with
      | None => (dl, kids, b)
      | Some (k, _) =>
          let d := ldir_st dl kids in
          purge_dir f i (dlen (dir_remove C d (2 + k))) (remove_at k kids)
                    (b + (if rm_underflows d (2 + k) then C else 0))
      end
  end.

Definition pd_dl (r : Z * list lnode * Z) : Z := fst (fst r).
Definition pd_kids (r : Z * list lnode * Z) : list lnode := snd (fst r).
Definition pd_bytes (r : Z * list lnode * Z) : Z := snd r.

Fixpoint purge_node (i : nat) (n : lnode) : lnode :=
  match n with
  | LFile _ _ _ => n
  | LDir nm dl kids =>
      let kids1 := map (purge_node i) kids in
      let r := purge_dir (length kids1) i dl kids1 0 in
      LDir nm (pd_dl r) (pd_kids r)
  end.

Fixpoint purge_bytes (i : nat) (n : lnode) : Z :=
  match n with
  | LFile _ _ _ => 0
  | LDir nm dl kids =>
      let kids1 := map (purge_node i) kids in
      Alloc.zsum (map (purge_bytes i) kids) + pd_bytes (purge_dir (length kids1) i dl kids1 0)
  end.

Definition lstep_rm_file (s : lstate) (dirp : path) (nm : ident) : lstate * bool :=
  match lsubtree dirp (lroot s) with
  | Some (LDir dn dl kids) =>
      match llookup nm kids with
      | Some (k, LFile _ i _) =>
          let num_bytes_to_remove := purge_bytes i (lroot s) + len_of i (linodes s) in
          ({| lroot := purge_node i (lroot s);
              linodes := del_ino i (linodes s); lnext := lnext s;
              lptr_size := lptr_size s; lptr_ext := lptr_ext s;
              lspace := lspace s - ceiling_div num_bytes_to_remove C |}, true)
      | _ => lrefuse s
      end
  | _ => lrefuse s
  end.

Definition lstep_rm_dir (s : lstate) (p : path) : lstate * bool :=
  match unsnoc p with
  | None => lrefuse s
  | Some (q, y) =>
      match lsubtree q (lroot s) with
      | Some (LDir dn dl kids) =>
          match llookup y kids with
          | Some (k, LDir cn cdl []) =>
              let d := ldir_st dl kids in
              let shrink := if rm_underflows d (2 + k) then C else 0 in
              let d' := dir_remove C d (2 + k) in
              match remove_from_ptr_size (lptr_size s) (lptr_ext s) (ptr_record_length (zlen cn)) with
              | Some (b, ps, pe) =>
                  let num_bytes_to_remove := shrink + (if b then 4 * C else 0) + cdl in
                  ({| lroot := lreplace q (LDir dn (dlen d') (remove_at k kids)) (lroot s);
                      linodes := linodes s; lnext := lnext s;
                      lptr_size := ps; lptr_ext := pe;
                      lspace := lspace s - ceiling_div num_bytes_to_remove C |}, true)
              | None => lrefuse s
              end
          | _ => lrefuse s
          end
      | _ => lrefuse s
      end
  end.

Definition lstep (s : lstate) (o : lop) : lstate * bool :=
  match o with
  | LAddFile d n l => lstep_add_file s d n l
  | LAddDir d n => lstep_add_dir s d n
  | LAddLink src d n => lstep_add_link s src d n
  | LRmLink d n => lstep_rm_link s d n
  | LRmFile d n => lstep_rm_file s d n
  | LRmDir p => lstep_rm_dir s p
  end.

Definition lrun (s : lstate) (ops : list lop) : lstate :=
  fold_left (fun s o => fst (lstep s o)) ops s.

(* ---- the from-scratch extent assignment --------------------------------------------------- *)

Fixpoint lnsize (n : lnode) : nat :=
  match n with
  | LFile _ _ _ => 1%nat
  | LDir _ _ kids =>
      S ((fix go (l : list lnode) : nat :=
            match l with [] => O | c :: r => (lnsize c + go r)%nat end) kids)
  end.

Fixpoint lbfs (fuel : nat) (queue : list lnode) : list lnode :=
  match fuel with
  | O => []
  | S f => match queue with
           | [] => []
           | n :: q => n :: lbfs f (q ++ lkids n)
           end
  end.

Definition lvisit (s : lstate) : list lnode := lbfs (lnsize (lroot s)) [lroot s].

(* _reassign_vd_dirrecord_extents: `if data_length == 0: ...  elif inode is not None:
   file_list.append(inode)`, one entry per RECORD *)
Fixpoint file_list (t : itable) (recs : list lnode) : list nat :=
  match recs with
  | [] => []
  | LFile _ i _ :: r => if len_of i t =? 0 then file_list t r else i :: file_list t r
  | _ :: r => file_list t r
  end.

(* `for ino in pvd_files: if id(ino) in linked_inodes: continue; ...; linked_inodes.add(id(ino))` *)
Fixpoint dedup (l : list nat) (seen : list nat) : list nat :=
  match l with
  | [] => []
  | i :: r => if existsb (Nat.eqb i) seen then dedup r seen else i :: dedup r (i :: seen)
  end.

(* the inodes that get extents, in the order they get them *)
Definition laid_out (s : lstate) : list nat := dedup (file_list (linodes s) (lvisit s)) [].

Definition lobjects (s : lstate) : list Z :=
  [16; 1; 1; 1; lptr_ext s; lptr_ext s]
    ++ map lw_dblk (filter l_is_dir (lvisit s))
    ++ map (fun i => ceiling_div (len_of i (linodes s)) C) (laid_out s).

Definition llayout (s : lstate) : list (Z * Z) := bump 0 (lobjects s).
Definition llayout_end (s : lstate) : Z := bump_end 0 (lobjects s).

(* ---- the names in the image ---------------------------------------------------------------- *)

(* every file record: (directory path, identifier, inode), in depth-first order *)
Fixpoint lrecords (p : path) (n : lnode) : list (path * ident * nat) :=
  match n with
  | LFile nm ino _ => [(p, nm, ino)]
  | LDir nm _ kids =>
      (fix go (l : list lnode) : list (path * ident * nat) :=
         match l with
         | [] => []
         | c :: r => (match c with
                      | LFile _ _ _ => lrecords p c
                      | LDir cn _ _ => lrecords (p ++ [cn]) c
                      end) ++ go r
         end) kids
  end.

(* every directory below n: its path *)
Fixpoint ldirs (p : path) (n : lnode) : list path :=
  match n with
  | LFile _ _ _ => []
  | LDir nm _ kids =>
      p :: (fix go (l : list lnode) : list path :=
              match l with
              | [] => []
              | c :: r => ldirs (p ++ [lname c]) c ++ go r
              end) kids
  end.

Definition rec_is (i : nat) (r : path * ident * nat) : bool := Nat.eqb (snd r) i.

(* ---- harness -------------------------------------------------------------------------------- *)

Fixpoint ins_pair (x : Z * Z) (l : list (Z * Z)) : list (Z * Z) :=
  match l with
  | [] => [x]
  | y :: r => if (fst x <? fst y) || ((fst x =? fst y) && (snd x <=? snd y))
              then x :: l else y :: ins_pair x r
  end.
Definition sort_pairs (l : list (Z * Z)) : list (Z * Z) := fold_right ins_pair [] l.

(* sorted((ino.get_data_length(), len(ino.linked_records)) for ino in iso.inodes) *)
Definition lprobe_inodes (s : lstate) : list (Z * Z) :=
  sort_pairs (map (fun e => (snd e, lrefcount (fst e) (lroot s))) (linodes s)).

Definition lprobe (s : lstate) : list Z :=
  [lspace s; lptr_size s; lptr_ext s; ltotal lw_dlen (lroot s); Z.of_nat (length (linodes s))].

Fixpoint lrun_probe_from (s : lstate) (ops : list lop) : list (list Z * list (Z * Z)) :=
  match ops with
  | [] => []
  | o :: r => let s' := fst (lstep s o) in (lprobe s', lprobe_inodes s') :: lrun_probe_from s' r
  end.
Definition lrun_probe (ops : list lop) := lrun_probe_from linit ops.

Fixpoint lrun_flags_from (s : lstate) (ops : list lop) : list bool :=
  match ops with
  | [] => []
  | o :: r => snd (lstep s o) :: lrun_flags_from (fst (lstep s o)) r
  end.
Definition lrun_flags (ops : list lop) : list bool := lrun_flags_from linit ops.

Fixpoint lrun_ends_from (s : lstate) (ops : list lop) : list (Z * Z) :=
  match ops with
  | [] => []
  | o :: r => let s' := fst (lstep s o) in (lspace s', llayout_end s') :: lrun_ends_from s' r
  end.
Definition lrun_ends (ops : list lop) : list (Z * Z) := lrun_ends_from linit ops.
