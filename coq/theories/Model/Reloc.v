(* Model/Reloc.v -- Rock Ridge deep-directory relocation: entry point.
   Re-exports Model/RelocCore.v (object graph, step, logical specification) and
   Model/RelocView.v (written image, independent reader) and defines the checker
   [bad_reloc_cases] that judges the traces produced by tools/reloc_cases.py (the real
   library's tree after EVERY operation of a history, and what an independent Python SUSP reader
   finds in the bytes written at the end).  Executable definitions only. *)
From Coq Require Import ZArith List Bool.
From PV.Model Require Export RelocCore RelocView.
Import ListNotations.
Local Open Scope Z_scope.

(* ---- checker for tools/reloc_cases.py ------------------------------------------------------ *)
(* a record as the tool prints it: (iso, rr, flags, links, extent, cl, pl) with
   flags = 1 directory + 2 CL + 4 RE + 8 PL + 16 symlink; cl / pl = -1 when absent *)
Definition orec : Type := (name * name * Z * Z * Z * Z * Z)%type.
Definition oz (o : option Z) : Z := match o with Some v => v | None => -1 end.
Definition osome (o : option Z) : bool := match o with Some _ => true | None => false end.
Definition rec_tuple (r : prec) : orec :=
  (r_iso r, r_rr r,
   b2z (r_dir r) + 2 * b2z (osome (r_cl r)) + 4 * b2z (r_re r) + 8 * b2z (osome (r_pl r))
   + 16 * b2z (r_sym r),
   r_links r, r_ext r, oz (r_cl r), oz (r_pl r)).
Definition orec_eqb (a b : orec) : bool :=
  let '(i1, r1, f1, l1, e1, c1, p1) := a in
  let '(i2, r2, f2, l2, e2, c2, p2) := b in
  neqb i1 i2 && neqb r1 r2 && (f1 =? f2) && (l1 =? l2) && (e1 =? e2) && (c1 =? c2) && (p1 =? p2).
Fixpoint orecs_eqb (a b : list orec) : bool :=
  match a, b with
  | [], [] => true
  | x :: a', y :: b' => orec_eqb x y && orecs_eqb a' b'
  | _, _ => false
  end.

Fixpoint peqb (a b : ppath) : bool :=
  match a, b with
  | [], [] => true
  | x :: a', y :: b' => neqb x y && peqb a' b'
  | _, _ => false
  end.

(* one physical directory as the tool prints it: path, extent, blocks, records *)
Definition odir : Type := (ppath * Z * Z * list orec)%type.
Definition od_path (d : odir) : ppath := fst (fst (fst d)).
Definition od_ext (d : odir) : Z := snd (fst (fst d)).
Definition od_blocks (d : odir) : Z := snd (fst d).
Definition od_recs (d : odir) : list orec := snd d.

Fixpoint sz_of (dump : list odir) (p : ppath) : Z :=
  match dump with
  | [] => 1
  | d :: t => if peqb (od_path d) p then od_blocks d else sz_of t p
  end.

Fixpoint find_phys (l : list (ppath * list prec)) (p : ppath) : option (list prec) :=
  match l with
  | [] => None
  | (q, recs) :: t => if peqb q p then Some recs else find_phys t p
  end.

(* observation after one operation: accepted, write_fp succeeded, the tree in BFS order *)
Definition obs : Type := (bool * bool * list odir)%type.

Definition start_of (dump : list odir) : Z :=
  match dump with d :: _ => od_ext d | [] => 0 end.

Definition dump_ok (s : state) (dump : list odir) : bool :=
  let sz := sz_of dump in
  let E := ext_of sz (start_of dump) s in
  let ph := phys E s in
  (length ph =? length dump)%nat &&
  forallb (fun d => (1 <=? od_blocks d) && (E (od_path d) =? od_ext d) &&
                    match find_phys ph (od_path d) with
                    | Some recs => orecs_eqb (map rec_tuple recs) (od_recs d)
                    | None => false
                    end) dump.

Definition acc_of (o : outcome) : bool := match o with Acc => true | _ => false end.
Definition is_oom (o : outcome) : bool := match o with Oom => true | _ => false end.

(* the independent Python SUSP reader's result on the written bytes, as (kind, iso, rr, nlink,
   kids) trees: compared with [expected (logical_spec ops)] at the end of a history *)
Inductive otree := OT (dir sym : bool) (iso rr : name) (nlink : Z) (kids : list otree).
Fixpoint otree_of (n : rnode) : otree :=
  match n with
  | RDir i r nl ks => OT true false i r nl (map otree_of ks)
  | RLeaf sy i r => OT false sy i r 0 []
  end.
Fixpoint otree_eqb (a b : otree) : bool :=
  match a, b with
  | OT d1 s1 i1 r1 n1 k1, OT d2 s2 i2 r2 n2 k2 =>
      Bool.eqb d1 d2 && Bool.eqb s1 s2 && neqb i1 i2 && neqb r1 r2 && (n1 =? n2) &&
      (fix go (x y : list otree) : bool :=
         match x, y with
         | [], [] => true
         | p :: x', q :: y' => otree_eqb p q && go x' y'
         | _, _ => false
         end) k1 k2
  end.
Fixpoint otrees_eqb (x y : list otree) : bool :=
  match x, y with
  | [], [] => true
  | p :: x', q :: y' => otree_eqb p q && otrees_eqb x' y'
  | _, _ => false
  end.

Fixpoint check_ops (s : state) (t : list lnode) (ops : list op) (os : list obs)
  : bool * (state * list lnode) :=
  match ops, os with
  | [], [] => (true, (s, t))
  | o :: ops', (acc, wr, dump) :: os' =>
      let (s', oc) := step s o in
      let t' := spec_step t o in
      let here :=
        negb (is_oom oc) && Bool.eqb (acc_of oc) acc && wr && dump_ok s' dump in
      let (rest, fin) := check_ops s' t' ops' os' in
      (here && rest, fin)
  | _, _ => (false, (s, t))
  end.

(* a case: the history, one observation per operation, and what the independent reader saw in
   the bytes written at the end (root nlink, logical tree), when the final state is writable *)
Definition case : Type := (list op * list obs * option (Z * list otree))%type.

Definition check_case (c : case) : bool :=
  let '(ops, os, fin) := c in
  let '(ok, (s, t)) := check_ops init [] ops os in
  ok &&
  match fin with
  | None => true
  | Some (rootn, tree) =>
      let dump := snd (last os (true, true, [])) in
      let im := view (sz_of dump) (start_of dump) s in
      otrees_eqb (map otree_of (expected t)) tree &&
      otrees_eqb (map otree_of (expected (logical s))) tree &&
      (rootn =? 2 + ldirs t + b2z (moved_live s)) &&
      (* the model's own reader on the model's image agrees with the Python reader on the bytes *)
      match read_dir im (fuel_of s) true (start_of dump) with
      | Some (n, tr) => (n =? rootn) && otrees_eqb (map otree_of tr) tree
      | None => false
      end
  end.

Fixpoint bad_reloc_cases (k : nat) (cs : list case) : list nat :=
  match cs with
  | [] => []
  | c :: r => if check_case c then bad_reloc_cases (S k) r else k :: bad_reloc_cases (S k) r
  end.
