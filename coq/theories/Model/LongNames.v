(* Long names in pycdlib: (I) Joliet UCS-2/UTF-16BE identifiers, (II) Rock Ridge NM name splitting and
   SL symlink-target splitting / reassembly.  Definitions only; proofs are in Proofs/LongNamesProofs.v.
     /repo/pycdlib/pycdlib.py    _joliet_name_and_parent_from_path   (len(name) > 64 on the UTF-8 bytes,
                                                                      then .decode('utf-8').encode('utf-16_be'))
     /repo/pycdlib/headervd.py   joliet_vd_factory                   (escape sequences %/@ %/C %/E)
     /repo/pycdlib/dr.py         DirectoryRecord._new                (dr_len = 33 + len_fi [+14 XA], += dr_len % 2)
     /repo/pycdlib/rockridge.py  RRNMRecord, RockRidge._add_name, RRSLRecord(+Component),
                                 RockRidge._new_symlink, RockRidge.symlink_path
   Conventions: code points, bytes, lengths are Z; byte strings are list Z; '/' = 47, '.' = 46.
   The SL part models rockridge.py AFTER the repair "Rock Ridge symlink components are accounted and recorded by
   their real length" (add_component(compslice, literal), recorded_length(), complen = length + 2).

   Tuple formats of the executable checkers (all return the list of FAILING cases, [] = agreement):
     bad_utf16_cases : list (list Z * (list Z * Z))
         (code points of s , ( list(s.encode('utf-16_be')) , len(s.encode('utf-8')) ))
     bad_nm_cases    : list ((Z * list Z) * list (Z * list Z))
         ((room , rr_name bytes) , [(nm.posix_name_flags , nm.posix_name) for dr NM records then ce NM records])
         room = max(ALLOWED_DR_SIZE - curr_dr_len - 5, 0) at the call of _add_name (a CE record must exist)
     bad_sl_cases    : list (((Z * list Z) * list (Z * list (Z * list Z))) * (list Z * list (list Z)))
         NON-EMPTY targets only (pycdlib never calls _new_symlink with b''), a CE record must exist;
         (((room_first , target bytes) , [(sl.flags , [(c.flags , c.data) ...]) per SL record, dr then ce])
          , ( symlink_path() of the re-parsed records , [list(sl.record()) per SL record] ))
         the component lists / bytes are those obtained by RRSLRecord.parse of sl.record() (the ON-DISK form:
         a '.'/'..'/'/' component has flags 2/4/8, length 0, no data, and NO continue bit);
         room_first = curr_comp_area_length at loop entry of _new_symlink
                    = 254 - curr_dr_len - 5  if curr_dr_len + 8 < 254,  else 250;   room_next is 250. *)
From Coq Require Import ZArith List Bool.
Import ListNotations.
Local Open Scope Z_scope.

Definition len {A} (l : list A) : Z := Z.of_nat (length l).

Fixpoint zlist_eqb (a b : list Z) : bool :=
  match a, b with
  | [], [] => true
  | x :: a', y :: b' => (x =? y) && zlist_eqb a' b'
  | _, _ => false
  end.

(* ------------------------------------------------------------------ (I) Joliet / UTF-16BE *)

(* Unicode scalar values: 0..0x10FFFF without the surrogates 0xD800..0xDFFF. *)
Definition scalar (c : Z) : Prop := 0 <= c < 55296 \/ 57344 <= c <= 1114111.
Definition scalarb (c : Z) : bool := ((0 <=? c) && (c <? 55296)) || ((57344 <=? c) && (c <=? 1114111)).

(* str.encode('utf-16_be') of one scalar: one 16-bit unit, or a surrogate pair above the BMP. *)
Definition enc1 (c : Z) : list Z :=
  if c <? 65536 then [c / 256; c mod 256]
  else let v := c - 65536 in
       let hi := 55296 + v / 1024 in
       let lo := 56320 + v mod 1024 in
       [hi / 256; hi mod 256; lo / 256; lo mod 256].
Definition utf16be_enc (s : list Z) : list Z := flat_map enc1 s.

(* bytes.decode('utf-16_be'), strict: odd length, lone or misordered surrogates -> None. *)
Fixpoint utf16be_dec (b : list Z) : option (list Z) :=
  match b with
  | [] => Some []
  | a :: b1 :: rest =>
      let u := a * 256 + b1 in
      if (55296 <=? u) && (u <=? 56319) then
        match rest with
        | c :: d :: rest' =>
            let w := c * 256 + d in
            if (56320 <=? w) && (w <=? 57343)
            then option_map (cons (65536 + (u - 55296) * 1024 + (w - 56320))) (utf16be_dec rest')
            else None
        | _ => None
        end
      else if (56320 <=? u) && (u <=? 57343) then None
      else option_map (cons u) (utf16be_dec rest)
  | _ => None
  end.

Definition utf8_len1 (c : Z) : Z :=
  if c <? 128 then 1 else if c <? 2048 then 2 else if c <? 65536 then 3 else 4.
Fixpoint utf8_len (s : list Z) : Z :=
  match s with [] => 0 | c :: r => utf8_len1 c + utf8_len r end.

Definition units1 (c : Z) : Z := if c <? 65536 then 1 else 2.
Fixpoint utf16_units (s : list Z) : Z :=
  match s with [] => 0 | c :: r => units1 c + utf16_units r end.

(* the rule AS CODED: `if len(name) > 64: raise`, name being the UTF-8 bytes of the last path component *)
Definition joliet_accepts (name : list Z) : bool := utf8_len name <=? 64.
(* what the Joliet specification bounds: 64 16-bit units (128 bytes) *)
Definition joliet_spec_fits (name : list Z) : bool := utf16_units name <=? 64.

(* DirectoryRecord._new: dr_len = 33 + len_fi (+ 14 with XA), then dr_len += dr_len % 2 *)
Definition joliet_dr_len (xa : bool) (name : list Z) : Z :=
  let l := 33 + 2 * utf16_units name + (if xa then 14 else 0) in l + l mod 2.

(* joliet_vd_factory: escape sequence of the SVD for Joliet level 1/2/3 *)
Definition joliet_escape (level : Z) : option (list Z) :=
  if level =? 1 then Some [37; 47; 64] else if level =? 2 then Some [37; 47; 67]
  else if level =? 3 then Some [37; 47; 69] else None.

Definition bad_utf16_cases (cases : list (list Z * (list Z * Z))) : list (list Z * (list Z * Z)) :=
  filter (fun c => let '(s, (bytes, u8)) := c in
            negb (forallb scalarb s && zlist_eqb (utf16be_enc s) bytes
                  && match utf16be_dec bytes with Some s' => zlist_eqb s' s | None => false end
                  && (utf8_len s =? u8) && (len bytes =? 2 * utf16_units s))) cases.

(* ------------------------------------------------------------------ (II.a) Rock Ridge NM *)

(* while offset < len(rr_name): length = min(len(rr_name[offset:]), 250); piece = rr_name[offset:offset+length].
   Every iteration consumes >= 1 byte, so fuel = len(rr_name) is enough. *)
Fixpoint nm_chunks (fuel : nat) (l : list Z) : list (list Z) :=
  match fuel with
  | O => []
  | S f => match l with
           | [] => []
           | _ => firstn 250 l :: nm_chunks f (skipn 250 l)
           end
  end.

(* `if curr_nm is not None: curr_nm.set_continued()` runs before every further piece is created:
   all pieces but the last end up with posix_name_flags = 1, the last keeps 0. *)
Fixpoint nm_flag (ps : list (list Z)) : list (Z * list Z) :=
  match ps with
  | [] => []
  | [p] => [(0, p)]
  | p :: rest => (1, p) :: nm_flag rest
  end.

(* room = len_here after `len_here = max(len_here, 0)`; `if len_here > 0:` first piece rr_name[:len_here]
   in the directory record; `offset = len_here`; the rest in <= 250 byte pieces in the continuation area. *)
Definition nm_split (room : Z) (name : list Z) : list (Z * list Z) :=
  let r := Z.to_nat room in
  nm_flag ((if 0 <? room then [firstn r name] else []) ++ nm_chunks (length name) (skipn r name)).

(* independent reader (RRIP 4.1.4): append the piece; go on to the next NM only while CONTINUE (bit 0) is set *)
Fixpoint nm_join (ps : list (Z * list Z)) : list Z :=
  match ps with
  | [] => []
  | (f, p) :: rest => if Z.odd f then p ++ nm_join rest else p
  end.

(* RRNMRecord.record(): b'NM' + pack('=BBB', 5 + len, 1, flags) + name *)
Definition nm_record_bytes (fp : Z * list Z) : list Z :=
  [78; 77; 5 + len (snd fp); 1; fst fp] ++ snd fp.

Fixpoint pieces_eqb (a b : list (Z * list Z)) : bool :=
  match a, b with
  | [], [] => true
  | (f, p) :: a', (g, q) :: b' => (f =? g) && zlist_eqb p q && pieces_eqb a' b'
  | _, _ => false
  end.

Definition bad_nm_cases (cases : list ((Z * list Z) * list (Z * list Z)))
  : list ((Z * list Z) * list (Z * list Z)) :=
  filter (fun c => let '((room, name), ps) := c in
            negb (pieces_eqb (nm_split room name) ps && zlist_eqb (nm_join ps) name)) cases.

(* ------------------------------------------------------------------ (II.b) Rock Ridge SL *)

(* On-disk component (flags byte 8 / 2 / 4 / 0|1).  Only a plain name can carry CONTINUE on disk:
   Component.record() writes pack('=BB', 2|4|8, 0) for the flagged kinds whatever else is in self.flags. *)
Inductive comp : Type :=
| CRoot | CCurrent | CParent
| CName (continued : bool) (data : list Z).

Definition is_dot (s : list Z) : bool := zlist_eqb s [46].
Definition is_dotdot (s : list Z) : bool := zlist_eqb s [46; 46].
Definition is_slash (s : list Z) : bool := zlist_eqb s [47].

(* bytes.split(b'/') : always at least one piece *)
Fixpoint split_slash (l : list Z) : list (list Z) :=
  match l with
  | [] => [[]]
  | c :: r => if c =? 47 then [] :: split_slash r
              else match split_slash r with
                   | p :: ps => (c :: p) :: ps
                   | [] => [[c]]
                   end
  end.
(* b'/'.join *)
Fixpoint join_slash (ps : list (list Z)) : list Z :=
  match ps with
  | [] => []
  | [p] => p
  | p :: rest => p ++ 47 :: join_slash rest
  end.

(* the `special` classification at the head of the for loop of _new_symlink *)
Definition classify (first : bool) (p : list Z) : comp :=
  match p with
  | [] => if first then CRoot else CName false []
  | _ => if is_dot p then CCurrent else if is_dotdot p then CParent else CName false p
  end.

(* logical (not yet cut) components of a target *)
Definition sl_components (target : list Z) : list comp :=
  match split_slash target with
  | [] => []
  | p :: ps => classify true p :: map (classify false) ps
  end.

(* RRSLRecord.Component.length(name) *)
Definition comp_len_name (s : list Z) : Z :=
  if is_dot s || is_dotdot s || is_slash s then 2 else 2 + len s.

(* Component.factory(name, literal=True) followed by Component.record()/parse(): a slice of a name is added
   literally (flags 0 whatever it spells, even "." or ".."); cont = the slice was later marked by
   set_last_component_continued().  On disk: (0|1, len, bytes). *)
Definition factory (cont : bool) (s : list Z) : comp := CName cont s.

(* Trace of what _new_symlink does: TBrk = "curr_sl.set_continued(); new RRSLRecord appended",
   TSpecial c = add_component of '/', '.', '..' as a whole path piece, TName cont s = add_component(s)
   for a slice s of a name; cont = the slice is later marked by set_last_component_continued(). *)
Inductive tok : Type :=
| TBrk
| TSpecial (c : comp)
| TName (cont : bool) (s : list Z).

(* the `while not done` loop for a non-special piece; rest = comp[offset:], area = curr_comp_area_length.
   minimum = Component.length(b'a' if comp else b'') = 3 for a non-empty name (then rest is non-empty in every
   turn), 2 for the empty name.  length = len(comp) - offset, cut to area - 2 when length + 2 > area; the
   tracker loses exactly the recorded size length + 2.  Returns the trace and the final area. *)
Fixpoint cut_name (fuel : nat) (r2 area : Z) (rest : list Z) : list tok * Z :=
  match fuel with
  | O => ([], area)
  | S f =>
      let minimum := match rest with [] => 2 | _ => 3 end in
      let brk := area <? minimum in
      let area1 := if brk then r2 else area in
      let pre := if brk then [TBrk] else [] in
      let length := if area1 <? len rest + 2 then area1 - 2 else len rest in
      let n := Z.to_nat length in
      let area2 := area1 - length - 2 in
      if len rest <=? length                      (* offset + length >= len(comp): done *)
      then (pre ++ [TName false (firstn n rest)], area2)
      else let '(ts, a) := cut_name f r2 area2 (skipn n rest) in
           (pre ++ TName true (firstn n rest) :: ts, a)
  end.

(* one turn of the for loop *)
Definition one_comp (r2 area : Z) (c : comp) : list tok * Z :=
  match c with
  | CName _ p => cut_name (S (length p)) r2 area p
  | _ => let brk := area <? 2 in               (* minimum = 2 for '/', '.', '..' *)
         let area1 := if brk then r2 else area in
         ((if brk then [TBrk] else []) ++ [TSpecial c], area1 - 0 - 2)
  end.

Fixpoint sl_tokens (r2 area : Z) (cs : list comp) : list tok :=
  match cs with
  | [] => []
  | c :: cs' => let '(ts, a) := one_comp r2 area c in ts ++ sl_tokens r2 a cs'
  end.

Definition recs : Type := list (bool * list comp).

Definition emit (c : comp) (k : recs) : recs :=
  match k with
  | (fl, cs) :: rs => (fl, c :: cs) :: rs
  | [] => [(false, [c])]
  end.

(* interpretation of the trace as SL records: (record-level CONTINUE flag, components) *)
Fixpoint group (ts : list tok) : recs :=
  match ts with
  | [] => [(false, [])]
  | TBrk :: r => (true, []) :: group r
  | TSpecial c :: r => emit c (group r)
  | TName b s :: r => emit (factory b s) (group r)
  end.

Definition sl_records (room_first room_next : Z) (cs : list comp) : recs :=
  group (sl_tokens room_next room_first cs).

(* Independent reader, RRIP 4.1.3 (as the Linux kernel's get_symlink_chunk does it):
   SL records are consumed while the record-level CONTINUE flag is set; ROOT -> "/", CURRENT -> ".",
   PARENT -> ".."; a "/" separates a component from the next one unless it is ROOT or has CONTINUE. *)
Fixpoint take_records (rs : recs) : list comp :=
  match rs with
  | [] => []
  | (fl, cs) :: r => cs ++ (if fl then take_records r else [])
  end.
Definition comp_text (c : comp) : list Z :=
  match c with CRoot => [47] | CCurrent => [46] | CParent => [46; 46] | CName _ d => d end.
Definition glue (c : comp) : bool :=
  match c with CRoot => true | CName true _ => true | _ => false end.
Definition sep (c : comp) (r : list comp) : list Z :=
  match r with [] => [] | _ => if glue c then [] else [47] end.
Fixpoint render (cs : list comp) : list Z :=
  match cs with
  | [] => []
  | c :: r => comp_text c ++ sep c r ++ render r
  end.
Definition sl_reassemble (rs : recs) : list Z := render (take_records rs).

(* pycdlib's own reader.  RRSLRecord.name(): state (outlist reversed, continued). *)
Definition comp_continued (c : comp) : bool :=
  match c with CName b _ => b | _ => false end.
Definition name_step (st : list (list Z) * bool) (c : comp) : list (list Z) * bool :=
  let '(out, continued) := st in
  let name0 := comp_text c in
  let isroot := is_slash name0 in
  let out1 := if isroot then [] else out in
  let continued1 := if isroot then false else continued in
  let name := if isroot then [] else name0 in
  let out2 := if continued1
              then match out1 with last :: o => (last ++ name) :: o | [] => [name] end
              else name :: out1 in
  (out2, comp_continued c).
Definition rec_name (cs : list comp) : list Z :=
  join_slash (rev (fst (fold_left name_step cs ([], false)))).
(* rec.last_component_continued(): raises on a record without components *)
Definition last_continued (cs : list comp) : option bool :=
  match rev cs with [] => None | c :: _ => Some (comp_continued c) end.
(* RockRidge.symlink_path(): every SL record is used, the record-level flag is ignored *)
Fixpoint sp_loop (rs : recs) (out : list (list Z)) (saved : list Z) : option (list (list Z) * list Z) :=
  match rs with
  | [] => Some (out, saved)
  | (_, cs) :: r =>
      match last_continued cs with
      | None => None
      | Some true => sp_loop r out (saved ++ rec_name cs)
      | Some false => sp_loop r ((saved ++ rec_name cs) :: out) []
      end
  end.
Definition symlink_path_model (rs : recs) : option (list Z) :=
  match sp_loop rs [] [] with
  | Some (out, []) => Some (join_slash (rev out))
  | _ => None
  end.

(* (kept for the statements that used them: since name slices are recorded literally the round trip needs
   neither of these two guards any more, LongNamesProofs.sl_roundtrip_all)
   no slice that must be continued spells "." / ".." *)
Definition tok_ok (t : tok) : bool :=
  match t with TName true s => negb (is_dot s || is_dotdot s) | _ => true end.
Definition sl_ok (r1 r2 : Z) (target : list Z) : bool :=
  match target with [] => false | _ => forallb tok_ok (sl_tokens r2 r1 (sl_components target)) end.
(* sufficient, room-independent: every path piece that begins with '.' is "." or ".." *)
Definition no_dot_names (target : list Z) : bool :=
  match target with
  | [] => false
  | _ => forallb (fun p => match p with 46 :: _ => is_dot p || is_dotdot p | _ => true end)
                 (split_slash target)
  end.

(* When no CE record exists (first pass of RockRidge.new), _new_symlink proceeds iff the true record length
   fits: curr_dr_len + RRSLRecord.length(split) <= 254, i.e. sum Component.length(piece) <= room_first; then the
   loop opens no further record (LongNamesProofs.sl_no_ce_single_record). *)
Definition sl_accepts_no_ce (r1 : Z) (target : list Z) : bool :=
  fold_right (fun p acc => comp_len_name p + acc) 0 (split_slash target) <=? r1.
Definition sl_written (has_ce : bool) (rs : recs) : recs := if has_ce then rs else firstn 1 rs.

(* wire format *)
Definition comp_pair (c : comp) : Z * list Z :=
  match c with
  | CRoot => (8, []) | CCurrent => (2, []) | CParent => (4, [])
  | CName b d => (if b then 1 else 0, d)
  end.
Definition pair_comp (p : Z * list Z) : comp :=
  let '(f, d) := p in
  if Z.testbit f 1 then CCurrent else if Z.testbit f 2 then CParent else if Z.testbit f 3 then CRoot
  else CName (Z.odd f) d.
(* Component.record() *)
Definition comp_bytes (c : comp) : list Z :=
  let '(f, d) := comp_pair c in [f; len d] ++ d.
Definition comp_size (c : comp) : Z := len (comp_bytes c).
(* RRSLRecord.record(): b'SL' + pack('=BBB', current_length(), 1, flags) + components *)
Definition sl_record_bytes (r : bool * list comp) : list Z :=
  let body := flat_map comp_bytes (snd r) in
  [83; 76; 5 + len body; 1; if fst r then 1 else 0] ++ body.

Fixpoint lists_eqb (a b : list (list Z)) : bool :=
  match a, b with
  | [], [] => true
  | x :: a', y :: b' => zlist_eqb x y && lists_eqb a' b'
  | _, _ => false
  end.
Fixpoint recs_eqb (a : recs) (b : list (Z * list (Z * list Z))) : bool :=
  match a, b with
  | [], [] => true
  | (fl, cs) :: a', (g, ps) :: b' =>
      ((if fl then 1 else 0) =? g) && pieces_eqb (map comp_pair cs) ps && recs_eqb a' b'
  | _, _ => false
  end.

Definition sl_case : Type :=
  (((Z * list Z) * list (Z * list (Z * list Z))) * (list Z * list (list Z)))%type.
Definition sl_case_ok (c : sl_case) : bool :=
  let '(((r1, target), prs), (readback, bytes)) := c in
  let rs := sl_records r1 250 (sl_components target) in
  recs_eqb rs prs
  && lists_eqb (map sl_record_bytes rs) bytes
  && match symlink_path_model (map (fun r => (Z.odd (fst r), map pair_comp (snd r))) prs) with
     | Some t => zlist_eqb t readback
     | None => false
     end
  (* the independent reader and pycdlib's reader give the same text on what pycdlib wrote *)
  && zlist_eqb (sl_reassemble rs) readback.
Definition bad_sl_cases (cases : list sl_case) : list sl_case :=
  filter (fun c => negb (sl_case_ok c)) cases.

(* ------------------------------------------------------------------ specification-side helpers
   (used by the statements in Proofs/LongNamesProofs.v) *)

(* flag lists: `yes` on every element but the last, `no` on the last *)
Fixpoint all_but_last {A} (yes no : A) (fs : list A) : Prop :=
  match fs with
  | [] => True
  | [f] => f = no
  | f :: r => f = yes /\ all_but_last yes no r
  end.

(* within an SL record with record-level flag fl: only the last component may carry CONTINUE, and then
   the record itself carries CONTINUE *)
Fixpoint cont_last_only (fl : bool) (cs : list comp) : Prop :=
  match cs with
  | [] => True
  | [c] => comp_continued c = true -> fl = true
  | c :: r => comp_continued c = false /\ cont_last_only fl r
  end.

(* the former witnesses of the two repaired defects (now positive examples in LongNamesProofs.v) *)
(* "a*129/.bbb/c*100", 134 bytes of room in the directory record: the name ".bbb" is cut after its dot *)
Definition w_dot : list Z := repeat 97 129%nat ++ [47; 46; 98; 98; 98; 47] ++ repeat 99 100%nat.
Definition w_dotdot : list Z := repeat 97 128%nat ++ [47; 46; 46; 98; 98; 98; 47] ++ repeat 99 100%nat.
(* "a/a/.../a" (40 names), 164 bytes of room, no CE record *)
Definition w_many : list Z := join_slash (repeat [97] 40%nat).

(* all words of length <= n over an alphabet, for the bounded sweep *)
Fixpoint words (alphabet : list Z) (n : nat) : list (list Z) :=
  match n with
  | O => [[]]
  | S k => [] :: flat_map (fun w => map (fun c => c :: w) alphabet) (words alphabet k)
  end.
(* on a non-empty target: pycdlib's reader = independent reader = the target *)
Definition agree_on (r1 r2 : Z) (t : list Z) : bool :=
  let rs := sl_records r1 r2 (sl_components t) in
  match t with
  | [] => true
  | _ => match symlink_path_model rs with Some x => zlist_eqb x (sl_reassemble rs) | None => false end
         && zlist_eqb (sl_reassemble rs) t
  end.

(* bytes of the components of one record / of the uncut components *)
Definition comps_size (cs : list comp) : Z := fold_right (fun c acc => comp_size c + acc) 0 cs.
