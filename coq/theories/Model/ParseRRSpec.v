(* The WRITER side of Model/ParseRR.v and the harness.
     graph_of dt s   the object graph PyCdlib.open must rebuild from the image master_rr dt s of an AccountRR state:
                     built from the writer's per-record inputs (MasterRR.mrr_dir_specs, RRPlace.place) with NO bytes,
                     no search in the image and no check: every record's dr_entries / ce_entries are the placed
                     entries with the two in-place updates (link count, CE pointer: prr_fix_E), SL components in the
                     form RRSLRecord.parse leaves them (prr_norm_comp: '.', '..', '/' carry no data), the writer's
                     version (prr_ver_of), the continuation blocks tracked in walk order
                     WITHOUT the overlap test (prr_track_u), numbered by first use
     state_of pvd root_len g   the AccountRR state of an opened object: tree, per-record bookkeeping (file_ident,
                     RRIP name, symlink target, dr_len, continuation key), rr_ce_blocks.  BLOCK IDENTITIES after open
                     are the positions in pvd.rr_ce_blocks, i.e. the order in which the WALK first meets each block
                     (breadth first over directories, records in directory order) -- not the creation order of the
                     original object.  The PVD is not part of Master.image: space_size, path_tbl_size and
                     path_table_num_extents are inputs [pvd].  m_ino (the record has an Inode of its own data) is
                     rendered as `not a directory and PX mode <> 0o120555`: after open every non-directory record has
                     an Inode (symlinks: a private zero-length one), which rr_step (fx = true) treats alike.
   Correspondence: /verif/tools/parse_rr_cases.py -> bad_parserr_cases.  Definitions only. *)
From Coq Require Import ZArith List Bool.
From PV.Base Require Import Prim.
From PV.Gen Require Import GenConst GenFun.
From PV.Model Require Import Codec Pack PathTable CeAlloc RREntries RRWalk RRPlace.
From PV.Model Require Master Account LongNames.
From PV.Model Require Import ParseCore AccountRR MasterRR ParseRR.
Import ListNotations.
Local Open Scope Z_scope.

(* ---- one record as parse leaves it --------------------------------------------------------------------------- *)
(* RRSLRecord.parse: a component with the CURRENT / PARENT / ROOT bit has length 0 and no data *)
Definition prr_norm_comp (c : comp) : comp :=
  if flag_set (c_flags c) 1 then mk_comp 2 0 [] else if flag_set (c_flags c) 2 then mk_comp 4 0 []
  else if flag_set (c_flags c) 3 then mk_comp 8 0 [] else c.
Definition prr_norm_sl (s : sl_rec) : sl_rec := mk_sl (sl_flags s) (map prr_norm_comp (sl_comps s)).

(* the placed entries after px_record.posix_file_links / ce_record.update_extent, update_offset (MasterRR.mrr_patch) *)
Definition prr_fix_E (x : rspec) (E : rr_entries) : rr_entries :=
  mk_entries (sp_record E) (rr_record E)
             (match ce_record E with Some c => Some (mk_ce (rs_bl x) (rs_off x) (ce_len c)) | None => None end)
             (match px_record E with
              | Some p => Some (mk_px (px_mode p) (rs_links x) (px_uid p) (px_gid p) (px_serial p))
              | None => None
              end)
             (er_record E) (es_records E) (pn_record E) (map prr_norm_sl (sl_records E)) (nm_records E)
             (cl_record E) (pl_record E) (tf_record E) (sf_record E) (re_record E) (st_record E)
             (pd_records E) (al_records E).

(* what the version inference tells (after fixes 2755ef8 / 26337bc: no RR entry on either side -> 1.10; an RR entry
   in the continuation area turns the 1.10 of the record's own area into 1.09): the writer's version *)
Definition prr_ver_of (v : rrv) : rrv := v.

Definition prr_spec_rrd (v : rrv) (dt : list Z) (x : rspec) (blk : option nat) : option rrd :=
  match place (mrr_pin v dt x) with
  | Some r => Some (mk_rrd (prr_fix_E x (pl_dr r))
                           (if is_some (ce_record (pl_dr r)) then prr_fix_E x (pl_ce r) else empty_entries)
                           (prr_ver_of v) 0 blk)
  | None => None
  end.

(* parse_dr sees record()'s trailing pad byte as part of the System Use field *)
Definition prr_pad (r : drec) : drec :=
  mk_drec (xattr_len r) (extent r) (data_len r) (date r) (flags r) (unit_size r) (gap_size r)
          (seqnum r) (Codec.ident r) (sysuse r ++ repeat 0 (Z.to_nat (zlen (sysuse r) mod 2))).

Definition prr_spec_rec (v : rrv) (dt : list Z) (x : rspec) (dirid blk : option nat) : qrec :=
  mk_qrec (prr_pad (mrr_drec v dt x)) (Codec.dr_len_of (mrr_drec v dt x)) (zlen (rs_nm x)) dirid
          (prr_spec_rrd v dt x blk).

(* track_rr_ce_entry without the tests of track_entry *)
Fixpoint prr_track_u (bs : list (Z * block)) (e off len : Z) : nat * list (Z * block) :=
  match bs with
  | [] => (O, [(e, insort_left (off, len) [])])
  | (e0, es0) :: tl =>
      if e0 =? e then (O, (e0, insort_left (off, len) es0) :: tl)
      else let '(k, tl') := prr_track_u tl e off len in (S k, (e0, es0) :: tl')
  end.

(* ---- one directory ---------------------------------------------------------------------------------------------- *)
Fixpoint prr_spec_kids (v : rrv) (dt : list Z) (t : rnode) (L : mrr_lay) (p : list nat) (j : nat)
         (kids : list rnode) (st : wstate) : wstate :=
  match kids with
  | [] => st
  | c :: r =>
      let x := mrr_kid_spec t L (p ++ [j]) c in
      let '(blk, bs1) :=
        match m_ce (meta_of c) with
        | Some (i, off, len) =>
            let '(k, b) := prr_track_u (w_blocks st) (mrr_ce_ext t L i) off len in (Some k, b)
        | None => (None, w_blocks st)
        end in
      let isd := r_is_dir c in
      let dirid := if isd then Some (length (w_dirs st) + 1 + length (w_queue st))%nat else None in
      let q1 := if isd then w_queue st ++ [mk_qdir (rs_ext x) (rs_len x) false (rs_nm x) (Some 0)]
                else w_queue st in
      let child := prr_spec_rec v dt x dirid blk in
      prr_spec_kids v dt t L p (S j) r
        (mk_wst (w_dirs st) (w_cur st ++ [child]) (prr_rrk_add child (w_rrk st)) q1 (w_seen st) bs1 (w_ver st))
  end.

Definition prr_spec_dir (v : rrv) (dt : list Z) (t : rnode) (L : mrr_lay) (p : list nat) (dl : Z)
           (kids : list rnode) (st : wstate) : wstate :=
  match mrr_dir_specs t L p with
  | xd :: xdd :: _ =>
      let st0 := mk_wst (w_dirs st) [prr_spec_rec v dt xd None None; prr_spec_rec v dt xdd None None] []
                        (tl (w_queue st)) (prr_range (Master.ms_ext_at (l_DB L) p) dl ++ w_seen st)
                        (w_blocks st) (prr_ver_of v) in
      prr_end_dir (prr_spec_kids v dt t L p 0 kids st0)
  | _ => st
  end.

Fixpoint prr_items (p : list nat) (j : nat) (kids : list rnode) : list (list nat * rnode) :=
  match kids with
  | [] => []
  | c :: r => (p ++ [j], c) :: prr_items p (S j) r
  end.

(* every record object in the order of the deque; a file record has nothing below it *)
Fixpoint prr_gwalk (fuel : nat) (v : rrv) (dt : list Z) (t : rnode) (L : mrr_lay)
         (items : list (list nat * rnode)) (st : wstate) : wstate :=
  match fuel with
  | O => st
  | S f =>
      match items with
      | [] => st
      | (p, RFile _ _) :: q => prr_gwalk f v dt t L q st
      | (p, RDir _ dl kids) :: q =>
          prr_gwalk f v dt t L (q ++ prr_items p 0 kids) (prr_spec_dir v dt t L p dl kids st)
      end
  end.

(* the number of record objects below (and including) the root: PathTable.tsize of the walk tree *)
Definition prr_size (s : rstate) : nat := tsize (mrr_dtree [] (r_root s)).
Definition graph_of (dt : list Z) (s : rstate) : rgraph :=
  prr_graph (prr_gwalk (prr_size s) (r_ver s) dt (r_root s) (mrr_layout s) [([], r_root s)]
                       (prr_init (mrr_root_extent s) (mrr_root_len s))).

Definition prr_fuel (s : rstate) : nat := S (prr_size s).

(* no two records of a directory carry the same identifier (the library allows that inside a Rock Ridge directory
   called RR_MOVED; track_child then lists the later one first: the order is NOT what was written), and no identifier
   is b'\x00' / b'\x01' *)
Definition prr_plain (nm : list Z) : bool := negb (zlist_eqb nm [0]) && negb (zlist_eqb nm [1]).
Fixpoint prr_sorted_node (n : rnode) : bool :=
  match n with
  | RFile _ _ => true
  | RDir _ _ kids =>
      Master.ms_sorted (map rname kids) && forallb (fun c => prr_plain (rname c)) kids && forallb prr_sorted_node kids
  end.
Definition prr_tree_ok (s : rstate) : bool := prr_sorted_node (r_root s).

(* ---- from the opened object back to a state ----------------------------------------------------------------------- *)
Definition prr_meta (c : qrec) : meta :=
  match q_rr c with
  | Some x =>
      mk_meta (Codec.ident (q_rec c)) (prr_rrip_name x) (prr_target x)
              (negb (ps_is_dir (q_rec c)) && negb (prr_mode x =? LINK_MODE)) (q_drlen c)
              (match rd_blk x, prr_ce x with
               | Some k, Some (_, off, len) => Some (k, off, len)
               | _, _ => None
               end)
  | None => mk_meta (Codec.ident (q_rec c)) [] [] (negb (ps_is_dir (q_rec c))) (q_drlen c) None
  end.

Fixpoint prr_tree_kids (fuel : nat) (dirs : list pdir) (id : nat) : list rnode :=
  match fuel with
  | O => []
  | S f =>
      map (fun c => match q_dir c with
                    | Some k => RDir (prr_meta c) (data_len (q_rec c)) (prr_tree_kids f dirs k)
                    | None => RFile (prr_meta c) (data_len (q_rec c))
                    end)
          (skipn 2 (d_kids (nth id dirs (mk_pdir [] []))))
  end.

Definition prr_block_ids (g : rgraph) : cblocks := combine (seq 0 (length (g_blocks g))) (map snd (g_blocks g)).

(* [pvd] = (space_size, path_tbl_size, path_table_num_extents) of the parsed PVD *)
Definition state_of (pvd : Z * Z * Z) (root_len : Z) (g : rgraph) : rstate :=
  let '(space, ptr_size, ptr_ext) := pvd in
  mk_rstate (g_ver g) (RDir root_meta root_len (prr_tree_kids (length (g_dirs g)) (g_dirs g) 0))
            ptr_size ptr_ext space (prr_block_ids g) (length (g_blocks g)).
Definition prr_pvd (s : rstate) : Z * Z * Z := (r_space s, r_ptr_size s, r_ptr_ext s).

(* ---- harness ------------------------------------------------------------------------------------------------------- *)
(* Rock Ridge data of a record as the tool reads it off the opened object:
   (name(), PX mode, PX links, symlink target, (bl_cont_area, offset_cont_area, len_cont_area) or (-1,-1,-1),
    index of ce_block in pvd.rr_ce_blocks or -1, signatures of record_dr_entries(), of record_ce_entries(),
    rr_version code, bytes_to_skip) *)
Definition err : Type :=
  (list Z * Z * Z * list Z * (Z * Z * Z) * Z * list (list Z) * list (list Z) * Z * Z)%type.
(* (file_ident, file_flags, extent, data_length, dr_len, directory number or -1, [rr] or []) *)
Definition erec : Type := (list Z * Z * Z * Z * Z * Z * list err)%type.
(* directories in walk order: (children, identifiers of rr_children) ; rr_ce_blocks ; iso.rock_ridge code *)
Definition egraph : Type := (list (list erec * list (list Z)) * list (Z * list (Z * Z)) * Z)%type.

Definition prr_oz (o : option nat) : Z := match o with Some k => Z.of_nat k | None => -1 end.
Definition prr_err_of (c : qrec) (x : rrd) : err :=
  (prr_full_name x (ps_printable (q_rec c)), prr_mode x, prr_links x, prr_target x,
   match prr_ce x with Some t => t | None => (-1, -1, -1) end, prr_oz (rd_blk x),
   map sig_of (entries_list (rd_dr x)), map sig_of (entries_list (rd_ce x)), rrv_code (rd_ver x), rd_skip x).
Definition prr_erec_of (c : qrec) : erec :=
  (Codec.ident (q_rec c), flags (q_rec c), extent (q_rec c), data_len (q_rec c), q_drlen c, prr_oz (q_dir c),
   match q_rr c with Some x => [prr_err_of c x] | None => [] end).

Fixpoint prr_list_eqb {A} (eqb : A -> A -> bool) (a b : list A) : bool :=
  match a, b with
  | [], [] => true
  | x :: a', y :: b' => eqb x y && prr_list_eqb eqb a' b'
  | _, _ => false
  end.
Definition prr_zz_eqb (a b : Z * Z) : bool := (fst a =? fst b) && (snd a =? snd b).
Definition prr_err_eqb (a b : err) : bool :=
  let '(n1, m1, l1, t1, (b1, o1, c1), k1, d1, e1, v1, s1) := a in
  let '(n2, m2, l2, t2, (b2, o2, c2), k2, d2, e2, v2, s2) := b in
  zlist_eqb n1 n2 && (m1 =? m2) && (l1 =? l2) && zlist_eqb t1 t2 && (b1 =? b2) && (o1 =? o2) && (c1 =? c2)
  && (k1 =? k2) && prr_list_eqb zlist_eqb d1 d2 && prr_list_eqb zlist_eqb e1 e2 && (v1 =? v2) && (s1 =? s2).
Definition prr_erec_eqb (a b : erec) : bool :=
  let '(n1, f1, e1, l1, d1, k1, r1) := a in
  let '(n2, f2, e2, l2, d2, k2, r2) := b in
  zlist_eqb n1 n2 && (f1 =? f2) && (e1 =? e2) && (l1 =? l2) && (d1 =? d2) && (k1 =? k2)
  && prr_list_eqb prr_err_eqb r1 r2.
Definition prr_edir_eqb (a b : list erec * list (list Z)) : bool :=
  prr_list_eqb prr_erec_eqb (fst a) (fst b) && prr_list_eqb zlist_eqb (snd a) (snd b).
Definition prr_eblock_eqb (a b : Z * list (Z * Z)) : bool :=
  (fst a =? fst b) && prr_list_eqb prr_zz_eqb (snd a) (snd b).

Definition prr_egraph_of (g : rgraph) : egraph :=
  (map (fun d => (map prr_erec_of (d_kids d), map snd (d_rrk d))) (g_dirs g), g_blocks g, rrv_code (g_ver g)).
Definition prr_egraph_eqb (a b : egraph) : bool :=
  let '(d1, b1, v1) := a in let '(d2, b2, v2) := b in
  prr_list_eqb prr_edir_eqb d1 d2 && prr_list_eqb prr_eblock_eqb b1 b2 && (v1 =? v2).

(* RRIP reading of the names agrees with name() on every record of the graph *)
Definition prr_names_agree (g : rgraph) : bool :=
  forallb (fun d => forallb (fun c => match q_rr c with
                                      | Some x => match prr_nms x with
                                                  | [] => true
                                                  | _ => zlist_eqb (prr_rrip_name x)
                                                                   (prr_full_name x (ps_printable (q_rec c)))
                                                  end
                                      | None => true
                                      end) (d_kids d)) (g_dirs g).

Fixpoint prr_flags (s : rstate) (ops : list rop) : list bool * rstate :=
  match ops with
  | [] => ([], s)
  | o :: r => let '(s1, ok) := rr_step s o in let '(fl, s2) := prr_flags s1 r in (ok :: fl, s2)
  end.
Definition prr_bools_eqb (a b : list bool) : bool := prr_list_eqb Bool.eqb a b.
Definition prr_opt_image_eqb (a b : option image) : bool :=
  match a, b with
  | Some x, Some y => Master.ms_image_eqb x y
  | _, _ => false
  end.

(* the further edits applied to BOTH objects: (operations, accepted flags on the never-closed original, on the
   reopened object, directory areas of the two written images identical, whole images identical,
   pvd.space_size of the original and of the reopened object after the edits) *)
Definition eedit : Type := (list rop * list bool * list bool * bool * bool * Z * Z)%type.

(* a case: (version code, history, date bytes, (root extent, root length), [(extent, run-length coded bytes)]
            (directories in walk order, continuation blocks by extent) of the LIBRARY'S image,
            [graph read off the reopened object] or [] when open raised PyCdlibInvalidISO,
            (space_size, path_tbl_size, path_table_num_extents) of the reopened PVD, the edits) *)
Definition prr_case : Type :=
  (Z * list rop * list Z * (Z * Z) * list (Z * list (Z * list Z)) * list egraph * (Z * Z * Z) * eedit)%type.

Definition prr_case_ok (c : prr_case) : bool :=
  let '(vc, ops, dt, (re, rl), expected, eg, pvd, (edits, fo, fr, same_dirs, same_img, sp_o, sp_r)) := c in
  let s := rr_run (rr_init (vcode vc)) ops in
  let img := map (fun x : Z * list (Z * list Z) => (fst x, Master.ms_unrle (snd x))) expected in
  match parse_rr (S (length img)) img re rl, eg with
  | POk g, [e] =>
      prr_egraph_eqb (prr_egraph_of g) e && prr_names_agree g &&
      (* the writer side *)
      prr_tree_ok s && prr_egraph_eqb (prr_egraph_of (graph_of dt s)) e &&
      (let '(a, b, c0) := pvd in (a =? r_space s) && (b =? r_ptr_size s) && (c0 =? r_ptr_ext s)) &&
      (* edits after reopen *)
      (if false then true
       else let '(f1, s1) := prr_flags s edits in
            let '(f2, s2) := prr_flags (state_of pvd rl g) edits in
            prr_bools_eqb f1 fo && prr_bools_eqb f2 fr && (r_space s1 =? sp_o) && (r_space s2 =? sp_r) &&
            Bool.eqb (prr_opt_image_eqb (master_rr dt s1) (master_rr dt s2)) same_dirs &&
            Bool.eqb (prr_opt_image_eqb (master_rr dt s1) (master_rr dt s2) && (r_space s1 =? r_space s2)) same_img)
  | PInvalid _, [] => true
  | _, _ => false
  end.

Definition bad_parserr_cases (k : nat) (cs : list prr_case) : list nat := RRWalk.bad_cases prr_case_ok k cs.
