(* Byte-level model of /repo/pycdlib/isohybrid.py (MBR, geometry, GPT, APM).  Definitions only;
   proofs are in Proofs/HybridProofs.v.

   Sources modelled (statement by statement):
     IsoHybrid.new / update_rba / update_efi / update_mac   -> ih_new, ih_update_rba, hy_update_efi, hy_update_mac
     IsoHybrid._calc_cc                                      -> GenFun.calc_cc (generated; not redefined)
     IsoHybrid.record (MBR part / whole)                     -> ih_record_mbr / hy_record
     IsoHybrid.record_padding                                -> ih_record_padding
     IsoHybrid.parse (MBR part)                              -> ih_parse_mbr
     GPTPartHeader.new / record / parse                      -> gpart_new, gpart_record, gpart_parse
     GPTHeader.new / set_lbas / set_last_usable_lba / record / parse
                                                             -> ghdr_new, ..., ghdr_record, ghdr_parse
     GPT.new / record / partition loop of parse_*            -> gpt_new, gpt_record, gpt_parse_parts
     APMPartHeader.new / record / parse                      -> apm_new, apm_record, apm_parse
     pycdlib.py _write_fp: seek(current_lba*512 - num_parts*128) before secondary_gpt.record()
                                                             -> secondary_write_offset
   bytes = list Z (0..255); an exception (struct.error, PyCdlibInvalidISO/InvalidInput/InternalError,
   UnicodeError, IndexError) is [None] (PRaise for IsoHybrid.parse).  str attributes (GPT / APM
   names) are held as their encoded bytes (UTF-16LE resp. ASCII).  uuid.uuid4() / random.getrandbits
   results are parameters.

   TUPLE ORDER of the external differential cases (booleans are Z: 0 = False, otherwise True;
   expected = [] stands for "the Python call raised"):
     mbr case  : ((efi, mac, part_entry, mbr_id, part_offset, geometry_sectors, geometry_heads,
                   part_type, rba_extent, efi_lba, efi_count, mac_lba, mac_count, mbr_code, iso_size),
                  expected)   mbr_code = the object's .mbr (400 bytes), expected = record(iso_size)[:512]
                  after new(...); update_rba(rba_extent); and the four attributes set directly
     padding   : iso_size heads sectors expected_len      (len(record_padding(iso_size)))
     gpt header: ((current_lba, backup_lba, first_usable_lba, last_usable_lba, disk_guid(16 bytes),
                   partition_entries_lba, num_parts, size_of_partition_entries, part_entries_crc),
                  expected 512 bytes)
     gpt part  : ((part_type_guid, part_guid.bytes, first_lba, last_lba, attributes,
                   name.encode('utf-16_le')), expected 128 bytes)
     apm       : ((map_count, start_block, block_count, name, type_desc, data_start, data_count,
                   status, boot_start, boot_count, boot_load, boot_load2, boot_entry, boot_entry2,
                   boot_cksum, processor, driver_sig), expected 512 bytes)
     gpt record: ((is_primary, header tuple without crc (8 fields), [part tuples], [apm tuples]),
                  expected GPT.record() bytes) *)
From Coq Require Import ZArith List Bool.
From PV.Base Require Import Prim.
From PV.Gen Require Import GenConst GenFun.
From PV.Model Require Import Codec.
Import ListNotations.
Local Open Scope Z_scope.

(* ---- 64-bit little endian ('Q') ------------------------------------------------------------- *)
Definition le64 (v : Z) : list Z := le32 (v mod 4294967296) ++ le32 (v / 4294967296).
Definition dle64 (l : list Z) : Z := dle32 (firstn 4 l) + 4294967296 * dle32 (skipn 4 l).
Definition u64_ok (v : Z) : bool := (0 <=? v) && (v <=? 18446744073709551615).

Fixpoint opt_concat (l : list (option (list Z))) : option (list Z) :=
  match l with
  | [] => Some []
  | None :: _ => None
  | Some b :: r => match opt_concat r with Some br => Some (b ++ br) | None => None end
  end.

(* ---- constants ------------------------------------------------------------------------------ *)
Definition APM_PARTS : Z := 3.
Definition GPT_SIZE : Z := 128 / 4 + 2.

Definition ORIG_HEADER : list Z := [51; 237] ++ repeat 144 30.
Definition MAC_AFP : list Z := [69; 82; 8; 0; 0; 0; 144; 144] ++ repeat 0 24.
Definition EFI_HEADER : list Z := [0; 254; 255; 255; 239; 254; 255; 255].
Definition MAC_HEADER : list Z := [0; 254; 255; 255; 0; 254; 255; 255].

(* IsoHybrid.new: isohybrid_data_hd0 (400 bytes) *)
Definition isohybrid_data_hd0 : list Z :=
  [51; 237; 250; 142; 213; 188; 0; 124; 251; 252; 102; 49; 219; 102; 49; 201; 102; 83; 102; 81; 6; 87; 142; 221;
   142; 197; 82; 190; 0; 124; 191; 0; 6; 185; 0; 1; 243; 165; 234; 75; 6; 0; 0; 82; 180; 65; 187; 170;
   85; 49; 201; 48; 246; 249; 205; 19; 114; 22; 129; 251; 85; 170; 117; 16; 131; 225; 1; 116; 11; 102; 199; 6;
   241; 6; 180; 66; 235; 21; 235; 0; 90; 81; 180; 8; 205; 19; 131; 225; 63; 91; 81; 15; 182; 198; 64; 80;
   247; 225; 83; 82; 80; 187; 0; 124; 185; 4; 0; 102; 161; 176; 7; 232; 68; 0; 15; 130; 128; 0; 102; 64;
   128; 199; 2; 226; 242; 102; 129; 62; 64; 124; 251; 192; 120; 112; 117; 9; 250; 188; 236; 123; 234; 68; 124; 0;
   0; 232; 131; 0; 105; 115; 111; 108; 105; 110; 117; 120; 46; 98; 105; 110; 32; 109; 105; 115; 115; 105; 110; 103;
   32; 111; 114; 32; 99; 111; 114; 114; 117; 112; 116; 46; 13; 10; 102; 96; 102; 49; 210; 102; 3; 6; 248; 123;
   102; 19; 22; 252; 123; 102; 82; 102; 80; 6; 83; 106; 1; 106; 16; 137; 230; 102; 247; 54; 232; 123; 192; 228;
   6; 136; 225; 136; 197; 146; 246; 54; 238; 123; 136; 198; 8; 225; 65; 184; 1; 2; 138; 22; 242; 123; 205; 19;
   141; 100; 16; 102; 97; 195; 232; 30; 0; 79; 112; 101; 114; 97; 116; 105; 110; 103; 32; 115; 121; 115; 116; 101;
   109; 32; 108; 111; 97; 100; 32; 101; 114; 114; 111; 114; 46; 13; 10; 94; 172; 180; 14; 138; 62; 98; 4; 179;
   7; 205; 16; 60; 10; 117; 241; 205; 24; 244; 235; 253]
  ++ repeat 0 100.

(* ---- IsoHybrid ------------------------------------------------------------------------------ *)
Record isohybrid := mk_ih {
  ih_header : list Z; ih_mbr : list Z; ih_rba : Z; ih_mbr_id : Z; ih_part_entry : Z;
  ih_bhead : Z; ih_bsect : Z; ih_bcyle : Z; ih_ptype : Z; ih_ehead : Z; ih_part_offset : Z;
  ih_heads : Z; ih_sectors : Z;
  ih_efi : bool; ih_efi_lba : Z; ih_efi_count : Z;
  ih_mac : bool; ih_mac_lba : Z; ih_mac_count : Z }.

(* new(efi, mac, part_entry, mbr_id, part_offset, geometry_sectors, geometry_heads, part_type);
   mbr_id None -> random.getrandbits(32) is the caller's business; the GPT objects are in hy_new *)
Definition ih_new (efi mac : bool)
    (part_entry mbr_id part_offset geometry_sectors geometry_heads part_type : Z) : option isohybrid :=
  if (geometry_sectors <? 1) || (63 <? geometry_sectors) then None else
  if (geometry_heads <? 1) || (256 <? geometry_heads) then None else
  if mac && negb (part_type =? 0) then None else
  let bhead := (part_offset / geometry_sectors) mod geometry_heads in
  let bsect := part_offset mod geometry_sectors + 1 in
  let bcyle := part_offset / (geometry_heads * geometry_sectors) in
  let bsect := bsect + Z.shiftr (Z.land bcyle 768) 2 in
  let bcyle := Z.land bcyle 255 in
  Some (mk_ih (if mac then MAC_AFP else ORIG_HEADER) isohybrid_data_hd0 0 mbr_id part_entry
              bhead bsect bcyle part_type (geometry_heads - 1) part_offset
              geometry_heads geometry_sectors efi 0 0 mac 0 0).

Definition ih_set_rba (h : isohybrid) (v : Z) : isohybrid :=
  mk_ih (ih_header h) (ih_mbr h) v (ih_mbr_id h) (ih_part_entry h) (ih_bhead h) (ih_bsect h)
        (ih_bcyle h) (ih_ptype h) (ih_ehead h) (ih_part_offset h) (ih_heads h) (ih_sectors h)
        (ih_efi h) (ih_efi_lba h) (ih_efi_count h) (ih_mac h) (ih_mac_lba h) (ih_mac_count h).
Definition ih_set_efi (h : isohybrid) (lba cnt : Z) : isohybrid :=
  mk_ih (ih_header h) (ih_mbr h) (ih_rba h) (ih_mbr_id h) (ih_part_entry h) (ih_bhead h) (ih_bsect h)
        (ih_bcyle h) (ih_ptype h) (ih_ehead h) (ih_part_offset h) (ih_heads h) (ih_sectors h)
        (ih_efi h) lba cnt (ih_mac h) (ih_mac_lba h) (ih_mac_count h).
Definition ih_set_mac (h : isohybrid) (lba cnt : Z) : isohybrid :=
  mk_ih (ih_header h) (ih_mbr h) (ih_rba h) (ih_mbr_id h) (ih_part_entry h) (ih_bhead h) (ih_bsect h)
        (ih_bcyle h) (ih_ptype h) (ih_ehead h) (ih_part_offset h) (ih_heads h) (ih_sectors h)
        (ih_efi h) (ih_efi_lba h) (ih_efi_count h) (ih_mac h) lba cnt.
Definition ih_set_sectors (h : isohybrid) (s : Z) : isohybrid :=
  mk_ih (ih_header h) (ih_mbr h) (ih_rba h) (ih_mbr_id h) (ih_part_entry h) (ih_bhead h) (ih_bsect h)
        (ih_bcyle h) (ih_ptype h) (ih_ehead h) (ih_part_offset h) (ih_heads h) s
        (ih_efi h) (ih_efi_lba h) (ih_efi_count h) (ih_mac h) (ih_mac_lba h) (ih_mac_count h).

(* update_rba(current_extent): self.rba = current_extent * 4 *)
Definition ih_update_rba (h : isohybrid) (current_extent : Z) : isohybrid :=
  ih_set_rba h (current_extent * 4).

(* _calc_cc(iso_size) of the object *)
Definition ih_cc (h : isohybrid) (iso_size : Z) : Z := fst (calc_cc (ih_heads h) (ih_sectors h) iso_size).
Definition ih_padlen (h : isohybrid) (iso_size : Z) : Z := snd (calc_cc (ih_heads h) (ih_sectors h) iso_size).

(* the CHS end / size values computed in record() for the active partition entry *)
Definition chs_esect (sectors cc : Z) : Z := sectors + Z.shiftr (Z.land (cc - 1) 768) 2.
Definition chs_ecyle (cc : Z) : Z := Z.land (cc - 1) 255.
Definition ih_psize (h : isohybrid) (iso_size : Z) : Z :=
  ih_cc h iso_size * ih_heads h * ih_sectors h - ih_part_offset h.

(* struct.pack('<BBBBBBBBLL', 0x80, bhead, bsect, bcyle, ptype, ehead, esect, ecyle, part_offset, psize) *)
Definition ih_part_raw (h : isohybrid) (iso_size : Z) : option (list Z) :=
  let cc := ih_cc h iso_size in
  let esect := chs_esect (ih_sectors h) cc in
  let ecyle := chs_ecyle cc in
  let psize := ih_psize h iso_size in
  if u8_ok (ih_bhead h) && u8_ok (ih_bsect h) && u8_ok (ih_bcyle h) && u8_ok (ih_ptype h) &&
     u8_ok (ih_ehead h) && u8_ok esect && u8_ok ecyle && u32_ok (ih_part_offset h) && u32_ok psize
  then Some ([128; ih_bhead h; ih_bsect h; ih_bcyle h; ih_ptype h; ih_ehead h; esect; ecyle]
             ++ le32 (ih_part_offset h) ++ le32 psize)
  else None.

(* EFI_HEADER / MAC_HEADER + struct.pack('<LL', lba * 4, count) *)
Definition ih_boot_raw (hdr : list Z) (lba cnt : Z) : option (list Z) :=
  if u32_ok (lba * 4) && u32_ok cnt then Some (hdr ++ le32 (lba * 4) ++ le32 cnt) else None.

(* one iteration of "for i in range(1, 5)" in record(): the three successive assignments to raw *)
Definition ih_entry (h : isohybrid) (iso_size i : Z) : option (list Z) :=
  match (if i =? ih_part_entry h then ih_part_raw h iso_size else Some (repeat 0 16)) with
  | None => None
  | Some raw =>
      match (if (i =? 2) && ih_efi h then ih_boot_raw EFI_HEADER (ih_efi_lba h) (ih_efi_count h)
             else Some raw) with
      | None => None
      | Some raw =>
          if (i =? 3) && ih_mac h then ih_boot_raw MAC_HEADER (ih_mac_lba h) (ih_mac_count h)
          else Some raw
      end
  end.

(* record(iso_size)[:512]: pack('<32s400sLLLH', header, mbr, rba, 0, mbr_id, 0), 4 entries, 55 AA *)
Definition ih_mbr_head (h : isohybrid) : list (list Z) :=
  [pack_s 32 (ih_header h); pack_s 400 (ih_mbr h); le32 (ih_rba h); le32 0; le32 (ih_mbr_id h); le16 0].

Definition ih_record_mbr (h : isohybrid) (iso_size : Z) : option (list Z) :=
  if u32_ok (ih_rba h) && u32_ok (ih_mbr_id h) then
    match ih_entry h iso_size 1, ih_entry h iso_size 2, ih_entry h iso_size 3, ih_entry h iso_size 4 with
    | Some e1, Some e2, Some e3, Some e4 =>
        Some (concat (ih_mbr_head h ++ [e1; e2; e3; e4; [85; 170]]))
    | _, _, _, _ => None
    end
  else None.

(* record_padding(iso_size) *)
Definition ih_record_padding (h : isohybrid) (iso_size : Z) : list Z :=
  repeat 0 (Z.to_nat (ih_padlen h iso_size)).

(* parse(instr), MBR part (everything except the call of primary_gpt.parse_primary) *)
Inductive parse_res := PRaise | PFalse | POk (h : isohybrid).

Definition mbr_widths : list Z := [32] ++ fmt_isohybrid_widths ++ [16; 16; 16; 16; 2].

(* the loop "for i in range(1, 5)": the fields of an entry are unpacked in one statement, so the
   loop state is (part_entry, raw bytes of that entry); efi / mac only look at entry 2 / 3 *)
Definition parse_active (st : Z * list Z) (ie : Z * list Z) : Z * list Z :=
  if d8 (snd ie) =? 128 then ie else st.

Definition ih_parse_mbr (instr : list Z) : parse_res :=
  if zlen instr <? 512 then PRaise else
  match split_widths (widths mbr_widths) (firstn 512 instr) with
  | Some ([hdr; mbr; rba; unused1; mbr_id; unused2; e1; e2; e3; e4; tail], _) =>
      if negb (zlist_eqb hdr ORIG_HEADER) && negb (zlist_eqb hdr MAC_AFP) then PFalse else
      let header := if zlist_eqb hdr ORIG_HEADER then ORIG_HEADER else MAC_AFP in
      if negb (dle32 unused1 =? 0) then PRaise else
      if negb (dle16 unused2 =? 0) then PRaise else
      let '(part_entry, e) := fold_left parse_active [(1, e1); (2, e2); (3, e3); (4, e4)] (-1, []) in
      let efi := zlist_eqb (firstn 8 e2) EFI_HEADER in
      let mac := zlist_eqb (firstn 8 e3) MAC_HEADER in
      if part_entry <? 0 then PRaise else
      if negb (zlist_eqb tail [85; 170]) then PRaise else
      let ehead := nth 5 e 0 in
      let ecyle := nth 7 e 0 in
      let part_offset := dle32 (firstn 4 (skipn 8 e)) in
      let psize := dle32 (skipn 12 e) in
      let geometry_heads := ehead + 1 in
      let geometry_sectors := Z.min (psize / ((ecyle + 1) * geometry_heads)) 63 in
      POk (mk_ih header mbr (dle32 rba) (dle32 mbr_id) part_entry
                 (nth 1 e 0) (nth 2 e 0) (nth 3 e 0) (nth 4 e 0) ehead part_offset
                 geometry_heads geometry_sectors
                 efi (if efi then dle32 (firstn 4 (skipn 8 e2)) / 4 else 0)
                     (if efi then dle32 (skipn 12 e2) else 0)
                 mac (if mac then dle32 (firstn 4 (skipn 8 e3)) / 4 else 0)
                     (if mac then dle32 (skipn 12 e3) else 0))
  | _ => PRaise
  end.

(* CHS triple of a partition-table entry: (cylinder, head, sector) from the bytes (head, sect, cyl) *)
Definition chs_decode (head sect cyl : Z) : Z * Z * Z :=
  (cyl + 4 * Z.land sect 192, head, Z.land sect 63).

(* ---- APMPartHeader (FMT '>HHLLL32s32sLLLLLLLLLL16sL372s') ------------------------------------- *)
Record apm_part := mk_apm {
  apm_map_count : Z; apm_start_block : Z; apm_block_count : Z; apm_name : list Z;
  apm_type_desc : list Z; apm_data_start : Z; apm_data_count : Z; apm_status : Z;
  apm_boot_start : Z; apm_boot_count : Z; apm_boot_load : Z; apm_boot_load2 : Z;
  apm_boot_entry : Z; apm_boot_entry2 : Z; apm_boot_cksum : Z; apm_processor : list Z;
  apm_driver_sig : Z }.

Definition MAC_PARTITION_MAGIC : Z := 20557.

(* new(name, type_desc, status) *)
Definition apm_new (name type_desc : list Z) (status : Z) : apm_part :=
  mk_apm 3 0 0 name type_desc 0 0 status 0 0 0 0 0 0 0 [] 0.

(* str.encode('ascii') / bytes.decode('ascii') succeed iff every code is < 128 *)
Definition ascii_ok (l : list Z) : bool := forallb (fun c => (0 <=? c) && (c <? 128)) l.

(* str.rstrip('\x00') on the decoded bytes *)
Fixpoint rstrip0 (l : list Z) : list Z :=
  match l with
  | [] => []
  | x :: r => match rstrip0 r with
              | [] => if x =? 0 then [] else [x]
              | r' => x :: r'
              end
  end.

Definition apm_fields (a : apm_part) : list (list Z) :=
  [ be16 MAC_PARTITION_MAGIC; be16 0; be32 (apm_map_count a); be32 (apm_start_block a);
    be32 (apm_block_count a); pack_s 32 (apm_name a); pack_s 32 (apm_type_desc a);
    be32 (apm_data_start a); be32 (apm_data_count a); be32 (apm_status a);
    be32 (apm_boot_start a); be32 (apm_boot_count a); be32 (apm_boot_load a);
    be32 (apm_boot_load2 a); be32 (apm_boot_entry a); be32 (apm_boot_entry2 a);
    be32 (apm_boot_cksum a); pack_s 16 (apm_processor a); be32 (apm_driver_sig a);
    repeat 0 372 ].

Definition apm_ranges_ok (a : apm_part) : bool :=
  u32_ok (apm_map_count a) && u32_ok (apm_start_block a) && u32_ok (apm_block_count a) &&
  u32_ok (apm_data_start a) && u32_ok (apm_data_count a) && u32_ok (apm_status a) &&
  u32_ok (apm_boot_start a) && u32_ok (apm_boot_count a) && u32_ok (apm_boot_load a) &&
  u32_ok (apm_boot_load2 a) && u32_ok (apm_boot_entry a) && u32_ok (apm_boot_entry2 a) &&
  u32_ok (apm_boot_cksum a) && u32_ok (apm_driver_sig a).

(* record() *)
Definition apm_record (a : apm_part) : option (list Z) :=
  if apm_ranges_ok a && ascii_ok (apm_name a) && ascii_ok (apm_type_desc a)
  then Some (concat (apm_fields a)) else None.

(* parse(instr) *)
Definition apm_parse (instr : list Z) : option apm_part :=
  match split_widths (widths fmt_apm_part_widths) instr with
  | Some ([sig; resv; mc; sb; bc; name; td; ds; dc; st; bs; bcn; bl; bl2; be; be2; bck; proc; dsig; pad], _) =>
      if negb (dbe16 sig =? MAC_PARTITION_MAGIC) then None else
      if negb (ascii_ok name && ascii_ok td) then None else
      Some (mk_apm (dbe32 mc) (dbe32 sb) (dbe32 bc) (rstrip0 name) (rstrip0 td) (dbe32 ds) (dbe32 dc)
                   (dbe32 st) (dbe32 bs) (dbe32 bcn) (dbe32 bl) (dbe32 bl2) (dbe32 be) (dbe32 be2)
                   (dbe32 bck) proc (dbe32 dsig))
  | _ => None
  end.

(* ---- GPTPartHeader (FMT '<16s16sQQ8s72s') ----------------------------------------------------- *)
Record gpt_part := mk_gpart {
  gp_type_guid : list Z; gp_guid : list Z; gp_first_lba : Z; gp_last_lba : Z;
  gp_attributes : list Z; gp_name : list Z (* name.encode('utf-16_le') *) }.

Definition BASIC_PARTITION : list Z :=
  [162; 160; 208; 235; 229; 185; 51; 68; 135; 192; 104; 182; 183; 38; 153; 199].
Definition HFS_PARTITION : list Z :=
  [0; 83; 70; 72; 0; 0; 170; 17; 170; 17; 0; 48; 101; 67; 236; 172].

(* new(is_basic, name); part_guid = uuid.uuid4().bytes is a parameter *)
Definition gpart_new (is_basic : bool) (guid name16 : list Z) : gpt_part :=
  mk_gpart (if is_basic then BASIC_PARTITION else HFS_PARTITION) guid 0 0 (repeat 0 8) name16.

Definition gpart_fields (p : gpt_part) : list (list Z) :=
  [ pack_s 16 (gp_type_guid p); pack_s 16 (gp_guid p); le64 (gp_first_lba p); le64 (gp_last_lba p);
    pack_s 8 (gp_attributes p); pack_s 72 (gp_name p) ].

(* record() *)
Definition gpart_record (p : gpt_part) : option (list Z) :=
  if u64_ok (gp_first_lba p) && u64_ok (gp_last_lba p) then Some (concat (gpart_fields p)) else None.

(* name.decode('utf-16_le').rstrip('\x00') on the encoded form: drop trailing 00 00 code units *)
Fixpoint rstrip16 (l : list Z) : list Z :=
  match l with
  | a :: b :: r => match rstrip16 r with
                   | [] => if (a =? 0) && (b =? 0) then [] else [a; b]
                   | r' => a :: b :: r'
                   end
  | _ => []
  end.

(* parse(instr): unpack_from(FMT, instr[:128], 0); returns the object (and consumes 128 bytes) *)
Definition gpart_parse (instr : list Z) : option gpt_part :=
  match split_widths (widths fmt_gpt_part_widths) (firstn 128 instr) with
  | Some ([tg; pg; fl; ll; at_; nm], _) =>
      if negb (zlist_eqb tg BASIC_PARTITION) && negb (zlist_eqb tg HFS_PARTITION) then None
      else Some (mk_gpart tg pg (dle64 fl) (dle64 ll) at_ (rstrip16 nm))
  | _ => None
  end.

(* ---- GPTHeader (FMT '<8s4s4sLLQQQQ16sQLLL420s') ----------------------------------------------- *)
Record gpt_header := mk_ghdr {
  gh_current_lba : Z; gh_backup_lba : Z; gh_first_usable : Z; gh_last_usable : Z;
  gh_disk_guid : list Z; gh_pe_lba : Z; gh_num_parts : Z; gh_size_pe : Z }.

Definition GPT_SIG : list Z := [69; 70; 73; 32; 80; 65; 82; 84].
Definition GPT_REV : list Z := [0; 0; 1; 0].
Definition GPT_HEADER_SIZE : list Z := [92; 0; 0; 0].

(* new(mac); disk_guid = uuid.uuid4().bytes is a parameter *)
Definition ghdr_new (mac : bool) (disk_guid : list Z) : gpt_header :=
  let gpt_size := GPT_SIZE in
  let gpt_size := if mac then gpt_size + (APM_PARTS * 4 + 2) else gpt_size in
  mk_ghdr 0 0 gpt_size 0 disk_guid 0 128 128.

Definition ghdr_set_lbas (g : gpt_header) (current backup : Z) : gpt_header :=
  mk_ghdr current backup (gh_first_usable g) (gh_last_usable g) (gh_disk_guid g) (gh_pe_lba g)
          (gh_num_parts g) (gh_size_pe g).
Definition ghdr_set_last_usable_lba (g : gpt_header) (iso_size_and_padding : Z) : gpt_header :=
  mk_ghdr (gh_current_lba g) (gh_backup_lba g) (gh_first_usable g) (iso_size_and_padding / 512 - GPT_SIZE)
          (gh_disk_guid g) (gh_pe_lba g) (gh_num_parts g) (gh_size_pe g).
Definition ghdr_set_pe_lba (g : gpt_header) (v : Z) : gpt_header :=
  mk_ghdr (gh_current_lba g) (gh_backup_lba g) (gh_first_usable g) (gh_last_usable g)
          (gh_disk_guid g) v (gh_num_parts g) (gh_size_pe g).

(* the fields after the header-CRC field, up to byte 92 *)
Definition ghdr_post (g : gpt_header) (part_entries_crc : Z) : list (list Z) :=
  [ le32 0; le64 (gh_current_lba g); le64 (gh_backup_lba g); le64 (gh_first_usable g);
    le64 (gh_last_usable g); pack_s 16 (gh_disk_guid g); le64 (gh_pe_lba g);
    le32 (gh_num_parts g); le32 (gh_size_pe g); le32 part_entries_crc ].
Definition ghdr_fields (g : gpt_header) (header_crc part_entries_crc : Z) : list (list Z) :=
  [GPT_SIG; GPT_REV; GPT_HEADER_SIZE; le32 header_crc] ++ ghdr_post g part_entries_crc ++ [repeat 0 420].

Definition ghdr_ranges_ok (g : gpt_header) (part_entries_crc : Z) : bool :=
  u64_ok (gh_current_lba g) && u64_ok (gh_backup_lba g) && u64_ok (gh_first_usable g) &&
  u64_ok (gh_last_usable g) && u64_ok (gh_pe_lba g) && u32_ok (gh_num_parts g) &&
  u32_ok (gh_size_pe g) && u32_ok part_entries_crc.

(* record(part_entries_crc): rec = pack(..., 0, ...); header_crc = crc32(rec[:92]);
   ba[16..19] = pack('<L', header_crc) *)
Definition ghdr_record (g : gpt_header) (part_entries_crc : Z) : option (list Z) :=
  if ghdr_ranges_ok g part_entries_crc then
    let rec := concat (ghdr_fields g 0 part_entries_crc) in
    let header_crc := crc32 (firstn 92 rec) in
    Some (firstn 16 rec ++ le32 header_crc ++ skipn 20 rec)
  else None.

(* parse(instr): the two CRC fields are read and ignored *)
Definition ghdr_parse (instr : list Z) : option gpt_header :=
  match split_widths (widths fmt_gpt_header_widths) (firstn 512 instr) with
  | Some ([sig; rev; hs; hcrc; resv1; cur; bak; fu; lu; dg; pel; np; sz; pcrc; resv2], _) =>
      if negb (zlist_eqb sig GPT_SIG) then None else
      if negb (zlist_eqb rev GPT_REV) then None else
      if negb (zlist_eqb hs GPT_HEADER_SIZE) then None else
      Some (mk_ghdr (dle64 cur) (dle64 bak) (dle64 fu) (dle64 lu) dg (dle64 pel) (dle32 np) (dle32 sz))
  | _ => None
  end.

(* what a UEFI reader checks (not in pycdlib): signature, HeaderSize = 92, and the CRC32 of the
   first 92 bytes computed with the HeaderCRC32 field set to zero *)
Definition verify_gpt_header (b : list Z) : bool :=
  (92 <=? zlen b) && zlist_eqb (firstn 8 b) GPT_SIG && (dle32 (slice 12 16 b) =? 92) &&
  (crc32 (firstn 16 b ++ [0; 0; 0; 0] ++ slice 20 92 b) =? dle32 (slice 16 20 b)).
(* the UEFI rule for the entry array: PartitionEntryArrayCRC32 is the CRC32 of
   NumberOfPartitionEntries * SizeOfPartitionEntry bytes starting at PartitionEntryLBA *)
Definition verify_gpt_array_uefi (hdr array : list Z) : bool :=
  let n := dle32 (slice 80 84 hdr) * dle32 (slice 84 88 hdr) in
  (n <=? zlen array) && (crc32 (firstn (Z.to_nat n) array) =? dle32 (slice 88 92 hdr)).

(* ---- GPT ------------------------------------------------------------------------------------ *)
Record gpt := mk_gpt { g_primary : bool; g_header : gpt_header; g_parts : list gpt_part;
                       g_apm : list apm_part }.

Definition NAME_ISOHYBRID_ISO : list Z :=
  [73; 0; 83; 0; 79; 0; 72; 0; 121; 0; 98; 0; 114; 0; 105; 0; 100; 0; 32; 0; 73; 0; 83; 0; 79; 0].
Definition NAME_ISOHYBRID : list Z := [73; 0; 83; 0; 79; 0; 72; 0; 121; 0; 98; 0; 114; 0; 105; 0; 100; 0].
Definition A_APPLE : list Z := [65; 112; 112; 108; 101].
Definition A_APPLE_PARTITION_MAP : list Z :=
  [65; 112; 112; 108; 101; 95; 112; 97; 114; 116; 105; 116; 105; 111; 110; 95; 109; 97; 112].
Definition A_EFI : list Z := [69; 70; 73].
Definition A_APPLE_HFS : list Z := [65; 112; 112; 108; 101; 95; 72; 70; 83].

(* GPT(is_primary).new(mac); the four uuid4() results in call order: disk, part1, part2, part3 *)
Definition gpt_new (is_primary mac : bool) (disk_guid g1 g2 g3 : list Z) : gpt :=
  let hdr := ghdr_new mac disk_guid in
  let hdr := if is_primary then ghdr_set_pe_lba hdr (2 + (if mac then APM_PARTS * 4 + 2 else 0)) else hdr in
  let parts := [gpart_new true g1 NAME_ISOHYBRID_ISO; gpart_new true g2 NAME_ISOHYBRID] in
  let parts := if mac then parts ++ [gpart_new false g3 NAME_ISOHYBRID] else parts in
  let apms := if mac && is_primary
              then [apm_new A_APPLE A_APPLE_PARTITION_MAP 3; apm_new A_EFI A_APPLE_HFS 51;
                    apm_new A_EFI A_APPLE_HFS 51]
              else [] in
  mk_gpt is_primary hdr parts apms.

(* part_data = b''.join(part.record() for part in self.parts) : the USED entries only *)
Definition gpt_part_data (g : gpt) : option (list Z) := opt_concat (map gpart_record (g_parts g)).
(* b'\x00' * (num_parts - len(parts)) * 128 *)
Definition gpt_empty_parts (g : gpt) : list Z :=
  repeat 0 (Z.to_nat (gh_num_parts (g_header g) - zlen (g_parts g)) * 128).
(* raw + b'\x00' * (2048 - len(raw)) *)
Definition apm_padded (a : apm_part) : option (list Z) :=
  match apm_record a with
  | Some raw => Some (raw ++ repeat 0 (Z.to_nat (2048 - zlen raw)))
  | None => None
  end.

(* record() *)
Definition gpt_record (g : gpt) : option (list Z) :=
  match gpt_part_data g with
  | None => None
  | Some part_data =>
      match ghdr_record (g_header g) (crc32 part_data) with
      | None => None
      | Some hdr =>
          if g_primary g then
            match opt_concat (map apm_padded (g_apm g)) with
            | None => None
            | Some apms =>
                Some (hdr ++ (match g_apm g with [] => [] | _ => repeat 0 1024 end) ++ apms
                      ++ part_data ++ gpt_empty_parts g)
            end
          else Some (part_data ++ gpt_empty_parts g ++ hdr)
      end
  end.

(* the partition loop of parse_primary / parse_secondary_partitions, [n] = header.num_parts *)
Fixpoint gpt_parse_parts (n : nat) (s : list Z) : option (list gpt_part) :=
  match n with
  | O => Some []
  | S n' =>
      if zlist_eqb (firstn 2 s) [0; 0] then Some [] else
      match gpart_parse s with
      | None => None
      | Some p => match gpt_parse_parts n' (skipn 128 s) with
                  | Some ps => Some (p :: ps)
                  | None => None
                  end
      end
  end.

(* pycdlib.py _write_fp: outfp.seek(secondary.header.current_lba * 512 - secondary.header.num_parts * 128) *)
Definition secondary_write_offset (g : gpt) : Z :=
  gh_current_lba (g_header g) * 512 - gh_num_parts (g_header g) * 128.

(* ---- the whole hybrid object: IsoHybrid with its two GPT objects ------------------------------ *)
Record hybrid := mk_hy { hy_ih : isohybrid; hy_pri : gpt; hy_sec : gpt }.

Definition GUIDS : Type := (list Z * list Z * list Z * list Z)%type.

Definition ghdr_set_disk_guid (g : gpt_header) (v : list Z) : gpt_header :=
  mk_ghdr (gh_current_lba g) (gh_backup_lba g) (gh_first_usable g) (gh_last_usable g) v (gh_pe_lba g)
          (gh_num_parts g) (gh_size_pe g).
Definition gpart_set_guid (p : gpt_part) (v : list Z) : gpt_part :=
  mk_gpart (gp_type_guid p) v (gp_first_lba p) (gp_last_lba p) (gp_attributes p) (gp_name p).
(* for primary_part, secondary_part in zip(primary.parts, secondary.parts):
       secondary_part.part_guid = primary_part.part_guid *)
Fixpoint copy_part_guids (pri sec : list gpt_part) : list gpt_part :=
  match pri, sec with
  | p :: pr, s :: sr => gpart_set_guid s (gp_guid p) :: copy_part_guids pr sr
  | _, _ => sec
  end.

(* new(): when efi, primary_gpt.new(mac) then secondary_gpt.new(mac) (8 uuid4() calls: pg then sg),
   then the secondary header's disk_guid and every secondary part_guid are overwritten with the
   primary's -- the four GUIDs of [sg] are generated and discarded *)
Definition hy_new (efi mac : bool) (part_entry mbr_id part_offset geometry_sectors geometry_heads part_type : Z)
    (pg sg : GUIDS) : option hybrid :=
  match ih_new efi mac part_entry mbr_id part_offset geometry_sectors geometry_heads part_type with
  | None => None
  | Some h =>
      let '(pd, p1, p2, p3) := pg in
      let '(sd, s1, s2, s3) := sg in
      if efi then
        let pri := gpt_new true mac pd p1 p2 p3 in
        let sec := gpt_new false mac sd s1 s2 s3 in
        let sec := mk_gpt (g_primary sec)
                          (ghdr_set_disk_guid (g_header sec) (gh_disk_guid (g_header pri)))
                          (copy_part_guids (g_parts pri) (g_parts sec)) (g_apm sec) in
        Some (mk_hy h pri sec)
      else Some (mk_hy h (mk_gpt true (mk_ghdr 0 0 0 0 [] 0 0 0) [] [])
                         (mk_gpt false (mk_ghdr 0 0 0 0 [] 0 0 0) [] []))
  end.

Definition gpart_set_lbas (p : gpt_part) (first last : Z) : gpt_part :=
  mk_gpart (gp_type_guid p) (gp_guid p) first last (gp_attributes p) (gp_name p).

(* parts[0].last_lba = a ; parts[1].first_lba = b ; parts[1].last_lba = c (IndexError -> None) *)
Definition parts_update_efi (ps : list gpt_part) (last0 first1 last1 : Z) : option (list gpt_part) :=
  match ps with
  | p0 :: p1 :: r => Some (gpart_set_lbas p0 (gp_first_lba p0) last0 :: gpart_set_lbas p1 first1 last1 :: r)
  | _ => None
  end.
Definition parts_update_mac (ps : list gpt_part) (first2 last2 : Z) : option (list gpt_part) :=
  match ps with
  | p0 :: p1 :: p2 :: r => Some (p0 :: p1 :: gpart_set_lbas p2 first2 last2 :: r)
  | _ => None
  end.

(* update_efi(current_extent, sector_count, iso_size) *)
Definition hy_update_efi (y : hybrid) (current_extent sector_count iso_size : Z) : option hybrid :=
  let h := hy_ih y in
  if negb (ih_efi h) then None else
  let h := ih_set_efi h current_extent sector_count in
  let padlen := ih_padlen h iso_size in
  let size_and_padlen := iso_size + padlen in
  let secondary_lba := (size_and_padlen - 512) / 512 in
  let last0 := iso_size / 512 - 1 in
  let first1 := current_extent * 4 in
  let last1 := current_extent * 4 + sector_count - 1 in
  match parts_update_efi (g_parts (hy_pri y)) last0 first1 last1,
        parts_update_efi (g_parts (hy_sec y)) last0 first1 last1 with
  | Some pp, Some sp =>
      let ph := ghdr_set_last_usable_lba (ghdr_set_lbas (g_header (hy_pri y)) 1 secondary_lba) size_and_padlen in
      let sh := ghdr_set_pe_lba (g_header (hy_sec y)) (secondary_lba - 128 / 4) in
      let sh := ghdr_set_last_usable_lba (ghdr_set_lbas sh secondary_lba 1) size_and_padlen in
      Some (mk_hy h (mk_gpt (g_primary (hy_pri y)) ph pp (g_apm (hy_pri y)))
                    (mk_gpt (g_primary (hy_sec y)) sh sp (g_apm (hy_sec y))))
  | _, _ => None
  end.

(* update_mac(current_extent, sector_count) *)
Definition hy_update_mac (y : hybrid) (current_extent sector_count : Z) : option hybrid :=
  let h := hy_ih y in
  if negb (ih_mac h) then None else
  let h := ih_set_mac h current_extent sector_count in
  let first2 := current_extent * 4 in
  let last2 := current_extent * 4 + sector_count - 1 in
  match parts_update_mac (g_parts (hy_pri y)) first2 last2,
        parts_update_mac (g_parts (hy_sec y)) first2 last2 with
  | Some pp, Some sp =>
      Some (mk_hy h (mk_gpt (g_primary (hy_pri y)) (g_header (hy_pri y)) pp (g_apm (hy_pri y)))
                    (mk_gpt (g_primary (hy_sec y)) (g_header (hy_sec y)) sp (g_apm (hy_sec y))))
  | _, _ => None
  end.

(* record(iso_size): the 512 MBR bytes, then primary_gpt.record() when efi *)
Definition hy_record (y : hybrid) (iso_size : Z) : option (list Z) :=
  match ih_record_mbr (hy_ih y) iso_size with
  | None => None
  | Some mbr =>
      if ih_efi (hy_ih y) then
        match gpt_record (hy_pri y) with Some g => Some (mbr ++ g) | None => None end
      else Some mbr
  end.

(* ---- executable checkers for the external differential harness ------------------------------- *)
Definition zbool (v : Z) : bool := negb (v =? 0).

Definition mbr_tuple : Type :=
  (Z * Z * Z * Z * Z * Z * Z * Z * Z * Z * Z * Z * Z * list Z * Z)%type.

(* new(...); update_rba(rba_extent); efi_lba/efi_count/mac_lba/mac_count set; record(iso_size)[:512] *)
Definition mbr_of_tuple (t : mbr_tuple) : option (isohybrid * Z) :=
  let '(efi, mac, part_entry, mbr_id, part_offset, gsect, gheads, ptype, rba_extent,
        efi_lba, efi_count, mac_lba, mac_count, mbr_code, iso_size) := t in
  (* d0ed30b: IsoHybrid.new refuses entry 2 with efi and entry 3 with mac (no active partition would be left);
     ih_new is the constructor without that guard, HybridHist.hstep_add_hybrid_gen carries the same guard *)
  if (zbool efi && (part_entry =? 2)) || (zbool mac && (part_entry =? 3)) then None else
  match ih_new (zbool efi) (zbool mac) part_entry mbr_id part_offset gsect gheads ptype with
  | None => None
  | Some h => Some (ih_set_mac (ih_set_efi (ih_update_rba h rba_extent) efi_lba efi_count)
                               mac_lba mac_count, iso_size)
  end.

Definition mbr_code_of_tuple (t : mbr_tuple) : list Z :=
  let '(_, _, _, _, _, _, _, _, _, _, _, _, _, mbr_code, _) := t in mbr_code.

(* the object's 400-byte MBR code is the model's constant, and the model's 512 bytes are the real ones *)
Definition check_mbr_case (t : mbr_tuple) (expected : list Z) : bool :=
  match mbr_of_tuple t with
  | None => match expected with [] => true | _ => false end
  | Some (h, iso_size) =>
      opt_bytes_eqb (ih_record_mbr h iso_size) expected &&
      (match expected with [] => true | _ => zlist_eqb (mbr_code_of_tuple t) isohybrid_data_hd0 end)
  end.

(* IsoHybrid.parse(instr) against the model: expected = [] (raised), [-1] (returned False), or
   [rba; mbr_id; part_entry; bhead; bsect; bcyle; ptype; ehead; part_offset; geometry_heads;
    geometry_sectors; efi; efi_lba; efi_count; mac; mac_lba; mac_count] (flags 0/1; lba/count 0 when
   the flag is False).  The 32-byte header and 400-byte code are compared with the input itself. *)
Definition ih_fields_list (h : isohybrid) : list Z :=
  [ih_rba h; ih_mbr_id h; ih_part_entry h; ih_bhead h; ih_bsect h; ih_bcyle h; ih_ptype h; ih_ehead h;
   ih_part_offset h; ih_heads h; ih_sectors h; (if ih_efi h then 1 else 0); ih_efi_lba h; ih_efi_count h;
   (if ih_mac h then 1 else 0); ih_mac_lba h; ih_mac_count h].
Definition check_mbr_parse_case (instr : list Z) (expected : list Z) : bool :=
  match ih_parse_mbr instr with
  | PRaise => match expected with [] => true | _ => false end
  | PFalse => zlist_eqb expected [-1]
  | POk h => zlist_eqb (ih_fields_list h) expected && zlist_eqb (ih_header h) (firstn 32 instr)
             && zlist_eqb (ih_mbr h) (slice 32 432 instr)
  end.

(* len(record_padding(iso_size)) = len(b'\x00' * padlen); the list itself is not built here
   (zlen (ih_record_padding h iso) = Z.max 0 padlen; padlen >= 0 by record_padding_aligned) *)
Definition check_padding_case (iso_size heads sectors expected_len : Z) : bool :=
  Z.max 0 (snd (calc_cc heads sectors iso_size)) =? expected_len.

Definition ghdr_tuple : Type := (Z * Z * Z * Z * list Z * Z * Z * Z * Z)%type.
Definition check_gpt_header_case (t : ghdr_tuple) (expected : list Z) : bool :=
  let '(cur, bak, fu, lu, dg, pel, np, sz, crc) := t in
  opt_bytes_eqb (ghdr_record (mk_ghdr cur bak fu lu dg pel np sz) crc) expected &&
  (match expected with [] => true | _ => verify_gpt_header expected end).

Definition gpart_tuple : Type := (list Z * list Z * Z * Z * list Z * list Z)%type.
Definition gpart_of_tuple (t : gpart_tuple) : gpt_part :=
  let '(tg, pg, fl, ll, at_, nm) := t in mk_gpart tg pg fl ll at_ nm.
Definition check_gpt_part_case (t : gpart_tuple) (expected : list Z) : bool :=
  opt_bytes_eqb (gpart_record (gpart_of_tuple t)) expected.

Definition apm_tuple : Type :=
  (Z * Z * Z * list Z * list Z * Z * Z * Z * Z * Z * Z * Z * Z * Z * Z * list Z * Z)%type.
Definition apm_of_tuple (t : apm_tuple) : apm_part :=
  let '(mc, sb, bc, nm, td, ds, dc, st, bs, bcn, bl, bl2, be, be2, bck, proc, dsig) := t in
  mk_apm mc sb bc nm td ds dc st bs bcn bl bl2 be be2 bck proc dsig.
Definition check_apm_case (t : apm_tuple) (expected : list Z) : bool :=
  opt_bytes_eqb (apm_record (apm_of_tuple t)) expected.

Definition gpt_tuple : Type :=
  (Z * (Z * Z * Z * Z * list Z * Z * Z * Z) * list gpart_tuple * list apm_tuple)%type.
Definition gpt_of_tuple (t : gpt_tuple) : gpt :=
  let '(prim, (cur, bak, fu, lu, dg, pel, np, sz), ps, as_) := t in
  mk_gpt (zbool prim) (mk_ghdr cur bak fu lu dg pel np sz) (map gpart_of_tuple ps) (map apm_of_tuple as_).
Definition check_gpt_record_case (t : gpt_tuple) (expected : list Z) : bool :=
  opt_bytes_eqb (gpt_record (gpt_of_tuple t)) expected.

(* indices (counted from k) of the cases on which model and Python disagree *)
Fixpoint bad_cases {A} (chk : A -> list Z -> bool) (k : nat) (cs : list (A * list Z)) : list nat :=
  match cs with
  | [] => []
  | (t, e) :: r => if chk t e then bad_cases chk (S k) r else k :: bad_cases chk (S k) r
  end.
Definition bad_mbr_cases := bad_cases check_mbr_case.
Definition bad_gpt_header_cases := bad_cases check_gpt_header_case.
Definition bad_gpt_part_cases := bad_cases check_gpt_part_case.
Definition bad_apm_cases := bad_cases check_apm_case.
Definition bad_gpt_record_cases := bad_cases check_gpt_record_case.
Definition bad_mbr_parse_cases := bad_cases check_mbr_parse_case.
Fixpoint bad_padding_cases (k : nat) (cs : list (Z * Z * Z * Z)) : list nat :=
  match cs with
  | [] => []
  | (iso_size, heads, sectors, e) :: r =>
      if check_padding_case iso_size heads sectors e then bad_padding_cases (S k) r
      else k :: bad_padding_cases (S k) r
  end.
