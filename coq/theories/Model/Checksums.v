(* Bitwise reference specifications for the checksum / CRC functions of pycdlib, and the
   vocabulary (byte lists, sums, little-endian words, byte replacement) used to state the
   checksum theorems.  Definitions only; the proofs are in Proofs/ChecksumsProofs.v and are about
   the GENERATED definitions of Gen/GenFun.v. *)
From Coq Require Import ZArith List.
Import ListNotations.
Local Open Scope Z_scope.

From PV.Base Require Import Prim.
From PV.Gen Require Import GenFun.

(* A Python bytes object. *)
Definition bytes (l : list Z) : Prop := Forall (fun b => 0 <= b < 256) l.

(* ---- CRC-16/XMODEM: polynomial 0x1021, init 0, no reflection, no final xor. ----
   One bit step on the 16-bit register: shift left, and if the bit shifted out was 1 xor the
   polynomial in; the register is truncated to 16 bits. *)
Definition crc16_bit_step (r : Z) : Z :=
  Z.land (if Z.testbit r 15 then Z.lxor (Z.shiftl r 1) 0x1021 else Z.shiftl r 1) 0xFFFF.

(* One byte, MSB first: xor the byte into the high byte of the register, then 8 bit steps. *)
Definition crc16_byte (crc b : Z) : Z :=
  Nat.iter 8 crc16_bit_step (Z.lxor crc (Z.shiftl b 8)).

Definition crc16_bit (data : list Z) : Z := fold_left crc16_byte data 0.

(* ---- CRC-32 (IEEE 802.3, zlib): reflected polynomial 0xEDB88320, init 0xFFFFFFFF, final xor
   0xFFFFFFFF.  One bit step: shift right, and if the bit shifted out was 1 xor the (reflected)
   polynomial in. *)
Definition crc32_bit_step (r : Z) : Z :=
  if Z.testbit r 0 then Z.lxor (Z.shiftr r 1) 0xEDB88320 else Z.shiftr r 1.

(* One byte, LSB first: xor the byte into the low byte of the register, then 8 bit steps. *)
Definition crc32_byte (crc b : Z) : Z :=
  Nat.iter 8 crc32_bit_step (Z.lxor crc b).

Definition crc32_bit (data : list Z) : Z :=
  Z.lxor (fold_left crc32_byte data 0xFFFFFFFF) 0xFFFFFFFF.

(* ---- sums, byte replacement, little-endian 16-bit words ---- *)
Definition zsum (l : list Z) : Z := fold_right Z.add 0 l.

(* ba[i] = v on a bytearray *)
Definition set_nth (i : nat) (v : Z) (l : list Z) : list Z :=
  firstn i l ++ v :: skipn (S i) l.

(* The i-th little-endian 16-bit word of data: data[2i] + 256*data[2i+1]. *)
Definition le_word (data : list Z) (i : Z) : Z :=
  znth (2 * i) data + 256 * znth (2 * i + 1) data.

(* Sum of the sixteen 16-bit words of a 32-byte El Torito validation entry. *)
Definition et_word_sum (data : list Z) : Z :=
  zsum (map (le_word data) (zrange 0 16 1)).

(* The same words obtained by walking the list two bytes at a time (a trailing single byte is a
   word whose high byte is 0). *)
Fixpoint words16 (l : list Z) : list Z :=
  match l with
  | a :: b :: r => (a + 256 * b) :: words16 r
  | [a] => [a]
  | [] => []
  end.

(* ---- path-table size accounting (PrimaryOrSupplementaryVD) ---- *)
(* The exact relation established by PrimaryOrSupplementaryVD.new (size 10, 2 extents): the
   number of reserved extents is twice (L table and M table) the number of 4096-byte units the
   path table needs. *)
Definition PtrInv (size ext : Z) : Prop := 0 <= size /\ ext = 2 * ceiling_div size 4096.
(* The weaker relation that survives arbitrary non-negative removals: enough extents, and an even
   number of them. *)
Definition PtrInvW (size ext : Z) : Prop :=
  0 <= size /\ (exists k, ext = 2 * k) /\ ext >= 2 * ceiling_div size 4096.

(* a sequence of add_to_ptr_size / remove_from_ptr_size calls; None = the PyCdlibInvalidInput
   ('Extent number should never grow when removing PTR') was raised *)
Inductive ptr_op : Type := PtrAdd (p : Z) | PtrRemove (p : Z).

Fixpoint ptr_run (ops : list ptr_op) (size ext : Z) : option (Z * Z) :=
  match ops with
  | [] => Some (size, ext)
  | PtrAdd p :: r =>
      let '(_, size', ext') := add_to_ptr_size size ext p in ptr_run r size' ext'
  | PtrRemove p :: r =>
      match remove_from_ptr_size size ext p with
      | None => None
      | Some (_, size', ext') => ptr_run r size' ext'
      end
  end.

(* every amount is in (0,4096] and a remove never takes more than the current size *)
Fixpoint ptr_ops_ok (ops : list ptr_op) (size : Z) : Prop :=
  match ops with
  | [] => True
  | PtrAdd p :: r => 0 < p <= 4096 /\ ptr_ops_ok r (size + p)
  | PtrRemove p :: r => 0 < p <= 4096 /\ p <= size /\ ptr_ops_ok r (size - p)
  end.
