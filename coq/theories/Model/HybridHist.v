(* C12 -- isohybrid over EDIT HISTORIES: Model/AccountBoot.v (plain ISO9660 level 3 + El Torito) plus
   add_isohybrid / rm_isohybrid / write, and what the MBR / GPT / APM of the written image say.

   Sources modelled (statement by statement; /repo/pycdlib/pycdlib.py unless said otherwise):
     add_isohybrid        the checks in order (catalog present, initial entry's sector_count = 4, the
                          efi/mac defaults and their refusal, the count of 0xef section entries, the
                          part_type default, the signature fb c0 78 70 at 0x40 of the initial entry's
                          boot file, IsoHybrid.new's geometry / part_type refusals); only an accepted
                          object is stored; _finish_add(0, 0)
     rm_isohybrid         self.isohybrid_mbr = None (never refused)
     _reshuffle_extents   the `for enc in enc_to_update` loop: one enc per (entry, PVD name of its
                          inode) in name order, an enc whose inode is already placed is not placed again (b44c076: but
                          still runs the 0xef rule with the inode's extent), platform 0xef ->
                          update_efi (first, when the hybrid has efi) / update_mac (second, when it has mac), platform 0
                          -> update_rba (9b70343: only the initial entry's enc), any other platform -> nothing.  update_efi / update_mac raise
                          on a hybrid without efi / mac: the loop stops there with the hybrid object
                          partly updated ([HWrite] then answers Late).
                          The values are pushed ONLY here: the hybrid object keeps what the last
                          reshuffle gave it (zeros when new).
     _write_fp            record(space_size * 2048) at 0, record_padding at the end, the backup GPT at
                          secondary.header.current_lba * 512 - num_parts * 128 (a negative seek raises)
     isohybrid.py         Model/Hybrid.v (hy_new, hy_update_efi, hy_update_mac, ih_update_rba, hy_record)
   [HWrite] stands for every call that runs _reshuffle_extents and records the image (write_fp);
   the model reshuffles at every HWrite (the library only when _needs_reshuffle: every accepted
   edit sets it, and a reshuffle of an unchanged object pushes the same values again).
   File contents are abstracted to one bit per inode: [hsigs] = the inodes whose data carry the
   isolinux signature at 0x40 ([HAddSigFile], length >= 68).  uuid4 / getrandbits results are
   parameters of [HAddHybrid].  Definitions only; proofs: Proofs/HybridHist*.v. *)
From Coq Require Import ZArith List Bool Arith.
From PV.Base Require Import Prim.
From PV.Gen Require Import GenConst GenFun.
From PV.Model Require Import Names Pack Alloc Codec Eltorito Account AccountLinks AccountBoot Hybrid.
Import ListNotations.
Local Open Scope Z_scope.

Record hstate := {
  hb : bstate;                 (* Model/AccountBoot.v *)
  hsigs : list nat;            (* inodes whose bytes 0x40..0x43 are fb c0 78 70 *)
  hhyb : option hybrid }.      (* self.isohybrid_mbr, with the values of the last reshuffle *)

Definition hinit : hstate := {| hb := binit; hsigs := []; hhyb := None |}.

Inductive hop :=
| HBase (o : bop)
| HAddSigFile (dir : path) (name : ident) (len : Z)     (* add_fp of a file with the signature *)
(* add_isohybrid(part_entry, mbr_id, part_offset, geometry_sectors, geometry_heads, part_type, mac,
   efi); [g] = the eight uuid4() results *)
| HAddHybrid (part_entry mbr_id part_offset gsect gheads : Z) (part_type : option Z) (mac : bool)
             (efi : option bool) (g : GUIDS * GUIDS)
| HRmHybrid
| HWrite.

Definition with_b (s : hstate) (b : bstate) : hstate := {| hb := b; hsigs := hsigs s; hhyb := hhyb s |}.
Definition with_hyb (s : hstate) (y : option hybrid) : hstate := {| hb := hb s; hsigs := hsigs s; hhyb := y |}.

(* ---- add_isohybrid ---------------------------------------------------------------------------- *)

(* for sec in sections: if sec.platform_id == 0xef: num_efi_entries += len(sec.section_entries) *)
Definition num_efi_entries (c : et_catalog) : Z :=
  fold_left (fun n h => if h_platform_id h =? 239 then n + zlen (h_entries h) else n) (c_sections c) 0.

Definition hstep_add_hybrid_gen (fp : bool) (s : hstate) (part_entry mbr_id part_offset gsect gheads : Z)
           (part_type : option Z) (mac : bool) (efi : option bool) (g : GUIDS * GUIDS) : hstate * outcome :=
  match bboot (hb s) with
  | None => (s, Ref)                        (* 'The ISO must have an El Torito Boot Record ...' *)
  | Some b =>
      if negb (e_sector_count (c_initial (bcat b)) =? 4) then (s, Ref) else
      match (match efi with
             | Some e => if negb e && mac then None else Some e   (* 'If mac is True, efi must ...' *)
             | None => Some mac
             end) with
      | None => (s, Ref)
      | Some efi =>
          let n := num_efi_entries (bcat b) in
          if efi && (n <? 1) then (s, Ref) else
          if mac && (n <? 2) then (s, Ref) else
          (* d0ed30b: 'The partition entry can only be between 1 and 4, inclusive' *)
          if fp && ((part_entry <? 1) || (4 <? part_entry)) then (s, Ref) else
          let part_type := match part_type with
                           | Some p => p
                           | None => if mac || efi then 0 else 23
                           end in
          match binos b with
          | [] => (s, Ref)                                          (* unreachable *)
          | i :: _ =>
              if negb (mem i (hsigs s)) then (s, Ref)               (* 'Invalid signature on boot file' *)
              (* d0ed30b, IsoHybrid.new (after its geometry / part_type refusals, which refuse as
                 well): 'Partition entry 2 is taken by the EFI partition and entry 3 by the Mac ...' *)
              else if fp && ((efi && (part_entry =? 2)) || (mac && (part_entry =? 3))) then (s, Ref)
              else
                match hy_new efi mac part_entry mbr_id part_offset gsect gheads part_type (fst g) (snd g) with
                | None => (s, Ref)                                  (* IsoHybrid.new refuses *)
                | Some y => (with_hyb s (Some y), Acc)
                end
          end
      end
  end.

Definition hstep_add_hybrid := hstep_add_hybrid_gen true.

(* ---- the hybrid part of _reshuffle_extents --------------------------------------------------- *)

(* (inode, (platform id, sector_count)) of the initial entry, the section entries, the standalone
   entries -- the order of the _add_entry_to_enc_list calls *)
Definition entry_descr (c : et_catalog) : list (Z * Z) :=
  let pf0 := v_platform_id (c_validation c) in
  (pf0, e_sector_count (c_initial c))
    :: flat_map (fun h => map (fun e => (h_platform_id h, e_sector_count e)) (h_entries h)) (c_sections c)
    ++ map (fun e => (pf0, e_sector_count e)) (c_standalone c).
(* (index of the entry, (inode, (platform id, sector_count))): the index stands for id(enc.entry) *)
Definition hentry : Type := (nat * (nat * (Z * Z)))%type.
Definition hentries (b : boot) : list hentry :=
  let l := combine (binos b) (entry_descr (bcat b)) in combine (seq 0 (length l)) l.

Definition henc : Type := (ident * hentry)%type.
Fixpoint hinsort (x : henc) (l : list henc) : list henc :=
  match l with
  | [] => [x]
  | y :: r => if bytes_ltb (fst x) (fst y) then x :: l else y :: hinsort x r
  end.
Definition henc_add (root : lnode) (acc : list henc) (e : hentry) : list henc :=
  match linked_names (fst (snd e)) root with
  | [] => hinsort (dummy_name, e) acc
  | names => fold_left (fun a nm => hinsort (nm, e) a) names acc
  end.
Definition henc_list (root : lnode) (es : list hentry) : list henc := fold_left (henc_add root) es [].

(* loop state: seen_entries, linked_inodes, num_seen_efi, the hybrid object, "no exception so far" *)
Record pst := mk_pst { p_ents : list nat; p_seen : list nat; p_nefi : Z; p_hy : hybrid; p_ok : bool }.

Definition hy_update_rba (y : hybrid) (ext : Z) : hybrid :=
  mk_hy (ih_update_rba (hy_ih y) ext) (hy_pri y) (hy_sec y).

(* [fx] = true: 07829f6 (update_efi only `if num_seen_efi == 0 and isohybrid_mbr.efi`, update_mac
   only `elif num_seen_efi == 1 and isohybrid_mbr.mac`, no 'Only expected two EFI sections';
   num_seen_efi counts every 0xef enc that is processed); [fx] = false: the tree before it
   (update_efi / update_mac called unguarded, a third 0xef entry raises).
   [fp] = true: b44c076 (an enc whose inode is already placed is not skipped: for platform 0xef it
   runs the update_efi / update_mac rule with entry_extent = inode.extent_location() and counts in
   num_seen_efi; update_rba only for an enc that is NOT placed; set_data_location / _set_inode
   skipped); [fp] = false: `if id(enc.entry.inode) in linked_inodes: continue`.
   ed6ec41 (follow-up of b44c076): `if id(enc.entry) in seen_entries: continue` -- the encs of ONE
   entry (a boot file with several names) are handled once, the first in sort order.  Without
   b44c076 the later encs of an entry were skipped anyway (their inode is placed), so the test is
   applied under every switch.
   [fp] = true also selects the later repairs d0ed30b (add_isohybrid refuses part_entry outside
   1..4, entry 2 with efi, entry 3 with mac) and 9b70343 (update_rba only for the enc of the
   INITIAL entry -- index 0 --, placed or not, when its platform is 0; before: for every platform-0
   enc that is not placed).
   The current tree is [true true]; the other combinations are kept for the *_old witnesses. *)
Definition push_step_gen (fx fp : bool) (s : bstate) (st : pst) (e : henc) : pst :=
  if negb (p_ok st) then st else
  let k := fst (snd e) in
  let i := fst (snd (snd e)) in
  let pf := fst (snd (snd (snd e))) in
  let sc := snd (snd (snd (snd e))) in
  if mem k (p_ents st) then st else
  let ents := k :: p_ents st in
  let placed := mem i (p_seen st) in
  if placed && negb fp then mk_pst ents (p_seen st) (p_nefi st) (p_hy st) true else
  let seen := if placed then p_seen st else i :: p_seen st in
  let ext := rba_of s i in                  (* current_extent / inode.extent_location() *)
  let iso_size := lspace (bl s) * C in
  let fail := mk_pst ents (p_seen st) (p_nefi st) (p_hy st) false in
  let h := hy_ih (p_hy st) in
  if pf =? 239 then
    if (p_nefi st =? 0) && (negb fx || ih_efi h) then
      match hy_update_efi (p_hy st) ext sc iso_size with
      | Some y => mk_pst ents seen (p_nefi st + 1) y true
      | None => fail                        (* 'Attempted to set EFI lba on a non-EFI ISO' (old) *)
      end
    else if (p_nefi st =? 1) && (negb fx || ih_mac h) then
      match hy_update_mac (p_hy st) ext sc with
      | Some y => mk_pst ents seen (p_nefi st + 1) y true
      | None => fail                        (* 'Attempted to set Mac lba on a non-Mac ISO' (old) *)
      end
    else if fx then mk_pst ents seen (p_nefi st + 1) (p_hy st) true
    else fail                               (* 'Only expected two EFI sections' (old) *)
  else if (pf =? 0) && (if fp then Nat.eqb k 0 else negb placed)
       then mk_pst ents seen (p_nefi st) (hy_update_rba (p_hy st) ext) true
  else mk_pst ents seen (p_nefi st) (p_hy st) true.

Definition push_gen (fx fp : bool) (s : bstate) (y : hybrid) : pst :=
  match bboot s with
  | Some b => fold_left (push_step_gen fx fp s) (henc_list (lroot (bl s)) (hentries b)) (mk_pst [] [] 0 y true)
  | None => mk_pst [] [] 0 y true
  end.
Definition push_step := push_step_gen true true.
Definition push := push_gen true true.

(* ---- what the written image says -------------------------------------------------------------- *)

Definition b2z (b : bool) : Z := if b then 1 else 0.
Definition iso_size_of (s : hstate) : Z := lspace (bl (hb s)) * C.

(* the active partition entry survives in the table unless slot 2 / 3 is taken by EFI / Mac *)
Definition active_visible (h : isohybrid) : bool :=
  (1 <=? ih_part_entry h) && (ih_part_entry h <=? 4) &&
  negb ((ih_part_entry h =? 2) && ih_efi h) && negb ((ih_part_entry h =? 3) && ih_mac h).

Definition ghdr_view (g : gpt_header) : list Z :=
  [gh_current_lba g; gh_backup_lba g; gh_first_usable g; gh_last_usable g; gh_pe_lba g; gh_num_parts g].
Definition parts_view (ps : list gpt_part) : list Z :=
  flat_map (fun p => [gp_first_lba p; gp_last_lba p]) ps.
Definition apm_view (l : list apm_part) : list Z :=
  flat_map (fun a => [apm_map_count a; apm_start_block a; apm_block_count a]) l.

(* length of secondary_gpt.record(): the 128-byte slots and the header *)
Definition sec_len (y : hybrid) : Z := gh_num_parts (g_header (hy_sec y)) * 128 + 512.

Definition image_len (y : hybrid) (iso_size : Z) : Z :=
  let padded := iso_size + Z.max 0 (ih_padlen (hy_ih y) iso_size) in
  if ih_efi (hy_ih y) then Z.max padded (secondary_write_offset (hy_sec y) + sec_len y) else padded.

Record hview := mk_view {
  v_len : Z;                (* length of the written image *)
  v_active : list Z;        (* [] (no 0x80 entry) or [slot; start; sectors; bhead; bsect; bcyle; ptype; ehead; esect; ecyle] *)
  v_rba : Z; v_mbr_id : Z;
  v_efi : list Z;           (* [] or [lba (512-byte sectors); count] of MBR slot 2 *)
  v_mac : list Z;           (* [] or [lba; count] of MBR slot 3 *)
  v_pri : list Z; v_pri_parts : list Z; v_apm : list Z;      (* primary GPT header / entries / APM *)
  v_sec_at : Z;             (* byte offset where the backup array is written *)
  v_sec : list Z; v_sec_parts : list Z }.

Definition view_of (y : hybrid) (iso_size : Z) : hview :=
  let h := hy_ih y in
  let cc := ih_cc h iso_size in
  mk_view (image_len y iso_size)
    (if active_visible h
     then [ih_part_entry h; ih_part_offset h; ih_psize h iso_size; ih_bhead h; ih_bsect h; ih_bcyle h;
           ih_ptype h; ih_ehead h; chs_esect (ih_sectors h) cc; chs_ecyle cc]
     else [])
    (ih_rba h) (ih_mbr_id h)
    (if ih_efi h then [ih_efi_lba h * 4; ih_efi_count h] else [])
    (if ih_mac h then [ih_mac_lba h * 4; ih_mac_count h] else [])
    (if ih_efi h then ghdr_view (g_header (hy_pri y)) else [])
    (if ih_efi h then parts_view (g_parts (hy_pri y)) else [])
    (if ih_efi h then apm_view (g_apm (hy_pri y)) else [])
    (if ih_efi h then secondary_write_offset (hy_sec y) else -1)
    (if ih_efi h then ghdr_view (g_header (hy_sec y)) else [])
    (if ih_efi h then parts_view (g_parts (hy_sec y)) else []).

(* _write_fp succeeds: every struct.pack of record() / secondary_gpt.record() accepts its values
   and the seek before the backup GPT is not negative *)
Definition record_ok (y : hybrid) (iso_size : Z) : bool :=
  match hy_record y iso_size with
  | None => false
  | Some _ =>
      if ih_efi (hy_ih y)
      then (0 <=? secondary_write_offset (hy_sec y)) &&
           match gpt_record (hy_sec y) with Some _ => true | None => false end
      else true
  end.

(* the view of the image written by the LAST HWrite, for a state right after it *)
Definition hybrid_view (s : hstate) : option hview :=
  match hhyb s with
  | Some y => if record_ok y (iso_size_of s) then Some (view_of y (iso_size_of s)) else None
  | None => None
  end.

(* ---- step ------------------------------------------------------------------------------------- *)

Definition hstep_write_gen (fx fp : bool) (s : hstate) : hstate * outcome :=
  if bwreck (hb s) then (s, Ref) else
  match hhyb s with
  | None => (s, Acc)
  | Some y =>
      let r := push_gen fx fp (hb s) y in
      let s' := with_hyb s (Some (p_hy r)) in
      if p_ok r && record_ok (p_hy r) (iso_size_of s) then (s', Acc) else (s', Late)
  end.

Definition is_rm_eltorito (o : bop) : bool := match o with BRmEltorito => true | _ => false end.

(* [fx] also selects 09176f7: an accepted rm_eltorito sets self.isohybrid_mbr = None *)
Definition hstep_gen (fx fp : bool) (s : hstate) (o : hop) : hstate * outcome :=
  match o with
  | HBase o =>
      let r := bstep (hb s) o in
      (match snd r with
       | Acc => if fx && is_rm_eltorito o then {| hb := fst r; hsigs := hsigs s; hhyb := None |}
                else with_b s (fst r)
       | _ => with_b s (fst r)
       end, snd r)
  | HAddSigFile d n len =>
      let r := bstep (hb s) (BAddFile d n len) in
      match snd r with
      | Acc => ({| hb := fst r;
                   hsigs := if 68 <=? len then lnext (bl (hb s)) :: hsigs s else hsigs s;
                   hhyb := hhyb s |}, Acc)
      | o' => (with_b s (fst r), o')
      end
  | HAddHybrid pe id po gs gh pt mac efi g =>
      if bwreck (hb s) then (s, Ref) else hstep_add_hybrid_gen fp s pe id po gs gh pt mac efi g
  | HRmHybrid => (with_hyb s None, Acc)
  | HWrite => hstep_write_gen fx fp s
  end.

Definition hrun_gen (fx fp : bool) (s : hstate) (ops : list hop) : hstate :=
  fold_left (fun s o => fst (hstep_gen fx fp s o)) ops s.

(* the current code; the tree before 07829f6 / 09176f7 / b44c076; the tree before b44c076 only *)
Definition hstep_write := hstep_write_gen true true.
Definition hstep := hstep_gen true true.
Definition hrun := hrun_gen true true.
Definition hstep_old := hstep_gen false false.
Definition hrun_old := hrun_gen false false.
Definition hstep_old2 := hstep_gen true false.
Definition hrun_old2 := hrun_gen true false.

(* ---- harness ---------------------------------------------------------------------------------- *)

Definition view_list (v : hview) : list (list Z) :=
  [[v_len v]; v_active v; [v_rba v; v_mbr_id v]; v_efi v; v_mac v; v_pri v; v_pri_parts v; v_apm v;
   [v_sec_at v]; v_sec v; v_sec_parts v].

(* a case: the operations with their outcome codes (1 accepted, 0 refused, 2 refused late; for
   HWrite 1 = written, anything else = raised), and after every accepted HWrite of a hybrid image
   the decoded image ([] when the image is not a hybrid) *)
Definition hcase : Type := list (hop * Z * list (list Z)).

Definition is_write (o : hop) : bool := match o with HWrite => true | _ => false end.

Fixpoint hcheck_from (s : hstate) (c : hcase) : bool :=
  match c with
  | [] => true
  | (o, code, expected) :: r =>
      let s' := fst (hstep s o) in
      let oc := out_code (snd (hstep s o)) in
      (if is_write o then Bool.eqb (oc =? 1) (code =? 1) else oc =? code) &&
      (if is_write o && (oc =? 1)
       then match hybrid_view s' with
            | Some v => list_eqb (list_eqb Z.eqb) (view_list v) expected
            | None => match expected with [] => true | _ => false end
            end
       else true) &&
      hcheck_from s' r
  end.
Definition hcheck_case (c : hcase) : bool := hcheck_from hinit c.

Fixpoint bad_hybridhist_cases (k : nat) (cs : list hcase) : list nat :=
  match cs with
  | [] => []
  | c :: r => if hcheck_case c then bad_hybridhist_cases (S k) r else k :: bad_hybridhist_cases (S k) r
  end.

Definition hh_noguid : GUIDS * GUIDS :=
  ((repeat 0 16, repeat 0 16, repeat 0 16, repeat 0 16), (repeat 0 16, repeat 0 16, repeat 0 16, repeat 0 16)).
