(* How pycdlib numbers directories and builds the ISO9660 path tables.  Definitions only; proofs
   are in Proofs/PathTableProofs.v.

   Sources modelled (statement by statement):
     /repo/pycdlib/pycdlib.py   _reassign_vd_dirrecord_extents (deque walk)   -> go / reassign
     /repo/pycdlib/pycdlib.py   PyCdlib._write_directory_records (PTR part)   -> wgo / write_order
     /repo/pycdlib/dr.py        DirectoryRecord.__lt__ (children kept sorted)  -> name_ltb / sorted_tree
     /repo/pycdlib/dr.py        set_data_location (updates ptr.extent_location)-> d_extent
     /repo/pycdlib/path_table_record.py  new_root / new_dir / _new             -> ptrec_of (xattr 0)
     /repo/pycdlib/pycdlib.py   _parse_path_table                              -> parse_ptable
     /repo/pycdlib/headervd.py  path_tbl_size = 10, add_to_ptr_size            -> track_add (GenFun)

   THIS pycdlib has no [directory_num] attribute and no sort of path table records: a record's
   directory number is only its POSITION in the written table.  The table is written by a second
   breadth-first walk (_write_directory_records) over the same sorted [children] lists, while the
   parent numbers stored in the records were computed by the first walk
   (_reassign_vd_dirrecord_extents, counter [ptr_index]).

   A directory tree: identifier, number of logical blocks of the directory extent
   (= ceiling_div(data_length, logical_block_size)), child DIRECTORIES in the order of
   [dir_record.children] (which DirectoryRecord._add_child keeps sorted with __lt__).
   Tree literal format for the harness:   Node [65] 1 [Node [66] 1 []]
   the root is  Node [0] blocks kids  (new_root: identifier b'\x00'). *)
From Coq Require Import ZArith List Bool.
From PV.Base Require Import Prim.
From PV.Gen Require Import GenConst GenFun.
From PV.Model Require Import Codec.
Import ListNotations.
Local Open Scope Z_scope.

Inductive dtree := Node (name : list Z) (blocks : Z) (kids : list dtree).

Definition tname (t : dtree) : list Z := match t with Node n _ _ => n end.
Definition tblocks (t : dtree) : Z := match t with Node _ b _ => b end.
Definition tkids (t : dtree) : list dtree := match t with Node _ _ k => k end.

Fixpoint tsize (t : dtree) : nat :=
  match t with Node _ _ ks => S (list_sum (map tsize ks)) end.

Definition sumZ (l : list Z) : Z := fold_right Z.add 0 l.

(* total number of blocks of all directory extents *)
Fixpoint tree_blocks (t : dtree) : Z :=
  match t with Node _ b ks => b + sumZ (map tree_blocks ks) end.

(* Sum of PathTableRecord.record_length(len_di) over all directories *)
Fixpoint tree_ptr_size (t : dtree) : Z :=
  match t with Node n _ ks => ptr_record_length (zlen n) + sumZ (map tree_ptr_size ks) end.

(* the directory at a position (list of child indices from the root) *)
Fixpoint subtree (t : dtree) (pos : list nat) : option dtree :=
  match pos with
  | [] => Some t
  | i :: p => match nth_error (tkids t) i with Some k => subtree k p | None => None end
  end.

(* all full paths (lists of identifiers from the root, the root being []) of the directories *)
Fixpoint tree_paths (path : list (list Z)) (t : dtree) : list (list (list Z)) :=
  match t with
  | Node _ _ ks => path :: concat (map (fun k => tree_paths (path ++ [tname k]) k) ks)
  end.

(* ---- order of children: DirectoryRecord.__lt__ for identifiers other than '.'/'..' is Python's
        bytes '<' : lexicographic on unsigned bytes, a proper prefix is smaller ------------------ *)
Fixpoint name_ltb (a b : list Z) : bool :=
  match a, b with
  | _, [] => false
  | [], _ :: _ => true
  | x :: a', y :: b' => if x <? y then true else if y <? x then false else name_ltb a' b'
  end.

Fixpoint names_sortedb (l : list (list Z)) : bool :=
  match l with
  | [] => true
  | a :: r => match r with [] => true | b :: _ => name_ltb a b end && names_sortedb r
  end.

(* every children list is strictly increasing (bisect insertion + duplicate refusal) *)
Fixpoint sorted_tree (t : dtree) : bool :=
  match t with Node _ _ ks => names_sortedb (map tname ks) && forallb sorted_tree ks end.

(* ECMA-119 6.9.1 comparison of Directory Identifiers: the shorter one is padded with (20) *)
Fixpoint vs_spaces (a : list Z) : comparison :=
  match a with
  | [] => Eq
  | x :: a' => match x ?= 32 with Eq => vs_spaces a' | c => c end
  end.
Fixpoint ecma_cmp (a b : list Z) : comparison :=
  match a, b with
  | [], _ => CompOpp (vs_spaces b)
  | _, [] => vs_spaces a
  | x :: a', y :: b' => match x ?= y with Eq => ecma_cmp a' b' | c => c end
  end.

(* ---- _reassign_vd_dirrecord_extents -------------------------------------------------------- *)

(* what the walk leaves in a directory: its position in visiting order (the value of ptr_index
   when it was popped), ptr.parent_directory_num, ptr.directory_identifier, its blocks,
   new_extent_loc = ptr.extent_location (set_data_location sets both), its tree position and its
   full path *)
Record dirrec := mk_dirrec {
  d_num : Z; d_parent : Z; d_name : list Z; d_blocks : Z; d_extent : Z;
  d_pos : list nat; d_path : list (list Z) }.

(* a queued directory record: the record, the parent_directory_num written into its ptr when its
   parent was popped, its tree position, its path *)
Definition qitem : Type := (dtree * Z * list nat * list (list Z))%type.

(* for child in dir_record.children: child.ptr.update_parent_directory_number(ptr_index)
   ... dirs.extend(dir_record.children) *)
Fixpoint child_items_from (i : nat) (ks : list dtree) (ptr_index : Z) (pos : list nat)
         (path : list (list Z)) : list qitem :=
  match ks with
  | [] => []
  | k :: r => (k, ptr_index, pos ++ [i], path ++ [tname k])
              :: child_items_from (S i) r ptr_index pos path
  end.
Definition child_items := child_items_from 0%nat.

(* while dirs: dir_record = dirs.popleft()
     if dir_record.is_dir():
         dir_record.set_data_location(current_extent, current_extent)
         for child in children: child.ptr.update_parent_directory_number(ptr_index)
         ptr_index += 1
         current_extent += ceiling_div(dir_record.data_length, log_block_size)
         dirs.extend(dir_record.children)
   returns the visited directories in order and the final current_extent *)
Fixpoint go (fuel : nat) (q : list qitem) (ptr_index cur : Z) : list dirrec * Z :=
  match fuel with
  | O => ([], cur)
  | S f =>
      match q with
      | [] => ([], cur)
      | (Node nm bl ks, pn, pos, path) :: q' =>
          let res := go f (q' ++ child_items ks ptr_index pos path) (ptr_index + 1) (cur + bl) in
          (mk_dirrec ptr_index pn nm bl cur pos path :: fst res, snd res)
      end
  end.

Definition qsize (q : list qitem) : nat :=
  list_sum (map (fun it : qitem => tsize (fst (fst (fst it)))) q).

(* root_dir_record.set_data_location(current_extent, 0); current_extent += ceiling_div(root...)
   ptr_index = 1; the root is popped first (is_root branch): its children get parent number 1,
   ptr_index becomes 2.  The root's own ptr keeps parent_directory_num = 1 from new_root(). *)
Definition reassign (start : Z) (t : dtree) : list dirrec * Z :=
  match t with
  | Node nm bl ks =>
      let q := child_items ks 1 [] [] in
      let res := go (qsize q) q 2 (start + bl) in
      (mk_dirrec 1 1 nm bl start [] [] :: fst res, snd res)
  end.

Definition bfs (start : Z) (t : dtree) : list dirrec := fst (reassign start t).
Definition assign_extents (start : Z) (t : dtree) : list Z := map d_extent (bfs start t).
Definition assign_end (start : Z) (t : dtree) : Z := snd (reassign start t).

(* ---- _write_directory_records: dirs = deque([root]); curr = popleft(); write curr.ptr;
        for child in curr.children: if child.is_dir() and not dot/dotdot: dirs.append(child) ---- *)
Fixpoint child_pos_from (i : nat) (ks : list dtree) (pos : list nat) : list (dtree * list nat) :=
  match ks with
  | [] => []
  | k :: r => (k, pos ++ [i]) :: child_pos_from (S i) r pos
  end.

Fixpoint wgo (fuel : nat) (q : list (dtree * list nat)) : list (list nat) :=
  match fuel with
  | O => []
  | S f =>
      match q with
      | [] => []
      | (Node _ _ ks, pos) :: q' => pos :: wgo f (q' ++ child_pos_from 0%nat ks pos)
      end
  end.

(* tree positions of the directories in the order their path table records are written *)
Definition write_order (t : dtree) : list (list nat) := wgo (tsize t) [(t, [])].

(* ---- the path table ------------------------------------------------------------------------ *)

(* (len_di, extent, parent number, identifier) *)
Definition ptuple : Type := (Z * Z * Z * list Z)%type.
Definition rec_tuple (r : dirrec) : ptuple := (zlen (d_name r), d_extent r, d_parent r, d_name r).

(* records in written order; by Proofs.write_order_is_bfs the i-th written directory is the i-th
   directory of the numbering walk *)
Definition ptable (start : Z) (t : dtree) : list ptuple := map rec_tuple (bfs start t).

(* _new: xattr_length = 0, len_di = len(name) *)
Definition ptrec_of (r : dirrec) : ptrec := mk_ptrec 0 (d_extent r) (d_parent r) (d_name r).

Fixpoint opt_concat (l : list (option (list Z))) : option (list Z) :=
  match l with
  | [] => Some []
  | o :: r => match o, opt_concat r with Some a, Some b => Some (a ++ b) | _, _ => None end
  end.

Definition ptable_bytes_le (start : Z) (t : dtree) : option (list Z) :=
  opt_concat (map (fun r => enc_ptr_le (ptrec_of r)) (bfs start t)).
Definition ptable_bytes_be (start : Z) (t : dtree) : option (list Z) :=
  opt_concat (map (fun r => enc_ptr_be (ptrec_of r)) (bfs start t)).

Definition ptable_size (t : dtree) : Z := tree_ptr_size t.

(* headervd: path_tbl_size = 10, path_table_num_extents = ceiling_div(10, 4096) * 2 at new();
   _add_to_ptr_size: vd.add_to_ptr_size(PathTableRecord.record_length(ptr.len_di)) per add_directory *)
Definition track_init : Z * Z := (10, ceiling_div 10 4096 * 2).
Definition track_add (st : Z * Z) (len_di : Z) : Z * Z :=
  let '(_, s, e) := add_to_ptr_size (fst st) (snd st) (ptr_record_length len_di) in (s, e).
Definition track_remove (st : Z * Z) (len_di : Z) : option (Z * Z) :=
  match remove_from_ptr_size (fst st) (snd st) (ptr_record_length len_di) with
  | Some (_, s, e) => Some (s, e)
  | None => None
  end.

(* ---- an independent reader ----------------------------------------------------------------- *)

(* rebuild every directory's full path from the table alone: record 1 is the root (parent 1);
   record i > 1 names a parent j with 1 <= j < i; path(i) = path(j) ++ [identifier(i)].
   None when a parent number does not point to an earlier record. *)
Fixpoint reader_go (acc : list (list (list Z))) (tbl : list ptuple) : option (list (list (list Z))) :=
  match tbl with
  | [] => Some acc
  | (_, _, par, id) :: rest =>
      match acc with
      | [] => if par =? 1 then reader_go [[]] rest else None
      | _ => if (1 <=? par) && (par <=? zlen acc)
             then reader_go (acc ++ [nth (Z.to_nat (par - 1)) acc [] ++ [id]]) rest
             else None
      end
  end.
Definition reader_tree_of_ptable (tbl : list ptuple) : option (list (list (list Z))) :=
  reader_go [] tbl.

(* _parse_path_table: while offset < ptr_size: read_len = record_length(data[offset]); parse *)
Fixpoint parse_ptable (fuel : nat) (s : list Z) : option (list ptrec) :=
  match s with
  | [] => Some []
  | _ :: _ =>
      match fuel with
      | O => None
      | S f => match dec_ptr_le s with
               | Some (r, rest) => match parse_ptable f rest with
                                   | Some rs => Some (r :: rs)
                                   | None => None
                                   end
               | None => None
               end
      end
  end.
Definition tuple_of_ptrec (r : ptrec) : ptuple :=
  (zlen (pt_dirid r), pt_extent r, pt_parent r, pt_dirid r).
Definition reader_of_bytes (s : list Z) : option (list (list (list Z))) :=
  match parse_ptable (length s) s with
  | Some rs => reader_tree_of_ptable (map tuple_of_ptrec rs)
  | None => None
  end.

(* ---- the ECMA-119 6.9.1 order as an executable check on a table with known levels ----------- *)
Definition key : Type := (nat * Z * list Z)%type.
Definition rkey (r : dirrec) : key := (length (d_pos r), d_parent r, d_name r).
Definition key_ltb (idlt : list Z -> list Z -> bool) (a b : key) : bool :=
  let '(l1, p1, n1) := a in
  let '(l2, p2, n2) := b in
  (l1 <? l2)%nat || ((l1 =? l2)%nat && ((p1 <? p2) || ((p1 =? p2) && idlt n1 n2))).
Definition ecma_ltb (a b : list Z) : bool := match ecma_cmp a b with Lt => true | _ => false end.
Definition ecma_leb (a b : list Z) : bool := match ecma_cmp a b with Gt => false | _ => true end.
Fixpoint keys_sortedb (lt : key -> key -> bool) (l : list key) : bool :=
  match l with
  | [] => true
  | a :: r => match r with [] => true | b :: _ => lt a b end && keys_sortedb lt r
  end.

(* ---- helpers for the external harness ------------------------------------------------------ *)
Fixpoint zlist_list_eqb (a b : list ptuple) : bool :=
  match a, b with
  | [], [] => true
  | (l1, e1, p1, n1) :: a', (l2, e2, p2, n2) :: b' =>
      (l1 =? l2) && (e1 =? e2) && (p1 =? p2) && zlist_eqb n1 n2 && zlist_list_eqb a' b'
  | _, _ => false
  end.

(* [expected_records]: (len_di, extent, parent, identifier) parsed from the L path table that
   write_fp produced, in written order; [start] = extent of the root directory *)
Definition check_ptable_case (t : dtree) (start : Z) (expected_records : list ptuple) : bool :=
  zlist_list_eqb (ptable start t) expected_records.

(* same, plus the raw bytes of the L and M tables *)
Definition check_ptable_bytes_case (t : dtree) (start : Z) (le be : list Z) : bool :=
  opt_bytes_eqb (ptable_bytes_le start t) le && opt_bytes_eqb (ptable_bytes_be start t) be.

Fixpoint bad_ptable_cases (k : nat) (cs : list (dtree * Z * list ptuple)) : list nat :=
  match cs with
  | [] => []
  | (t, s, e) :: r =>
      if check_ptable_case t s e then bad_ptable_cases (S k) r else k :: bad_ptable_cases (S k) r
  end.
