(* Byte-level models of record() (encode) / parse() (decode) / new() of the UDF structures of
   /repo/pycdlib/udf.py that carry a file's name, location and length.  Definitions only; the
   proofs are in Proofs/UdfProofs.v and Proofs/UdfFeProofs.v.

   Sources modelled (statement by statement):
     UDFTag.new / record / parse                         -> tag_new / tag_record / tag_parse
     UDFShortAD.new / record / parse                     -> shortad_new / shortad_record / shortad_parse
     UDFLongAD.new / record / parse / set_extent_location-> longad_new / longad_record / longad_parse / longad_set_loc
     UDFInlineAD.record / parse / length                 -> the ADInline case of ad_record / parse_ads / ad_length
     UDFLBAddr.record / parse, UDFICBTag.new/record/parse-> lbaddr_parse, icb_new / icb_record / icb_parse
     UDFFileIdentifierDescriptor.new / record / parse    -> fid_new / fid_record / fid_parse_body
     udf.parse_file_ident                                -> fid_parse
     UDFFileEntry.record / parse, udf.parse_file_entry   -> fe_record / fe_parse_body / fe_parse
     UDFFileEntry.new (length part), set_data_location,
       set_data_length, _parse_allocation_descriptors    -> fe_new_file / fe_new_dir, ads_set_location,
                                                            fe_set_data_length, parse_ads
   UDFFileIdentifierDescriptor.length / pad and crc_ccitt / _compute_csum are the GENERATED
   udf_fid_length / udf_fid_pad / crc_ccitt / udf_compute_csum of Gen/GenFun.v.

   bytes = list Z (0..255); an exception (struct.error, IndexError, PyCdlibInvalidISO,
   PyCdlibInternalError, PyCdlibInvalidInput) is [None].  The FMT widths of UDFTag and of the File
   Identifier Descriptor are the generated ones of GenConst.v; the other FMT strings are
   transcribed by hand below (fmt_udf_*_widths).
   Not modelled: the three UDFTimestamp and the UDFEntityID of a File Entry are opaque byte strings
   (12, 12, 12, 32 bytes; their parse-time range checks are not modelled); the utf-8 -> latin-1 /
   utf-16_be step of UDFFileIdentifierDescriptor.new is an input (encoding, encoded identifier);
   orig_extent_loc / new_extent_loc / parent / file_entry / inode bookkeeping; the "all bytes zero"
   early return of parse_file_entry. *)
From Coq Require Import ZArith List Bool.
From PV.Base Require Import Prim.
From PV.Gen Require Import GenConst GenFun.
From PV.Model Require Import Codec Checksums.
Import ListNotations.
Local Open Scope Z_scope.

(* ---- struct 'Q' ---------------------------------------------------------------------------- *)
Definition le64 (v : Z) : list Z := le32 (v mod 4294967296) ++ le32 (v / 4294967296).
Definition dle64 (l : list Z) : Z := dle32 (firstn 4 l) + 4294967296 * dle32 (skipn 4 l).
Definition u64_ok (v : Z) : bool := (0 <=? v) && (v <=? 18446744073709551615).

(* hand-transcribed FMT strings *)
Definition fmt_udf_shortad_widths : list Z := [4; 4].                     (* UDFShortAD.FMT = '<LL' *)
Definition fmt_udf_longad_widths : list Z := [4; 4; 2; 6].                (* UDFLongAD.FMT = '<LLH6s' *)
Definition fmt_udf_lbaddr_widths : list Z := [4; 2].                      (* UDFLBAddr.FMT = '<LH' *)
Definition fmt_udf_icbtag_widths : list Z := [4; 2; 2; 2; 1; 1; 6; 2].    (* UDFICBTag.FMT = '<LHHHBB6sH' *)
(* UDFFileEntry.FMT = '<16s20sLLLHBBLQQ12s12s12sL16s32sQLL' *)
Definition fmt_udf_fe_widths : list Z :=
  [16; 20; 4; 4; 4; 2; 1; 1; 4; 8; 8; 12; 12; 12; 4; 16; 32; 8; 4; 4].
Definition fmt_udf_fe_size : Z := 176.

(* ---- (a) UDFTag ---------------------------------------------------------------------------- *)
(* tg_crclen is the desc_crc_length attribute: -1 after __init__/new, the parsed value after parse *)
Record utag := mk_utag { tg_ident : Z; tg_version : Z; tg_serial : Z; tg_location : Z; tg_crclen : Z }.
Definition tag_new (tag_ident tag_serial : Z) : utag := mk_utag tag_ident 2 tag_serial 0 (-1).
(* crc_byte_len = len(crc_bytes); if self.desc_crc_length >= 0: crc_byte_len = self.desc_crc_length *)
Definition tag_crc_byte_len (t : utag) (crc_bytes : list Z) : Z :=
  if 0 <=? tg_crclen t then tg_crclen t else zlen crc_bytes.

Definition tag_fields (t : utag) (csum crc crclen : Z) : list (list Z) :=
  [le16 (tg_ident t); le16 (tg_version t); [csum]; [0]; le16 (tg_serial t); le16 crc; le16 crclen;
   le32 (tg_location t)].

Definition tag_record (t : utag) (crc_bytes : list Z) : option (list Z) :=
  let crc_byte_len := tag_crc_byte_len t crc_bytes in
  let crc := crc_ccitt (firstn (Z.to_nat crc_byte_len) crc_bytes) in
  if u16_ok (tg_ident t) && u16_ok (tg_version t) && u16_ok (tg_serial t) && u16_ok crc &&
     u16_ok crc_byte_len && u32_ok (tg_location t)
  then let rec := concat (tag_fields t 0 crc crc_byte_len) in
       let csum := udf_compute_csum rec in
       Some (set_nth 4 csum rec)                                   (* ba[4] = csum *)
  else None.

(* parse(data, extent): raises on reserved != 0, checksum mismatch, version not in (2,3), too few
   bytes for the CRC, CRC mismatch; a tag_location different from [extent] is TOLERATED (overwritten) *)
Definition tag_parse (data : list Z) (extent : Z) : option utag :=
  match split_widths (widths fmt_udf_tag_widths) data with
  | Some ([f0; f1; f2; f3; f4; f5; f6; f7], _) =>
      let desc_version := dle16 f1 in
      let desc_crc_length := dle16 f6 in
      if negb (d8 f3 =? 0) then None else
      if negb (udf_compute_csum (firstn 16 data) =? d8 f2) then None else
      let tag_location := if negb (dle32 f7 =? extent) then extent else dle32 f7 in
      if negb ((desc_version =? 2) || (desc_version =? 3)) then None else
      if zlen data - 16 <? desc_crc_length then None else
      if negb (dle16 f5 =? crc_ccitt (slice 16 (16 + desc_crc_length) data)) then None else
      Some (mk_utag (dle16 f0) desc_version (dle16 f4) tag_location desc_crc_length)
  | _ => None
  end.

(* an INDEPENDENT verifier of descriptor ++ body (ECMA-167 3/7.2): byte 4 is the sum mod 256 of
   bytes 0-3 and 5-15, and the CRC field is the bitwise CRC-16 (polynomial 0x1021, Model/Checksums.v)
   of the DescriptorCRCLength bytes that follow the tag, all of which must be present *)
Definition verify_tag (d : list Z) : bool :=
  let hdr := firstn 16 d in
  let crclen := nth 10 d 0 + 256 * nth 11 d 0 in
  (length hdr =? 16)%nat &&
  ((zsum (firstn 4 hdr) + zsum (skipn 5 hdr)) mod 256 =? nth 4 d 0) &&
  (crclen <=? zlen d - 16) &&
  (crc16_bit (firstn (Z.to_nat crclen) (skipn 16 d)) =? nth 8 d 0 + 256 * nth 9 d 0).

(* the checksum test alone, as done by parse *)
Definition tag_csum_ok (hdr : list Z) : bool := udf_compute_csum hdr =? znth 4 hdr.
(* ---- (b) allocation descriptors -------------------------------------------------------------- *)
Record shortad := mk_shortad { sa_length : Z; sa_type : Z; sa_pos : Z }.
Definition UDF_MAX_AD : Z := 1073739776.  (* 0x3ffff800 *)
(* new(length): raises if length > 0x3fffffff *)
Definition shortad_new (length : Z) : option shortad :=
  if length >? 1073741823 then None else Some (mk_shortad length 0 0).

(* length = self.extent_length | (self.extent_type << 30); struct.pack('<LL', length, log_block_num) *)
Definition shortad_record (a : shortad) : option (list Z) :=
  let length := Z.lor (sa_length a) (Z.shiftl (sa_type a) 30) in
  if u32_ok length && u32_ok (sa_pos a) then Some (le32 length ++ le32 (sa_pos a)) else None.

(* self.extent_length = self.extent_length & 0x3FFFFFFF
   self.extent_type = (self.extent_length & 0xc0000000) >> 30      -- computed AFTER the masking *)
Definition shortad_parse (data : list Z) : option shortad :=
  match split_widths (widths fmt_udf_shortad_widths) data with
  | Some ([f0; f1], _) =>
      let extent_length := Z.land (dle32 f0) 1073741823 in
      let extent_type := Z.shiftr (Z.land extent_length 3221225472) 30 in
      Some (mk_shortad extent_length extent_type (dle32 f1))
  | _ => None
  end.

Record longad := mk_longad { la_length : Z; la_pos : Z; la_part : Z; la_impl : list Z }.
Definition longad_new (length blocknum : Z) : longad := mk_longad length blocknum 0 (repeat 0 6%nat).
Definition longad_fields (a : longad) : list (list Z) :=
  [le32 (la_length a); le32 (la_pos a); le16 (la_part a); pack_s 6 (la_impl a)].
Definition longad_record (a : longad) : option (list Z) :=
  if u32_ok (la_length a) && u32_ok (la_pos a) && u16_ok (la_part a)
  then Some (concat (longad_fields a)) else None.

Definition longad_parse (data : list Z) : option longad :=
  match split_widths (widths fmt_udf_longad_widths) data with
  | Some ([f0; f1; f2; f3], _) => Some (mk_longad (dle32 f0) (dle32 f1) (dle16 f2) f3)
  | _ => None
  end.

(* set_extent_location(new_location, tag_location):
     log_block_num = tag_location ; impl_use = b'\x00\x00' + struct.pack('<L', new_location) *)
Definition longad_set_loc (a : longad) (new_location tag_location : Z) : option longad :=
  if u32_ok new_location
  then Some (mk_longad (la_length a) tag_location (la_part a) ([0; 0] ++ le32 new_location))
  else None.

(* the alloc_descs list of a File Entry; UDFInlineAD carries (extent_length, log_block_num, offset) *)
Inductive ad : Type :=
  | ADShort (a : shortad)
  | ADLong (a : longad)
  | ADInline (extent_length log_block_num offset : Z).

(* desc.length(): 8, 16, and extent_length for the inline descriptor *)
Definition ad_length (d : ad) : Z :=
  match d with ADShort _ => 8 | ADLong _ => 16 | ADInline l _ _ => l end.
(* desc.record(): UDFInlineAD.record() returns b'' *)
Definition ad_record (d : ad) : option (list Z) :=
  match d with ADShort a => shortad_record a | ADLong a => longad_record a | ADInline _ _ _ => Some [] end.
(* desc.extent_length, desc.log_block_num attributes *)
Definition ad_extent_length (d : ad) : Z :=
  match d with ADShort a => sa_length a | ADLong a => la_length a | ADInline l _ _ => l end.
Definition ad_pos (d : ad) : Z :=
  match d with ADShort a => sa_pos a | ADLong a => la_pos a | ADInline _ p _ => p end.
Definition ad_set_extent_length (v : Z) (d : ad) : ad :=
  match d with
  | ADShort a => ADShort (mk_shortad v (sa_type a) (sa_pos a))
  | ADLong a => ADLong (mk_longad v (la_pos a) (la_part a) (la_impl a))
  | ADInline _ p o => ADInline v p o
  end.
Definition ad_set_pos (v : Z) (d : ad) : ad :=
  match d with
  | ADShort a => ADShort (mk_shortad (sa_length a) (sa_type a) v)
  | ADLong a => ADLong (mk_longad (la_length a) v (la_part a) (la_impl a))
  | ADInline l _ o => ADInline l v o
  end.

Fixpoint ads_record (ds : list ad) : option (list Z) :=
  match ds with
  | [] => Some []
  | d :: r => match ad_record d, ads_record r with
              | Some b, Some br => Some (b ++ br)
              | _, _ => None
              end
  end.

(* _parse_allocation_descriptors: "while offset < length: ad.parse(data[offset:]); offset += ad.length()";
   [fuel] exceeds the number of iterations (see parse_ads); running out of it is an error *)
Fixpoint parse_short_ads (fuel : nat) (offset length : Z) (data : list Z) : option (list ad) :=
  match fuel with
  | O => None
  | S f =>
      if offset <? length then
        match shortad_parse (skipn (Z.to_nat offset) data) with
        | Some a => match parse_short_ads f (offset + 8) length data with
                    | Some r => Some (ADShort a :: r)
                    | None => None
                    end
        | None => None
        end
      else Some []
  end.
Fixpoint parse_long_ads (fuel : nat) (offset length : Z) (data : list Z) : option (list ad) :=
  match fuel with
  | O => None
  | S f =>
      if offset <? length then
        match longad_parse (skipn (Z.to_nat offset) data) with
        | Some a => match parse_long_ads f (offset + 16) length data with
                    | Some r => Some (ADLong a :: r)
                    | None => None
                    end
        | None => None
        end
      else Some []
  end.

Definition parse_ads (flags : Z) (data : list Z) (length start_offset extent : Z) : option (list ad) :=
  let k := Z.land flags 7 in
  if k =? 0 then parse_short_ads (Z.to_nat (length / 8 + 2)) 0 length data
  else if k =? 1 then parse_long_ads (Z.to_nat (length / 16 + 2)) 0 length data
  else if k =? 2 then None
  else if k =? 3 then Some [ADInline length extent start_offset]
  else None.

(* ---- (c) UDFICBTag (with its UDFLBAddr parent_icb) ------------------------------------------- *)
Record icbtag := mk_icbtag {
  it_prior : Z; it_strategy_type : Z; it_strategy_param : Z; it_max_entries : Z; it_file_type : Z;
  it_parent_lbn : Z; it_parent_prn : Z; it_flags : Z }.

(* new(file_type): 0 = 'dir', 1 = 'file', 2 = 'symlink'; anything else raises *)
Definition icb_new (file_type : Z) : option icbtag :=
  let mk ft := Some (mk_icbtag 0 4 0 1 ft 0 0 560) in
  if file_type =? 0 then mk 4 else if file_type =? 1 then mk 5 else if file_type =? 2 then mk 12
  else None.

Definition icb_fields (i : icbtag) : list (list Z) :=
  [le32 (it_prior i); le16 (it_strategy_type i); le16 (it_strategy_param i); le16 (it_max_entries i);
   [0]; [it_file_type i]; pack_s 6 (le32 (it_parent_lbn i) ++ le16 (it_parent_prn i)); le16 (it_flags i)].

Definition icb_record (i : icbtag) : option (list Z) :=
  if u32_ok (it_prior i) && u16_ok (it_strategy_type i) && u16_ok (it_strategy_param i) &&
     u16_ok (it_max_entries i) && u8_ok (it_file_type i) && u32_ok (it_parent_lbn i) &&
     u16_ok (it_parent_prn i) && u16_ok (it_flags i)
  then Some (concat (icb_fields i)) else None.

Definition lbaddr_parse (data : list Z) : option (Z * Z) :=
  match split_widths (widths fmt_udf_lbaddr_widths) data with
  | Some ([g0; g1], _) => Some (dle32 g0, dle16 g1)
  | _ => None
  end.

Definition icb_parse (data : list Z) : option icbtag :=
  match split_widths (widths fmt_udf_icbtag_widths) data with
  | Some ([f0; f1; f2; f3; f4; f5; f6; f7], _) =>
      let strategy_type := dle16 f1 in
      if negb ((strategy_type =? 4) || (strategy_type =? 4096)) then None else
      if negb (d8 f4 =? 0) then None else
      match lbaddr_parse f6 with
      | Some (lbn, prn) =>
          Some (mk_icbtag (dle32 f0) strategy_type (dle16 f2) (dle16 f3) (d8 f5) lbn prn (dle16 f7))
      | None => None
      end
  | _ => None
  end.

(* ---- (d) UDFFileIdentifierDescriptor ---------------------------------------------------------- *)
(* fd_encoding: 0 = '' (unset), 8 = 'latin-1', 16 = 'utf-16_be'; fd_fi is the encoded identifier
   WITHOUT its prefix byte (the Python attribute fi) *)
Record fid := mk_fid {
  fd_tag : utag; fd_chars : Z; fd_len_fi : Z; fd_len_impl_use : Z; fd_fi : list Z;
  fd_isdir : bool; fd_isparent : bool; fd_icb : longad; fd_impl_use : list Z; fd_encoding : Z }.

(* new(isdir, isparent, name, parent); (enc, fi) is the result of name.decode('utf-8') encoded as
   latin-1 (enc = 8) or, failing that, utf-16_be (enc = 16) *)
Definition fid_new (isdir isparent : bool) (enc : Z) (fi : list Z) : option fid :=
  let chars := Z.lor (if isdir then 2 else 0) (if isparent then 8 else 0) in
  let len_fi := if isparent then 0 else zlen fi + 1 in
  if 255 <? len_fi then None else
  Some (mk_fid (tag_new 257 0) chars len_fi 0 (if isparent then [] else fi) isdir isparent
               (longad_new 2048 2) [] (if isparent then 0 else enc)).

(* set_extent_location(new_location, tag_location) / set_icb(new_location, tag_location) *)
Definition fid_set_tag_location (f : fid) (tag_location : Z) : fid :=
  let t := fd_tag f in
  mk_fid (mk_utag (tg_ident t) (tg_version t) (tg_serial t) tag_location (tg_crclen t))
         (fd_chars f) (fd_len_fi f) (fd_len_impl_use f) (fd_fi f) (fd_isdir f) (fd_isparent f)
         (fd_icb f) (fd_impl_use f) (fd_encoding f).
Definition fid_set_icb (f : fid) (new_location tag_location : Z) : option fid :=
  match longad_set_loc (fd_icb f) new_location tag_location with
  | Some icb => Some (mk_fid (fd_tag f) (fd_chars f) (fd_len_fi f) (fd_len_impl_use f) (fd_fi f)
                             (fd_isdir f) (fd_isparent f) icb (fd_impl_use f) (fd_encoding f))
  | None => None
  end.

(* the identifier as written: prefix byte + fi when len_fi > 0 *)
Definition fid_fi_bytes (f : fid) : option (list Z) :=
  if fd_len_fi f >? 0 then
    if fd_encoding f =? 8 then Some (8 :: fd_fi f)
    else if fd_encoding f =? 16 then Some (16 :: fd_fi f)
    else None
  else Some [].

(* rec[16:] of record(): struct.pack(FMT, 16 zeros, 1, characteristics, len_fi, icb, len_impl_use)[16:]
   + impl_use + fi + b'\x00' * pad(calcsize(FMT) + len_impl_use + len_fi) *)
Definition fid_head_fields (f : fid) (icbrec : list Z) : list (list Z) :=
  [le16 1; [fd_chars f]; [fd_len_fi f]; pack_s 16 icbrec; le16 (fd_len_impl_use f)].

Definition fid_body (f : fid) : option (list Z) :=
  match fid_fi_bytes f, longad_record (fd_icb f) with
  | Some fi, Some icbrec =>
      if u8_ok (fd_chars f) && u8_ok (fd_len_fi f) && u16_ok (fd_len_impl_use f) then
        Some (concat (fid_head_fields f icbrec) ++ fd_impl_use f ++ fi ++
              repeat 0 (Z.to_nat (udf_fid_pad (fmt_udf_fid_size + fd_len_impl_use f + fd_len_fi f))))
      else None
  | _, _ => None
  end.

(* record(): self.desc_tag.record(rec[16:]) + rec[16:] *)
Definition fid_record (f : fid) : option (list Z) :=
  match fid_body f with
  | Some body => match tag_record (fd_tag f) body with
                 | Some t => Some (t ++ body)
                 | None => None
                 end
  | None => None
  end.

(* parse(data, extent, desc_tag, parent) -> bytes consumed; isdir / isparent start as False *)
Definition fid_parse_body (data : list Z) (desc_tag : utag) : option (fid * Z) :=
  match split_widths (widths fmt_udf_fid_widths) data with
  | Some ([_; f1; f2; f3; f4; f5], _) =>
      let chars := d8 f2 in
      let len_fi := d8 f3 in
      let len_impl_use := dle16 f5 in
      if negb (dle16 f1 =? 1) then None else
      let isdir := negb (Z.land chars 2 =? 0) in
      let isparent := negb (Z.land chars 8 =? 0) in
      match longad_parse f4 with
      | Some icb =>
          let start := fmt_udf_fid_size in
          let end_ := start + len_impl_use in
          let impl_use := slice start end_ data in
          let start := end_ in
          let end_ := start + len_fi in
          let mk enc fi := Some (mk_fid desc_tag chars len_fi len_impl_use fi isdir isparent icb
                                        impl_use enc, end_ + udf_fid_pad end_) in
          if isparent then mk 0 []
          else match nth_error data (Z.to_nat start) with        (* data[start]: IndexError *)
               | Some e => if e =? 8 then mk 8 (slice (start + 1) end_ data)
                           else if e =? 16 then mk 16 (slice (start + 1) end_ data)
                           else None
               | None => None
               end
      | None => None
      end
  | _ => None
  end.

(* udf.parse_file_ident(data, current_extent, part_start, ...); [tag_extent] = current_extent - part_start *)
Definition fid_parse (data : list Z) (tag_extent : Z) : option (fid * Z) :=
  match tag_parse data tag_extent with
  | Some t => if negb (tg_ident t =? 257) then None else fid_parse_body data t
  | None => None
  end.

(* ---- (e) UDFFileEntry ------------------------------------------------------------------------- *)
Record fentry := mk_fentry {
  fe_tag : utag; fe_icb : icbtag; fe_uid : Z; fe_gid : Z; fe_perms : Z; fe_link_count : Z;
  fe_info_len : Z; fe_lbr : Z; fe_atime : list Z; fe_mtime : list Z; fe_attrtime : list Z;
  fe_ea_icb : longad; fe_impl_ident : list Z; fe_unique_id : Z; fe_len_ea : Z; fe_ea : list Z;
  fe_ads : list ad }.
(* len_alloc_descs = 0; for desc in self.alloc_descs: len_alloc_descs += desc.length() *)
Definition ads_length (ds : list ad) : Z := fold_left (fun acc d => acc + ad_length d) ds 0.
(* the arguments of struct.pack(self.FMT, ...)[16:], one byte list per format item after the tag *)
Definition fe_fields (e : fentry) (icbrec earec : list Z) (len_alloc_descs : Z) : list (list Z) :=
  [pack_s 20 icbrec; le32 (fe_uid e); le32 (fe_gid e); le32 (fe_perms e); le16 (fe_link_count e);
   [0]; [0]; le32 0; le64 (fe_info_len e); le64 (fe_lbr e);
   pack_s 12 (fe_atime e); pack_s 12 (fe_mtime e); pack_s 12 (fe_attrtime e); le32 1;
   pack_s 16 earec; pack_s 32 (fe_impl_ident e); le64 (fe_unique_id e); le32 (fe_len_ea e);
   le32 len_alloc_descs].

Definition fe_ranges_ok (e : fentry) (len_alloc_descs : Z) : bool :=
  u32_ok (fe_uid e) && u32_ok (fe_gid e) && u32_ok (fe_perms e) && u16_ok (fe_link_count e) &&
  u64_ok (fe_info_len e) && u64_ok (fe_lbr e) && u64_ok (fe_unique_id e) && u32_ok (fe_len_ea e) &&
  u32_ok len_alloc_descs.

Definition fe_body (e : fentry) : option (list Z) :=
  let len_alloc_descs := ads_length (fe_ads e) in
  match icb_record (fe_icb e), longad_record (fe_ea_icb e), ads_record (fe_ads e) with
  | Some icbrec, Some earec, Some adrec =>
      if fe_ranges_ok e len_alloc_descs
      then Some (concat (fe_fields e icbrec earec len_alloc_descs) ++ fe_ea e ++ adrec)
      else None
  | _, _, _ => None
  end.

(* record(): self.desc_tag.record(rec) + rec *)
Definition fe_record (e : fentry) : option (list Z) :=
  match fe_body e with
  | Some body => match tag_record (fe_tag e) body with
                 | Some t => Some (t ++ body)
                 | None => None
                 end
  | None => None
  end.

(* parse(data, extent, parent, desc_tag) *)
Definition fe_parse_body (data : list Z) (extent : Z) (desc_tag : utag) : option fentry :=
  match split_widths (widths fmt_udf_fe_widths) data with
  | Some ([_; f1; f2; f3; f4; f5; f6; f7; f8; f9; f10; f11; f12; f13; f14; f15; f16; f17; f18; f19], _) =>
      match icb_parse f1 with
      | Some icb =>
          if negb (d8 f6 =? 0) then None else
          if negb (d8 f7 =? 0) then None else
          if negb (dle32 f8 =? 0) then None else
          if negb (dle32 f14 =? 1) then None else
          match longad_parse f15 with
          | Some ea_icb =>
              let len_extended_attrs := dle32 f18 in
              let len_alloc_descs := dle32 f19 in
              let offset := fmt_udf_fe_size in
              let extended_attrs := slice offset (offset + len_extended_attrs) data in
              let offset := offset + len_extended_attrs in
              match parse_ads (it_flags icb) (skipn (Z.to_nat offset) data) len_alloc_descs offset extent with
              | Some ads =>
                  Some (mk_fentry desc_tag icb (dle32 f2) (dle32 f3) (dle32 f4) (dle16 f5) (dle64 f9)
                                  (dle64 f10) f11 f12 f13 ea_icb f16 (dle64 f17) len_extended_attrs
                                  extended_attrs ads)
              | None => None
              end
          | None => None
          end
      | None => None
      end
  | _ => None
  end.

(* udf.parse_file_entry(icbdata, abs_file_entry_extent, icb_log_block_num, parent) *)
Definition fe_parse (data : list Z) (abs_extent tag_extent : Z) : option fentry :=
  match tag_parse data tag_extent with
  | Some t => if negb (tg_ident t =? 261) then None else fe_parse_body data abs_extent t
  | None => None
  end.

(* new(length, 'file' | 'symlink', parent, log_block_size): the loop
     len_left = length ; while len_left > 0: alloc_len = min(len_left, 0x3ffff800) ;
     short_ad.new(alloc_len) ; append ; len_left -= alloc_len *)
Fixpoint split_ads (fuel : nat) (len_left : Z) : list Z :=
  match fuel with
  | O => []
  | S f => if len_left >? 0
           then let alloc_len := Z.min len_left UDF_MAX_AD in alloc_len :: split_ads f (len_left - alloc_len)
           else []
  end.
Definition fe_ad_lengths (length : Z) : list Z := split_ads (Z.to_nat (length / UDF_MAX_AD + 1)) length.

(* (info_len, log_block_recorded, alloc_descs) set by new() *)
Definition fe_new_file (length log_block_size : Z) : Z * Z * list ad :=
  (length, ceiling_div length log_block_size,
   map (fun l => ADShort (mk_shortad l 0 0)) (fe_ad_lengths length)).
Definition fe_new_dir (length : Z) : option (Z * Z * list ad) :=
  match shortad_new length with
  | Some a => Some (0, 1, [ADShort a])
  | None => None
  end.

(* set_data_location(current_extent, start_extent):
     for desc in alloc_descs: desc.log_block_num = cur ; cur += ceiling_div(desc.extent_length, 2048) *)
Fixpoint ads_set_location (cur : Z) (ds : list ad) : list ad :=
  match ds with
  | [] => []
  | d :: r => ad_set_pos cur d :: ads_set_location (cur + ceiling_div (ad_extent_length d) 2048) r
  end.

(* the "decreasing" loop of set_data_length: one descriptor per iteration, IndexError past the end,
   then alloc_descs = alloc_descs[:alloc_descs_needed] *)
Fixpoint shrink_ads (len_left : Z) (ds : list ad) : option (list ad) :=
  match ds with
  | [] => if len_left >? 0 then None else Some []
  | d :: r =>
      if len_left >? 0 then
        let this_len := Z.min len_left UDF_MAX_AD in
        match shrink_ads (len_left - this_len) r with
        | Some r' => Some (ad_set_extent_length this_len d :: r')
        | None => None
        end
      else Some []
  end.

(* set_data_length(length) on (info_len, alloc_descs); log_block_recorded is NOT touched *)
Definition fe_set_data_length (info_len : Z) (ds : list ad) (length : Z) : option (Z * list ad) :=
  let len_diff := length - info_len in
  if len_diff >? 0 then
    match rev ds with
    | [] => None                                                   (* alloc_descs[-1]: IndexError *)
    | last :: front =>
        let new_len := ad_extent_length last + len_diff in
        if new_len >? UDF_MAX_AD then None
        else Some (length, rev front ++ [ad_set_extent_length new_len last])
    end
  else if len_diff <? 0 then
    match shrink_ads length ds with
    | Some ds' => Some (length, ds')
    | None => None
    end
  else Some (length, ds).

(* the same on the whole (info_len, log_block_recorded, alloc_descs) state of the File Entry *)
Definition fe_set_data_length_st (st : Z * Z * list ad) (length : Z) : option (Z * Z * list ad) :=
  let '(info_len, lbr, ds) := st in
  match fe_set_data_length info_len ds length with
  | Some (i, ds') => Some (i, lbr, ds')
  | None => None
  end.

(* ---- executable checkers for the external differential harness ------------------------------- *)
(* t = UDFTag(); t.new(ident, serial); t.tag_location = location; t.record(crc_bytes) == expected
   ([] = the call raised) *)
Definition check_tag_case (ident serial location : Z) (crc_bytes expected : list Z) : bool :=
  opt_bytes_eqb (tag_record (mk_utag ident 2 serial location (-1)) crc_bytes) expected.

(* f = UDFFileIdentifierDescriptor(); f.new(isdir, isparent, name, None) with (enc, fi) the encoded
   name; f.set_extent_location(_, tag_loc); f.set_icb(icb_new_loc, icb_tag_loc); f.record() == expected *)
Definition fid_of_case (isdir isparent : bool) (enc : Z) (fi : list Z)
                       (tag_loc icb_new_loc icb_tag_loc : Z) : option fid :=
  match fid_new isdir isparent enc fi with
  | Some f => fid_set_icb (fid_set_tag_location f tag_loc) icb_new_loc icb_tag_loc
  | None => None
  end.
Definition check_fid_case (isdir isparent : bool) (enc : Z) (fi : list Z)
                          (tag_loc icb_new_loc icb_tag_loc : Z) (expected : list Z) : bool :=
  match fid_of_case isdir isparent enc fi tag_loc icb_new_loc icb_tag_loc with
  | Some f => opt_bytes_eqb (fid_record f) expected &&
              match expected with [] => true | _ => zlen expected =? udf_fid_length (zlen (fd_fi f)) end
  | None => match expected with [] => true | _ => false end
  end.

Fixpoint zpairs_eqb (a b : list (Z * Z)) : bool :=
  match a, b with
  | [], [] => true
  | (x1, x2) :: a', (y1, y2) :: b' => (x1 =? y1) && (x2 =? y2) && zpairs_eqb a' b'
  | _, _ => false
  end.

(* fe = UDFFileEntry(); fe.new(length, 'file', None, 2048); fe.set_data_location(0, 0);
   [(d.extent_length, d.log_block_num) for d in fe.alloc_descs] == expected_ads *)
Definition fe_ads_of_length (length : Z) : list (Z * Z) :=
  let '(_, _, ds) := fe_new_file length 2048 in
  map (fun d => (ad_extent_length d, ad_pos d)) (ads_set_location 0 ds).
Definition check_fe_ads_case (length : Z) (expected_ads : list (Z * Z)) : bool :=
  zpairs_eqb (fe_ads_of_length length) expected_ads.

(* [o] is a prefix of [b] and everything after it is 0 (a descriptor read back with its sector) *)
Definition reencodes_to (o : option (list Z)) (b : list Z) : bool :=
  match o with
  | Some r => zlist_eqb r (firstn (length r) b) && forallb (Z.eqb 0) (skipn (length r) b)
  | None => false
  end.

(* decode real bytes, re-encode, compare.  kind: 0 tag ++ body, 1 short_ad, 2 long_ad, 3 ICB tag,
   4 File Identifier Descriptor, 5 File Entry.  The tag is parsed with extent = its own location field. *)
Definition check_parse_record_case (kind : Z) (b : list Z) : bool :=
  let loc := dle32 (skipn 12 b) in
  if kind =? 0 then
    match tag_parse b loc with
    | Some t => opt_bytes_eqb (tag_record t (skipn 16 b)) (firstn 16 b)
    | None => false
    end
  else if kind =? 1 then
    match shortad_parse b with Some a => reencodes_to (shortad_record a) b | None => false end
  else if kind =? 2 then
    match longad_parse b with Some a => reencodes_to (longad_record a) b | None => false end
  else if kind =? 3 then
    match icb_parse b with Some i => reencodes_to (icb_record i) b | None => false end
  else if kind =? 4 then
    match fid_parse b loc with
    | Some (f, n) => reencodes_to (fid_record f) b &&
                     match fid_record f with Some r => zlen r =? n | None => false end
    | None => false
    end
  else if kind =? 5 then
    match fe_parse b loc loc with Some e => reencodes_to (fe_record e) b | None => false end
  else false.

(* indices (counted from k) of the cases on which model and Python disagree *)
Fixpoint bad_idx {A} (chk : A -> bool) (k : nat) (cs : list A) : list nat :=
  match cs with
  | [] => []
  | c :: r => if chk c then bad_idx chk (S k) r else k :: bad_idx chk (S k) r
  end.
Definition bad_tag_cases (k : nat) (cs : list (Z * Z * Z * list Z * list Z)) : list nat :=
  bad_idx (fun '(i, s, l, c, e) => check_tag_case i s l c e) k cs.
Definition bad_fid_cases (k : nat) (cs : list (bool * bool * Z * list Z * Z * Z * Z * list Z)) : list nat :=
  bad_idx (fun '(d, p, en, fi, tl, nl, il, e) => check_fid_case d p en fi tl nl il e) k cs.
Definition bad_fe_ads_cases (k : nat) (cs : list (Z * list (Z * Z))) : list nat :=
  bad_idx (fun '(l, e) => check_fe_ads_case l e) k cs.
Definition bad_parse_record_cases (k : nat) (cs : list (Z * list Z)) : list nat :=
  bad_idx (fun '(kd, b) => check_parse_record_case kd b) k cs.
