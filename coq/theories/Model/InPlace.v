(* PyCdlib.modify_file_in_place as a function from the opened object graph to the list of WRITES
   it issues on the backing file.  Definitions only; proofs are in Proofs/InPlace*Proofs.v.

   Sources modelled (statement by statement):
     /repo/pycdlib/pycdlib.py  PyCdlib.modify_file_in_place                  -> modify_run_gen / modify_run / modify
     /repo/pycdlib/utils.py    copy_data / copy_data_yield, zero_pad         -> copy_data, zero_pad
     /repo/pycdlib/headervd.py remove_from_space_size, add_to_space_size,
                               copy_sizes, record (space size + modification
                               date are the only non-opaque parts)           -> vd_resize, vd_record
     /repo/pycdlib/dr.py       set_data_length, record                       -> dr_set_len, Codec.enc_dr_raw
     /repo/pycdlib/udf.py      UDFFileEntry.set_data_length, record          -> fe_set_len (Udf.fe_set_data_length), Udf.fe_record
     /repo/pycdlib/inode.py    update_fp, InodeOpenData.__enter__            -> the data is read from offset 0 of [fp]

   The backing file is [img = Z -> Z] (byte at absolute offset); a write is (absolute offset, bytes).
   Outcome: [Refused] = an exception was raised before the first write, [Done ws] = the call returned
   after issuing ws in this order, [Partial ws] = an exception was raised AFTER ws had been written.

   TUPLE ORDER of the external cases (tools/inplace_cases.py), type ip_case:
     (state, length, fp bytes (run-length coded), 17 bytes of "now" as a volume descriptor date,
      expected kind (0 refused / 1 returned / 2 raised after writing),
      logged writes [(offset, rl bytes)], old bytes of the file at interesting ranges [(offset, rl bytes)],
      wf expected (bool)) *)
From Coq Require Import ZArith List Bool.
From PV.Base Require Import Prim.
From PV.Gen Require Import GenConst GenFun.
From PV.Model Require Import Codec Udf.
Import ListNotations.
Local Open Scope Z_scope.

(* ---- the backing file ------------------------------------------------------------------- *)
Definition img : Type := Z -> Z.
Definition write : Type := (Z * list Z)%type.

Definition in_range (off len a : Z) : bool := (off <=? a) && (a <? off + len).

(* fp.seek(off); fp.write(bs) *)
Definition apply_write (m : img) (w : write) : img :=
  fun a => if in_range (fst w) (zlen (snd w)) a then nth (Z.to_nat (a - fst w)) (snd w) 0 else m a.
Definition apply_writes (ws : list write) (m : img) : img := fold_left apply_write ws m.

(* fp.seek(pos); fp.read(n) *)
Definition read (m : img) (pos : Z) (n : nat) : list Z := map (fun i => m (pos + Z.of_nat i)) (seq 0 n).

(* ---- volume descriptors (headervd.py) --------------------------------------------------- *)
(* record() = struct.pack(FMT, ...): bytes 0..79 [vd_pre], space_size both-endian at 80..87,
   bytes 88..829 [vd_mid], the volume MODIFICATION date at 830..846 which record() always sets to
   time.time(), bytes 847..2047 [vd_post] *)
Record vdesc := mk_vdesc { vd_extent : Z; vd_pre : list Z; vd_space : Z; vd_mid : list Z; vd_post : list Z }.

Definition vd_record (v : vdesc) (now : list Z) : option (list Z) :=
  if u32_ok (vd_space v)
  then Some (vd_pre v ++ le32 (vd_space v) ++ le32 (swab32 (vd_space v)) ++ vd_mid v ++ now ++ vd_post v)
  else None.

Definition vd_with_space (v : vdesc) (s : Z) : vdesc :=
  mk_vdesc (vd_extent v) (vd_pre v) s (vd_mid v) (vd_post v).

(* pvd.remove_from_space_size(x) ; pvd.add_to_space_size(y) *)
Definition vd_resize (lbs : Z) (v : vdesc) (removed added : Z) : vdesc :=
  vd_with_space v (vd_space v - ceiling_div removed lbs + ceiling_div added lbs).

(* ---- the object graph the call looks at -------------------------------------------------- *)
(* what _find_iso_record(iso_path) returns *)
Inductive child :=
  | ChNotFound                    (* PyCdlibInvalidInput from the lookup *)
  | ChDir (data_length : Z)       (* a directory record: inode is None, get_data_length() = own data_length *)
  | ChNoInode (data_length : Z)   (* a file record without inode (the El Torito boot catalog) *)
  | ChFile (extent : Z).          (* a file record with inode; extent = child.extent_location() *)

(* one element of child.inode.linked_records *)
Inductive lrec :=
  | LDr (is_joliet : bool) (parent_extent : option Z) (extents_to_here offset_to_here dr_len len_fi : Z) (r : drec)
  | LFe (extent : Z) (e : fentry)
  | LEt                           (* eltorito.EltoritoEntry: skipped *)
  | LOther.                       (* anything else: PyCdlibInternalError('Invalid record type') *)

Record state := mk_state {
  st_initialized : bool;
  st_mode : option (list Z);      (* self._cdfp.mode as ASCII bytes; None = no such attribute *)
  st_lbs : Z;                     (* self.logical_block_size *)
  st_child : child;
  st_ino_len : Z;                 (* child.inode.data_length (when child is ChFile) *)
  st_linked : list lrec;          (* child.inode.linked_records, in order *)
  st_pvd : vdesc;
  st_joliet : option vdesc;
  st_enhanced : option vdesc }.

Definition opt_list {A} (o : option A) : list A := match o with Some x => [x] | None => [] end.

(* str.startswith *)
Fixpoint prefixb (p s : list Z) : bool :=
  match p, s with
  | [], _ => true
  | x :: p', y :: s' => (x =? y) && prefixb p' s'
  | _ :: _, [] => false
  end.
(* 'r+' 'w' 'a' 'rb+' *)
Definition write_modes : list (list Z) := [[114; 43]; [119]; [97]; [114; 98; 43]].
(* not (hasattr(self._cdfp, 'mode') and not self._cdfp.mode.startswith(('r+', 'w', 'a', 'rb+'))) *)
Definition mode_ok (m : option (list Z)) : bool :=
  match m with None => true | Some s => existsb (fun p => prefixb p s) write_modes end.

Definition dr_set_len (r : drec) (n : Z) : drec :=
  mk_drec (xattr_len r) (extent r) n (date r) (flags r) (unit_size r) (gap_size r) (seqnum r) (ident r) (sysuse r).

Definition fe_with_len (e : fentry) (info_len : Z) (ds : list ad) : fentry :=
  mk_fentry (fe_tag e) (fe_icb e) (fe_uid e) (fe_gid e) (fe_perms e) (fe_link_count e) info_len (fe_lbr e)
            (fe_atime e) (fe_mtime e) (fe_attrtime e) (fe_ea_icb e) (fe_impl_ident e) (fe_unique_id e)
            (fe_len_ea e) (fe_ea e) ds.
(* UDFFileEntry.set_data_length(length) *)
Definition fe_set_len (e : fentry) (length : Z) : option fentry :=
  match fe_set_data_length (fe_info_len e) (fe_ads e) length with
  | Some (i, ds) => Some (fe_with_len e i ds)
  | None => None
  end.

(* ---- utils.copy_data / zero_pad ----------------------------------------------------------- *)
(* left = data_length
   while left > 0: readsize = min(blocksize, left); data = infp.read(readsize); data_len = len(data)
                   if data_len != readsize: data_len = left
                   outfp.write(data); left -= data_len
   returns the writes and the position of outfp afterwards *)
Fixpoint copy_data (fuel : nat) (left blocksize pos : Z) (fp : list Z) : list write * Z :=
  match fuel with
  | O => ([], pos)
  | S f =>
      if left >? 0 then
        let readsize := Z.min blocksize left in
        let data := firstn (Z.to_nat readsize) fp in
        let data_len := if zlen data =? readsize then zlen data else left in
        let '(ws, p) := copy_data f (left - data_len) blocksize (pos + zlen data)
                                  (skipn (Z.to_nat readsize) fp) in
        ((pos, data) :: ws, p)
      else ([], pos)
  end.

(* padbytes = pad_size - (data_size % pad_size); if padbytes == pad_size: return
   fp.seek(padbytes - 1, os.SEEK_CUR); fp.write(b'\x00') *)
Definition zero_pad (pos data_size pad_size : Z) : list write :=
  let padbytes := pad_size - data_size mod pad_size in
  if padbytes =? pad_size then [] else [(pos + (padbytes - 1), [0])].

Definition data_writes (lbs extent length : Z) (fp : list Z) : list write :=
  let '(ws, p) := copy_data (Z.to_nat (length / lbs + 1)) length lbs (extent * lbs) fp in
  ws ++ zero_pad p length lbs.

(* ---- the loop over child.inode.linked_records --------------------------------------------- *)
Inductive step := StSkip | StStop | StWrite (w : write).

Definition relink_one (lbs length : Z) (l : lrec) : step :=
  match l with
  | LDr _ None _ _ _ _ _ => StStop                         (* 'Modifying file with empty parent' *)
  | LDr _ (Some pe) eth oth dl lf r =>
      let abs_extent_loc := pe + eth - 1 in
      let offset := oth - dl in
      let abs_offset := abs_extent_loc * lbs + offset in
      match enc_dr_raw dl lf (dr_set_len r length) with   (* record.set_data_length(length); record.record() *)
      | Some b => StWrite (abs_offset, b)
      | None => StStop                                     (* struct.error *)
      end
  | LFe ext e =>
      let abs_offset := ext * lbs in
      match fe_set_len e length with
      | Some e' => match fe_record e' with
                   | Some b => StWrite (abs_offset, b)
                   | None => StStop
                   end
      | None => StStop                                     (* 'Cannot increase the size of a UDF file ...' / IndexError *)
      end
  | LEt => StSkip
  | LOther => StStop
  end.

(* (writes issued, loop ran to its end) *)
Fixpoint relink (lbs length : Z) (ls : list lrec) : list write * bool :=
  match ls with
  | [] => ([], true)
  | l :: r =>
      match relink_one lbs length l with
      | StSkip => relink lbs length r
      | StStop => ([], false)
      | StWrite w => let '(ws, ok) := relink lbs length r in (w :: ws, ok)
      end
  end.

(* ---- modify_file_in_place ------------------------------------------------------------------- *)
Inductive outcome := Refused | Done (ws : list write) | Partial (ws : list write).

Definition child_len (st : state) : Z :=
  match st_child st with
  | ChDir n => n | ChNoInode n => n | ChFile _ => st_ino_len st | ChNotFound => 0
  end.

(* the volume descriptors the call re-records, in this order, after the in-memory size update:
     child.inode.update_fp(fp, length)           -- from here on child.get_data_length() = length
     for pvd in self.pvds: pvd.remove_from_space_size(child.get_data_length())
     for pvd in self.pvds: pvd.add_to_space_size(length)
     if self.enhanced_vd is not None: self.enhanced_vd.copy_sizes(self.pvd)
   (the Joliet descriptor's size is adjusted inside the record loop, AFTER it has been written) *)
Definition vds_after (st : state) (length : Z) : list vdesc :=
  let pvd := vd_resize (st_lbs st) (st_pvd st) length length in
  pvd :: opt_list (st_joliet st) ++ opt_list (option_map (fun v => vd_with_space v (vd_space pvd)) (st_enhanced st)).

(* self._seek_to_extent(vd.extent_location()); self._cdfp.write(vd.record()) for each of them;
   (writes issued, all records could be produced) *)
Fixpoint vd_writes (lbs : Z) (now : list Z) (vs : list vdesc) : list write * bool :=
  match vs with
  | [] => ([], true)
  | v :: r =>
      match vd_record v now with
      | None => ([], false)                       (* swab_32bit / struct.error *)
      | Some b => let '(ws, ok) := vd_writes lbs now r in ((vd_extent v * lbs, b) :: ws, ok)
      end
  end.

Definition stopped (ws : list write) : outcome := match ws with [] => Refused | _ => Partial ws end.

(* [check_negative] = the test "if length < 0: raise PyCdlibInvalidInput" that /repo commit 0411073 added after
   the open-mode test; modify_run is the code as it is now, modify_run_before_0411073 the code before that fix *)
Definition modify_run_gen (check_negative : bool) (st : state) (length : Z) (fp now : list Z) : outcome :=
  let lbs := st_lbs st in
  if negb (st_initialized st) then Refused else
  if negb (mode_ok (st_mode st)) then Refused else
  if check_negative && (length <? 0) then Refused else
  match st_child st with
  | ChNotFound => Refused
  | _ =>
    let old_num_extents := ceiling_div (child_len st) lbs in
    let new_num_extents := ceiling_div length lbs in
    if negb (old_num_extents =? new_num_extents) then Refused else
    match st_child st with
    | ChFile extent =>
        let '(wv, okv) := vd_writes lbs now (vds_after st length) in
        if negb okv then stopped wv else
        let wd := data_writes lbs extent length fp in
        let '(wl, ok) := relink lbs length (st_linked st) in
        if ok then Done (wv ++ wd ++ wl) else Partial (wv ++ wd ++ wl)
    | _ => Refused          (* a directory; 'Child file found without inode' *)
    end
  end.

Definition modify_run : state -> Z -> list Z -> list Z -> outcome := modify_run_gen true.
Definition modify_run_before_0411073 : state -> Z -> list Z -> list Z -> outcome := modify_run_gen false.

(* the call with an fp that holds exactly the new content *)
Definition modify (st : state) (new_data now : list Z) : outcome :=
  modify_run st (zlen new_data) new_data now.

(* the in-memory objects after a call that returned: every linked record carries the new length *)
Definition lrec_after (length : Z) (l : lrec) : lrec :=
  match l with
  | LDr j p eth oth dl lf r => LDr j p eth oth dl lf (dr_set_len r length)
  | LFe ext e => match fe_set_len e length with Some e' => LFe ext e' | None => l end
  | _ => l
  end.
Definition state_after (st : state) (length : Z) : state :=
  let pvd := vd_resize (st_lbs st) (st_pvd st) length length in
  mk_state (st_initialized st) (st_mode st) (st_lbs st) (st_child st) length
           (map (lrec_after length) (st_linked st)) pvd (st_joliet st)
           (option_map (fun v => vd_with_space v (vd_space pvd)) (st_enhanced st)).

(* ---- well-formedness of (object graph, backing file) ---------------------------------------- *)
Definition lrec_pos (lbs : Z) (l : lrec) : Z :=
  match l with
  | LDr _ (Some pe) eth oth dl _ _ => (pe + eth - 1) * lbs + (oth - dl)
  | LFe ext _ => ext * lbs
  | _ => 0
  end.
(* the bytes record() returns for the object as it is before the call *)
Definition lrec_bytes (l : lrec) : option (list Z) :=
  match l with
  | LDr _ _ _ _ dl lf r => enc_dr_raw dl lf r
  | LFe _ e => fe_record e
  | _ => Some []
  end.

Definition on_disk (m : img) (pos : Z) (b : list Z) : bool := zlist_eqb (read m pos (length b)) b.

Definition short_ok (d : ad) : bool :=
  match d with ADShort a => (sa_type a =? 0) && (0 <=? sa_length a) && (sa_length a <=? 1073741823) | _ => false end.

Definition fe_ok (e : fentry) (blen : Z) : bool :=
  ((it_strategy_type (fe_icb e) =? 4) || (it_strategy_type (fe_icb e) =? 4096)) &&
  (Z.land (it_flags (fe_icb e)) 7 =? 0) &&
  (length (fe_atime e) =? 12)%nat && (length (fe_mtime e) =? 12)%nat && (length (fe_attrtime e) =? 12)%nat &&
  (length (fe_impl_ident e) =? 32)%nat && (length (la_impl (fe_ea_icb e)) =? 6)%nat &&
  (fe_len_ea e =? zlen (fe_ea e)) && forallb short_ok (fe_ads e) &&
  (tg_ident (fe_tag e) =? 261) && ((tg_version (fe_tag e) =? 2) || (tg_version (fe_tag e) =? 3)) &&
  (tg_crclen (fe_tag e) =? blen - 16).

Definition lrec_ok (m : img) (lbs ino_extent ino_len : Z) (l : lrec) : bool :=
  match l with
  | LDr _ (Some pe) eth oth dl lf r =>
      match enc_dr_raw dl lf r with
      | Some b => (zlen b =? dl) && (dl =? dr_len_of r) && (lf =? zlen (ident r)) &&
                  (1 <=? eth) && (0 <=? pe) && (0 <=? oth - dl) && (oth <=? lbs) &&
                  (data_len r =? ino_len) && (extent r =? ino_extent) &&
                  (length (date r) =? 7)%nat && (xattr_len r =? 0) &&
                  on_disk m (lrec_pos lbs l) b
      | None => false
      end
  | LFe ext e =>
      match fe_record e with
      | Some b => (0 <=? ext) && (zlen b <=? lbs) && (fe_info_len e =? ino_len) &&
                  (ino_len <=? UDF_MAX_AD) &&
                  zlist_eqb (map ad_extent_length (fe_ads e)) (fe_ad_lengths ino_len) &&
                  fe_ok e (zlen b) && on_disk m (lrec_pos lbs l) b
      | None => false
      end
  | LEt => true
  | _ => false
  end.

(* half-open byte intervals *)
Definition ival : Type := (Z * Z)%type.
Definition disjointb (a b : ival) : bool :=
  (snd a <=? fst a) || (snd b <=? fst b) || (snd a <=? fst b) || (snd b <=? fst a).
Fixpoint pairwise {A} (f : A -> A -> bool) (l : list A) : bool :=
  match l with
  | [] => true
  | a :: r => forallb (f a) r && pairwise f r
  end.

Definition lrec_ival (lbs : Z) (l : lrec) : list ival :=
  match l, lrec_bytes l with
  | LDr _ _ _ _ _ _ _, Some b | LFe _ _, Some b => [(lrec_pos lbs l, lrec_pos lbs l + zlen b)]
  | _, _ => []
  end.
Definition vd_ival (lbs : Z) (v : vdesc) : ival := (vd_extent v * lbs, vd_extent v * lbs + 2048).
Definition vds (st : state) : list vdesc := st_pvd st :: opt_list (st_joliet st) ++ opt_list (st_enhanced st).
Definition data_ival (st : state) : ival :=
  match st_child st with
  | ChFile ext => (ext * st_lbs st, ext * st_lbs st + ceiling_div (st_ino_len st) (st_lbs st) * st_lbs st)
  | _ => (0, 0)
  end.
(* the volume descriptor sectors and the data sectors *)
Definition fixed_ivals (st : state) : list ival := map (vd_ival (st_lbs st)) (vds st) ++ [data_ival st].
Definition ivals_disjoint (l1 l2 : list ival) : bool := forallb (fun a => forallb (disjointb a) l2) l1.
(* two elements of linked_records occupy different bytes, or are the SAME File Entry (a file with several UDF
   names has its one File Entry in the list once per name; it is then re-recorded once per name) *)
Definition lrec_compat (lbs : Z) (l1 l2 : lrec) : bool :=
  ivals_disjoint (lrec_ival lbs l1) (lrec_ival lbs l2) ||
  match l1, l2 with
  | LFe x1 e1, LFe x2 e2 =>
      (x1 =? x2) && (tg_location (fe_tag e1) =? tg_location (fe_tag e2)) &&
      match fe_record e1, fe_record e2 with Some b1, Some b2 => zlist_eqb b1 b2 | _, _ => false end
  | _, _ => false
  end.

Definition vd_ok (m : img) (lbs : Z) (v : vdesc) : bool :=
  (0 <=? vd_extent v) && (length (vd_pre v) =? 80)%nat && (length (vd_mid v) =? 742)%nat &&
  (length (vd_post v) =? 1201)%nat && u32_ok (vd_space v) &&
  on_disk m (vd_extent v * lbs)
          (vd_pre v ++ le32 (vd_space v) ++ le32 (swab32 (vd_space v)) ++ vd_mid v
           ++ read m (vd_extent v * lbs + 830) 17 ++ vd_post v).

Definition MAX_INODE_LEN : Z := 4294965248.   (* 0xfffff800: _add_fp cuts longer files into several inodes *)

Definition wf_state (st : state) (m : img) : bool :=
  match st_child st with
  | ChFile ext =>
      (st_lbs st =? 2048) && (0 <=? ext) && (0 <=? st_ino_len st) && (st_ino_len st <=? MAX_INODE_LEN) &&
      forallb (vd_ok m (st_lbs st)) (vds st) &&
      match st_enhanced st with Some v => vd_space v =? vd_space (st_pvd st) | None => true end &&
      forallb (lrec_ok m (st_lbs st) ext (st_ino_len st)) (st_linked st) &&
      pairwise disjointb (fixed_ivals st) &&
      forallb (fun l => ivals_disjoint (lrec_ival (st_lbs st) l) (fixed_ivals st)) (st_linked st) &&
      pairwise (lrec_compat (st_lbs st)) (st_linked st)
  | _ => true
  end.

(* ---- the bytes that may change ------------------------------------------------------------------ *)
(* for a directory record: the both-endian data length, bytes 10..17 of the record; for a File Entry:
   tag checksum (4), tag CRC (8..9), information length (56..63), the length word of each short
   allocation descriptor (176 + L_EA + 8 i .. + 3) *)
Definition lrec_len_fields (lbs : Z) (l : lrec) : list ival :=
  let p := lrec_pos lbs l in
  match l with
  | LDr _ (Some _) _ _ _ _ _ => [(p + 10, p + 18)]
  | LFe _ e => [(p + 4, p + 5); (p + 8, p + 10); (p + 56, p + 64)] ++
               map (fun i => (p + 176 + fe_len_ea e + 8 * Z.of_nat i, p + 176 + fe_len_ea e + 8 * Z.of_nat i + 4))
                   (seq 0 (length (fe_ads e)))
  | _ => []
  end.
Definition vd_date_field (lbs : Z) (v : vdesc) : ival := (vd_extent v * lbs + 830, vd_extent v * lbs + 847).
Definition allowed (st : state) : list ival :=
  map (vd_date_field (st_lbs st)) (vds st) ++ data_ival st :: flat_map (lrec_len_fields (st_lbs st)) (st_linked st).
Definition in_ival (a : Z) (i : ival) : bool := (fst i <=? a) && (a <? snd i).
Definition outside (a : Z) (l : list ival) : bool := negb (existsb (in_ival a) l).

(* ---- checker used by the external harness ------------------------------------------------------- *)
(* run-length coded bytes: n copies of v, then a literal *)
Definition rl : Type := list (Z * Z * list Z).
Fixpoint expand (r : rl) : list Z :=
  match r with
  | [] => []
  | (n, v, lit) :: r' => repeat v (Z.to_nat n) ++ lit ++ expand r'
  end.

(* drop empty writes, merge a write with the next one when that starts where this one ends; the ORDER of
   the writes is kept and compared *)
Fixpoint canon (ws : list write) : list write :=
  match ws with
  | [] => []
  | (o, b) :: r =>
      match b with
      | [] => canon r
      | _ => match canon r with
             | (o2, b2) :: r2 => if o2 =? o + zlen b then (o, b ++ b2) :: r2 else (o, b) :: (o2, b2) :: r2
             | [] => [(o, b)]
             end
      end
  end.

Fixpoint writes_eqb (a b : list write) : bool :=
  match a, b with
  | [], [] => true
  | (o1, b1) :: a', (o2, b2) :: b' => (o1 =? o2) && zlist_eqb b1 b2 && writes_eqb a' b'
  | _, _ => false
  end.

Definition ip_case : Type :=
  (state * Z * rl * list Z * Z * list (Z * rl) * list (Z * rl) * bool)%type.

Definition expand_writes (l : list (Z * rl)) : list write := map (fun '(o, r) => (o, expand r)) l.

Definition outcome_ok (o : outcome) (kind : Z) (logged : list write) : bool :=
  match o with
  | Refused => (kind =? 0) && writes_eqb (canon logged) []
  | Done ws => (kind =? 1) && writes_eqb (canon ws) (canon logged)
  | Partial ws => (kind =? 2) && writes_eqb (canon ws) (canon logged)
  end.

Definition check_ip_case (c : ip_case) : bool :=
  let '(st, length, fp, now, kind, logged, old, wf) := c in
  outcome_ok (modify_run st length (expand fp) now) kind (expand_writes logged) &&
  (negb wf || wf_state st (apply_writes (expand_writes old) (fun _ => 0))).

Fixpoint bad_inplace_cases (k : nat) (cs : list ip_case) : list nat :=
  match cs with
  | [] => []
  | c :: r => if check_ip_case c then bad_inplace_cases (S k) r else k :: bad_inplace_cases (S k) r
  end.
