(* C04 -- pycdlib's INCREMENTAL space accounting, as a state machine, for plain ISO9660 images
   (one PVD, interchange level 3, no Rock Ridge / Joliet / UDF / El Torito / XA, logical block
   size 2048, every file has exactly one name, file length in [0, 0xfffff800] so that a file is
   one directory record).

   Sources modelled (statement by statement; all in /repo/pycdlib):
     headervd.py  PrimaryOrSupplementaryVD.new (space_size 17, path_tbl_size 10, num_extents)
                  add_to_space_size / remove_from_space_size (ONE ceiling_div per edit)
                  add_to_ptr_size / remove_from_ptr_size          -> GENERATED, Gen/GenFun.v
     pycdlib.py   new, _finish_add, _finish_remove, _add_fp, _add_hard_link_to_inode,
                  add_directory, rm_file (_rm_file_inodes, _rm_dr_link), rm_directory,
                  _add_child_to_dr, _remove_child_from_dr, _add_to_ptr_size, _remove_from_ptr_size,
                  _check_path_depth, _find_dr_record_by_name, _iso_name_and_parent_from_path,
                  _reshuffle_extents, _reassign_vd_dirrecord_extents, _set_inode
     dr.py        DirectoryRecord._new (dr_len), __lt__, _add_child, remove_child  (the data_length
                  policy is Model/Pack.v dir_add / dir_remove)
     path_table_record.py  record_length                           -> GENERATED ptr_record_length

   The directory hierarchy is a rose tree: a Directory Record with its children list, exactly the
   object graph of the library ('.' and '..' are not nodes; they are the two 34-byte records put in
   front of every children list by [dir_st]).  Definitions only; proofs are in
   Proofs/AccountLemmas.v and Proofs/AccountProofs.v. *)
From Coq Require Import ZArith List Bool.
From PV.Base Require Import Prim.
From PV.Gen Require Import GenConst GenFun.
From PV.Model Require Import Names Pack Alloc.
Import ListNotations.
Local Open Scope Z_scope.

Definition C : Z := 2048.                       (* logical_block_size *)
Definition max_len : Z := 4294965248.           (* 0xfffff800: largest length of one record *)

Definition ident := list Z.                     (* bytes *)
Definition path := list ident.                  (* normalised absolute path, split at '/' *)

Inductive node : Type :=
| File (name : ident) (len : Z)                 (* a record + its inode (data length) *)
| Dir (name : ident) (dlen : Z) (kids : list node).   (* data_length, children[2:] *)

Definition name_of (n : node) : ident := match n with File nm _ => nm | Dir nm _ _ => nm end.
Definition is_dir (n : node) : bool := match n with Dir _ _ _ => true | File _ _ => false end.
Definition kids_of (n : node) : list node := match n with Dir _ _ k => k | File _ _ => [] end.

(* ---- bytes comparison (Python: a < b, a == b on bytes) ---------------------------------- *)

Fixpoint bytes_ltb (a b : ident) : bool :=
  match a, b with
  | _, [] => false
  | [], _ :: _ => true
  | x :: a', y :: b' => if x <? y then true else if x =? y then bytes_ltb a' b' else false
  end.

Fixpoint bytes_eqb (a b : ident) : bool :=
  match a, b with
  | [], [] => true
  | x :: a', y :: b' => (x =? y) && bytes_eqb a' b'
  | _, _ => false
  end.

(* ---- dr.py _new: dr_len = 33 + len(ident), + 1 if odd ------------------------------------ *)
Definition dr_len_of (nm : ident) : Z := let l := 33 + zlen nm in l + l mod 2.

(* ---- bisect.bisect_left(children, child) with DirectoryRecord.__lt__ ---------------------
   [names] are the identifiers of children[2:]; '.' and '..' compare below everything, and
   otherwise __lt__ is the bytes comparison, so the index is 2 + the number of leading names
   that are < nm.  (Linear scan instead of bisection: same result on a sorted list.) *)
Fixpoint pos (nm : ident) (names : list ident) : nat :=
  match names with
  | a :: r => if bytes_ltb a nm then S (pos nm r) else O
  | [] => O
  end.

(* index = bisect_left(...); if index != len and children[index].file_ident == nm: found.
   Used both by _find_dr_record_by_name and by the duplicate test of _add_child. *)
Definition lookup (nm : ident) (kids : list node) : option (nat * node) :=
  let k := pos nm (map name_of kids) in
  match nth_error kids k with
  | Some c => if bytes_eqb (name_of c) nm then Some (k, c) else None
  | None => None
  end.

(* _find_dr_record_by_name: walk the components; a non-directory in the middle fails *)
Fixpoint subtree (p : path) (n : node) : option node :=
  match p with
  | [] => Some n
  | x :: q =>
      match n with
      | Dir _ _ kids => match lookup x kids with Some (_, c) => subtree q c | None => None end
      | File _ _ => None
      end
  end.

Definition set_at {A} (k : nat) (x : A) (l : list A) : list A := firstn k l ++ x :: skipn (S k) l.

(* the mutation of the directory object found at path p (functional update of the tree) *)
Fixpoint replace (p : path) (t : node) (n : node) : node :=
  match p with
  | [] => t
  | x :: q =>
      match n with
      | Dir nm dl kids =>
          match lookup x kids with
          | Some (k, c) => Dir nm dl (set_at k (replace q t c) kids)
          | None => n
          end
      | File _ _ => n
      end
  end.

(* ---- the records of a directory, as Pack.v sees them -------------------------------------- *)
Definition st_of (dl : Z) (names : list ident) : dirst :=
  {| recs := 34 :: 34 :: map dr_len_of names; dlen := dl |}.
Definition dir_st (dl : Z) (kids : list node) : dirst := st_of dl (map name_of kids).

(* the boolean returned by _add_child (overflowed) / remove_child (underflow); Pack.dir_add and
   Pack.dir_remove perform the corresponding data_length update *)
Definition add_overflows (d : dirst) (k : nat) (x : Z) : bool :=
  num_extents C (insert_at k x (recs d)) * C >? dlen d.
Definition rm_underflows (d : dirst) (k : nat) : bool :=
  let ls := remove_at k (recs d) in
  dlen d - ((num_extents C ls - 1) * C + last_offset C ls) >? C.

(* ---- state ------------------------------------------------------------------------------- *)
Record state := { root : node; ptr_size : Z; ptr_ext : Z; space : Z }.

(* PrimaryOrSupplementaryVD.new: space_size = 17, path_tbl_size = 10,
   path_table_num_extents = ceiling_div(10, 4096) * 2; the root record has data_length = block.
   PyCdlib.new: _finish_add(vdst block + version block, 4 PTR blocks + root directory block). *)
Definition init : state :=
  {| root := Dir [0] C [];
     ptr_size := 10;
     ptr_ext := ceiling_div 10 4096 * 2;
     space := 17 + ceiling_div ((C + C) + (4 * C + C)) C |}.

Inductive op :=
| AddFile (dir : path) (name : ident) (len : Z)     (* add_fp(fp, len, dir + '/' + name) *)
| AddDir (parent : path) (name : ident)             (* add_directory(parent + '/' + name) *)
| RmFile (dir : path) (name : ident)                (* rm_file(dir + '/' + name) *)
| RmDir (p : path).                                 (* rm_directory(p) *)

Definition refuse (s : state) : state * bool := (s, false).

(* _check_path_depth: len(split_path(iso_path)) > 7 *)
Definition too_deep (parent : path) : bool := Z.of_nat (length parent) + 1 >? 7.

(* add_fp -> _add_fp -> _add_hard_link_to_inode(iso_new_path) -> _finish_add(0, num_bytes) *)
Definition step_add_file (s : state) (dirp : path) (nm : ident) (len : Z) : state * bool :=
  if negb ((0 <=? len) && (len <=? max_len)) then refuse s       (* outside the fragment *)
  else if too_deep dirp then refuse s
  else
    match subtree dirp (root s) with
    | Some (Dir dn dl kids) =>
        match check_iso9660_filename nm 3 with
        | Accept =>
            let x := dr_len_of nm in
            if x >? 255 then refuse s                            (* 'Identifier is too long' *)
            else
              match lookup nm kids with
              | Some _ => refuse s                               (* duplicate name *)
              | None =>
                  let k := pos nm (map name_of kids) in
                  let d := dir_st dl kids in
                  let grow := if add_overflows d (2 + k) x then C else 0 in
                  let d' := dir_add C d (2 + k) x in
                  let num_bytes_to_add := len + grow in
                  ({| root := replace dirp (Dir dn (dlen d') (insert_at k (File nm len) kids))
                                      (root s);
                      ptr_size := ptr_size s; ptr_ext := ptr_ext s;
                      space := space s + ceiling_div (0 + num_bytes_to_add) C |}, true)
              end
        | _ => refuse s
        end
    | _ => refuse s                                              (* no such directory / a file *)
    end.

(* add_directory(iso_path) *)
Definition step_add_dir (s : state) (parent : path) (nm : ident) : state * bool :=
  if too_deep parent then refuse s
  else
    match subtree parent (root s) with
    | Some (Dir dn dl kids) =>
        match check_iso9660_directory nm 3 with
        | Accept =>
            let x := dr_len_of nm in
            if x >? 255 then refuse s
            else
              match lookup nm kids with
              | Some _ => refuse s
              | None =>
                  let k := pos nm (map name_of kids) in
                  let d := dir_st dl kids in
                  let grow := if add_overflows d (2 + k) x then C else 0 in
                  let d' := dir_add C d (2 + k) x in
                  let '(b, ps, pe) :=
                    add_to_ptr_size (ptr_size s) (ptr_ext s) (ptr_record_length (zlen nm)) in
                  let num_bytes_to_add := grow + ((if b then 4 * C else 0) + C) in
                  ({| root := replace parent (Dir dn (dlen d') (insert_at k (Dir nm C []) kids))
                                      (root s);
                      ptr_size := ps; ptr_ext := pe;
                      space := space s + ceiling_div (0 + num_bytes_to_add) C |}, true)
              end
        | _ => refuse s
        end
    | _ => refuse s
    end.

(* rm_file(iso_path) -> _rm_file_inodes -> _rm_dr_link -> _finish_remove *)
Definition step_rm_file (s : state) (dirp : path) (nm : ident) : state * bool :=
  match subtree dirp (root s) with
  | Some (Dir dn dl kids) =>
      match lookup nm kids with
      | Some (k, File _ len) =>
          let d := dir_st dl kids in
          let shrink := if rm_underflows d (2 + k) then C else 0 in
          let d' := dir_remove C d (2 + k) in
          let num_bytes_to_remove := shrink + len in
          ({| root := replace dirp (Dir dn (dlen d') (remove_at k kids)) (root s);
              ptr_size := ptr_size s; ptr_ext := ptr_ext s;
              space := space s - ceiling_div num_bytes_to_remove C |}, true)
      | _ => refuse s                                  (* not found / 'Cannot remove a directory' *)
      end
  | _ => refuse s
  end.

Fixpoint unsnoc {A} (l : list A) : option (list A * A) :=
  match l with
  | [] => None
  | x :: r => match unsnoc r with
              | None => Some ([], x)
              | Some (q, y) => Some (x :: q, y)
              end
  end.

(* rm_directory(iso_path) *)
Definition step_rm_dir (s : state) (p : path) : state * bool :=
  match unsnoc p with
  | None => refuse s                                             (* 'Cannot remove base directory' *)
  | Some (q, y) =>
      match subtree q (root s) with
      | Some (Dir dn dl kids) =>
          match lookup y kids with
          | Some (k, Dir cn cdl []) =>
              let d := dir_st dl kids in
              let shrink := if rm_underflows d (2 + k) then C else 0 in
              let d' := dir_remove C d (2 + k) in
              match remove_from_ptr_size (ptr_size s) (ptr_ext s) (ptr_record_length (zlen cn)) with
              | Some (b, ps, pe) =>
                  let num_bytes_to_remove := shrink + (if b then 4 * C else 0) + cdl in
                  ({| root := replace q (Dir dn (dlen d') (remove_at k kids)) (root s);
                      ptr_size := ps; ptr_ext := pe;
                      space := space s - ceiling_div num_bytes_to_remove C |}, true)
              | None => refuse s   (* 'Extent number should never grow': proved unreachable *)
              end
          | _ => refuse s                      (* not found / a file / 'Directory must be empty' *)
          end
      | _ => refuse s
      end
  end.

Definition step (s : state) (o : op) : state * bool :=
  match o with
  | AddFile d n l => step_add_file s d n l
  | AddDir d n => step_add_dir s d n
  | RmFile d n => step_rm_file s d n
  | RmDir p => step_rm_dir s p
  end.

Definition run (s : state) (ops : list op) : state := fold_left (fun s o => fst (step s o)) ops s.

(* ---- the from-scratch extent assignment (_reshuffle_extents) ------------------------------ *)

Fixpoint nsize (n : node) : nat :=
  match n with
  | File _ _ => 1%nat
  | Dir _ _ kids =>
      S ((fix go (l : list node) : nat :=
            match l with [] => O | c :: r => (nsize c + go r)%nat end) kids)
  end.

(* _reassign_vd_dirrecord_extents: dirs = deque([root]); while dirs: popleft(); ...
   dirs.extend(children).  Returns the records in the order they are popped. *)
Fixpoint bfs (fuel : nat) (queue : list node) : list node :=
  match fuel with
  | O => []
  | S f => match queue with
           | [] => []
           | n :: q => n :: bfs f (q ++ kids_of n)
           end
  end.

Definition visit (s : state) : list node := bfs (nsize (root s)) [root s].

(* extents taken by one object: ceiling_div(data_length, block) for a directory, and
   _set_inode's ceiling_div(length, block) for an inode *)
Definition obj_size (n : node) : Z :=
  match n with
  | File _ len => ceiling_div len C
  | Dir _ dl _ => ceiling_div dl C
  end.

(* `if dir_record.data_length == 0: set_data_location(0, 0)` else file_list.append(inode) *)
Definition in_file_list (n : node) : bool :=
  match n with File _ len => negb (len =? 0) | Dir _ _ _ => false end.

(* sizes, in the order of assignment: system area (extents 0..15), PVD, terminator, version
   block, L path table, M path table, directories (BFS), file data (BFS) *)
Definition objects (s : state) : list Z :=
  [16; 1; 1; 1; ptr_ext s; ptr_ext s]
    ++ map obj_size (filter is_dir (visit s))
    ++ map obj_size (filter in_file_list (visit s)).

Definition layout (s : state) : list (Z * Z) := bump 0 (objects s).
Definition layout_end (s : state) : Z := bump_end 0 (objects s).

(* ---- additive measures over the tree ------------------------------------------------------ *)

Fixpoint total (w : bool -> ident -> Z -> Z) (n : node) : Z :=
  match n with
  | File nm len => w false nm len
  | Dir nm dl kids =>
      w true nm dl +
      (fix go (l : list node) : Z := match l with [] => 0 | c :: r => total w c + go r end) kids
  end.

Definition w_dlen (d : bool) (nm : ident) (v : Z) : Z := if d then v else 0.
Definition w_nfiles (d : bool) (nm : ident) (v : Z) : Z := if d then 0 else 1.
Definition w_ptr (d : bool) (nm : ident) (v : Z) : Z :=
  if d then ptr_record_length (zlen nm) else 0.
Definition w_dblk (d : bool) (nm : ident) (v : Z) : Z := if d then ceiling_div v C else 0.
Definition w_fblk (d : bool) (nm : ident) (v : Z) : Z := if d then 0 else ceiling_div v C.

(* ---- harness: what an external differential test compares with the library ---------------- *)
Definition probe (s : state) : list Z :=
  [space s; ptr_size s; ptr_ext s; total w_dlen (root s); total w_nfiles (root s)].

Fixpoint run_probe_from (s : state) (ops : list op) : list (list Z) :=
  match ops with
  | [] => []
  | o :: r => let s' := fst (step s o) in probe s' :: run_probe_from s' r
  end.
Definition run_probe (ops : list op) : list (list Z) := run_probe_from init ops.

Fixpoint run_flags_from (s : state) (ops : list op) : list bool :=
  match ops with
  | [] => []
  | o :: r => snd (step s o) :: run_flags_from (fst (step s o)) r
  end.
Definition run_flags (ops : list op) : list bool := run_flags_from init ops.

(* (space, layout_end) after every operation *)
Fixpoint run_ends_from (s : state) (ops : list op) : list (Z * Z) :=
  match ops with
  | [] => []
  | o :: r => let s' := fst (step s o) in (space s', layout_end s') :: run_ends_from s' r
  end.
Definition run_ends (ops : list op) : list (Z * Z) := run_ends_from init ops.
