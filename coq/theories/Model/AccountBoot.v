(* C11 / C04 -- El Torito as an EDIT-HISTORY state machine on top of Model/AccountLinks.v (plain
   ISO9660, interchange level 3, block size 2048, no Rock Ridge / Joliet / UDF / XA / isohybrid).

   Sources modelled (statement by statement; /repo/pycdlib/pycdlib.py unless said otherwise):
     add_eltorito            argument checks in order, boot_info_table attached to the boot file's
                             inode BEFORE the remaining checks, first call (headervd.BootRecord,
                             self.brs.append, EltoritoBootCatalog.new, _add_fp(None, 2048, ...,
                             eltorito_catalog=True) for the catalog name, _finish_add), later calls
                             (EltoritoBootCatalog.add_section)
     rm_eltorito             boot record, the catalog's directory records (_rm_dr_link), the
                             linkage entry -> inode, release of boot files without names (9eed8d6,
                             f25a811), len(catalog.record()), _finish_remove
     add_hard_link           iso_old_path (also an inode-less record as the source) and
                             boot_catalog_old=True
     rm_hard_link            _forget_eltorito_catalog_name, _rm_dr_link: `if not linked_records`
                             counts the El Torito entries of the inode (hidden boot file)
     rm_file                 _rm_file_inodes: the two El Torito refusals, the `inode is None` branch
     _reshuffle_extents      boot record between PVD and terminator, catalog after the directories,
                             the boot files first (sorted by the names of their ISO9660 records,
                             b'AAAAAAAA.;1' for a file without name), _set_inode -> load_rba
     eltorito.py             the catalog's contents: Model/Eltorito.v (cat_new, cat_add_section,
                             cat_bytes)

   The object graph: the catalog's directory records have NO inode (the library passes fp=None);
   a record without inode is an [LFile] whose inode number is not in the inode table (each such
   record gets its own fresh number, so the number identifies the record).
   An operation ends in one of three ways: accepted, refused with nothing changed, refused LATE
   (exception raised after the object was changed).  A late refusal that leaves the library object
   unusable (first add_eltorito failing after self.brs.append: every later _reshuffle_extents
   raises) sets [bwreck]; the model does not follow the library beyond that point (every later
   operation is [Ref]).
   [fx] selects the code: true = the current tree (commits d8f44b3: an empty boot file is refused;
   6a3f4a5: the boot info table is attached only once add_eltorito has succeeded; 4476941: a hard
   link made from a name of the boot catalog becomes a catalog name), false = the tree before these
   three commits (kept for the witnesses of Proofs/AccountBootProofs2.v).  [bstep] / [brun] are the
   current code.  Definitions only; proofs: Proofs/AccountBoot*.v. *)
From Coq Require Import ZArith List Bool Arith.
From PV.Base Require Import Prim.
From PV.Gen Require Import GenConst GenFun.
From PV.Model Require Import Names Pack Alloc Codec Eltorito Account AccountLinks.
Import ListNotations.
Local Open Scope Z_scope.

(* eltorito_boot_catalog: dirrecords (the numbers of its inode-less records, in list order), the
   catalog itself, and entry.inode of the initial entry followed by the section entries *)
Record boot := { cat_recs : list nat; bcat : et_catalog; binos : list nat }.

Record bstate := {
  bl : lstate;                  (* tree, self.inodes, path table counters, pvd.space_size *)
  bboot : option boot;          (* self.eltorito_boot_catalog (and the boot record in self.brs) *)
  bbits : list nat;             (* inodes whose boot_info_table is not None *)
  bwreck : bool }.

Definition binit : bstate := {| bl := linit; bboot := None; bbits := []; bwreck := false |}.

Inductive outcome := Acc | Ref | Late.

Inductive bop :=
| BAddFile (dir : path) (name : ident) (len : Z)
| BAddDir (parent : path) (name : ident)
| BAddLink (src : path) (dir : path) (name : ident)     (* add_hard_link(iso_old_path, iso_new_path) *)
| BAddCatLink (dir : path) (name : ident)               (* add_hard_link(boot_catalog_old=True, ...) *)
| BRmLink (dir : path) (name : ident)
| BRmFile (dir : path) (name : ident)
| BRmDir (p : path)
(* add_eltorito(bootfile_path, bootcatfile=catdir/catname, boot_load_size, platform_id,
   boot_info_table, efi, media_name (0 'noemul', 1 'floppy', other: an unknown name), bootable,
   boot_load_seg) *)
| BAddEltorito (bootp : path) (catdir : path) (catname : ident) (load_size : option Z)
               (platform : Z) (bit efi : bool) (media : Z) (bootable : bool) (seg : Z)
| BRmEltorito.

(* ---- small helpers -------------------------------------------------------------------------- *)

Definition mem (i : nat) (l : list nat) : bool := existsb (Nat.eqb i) l.
Fixpoint has_ino (i : nat) (t : itable) : bool :=
  match t with [] => false | (j, _) :: r => Nat.eqb j i || has_ino i r end.
Fixpoint count (i : nat) (l : list nat) : Z :=
  match l with [] => 0 | j :: r => (if Nat.eqb j i then 1 else 0) + count i r end.
Fixpoint remove1 (i : nat) (l : list nat) : list nat :=
  match l with [] => [] | j :: r => if Nat.eqb j i then r else j :: remove1 i r end.

(* number of El Torito entries whose .inode is inode i (they are members of linked_records) *)
Definition erefs (i : nat) (b : option boot) : Z :=
  match b with Some b => count i (binos b) | None => 0 end.
Definition in_cat (i : nat) (b : option boot) : bool :=
  match b with Some b => mem i (cat_recs b) | None => false end.

Definition with_l (s : bstate) (l : lstate) : bstate :=
  {| bl := l; bboot := bboot s; bbits := bbits s; bwreck := bwreck s |}.
Definition lift (s : bstate) (r : lstate * bool) : bstate * outcome :=
  if snd r then (with_l s (fst r), Acc) else (s, Ref).
Definition brefuse (s : bstate) : bstate * outcome := (s, Ref).

(* _remove_child_from_dr + the data released with it, for the record at index k *)
Definition rm_record (l : lstate) (dirp : path) dn dl (kids : list lnode) (k : nat)
           (tbl : itable) (data : Z) : lstate :=
  let d := ldir_st dl kids in
  {| lroot := lreplace dirp (LDir dn (dlen (dir_remove C d (2 + k))) (remove_at k kids)) (lroot l);
     linodes := tbl; lnext := lnext l; lptr_size := lptr_size l; lptr_ext := lptr_ext l;
     lspace := lspace l - ceiling_div ((if rm_underflows d (2 + k) then C else 0) + data) C |}.

(* ---- add_hard_link ---------------------------------------------------------------------------- *)

(* the new record is inode-less and joins eltorito_boot_catalog.dirrecords *)
Definition add_cat_name (s : bstate) (b : boot) (dirp : path) (nm : ident) : bstate * outcome :=
  let l := bl s in
  let r := add_record l dirp nm (lnext l) (linodes l) 0 in
  if snd r then
    ({| bl := fst r;
        bboot := Some {| cat_recs := cat_recs b ++ [lnext l]; bcat := bcat b; binos := binos b |};
        bbits := bbits s; bwreck := bwreck s |}, Acc)
  else brefuse s.

(* iso_old_path: old_rec.inode may be None.  4476941: `if any(old_rec is rec for rec in
   dirrecords): boot_catalog_old = True`; before, the new record had no inode either but the catalog
   did not know it (it never got an extent). *)
Definition bstep_add_link (fx : bool) (s : bstate) (src dirp : path) (nm : ident) : bstate * outcome :=
  let l := bl s in
  match lsubtree src (lroot l) with
  | Some (LFile _ i _) =>
      if has_ino i (linodes l) then lift s (add_record l dirp nm i (linodes l) 0)
      else
        match bboot s with
        | Some b => if fx && mem i (cat_recs b) then add_cat_name s b dirp nm
                    else lift s (add_record l dirp nm (lnext l) (linodes l) 0)
        | None => lift s (add_record l dirp nm (lnext l) (linodes l) 0)
        end
  | _ => brefuse s
  end.

(* boot_catalog_old=True: old_rec = dirrecords[0]; the new record joins dirrecords *)
Definition bstep_add_cat_link (s : bstate) (dirp : path) (nm : ident) : bstate * outcome :=
  match bboot s with
  | Some b =>
      match cat_recs b with
      | [] => brefuse s                              (* IndexError; unreachable *)
      | _ :: _ => add_cat_name s b dirp nm
      end
  | None => brefuse s        (* 'Attempting to make link to non-existent El Torito boot catalog' *)
  end.

(* ---- rm_hard_link ----------------------------------------------------------------------------- *)

(* _forget_eltorito_catalog_name: `if len(catrecs) > 1: del catrecs[index]` *)
Definition forget (i : nat) (b : option boot) : option boot :=
  match b with
  | Some b0 =>
      if mem i (cat_recs b0) && (1 <? Z.of_nat (length (cat_recs b0)))
      then Some {| cat_recs := remove1 i (cat_recs b0); bcat := bcat b0; binos := binos b0 |}
      else b
  | None => None
  end.

Definition bstep_rm_link (s : bstate) (dirp : path) (nm : ident) : bstate * outcome :=
  let l := bl s in
  match lsubtree dirp (lroot l) with
  | Some (LDir dn dl kids) =>
      match llookup nm kids with
      | Some (k, LFile _ i _) =>
          let root' := lroot (rm_record l dirp dn dl kids k (linodes l) 0) in
          (* `if rec.inode is not None: ... if not rec.inode.linked_records:` *)
          let last := has_ino i (linodes l) && (lrefcount i root' + erefs i (bboot s) =? 0) in
          let tbl := if last then del_ino i (linodes l) else linodes l in
          let data := if last then len_of i (linodes l) else 0 in
          ({| bl := rm_record l dirp dn dl kids k tbl data; bboot := forget i (bboot s);
              bbits := bbits s; bwreck := bwreck s |}, Acc)
      | _ => brefuse s
      end
  | _ => brefuse s
  end.

(* ---- rm_file ---------------------------------------------------------------------------------- *)

Definition bstep_rm_file (s : bstate) (dirp : path) (nm : ident) : bstate * outcome :=
  let l := bl s in
  match lsubtree dirp (lroot l) with
  | Some (LDir dn dl kids) =>
      match llookup nm kids with
      | Some (k, LFile _ i _) =>
          if in_cat i (bboot s) then brefuse s          (* a name of the boot catalog *)
          else if has_ino i (linodes l) then
            if 0 <? erefs i (bboot s) then brefuse s    (* _check_inode_against_eltorito *)
            else lift s (lstep_rm_file l dirp nm)
          else (with_l s (rm_record l dirp dn dl kids k (linodes l) 0), Acc)   (* inode is None *)
      | _ => brefuse s
      end
  | _ => brefuse s
  end.

(* ---- add_eltorito ----------------------------------------------------------------------------- *)

Definition add_bit (bit : bool) (i : nat) (bits : list nat) : list nat :=
  if bit && negb (mem i bits) then i :: bits else bits.

Definition bstep_add_eltorito (fx : bool) (s : bstate) (bootp catdir : path) (catnm : ident)
           (load_size : option Z) (platform : Z) (bit efi : bool) (media : Z) (bootable : bool)
           (seg : Z) : bstate * outcome :=
  let l := bl s in
  if media =? 2 then brefuse s            (* 'hdemul' reads the file's MBR: outside the fragment *)
  else
  match lsubtree bootp (lroot l) with     (* boot_dirrecord = self._find_iso_record(...) *)
  | Some (LFile _ i _) =>
      if negb (has_ino i (linodes l)) then brefuse s   (* 'Tried to add an empty boot dirrecord inode' *)
      else
        let len := len_of i (linodes l) in
        if fx && (len =? 0) then brefuse s             (* d8f44b3 'An El Torito boot file must not be empty' *)
        else
        let sc := match load_size with None => default_sector_count len | Some v => v end in
        (* inode.add_boot_info_table(bi_table): before 6a3f4a5 here, now after the catalog work *)
        let bits_done := add_bit bit i (bbits s) in
        let bits_early := if fx then bbits s else bits_done in
        let changed := negb (Nat.eqb (length bits_early) (length (bbits s))) in
        let refused := ({| bl := l; bboot := bboot s; bbits := bits_early; bwreck := bwreck s |},
                        if changed then Late else Ref) in
        let wrecked := ({| bl := l; bboot := bboot s; bbits := bits_early; bwreck := true |}, Late) in
        match bboot s with
        | Some b =>
            match cat_add_section (bcat b) sc seg (media_of_Z media) 0 efi bootable with
            | Some c' =>
                ({| bl := l;         (* _finish_add(0, 0) *)
                    bboot := Some {| cat_recs := cat_recs b; bcat := c'; binos := binos b ++ [i] |};
                    bbits := bits_done; bwreck := bwreck s |}, Acc)
            | None => refused      (* 'Too many El Torito sections' / EltoritoEntry.new refuses *)
            end
        | None =>
            (* br.new; self.brs.append(br); EltoritoBootCatalog(br).new(...); _add_fp(None, 2048, ...) *)
            match cat_new sc seg (media_of_Z media) 0 platform bootable with
            | Some c =>
                let r := add_record l catdir catnm (lnext l) (linodes l) (C + C) in
                if snd r then
                  ({| bl := fst r;
                      bboot := Some {| cat_recs := [lnext l]; bcat := c; binos := [i] |};
                      bbits := bits_done; bwreck := bwreck s |}, Acc)
                else wrecked
            | None => wrecked
            end
        end
  | Some (LDir _ _ _) => brefuse s        (* a directory has no inode *)
  | None => brefuse s                     (* 'Could not find path' *)
  end.

(* ---- rm_eltorito ------------------------------------------------------------------------------ *)

Definition purge_all (js : list nat) (n : lnode) : lnode := fold_left (fun r j => purge_node j r) js n.
Fixpoint purge_all_bytes (js : list nat) (n : lnode) : Z :=
  match js with [] => 0 | j :: r => purge_bytes j n + purge_all_bytes r (purge_node j n) end.

(* `for entry in entries_to_remove: ... if not new_list: del self.inodes[index]; num_bytes +=
   ceiling_div(length, block) * block`: new_list is empty when the inode has no directory record
   and no LATER entry (the earlier ones are already unlinked) *)
Fixpoint release_entries (root : lnode) (es : list nat) (tbl : itable) (bytes : Z) : itable * Z :=
  match es with
  | [] => (tbl, bytes)
  | i :: r =>
      if (lrefcount i root =? 0) && negb (mem i r)
      then release_entries root r (del_ino i tbl) (bytes + ceiling_div (len_of i tbl) C * C)
      else release_entries root r tbl bytes
  end.

Definition bstep_rm_eltorito (s : bstate) : bstate * outcome :=
  let l := bl s in
  match bboot s with
  | None => brefuse s                  (* 'This ISO does not have an El Torito Boot Record' *)
  | Some b =>
      let root' := purge_all (cat_recs b) (lroot l) in
      let rel := release_entries root' (binos b) (linodes l) 0 in
      let num_bytes_to_remove :=
        C + purge_all_bytes (cat_recs b) (lroot l) + snd rel + zlen (cat_bytes (bcat b)) in
      ({| bl := {| lroot := root'; linodes := fst rel; lnext := lnext l;
                   lptr_size := lptr_size l; lptr_ext := lptr_ext l;
                   lspace := lspace l - ceiling_div num_bytes_to_remove C |};
          bboot := None;
          bbits := filter (fun i => negb (mem i (binos b))) (bbits s);   (* boot_info_table = None *)
          bwreck := bwreck s |}, Acc)
  end.

Definition bstep_gen (fx : bool) (s : bstate) (o : bop) : bstate * outcome :=
  if bwreck s then brefuse s else
  match o with
  | BAddFile d n len => lift s (lstep_add_file (bl s) d n len)
  | BAddDir d n => lift s (lstep_add_dir (bl s) d n)
  | BAddLink src d n => bstep_add_link fx s src d n
  | BAddCatLink d n => bstep_add_cat_link s d n
  | BRmLink d n => bstep_rm_link s d n
  | BRmFile d n => bstep_rm_file s d n
  | BRmDir p => lift s (lstep_rm_dir (bl s) p)
  | BAddEltorito bp cd cn ls pf bit efi m ba sg => bstep_add_eltorito fx s bp cd cn ls pf bit efi m ba sg
  | BRmEltorito => bstep_rm_eltorito s
  end.
Definition brun_gen (fx : bool) (s : bstate) (ops : list bop) : bstate :=
  fold_left (fun s o => fst (bstep_gen fx s o)) ops s.

(* the current code *)
Definition bstep : bstate -> bop -> bstate * outcome := bstep_gen true.
Definition brun : bstate -> list bop -> bstate := brun_gen true.

(* ---- the from-scratch extent assignment (_reshuffle_extents) ---------------------------------- *)

(* (stamp, identifier) of the records of inode i *)
Fixpoint recs_of (i : nat) (n : lnode) : list (nat * ident) :=
  match n with
  | LFile nm j st => if Nat.eqb j i then [(st, nm)] else []
  | LDir _ _ kids =>
      (fix go (l : list lnode) : list (nat * ident) :=
         match l with [] => [] | c :: r => recs_of i c ++ go r end) kids
  end.

Fixpoint ins_stamp (x : nat * ident) (l : list (nat * ident)) : list (nat * ident) :=
  match l with
  | [] => [x]
  | y :: r => if (fst x <=? fst y)%nat then x :: l else y :: ins_stamp x r
  end.
(* the directory records in inode.linked_records, in that order (order of creation) *)
Definition linked_names (i : nat) (root : lnode) : list ident :=
  map snd (fold_right ins_stamp [] (recs_of i root)).

(* bisect.insort_right with _EltoritoEncapsulation.__lt__ (name < other.name) *)
Fixpoint insort (x : ident * nat) (l : list (ident * nat)) : list (ident * nat) :=
  match l with
  | [] => [x]
  | y :: r => if bytes_ltb (fst x) (fst y) then x :: l else y :: insort x r
  end.

Definition dummy_name : ident := [65; 65; 65; 65; 65; 65; 65; 65; 46; 59; 49].   (* b'AAAAAAAA.;1' *)

(* _add_entry_to_enc_list *)
Definition enc_add (root : lnode) (acc : list (ident * nat)) (i : nat) : list (ident * nat) :=
  match linked_names i root with
  | [] => insort (dummy_name, i) acc
  | names => fold_left (fun a nm => insort (nm, i) a) names acc
  end.
Definition enc_list (root : lnode) (es : list nat) : list (ident * nat) :=
  fold_left (enc_add root) es [].

(* the inodes placed by the `for enc in enc_to_update` loop, in that order *)
Definition boot_order (s : bstate) : list nat :=
  match bboot s with
  | Some b => dedup (map snd (enc_list (lroot (bl s)) (binos b))) []
  | None => []
  end.
(* the inodes placed by `for ino in pvd_files + ...: if id(ino) in linked_inodes: continue` *)
Definition rest_order (s : bstate) : list nat :=
  dedup (file_list (linodes (bl s)) (lvisit (bl s))) (boot_order s).
Definition data_inos (s : bstate) : list nat := boot_order s ++ rest_order s.

Definition blk_of (s : bstate) (i : nat) : Z := ceiling_div (len_of i (linodes (bl s))) C.
Definition has_boot (s : bstate) : bool := match bboot s with Some _ => true | None => false end.

(* system area, PVD, boot record, terminator, version block, path tables, directories *)
Definition head_objects (s : bstate) : list Z :=
  [16; 1] ++ (if has_boot s then [1] else []) ++ [1; 1; lptr_ext (bl s); lptr_ext (bl s)]
    ++ map lw_dblk (filter l_is_dir (lvisit (bl s))).
Definition cat_objects (s : bstate) : list Z := if has_boot s then [1] else [].
Definition bobjects (s : bstate) : list Z :=
  head_objects s ++ cat_objects s ++ map (blk_of s) (data_inos s).

Definition blayout (s : bstate) : list (Z * Z) := bump 0 (bobjects s).
Definition blayout_end (s : bstate) : Z := bump_end 0 (bobjects s).

(* update_catalog_extent(current_extent): what the boot record points at *)
Definition cat_extent (s : bstate) : Z := bump_end 0 (head_objects s).
Definition data_start (s : bstate) : Z := bump_end 0 (head_objects s ++ cat_objects s).

(* _set_inode: inode number -> (extent, blocks) *)
Definition placed (s : bstate) : list (nat * (Z * Z)) :=
  combine (data_inos s) (bump (data_start s) (map (blk_of s) (data_inos s))).
Fixpoint assoc (i : nat) (l : list (nat * (Z * Z))) : option (Z * Z) :=
  match l with [] => None | (j, v) :: r => if Nat.eqb j i then Some v else assoc i r end.
Definition ino_extent (s : bstate) (i : nat) : option Z :=
  match assoc i (placed s) with Some v => Some (fst v) | None => None end.
(* entry.load_rba: _set_inode calls set_data_location on every member of linked_records, the
   El Torito entries included; an entry that is not reached keeps its old value (0 when new) *)
Definition rba_of (s : bstate) (i : nat) : Z :=
  match ino_extent s i with Some e => e | None => 0 end.
Definition entry_rbas (s : bstate) : list Z :=
  match bboot s with Some b => map (rba_of s) (binos b) | None => [] end.

(* ---- harness ------------------------------------------------------------------------------------ *)

Definition out_code (o : outcome) : Z := match o with Ref => 0 | Acc => 1 | Late => 2 end.

(* [space_size; path_tbl_size; path_table_num_extents; sum of directory data_lengths; len(inodes);
    volume descriptors (PVD + boot records + terminator); sections (-1 without catalog);
    inodes with a boot info table; len(dirrecords)] *)
Definition bcounters (s : bstate) : list Z :=
  let l := bl s in
  [lspace l; lptr_size l; lptr_ext l; ltotal lw_dlen (lroot l); zlen (linodes l);
   2 + (if has_boot s then 1 else 0);
   match bboot s with Some b => zlen (c_sections (bcat b)) | None => -1 end;
   zlen (filter (fun i => has_ino i (linodes l)) (bbits s));
   match bboot s with Some b => zlen (cat_recs b) | None => 0 end].

(* (outcome, counters, end of the last extent, catalog extent, load_rba of every entry,
    (extent, blocks) of every non-empty inode of self.inodes) ; after a wreck only the outcome *)
Definition obs : Type := (Z * list Z * Z * Z * list Z * list (Z * Z))%type.

Definition observe (o : outcome) (s : bstate) : obs :=
  if bwreck s then (out_code o, [], -1, -1, [], [])
  else (out_code o, bcounters s, blayout_end s, (if has_boot s then cat_extent s else -1),
        entry_rbas s,
        map (fun e => (rba_of s (fst e), ceiling_div (snd e) C))
            (filter (fun e => negb (snd e =? 0)) (linodes (bl s)))).

Fixpoint list_eqb {A} (eq : A -> A -> bool) (a b : list A) : bool :=
  match a, b with
  | [], [] => true
  | x :: a', y :: b' => eq x y && list_eqb eq a' b'
  | _, _ => false
  end.
Definition pair_eqb (a b : Z * Z) : bool := (fst a =? fst b) && (snd a =? snd b).
Definition obs_eqb (a b : obs) : bool :=
  let '(o1, c1, e1, x1, r1, p1) := a in
  let '(o2, c2, e2, x2, r2, p2) := b in
  (o1 =? o2) && list_eqb Z.eqb c1 c2 && (e1 =? e2) && (x1 =? x2) && list_eqb Z.eqb r1 r2 &&
  list_eqb pair_eqb p1 p2.

Definition bcase : Type := list (bop * obs).

(* every observation agrees, and space = end of the last extent after every operation *)
Fixpoint check_from (fx : bool) (s : bstate) (c : bcase) : bool :=
  match c with
  | [] => true
  | (o, expected) :: r =>
      let s' := fst (bstep_gen fx s o) in
      obs_eqb (observe (snd (bstep_gen fx s o)) s') expected &&
      (bwreck s' || (lspace (bl s') =? blayout_end s')) && check_from fx s' r
  end.
Definition check_case_gen (fx : bool) (c : bcase) : bool := check_from fx binit c.
Definition check_case : bcase -> bool := check_case_gen true.

Fixpoint bad_accountboot_cases_gen (fx : bool) (k : nat) (cs : list bcase) : list nat :=
  match cs with
  | [] => []
  | c :: r => if check_case_gen fx c then bad_accountboot_cases_gen fx (S k) r
              else k :: bad_accountboot_cases_gen fx (S k) r
  end.
Definition bad_accountboot_cases : nat -> list bcase -> list nat := bad_accountboot_cases_gen true.

Fixpoint brun_obs_from (fx : bool) (s : bstate) (ops : list bop) : list obs :=
  match ops with
  | [] => []
  | o :: r => let s' := fst (bstep_gen fx s o) in
              observe (snd (bstep_gen fx s o)) s' :: brun_obs_from fx s' r
  end.
Definition brun_obs (ops : list bop) : list obs := brun_obs_from true binit ops.
