(* Byte-level model of the El Torito boot-catalog codecs of /repo/pycdlib/eltorito.py and of the
   boot-info-table checksum of /repo/pycdlib/pycdlib.py.  Definitions only; the proofs are in
   Proofs/EltoritoProofs.v, EltoritoCatalogProofs.v, EltoritoBuiltProofs.v, EltoritoBitProofs.v.

   Sources modelled (statement by statement):
     EltoritoValidationEntry._record/.record/.new/.parse   -> val_bytes, val_record, val_new(_ids), val_parse
     EltoritoValidationEntry._checksum                     -> GenFun.et_checksum (generated)
     EltoritoEntry.record/.parse/.new/.set_data_location/.set_data_length/.length
                                                           -> entry_record, entry_parse, entry_new, ...
     EltoritoSectionHeader.record/.parse/.new/.add_parsed_entry/.add_new_entry/.set_record_not_last
                                                           -> header_record, header_parse, header_new, ...
     EltoritoBootCatalog.record/.new/.add_section/.parse   -> cat_record, cat_new, cat_add_section,
                                                              cat_parse_step
     PyCdlib._check_and_parse_eltorito (read(32) loop)     -> read32, parse_units, parse_zeros, parse_catalog_extent
                                                              (parse_catalog: the same loop fed from a string)
     EltoritoBootInfoTable.record/.parse/.new              -> bit_record, bit_parse, mk_bit
     PyCdlib._calculate_eltorito_boot_info_table_csum      -> bit_csum
     PyCdlib.add_eltorito (sector_count when boot_load_size is None) -> default_sector_count

   bytes = list Z (0..255).  struct.pack/unpack are modelled with the GENERATED field widths of
   GenConst.v (fmt_et_validation_widths, fmt_et_entry_widths, fmt_et_section_widths); an exception
   (struct.error, IndexError, PyCdlibInvalidISO, PyCdlibInvalidInput) is [None].  The '<LLLL' format
   of the boot info table is not in GenConst.v: its widths are [bit_widths] below. *)
From Coq Require Import ZArith List Bool.
From PV.Base Require Import Prim.
From PV.Gen Require Import GenConst GenFun.
From PV.Model Require Import Codec.
Import ListNotations.
Local Open Scope Z_scope.

Definition bytes_ok (l : list Z) : bool := forallb u8_ok l.

(* ---- EltoritoValidationEntry (FMT '<BBH24sHBB') ------------------------------------------ *)

Record et_val := mk_val { v_platform_id : Z; v_id_string : list Z; v_checksum : Z }.

(* `platform_id not in (0, 1, 2, 0xef)` *)
Definition platform_ok (p : Z) : bool := (p =? 0) || (p =? 1) || (p =? 2) || (p =? 239).

(* _record(): struct.pack(FMT, 1, platform_id, 0, id_string, checksum, 0x55, 0xaa) *)
Definition val_fields (v : et_val) : list (list Z) :=
  [[1]; [v_platform_id v]; le16 0; pack_s 24 (v_id_string v); le16 (v_checksum v); [85]; [170]].
Definition val_bytes (v : et_val) : list Z := concat (val_fields v).
Definition val_record (v : et_val) : option (list Z) :=
  if u8_ok (v_platform_id v) && u16_ok (v_checksum v) then Some (val_bytes v) else None.

(* new(platform_id) with the id string as a parameter (the code has the constant b'\x00'*24):
     self.checksum = 0 ; self.checksum = self._checksum(self._record()) *)
Definition val_new_ids (platform_id : Z) (ids : list Z) : option et_val :=
  if negb (platform_ok platform_id) then None else
  match val_record (mk_val platform_id ids 0) with
  | Some b => Some (mk_val platform_id ids (et_checksum b))
  | None => None
  end.
Definition val_new (platform_id : Z) : option et_val := val_new_ids platform_id (repeat 0 24).

(* parse(valstr) *)
Definition val_parse (valstr : list Z) : option et_val :=
  match split_widths (widths fmt_et_validation_widths) valstr with
  | Some ([f0; f1; f2; f3; f4; f5; f6], _) =>
      let header_id := d8 f0 in
      let platform_id := d8 f1 in
      if negb (header_id =? 1) then None else
      if negb (platform_ok platform_id) then None else
      if negb (d8 f5 =? 85) then None else
      if negb (d8 f6 =? 170) then None else
      if negb (et_checksum valstr =? 0) then None else
      Some (mk_val platform_id f3 (dle16 f4))
  | _ => None
  end.

Definition val_ok (v : et_val) : bool :=
  platform_ok (v_platform_id v) && (length (v_id_string v) =? 24)%nat && bytes_ok (v_id_string v) &&
  u16_ok (v_checksum v) && (et_checksum (val_bytes v) =? 0).

(* ---- EltoritoEntry (FMT '<BBHBBHLB19s') -------------------------------------------------- *)

Record et_entry := mk_entry {
  e_boot_indicator : Z; e_boot_media_type : Z; e_load_segment : Z; e_system_type : Z;
  e_sector_count : Z; e_load_rba : Z; e_sel_type : Z; e_sel_crit : list Z }.

(* record(): struct.pack(FMT, boot_indicator, boot_media_type, load_segment, system_type, 0,
                         sector_count, load_rba, selection_criteria_type, selection_criteria) *)
Definition entry_fields (e : et_entry) : list (list Z) :=
  [[e_boot_indicator e]; [e_boot_media_type e]; le16 (e_load_segment e); [e_system_type e]; [0];
   le16 (e_sector_count e); le32 (e_load_rba e); [e_sel_type e]; pack_s 19 (e_sel_crit e)].
Definition entry_bytes (e : et_entry) : list Z := concat (entry_fields e).
Definition entry_ranges_ok (e : et_entry) : bool :=
  u8_ok (e_boot_indicator e) && u8_ok (e_boot_media_type e) && u16_ok (e_load_segment e) &&
  u8_ok (e_system_type e) && u16_ok (e_sector_count e) && u32_ok (e_load_rba e) &&
  u8_ok (e_sel_type e).
Definition entry_record (e : et_entry) : option (list Z) :=
  if entry_ranges_ok e then Some (entry_bytes e) else None.

(* parse(valstr) *)
Definition entry_parse (valstr : list Z) : option et_entry :=
  match split_widths (widths fmt_et_entry_widths) valstr with
  | Some ([f0; f1; f2; f3; f4; f5; f6; f7; f8], _) =>
      let boot_indicator := d8 f0 in
      let boot_media_type := d8 f1 in
      let unused1 := d8 f4 in
      if negb ((boot_indicator =? 136) || (boot_indicator =? 0)) then None else
      if boot_media_type >? 4 then None else
      if negb (unused1 =? 0) then None else
      Some (mk_entry boot_indicator boot_media_type (dle16 f2) (d8 f3) (dle16 f5) (dle32 f6)
                     (d8 f7) f8)
  | _ => None
  end.

(* the media_name string argument: 'noemul', 'floppy', 'hdemul', anything else *)
Inductive media_name := MNoemul | MFloppy | MHdemul | MOther.
Definition media_of_Z (m : Z) : media_name :=
  if m =? 0 then MNoemul else if m =? 1 then MFloppy else if m =? 2 then MHdemul else MOther.

(* new(sector_count, load_seg, media_name, system_type, bootable) *)
Definition entry_new (sector_count load_seg : Z) (media : media_name) (system_type : Z)
                     (bootable : bool) : option et_entry :=
  (* after the media_name chain:  if not 0 <= sector_count <= 0xffff: raise ; if not 0 <= load_seg
     <= 0xffff: raise ; if not 0 <= system_type <= 0xff: raise *)
  let mk media_type sector_count :=
    if negb (u16_ok sector_count) then None else
    if negb (u16_ok load_seg) then None else
    if negb (u8_ok system_type) then None else
    Some (mk_entry (if bootable then 136 else 0) media_type load_seg system_type sector_count 0 0
                   (repeat 0 19)) in
  match media with
  | MNoemul => mk 0 sector_count
  | MFloppy =>
      if sector_count =? 2400 then mk 1 1
      else if sector_count =? 2880 then mk 2 1
      else if sector_count =? 5760 then mk 3 1
      else None
  | MHdemul => mk 4 1
  | MOther => None
  end.

Definition entry_set_rba (e : et_entry) (rba : Z) : et_entry :=
  mk_entry (e_boot_indicator e) (e_boot_media_type e) (e_load_segment e) (e_system_type e)
           (e_sector_count e) rba (e_sel_type e) (e_sel_crit e).
Definition entry_set_sector_count (e : et_entry) (sc : Z) : et_entry :=
  mk_entry (e_boot_indicator e) (e_boot_media_type e) (e_load_segment e) (e_system_type e)
           sc (e_load_rba e) (e_sel_type e) (e_sel_crit e).
Definition entry_set_crit (e : et_entry) (crit : list Z) : et_entry :=
  mk_entry (e_boot_indicator e) (e_boot_media_type e) (e_load_segment e) (e_system_type e)
           (e_sector_count e) (e_load_rba e) (e_sel_type e) crit.
(* set_data_location(current_extent, tag_location): self.load_rba = current_extent *)
Definition entry_set_data_location (e : et_entry) (current_extent : Z) : et_entry :=
  entry_set_rba e current_extent.
(* set_data_length(length): self.sector_count = utils.ceiling_div(length, 512) *)
Definition entry_set_data_length (e : et_entry) (len : Z) : et_entry :=
  entry_set_sector_count e (ceiling_div len 512).
(* length(): sector_count * 512 *)
Definition entry_length (e : et_entry) : Z := e_sector_count e * 512.
(* add_eltorito, boot_load_size is None:
     ceiling_div(data_length, logical_block_size) * logical_block_size // 512   (block size 2048) *)
Definition default_sector_count (data_length : Z) : Z := ceiling_div data_length 2048 * 2048 / 512.

Definition entry_ok (e : et_entry) : bool :=
  ((e_boot_indicator e =? 136) || (e_boot_indicator e =? 0)) &&
  (0 <=? e_boot_media_type e) && (e_boot_media_type e <=? 4) && u16_ok (e_load_segment e) &&
  u8_ok (e_system_type e) && u16_ok (e_sector_count e) && u32_ok (e_load_rba e) &&
  u8_ok (e_sel_type e) && (length (e_sel_crit e) =? 19)%nat && bytes_ok (e_sel_crit e).
Definition entry_bootable (e : et_entry) : bool := e_boot_indicator e =? 136.

(* ---- EltoritoSectionHeader (FMT '<BBH28s') ----------------------------------------------- *)

Record et_header := mk_header {
  h_indicator : Z; h_platform_id : Z; h_num_entries : Z; h_id_string : list Z;
  h_entries : list et_entry }.

Definition header_fields (h : et_header) : list (list Z) :=
  [[h_indicator h]; [h_platform_id h]; le16 (h_num_entries h); pack_s 28 (h_id_string h)].
(* record(): the packed header followed by entry.record() of every entry of section_entries *)
Definition header_bytes (h : et_header) : list Z :=
  concat (header_fields h) ++ concat (map entry_bytes (h_entries h)).
Definition header_ranges_ok (h : et_header) : bool :=
  u8_ok (h_indicator h) && u8_ok (h_platform_id h) && u16_ok (h_num_entries h).
Definition header_record (h : et_header) : option (list Z) :=
  if header_ranges_ok h && forallb entry_ranges_ok (h_entries h) then Some (header_bytes h) else None.

(* parse(valstr): section_entries stays [] *)
Definition header_parse (valstr : list Z) : option et_header :=
  match split_widths (widths fmt_et_section_widths) valstr with
  | Some ([f0; f1; f2; f3], _) => Some (mk_header (d8 f0) (d8 f1) (dle16 f2) f3 [])
  | _ => None
  end.

(* new(id_string, platform_id) *)
Definition header_new (id_string : list Z) (platform_id : Z) : et_header :=
  mk_header 145 platform_id 0 id_string [].
Definition header_set_entries (h : et_header) (num : Z) (es : list et_entry) : et_header :=
  mk_header (h_indicator h) (h_platform_id h) num (h_id_string h) es.
(* add_parsed_entry(entry): raises when len(section_entries) >= num_section_entries *)
Definition header_add_parsed_entry (h : et_header) (e : et_entry) : option et_header :=
  if zlen (h_entries h) >=? h_num_entries h then None
  else Some (header_set_entries h (h_num_entries h) (h_entries h ++ [e])).
(* add_new_entry(entry): num_section_entries += 1 ; append *)
Definition header_add_new_entry (h : et_header) (e : et_entry) : et_header :=
  header_set_entries h (h_num_entries h + 1) (h_entries h ++ [e]).
(* set_record_not_last(): header_indicator = 0x90 *)
Definition header_set_record_not_last (h : et_header) : et_header :=
  mk_header 144 (h_platform_id h) (h_num_entries h) (h_id_string h) (h_entries h).

Definition header_ok (h : et_header) : bool :=
  ((h_indicator h =? 144) || (h_indicator h =? 145)) && u8_ok (h_platform_id h) &&
  u16_ok (h_num_entries h) && (length (h_id_string h) =? 28)%nat && bytes_ok (h_id_string h).

(* ---- EltoritoBootCatalog ----------------------------------------------------------------- *)

Record et_catalog := mk_cat {
  c_validation : et_val; c_initial : et_entry; c_sections : list et_header;
  c_standalone : list et_entry }.

(* l[-1] with the rest; None when l is empty *)
Fixpoint split_last {A} (l : list A) : option (list A * A) :=
  match l with
  | [] => None
  | x :: r => match split_last r with
              | None => Some ([], x)
              | Some (i, y) => Some (x :: i, y)
              end
  end.

(* record(): validation entry, initial entry, every section (header then its entries), then the
   standalone entries; no padding is added here *)
Definition cat_bytes (c : et_catalog) : list Z :=
  val_bytes (c_validation c) ++ entry_bytes (c_initial c) ++
  concat (map header_bytes (c_sections c)) ++ concat (map entry_bytes (c_standalone c)).
Definition cat_ranges_ok (c : et_catalog) : bool :=
  u8_ok (v_platform_id (c_validation c)) && u16_ok (v_checksum (c_validation c)) &&
  entry_ranges_ok (c_initial c) &&
  forallb (fun h => header_ranges_ok h && forallb entry_ranges_ok (h_entries h)) (c_sections c) &&
  forallb entry_ranges_ok (c_standalone c).
Definition cat_record (c : et_catalog) : option (list Z) :=
  if cat_ranges_ok c then Some (cat_bytes c) else None.
(* what _write_fp leaves in the catalog's extent: record() then the zeros of the 2048-byte extent *)
Definition cat_extent_bytes (c : et_catalog) : list Z :=
  cat_bytes c ++ repeat 0 (2048 - length (cat_bytes c)).

(* new(br, ino, sector_count, load_seg, media_name, system_type, platform_id, bootable) *)
Definition cat_new (sector_count load_seg : Z) (media : media_name) (system_type platform_id : Z)
                   (bootable : bool) : option et_catalog :=
  match val_new platform_id with
  | None => None
  | Some v =>
      match entry_new sector_count load_seg media system_type bootable with
      | None => None
      | Some e => Some (mk_cat v e [] [])
      end
  end.

(* add_section(ino, sector_count, load_seg, media_name, system_type, efi, bootable) *)
Definition cat_add_section (c : et_catalog) (sector_count load_seg : Z) (media : media_name)
                           (system_type : Z) (efi bootable : bool) : option et_catalog :=
  if zlen (c_sections c) =? 31 then None else
  let platform_id := if efi then 239 else v_platform_id (c_validation c) in
  let sec := header_new (repeat 0 28) platform_id in
  match entry_new sector_count load_seg media system_type bootable with
  | None => None
  | Some secentry =>
      let sec := header_add_new_entry sec secentry in
      let sections := match split_last (c_sections c) with
                      | None => c_sections c
                      | Some (i, l) => i ++ [header_set_record_not_last l]
                      end in
      Some (mk_cat (c_validation c) (c_initial c) (sections ++ [sec]) (c_standalone c))
  end.

(* the parser object: self.state together with the attributes that have been set so far *)
Inductive pstate :=
| PExpectVal
| PExpectInit (v : et_val)
| PSections (v : et_val) (i : et_entry) (secs : list et_header) (sa : list et_entry).

(* the sanity checks made when the terminating entry is seen *)
Fixpoint sections_sane (secs : list et_header) : bool :=
  match secs with
  | [] => true
  | s :: r =>
      (h_num_entries s =? zlen (h_entries s)) &&
      (match r with [] => true | _ => h_indicator s =? 144 end) && sections_sane r
  end.

(* self.sections and len(self.sections[-1].section_entries) < self.sections[-1].num_section_entries *)
Definition last_pending (secs : list et_header) : bool :=
  match split_last secs with
  | Some (_, l) => zlen (h_entries l) <? h_num_entries l
  | None => false
  end.

(* EltoritoBootCatalog.parse(valstr) -> (new object state, returned bool), tests in the order of the
   if/elif chain: 0x00 while the last section still expects entries is a (non-bootable) section
   entry, any other 0x00 the terminator; the b'\x00' of the later `val in (...)` is never reached *)
Definition cat_parse_step (st : pstate) (valstr : list Z) : option (pstate * bool) :=
  match st with
  | PExpectVal =>
      match val_parse valstr with Some v => Some (PExpectInit v, false) | None => None end
  | PExpectInit v =>
      match entry_parse valstr with Some e => Some (PSections v e [] [], false) | None => None end
  | PSections v i secs sa =>
      match valstr with
      | [] => None
      | val :: _ =>
          if (val =? 0) && last_pending secs then
            match entry_parse valstr with
            | None => None
            | Some e =>
                match split_last secs with
                | Some (pre, l) =>
                    match header_add_parsed_entry l e with
                    | Some l' => Some (PSections v i (pre ++ [l']) sa, false)
                    | None => None
                    end
                | None => None
                end
            end
          else if val =? 0 then
            if sections_sane secs then Some (st, true) else None
          else if (val =? 144) || (val =? 145) then
            match header_parse valstr with
            | Some h => Some (PSections v i (secs ++ [h]) sa, false)
            | None => None
            end
          else if (val =? 136) || (val =? 0) then
            match entry_parse valstr with
            | None => None
            | Some e =>
                match split_last secs with
                | Some (pre, l) =>
                    if zlen (h_entries l) <? h_num_entries l then
                      match header_add_parsed_entry l e with
                      | Some l' => Some (PSections v i (pre ++ [l']) sa, false)
                      | None => None
                      end
                    else Some (PSections v i secs (sa ++ [e]), false)
                | None => Some (PSections v i secs (sa ++ [e]), false)
                end
            end
          else if val =? 68 then
            (* self.sections[-1].section_entries[-1].selection_criteria += valstr[2:] *)
            match split_last secs with
            | Some (pre, l) =>
                match split_last (h_entries l) with
                | Some (es, e) =>
                    let e' := entry_set_crit e (e_sel_crit e ++ skipn 2 valstr) in
                    Some (PSections v i
                            (pre ++ [header_set_entries l (h_num_entries l) (es ++ [e'])]) sa, false)
                | None => None
                end
            | None => None
            end
          else None
      end
  end.

(* what the caller's loop returns once parse has returned True *)
Definition finish (st : pstate) : option et_catalog :=
  match st with
  | PSections v i secs sa => Some (mk_cat v i secs sa)
  | _ => None
  end.

(* The caller's loop `while not catalog.parse(data): data = <next 32-byte unit>` over the units
   read from the image; [after] says what happens when these are used up. *)
Fixpoint parse_units (after : pstate -> option et_catalog) (units : list (list Z)) (st : pstate)
  : option et_catalog :=
  match units with
  | [] => after st
  | u :: r =>
      match cat_parse_step st u with
      | None => None
      | Some (st', done) => if done then finish st' else parse_units after r st'
      end
  end.

(* n successive fp.read(32) on a stream holding [data] (short / empty reads at the end) *)
Fixpoint read32 (n : nat) (data : list Z) : list (list Z) :=
  match n with
  | O => []
  | S n' => firstn 32 data :: read32 n' (skipn 32 data)
  end.

(* feeding a byte string in 32-byte units until parse returns True (pycdlib's reader before commit
   351102c).  A read at the end returns b'' and parse then raises; S (length data) units suffice. *)
Definition parse_catalog (data : list Z) : option et_catalog :=
  parse_units (fun _ => None) (read32 (S (length data)) data) PExpectVal.

(* the synthetic units `data = b'\x00' * 32` *)
Fixpoint parse_zeros (fuel : nat) (st : pstate) : option et_catalog :=
  match fuel with
  | O => None
  | S f =>
      match cat_parse_step st (repeat 0 32) with
      | None => None
      | Some (st', done) => if done then finish st' else parse_zeros f st'
      end
  end.

(* PyCdlib._check_and_parse_eltorito as it is now:
     num_left = logical_block_size // 32 ; data = fp.read(32) ; num_left -= 1
     while not catalog.parse(data):
         if num_left > 0: data = fp.read(32) ; num_left -= 1
         else: data = b'\x00' * 32
   i.e. at most 64 units are read from the image ([data] = the image from the catalog's extent on),
   then zero units.  A zero unit ends the parse, raises, or is one of the at most 65535 entries the
   last header still expects (+2: validation / initial states): 65538 are never exhausted. *)
Definition zero_units : nat := Z.to_nat 65538.
Definition parse_catalog_extent (data : list Z) : option et_catalog :=
  parse_units (parse_zeros zero_units) (read32 64 data) PExpectVal.

(* -- well-formedness -- *)
Definition section_ok (h : et_header) : bool :=
  header_ok h && (h_num_entries h =? zlen (h_entries h)) && forallb entry_ok (h_entries h).
(* indicators: the last header 0x91, the others 0x90 *)
Fixpoint indicators_ok (secs : list et_header) : bool :=
  match secs with
  | [] => true
  | s :: r => (match r with [] => h_indicator s =? 145 | _ => h_indicator s =? 144 end) &&
              indicators_ok r
  end.
(* the invariant of new + add_section (with arguments that struct.pack accepts) *)
Definition cat_inv (c : et_catalog) : bool :=
  val_ok (c_validation c) && entry_ok (c_initial c) && forallb section_ok (c_sections c) &&
  indicators_ok (c_sections c) && (zlen (c_sections c) <=? 31) &&
  forallb (fun h => h_num_entries h =? 1) (c_sections c) &&
  (match c_standalone c with [] => true | _ => false end).
(* what the record -> parse round trip needs: section entries may be bootable or not; a standalone
   entry must be bootable (0x88): after complete sections a first byte 0x00 is the terminator *)
Definition cat_wf (c : et_catalog) : bool :=
  val_ok (c_validation c) && entry_ok (c_initial c) && forallb section_ok (c_sections c) &&
  sections_sane (c_sections c) &&
  forallb entry_ok (c_standalone c) && forallb entry_bootable (c_standalone c).
Definition all_bootable (c : et_catalog) : bool :=
  forallb (fun h => forallb entry_bootable (h_entries h)) (c_sections c).
(* the arguments of entry_new that record() can pack *)
Definition new_args_ok (sector_count load_seg : Z) (media : media_name) (system_type : Z) : bool :=
  u16_ok load_seg && u8_ok system_type &&
  (match media with MNoemul => u16_ok sector_count | _ => true end).

(* ---- EltoritoBootInfoTable ('<LLLL' + 40 zero bytes) ------------------------------------- *)

Definition bit_widths : list Z := [4; 4; 4; 4].

(* vd.extent_location(), inode.extent_location(), orig_len, csum *)
Record et_bit := mk_bit { b_vd_extent : Z; b_ino_extent : Z; b_orig_len : Z; b_csum : Z }.

Definition bit_fields (t : et_bit) : list (list Z) :=
  [le32 (b_vd_extent t); le32 (b_ino_extent t); le32 (b_orig_len t); le32 (b_csum t)].
Definition bit_bytes (t : et_bit) : list Z := concat (bit_fields t) ++ repeat 0 40.
Definition bit_ok (t : et_bit) : bool :=
  u32_ok (b_vd_extent t) && u32_ok (b_ino_extent t) && u32_ok (b_orig_len t) && u32_ok (b_csum t).
Definition bit_record (t : et_bit) : option (list Z) :=
  if bit_ok t then Some (bit_bytes t) else None.
(* parse(vd, datastr, ino): None = struct.error, Some None = returned False, Some (Some t) = True *)
Definition bit_parse (vd_extent ino_extent : Z) (datastr : list Z) : option (option et_bit) :=
  match split_widths (widths bit_widths) datastr with
  | Some ([f0; f1; f2; f3], _) =>
      let pvd_extent := dle32 f0 in
      let rec_extent := dle32 f1 in
      if negb (pvd_extent =? vd_extent) || negb (rec_extent =? ino_extent) then Some None
      else Some (Some (mk_bit vd_extent ino_extent (dle32 f2) (dle32 f3)))
  | _ => None
  end.

(* _calculate_eltorito_boot_info_table_csum, inner loop:
     while i < len(block): tmp, = struct.unpack_from('<L', block[:i + 4], i)
                           csum += tmp ; csum = csum & 0xffffffff ; i += 4 *)
Fixpoint bit_block_loop (fuel : nat) (block : list Z) (i csum : Z) : option Z :=
  match fuel with
  | O => None
  | S f =>
      if i <? zlen block then
        let buf := firstn (Z.to_nat (i + 4)) block in
        if zlen buf <? i + 4 then None
        else bit_block_loop f block (i + 4)
               (Z.land (csum + dle32 (skipn (Z.to_nat i) buf)) 4294967295)
      else Some csum
  end.

(* outer loop; [fp] is what data_fp can still deliver from its current position:
     block = data_fp.read(min(2048, data_len - curr_sector * 2048))     (read(n), n < 0: everything)
     block = block.ljust(2048, b'\x00') ; i = 64 if curr_sector == 0 *)
Fixpoint bit_sector_loop (n : nat) (data_len curr_sector : Z) (fp : list Z) (csum : Z) : option Z :=
  match n with
  | O => Some csum
  | S n' =>
      let want := Z.min 2048 (data_len - curr_sector * 2048) in
      let got := if want <? 0 then length fp else Z.to_nat want in
      let block := firstn got fp in
      let block := block ++ repeat 0 (2048 - length block) in
      match bit_block_loop (S (length block)) block (if curr_sector =? 0 then 64 else 0) csum with
      | None => None
      | Some csum' => bit_sector_loop n' data_len (curr_sector + 1) (skipn got fp) csum'
      end
  end.
(* num_sectors = ceiling_div(data_len, 2048) ; csum = 0 ; curr_sector = 0 ; while curr_sector < num_sectors *)
Definition bit_csum (fp : list Z) (data_len : Z) : option Z :=
  bit_sector_loop (Z.to_nat (ceiling_div data_len 2048)) data_len 0 fp 0.

(* specification vocabulary: little-endian 32-bit words, a short tail is completed with zeros *)
Fixpoint words32 (l : list Z) : list Z :=
  match l with
  | a :: b :: c :: d :: r => (a + 256 * b + 65536 * c + 16777216 * d) :: words32 r
  | [] => []
  | _ => [dle32 l]
  end.
Definition zsum32 (l : list Z) : Z := fold_right Z.add 0 (words32 l).
(* ---- executable checkers for the external differential harness --------------------------- *)
(* expected = [] stands for "the Python call raised".

   check_validation_case pid ids expected:
       v = EltoritoValidationEntry(); v.new(pid); v.id_string = ids; v.checksum = 0
       v.checksum = v._checksum(v._record()); expected = v.record()
     (with ids = b'\x00'*24 this is just v.new(pid); v.record()); new() raising -> [].
   check_entry_case (boot_indicator, boot_media_type, load_segment, system_type, sector_count,
                     load_rba, selection_criteria_type, selection_criteria) expected:
       the attributes of an EltoritoEntry, expected = e.record()
   check_entry_new_case sector_count load_seg media(0 noemul,1 floppy,2 hdemul,else invalid)
                     system_type bootable rba expected:
       e.new(sector_count, load_seg, name, system_type, bootable); e.set_data_location(rba, 0);
       expected = e.record()
   check_entry_dec_case b expected:  e.parse(b); expected = e.record()
   check_header_case (header_indicator, platform_id, num_section_entries, id_string) entries expected:
       attributes of an EltoritoSectionHeader and of its section_entries, expected = h.record()
   check_catalog_bytes cat_bytes: cat_bytes = the 2048-byte block of the catalog followed by
       arbitrary bytes (what follows in the image); the reader loop of _check_and_parse_eltorito
       succeeds on it and record() of the parsed catalog is a prefix of the 2048-byte block, the
       rest of the block being zero bytes *)
Definition check_validation_case (platform_id : Z) (id_string : list Z) (expected : list Z) : bool :=
  opt_bytes_eqb (match val_new_ids platform_id id_string with
                 | Some v => val_record v
                 | None => None
                 end) expected.
Definition entry_tuple : Type := (Z * Z * Z * Z * Z * Z * Z * list Z)%type.
Definition entry_of_tuple (t : entry_tuple) : et_entry :=
  let '(bi, mt, ls, st, sc, rba, selt, crit) := t in mk_entry bi mt ls st sc rba selt crit.
Definition check_entry_case (t : entry_tuple) (expected : list Z) : bool :=
  opt_bytes_eqb (entry_record (entry_of_tuple t)) expected.
Definition check_entry_new_case (sector_count load_seg media system_type : Z) (bootable : bool)
                                (rba : Z) (expected : list Z) : bool :=
  opt_bytes_eqb (match entry_new sector_count load_seg (media_of_Z media) system_type bootable with
                 | Some e => entry_record (entry_set_data_location e rba)
                 | None => None
                 end) expected.
Definition check_entry_dec_case (b : list Z) (expected : list Z) : bool :=
  opt_bytes_eqb (match entry_parse b with Some e => entry_record e | None => None end) expected.
Definition header_tuple : Type := (Z * Z * Z * list Z)%type.
Definition header_of_tuple (t : header_tuple) (es : list entry_tuple) : et_header :=
  let '(ind, pid, num, ids) := t in mk_header ind pid num ids (map entry_of_tuple es).
Definition check_header_case (t : header_tuple) (entries : list entry_tuple) (expected : list Z)
  : bool := opt_bytes_eqb (header_record (header_of_tuple t entries)) expected.
Fixpoint zeros_after (b data : list Z) : bool :=
  match b, data with
  | [], _ => forallb (fun x => x =? 0) data
  | x :: b', y :: d' => (x =? y) && zeros_after b' d'
  | _ :: _, [] => false
  end.
Definition check_catalog_bytes (cat_bytes : list Z) : bool :=
  match parse_catalog_extent cat_bytes with
  | Some c => match cat_record c with
              | Some b => zeros_after b (firstn 2048 cat_bytes)
              | None => false
              end
  | None => false
  end.

(* indices (counted from k) of the cases on which model and Python disagree *)
Fixpoint bad_validation_cases (k : nat) (cs : list (Z * list Z * list Z)) : list nat :=
  match cs with
  | [] => []
  | (p, ids, e) :: r => if check_validation_case p ids e then bad_validation_cases (S k) r
                        else k :: bad_validation_cases (S k) r
  end.
Fixpoint bad_entry_cases (k : nat) (cs : list (entry_tuple * list Z)) : list nat :=
  match cs with
  | [] => []
  | (t, e) :: r => if check_entry_case t e then bad_entry_cases (S k) r
                   else k :: bad_entry_cases (S k) r
  end.
Fixpoint bad_entry_new_cases (k : nat) (cs : list (Z * Z * Z * Z * bool * Z * list Z)) : list nat :=
  match cs with
  | [] => []
  | (sc, ls, m, st, b, rba, e) :: r =>
      if check_entry_new_case sc ls m st b rba e then bad_entry_new_cases (S k) r
      else k :: bad_entry_new_cases (S k) r
  end.
Fixpoint bad_header_cases (k : nat) (cs : list (header_tuple * list entry_tuple * list Z)) : list nat :=
  match cs with
  | [] => []
  | (t, es, e) :: r => if check_header_case t es e then bad_header_cases (S k) r
                       else k :: bad_header_cases (S k) r
  end.
Fixpoint bad_catalog_cases (k : nat) (cs : list (list Z)) : list nat :=
  match cs with
  | [] => []
  | b :: r => if check_catalog_bytes b then bad_catalog_cases (S k) r
              else k :: bad_catalog_cases (S k) r
  end.
