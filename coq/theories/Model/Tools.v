(* C20 -- pycdlib-genisoimage: collision numbering of derived ISO9660 names (build_iso_path) and
   the chained file hash used by -scan-for-duplicates (mm3hashfromfile over the TRANSLATED mm3hash).
   Names are lists of code points; [used] is the directory level's mangled_children.  The mangled
   name (filemangle) and extension come from utils.mangle_*_for_iso9660 (modelled in Names.v). *)
From Coq Require Import ZArith List Bool.
From PV.Gen Require Import GenFun.
Import ListNotations.
Local Open Scope Z_scope.

Fixpoint zlist_eqb (a b : list Z) : bool :=
  match a, b with
  | [], [] => true
  | x :: r, y :: s => (x =? y) && zlist_eqb r s
  | _, _ => false
  end.

Definition mem_name (n : list Z) (used : list (list Z)) : bool := existsb (zlist_eqb n) used.

(* '%.03d' % k for 0 <= k < 1000 *)
Definition digits3 (k : Z) : list Z := [48 + k / 100; 48 + (k / 10) mod 10; 48 + k mod 10].

(* the candidate name number k.  [candidate_old] is the tool before the fix: the dot is written even without an extension;
   [candidate]: a file without extension gets no dot *)
Definition candidate_old (is_dir : bool) (prefix ext : list Z) (k : Z) : list Z :=
  if is_dir then prefix ++ digits3 k else prefix ++ digits3 k ++ [46] ++ ext.
Definition candidate (is_dir : bool) (prefix ext : list Z) (k : Z) : list Z :=
  if is_dir then prefix ++ digits3 k
  else match ext with [] => prefix ++ digits3 k | _ => prefix ++ digits3 k ++ [46] ++ ext end.

(* the while loop: first free candidate among currnum = k, k+1, ... < 1000 *)
Fixpoint find_free_c (fuel : nat) (cand : Z -> list Z) (used : list (list Z)) (k : Z) : option (list Z) :=
  match fuel with
  | O => None
  | S f => let c := cand k in
           if mem_name c used then find_free_c f cand used (k + 1) else Some c
  end.
Definition find_free (fuel : nat) (is_dir : bool) (prefix ext : list Z) := find_free_c fuel (candidate is_dir prefix ext).
Definition find_free_old (fuel : nat) (is_dir : bool) (prefix ext : list Z) := find_free_c fuel (candidate_old is_dir prefix ext).

(* the name part of a mangled FILE name "name.ext" (mangle_file_for_iso9660 returns the two parts) *)
Definition fname (filemangle ext : list Z) : list Z :=
  match ext with [] => filemangle | _ => firstn (length filemangle - length ext - 1) filemangle end.

(* build_iso_path's name part: returns the chosen name and the new mangled_children, None = "skipping".
   The prefix that is numbered is cut from the NAME part of a file (repaired tool); [assign_name_old] is the tool before the
   fix, which cut it from the whole mangled name -- dot, extension and version included *)
Definition assign_name (is_dir : bool) (filemangle ext : list Z) (used : list (list Z)) : option (list Z * list (list Z)) :=
  if mem_name filemangle used then
    match find_free 1000 is_dir (firstn 5 (if is_dir then filemangle else fname filemangle ext)) ext used 0 with
    | Some n => Some (n, n :: used)
    | None => None
    end
  else Some (filemangle, filemangle :: used).
Definition assign_name_old (is_dir : bool) (filemangle ext : list Z) (used : list (list Z)) : option (list Z * list (list Z)) :=
  if mem_name filemangle used then
    match find_free_old 1000 is_dir (firstn 5 filemangle) ext used 0 with
    | Some n => Some (n, n :: used)
    | None => None
    end
  else Some (filemangle, filemangle :: used).

Fixpoint assign_all (items : list (bool * list Z * list Z)) (used : list (list Z)) : list (option (list Z)) * list (list Z) :=
  match items with
  | [] => ([], used)
  | (d, fm, ext) :: r =>
    match assign_name d fm ext used with
    | Some (n, used') => let '(ns, u) := assign_all r used' in (Some n :: ns, u)
    | None => let '(ns, u) := assign_all r used in (None :: ns, u)
    end
  end.

(* mm3hashfromfile: the file is hashed in blocks, the hash of a block seeds the next one *)
Definition hash_blocks (blocks : list (list Z)) : Z := fold_left (fun seed b => mm3hash b seed) blocks 0.
(* the variant that forgets to chain: only the last block counts *)
Definition hash_blocks_unchained (blocks : list (list Z)) : Z := fold_left (fun _ b => mm3hash b 0) blocks 0.
