(* Model of pycdlib's Rock Ridge continuation-block allocator.
     /repo/pycdlib/rockridge.py  class RockRidgeContinuationEntry  (__lt__ compares offsets only)
                                 class RockRidgeContinuationBlock  (track_entry/add_entry/remove_entry)
     /repo/pycdlib/headervd.py   PrimaryOrSupplementaryVD.add_rr_ce_entry
   An entry is (offset, length); a block is the Python list self._entries; M = _max_block_size.
   Definitions only (executable); proofs are in Proofs/CeAllocProofs.v. *)
From Coq Require Import ZArith List Bool.
Import ListNotations.
Local Open Scope Z_scope.

Definition entry := (Z * Z)%type.
Definition block := list entry.

(* RockRidgeContinuationEntry.__lt__ : self._offset < other.offset *)
Definition entry_lt (a b : entry) : bool := fst a <? fst b.

(* bisect.bisect_left(a, x):   lo, hi = 0, len(a)
                               while lo < hi:
                                   mid = (lo + hi) // 2
                                   if a[mid] < x: lo = mid + 1
                                   else: hi = mid
                               return lo
   hi - lo strictly decreases, so fuel = len(a) is always enough (for ANY list). *)
Fixpoint bisect_loop (fuel : nat) (a : block) (x : entry) (lo hi : nat) : nat :=
  match fuel with
  | O => lo
  | S f =>
      if Nat.ltb lo hi then
        let mid := Nat.div (lo + hi) 2 in
        if entry_lt (nth mid a (0, 0)) x then bisect_loop f a x (S mid) hi
        else bisect_loop f a x lo mid
      else lo
  end.

Definition bisect_left (a : block) (x : entry) : nat :=
  bisect_loop (length a) a x 0%nat (length a).

(* bisect.insort_left(a, x):  a.insert(bisect_left(a, x), x) *)
Definition insort_left (x : entry) (a : block) : block :=
  let i := bisect_left a x in firstn i a ++ x :: skipn i a.

(* ---- RockRidgeContinuationBlock.add_entry -------------------------------------------- *)

(* The for loop "for index, entry in enumerate(self._entries)".
   prev = None      <-> index == 0
   prev = Some p    <-> index > 0 and p = self._entries[index - 1]
   Result Some o = the loop hit "break" with offset = o; None = the loop ran to completion
   (so the for/else tail runs).  Note the index == 0 branch does not break when the test fails:
   it just falls through to the next iteration. *)
Fixpoint add_scan (len : Z) (prev : option entry) (es : block) : option Z :=
  match es with
  | [] => None
  | e :: tl =>
      match prev with
      | None =>
          if negb (fst e =? 0) && (len <=? fst e) then Some 0
          else add_scan len (Some e) tl
      | Some p =>
          let lastend := fst p + snd p - 1 in
          let gapsize := fst e - lastend - 1 in
          if gapsize >=? len then Some (lastend + 1)
          else add_scan len (Some e) tl
      end
  end.

(* the value of the local variable "offset" just before "if offset >= 0:" *)
Definition add_offset (M : Z) (es : block) (len : Z) : Z :=
  match add_scan len None es with
  | Some o => o
  | None =>
      match es with
      | _ :: _ =>
          let lastentry := last es (0, 0) in
          let lastend := fst lastentry + snd lastentry - 1 in
          let left := M - lastend - 1 in
          if left >=? len then lastend + 1 else -1
      | [] => if M >=? len then 0 else -1
      end
  end.

(* returns (offset, new self._entries) *)
Definition add_entry (M : Z) (es : block) (len : Z) : Z * block :=
  let offset := add_offset M es len in
  if offset >=? 0 then (offset, insort_left (offset, len) es) else (offset, es).

(* ---- the same with the classic off-by-one: gapsize = entry.offset - lastend ------------- *)
Fixpoint add_scan_gapbug (len : Z) (prev : option entry) (es : block) : option Z :=
  match es with
  | [] => None
  | e :: tl =>
      match prev with
      | None =>
          if negb (fst e =? 0) && (len <=? fst e) then Some 0
          else add_scan_gapbug len (Some e) tl
      | Some p =>
          let lastend := fst p + snd p - 1 in
          let gapsize := fst e - lastend in
          if gapsize >=? len then Some (lastend + 1)
          else add_scan_gapbug len (Some e) tl
      end
  end.

Definition add_offset_gapbug (M : Z) (es : block) (len : Z) : Z :=
  match add_scan_gapbug len None es with
  | Some o => o
  | None =>
      match es with
      | _ :: _ =>
          let lastentry := last es (0, 0) in
          let lastend := fst lastentry + snd lastentry - 1 in
          let left := M - lastend - 1 in
          if left >=? len then lastend + 1 else -1
      | [] => if M >=? len then 0 else -1
      end
  end.

Definition add_entry_gapbug (M : Z) (es : block) (len : Z) : Z * block :=
  let offset := add_offset_gapbug M es len in
  if offset >=? 0 then (offset, insort_left (offset, len) es) else (offset, es).

(* ---- remove_entry: delete the FIRST entry equal to (offset, length); None = PyCdlibInternalError *)
Fixpoint remove_entry (es : block) (offset len : Z) : option block :=
  match es with
  | [] => None
  | e :: tl =>
      if (fst e =? offset) && (snd e =? len) then Some tl
      else match remove_entry tl offset len with
           | Some tl' => Some (e :: tl')
           | None => None
           end
  end.

(* ---- track_entry: None = PyCdlibInvalidISO (either message) --------------------------------
   "overlap = range(max(entry.offset, offset), min(thislen, newlen) + 1); if overlap:" is true
   iff the range is non-empty, i.e. start < stop. *)
Definition overlaps (offset len : Z) (e : entry) : bool :=
  let newlen := offset + len - 1 in
  let thislen := fst e + snd e - 1 in
  Z.max (fst e) offset <? Z.min thislen newlen + 1.

Definition track_entry (M : Z) (es : block) (offset len : Z) : option block :=
  if existsb (overlaps offset len) es then None
  else if offset + len >? M then None
  else Some (insort_left (offset, len) es).

(* ---- headervd.py add_rr_ce_entry ---------------------------------------------------------
   "for block in self.rr_ce_blocks: offset = block.add_entry(length); if offset >= 0: break".
   Returns (Some (index, offset) if it broke out | None if the else clause must run,
            the blocks after the calls that were made). *)
Fixpoint add_rr_loop (M : Z) (blocks : list block) (len : Z)
  : option (nat * Z) * list block :=
  match blocks with
  | [] => (None, [])
  | b :: tl =>
      let r := add_entry M b len in
      if fst r >=? 0 then (Some (O, fst r), snd r :: tl)
      else
        let r2 := add_rr_loop M tl len in
        (match fst r2 with Some (i, o) => Some (S i, o) | None => None end, snd r :: snd r2)
  end.

(* (added_block, index in rr_ce_blocks of the returned block object, offset, new rr_ce_blocks) *)
Definition add_rr_ce_entry (M : Z) (blocks : list block) (len : Z)
  : bool * nat * Z * list block :=
  let r := add_rr_loop M blocks len in
  match fst r with
  | Some (i, o) => (false, i, o, snd r)
  | None =>
      let r' := add_entry M [] len in
      (true, length (snd r), fst r', snd r ++ [snd r'])
  end.

(* ---- executable helpers for the differential harness --------------------------------------- *)
Inductive ceop :=
| CeAdd (len : Z)                       (* pvd.add_rr_ce_entry(len) *)
| CeRemove (blk : nat) (off len : Z).   (* pvd.rr_ce_blocks[blk].remove_entry(off, len) *)

Fixpoint replace_nth {A} (n : nat) (x : A) (l : list A) {struct l} : list A :=
  match l with
  | [] => []
  | y :: tl => match n with O => x :: tl | S n' => y :: replace_nth n' x tl end
  end.

(* per-op output:
     CeAdd      -> (index of the block used, offset)     when offset >= 0
                   (-1, offset)  (offset is -1)          when even the fresh block refused
     CeRemove   -> (blk, 0) on success; (-1, -2) when blk is out of range or the entry is absent
                   (Python: IndexError / PyCdlibInternalError), state unchanged. *)
Definition ce_step (M : Z) (bs : list block) (op : ceop) : (Z * Z) * list block :=
  match op with
  | CeAdd len =>
      match add_rr_ce_entry M bs len with
      | (_, i, o, bs') => ((if o >=? 0 then Z.of_nat i else -1, o), bs')
      end
  | CeRemove blk off len =>
      match nth_error bs blk with
      | None => ((-1, -2), bs)
      | Some b =>
          match remove_entry b off len with
          | None => ((-1, -2), bs)
          | Some b' => ((Z.of_nat blk, 0), replace_nth blk b' bs)
          end
      end
  end.

Fixpoint run_from (M : Z) (bs : list block) (ops : list ceop) : list (Z * Z) * list block :=
  match ops with
  | [] => ([], bs)
  | op :: tl =>
      let r := ce_step M bs op in
      let r2 := run_from M (snd r) tl in
      (fst r :: fst r2, snd r2)
  end.

Definition run_ce (M : Z) (ops : list ceop) : list (Z * Z) := fst (run_from M [] ops).
Definition final_blocks (M : Z) (ops : list ceop) : list block := snd (run_from M [] ops).

(* boolean well-formedness check (reflected in the proofs file): entries inside [0, M),
   positive lengths, increasing, pairwise disjoint. *)
Fixpoint wfb_from (M lo : Z) (es : block) : bool :=
  match es with
  | [] => true
  | e :: tl =>
      (lo <=? fst e) && (0 <? snd e) && (fst e + snd e <=? M) && wfb_from M (fst e + snd e) tl
  end.
Definition wfb (M : Z) (es : block) : bool := wfb_from M 0 es.
