(* C06 -- the deferred-metadata ("lazy reshuffle") discipline of PyCdlib as a state machine.
   Faithful to pycdlib.py: edits mutate the core object graph and then call _finish_add /
   _finish_remove, which either recompute the derived metadata at once (always_consistent) or set
   the flag _needs_reshuffle; write_fp, get_record / list_children / walk style queries and
   force_consistency call _reshuffle_extents when the flag is set (force_consistency always).
   The model does NOT assume that every edit marks the metadata stale: [marks e] says whether
   edit e does (this is what a dropped _needs_reshuffle / early return breaks), and it is this
   function that the harness compares with the implementation's flag after every call. *)
From Coq Require Import List Bool.
Import ListNotations.

Section Lazy.
  Variables core derived image edit : Type.
  Variable apply : edit -> core -> core.          (* the mutation of the object graph *)
  Variable reshuffle : core -> derived.           (* _reshuffle_extents: from-scratch recomputation *)
  Variable master : core -> derived -> image.     (* _write_fp given core and derived metadata *)
  Variable marks : edit -> bool.                  (* does this edit call _finish_add/_finish_remove's flagging? *)

  Record st := { c : core; d : derived; stale : bool }.

  Inductive act :=
  | Edit (e : edit)
  | Force            (* force_consistency *)
  | Query            (* get_record / list_children / walk / full_path_from_dirrecord *)
  | Write.           (* write_fp: produces an image *)

  Definition refresh (s : st) : st :=
    if stale s then {| c := c s; d := reshuffle (c s); stale := false |} else s.

  Definition step (always : bool) (s : st) (a : act) : st * option image :=
    match a with
    | Edit e =>
      let c' := apply e (c s) in
      if marks e
      then if always then ({| c := c'; d := reshuffle c'; stale := false |}, None)
           else ({| c := c'; d := d s; stale := true |}, None)
      else ({| c := c'; d := d s; stale := stale s |}, None)       (* the flag is left as it was *)
    | Force => ({| c := c s; d := reshuffle (c s); stale := false |}, None)
    | Query => (refresh s, None)
    | Write => let s' := refresh s in (s', Some (master (c s') (d s')))
    end.

  Fixpoint run (always : bool) (s : st) (acts : list act) : st * list image :=
    match acts with
    | [] => (s, [])
    | a :: r =>
      let '(s1, o) := step always s a in
      let '(s2, os) := run always s1 r in
      (s2, match o with Some i => i :: os | None => os end)
    end.

  Definition edits_of (acts : list act) : list edit :=
    flat_map (fun a => match a with Edit e => [e] | _ => [] end) acts.

  Definition apply_all (es : list edit) (c0 : core) : core := fold_left (fun c e => apply e c) es c0.

  Definition init (c0 : core) : st := {| c := c0; d := reshuffle c0; stale := false |}.

  (* the image a schedule finally produces: run the acts, then write *)
  Definition final_image (always : bool) (c0 : core) (acts : list act) : image :=
    let s := fst (run always (init c0) acts) in
    let s' := refresh s in master (c s') (d s').

  (* what the harness compares with PyCdlib._needs_reshuffle after each call (lazy mode) *)
  Fixpoint flags (always : bool) (s : st) (acts : list act) : list bool :=
    match acts with
    | [] => []
    | a :: r => let s1 := fst (step always s a) in stale s1 :: flags always s1 r
    end.
End Lazy.
