(* C04 / C08 -- pycdlib's INCREMENTAL space accounting for ISO9660 images WITH Rock Ridge, as a state
   machine over edit histories: the tree of directory records (each with the record length and the
   continuation-area length RockRidge.new gives it), the shared Rock Ridge continuation blocks of the PVD
   (pvd.rr_ce_blocks, with object identity), the PVD counters, and the from-scratch extent assignment of
   _reshuffle_extents / _reassign_vd_dirrecord_extents including where the continuation blocks go.

   FRAGMENT (every restriction is a boolean guard in the step functions; a guarded-out edit is refused):
     one PVD, interchange level 3, Rock Ridge version fixed per history (r_ver: '1.09' | '1.10' | '1.12'),
     no Joliet / UDF / El Torito / XA / isohybrid, logical block size 2048, always_consistent = False;
     every file has exactly one name and one extent (0 <= length <= 0xfffff800);
     directories only at depth <= 7 (rr_too_deep: with Rock Ridge add_directory does NOT refuse depth 8 but
       relocates the directory under /RR_MOVED -- not modelled; files and symlinks may go into any
       existing directory, as in the code: _check_path_depth is skipped when rock_ridge is set);
     0 < len_cont_area of every created CE entry is a theorem (AccountRRPlace.arr_celen_pos), not a guard;
       len_cont_area <= 2048 is a check the code performs (dr.py _rr_new: 'Rock Ridge entries are too long to
       fit into a continuation block', added after this model found that rr_name = 'n' * 3000 left an EMPTY
       block in pvd.rr_ce_blocks and offset_cont_area = -1; /var/tmp/accountrr/probe_long_name.py);
     symlink names: non-empty, bytes in 2..255 without '/' (add_symlink does not check the ISO9660 name at
       all; b'\x00' / b'\x01' would be taken for '.' / '..'); file modes are pycdlib's defaults.

   Sources modelled statement by statement (/repo/pycdlib):
     pycdlib.py  new(rock_ridge=...)  (the extra block of the root's ER continuation area),
                 add_fp -> _add_fp -> _add_hard_link_to_inode -> new_file, _add_child_to_dr,
                 _update_rr_ce_entry;  add_directory (duplicate scan, new_dir, _add_child_to_dr,
                 _update_rr_ce_entry, _create_dot/_create_dotdot, path table);  add_symlink;
                 rm_file -> _rm_file_inodes -> (_rm_dr_link | inode is None: _remove_child_from_dr,
                 _remove_rr_ce_entry);
                 rm_directory;  _remove_rr_ce_entry;  _finish_add / _finish_remove;  _check_rr_name;
                 _reshuffle_extents, _reassign_vd_dirrecord_extents (continuation blocks get the current
                 extent when the first record pointing into them is popped from the BFS queue; the root's ER
                 block after all directories; then file contents)
     dr.py       _new (33 + len, even, > 255 refused), _rr_new (dr_len + 28 > 254 refused), new_file,
                 new_dir, new_symlink, new_dot, new_dotdot (record lengths through RRPlace.place),
                 _add_child (bisect_left, duplicates allowed inside a Rock Ridge directory called RR_MOVED),
                 remove_child;  data_length policy = Pack.dir_add / dir_remove
     headervd.py add_rr_ce_entry (CeAlloc.add_rr_ce_entry), remove_rr_ce_entry, clear_rr_ce_entries
     rockridge.py RockRidge.new (RRPlace.place), RockRidgeContinuationBlock (CeAlloc)

   [fx] selects what rm_file does with a record WITHOUT inode (a symlink): true = the code as it is now
   (_rm_file_inodes: _remove_child_from_dr, then _remove_rr_ce_entry); false = the code BEFORE the repair
   this model triggered (_remove_child_from_dr only: the continuation entry, and possibly its block, LEAK;
   kept for the refutation AccountRRProofs.arr_space_exact_old_refuted, /var/tmp/accountrr/probe_symlink_leak.py).
   [rr_step] = rr_step_gen true is the current code.  Not modelled: Rock Ridge link counts (Model/Nlink.v),
   rr_children, the lru caches, dates (RRPlace: lengths do not depend on them).  Exceptions that would leave a half-done edit
   (remove_entry on a missing entry, a block that is not tracked) are rendered as refusals and proved
   unreachable (AccountRRProofs.arr_release_never_fails).  A record pointing to a block that is NOT in
   pvd.rr_ce_blocks would keep that block's old extent in the library; [dir_area] would place it: such states
   are unreachable as well (arr_ce_sound).  Correspondence with the library: /verif/tools/account_rr_traces.py
   -> bad_accountrr_cases.  Definitions only. *)
From Coq Require Import ZArith List Bool.
From PV.Base Require Import Prim.
From PV.Gen Require Import GenConst GenFun.
From PV.Model Require Import Names Pack Alloc CeAlloc Codec RREntries RRWalk RRPlace Account.
Import ListNotations.
Local Open Scope Z_scope.

Definition key : Type := (nat * Z * Z)%type.   (* (ce_block identity, offset_cont_area, len_cont_area) *)

Record meta := mk_meta {
  m_name : ident;                 (* file_ident *)
  m_rr : list Z;                  (* rock_ridge.name() *)
  m_target : list Z;              (* symlink target ([] = none) *)
  m_ino : bool;                   (* the record has an inode (false: created by add_symlink) *)
  m_rlen : Z;                     (* dr_len, as RockRidge.new returned it *)
  m_ce : option key }.            (* dr_entries.ce_record is not None: where its area was placed *)

Inductive rnode : Type :=
| RFile (m : meta) (len : Z)
| RDir (m : meta) (dlen : Z) (kids : list rnode).            (* data_length, children[2:] *)

Definition meta_of (n : rnode) : meta := match n with RFile m _ => m | RDir m _ _ => m end.
Definition rname (n : rnode) : ident := m_name (meta_of n).
Definition r_is_dir (n : rnode) : bool := match n with RDir _ _ _ => true | RFile _ _ => false end.
Definition rkids (n : rnode) : list rnode := match n with RDir _ _ k => k | RFile _ _ => [] end.

(* ---- lookup / path walk (as Account.v, on the new node type) --------------------------------- *)
Definition rlookup (nm : ident) (kids : list rnode) : option (nat * rnode) :=
  let k := pos nm (map rname kids) in
  match nth_error kids k with
  | Some c => if bytes_eqb (rname c) nm then Some (k, c) else None
  | None => None
  end.

Fixpoint rsubtree (p : path) (n : rnode) : option rnode :=
  match p with
  | [] => Some n
  | x :: q =>
      match n with
      | RDir _ _ kids => match rlookup x kids with Some (_, c) => rsubtree q c | None => None end
      | RFile _ _ => None
      end
  end.

Fixpoint rreplace (p : path) (t : rnode) (n : rnode) : rnode :=
  match p with
  | [] => t
  | x :: q =>
      match n with
      | RDir m dl kids =>
          match rlookup x kids with
          | Some (k, c) => RDir m dl (set_at k (rreplace q t c) kids)
          | None => n
          end
      | RFile _ _ => n
      end
  end.

(* ---- record lengths: DirectoryRecord._rr_new -> RockRidge.new ------------------------------- *)
Definition rr_dates : list (list Z) := [repeat 0 7; repeat 0 7; repeat 0 7].
Definition FILE_MODE : Z := 33060.      (* 0o0100444 *)
Definition DIR_MODE : Z := 16749.       (* 0o040555 *)
Definition LINK_MODE : Z := 41325.      (* 0o0120555 *)

Definition M : Z := 2048.                 (* vd.logical_block_size() = _max_block_size *)
(* (dr_len, Some len_cont_area when a CE entry was created); None = an exception *)
Definition rr_new (v : rrv) (first : bool) (drlen : Z) (rr target : list Z) (mode : Z)
  : option (Z * option Z) :=
  if ALLOWED_DR_SIZE <? drlen + len_ce then None            (* 'Identifier is too long ... Rock Ridge' *)
  else
    match place (mk_pin v first rr mode (match target with [] => None | _ => Some target end)
                        false false false 0 drlen rr_dates) with
    | Some r =>
        if is_some (ce_record (pl_dr r))
        then (if M <? pl_celen r then None                  (* 'Rock Ridge entries are too long ...' *)
              else Some (new_dr_len_of r, Some (pl_celen r)))
        else Some (new_dr_len_of r, None)
    | None => None
    end.

(* new_dot / new_dotdot: identifier b'\x00' / b'\x01' (34 bytes), no name; the root's '.' has SP, ER, CE *)
Definition dot_len (v : rrv) (isroot : bool) : Z :=
  match rr_new v isroot 34 [] [] DIR_MODE with Some (x, _) => x | None => 34 end.
Definition dotdot_len (v : rrv) : Z :=
  match rr_new v false 34 [] [] DIR_MODE with Some (x, _) => x | None => 34 end.

Definition rst_of (v : rrv) (isroot : bool) (dl : Z) (lens : list Z) : dirst :=
  {| recs := dot_len v isroot :: dotdot_len v :: lens; dlen := dl |}.
Definition rlens (kids : list rnode) : list Z := map (fun c => m_rlen (meta_of c)) kids.
Definition is_root_path (p : path) : bool := match p with [] => true | _ => false end.

(* ---- the continuation blocks of the PVD ------------------------------------------------------- *)
Definition cblocks := list (nat * block).     (* (object identity, _entries) in rr_ce_blocks order *)

(* _update_rr_ce_entry: (added_block, where the area went, the new rr_ce_blocks) *)
Definition ce_alloc (bs : cblocks) (nid : nat) (celen : Z) : bool * key * cblocks :=
  match add_rr_ce_entry M (map snd bs) celen with
  | (added, idx, off, bl') =>
      let ids := map fst bs ++ [nid] in
      (added, (nth idx ids nid, off, celen), combine ids bl')
  end.

(* pvd.remove_rr_ce_entry(block, offset, length): Some (block dropped, new rr_ce_blocks);
   None = block.remove_entry raised, or the block is not tracked (unreachable, see header) *)
Fixpoint ce_release (bs : cblocks) (id : nat) (off len : Z) : option (bool * cblocks) :=
  match bs with
  | [] => None
  | (i, es) :: tl =>
      if Nat.eqb i id then
        match remove_entry es off len with
        | None => None
        | Some [] => Some (true, tl)
        | Some es' => Some (false, (i, es') :: tl)
        end
      else match ce_release tl id off len with
           | Some (b, tl') => Some (b, (i, es) :: tl')
           | None => None
           end
  end.

(* ---- state ------------------------------------------------------------------------------------- *)
Record rstate := mk_rstate {
  r_ver : rrv; r_root : rnode; r_ptr_size : Z; r_ptr_ext : Z; r_space : Z;
  r_blocks : cblocks; r_next : nat }.

Definition root_meta : meta := mk_meta [0] [] [] false 34 None.

(* PyCdlib.new(interchange_level=3, rock_ridge=v): _finish_add(vdst + version block,
   4 path table blocks + root directory + the block of the root's ER continuation area) *)
Definition rr_init (v : rrv) : rstate :=
  {| r_ver := v; r_root := RDir root_meta C [];
     r_ptr_size := 10; r_ptr_ext := ceiling_div 10 4096 * 2;
     r_space := 17 + ceiling_div ((C + C) + (4 * C + C + C)) C;
     r_blocks := []; r_next := O |}.

Inductive rop :=
| RAddFile (dir : path) (name : ident) (rr : list Z) (len : Z)    (* add_fp(fp, len, path, rr_name=rr) *)
| RAddDir (parent : path) (name : ident) (rr : list Z)            (* add_directory(path, rr_name=rr) *)
| RAddSymlink (dir : path) (name : ident) (rr target : list Z)    (* add_symlink(path, rr, target) *)
| RRmFile (dir : path) (name : ident)                             (* rm_file(path) *)
| RRmDir (p : path).                                              (* rm_directory(path) *)

Definition rrefuse (s : rstate) : rstate * bool := (s, false).

(* _check_rr_name: `not rr_name` / rr_name.count('/') != 0 *)
Definition has_slash (l : list Z) : bool := existsb (Z.eqb 47) l.
Definition rr_name_ok (rr : list Z) : bool := nonempty rr && negb (has_slash rr).
(* _add_child: `self.rock_ridge is not None and self.file_identifier() == b'RR_MOVED'` *)
Definition RR_MOVED : ident := [82; 82; 95; 77; 79; 86; 69; 68].
(* before the repair a NEW entry could duplicate a name inside a directory called RR_MOVED ([dup_allowed_old]); now
   `check_overflow or not (...)`: only a parsed image may hold equal names there, new entries are refused as anywhere *)
Definition dup_allowed_old (isroot : bool) (m : meta) : bool := negb isroot && bytes_eqb (m_name m) RR_MOVED.
Definition dup_allowed (isroot : bool) (m : meta) : bool := false.
Definition plain_name (nm : ident) : bool :=
  nonempty nm && forallb (fun c => (2 <=? c) && (c <=? 255) && negb (c =? 47)) nm.
Definition rr_too_deep (parent : path) : bool := Z.of_nat (length parent) + 1 >? 7.

(* the common tail of add_fp / add_symlink / add_directory once the record exists:
   _add_child_to_dr(rec); _update_rr_ce_entry(rec) [; path table; + one block for a directory] *)
Definition add_record (s : rstate) (dirp : path) (dm : meta) (dl : Z) (kids : list rnode)
    (mk : option key -> rnode) (nm : ident) (x : Z) (ce : option Z)
    (ptr : bool * Z * Z) (extra : Z) : rstate * bool :=
  let k := pos nm (map rname kids) in
  let d := rst_of (r_ver s) (is_root_path dirp) dl (rlens kids) in
  let grow := if add_overflows d (2 + k) x then C else 0 in
  let d' := dir_add C d (2 + k) x in
  let '(cebytes, cekey, bs', nid') :=
    match ce with
    | Some celen =>
        let '(added, ky, bs') := ce_alloc (r_blocks s) (r_next s) celen in
        ((if added then C else 0), Some ky, bs', if added then S (r_next s) else r_next s)
    | None => (0, None, r_blocks s, r_next s)
    end in
  let '(b, ps, pe) := ptr in
  let num_bytes_to_add := extra + grow + cebytes + (if b then 4 * C else 0) in
  ({| r_ver := r_ver s;
      r_root := rreplace dirp (RDir dm (dlen d') (insert_at k (mk cekey) kids)) (r_root s);
      r_ptr_size := ps; r_ptr_ext := pe;
      r_space := r_space s + ceiling_div (0 + num_bytes_to_add) C;
      r_blocks := bs'; r_next := nid' |}, true).

(* add_fp *)
Definition step_add_file (s : rstate) (dirp : path) (nm : ident) (rr : list Z) (len : Z)
  : rstate * bool :=
  if negb ((0 <=? len) && (len <=? max_len)) then rrefuse s               (* outside the fragment *)
  else if negb (rr_name_ok rr) then rrefuse s                             (* _check_rr_name *)
  else
    match rsubtree dirp (r_root s) with
    | None => rrefuse s                                                   (* 'Could not find path' *)
    | Some parent =>
        match check_iso9660_filename nm 3 with
        | Accept =>
            let x0 := dr_len_of nm in
            if x0 >? 255 then rrefuse s                                   (* _new *)
            else
              match rr_new (r_ver s) false x0 rr [] FILE_MODE with
              | None => rrefuse s                                         (* _rr_new / RockRidge.new *)
              | Some (x, ce) =>
                  match parent with
                  | RFile _ _ => rrefuse s                                (* not a directory *)
                  | RDir dm dl kids =>
                      if is_some (rlookup nm kids) && negb (dup_allowed (is_root_path dirp) dm)
                      then rrefuse s                                      (* duplicate name *)
                      else add_record s dirp dm dl kids
                             (fun ky => RFile (mk_meta nm rr [] true x ky) len) nm x ce
                             (false, r_ptr_size s, r_ptr_ext s) len
                  end
              end
        | _ => rrefuse s
        end
    end.

(* add_symlink(symlink_path, rr_symlink_name, rr_path) *)
Definition step_add_symlink (s : rstate) (dirp : path) (nm : ident) (rr target : list Z)
  : rstate * bool :=
  if negb (plain_name nm) then rrefuse s                                  (* outside the fragment *)
  else
    match rsubtree dirp (r_root s) with
    | None => rrefuse s
    | Some parent =>
        let x0 := dr_len_of nm in
        if x0 >? 255 then rrefuse s
        else
          match rr_new (r_ver s) false x0 rr target LINK_MODE with
          | None => rrefuse s
          | Some (x, ce) =>
              match parent with
              | RFile _ _ => rrefuse s
              | RDir dm dl kids =>
                  if is_some (rlookup nm kids) && negb (dup_allowed (is_root_path dirp) dm)
                  then rrefuse s
                  else add_record s dirp dm dl kids
                         (fun ky => RFile (mk_meta nm rr target false x ky) 0) nm x ce
                         (false, r_ptr_size s, r_ptr_ext s) 0
              end
          end
    end.

(* add_directory *)
Definition step_add_dir (s : rstate) (parent : path) (nm : ident) (rr : list Z) : rstate * bool :=
  if negb (rr_name_ok rr) then rrefuse s
  else if rr_too_deep parent then rrefuse s                               (* outside the fragment *)
  else
    match rsubtree parent (r_root s) with
    | None => rrefuse s
    | Some par =>
        match check_iso9660_directory nm 3 with
        | Accept =>
            (* `for child in parent.children: if child.file_ident == name` *)
            if existsb (fun c => bytes_eqb (rname c) nm) (rkids par)
               && negb (dup_allowed (is_root_path parent) (meta_of par))
            then rrefuse s
            else
              let x0 := dr_len_of nm in
              if x0 >? 255 then rrefuse s
              else
                match rr_new (r_ver s) false x0 rr [] DIR_MODE with
                | None => rrefuse s
                | Some (x, ce) =>
                    match par with
                    | RFile _ _ => rrefuse s
                    | RDir dm dl kids =>
                        if is_some (rlookup nm kids) && negb (dup_allowed (is_root_path parent) dm)
                        then rrefuse s
                        else add_record s parent dm dl kids
                               (fun ky => RDir (mk_meta nm rr [] false x ky) C []) nm x ce
                               (add_to_ptr_size (r_ptr_size s) (r_ptr_ext s) (ptr_record_length (zlen nm)))
                               C
                    end
                end
        | _ => rrefuse s
        end
    end.

(* _remove_rr_ce_entry(rec): (bytes released, new rr_ce_blocks); None = exception *)
Definition release_of (bs : cblocks) (m : meta) : option (Z * cblocks) :=
  match m_ce m with
  | Some (id, off, len) =>
      match ce_release bs id off len with
      | Some (dropped, bs') => Some ((if dropped then C else 0), bs')
      | None => None
      end
  | None => Some (0, bs)
  end.

(* rm_file *)
Definition step_rm_file (fx : bool) (s : rstate) (dirp : path) (nm : ident) : rstate * bool :=
  match rsubtree dirp (r_root s) with
  | Some (RDir dm dl kids) =>
      match rlookup nm kids with
      | Some (k, RFile cm len) =>
          let d := rst_of (r_ver s) (is_root_path dirp) dl (rlens kids) in
          let shrink := if rm_underflows d (2 + k) then C else 0 in
          let d' := dir_remove C d (2 + k) in
          (* _rm_dr_link, or for `inode is None`: _remove_child_from_dr; _remove_rr_ce_entry (fx) *)
          match (if m_ino cm || fx then release_of (r_blocks s) cm else Some (0, r_blocks s)) with
          | Some (cebytes, bs') =>
              let num_bytes_to_remove := shrink + cebytes + len in
              ({| r_ver := r_ver s;
                  r_root := rreplace dirp (RDir dm (dlen d') (remove_at k kids)) (r_root s);
                  r_ptr_size := r_ptr_size s; r_ptr_ext := r_ptr_ext s;
                  r_space := r_space s - ceiling_div num_bytes_to_remove C;
                  r_blocks := bs'; r_next := r_next s |}, true)
          | None => rrefuse s                                  (* proved unreachable *)
          end
      | _ => rrefuse s
      end
  | _ => rrefuse s
  end.

(* rm_directory *)
Definition step_rm_dir (s : rstate) (p : path) : rstate * bool :=
  match unsnoc p with
  | None => rrefuse s
  | Some (q, y) =>
      match rsubtree q (r_root s) with
      | Some (RDir dm dl kids) =>
          match rlookup y kids with
          | Some (k, RDir cm cdl []) =>
              let d := rst_of (r_ver s) (is_root_path q) dl (rlens kids) in
              let shrink := if rm_underflows d (2 + k) then C else 0 in
              let d' := dir_remove C d (2 + k) in
              match remove_from_ptr_size (r_ptr_size s) (r_ptr_ext s)
                                         (ptr_record_length (zlen (m_name cm))) with
              | Some (b, ps, pe) =>
                  match release_of (r_blocks s) cm with
                  | Some (cebytes, bs') =>
                      let num_bytes_to_remove := shrink + (if b then 4 * C else 0) + cdl + cebytes in
                      ({| r_ver := r_ver s;
                          r_root := rreplace q (RDir dm (dlen d') (remove_at k kids)) (r_root s);
                          r_ptr_size := ps; r_ptr_ext := pe;
                          r_space := r_space s - ceiling_div num_bytes_to_remove C;
                          r_blocks := bs'; r_next := r_next s |}, true)
                  | None => rrefuse s                          (* proved unreachable *)
                  end
              | None => rrefuse s                              (* proved unreachable *)
              end
          | _ => rrefuse s
          end
      | _ => rrefuse s
      end
  end.

Definition rr_step_gen (fx : bool) (s : rstate) (o : rop) : rstate * bool :=
  match o with
  | RAddFile d n rr l => step_add_file s d n rr l
  | RAddDir d n rr => step_add_dir s d n rr
  | RAddSymlink d n rr t => step_add_symlink s d n rr t
  | RRmFile d n => step_rm_file fx s d n
  | RRmDir p => step_rm_dir s p
  end.
Definition rr_run_gen (fx : bool) (s : rstate) (ops : list rop) : rstate :=
  fold_left (fun s o => fst (rr_step_gen fx s o)) ops s.

(* the code as it is in /repo *)
Definition rr_step := rr_step_gen true.
Definition rr_run := rr_run_gen true.

(* ---- the from-scratch extent assignment -------------------------------------------------------- *)
Fixpoint rsize (n : rnode) : nat :=
  match n with
  | RFile _ _ => 1%nat
  | RDir _ _ kids =>
      S ((fix go (l : list rnode) : nat :=
            match l with [] => O | c :: r => (rsize c + go r)%nat end) kids)
  end.

Fixpoint rbfs (fuel : nat) (queue : list rnode) : list rnode :=
  match fuel with
  | O => []
  | S f => match queue with
           | [] => []
           | n :: q => n :: rbfs f (q ++ rkids n)
           end
  end.
Definition rvisit (s : rstate) : list rnode := rbfs (rsize (r_root s)) [r_root s].

Definition ce_id (n : rnode) : option nat :=
  match m_ce (meta_of n) with Some (i, _, _) => Some i | None => None end.
Definition mem_nat (i : nat) (l : list nat) : bool := existsb (Nat.eqb i) l.

(* one object of the directory area: a directory's extents or a continuation block *)
Inductive dobj := ODir (blocks : Z) | OCe (id : nat).
Definition dobj_size (o : dobj) : Z := match o with ODir b => b | OCe _ => 1 end.

(* the while loop of _reassign_vd_dirrecord_extents over the popped records: a directory gets
   ceiling_div(data_length) extents; then `if ce_block.extent_location() < 0:` the block of the record's
   continuation area gets the next one ([seen] = blocks whose extent is already >= 0) *)
Fixpoint dir_area (seen : list nat) (l : list rnode) : list dobj :=
  match l with
  | [] => []
  | n :: r =>
      let dpart := match n with RDir _ dl _ => [ODir (ceiling_div dl C)] | RFile _ _ => [] end in
      match ce_id n with
      | Some i => if mem_nat i seen then dpart ++ dir_area seen r
                  else dpart ++ OCe i :: dir_area (i :: seen) r
      | None => dpart ++ dir_area seen r
      end
  end.

Definition rin_file_list (n : rnode) : bool :=
  match n with RFile m len => negb (len =? 0) && m_ino m | RDir _ _ _ => false end.
Definition robj_size (n : rnode) : Z :=
  match n with RFile _ len => ceiling_div len C | RDir _ dl _ => ceiling_div dl C end.

(* system area, PVD, terminator, version block, L and M path tables, directories interleaved with
   continuation blocks, the root's ER block, file contents *)
Definition robjects (s : rstate) : list Z :=
  [16; 1; 1; 1; r_ptr_ext s; r_ptr_ext s]
    ++ map dobj_size (dir_area [] (rvisit s))
    ++ [1]
    ++ map robj_size (filter rin_file_list (rvisit s)).
Definition rr_layout (s : rstate) : list (Z * Z) := bump 0 (robjects s).
Definition rr_layout_end (s : rstate) : Z := bump_end 0 (robjects s).

(* the extent of every tracked continuation block, in rr_ce_blocks order (-1: never assigned) *)
Fixpoint ce_extent_of (id : nat) (start : Z) (l : list dobj) : Z :=
  match l with
  | [] => -1
  | OCe i :: r => if Nat.eqb i id then start else ce_extent_of id (start + 1) r
  | ODir b :: r => ce_extent_of id (start + b) r
  end.
Definition ce_extents (s : rstate) : list Z :=
  map (fun b => ce_extent_of (fst b) (19 + 2 * r_ptr_ext s) (dir_area [] (rvisit s))) (r_blocks s).

(* ---- additive measures ---------------------------------------------------------------------------- *)
Fixpoint rtotal (w : bool -> meta -> Z -> Z) (n : rnode) : Z :=
  match n with
  | RFile m len => w false m len
  | RDir m dl kids =>
      w true m dl +
      (fix go (l : list rnode) : Z := match l with [] => 0 | c :: r => rtotal w c + go r end) kids
  end.

Definition rw_dlen (d : bool) (m : meta) (v : Z) : Z := if d then v else 0.
Definition rw_ptr (d : bool) (m : meta) (v : Z) : Z := if d then ptr_record_length (zlen (m_name m)) else 0.
Definition rw_dblk (d : bool) (m : meta) (v : Z) : Z := if d then ceiling_div v C else 0.
Definition rw_fblk (d : bool) (m : meta) (v : Z) : Z :=
  if d then 0 else if m_ino m then ceiling_div v C else 0.
Definition rw_nino (d : bool) (m : meta) (v : Z) : Z := if d then 0 else if m_ino m then 1 else 0.
Definition key_eqb (a b : key) : bool :=
  let '(i, o, l) := a in let '(j, p, q) := b in Nat.eqb i j && (o =? p) && (l =? q).
(* the number of records whose continuation area is k *)
Definition rw_ref (k : key) (d : bool) (m : meta) (v : Z) : Z :=
  match m_ce m with Some k' => if key_eqb k' k then 1 else 0 | None => 0 end.

(* all (block, offset, length) that the tracked blocks hold *)
Definition flat (bs : cblocks) : list key :=
  flat_map (fun b => map (fun e => (fst b, fst e, snd e)) (snd b)) bs.
Definition kcount (k : key) (l : list key) : Z :=
  Alloc.zsum (map (fun x => if key_eqb x k then 1 else 0) l).

(* ---- harness --------------------------------------------------------------------------------------- *)
(* [space_size; path_tbl_size; path_table_num_extents; sum of directory data_lengths; len(inodes)] *)
Definition rprobe (s : rstate) : list Z :=
  [r_space s; r_ptr_size s; r_ptr_ext s; rtotal rw_dlen (r_root s); rtotal rw_nino (r_root s)].

Definition obs : Type := (bool * list Z * list (list (Z * Z)) * Z * list Z)%type.
(* (accepted, probe, [(e.offset, e.length) for e in blk._entries] per block of pvd.rr_ce_blocks,
    end of the last extent after a forced _reshuffle_extents, extent of every continuation block) *)
Definition observe (s : rstate) (ok : bool) : obs :=
  (ok, rprobe s, map snd (r_blocks s), rr_layout_end s, ce_extents s).

Fixpoint run_obs (fx : bool) (s : rstate) (ops : list rop) : list obs :=
  match ops with
  | [] => []
  | o :: r => let '(s', ok) := rr_step_gen fx s o in observe s' ok :: run_obs fx s' r
  end.

Fixpoint zz_eqb (a b : list (Z * Z)) : bool :=
  match a, b with
  | [], [] => true
  | (x, y) :: a', (u, v) :: b' => (x =? u) && (y =? v) && zz_eqb a' b'
  | _, _ => false
  end.
Fixpoint zzl_eqb (a b : list (list (Z * Z))) : bool :=
  match a, b with
  | [], [] => true
  | x :: a', y :: b' => zz_eqb x y && zzl_eqb a' b'
  | _, _ => false
  end.
Definition obs_eqb (a b : obs) : bool :=
  let '(f1, p1, b1, e1, x1) := a in let '(f2, p2, b2, e2, x2) := b in
  Bool.eqb f1 f2 && zlist_eqb p1 p2 && zzl_eqb b1 b2 && (e1 =? e2) && zlist_eqb x1 x2.
Fixpoint obsl_eqb (a b : list obs) : bool :=
  match a, b with
  | [], [] => true
  | x :: a', y :: b' => obs_eqb x y && obsl_eqb a' b'
  | _, _ => false
  end.

(* a case: (version code 109 | 110 | 112, the observation of the fresh image, operations, one
   observation per operation) *)
Definition rcase : Type := (Z * obs * list rop * list obs)%type.
Definition check_rcase (fx : bool) (c : rcase) : bool :=
  let '(vc, o0, ops, exp) := c in
  obs_eqb (observe (rr_init (vcode vc)) true) o0 && obsl_eqb (run_obs fx (rr_init (vcode vc)) ops) exp.
Definition bad_accountrr_cases_gen (fx : bool) (k : nat) (cs : list rcase) : list nat :=
  RRWalk.bad_cases (check_rcase fx) k cs.
Definition bad_accountrr_cases := bad_accountrr_cases_gen true.
