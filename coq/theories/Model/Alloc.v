(* C04 -- sector allocation as a bump allocator.  _reshuffle_extents / _reassign_vd_dirrecord_extents
   / _udf_assign_extents walk the objects of the image in some order and give each the current
   extent, then advance it by the object's size in sectors (utils.ceiling_div(bytes, 2048), or a
   fixed count).  Whatever the traversal order is, that discipline cannot make two objects
   overlap: this file states it for an arbitrary list of sizes; fixed positions (UDF sectors 32,
   48, 64, 256, 257) are gaps, i.e. objects of the appropriate size in the list. *)
From Coq Require Import ZArith List.
Import ListNotations.
Local Open Scope Z_scope.

Fixpoint bump (start : Z) (sizes : list Z) : list (Z * Z) :=      (* (first sector, sectors) *)
  match sizes with
  | [] => []
  | s :: r => (start, s) :: bump (start + s) r
  end.

Definition zsum (l : list Z) : Z := fold_right Z.add 0 l.
Definition bump_end (start : Z) (sizes : list Z) : Z := start + zsum sizes.

Definition disjoint (a b : Z * Z) : Prop := fst a + snd a <= fst b \/ fst b + snd b <= fst a.

(* sizes in sectors from sizes in bytes, as the code does it *)
Definition sectors_of (lbs : Z) (nbytes : Z) : Z := - ((- nbytes) / lbs).
