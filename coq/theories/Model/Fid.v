(* C10 -- UDF File Identifier Descriptors of one directory: where _udf_assign_extents says each
   descriptor lives (the tag location it records) and how many blocks the area takes; and the
   block deltas that add_file_ident_desc / remove_file_ident_desc_by_name report to the space
   accounting.  Lengths come from the TRANSLATED UDFFileIdentifierDescriptor.length. *)
From Coq Require Import ZArith List Bool.
From PV.Gen Require Import GenFun.
Import ListNotations.
Local Open Scope Z_scope.

(* the loop of pycdlib.py:_udf_assign_extents over fi_descs: [cur] is the current block (relative to
   the first block of the area), [off] the running offset, which is only folded back lazily *)
Fixpoint fid_walk (lbs cur off : Z) (lens : list Z) : list Z * (Z * Z) :=
  match lens with
  | [] => ([], (cur, off))
  | x :: r =>
    let '(cur', off') := if off >=? lbs then (cur + 1, off - lbs) else (cur, off) in
    let '(rest, fin) := fid_walk lbs cur' (off' + x) r in
    (cur' :: rest, fin)
  end.

Definition fid_locations (lbs : Z) (lens : list Z) : list Z := fst (fid_walk lbs 0 0 lens).

(* blocks consumed: "if offset > lbs: current_extent += 1" then "current_extent += 1" *)
Definition fid_blocks (lbs : Z) (lens : list Z) : Z :=
  let '(cur, off) := snd (fid_walk lbs 0 0 lens) in (if off >? lbs then cur + 1 else cur) + 1.

(* the variant with ">" instead of ">=" in the loop test *)
Fixpoint fid_walk_gt (lbs cur off : Z) (lens : list Z) : list Z :=
  match lens with
  | [] => []
  | x :: r =>
    let '(cur', off') := if off >? lbs then (cur + 1, off - lbs) else (cur, off) in
    cur' :: fid_walk_gt lbs cur' (off' + x) r
  end.

Fixpoint starts (acc : Z) (lens : list Z) : list Z :=
  match lens with [] => [] | x :: r => acc :: starts (acc + x) r end.

Definition zsum (l : list Z) : Z := fold_right Z.add 0 l.

(* add_file_ident_desc / remove_file_ident_desc_by_name: info_len and the reported block delta *)
Definition fid_add (lbs info_len namelen : Z) : Z * Z :=
  let old := if info_len >? 0 then ceiling_div info_len lbs else 0 in
  let info' := info_len + udf_fid_length namelen in
  (info', ceiling_div info' lbs - old).

Definition fid_remove (lbs info_len namelen : Z) : Z * Z :=
  let old := ceiling_div info_len lbs in
  let info' := info_len - udf_fid_length namelen in
  (info', old - ceiling_div info' lbs).
