(* C10 -- where PyCdlib puts every UDF structure of a whole UDF directory TREE, and what every pointer
   between them says.  Definitions only; proofs are in Proofs/UdfLayout*Proofs.v.

   Sources modelled (statement by statement unless noted):
     PyCdlib._udf_assign_extents       -> ul_bfs (the deque loop over directories: File Entry at
                                          current_extent, identifier area behind it, fi_desc.set_icb when the
                                          CHILD is popped, parent FID icb = extent of the parent's File Entry,
                                          the root being its own parent), ul_assign_fes (the loop over
                                          udf_file_assign_list with udf_file_entry_inodes_assigned),
                                          logical_volume_contents_use.unique_id = current_extent
     PyCdlib._reshuffle_extents        -> ul_assign_data over pvd_files ++ udf_files with linked_inodes
                                          (only the part after _udf_assign_extents; the ISO9660 side is the
                                          INPUT iso_side, see below)
     PyCdlib._set_inode                -> one step of ul_assign_data (ceiling_div(ino.get_data_length(), lbs))
     UDFFileEntry.new (file)           -> ul_file_ads' lengths (0x3ffff800 pieces), log_block_recorded
     UDFFileEntry.set_data_location    -> ul_file_ads' positions
     UDFFileEntry.set_extent_location  -> tag_location = extent - part_start, unique_id = extent
     PyCdlib._add_fp                   -> ul_last_piece (files > 0xfffff800 are cut into several Inodes and the
                                          UDF File Entry is linked to the LAST one with the FULL length)
     add_directory / _add_hard_link_to_inode / rm_* (UDF parts) -> ul_step (the object graph after a
                                          history: fi_descs in insertion order, parent FID first)
     _finish_add / _finish_remove / new -> ul_part_length (closed form of the running sum, see proofs)
     LVID num_files / num_dirs          -> ul_count_files (NAMES, a hard link counts again) / ul_count_dirs (root included)
   One directory's bookkeeping (info_len, FID offsets and tag locations) is Model/UdfDir.v + Fid.v.

   ISO9660 side (images WITHOUT Joliet / Rock Ridge / El Torito): enters only through iso_side =
   (number of blocks _reshuffle_extents consumes between the end of the UDF metadata and the first
   file data: 2 * path_table_num_extents + blocks of all ISO9660 directories; the Inodes, with their
   lengths, in the order _reassign_vd_dirrecord_extents returns them).  iso_none = (5, []) is the
   image in which every add names a udf_path only. *)
From Coq Require Import ZArith List Bool.
From PV.Base Require Import Prim.
From PV.Gen Require Import GenConst GenFun.
From PV.Model Require Import Codec Fid Udf UdfDir.
Import ListNotations.
Local Open Scope Z_scope.

Definition uname := list Z.          (* fi: encoded name, no compression-id byte *)
Definition upath := list uname.

(* the UDF namespace: children in INSERTION order; two file names may share an inode id *)
Inductive utree :=
  | UFile (n : uname) (len : Z) (ino : nat)
  | UDir (n : uname) (cs : list utree).

Definition ut_name (t : utree) : uname := match t with UFile n _ _ => n | UDir n _ => n end.
Definition ut_isdir (t : utree) : bool := match t with UFile _ _ _ => false | UDir _ _ => true end.
Definition ut_children (t : utree) : list utree := match t with UDir _ cs => cs | UFile _ _ _ => [] end.
Definition ut_fident (t : utree) : list Z * bool := (ut_name t, ut_isdir t).

Record iso_side := mk_iso { iso_meta : Z; iso_files : list (nat * Z) }.
Definition iso_none : iso_side := mk_iso 5 [].

Definition ul_max_piece : Z := 4294965248.    (* 0xfffff800, _add_fp *)
Definition ul_max_ad : Z := 1073739776.       (* 0x3ffff800, UDFFileEntry.new *)

(* length of the Inode the UDF File Entry is linked to: "thislen" of the last turn of the loop in _add_fp *)
Definition ul_last_piece (len : Z) : Z := if len <=? 0 then 0 else (len - 1) mod ul_max_piece + 1.

(* ---- one directory (reusing UdfDir) ---------------------------------------------------------- *)
Definition ul_dir_descs (cs : list utree) : list fident :=
  parent_fident :: map (fun c => child_fident (ut_fident c)) cs.
Definition ul_dir_state (cs : list utree) : udfdir :=
  let ds := ul_dir_descs cs in
  let info := Fid.zsum (map (fun e => udf_fid_length (zlen (fi_name e))) ds) in
  mk_udfdir ds info info (ceiling_div info 2048).
Definition ul_dir_info (cs : list utree) : Z := ud_info_len (ul_dir_state cs).
(* blocks the loop over fi_descs consumes *)
Definition ul_dir_blocks (cs : list utree) : Z := fid_blocks 2048 (udfdir_lens (ul_dir_state cs)).

(* ---- the deque loop over directories --------------------------------------------------------- *)
(* what is known about a directory once it has been popped; dr_kid0 = position, in pop order, of its
   first child directory (the identity of the fi_desc objects waiting in the deque) *)
Record dirrec := mk_dirrec {
  dr_path : upath; dr_fe : Z; dr_parent_fe : Z; dr_kid0 : nat; dr_node : list utree }.

Definition qitem : Type := upath * Z * list utree.

Definition ul_dir_kids (p : upath) (fe : Z) (cs : list utree) : list qitem :=
  flat_map (fun c => match c with UDir n cs' => [(p ++ [n], fe, cs')] | UFile _ _ _ => [] end) cs.
Definition ul_file_kids (cs : list utree) : list (nat * Z) :=
  flat_map (fun c => match c with UFile _ l i => [(i, l)] | UDir _ _ => [] end) cs.

(* k = number of directories popped so far; the deque holds the directories k, k+1, ... *)
Fixpoint ul_bfs (fuel : nat) (k : nat) (cur : Z) (q : list qitem) : list dirrec * Z :=
  match fuel, q with
  | S f, (p, pf, cs) :: rest =>
      let r := mk_dirrec p cur pf (k + length q) cs in
      let '(rs, e) := ul_bfs f (S k) (cur + 1 + ul_dir_blocks cs) (rest ++ ul_dir_kids p cur cs) in
      (r :: rs, e)
  | _, _ => ([], cur)
  end.

Fixpoint ul_count_dirs (t : utree) : nat :=
  match t with
  | UFile _ _ _ => 0%nat
  | UDir _ cs => S ((fix go (l : list utree) : nat := match l with [] => 0%nat | c :: r => (ul_count_dirs c + go r)%nat end) cs)
  end.
Fixpoint ul_count_files (t : utree) : nat :=
  match t with
  | UFile _ _ _ => 1%nat
  | UDir _ cs => (fix go (l : list utree) : nat := match l with [] => 0%nat | c :: r => (ul_count_files c + go r)%nat end) cs
  end.

(* ---- File Entries of files; file data -------------------------------------------------------- *)
Definition nat_mem (i : nat) (l : list nat) : bool := existsb (Nat.eqb i) l.

(* (inode, File Entry extent, info_len of the name that got there first) *)
Fixpoint ul_assign_fes (cur : Z) (seen : list nat) (fs : list (nat * Z)) : list (nat * Z * Z) * Z :=
  match fs with
  | [] => ([], cur)
  | (i, l) :: r =>
      if nat_mem i seen then ul_assign_fes cur seen r
      else let '(a, e) := ul_assign_fes (cur + 1) (i :: seen) r in ((i, cur, l) :: a, e)
  end.

(* (inode, first data extent, inode length) *)
Fixpoint ul_assign_data (cur : Z) (seen : list nat) (fs : list (nat * Z)) : list (nat * Z * Z) * Z :=
  match fs with
  | [] => ([], cur)
  | (i, l) :: r =>
      if nat_mem i seen then ul_assign_data cur seen r
      else let '(a, e) := ul_assign_data (cur + ceiling_div l 2048) (i :: seen) r in ((i, cur, l) :: a, e)
  end.

(* "if udf_file_assign_entry.inode.get_data_length() > 0: udf_files.append(inode)" *)
Definition ul_udf_files (fes : list (nat * Z * Z)) : list (nat * Z) :=
  flat_map (fun '(i, _, l) => if ul_last_piece l >? 0 then [(i, ul_last_piece l)] else []) fes.

Record layout := mk_layout {
  lo_ps : Z;                          (* partition start *)
  lo_dirs : list dirrec;              (* directories in pop order *)
  lo_fes : list (nat * Z * Z);        (* File Entries of files in assignment order *)
  lo_udf_end : Z;                     (* current_extent returned by _udf_assign_extents *)
  lo_data : list (nat * Z * Z);       (* data extents in assignment order *)
  lo_end : Z;                         (* current_extent after the last file *)
  lo_part_length : Z;
  lo_num_files : Z; lo_num_dirs : Z; lo_unique_id : Z }.

(* part_length / size_tables[0] as the running sum of _finish_add / _finish_remove leaves it: 2 (File
   Set Descriptor + terminator), per directory 1 + ceiling_div(info_len, 2048), one block per inode that
   has a UDF name, the ISO9660 blocks, every data byte ever added (all pieces) *)
Definition ul_part_length (iso : iso_side) (dirs : list dirrec) (fes : list (nat * Z * Z)) : Z :=
  2 + Fid.zsum (map (fun r => 1 + ceiling_div (ul_dir_info (dr_node r)) 2048) dirs) + zlen fes + iso_meta iso +
  snd (ul_assign_data 0 [] (iso_files iso ++ map (fun '(i, _, l) => (i, l)) fes)).

Definition udf_layout_iso (ps : Z) (iso : iso_side) (t : utree) : layout :=
  let root_fe := ps + 2 in
  let '(dirs, cur1) := ul_bfs (S (ul_count_dirs t)) 0 root_fe [([], root_fe, ut_children t)] in
  let names := flat_map (fun r => ul_file_kids (dr_node r)) dirs in
  let '(fes, cur2) := ul_assign_fes cur1 [] names in
  let '(data, cur3) := ul_assign_data (cur2 + iso_meta iso) [] (iso_files iso ++ ul_udf_files fes) in
  mk_layout ps dirs fes cur2 data cur3 (ul_part_length iso dirs fes)
            (zlen names) (zlen dirs) cur2.

Definition udf_part_start : Z := 257.
Definition udf_layout (ps : Z) (t : utree) : layout := udf_layout_iso ps iso_none t.
Definition layout_end (lo : layout) : Z := lo_end lo.
(* the last anchor: max(current_extent, space_size - 1) with space_size = part_start + part_length + 1 *)
Definition layout_anchor (lo : layout) : Z := Z.max (lo_end lo) (lo_ps lo + lo_part_length lo).

(* ---- what is recorded ------------------------------------------------------------------------ *)
Fixpoint ul_find (i : nat) (l : list (nat * Z * Z)) : option Z :=
  match l with
  | [] => None
  | (j, x, _) :: r => if Nat.eqb i j then Some x else ul_find i r
  end.

(* allocation descriptors of a file: lengths from new(), positions from set_data_location() *)
Fixpoint ul_file_ads (fuel : nat) (pos len : Z) : list (Z * Z) :=
  match fuel with
  | O => []
  | S f => if len >? 0 then let a := Z.min len ul_max_ad in (pos, a) :: ul_file_ads f (pos + ceiling_div a 2048) (len - a)
           else []
  end.
Definition ul_ads (pos len : Z) : list (Z * Z) := ul_file_ads (Z.to_nat (len / ul_max_ad + 1)) pos len.

(* icb.log_block_num of the children's FIDs; UDFLongAD.new(2048, 2) is what a never-assigned one keeps *)
Fixpoint ul_kid_icbs (lo : layout) (j : nat) (cs : list utree) : list Z :=
  match cs with
  | [] => []
  | UDir _ _ :: r => (match nth_error (lo_dirs lo) j with Some r' => dr_fe r' - lo_ps lo | None => 2 end)
                     :: ul_kid_icbs lo (S j) r
  | UFile _ _ i :: r => (match ul_find i (lo_fes lo) with Some fe => fe - lo_ps lo | None => 2 end)
                        :: ul_kid_icbs lo j r
  end.
Definition ul_dir_icbs (lo : layout) (r : dirrec) : list Z :=
  (dr_parent_fe r - lo_ps lo) :: ul_kid_icbs lo (dr_kid0 r) (dr_node r).
Definition ul_dir_tags (lo : layout) (r : dirrec) : list Z :=
  udfdir_tag_locs (dr_fe r + 1 - lo_ps lo) (ul_dir_state (dr_node r)).

(* summaries: a File Entry (is directory, tag location, info_len, short_ads (position, length)) or an
   identifier area (per FID: tag location, name, isdir, isparent, icb block) *)
Definition fidsum : Type := Z * uname * bool * bool * Z.
Inductive summary :=
  | SFe (isdir : bool) (tag info : Z) (ads : list (Z * Z))
  | SArea (fids : list fidsum).
Definition layout_view : Type := Z * list (Z * summary).    (* root ICB block (File Set Descriptor), block -> summary *)

Fixpoint ul_mk_fids (ds : list fident) (tags icbs : list Z) : list fidsum :=
  match ds, tags, icbs with
  | d :: ds', t :: ts, i :: ics => (t, fi_name d, fi_isdir d, fi_isparent d, i) :: ul_mk_fids ds' ts ics
  | _, _, _ => []
  end.

Definition ul_dir_entries (lo : layout) (r : dirrec) : list (Z * summary) :=
  let fe := dr_fe r - lo_ps lo in
  let info := ul_dir_info (dr_node r) in
  [(fe, SFe true fe info [(fe + 1, info)]);
   (fe + 1, SArea (ul_mk_fids (ul_dir_descs (dr_node r)) (ul_dir_tags lo r) (ul_dir_icbs lo r)))].
Definition ul_data_pos (lo : layout) (i : nat) : Z :=
  match ul_find i (lo_data lo) with Some d => d - lo_ps lo | None => 0 end.
Definition ul_file_entry (lo : layout) (x : nat * Z * Z) : Z * summary :=
  let '(i, fe, l) := x in
  (fe - lo_ps lo, SFe false (fe - lo_ps lo) l (ul_ads (ul_data_pos lo i) l)).
Definition view (lo : layout) : layout_view :=
  (2, flat_map (ul_dir_entries lo) (lo_dirs lo) ++ map (ul_file_entry lo) (lo_fes lo)).

(* ---- the reader ------------------------------------------------------------------------------ *)
Fixpoint vlookup (k : Z) (v : list (Z * summary)) : option summary :=
  match v with
  | [] => None
  | (k', s) :: r => if k =? k' then Some s else vlookup k r
  end.

Definition entry : Type := upath * bool * Z.       (* path, is directory, length (0 for a directory) *)

Definition ul_read_file (v : list (Z * summary)) (icb : Z) : option Z :=
  match vlookup icb v with
  | Some (SFe false tag info ads) =>
      if (tag =? icb) && (Fid.zsum (map snd ads) =? info) then Some info else None
  | _ => None
  end.

(* the loop over the FIDs behind the parent FID of one identifier area; [rec icb path] reads the
   directory whose File Entry is at block icb *)
Fixpoint ul_walk_fids (rec : Z -> upath -> option (list entry)) (v : list (Z * summary)) (apos info : Z)
         (p : upath) (fids : list fidsum) (off : Z) : option (list entry) :=
  match fids with
  | [] => if off =? info then Some [] else None
  | (tag, n, isdir, isparent, icb) :: r =>
      if isparent || negb (tag =? apos + off / 2048) then None else
      let here :=
        if isdir then
          match rec icb (p ++ [n]) with
          | Some sub => Some ((p ++ [n], true, 0) :: sub)
          | None => None
          end
        else match ul_read_file v icb with
             | Some l => Some [(p ++ [n], false, l)]
             | None => None
             end in
      match here, ul_walk_fids rec v apos info p r (off + udf_fid_length (zlen n)) with
      | Some a, Some b => Some (a ++ b)
      | _, _ => None
      end
  end.

(* follows recorded pointers only; refuses (None) a File Entry whose tag location is not where it was
   found, an area whose first FID is not a parent FID pointing at the File Entry of the containing
   directory, a FID whose tag location is not the block of its first byte, an area whose FIDs do not
   add up to info_len, a file whose descriptors do not add up to info_len *)
Fixpoint ul_walk_dir (fuel : nat) (v : list (Z * summary)) (loc ploc : Z) (p : upath) : option (list entry) :=
  match fuel with
  | O => None
  | S f =>
      match vlookup loc v with
      | Some (SFe true tag info [(apos, alen)]) =>
          if (tag =? loc) && (alen =? info) then
            match vlookup apos v with
            | Some (SArea ((ptag, pname, true, true, picb) :: fids)) =>
                if (picb =? ploc) && (ptag =? apos) && (zlen pname =? 0) then
                  ul_walk_fids (fun icb q => ul_walk_dir f v icb loc q) v apos info p fids (udf_fid_length 0)
                else None
            | _ => None
            end
          else None
      | _ => None
      end
  end.
Definition udf_walk (fuel : nat) (v : layout_view) : option (list entry) :=
  ul_walk_dir fuel (snd v) (fst v) (fst v) [].

(* the namespace of a tree, depth first, children in insertion order *)
Fixpoint ul_ns (p : upath) (t : utree) : list entry :=
  match t with
  | UFile n l _ => [(p ++ [n], false, l)]
  | UDir n cs => (p ++ [n], true, 0) :: flat_map (ul_ns (p ++ [n])) cs
  end.
Definition namespace (t : utree) : list entry := flat_map (ul_ns []) (ut_children t).
Fixpoint ul_depth (t : utree) : nat :=
  match t with
  | UFile _ _ _ => 0%nat
  | UDir _ cs => S (fold_right (fun c m => Nat.max (ul_depth c) m) 0%nat cs)
  end.

(* ---- well-formed trees ----------------------------------------------------------------------- *)
Fixpoint ul_names_distinct (ns : list uname) : bool :=
  match ns with
  | [] => true
  | n :: r => negb (existsb (zlist_eqb n) r) && ul_names_distinct r
  end.
Fixpoint ul_inodes (t : utree) : list (nat * Z) :=
  match t with
  | UFile _ l i => [(i, l)]
  | UDir _ cs => flat_map ul_inodes cs
  end.
Definition ul_consistent (l : list (nat * Z)) : bool :=
  forallb (fun x => forallb (fun y => negb (Nat.eqb (fst x) (fst y)) || (snd x =? snd y)) l) l.
(* names of 1..254 bytes, distinct inside a directory; 0 <= length <= 0xfffff800 *)
Fixpoint ul_wf_node (t : utree) : bool :=
  match t with
  | UFile n l _ => (1 <=? zlen n) && (zlen n <=? 254) && (0 <=? l) && (l <=? ul_max_piece)
  | UDir n cs => (1 <=? zlen n) && (zlen n <=? 254) && ul_names_distinct (map ut_name cs) && forallb ul_wf_node cs
  end.
(* the root's own name is not recorded anywhere *)
Definition wf_utree (t : utree) : bool :=
  ut_isdir t && ul_names_distinct (map ut_name (ut_children t)) && forallb ul_wf_node (ut_children t) &&
  ul_consistent (ul_inodes t).
(* the ISO9660 side agrees with the tree on the inodes they share *)
Definition wf_iso (iso : iso_side) (t : utree) : bool :=
  (0 <=? iso_meta iso) && forallb (fun x => (0 <? snd x) && (snd x <=? ul_max_piece)) (iso_files iso) &&
  ul_consistent (iso_files iso ++ ul_inodes t).

(* ---- regions --------------------------------------------------------------------------------- *)
(* (first extent, blocks): per directory its File Entry and its identifier area, per inode its File
   Entry, per inode its data *)
Definition ul_regions (lo : layout) : list (Z * Z) :=
  flat_map (fun r => [(dr_fe r, 1); (dr_fe r + 1, ul_dir_blocks (dr_node r))]) (lo_dirs lo) ++
  map (fun '(_, fe, _) => (fe, 1)) (lo_fes lo) ++
  map (fun '(_, d, l) => (d, ceiling_div l 2048)) (lo_data lo).

(* ---- histories (the object graph the public calls leave) ------------------------------------- *)
Inductive uop :=
  | OMkdir (p : upath)                  (* add_directory(udf_path=p) *)
  | OAddFile (p : upath) (len : Z)      (* add_fp(fp, len, udf_path=p): a new inode *)
  | OLink (old new : upath)             (* add_hard_link(udf_old_path=old, udf_new_path=new) *)
  | ORmLink (p : upath)                 (* rm_hard_link(udf_path=p) *)
  | ORmFile (p : upath)                 (* rm_file(udf_path=p): every name of the inode *)
  | ORmDir (p : upath).                 (* rm_directory(udf_path=p) *)

(* run f on the children of the directory at path p; as find_file_ident_desc_by_name, the FIRST child
   with the name decides (a file there: the path does not name a directory) *)
Fixpoint ul_upd (p : upath) (f : list utree -> option (list utree)) (cs : list utree) : option (list utree) :=
  match p with
  | [] => f cs
  | n :: p' =>
      (fix go (l : list utree) : option (list utree) :=
         match l with
         | [] => None
         | c :: r =>
             if zlist_eqb (ut_name c) n then
               match c with
               | UDir m cs' => match ul_upd p' f cs' with Some cs'' => Some (UDir m cs'' :: r) | None => None end
               | UFile _ _ _ => None
               end
             else match go r with Some r' => Some (c :: r') | None => None end
         end) cs
  end.

Fixpoint ul_split_last (p : upath) : option (upath * uname) :=
  match p with
  | [] => None
  | [n] => Some ([], n)
  | x :: r => match ul_split_last r with Some (d, n) => Some (x :: d, n) | None => None end
  end.

Definition ul_has_name (n : uname) (cs : list utree) : bool := existsb (fun c => zlist_eqb (ut_name c) n) cs.
(* UDFFileIdentifierDescriptor.new ("len_fi > 255"), the empty-name refusal, add_file_ident_desc's duplicate test *)
Definition ul_append (c : utree) (cs : list utree) : option (list utree) :=
  if (zlen (ut_name c) <? 1) || (254 <? zlen (ut_name c)) || ul_has_name (ut_name c) cs then None
  else Some (cs ++ [c]).

Fixpoint ul_find_child (n : uname) (cs : list utree) : option utree :=
  match cs with
  | [] => None
  | c :: r => if zlist_eqb (ut_name c) n then Some c else ul_find_child n r
  end.
Fixpoint ul_lookup (p : upath) (cs : list utree) : option utree :=
  match p with
  | [] => None
  | [n] => ul_find_child n cs
  | n :: p' => match ul_find_child n cs with Some (UDir _ cs') => ul_lookup p' cs' | _ => None end
  end.
Fixpoint ul_del_child (n : uname) (cs : list utree) : list utree :=
  match cs with
  | [] => []
  | c :: r => if zlist_eqb (ut_name c) n then r else c :: ul_del_child n r
  end.
Fixpoint ul_purge (i : nat) (t : utree) : list utree :=
  match t with
  | UFile _ _ j => if Nat.eqb i j then [] else [t]
  | UDir n cs => [UDir n (flat_map (ul_purge i) cs)]
  end.

(* number of file names of inode i *)
Fixpoint ul_occ (i : nat) (t : utree) : nat :=
  match t with
  | UFile _ _ j => if Nat.eqb i j then 1%nat else 0%nat
  | UDir _ cs => (fix go (l : list utree) : nat := match l with [] => 0%nat | c :: r => (ul_occ i c + go r)%nat end) cs
  end.

(* state: children of the root, next inode id, LVID num_files, LVID num_dirs.  None = the call raises
   (nothing was modified).  The counters move as the public calls move them: +1 per add_directory,
   +1 per _add_hard_link_to_inode with a UDF path, -1 per _rm_udf_file_ident (once per removed NAME),
   -1 per rm_directory *)
Definition ustate : Type := list utree * nat * Z * Z.
Definition ul_step_opt (st : ustate) (o : uop) : option ustate :=
  let '(cs, nx, nf, nd) := st in
  let at_parent (p : upath) (f : uname -> list utree -> option (list utree)) : option (list utree) :=
    match ul_split_last p with Some (d, n) => ul_upd d (f n) cs | None => None end in
  match o with
  | OMkdir p => match at_parent p (fun n => ul_append (UDir n [])) with Some cs' => Some (cs', nx, nf, nd + 1) | None => None end
  | OAddFile p len =>
      match at_parent p (fun n => ul_append (UFile n len nx)) with Some cs' => Some (cs', S nx, nf + 1, nd) | None => None end
  | OLink old new =>
      match ul_lookup old cs with
      | Some (UFile _ l i) =>
          match at_parent new (fun n => ul_append (UFile n l i)) with Some cs' => Some (cs', nx, nf + 1, nd) | None => None end
      | _ => None
      end
  | ORmLink p =>
      match ul_lookup p cs with
      | Some (UFile _ _ _) =>
          match at_parent p (fun n l => Some (ul_del_child n l)) with Some cs' => Some (cs', nx, nf - 1, nd) | None => None end
      | _ => None
      end
  | ORmFile p =>
      match ul_lookup p cs with
      | Some (UFile _ _ i) => Some (flat_map (ul_purge i) cs, nx, nf - Z.of_nat (ul_occ i (UDir [] cs)), nd)
      | _ => None
      end
  | ORmDir p =>
      match ul_lookup p cs with
      | Some (UDir _ []) =>
          match at_parent p (fun n l => Some (ul_del_child n l)) with Some cs' => Some (cs', nx, nf, nd - 1) | None => None end
      | _ => None
      end
  end.
Definition ul_step (st : ustate) (o : uop) : ustate :=
  match ul_step_opt st o with Some st' => st' | None => st end.
(* new(udf=...): an empty root; num_files 0, num_dirs 1 *)
Definition ul_state0 : ustate := ([], 0%nat, 0, 1).
Definition ul_run_state (ops : list uop) : ustate := fold_left ul_step ops ul_state0.
Definition ul_run (ops : list uop) : utree := UDir [] (fst (fst (fst (ul_run_state ops)))).

(* ---- observation (what tools/udf_layout_cases.py reads off the object graph) ----------------- *)
Definition ul_flat_ads (ads : list (Z * Z)) : list Z := flat_map (fun a => [fst a; snd a]) ads.
(* [1; extent; tag_location; unique_id; info_len; ad position; ad length; log_block_recorded] ++ FID tag
   locations ++ FID icb blocks *)
Definition ul_dir_obs (lo : layout) (r : dirrec) : list Z :=
  let info := ul_dir_info (dr_node r) in
  [1; dr_fe r; dr_fe r - lo_ps lo; dr_fe r; info; dr_fe r + 1 - lo_ps lo; ud_ad_len (ul_dir_state (dr_node r));
   ud_lbr (ul_dir_state (dr_node r))] ++ ul_dir_tags lo r ++ ul_dir_icbs lo r.
(* [0; extent; tag_location; unique_id; info_len; log_block_recorded; inode extent or -1] ++ descriptors *)
Definition ul_file_obs (lo : layout) (i : nat) (l : Z) : list Z :=
  match ul_find i (lo_fes lo) with
  | Some fe => [0; fe; fe - lo_ps lo; fe; l; ceiling_div l 2048;
                match ul_find i (lo_data lo) with Some d => d | None => -1 end] ++
               ul_flat_ads (ul_ads (ul_data_pos lo i) l)
  | None => [-1]
  end.
Fixpoint ul_obs_tree (lo : layout) (t : utree) (j : nat) : list (list Z) :=
  match t with
  | UFile _ l i => [ul_file_obs lo i l]
  | UDir _ cs =>
      match nth_error (lo_dirs lo) j with
      | Some r =>
          ul_dir_obs lo r ::
          (fix go (l : list utree) (j : nat) : list (list Z) :=
             match l with
             | [] => []
             | c :: r' => ul_obs_tree lo c j ++ go r' (if ut_isdir c then S j else j)
             end) cs (dr_kid0 r)
      | None => [[-1]]
      end
  end.
(* [part_start; part_length; size_tables[0]; num_files; num_dirs; unique_id; space_size; last anchor] *)
Definition ul_globals (lo : layout) : list Z :=
  [lo_ps lo; lo_part_length lo; lo_part_length lo; lo_num_files lo; lo_num_dirs lo; lo_unique_id lo;
   lo_ps lo + lo_part_length lo + 1; layout_anchor lo].

Definition udflayout_case : Type := list uop * (Z * list (nat * Z)) * list Z * list (list Z).
Definition check_udflayout_case (c : udflayout_case) : bool :=
  let '(ops, (meta, ifiles), globals, nodes) := c in
  let t := ul_run ops in
  let lo := udf_layout_iso udf_part_start (mk_iso meta ifiles) t in
  zlist_eqb (ul_globals lo) globals && zll_eqb (ul_obs_tree lo t 0) nodes &&
  (snd (fst (ul_run_state ops)) =? lo_num_files lo) && (snd (ul_run_state ops) =? lo_num_dirs lo) &&
  match udf_walk (S (ul_depth t)) (view lo) with
  | Some ns => zll_eqb (map (fun '(p, d, l) => (if d : bool then 1 else 0) :: l :: concat p) ns)
                       (map (fun '(p, d, l) => (if d : bool then 1 else 0) :: l :: concat p) (namespace t))
  | None => false
  end.
Definition bad_udflayout_cases (k : nat) (cs : list udflayout_case) : list nat := bad_idx check_udflayout_case k cs.
