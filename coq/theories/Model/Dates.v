(* Model of the timestamp classes: dates.DirectoryRecordDate (7 bytes), dates.VolumeDescriptorDate
   (17 bytes), udf.UDFTimestamp; time.gmtime as civil-from-days arithmetic; time.localtime t as
   gmtime (t + off) for the zone's offset [off] at t (validated against libc by the harness).
   The GMT-offset computation is the TRANSLATED utils.gmtoffset_from_tm (Gen/GenFun.v). *)
From Coq Require Import ZArith List Bool Lia.
From PV.Base Require Import Prim.
From PV.Gen Require Import GenFun.
Import ListNotations.
Local Open Scope Z_scope.

(* Howard Hinnant's algorithms, proleptic Gregorian calendar, day 0 = 1970-01-01 *)
Definition days_from_civil (y m d : Z) : Z :=
  let y := if m <=? 2 then y - 1 else y in
  let era := y / 400 in
  let yoe := y - era * 400 in
  let doy := (153 * (if m >? 2 then m - 3 else m + 9) + 2) / 5 + d - 1 in
  let doe := yoe * 365 + yoe / 4 - yoe / 100 + doy in
  era * 146097 + doe - 719468.

Definition civil_from_days (z : Z) : Z * Z * Z :=
  let z := z + 719468 in
  let era := z / 146097 in
  let doe := z - era * 146097 in
  let yoe := (doe - doe / 1460 + doe / 36524 - doe / 146096) / 365 in
  let y := yoe + era * 400 in
  let doy := doe - (365 * yoe + yoe / 4 - yoe / 100) in
  let mp := (5 * doy + 2) / 153 in
  let d := doy - (153 * mp + 2) / 5 + 1 in
  let m := if mp <? 10 then mp + 3 else mp - 9 in
  (if m <=? 2 then y + 1 else y, m, d).

Record tm := { tm_year : Z; tm_mon : Z; tm_mday : Z; tm_hour : Z; tm_min : Z; tm_sec : Z; tm_yday : Z }.

Definition gmtime (t : Z) : tm :=
  let day := t / 86400 in
  let s := t mod 86400 in
  let '(y, m, d) := civil_from_days day in
  {| tm_year := y; tm_mon := m; tm_mday := d; tm_hour := s / 3600; tm_min := (s mod 3600) / 60;
     tm_sec := s mod 60; tm_yday := day - days_from_civil y 1 1 + 1 |}.

(* time.localtime(t) in a zone whose offset from GMT at instant t is [off] seconds *)
Definition localtime (off t : Z) : tm := gmtime (t + off).

Definition timegm (y m d h mi s : Z) : Z := 86400 * days_from_civil y m d + 3600 * h + 60 * mi + s.

(* utils.gmtoffset_from_tm(t, localtime(t)) *)
Definition gmtoffset (off t : Z) : Z :=
  let l := localtime off t in
  let g := gmtime t in
  gmtoffset_from_tm (tm_min l) (tm_hour l) (tm_yday l) (tm_year l)
                    (tm_min g) (tm_hour g) (tm_yday g) (tm_year g).

(* struct.pack('B', v) / ('b', v): None = struct.error *)
Definition pack_u8 (v : Z) : option Z := if (0 <=? v) && (v <=? 255) then Some v else None.
Definition pack_s8 (v : Z) : option Z := if (-128 <=? v) && (v <=? 127) then Some (v mod 256) else None.
Definition unpack_s8 (b : Z) : Z := if b >=? 128 then b - 256 else b.

(* ---- DirectoryRecordDate: new(t); record() -> 7 bytes; parse *)
Definition dr_date_new (off t : Z) : list Z :=
  let l := localtime off t in
  [tm_year l - 1900; tm_mon l; tm_mday l; tm_hour l; tm_min l; tm_sec l; gmtoffset off t].

Definition dr_date_record (f : list Z) : option (list Z) :=
  match f with
  | [y; m; d; h; mi; s; g] =>
    match pack_u8 y, pack_u8 m, pack_u8 d, pack_u8 h, pack_u8 mi, pack_u8 s, pack_s8 g with
    | Some y', Some m', Some d', Some h', Some mi', Some s', Some g' => Some [y'; m'; d'; h'; mi'; s'; g']
    | _, _, _, _, _, _, _ => None
    end
  | _ => None
  end.

Definition dr_date_parse (b : list Z) : list Z :=
  match b with
  | [y; m; d; h; mi; s; g] => [y; m; d; h; mi; s; unpack_s8 g]
  | _ => []
  end.

(* the instant a 7-byte date denotes: local fields minus the recorded offset (15-minute units) *)
Definition dr_date_decode (f : list Z) : Z :=
  match f with
  | [y; m; d; h; mi; s; g] => timegm (y + 1900) m d h mi s - 900 * g
  | _ => 0
  end.

(* ---- VolumeDescriptorDate: '%Y%m%d%H%M%S' digits + '00' + signed offset byte *)
Fixpoint digits (n : nat) (v : Z) : list Z :=   (* n decimal digits of v, most significant first, ASCII *)
  match n with
  | O => []
  | S k => digits k (v / 10) ++ [48 + v mod 10]
  end.
Fixpoint undigits (l : list Z) (acc : Z) : Z :=
  match l with [] => acc | c :: r => undigits r (acc * 10 + (c - 48)) end.

(* VolumeDescriptorDate.EMPTY_STRING: 16 ASCII zeros and a zero byte, "date not specified" *)
Definition vd_empty : list Z := repeat 48 16 ++ [0].

(* new(tm): tm == 0.0 is the documented request for an unspecified date *)
Definition vd_date_new (off t : Z) : option (list Z) :=
  if t =? 0 then Some vd_empty else
  let l := localtime off t in
  match pack_s8 (gmtoffset off t) with
  | Some g => Some (digits 4 (tm_year l) ++ digits 2 (tm_mon l) ++ digits 2 (tm_mday l) ++
                    digits 2 (tm_hour l) ++ digits 2 (tm_min l) ++ digits 2 (tm_sec l) ++ [48; 48] ++ [g])
  | None => None
  end.

Definition vd_date_decode (b : list Z) : Z :=
  match b with
  | [y1; y2; y3; y4; m1; m2; d1; d2; h1; h2; i1; i2; s1; s2; _; _; g] =>
    timegm (undigits [y1; y2; y3; y4] 0) (undigits [m1; m2] 0) (undigits [d1; d2] 0)
           (undigits [h1; h2] 0) (undigits [i1; i2] 0) (undigits [s1; s2] 0) - 900 * unpack_s8 g
  | _ => 0
  end.

(* ---- UDFTimestamp: tz is a 12-bit two's-complement count of MINUTES (ECMA-167 1/7.3).
   [unit] is what new() multiplies the 15-minute offset by: 15 after the fix, 1 in the pinned original. *)
Record udf_ts := { u_tz : Z; u_type : Z; u_year : Z; u_mon : Z; u_day : Z; u_hour : Z; u_min : Z; u_sec : Z }.

Definition udf_ts_new (unit off t : Z) : udf_ts :=
  let l := localtime off t in
  {| u_tz := gmtoffset off t * unit; u_type := 1; u_year := tm_year l; u_mon := tm_mon l; u_day := tm_mday l;
     u_hour := tm_hour l; u_min := tm_min l; u_sec := tm_sec l |}.

(* record(): the first two bytes (tz low byte; type<<4 | tz bits 8-11) and the year/.../second fields *)
Definition udf_ts_record (u : udf_ts) : list Z :=
  let tmp := Z.land 65535 (u_tz u) in
  let newtz := Z.land tmp 255 in
  let newtype := Z.lor (Z.land (Z.shiftr tmp 8) 15) (Z.shiftl (u_type u) 4) in
  [newtz; newtype; u_year u mod 256; u_year u / 256; u_mon u; u_day u; u_hour u; u_min u; u_sec u; 0; 0; 0].

Definition twos_comp12 (v : Z) : Z := if negb (Z.land v 2048 =? 0) then v - 4096 else v.

Definition udf_ts_parse (b : list Z) : udf_ts :=
  match b with
  | tz :: ty :: y0 :: y1 :: mo :: d :: h :: mi :: sc :: _ =>
    {| u_tz := twos_comp12 (Z.lor (Z.shiftl (Z.land ty 15) 8) tz); u_type := Z.shiftr ty 4;
       u_year := y0 + 256 * y1; u_mon := mo; u_day := d; u_hour := h; u_min := mi; u_sec := sc |}
  | _ => {| u_tz := 0; u_type := 0; u_year := 0; u_mon := 0; u_day := 0; u_hour := 0; u_min := 0; u_sec := 0 |}
  end.

Definition udf_ts_decode (u : udf_ts) : Z :=
  timegm (u_year u) (u_mon u) (u_day u) (u_hour u) (u_min u) (u_sec u) - 60 * u_tz u.

(* range of the property's quantifier: 1970-01-01T00:00:00Z .. 2099-12-31T23:59:59Z *)
Definition t_max : Z := 4102444800.
