(* The UDF bookkeeping of /repo/pycdlib/pycdlib.py on the volume-level descriptors of Model/UdfVds.v:
   the num_files / num_dirs counters of the Logical Volume Integrity Descriptor and the
   part_length / size_tables[0] updates of _finish_add / _finish_remove.  Definitions only; proofs in
   Proofs/UdfVdsLvProofs.v (counters_invariant, lvid_counts_recorded, sizes_sync, sizes_new_sync) and
   Proofs/UdfVdsCasesProofs.v (sizes_recorded_equal).  Only the arithmetic on these attributes is
   modelled (not which API call triggers which update). *)
From Coq Require Import ZArith List Bool.
From PV.Base Require Import Prim.
From PV.Gen Require Import GenConst GenFun.
From PV.Model Require Import Codec Checksums Udf UdfVds.
Import ListNotations.
Local Open Scope Z_scope.

(* logical_volume_impl_use.num_files += 1 (_add_hard_link_to_inode :3256, add_symlink :5563), -= 1
   (_rm_udf_file_ident :3450), num_dirs += 1 (add_directory :4994), -= 1 (rm_directory :5178) *)
Inductive cnt_event := EvFileAdd | EvFileRm | EvDirAdd | EvDirRm.
Definition lvimpl_event (u : lvimpl) (e : cnt_event) : lvimpl :=
  match e with
  | EvFileAdd => lvimpl_with_counts u (lu_num_files u + 1) (lu_num_dirs u)
  | EvFileRm => lvimpl_with_counts u (lu_num_files u - 1) (lu_num_dirs u)
  | EvDirAdd => lvimpl_with_counts u (lu_num_files u) (lu_num_dirs u + 1)
  | EvDirRm => lvimpl_with_counts u (lu_num_files u) (lu_num_dirs u - 1)
  end.
Definition file_delta (e : cnt_event) : Z := match e with EvFileAdd => 1 | EvFileRm => -1 | _ => 0 end.
Definition dir_delta (e : cnt_event) : Z := match e with EvDirAdd => 1 | EvDirRm => -1 | _ => 0 end.
Definition net_files (evs : list cnt_event) : Z := zsum (map file_delta evs).
Definition net_dirs (evs : list cnt_event) : Z := zsum (map dir_delta evs).

(* _finish_add(_, num_partition_bytes_to_add) / _finish_remove(num_bytes_to_remove, is_partition) when
   udf_root and udf_logical_volume_integrity exist: part_length of the main and reserve partition
   descriptors and size_tables[0] (IndexError on an empty list -> None) change by the same amount *)
Record udf_sizes := mk_udf_sizes { uz_main_len : Z; uz_reserve_len : Z; uz_size_tables : list Z }.
Inductive size_event := EvAdd (num_partition_bytes_to_add : Z) | EvRemove (num_bytes_to_remove : Z) (is_partition : bool).
Definition sizes_shift (s : udf_sizes) (k : Z) : option udf_sizes :=
  match uz_size_tables s with
  | x :: r => Some (mk_udf_sizes (uz_main_len s + k) (uz_reserve_len s + k) ((x + k) :: r))
  | [] => None
  end.
Definition sizes_event (s : udf_sizes) (e : size_event) : option udf_sizes :=
  match e with
  | EvAdd n => sizes_shift s (ceiling_div n 2048)
  | EvRemove n true => sizes_shift s (- ceiling_div n 2048)
  | EvRemove _ false => Some s
  end.
Fixpoint sizes_run (s : udf_sizes) (evs : list size_event) : option udf_sizes :=
  match evs with
  | [] => Some s
  | e :: r => match sizes_event s e with Some s' => sizes_run s' r | None => None end
  end.
