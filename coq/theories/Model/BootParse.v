(* C11 / C02 -- what open() reconstructs of El Torito from a written image, composed with the edit
   histories of Model/AccountBoot.v (plain ISO9660 level 3, one PVD, block size 2048, no Rock Ridge /
   Joliet / UDF / XA / isohybrid).

   [boot_view s]  : what write_fp records of the state s (a "written summary": the hierarchy with the
                    extent and length of every file record, the PVD numbers, the El Torito boot record,
                    the BYTES of the catalog's block, bytes 8..23 of the first block of the files that
                    carry a boot info table), laid out by AccountBoot's from-scratch assignment
   [boot_parse w] : PyCdlib._open_fp on such a summary, statement by statement (pycdlib.py):
     _check_and_parse_eltorito  'El Torito Boot Record must be at extent 17', the catalog extent out of
                                boot_system_use, the 32-byte unit loop   -> Eltorito.parse_catalog_extent
     _walk_directories          per file record: len_to_use / extent_to_use (an empty file: extent 0,
                                never entered in extent_to_inode: an Inode of its own, commit 1d57d0b);
                                'Directory Records that point to the El Torito Boot Catalog do not get
                                Inodes' (add_dirrecord); the Inode shared through extent_to_inode;
                                new_end / lastbyte                                   -> bp_visit, bp_walk
     _open_fp                   the FAKEELT record of a catalog without name; lastbyte > space_size
     _link_eltorito             entries in order; an extent already in extent_to_inode is linked; else a
                                HIDDEN boot file: _hidden_boot_file_length (3a98b0a), the room before
                                the next known extent, the load_rba of any OTHER entry (063269b), the
                                volume end (6f683a0, 60dc9c8: no UDF here); without a valid boot info
                                table the file takes ALL of that room (9223b0e); a new Inode,
                                extent_to_inode[extent] = ino ([bp_code]: the code before / between /
                                after these two commits)                             -> bp_link
     _hidden_boot_file_length   entry.length(); the boot info table (PVD extent, own extent,
                                orig_len >= 64, fits, checksum)                     -> bp_hidden_len
     _check_for_eltorito_boot_info_table  for every entry's inode: EltoritoBootInfoTable.parse (PVD
                                extent, inode extent), checksum over the INODE's length -> bp_bits
   The result is a state of AccountBoot ([ro_state]: every AccountBoot operation applies to it) together
   with, for every Inode, where its data comes from ([ro_src]: extent and length in the image) and the
   load_rba the catalog recorded ([ro_rbas]).

   Identity: the library identifies Inodes by extent; the model's inode numbers are NAMES.  The summary
   labels every file record with the number its inode had in the writing object (and its stamp); the
   parser takes every DECISION by extent and length only and uses the labels only to NAME the Inodes
   it creates: the label of the record that makes it create one, [bp_fresh] for the Inode of an empty
   file's record, [w_elabels] for a hidden boot file.  Definitions only; proofs: Proofs/BootParse*.v. *)
From Coq Require Import ZArith List Bool Arith.
From PV.Base Require Import Prim.
From PV.Gen Require Import GenConst GenFun.
From PV.Model Require Import Names Pack Alloc Codec Eltorito Account AccountLinks AccountBoot.
From PV.Model Require ParseCore.
Import ListNotations.
Local Open Scope Z_scope.

Notation presult := ParseCore.presult.
Notation POk := ParseCore.POk.
Notation PInvalid := ParseCore.PInvalid.
Notation PUnsupported := ParseCore.PUnsupported.

(* ---- the catalog with / without the load_rba of its entries -------------------------------------- *)

(* the entries _link_eltorito walks: initial_entry, then section_entries of every section *)
Definition cat_entries (c : et_catalog) : list et_entry :=
  c_initial c :: concat (map h_entries (c_sections c)).

Fixpoint set_entries_rbas (es : list et_entry) (rbas : list Z) : list et_entry * list Z :=
  match es with
  | [] => ([], rbas)
  | e :: r =>
      match rbas with
      | [] => (es, [])
      | x :: rb => let p := set_entries_rbas r rb in (entry_set_rba e x :: fst p, snd p)
      end
  end.
Fixpoint set_secs_rbas (ss : list et_header) (rbas : list Z) : list et_header :=
  match ss with
  | [] => []
  | h :: r =>
      let p := set_entries_rbas (h_entries h) rbas in
      header_set_entries h (h_num_entries h) (fst p) :: set_secs_rbas r (snd p)
  end.
(* _set_inode -> entry.set_data_location for every entry linked to the inode *)
Definition cat_set_rbas (c : et_catalog) (rbas : list Z) : et_catalog :=
  match rbas with
  | [] => c
  | x :: rb => mk_cat (c_validation c) (entry_set_rba (c_initial c) x)
                      (set_secs_rbas (c_sections c) rb) (c_standalone c)
  end.
(* AccountBoot keeps load_rba out of [bcat] (it is [entry_rbas]): [bcat] has 0 there *)
Definition cat_clear_rbas (c : et_catalog) : et_catalog :=
  mk_cat (c_validation c) (entry_set_rba (c_initial c) 0)
         (map (fun h => header_set_entries h (h_num_entries h)
                          (map (fun e => entry_set_rba e 0) (h_entries h))) (c_sections c))
         (map (fun e => entry_set_rba e 0) (c_standalone c)).

(* ---- the written summary -------------------------------------------------------------------------- *)

(* bytes 8..23 of a block as '<LLLL' (pvd extent, file extent, orig_len, csum); the checksum itself is
   abstract: [bt_cover] = the number of bytes of the file the recorded sum was computed over *)
Record bitab := mk_bitab { bt_pvd : Z; bt_ext : Z; bt_len : Z; bt_cover : Z }.

Record wimage := mk_wimage {
  w_tree : lnode;                   (* the hierarchy; a file record carries its labels (ino, stamp) *)
  w_loc : list (nat * (Z * Z));     (* label -> (extent, data length) recorded in its record(s) *)
  w_space : Z; w_ptr_size : Z; w_ptr_ext : Z;       (* PVD *)
  w_size : Z;                       (* length of the image file in bytes *)
  w_br : option (Z * Z);            (* El Torito boot record: (its extent, the catalog extent in it) *)
  w_cat_block : list Z;             (* the bytes of the image from the catalog's extent on *)
  w_elabels : list nat;             (* names for the Inodes of hidden boot files, one per entry *)
  w_tabs : list (Z * bitab);        (* extent -> bytes 8..23 there, where they look like a table *)
  w_next : nat }.                   (* labels >= w_next are unused *)

Definition loc_of (i : nat) (l : list (nat * (Z * Z))) : Z * Z :=
  match assoc i l with Some v => v | None => (0, 0) end.
Fixpoint zassoc {A} (x : Z) (l : list (Z * A)) : option A :=
  match l with [] => None | (k, v) :: r => if k =? x then Some v else zassoc x r end.

Definition noino_labels (tbl : itable) (recs : list lnode) : list nat :=
  flat_map (fun n => match n with
                     | LFile _ i _ => if has_ino i tbl then [] else [i]
                     | _ => []
                     end) recs.

Definition view_loc (s : bstate) : list (nat * (Z * Z)) :=
  let l := bl s in
  map (fun e => (fst e, ((if snd e =? 0 then 0 else rba_of s (fst e)), snd e)))
      (filter (fun e => 0 <? lrefcount (fst e) (lroot l)) (linodes l))
  ++ map (fun j => (j, (cat_extent s, C))) (noino_labels (linodes l) (lvisit l)).

(* _output_file_data: `if ino.boot_info_table is not None:` the table is patched into bytes 8..63.
   [ol i] = (boot_info_table.orig_len, the length its csum was computed over) of inode i: in a history
   from new() both are the file's length ([own_len]); a table parsed by open() keeps what it read *)
Definition view_tabs_gen (ol : nat -> Z * Z) (s : bstate) : list (Z * bitab) :=
  let tbl := linodes (bl s) in
  map (fun i => (rba_of s i, mk_bitab 16 (rba_of s i) (fst (ol i)) (snd (ol i))))
      (filter (fun i => has_ino i tbl && negb (len_of i tbl =? 0)) (bbits s)).
Definition own_len (s : bstate) (i : nat) : Z * Z :=
  (len_of i (linodes (bl s)), len_of i (linodes (bl s))).

Definition boot_view_gen (ol : nat -> Z * Z) (s : bstate) : wimage :=
  let l := bl s in
  mk_wimage (lroot l) (view_loc s) (lspace l) (lptr_size l) (lptr_ext l) (lspace l * C)
            (if has_boot s then Some (17, cat_extent s) else None)
            (match bboot s with
             | Some b => cat_extent_bytes (cat_set_rbas (bcat b) (entry_rbas s))
             | None => []
             end)
            (match bboot s with Some b => binos b | None => [] end)
            (view_tabs_gen ol s) (lnext l).
Definition boot_view (s : bstate) : wimage := boot_view_gen (own_len s) s.

(* ---- _walk_directories ------------------------------------------------------------------------------ *)

Record wstate := mk_wstate {
  ws_tbl : list (nat * (Z * Z));    (* self.inodes: name, (extent_location(), data_length) *)
  ws_e2i : list (Z * nat);          (* extent_to_inode *)
  ws_cat : list nat;                (* eltorito_boot_catalog.dirrecords *)
  ws_last : Z }.                    (* lastbyte *)

(* the name of the Inode made for the record (i, st) of an empty file *)
Definition bp_fresh (nx i st : nat) : nat := if Nat.eqb st i then i else (nx + st)%nat.

Definition bp_is_cat (cat : option Z) (extent_to_use : Z) : bool :=
  match cat with Some ce => extent_to_use =? ce | None => false end.

Definition bp_visit (w : wimage) (cat : option Z) (st : wstate) (n : lnode) : presult wstate :=
  match n with
  | LDir _ _ _ => POk st
  | LFile _ i stamp =>
      let '(ext, len) := loc_of i (w_loc w) in
      let len_to_use := len in
      let extent_to_use := if len =? 0 then 0 else ext in
      let new_end := extent_to_use * C + len_to_use in
      if new_end >? w_size w then PUnsupported 1         (* a file cut off by the end of the image *)
      else
      let last := Z.max (ws_last st) new_end in
      if bp_is_cat cat extent_to_use then
        POk (mk_wstate (ws_tbl st) (ws_e2i st) (ws_cat st ++ [i]) last)
      else
        match (if negb (len_to_use =? 0) then zassoc extent_to_use (ws_e2i st) else None) with
        | Some _ => POk (mk_wstate (ws_tbl st) (ws_e2i st) (ws_cat st) last)
        | None =>
            let id := if len_to_use =? 0 then bp_fresh (w_next w) i stamp else i in
            POk (mk_wstate (ws_tbl st ++ [(id, (extent_to_use, len_to_use))])
                           (if negb (len_to_use =? 0) then ws_e2i st ++ [(extent_to_use, id)]
                            else ws_e2i st)
                           (ws_cat st) last)
        end
  end.

Fixpoint bp_walk (w : wimage) (cat : option Z) (recs : list lnode) (st : wstate) : presult wstate :=
  match recs with
  | [] => POk st
  | n :: r =>
      match bp_visit w cat st n with
      | POk st' => bp_walk w cat r st'
      | e => e
      end
  end.

(* new_record.inode: the dictionary's entry at the time of the visit, which is its final entry (an
   entry of extent_to_inode is never replaced) *)
Definition bp_ino_of (w : wimage) (cat : option Z) (e2i : list (Z * nat)) (i st : nat) : nat :=
  let '(ext, len) := loc_of i (w_loc w) in
  if len =? 0 then (if bp_is_cat cat 0 then i else bp_fresh (w_next w) i st)
  else if bp_is_cat cat ext then i
  else match zassoc ext e2i with Some j => j | None => i end.

Fixpoint lmap_ino (f : nat -> nat -> nat) (n : lnode) : lnode :=
  match n with
  | LFile nm i st => LFile nm (f i st) st
  | LDir nm dl kids => LDir nm dl (map (lmap_ino f) kids)
  end.

(* ---- _link_eltorito ----------------------------------------------------------------------------------- *)

(* min([e for e in extent_to_inode if e > x] + [d]) *)
Definition bp_min_above (x : Z) (l : list Z) (d : Z) : Z :=
  fold_left (fun m e => if (x <? e) && (e <? m) then e else m) l d.

(* `csum(first L bytes at the extent) == recorded csum`, the sum having been made over [cover] bytes of
   a file that is followed by zeros up to the end of its last block: the first 64 bytes are never
   summed; the same words are summed iff L reaches the end of the data and stays inside the padding *)
Definition bp_csum_ok (cover L : Z) : bool :=
  (Z.max cover 64 <=? Z.max L 64) && (L <=? ceiling_div cover C * C).

(* (length, from_table) *)
Definition bp_hidden_len (w : wimage) (rba sc : Z) : Z * bool :=
  let length := sc * 512 in                                        (* entry.length() *)
  if negb (rba * C + 24 <=? w_size w) then (length, false) else    (* len(header) == 16 *)
  match zassoc rba (w_tabs w) with
  | Some t =>
      let fits := rba * C + bt_len t <=? w_size w in
      if (bt_pvd t =? 16) && (bt_ext t =? rba) && (64 <=? bt_len t) && fits
         && bp_csum_ok (bt_cover t) (bt_len t)
      then (bt_len t, true) else (length, false)
  | None => (length, false)
  end.

(* which _link_eltorito: Old = before commit 063269b, Mid = with 063269b (the other entries' extents
   bound the room), Cur = the current code, with 9223b0e as well (no valid table: all the room) *)
Inductive bp_code := Old | Mid | Cur.
Definition bp_others (v : bp_code) : bool := match v with Old => false | _ => true end.
Definition bp_extend (v : bp_code) : bool := match v with Cur => true | _ => false end.

(* `if 0 < room < length: length = room  elif not from_table and room > length: length = room` *)
Definition bp_fit (v : bp_code) (room : Z) (lf : Z * bool) : Z :=
  let '(length, from_table) := lf in
  if (0 <? room) && (room <? length) then room
  else if bp_extend v && negb from_table && (length <? room) then room
  else length.

Record lstate2 := mk_lstate2 {
  l2_tbl : list (nat * (Z * Z)); l2_e2i : list (Z * nat); l2_inos : list nat }.

(* [erbas]: get_rba() of every entry of entries_to_assign (063269b:
   `following.extend(other.get_rba() for other in entries_to_assign if other.get_rba() > entry_extent)`) *)
Definition bp_link1 (v : bp_code) (w : wimage) (space : Z) (erbas : list Z) (st : lstate2) (e : Z * Z * nat)
  : lstate2 :=
  let '(rba, sc, label) := e in
  match zassoc rba (l2_e2i st) with
  | Some j => mk_lstate2 (l2_tbl st) (l2_e2i st) (l2_inos st ++ [j])
  | None =>
      let lf := bp_hidden_len w rba sc in
      let following := map fst (l2_e2i st) ++ (if bp_others v then erbas else []) in
      let room := (bp_min_above rba following space - rba) * C in
      let length := bp_fit v room lf in
      mk_lstate2 (l2_tbl st ++ [(label, (rba, length))]) (l2_e2i st ++ [(rba, label)])
                 (l2_inos st ++ [label])
  end.
Definition bp_link (v : bp_code) (w : wimage) (space : Z) (es : list (Z * Z * nat)) (st : lstate2) : lstate2 :=
  fold_left (bp_link1 v w space (map (fun e : Z * Z * nat => fst (fst e)) es)) es st.

(* ---- _check_for_eltorito_boot_info_table ------------------------------------------------------------ *)

Definition bp_has_table (w : wimage) (tbl : list (nat * (Z * Z))) (j : nat) : bool :=
  let '(ext, len) := loc_of j tbl in
  match zassoc ext (w_tabs w) with
  | Some t => (bt_pvd t =? 16) && (bt_ext t =? ext) && bp_csum_ok (bt_cover t) len
  | None => false
  end.
Definition bp_bits (w : wimage) (tbl : list (nat * (Z * Z))) (inos : list nat) : list nat :=
  dedup (filter (bp_has_table w tbl) inos) [].
(* bi_table.orig_len and the length its csum covers, for the inodes that got a table *)
Definition bp_olen (w : wimage) (tbl : list (nat * (Z * Z))) (bits : list nat) : list (nat * (Z * Z)) :=
  map (fun j => (j, match zassoc (fst (loc_of j tbl)) (w_tabs w) with
                    | Some t => (bt_len t, bt_cover t)
                    | None => (0, 0)
                    end)) bits.

(* ---- _open_fp ------------------------------------------------------------------------------------------ *)

Record reopen := mk_reopen {
  ro_state : bstate;                    (* the opened object *)
  ro_src : list (nat * (Z * Z));        (* Inode -> (extent, length) of its data in the image *)
  ro_rbas : list Z;                     (* load_rba of the entries as parsed *)
  ro_olen : list (nat * (Z * Z)) }.     (* Inode with a boot info table -> (orig_len, covered length) *)

Definition bp_fake (nx : nat) : nat := (nx + nx)%nat.          (* the FAKEELT.;1 record *)

Definition boot_parse_full_gen (fx : bp_code) (w : wimage) : presult reopen :=
  let nx := w_next w in
  let recs := lvisit {| lroot := w_tree w; linodes := []; lnext := O; lptr_size := 0; lptr_ext := 0;
                        lspace := 0 |} in
  let parsed_cat :=
    match w_br w with
    | None => POk None
    | Some (brext, catext) =>
        if negb (brext =? 17) then PInvalid 1      (* 'El Torito Boot Record must be at extent 17' *)
        else match parse_catalog_extent (w_cat_block w) with
             | Some c => POk (Some (catext, c))
             | None => PInvalid 2                  (* EltoritoBootCatalog.parse raises *)
             end
    end in
  match parsed_cat with
  | POk pc =>
      let cat := match pc with Some (ce, _) => Some ce | None => None end in
      match bp_walk w cat recs (mk_wstate [] [] [] 0) with
      | POk st =>
          let space := if ws_last st >? w_space w * C then ceiling_div (ws_last st) C else w_space w in
          let tree := lmap_ino (bp_ino_of w cat (ws_e2i st)) (w_tree w) in
          let mk tbl boot bits :=
            {| bl := {| lroot := tree; linodes := map (fun e => (fst e, snd (snd e))) tbl;
                        lnext := S (bp_fake nx); lptr_size := w_ptr_size w; lptr_ext := w_ptr_ext w;
                        lspace := space |};
               bboot := boot; bbits := bits; bwreck := false |} in
          match pc with
          | None => POk (mk_reopen (mk (ws_tbl st) None []) (ws_tbl st) [] [])
          | Some (ce, c) =>
              let es := cat_entries c in
              let lk := bp_link fx w space
                          (combine (combine (map e_load_rba es) (map e_sector_count es)) (w_elabels w))
                          (mk_lstate2 (ws_tbl st) (ws_e2i st) []) in
              let names := match ws_cat st with [] => [bp_fake nx] | l => l end in
              POk (mk_reopen
                     (mk (l2_tbl lk)
                         (Some {| cat_recs := names; bcat := cat_clear_rbas c; binos := l2_inos lk |})
                         (bp_bits w (l2_tbl lk) (l2_inos lk)))
                     (l2_tbl lk) (map e_load_rba es)
                     (bp_olen w (l2_tbl lk) (bp_bits w (l2_tbl lk) (l2_inos lk))))
          end
      | ParseCore.PInvalid x => PInvalid x
      | ParseCore.PUnsupported x => PUnsupported x
      | ParseCore.PFuel => ParseCore.PFuel
      end
  | ParseCore.PInvalid x => PInvalid x
  | ParseCore.PUnsupported x => PUnsupported x
  | ParseCore.PFuel => ParseCore.PFuel
  end.

Definition boot_parse_full : wimage -> presult reopen := boot_parse_full_gen Cur.

Definition boot_parse_gen (fx : bp_code) (w : wimage) : presult bstate :=
  match boot_parse_full_gen fx w with
  | POk r => POk (ro_state r)
  | ParseCore.PInvalid x => PInvalid x
  | ParseCore.PUnsupported x => PUnsupported x
  | ParseCore.PFuel => ParseCore.PFuel
  end.
Definition boot_parse : wimage -> presult bstate := boot_parse_gen Cur.

(* ---- the reopened state, written down directly ------------------------------------------------------ *)

(* every record of an empty file gets an Inode of its own (1d57d0b); everything else keeps its inode *)
Definition bp_relabel (nx : nat) (tbl : itable) (i st : nat) : nat :=
  if has_ino i tbl && (len_of i tbl =? 0) then bp_fresh nx i st else i.

(* self.inodes after the walk: in the order of the walk, an inode when its first record is met *)
Fixpoint bp_named_tbl (nx : nat) (tbl : itable) (recs : list lnode) (seen : list nat) : itable :=
  match recs with
  | [] => []
  | LFile _ i st :: r =>
      if negb (has_ino i tbl) then bp_named_tbl nx tbl r seen           (* a name of the catalog *)
      else if len_of i tbl =? 0 then (bp_fresh nx i st, 0) :: bp_named_tbl nx tbl r seen
      else if mem i seen then bp_named_tbl nx tbl r seen
      else (i, len_of i tbl) :: bp_named_tbl nx tbl r (i :: seen)
  | _ :: r => bp_named_tbl nx tbl r seen
  end.

Definition cat_scs (c : et_catalog) : list Z := map e_sector_count (cat_entries c).

(* the length a boot file WITHOUT directory record comes back with; [known]: the inodes whose extents
   are in extent_to_inode at that moment, [ents]: the inodes of all entries *)
Definition bp_newlen (fx : bp_code) (s : bstate) (ents known : list nat) (i : nat) (sc : Z) : Z :=
  let len := len_of i (linodes (bl s)) in
  let lf := if mem i (bbits s) && (64 <=? len) then (len, true) else (sc * 512, false) in
  let following := map (rba_of s) known ++ (if bp_others fx then map (rba_of s) ents else []) in
  let room := (bp_min_above (rba_of s i) following (lspace (bl s)) - rba_of s i) * C in
  bp_fit fx room lf.

Fixpoint bp_hidden (fx : bp_code) (s : bstate) (ents : list nat) (es : list (nat * Z)) (known : list nat) : itable :=
  match es with
  | [] => []
  | (i, sc) :: r =>
      if mem i known then bp_hidden fx s ents r known
      else (i, bp_newlen fx s ents known i sc) :: bp_hidden fx s ents r (known ++ [i])
  end.

Definition bp_nonempty_ids (t : itable) : list nat :=
  map fst (filter (fun e => negb (snd e =? 0)) t).

Definition reopened_gen (fx : bp_code) (s : bstate) : bstate :=
  let l := bl s in
  let tbl := linodes l in
  let nx := lnext l in
  let t1 := bp_named_tbl nx tbl (lvisit l) [] in
  let mk t boot bits :=
    {| bl := {| lroot := lmap_ino (bp_relabel nx tbl) (lroot l); linodes := t;
                lnext := S (bp_fake nx); lptr_size := lptr_size l; lptr_ext := lptr_ext l;
                lspace := lspace l |};
       bboot := boot; bbits := bits; bwreck := false |} in
  match bboot s with
  | None => mk t1 None []
  | Some b =>
      let t2 := bp_hidden fx s (binos b) (combine (binos b) (cat_scs (bcat b))) (bp_nonempty_ids t1) in
      let t := t1 ++ t2 in
      let names := match noino_labels tbl (lvisit l) with [] => [bp_fake nx] | ns => ns end in
      mk t (Some {| cat_recs := names; bcat := bcat b; binos := binos b |})
         (dedup (filter (fun i => mem i (bbits s) && bp_csum_ok (len_of i tbl) (len_of i t)) (binos b)) [])
  end.

Definition reopened : bstate -> bstate := reopened_gen Cur.

(* where the data of the reopened object's inodes is in the image: the data of inode i of s was
   written at rba_of s i *)
Definition reopened_src_gen (fx : bp_code) (s : bstate) : list (nat * (Z * Z)) :=
  let l := bl s in
  let t1 := bp_named_tbl (lnext l) (linodes l) (lvisit l) [] in
  map (fun e => (fst e, ((if snd e =? 0 then 0 else rba_of s (fst e)), snd e))) t1
  ++ match bboot s with
     | Some b => map (fun e => (fst e, (rba_of s (fst e), snd e)))
                     (bp_hidden fx s (binos b) (combine (binos b) (cat_scs (bcat b))) (bp_nonempty_ids t1))
     | None => []
     end.
Definition reopened_src : bstate -> list (nat * (Z * Z)) := reopened_src_gen Cur.

(* the boot info tables of the reopened object keep the orig_len / checksum that were written *)
Definition reopened_olen_gen (fx : bp_code) (s : bstate) : list (nat * (Z * Z)) :=
  map (fun i => (i, own_len s i)) (bbits (reopened_gen fx s)).
Definition reopened_olen : bstate -> list (nat * (Z * Z)) := reopened_olen_gen Cur.

(* ---- harness (tools/boot_parse_cases.py) ------------------------------------------------------------ *)

Definition ro_catext (w : wimage) : Z := match w_br w with Some (_, ce) => ce | None => -1 end.

(* per entry: load_rba as parsed, sector_count, extent and length of entry.inode, its index in
   iso.inodes, 1 when inode.boot_info_table is not None *)
Definition eobs : Type := (Z * Z * Z * Z * Z * Z)%type.
(* pvd.space_size, len(iso.inodes), the catalog extent of the boot record (-1), the entries, the full
   path of every record of catalog.dirrecords ([] for a record that is in no directory), the end of
   the last extent after a forced _reshuffle_extents (-1: it raises 'Assigned an extent beyond the ISO') *)
Definition robs : Type := (Z * Z * Z * list eobs * list path * Z)%type.

Fixpoint index_of (i : nat) (t : itable) : Z :=
  match t with [] => -1 | (j, _) :: r => if Nat.eqb j i then 0 else
                                          let k := index_of i r in if k <? 0 then -1 else k + 1 end.
Definition path_of_label (root : lnode) (j : nat) : path :=
  match filter (fun r => Nat.eqb (snd r) j) (lrecords [] root) with
  | (p, nm, _) :: _ => p ++ [nm]
  | [] => []
  end.

Definition bp_observe (w : wimage) (r : reopen) : robs :=
  let s := ro_state r in
  let tbl := linodes (bl s) in
  (lspace (bl s), zlen tbl, ro_catext w,
   match bboot s with
   | Some b =>
       map (fun x : Z * Z * nat =>
              let '(rba, sc, i) := x in
              (rba, sc, fst (loc_of i (ro_src r)), snd (loc_of i (ro_src r)), index_of i tbl,
               if mem i (bbits s) then 1 else 0))
           (combine (combine (ro_rbas r) (cat_scs (bcat b))) (binos b))
   | None => []
   end,
   match bboot s with Some b => map (path_of_label (lroot (bl s))) (cat_recs b) | None => [] end,
   if lspace (bl s) <? blayout_end s then -1 else blayout_end s).

Definition bp_wrecked (s : bstate) : bool := lspace (bl s) <? blayout_end s.
(* Runner.observe on the reopened object: the forced _reshuffle_extents raises when the layout does not
   fit in pvd.space_size *)
Definition bp_obs (o : outcome) (s : bstate) : obs :=
  if bp_wrecked s then ((if out_code o =? 2 then 2 else 9), [], -1, -1, [], []) else observe o s.

Fixpoint zlist_eqb (a b : list Z) : bool :=
  match a, b with
  | [], [] => true
  | x :: a', y :: b' => (x =? y) && zlist_eqb a' b'
  | _, _ => false
  end.
Definition eobs_eqb (a b : eobs) : bool :=
  let '(a1, a2, a3, a4, a5, a6) := a in let '(b1, b2, b3, b4, b5, b6) := b in
  (a1 =? b1) && (a2 =? b2) && (a3 =? b3) && (a4 =? b4) && (a5 =? b5) && (a6 =? b6).
Definition robs_eqb (a b : robs) : bool :=
  let '(a1, a2, a3, a4, a5, a6) := a in let '(b1, b2, b3, b4, b5, b6) := b in
  (a1 =? b1) && (a2 =? b2) && (a3 =? b3) && list_eqb eobs_eqb a4 b4 &&
  list_eqb (list_eqb zlist_eqb) a5 b5 && (a6 =? b6).

(* what two images have in common when they are equal, labels aside *)
Definition view_sig (ol : nat -> Z * Z) (s : bstate) :=
  let w := boot_view_gen ol s in
  (map (fun r : path * ident * nat => (fst (fst r), snd (fst r), loc_of (snd r) (w_loc w)))
       (lrecords [] (w_tree w)),
   map lw_dlen (filter l_is_dir (lvisit (bl s))), ldirs [] (w_tree w),
   [w_space w; w_ptr_size w; w_ptr_ext w; ro_catext w], w_cat_block w,
   map (fun t : Z * bitab => (fst t, bt_len (snd t))) (w_tabs w)).
Definition subset_zz (a b : list (Z * Z)) : bool := forallb (fun x => existsb (pair_eqb x) b) a.
Definition view_sig_eqb (ol : nat -> Z * Z) (s r : bstate) : bool :=
  let '(r1, d1, p1, n1, c1, t1) := view_sig (own_len s) s in
  let '(r2, d2, p2, n2, c2, t2) := view_sig ol r in
  list_eqb (fun a b : path * ident * (Z * Z) =>
              list_eqb zlist_eqb (fst (fst a)) (fst (fst b)) && zlist_eqb (snd (fst a)) (snd (fst b))
              && pair_eqb (snd a) (snd b)) r1 r2
  && zlist_eqb d1 d2 && list_eqb (list_eqb zlist_eqb) p1 p2 && zlist_eqb n1 n2 && zlist_eqb c1 c2
  && subset_zz t1 t2 && subset_zz t2 t1.

(* a boot file without directory record whose reopened length is shorter than the file (data is lost)
   or longer than its blocks *)
Definition bp_hidden_changed (s r : bstate) : bool :=
  match bboot s with
  | Some b =>
      existsb (fun i => (lrefcount i (lroot (bl s)) =? 0) &&
                        let a := len_of i (linodes (bl s)) in
                        let n := len_of i (linodes (bl r)) in
                        negb ((a <=? n) && (n <=? ceiling_div a C * C))) (binos b)
  | None => false
  end.
Definition is_rm_eltorito (o : bop) : bool := match o with BRmEltorito => true | _ => false end.

Definition nat_list_eqb (a b : list nat) : bool := list_eqb Nat.eqb a b.
Definition nzz_eqb (a b : list (nat * (Z * Z))) : bool :=
  list_eqb (fun x y : nat * (Z * Z) => Nat.eqb (fst x) (fst y) && pair_eqb (snd x) (snd y)) a b.
(* tree (names, inode numbers), self.inodes, counters, catalog records, entry inodes, tables *)
Definition bp_state_eqb (a b : bstate) : bool :=
  list_eqb (fun x y : path * ident * nat =>
              list_eqb zlist_eqb (fst (fst x)) (fst (fst y)) && zlist_eqb (snd (fst x)) (snd (fst y))
              && Nat.eqb (snd x) (snd y)) (lrecords [] (lroot (bl a))) (lrecords [] (lroot (bl b)))
  && list_eqb (fun x y : nat * Z => Nat.eqb (fst x) (fst y) && (snd x =? snd y)) (linodes (bl a)) (linodes (bl b))
  && Nat.eqb (lnext (bl a)) (lnext (bl b)) && (lspace (bl a) =? lspace (bl b))
  && nat_list_eqb (bbits a) (bbits b) && Bool.eqb (bwreck a) (bwreck b)
  && match bboot a, bboot b with
     | Some x, Some y => nat_list_eqb (cat_recs x) (cat_recs y) && nat_list_eqb (binos x) (binos y)
                         && zlist_eqb (cat_bytes (bcat x)) (cat_bytes (bcat y))
     | None, None => true
     | _, _ => false
     end.

(* history, the reopened object, further operations with the observations on the never-closed object
   and on the reopened one, 1 / 0: the two images written at the end are equal / differ (-1: a write failed) *)
Definition bpcase : Type := (list bop * robs * list (bop * obs * obs) * Z)%type.

Fixpoint bp_post (s r : bstate) (c : list (bop * obs * obs)) : bool * (bstate * bstate) :=
  match c with
  | [] => (true, (s, r))
  | (o, eo, er) :: rest =>
      let s' := fst (bstep s o) in
      let r' := fst (bstep r o) in
      let ok := obs_eqb (observe (snd (bstep s o)) s') eo && obs_eqb (bp_obs (snd (bstep r o)) r') er in
      let p := bp_post s' r' rest in
      (ok && fst p, snd p)
  end.

Definition bp_case_ok (c : bpcase) : bool :=
  let '(ops, ro, post, same) := c in
  let s := brun binit ops in
  negb (bwreck s) &&
  match boot_parse_full (boot_view s) with
  | POk r =>
      let r0 := ro_state r in
      robs_eqb (bp_observe (boot_view s) r) ro &&
      (* the directly written reopened state is what the parser builds *)
      obs_eqb (observe Acc r0) (observe Acc (reopened s)) && bp_state_eqb r0 (reopened s) &&
      nzz_eqb (ro_src r) (reopened_src s) && nzz_eqb (ro_olen r) (reopened_olen s) &&
      let '(ok, (sf, rf)) := bp_post s r0 post in
      ok &&
      (if bp_wrecked r0 || bp_wrecked rf then same =? -1
       else
         let ol := fun i => match assoc i (ro_olen r) with Some v => v | None => own_len rf i end in
         let veq := view_sig_eqb ol sf rf in
         let tabs_ok := match bbits s with
                        | [] => true
                        | _ => negb (existsb (fun x => is_rm_eltorito (fst (fst x))) post) &&
                               forallb (fun i => mem i (bbits r0)) (bbits s)
                        end in
         (if veq && negb (bp_hidden_changed s r0) && tabs_ok then same =? 1 else true) &&
         (if same =? 1 then veq else true))
  | _ => false
  end.

Fixpoint bad_bootparse_cases (k : nat) (cs : list bpcase) : list nat :=
  match cs with
  | [] => []
  | c :: r => if bp_case_ok c then bad_bootparse_cases (S k) r else k :: bad_bootparse_cases (S k) r
  end.
