(* The DIRECTORY AREA and the CONTINUATION AREAS of an ISO9660 + Rock Ridge image as pycdlib masters it, as
   BYTES, and an independent SUSP / RRIP reader on those bytes.

   Input: a state of Model/AccountRR.v (AccountRR.rstate: Rock Ridge version, the tree of directory records
   with file identifier / Rock Ridge name / symlink target / has-inode / record length / (continuation block
   identity, offset, length) per record, path table extents) -- in particular every state
   [rr_run (rr_init v) ops] an edit history reaches -- and the 7 date bytes every record carries (the tool pins
   time.time(): the record date and the three TF stamps are the same DirectoryRecordDate).
   Fragment: that of AccountRR.v (one PVD, level 3, no Joliet/UDF/El Torito/XA, no relocation, block size 2048).

   Sources modelled (all in /repo/pycdlib):
     pycdlib.py  _reshuffle_extents / _reassign_vd_dirrecord_extents: ONE deque walk over ALL records; a
                 directory takes ceiling_div(data_length) extents, then `if ce_block.extent_location() < 0`
                 the block of the record's continuation area gets the next extent (first user in walk order);
                 '.' and '..' `continue` before that test; after the walk the root '.' record's CE entry gets
                 the next extent (the ER sector), then file contents (symlinks and empty files: extent 0)
                                                          -> mrr_first / mrr_dtree / mrr_ftree / mrr_layout
     pycdlib.py  _write_directory_records: the record loop of Master.v, and after each record
                 `seek(ce_rec.bl_cont_area * 2048 + ce_rec.offset_cont_area); write(record_ce_entries())`
                                                          -> mrr_dir_chunk / mrr_writes / mrr_block
     dr.py       DirectoryRecord.record (padstr + xa_rec + rr_rec, trailing pad) -> Codec.enc_dr with
                 sysuse = record_dr_entries(); new_dot / new_dotdot / new_dir / new_file / new_symlink -> _rr_new
                 (modes 0o040555 / 0o0100444 / 0o0120555); the link counts as _reassign / add_child leave them
                 (directory, its '.' and the '..' of its children: 2 + number of sub-directories; Model/Nlink.v)
     rockridge.py RockRidge.new -> RRPlace.place (REUSED); record_dr_entries / record_ce_entries ->
                 RRWalk.entries_list / record_list (REUSED) after the two in-place updates the library makes on
                 the placed objects: px_record.posix_file_links and ce_record.update_extent / update_offset
                 (mrr_patch)
   REUSED, not copied: Master.ms_pack / ms_dir_bytes / ms_scan / ms_img_read / image, PathTable.bfs /
   write_order, Pack.Invb, Codec.enc_dr / dec_dr, RREntries, RRWalk, RRPlace, AccountRR (state, rr_run).

   [read_rr] is INDEPENDENT of the recorders: it walks a System Use area by the length bytes (stops at ST,
   at a length < 4 or at an entry that overruns the area), follows CE (block, offset, length) into the image
   (bounded hops), collects NM pieces, SL records and components, PX mode and links, SP skip, ER identifier;
   the name is LongNames.nm_join of the pieces (CONTINUE flag), the target LongNames.sl_reassemble.
   [mrr_wf dt s] (boolean) is what the theorems assume: every record's bookkeeping (dr_len, continuation key) is what
   RockRidge.new gives for its identifier / names / kind (so the identifier passes the guard dr_len + 28 <= 254 of
   _rr_new and the continuation area is <= 2048), continuation areas of one block apart and inside the sector, Pack's
   data_length invariant per directory, 32-bit fields; NO limit on depth, name or target length.  Every state
   rr_run (rr_init v) ops reaches that passes mrr_sizes_ok is mrr_wf (Proofs/MasterRRRun.v).
   Simplifications (trusted): one opaque 7-byte date for the record and the three TF stamps; link counts in closed form
   (2 + sub-directories; Model/Nlink.v); uid/gid/serial 0; the extent walk through PathTable.bfs on per-record block
   counts; the image is a finite map extent -> bytes holding ONLY directory extents and continuation blocks (zero
   fill), the root pointer is an input (PVD, path tables, file contents are not rendered); '.' and '..' never get a
   tracked continuation block (they `continue` before the test) and the root '.' keeps offset_cont_area = 0.
   Definitions only; proofs are in Proofs/MasterRR*.v.  Correspondence: /verif/tools/master_rr_cases.py. *)
From Coq Require Import ZArith List Bool.
From PV.Base Require Import Prim.
From PV.Gen Require Import GenConst GenFun.
From PV.Model Require Import Codec Pack PathTable RREntries RRWalk RRPlace.
From PV.Model Require LongNames Master Account.
From PV.Model Require Import AccountRR.
Import ListNotations.
Local Open Scope Z_scope.

Definition BS : Z := 2048.
Notation image := Master.image.
Notation ckey := AccountRR.key.        (* (block identity, offset_cont_area, len_cont_area) *)

(* ---- positions -------------------------------------------------------------------------------- *)
Fixpoint mrr_node_at (n : rnode) (p : list nat) : option rnode :=
  match p with
  | [] => Some n
  | i :: q => match nth_error (rkids n) i with Some c => mrr_node_at c q | None => None end
  end.
Definition mrr_is_dir_at (t : rnode) (p : list nat) : bool :=
  match mrr_node_at t p with Some (RDir _ _ _) => true | _ => false end.
Definition mrr_dlen_at (t : rnode) (p : list nat) : Z :=
  match mrr_node_at t p with Some (RDir _ dl _) => dl | _ => 0 end.
Definition mrr_dblocks (n : rnode) : Z :=
  match n with RDir _ dl _ => ceiling_div dl BS | RFile _ _ => 0 end.

(* ---- extents ----------------------------------------------------------------------------------- *)
Definition mrr_key_id (k : ckey) : nat := fst (fst k).
Definition mrr_key_mem (k : ckey) (l : list ckey) : bool := existsb (key_eqb k) l.
(* 1 when this record is the first one of the walk that points into its continuation block *)
Definition mrr_flag (fk : list ckey) (m : meta) : Z :=
  match m_ce m with Some k => if mrr_key_mem k fk then 1 else 0 | None => 0 end.

(* the deque walk: every record; a directory advances by its extents, the first user of a block by one more *)
Fixpoint mrr_dtree (fk : list ckey) (n : rnode) : dtree :=
  match n with
  | RFile m _ => Node (m_name m) (mrr_flag fk m) []
  | RDir m dl kids => Node (m_name m) (ceiling_div dl BS + mrr_flag fk m) (map (mrr_dtree fk) kids)
  end.
(* file_list: records with an inode and data *)
Fixpoint mrr_ftree (n : rnode) : dtree :=
  match n with
  | RFile m len => Node (m_name m) (if m_ino m then ceiling_div len BS else 0) []
  | RDir m _ kids => Node (m_name m) 0 (map mrr_ftree kids)
  end.

(* positions in the order the walk pops the records *)
Definition mrr_order (t : rnode) : list (list nat) := write_order (mrr_dtree [] t).

(* `if ce_block.extent_location() < 0: set_extent_location(current_extent)`: first users, in walk order *)
Fixpoint mrr_first (t : rnode) (seen : list nat) (ps : list (list nat)) : list (list nat * ckey) :=
  match ps with
  | [] => []
  | p :: r =>
      match mrr_node_at t p with
      | Some n =>
          match m_ce (meta_of n) with
          | Some k => if mem_nat (mrr_key_id k) seen then mrr_first t seen r
                      else (p, k) :: mrr_first t (mrr_key_id k :: seen) r
          | None => mrr_first t seen r
          end
      | None => mrr_first t seen r
      end
  end.

Record mrr_lay := mk_lay {
  l_fu : list (list nat * ckey);     (* first users *)
  l_DB : list dirrec;                (* the walk: extent of every record's range *)
  l_FB : list dirrec;                (* file contents *)
  l_er : Z }.                        (* the ER sector of the root '.' record *)

Definition mrr_start (s : rstate) : Z := 16 + 1 + 1 + 1 + r_ptr_ext s + r_ptr_ext s.
Definition mrr_layout (s : rstate) : mrr_lay :=
  let t := r_root s in
  let fu := mrr_first t [] (mrr_order t) in
  let T := mrr_dtree (map snd fu) t in
  let er := assign_end (mrr_start s) T in
  mk_lay fu (bfs (mrr_start s) T) (bfs (er + 1) (mrr_ftree t)) er.
Definition mrr_layout_end (s : rstate) : Z :=
  assign_end (l_er (mrr_layout s) + 1) (mrr_ftree (r_root s)).

(* extent of the continuation block with identity i: right after the extents of its first user;
   -1 = never assigned (unreachable: record() would raise struct.error) *)
Definition mrr_ce_ext (t : rnode) (L : mrr_lay) (i : nat) : Z :=
  match find (fun x => Nat.eqb (mrr_key_id (snd x)) i) (l_fu L) with
  | Some (p, _) => Master.ms_ext_at (l_DB L) p
                   + match mrr_node_at t p with Some n => mrr_dblocks n | None => 0 end
  | None => -1
  end.

(* ---- one record ------------------------------------------------------------------------------- *)
Definition mrr_links (n : rnode) : Z :=
  match n with RDir _ _ kids => 2 + zlen (filter r_is_dir kids) | RFile _ _ => 1 end.
Definition mrr_mode (n : rnode) : Z :=
  match n with RDir _ _ _ => DIR_MODE | RFile m _ => if m_ino m then FILE_MODE else LINK_MODE end.

(* what a record is made from *)
Record rspec := mk_rspec {
  rs_first : bool; rs_nm : list Z; rs_rr : list Z; rs_target : list Z; rs_mode : Z; rs_links : Z;
  rs_ext : Z; rs_len : Z; rs_fl : Z; rs_bl : Z; rs_off : Z }.

Definition mrr_pin (v : rrv) (dt : list Z) (x : rspec) : place_in :=
  mk_pin v (rs_first x) (rs_rr x) (rs_mode x)
         (match rs_target x with [] => None | _ => Some (rs_target x) end)
         false false false 0 (Account.dr_len_of (rs_nm x)) [dt; dt; dt].

(* the in-place updates between RockRidge.new and record(): the link count, the CE pointer *)
Definition mrr_patch (x : rspec) (e : su_entry) : su_entry :=
  match e with
  | E_PX p => E_PX (mk_px (px_mode p) (rs_links x) (px_uid p) (px_gid p) (px_serial p))
  | E_CE c => E_CE (mk_ce (rs_bl x) (rs_off x) (ce_len c))
  | _ => e
  end.

(* (record_dr_entries(), record_ce_entries() when there is a CE entry); None = an exception *)
Definition mrr_su (v : rrv) (dt : list Z) (x : rspec) : option (list Z * option (list Z)) :=
  match place (mrr_pin v dt x) with
  | Some r =>
      match record_list v (map (mrr_patch x) (entries_list (pl_dr r))),
            record_list v (map (mrr_patch x) (entries_list (pl_ce r))) with
      | Some a, Some b => Some (a, if is_some (ce_record (pl_dr r)) then Some b else None)
      | _, _ => None
      end
  | None => None
  end.
Definition mrr_su_get (v : rrv) (dt : list Z) (x : rspec) : list Z * option (list Z) :=
  match mrr_su v dt x with Some y => y | None => ([], None) end.

(* _new: xattr 0, unit 0, gap 0, seqnum 1 *)
Definition mrr_drec (v : rrv) (dt : list Z) (x : rspec) : drec :=
  mk_drec 0 (rs_ext x) (rs_len x) dt (rs_fl x) 0 0 1 (rs_nm x) (fst (mrr_su_get v dt x)).
(* the write into the continuation area: (block extent, offset, bytes) *)
Definition mrr_cw (v : rrv) (dt : list Z) (x : rspec) : list (Z * Z * list Z) :=
  match snd (mrr_su_get v dt x) with Some b => [(rs_bl x, rs_off x, b)] | None => [] end.
Definition mrr_spec_ok (v : rrv) (dt : list Z) (x : rspec) : bool :=
  is_some (mrr_su v dt x) && Master.ms_enc_ok (mrr_drec v dt x).

(* ---- the records of one directory -------------------------------------------------------------- *)
Definition mrr_ce_of (t : rnode) (L : mrr_lay) (m : meta) : Z * Z :=
  match m_ce m with Some (i, off, _) => (mrr_ce_ext t L i, off) | None => (0, 0) end.

Definition mrr_kid_spec (t : rnode) (L : mrr_lay) (q : list nat) (c : rnode) : rspec :=
  let m := meta_of c in
  let bo := mrr_ce_of t L m in
  match c with
  | RDir _ dl _ =>
      mk_rspec false (m_name m) (m_rr m) (m_target m) DIR_MODE (mrr_links c)
               (Master.ms_ext_at (l_DB L) q) dl 2 (fst bo) (snd bo)
  | RFile _ len =>
      mk_rspec false (m_name m) (m_rr m) (m_target m) (mrr_mode c) 1
               (if m_ino m then Master.ms_fext (l_FB L) q len else 0) len 0 (fst bo) (snd bo)
  end.

Fixpoint mrr_kid_specs (t : rnode) (L : mrr_lay) (p : list nat) (j : nat) (kids : list rnode) : list rspec :=
  match kids with
  | [] => []
  | c :: r => mrr_kid_spec t L (p ++ [j]) c :: mrr_kid_specs t L p (S j) r
  end.

Definition mrr_is_root (p : list nat) : bool := match p with [] => true | _ => false end.
Definition mrr_links_at (t : rnode) (p : list nat) : Z :=
  match mrr_node_at t p with Some n => mrr_links n | None => 0 end.

(* children[0] = '.', children[1] = '..' (of the root: the root itself), children[2:] *)
Definition mrr_dir_specs (t : rnode) (L : mrr_lay) (p : list nat) : list rspec :=
  match mrr_node_at t p with
  | Some (RDir _ dl kids) =>
      let pp := removelast p in
      mk_rspec (mrr_is_root p) [0] [] [] DIR_MODE (mrr_links_at t p) (Master.ms_ext_at (l_DB L) p) dl 2
               (if mrr_is_root p then l_er L else 0) 0
      :: mk_rspec false [1] [] [] DIR_MODE (mrr_links_at t pp) (Master.ms_ext_at (l_DB L) pp)
                  (mrr_dlen_at t pp) 2 0 0
      :: mrr_kid_specs t L p 0 kids
  | _ => []
  end.

(* ---- the image ---------------------------------------------------------------------------------- *)
Definition mrr_dir_positions (t : rnode) : list (list nat) := filter (mrr_is_dir_at t) (mrr_order t).

Definition mrr_dir_chunk (v : rrv) (dt : list Z) (t : rnode) (L : mrr_lay) (p : list nat) : Z * list Z :=
  (Master.ms_ext_at (l_DB L) p,
   Master.ms_dir_bytes (mrr_dlen_at t p)
     (map (fun x => Master.ms_enc (mrr_drec v dt x)) (mrr_dir_specs t L p))).

(* all writes into continuation areas, in the order _write_directory_records performs them *)
Definition mrr_writes (v : rrv) (dt : list Z) (t : rnode) (L : mrr_lay) : list (Z * Z * list Z) :=
  flat_map (fun p => flat_map (mrr_cw v dt) (mrr_dir_specs t L p)) (mrr_dir_positions t).

(* seek(bl * 2048 + off); write(bs) on a zero-filled block *)
Definition mrr_paste (blk : list Z) (off : Z) (bs : list Z) : list Z :=
  firstn (Z.to_nat off) blk ++ bs ++ skipn (Z.to_nat (off + zlen bs)) blk.
Definition mrr_block (ws : list (Z * Z * list Z)) (e : Z) : list Z :=
  fold_left (fun blk w => if fst (fst w) =? e then mrr_paste blk (snd (fst w)) (snd w) else blk)
            ws (repeat 0 (Z.to_nat BS)).

(* extents of the continuation blocks: those of the PVD in first-user order, then the ER sector *)
Definition mrr_block_exts (t : rnode) (L : mrr_lay) : list Z :=
  map (fun x => mrr_ce_ext t L (mrr_key_id (snd x))) (l_fu L) ++ [l_er L].

(* None = record() raised *)
Definition master_rr (dt : list Z) (s : rstate) : option image :=
  let v := r_ver s in
  let t := r_root s in
  let L := mrr_layout s in
  let ps := mrr_dir_positions t in
  if forallb (fun p => forallb (mrr_spec_ok v dt) (mrr_dir_specs t L p)) ps
  then let ws := mrr_writes v dt t L in
       Some (map (mrr_dir_chunk v dt t L) ps ++ map (fun e => (e, mrr_block ws e)) (mrr_block_exts t L))
  else None.

(* ---- an INDEPENDENT SUSP / RRIP reader ---------------------------------------------------------- *)
Record racc := mk_racc {
  ra_nm : list (Z * list Z);                     (* NM: (flags, name piece) in the order met *)
  ra_px : option (Z * Z);                        (* PX: (st_mode, st_nlink) *)
  ra_sl : list (bool * list LongNames.comp);     (* SL: (CONTINUE, components) in the order met *)
  ra_ce : option (Z * Z * Z);                    (* CE: (block, offset, length) *)
  ra_sp : option Z;                              (* SP: bytes to skip *)
  ra_er : option (list Z) }.                     (* ER: extension identifier *)
Definition racc0 : racc := mk_racc [] None [] None None None.

Definition mrr_rd32 (b : list Z) (o : nat) : Z := dle32 (firstn 4 (skipn o b)).

(* the component area of an SL entry: flags, length, data *)
Fixpoint mrr_comps (fuel : nat) (b : list Z) : list LongNames.comp :=
  match fuel with
  | O => []
  | S f => match b with
           | fl :: l :: rest =>
               LongNames.pair_comp (fl, firstn (Z.to_nat l) rest) :: mrr_comps f (skipn (Z.to_nat l) rest)
           | _ => []
           end
  end.

(* one entry: signature bytes s0 s1, [body] = the bytes after signature, length and version *)
Definition mrr_absorb (s0 s1 : Z) (body : list Z) (a : racc) : racc :=
  if (s0 =? 78) && (s1 =? 77) then                                            (* NM *)
    mk_racc (ra_nm a ++ [(hd 0 body, tl body)]) (ra_px a) (ra_sl a) (ra_ce a) (ra_sp a) (ra_er a)
  else if (s0 =? 80) && (s1 =? 88) then                                       (* PX *)
    mk_racc (ra_nm a) (Some (mrr_rd32 body 0, mrr_rd32 body 8)) (ra_sl a) (ra_ce a) (ra_sp a) (ra_er a)
  else if (s0 =? 83) && (s1 =? 76) then                                       (* SL *)
    mk_racc (ra_nm a) (ra_px a) (ra_sl a ++ [(Z.odd (hd 0 body), mrr_comps (length body) (tl body))])
            (ra_ce a) (ra_sp a) (ra_er a)
  else if (s0 =? 67) && (s1 =? 69) then                                       (* CE *)
    mk_racc (ra_nm a) (ra_px a) (ra_sl a) (Some (mrr_rd32 body 0, mrr_rd32 body 8, mrr_rd32 body 16))
            (ra_sp a) (ra_er a)
  else if (s0 =? 83) && (s1 =? 80) then                                       (* SP: check bytes BE EF *)
    match body with
    | 190 :: 239 :: skip :: _ => mk_racc (ra_nm a) (ra_px a) (ra_sl a) (ra_ce a) (Some skip) (ra_er a)
    | _ => a
    end
  else if (s0 =? 69) && (s1 =? 82) then                                       (* ER *)
    mk_racc (ra_nm a) (ra_px a) (ra_sl a) (ra_ce a) (ra_sp a)
            (Some (firstn (Z.to_nat (hd 0 body)) (skipn 4 body)))
  else a.

(* walk one System Use / continuation area entry by entry by the length bytes *)
Fixpoint mrr_su_walk (fuel : nat) (b : list Z) (a : racc) : racc :=
  match fuel with
  | O => a
  | S f =>
      match b with
      | s0 :: s1 :: l :: _ :: rest =>
          if (l <? 4) || (zlen b <? l) then a                   (* padding / overrun: stop *)
          else if (s0 =? 83) && (s1 =? 84) then a               (* ST *)
          else mrr_su_walk f (skipn (Z.to_nat l) b) (mrr_absorb s0 s1 (firstn (Z.to_nat (l - 4)) rest) a)
      | _ => a
      end
  end.

Definition mrr_clear_ce (a : racc) : racc := mk_racc (ra_nm a) (ra_px a) (ra_sl a) None (ra_sp a) (ra_er a).

(* the area, then the continuation area its CE entry names, ...; None = a pointer outside the image or
   outside its block, or too many hops *)
Fixpoint mrr_su_read (hops : nat) (img : image) (area : list Z) (a : racc) : option racc :=
  let a1 := mrr_su_walk (length area) area (mrr_clear_ce a) in
  match ra_ce a1 with
  | None => Some a1
  | Some (bl, off, len) =>
      match hops with
      | O => None
      | S h =>
          match Master.ms_get_block img bl with
          | Some blk => if (0 <=? off) && (off + len <=? BS)
                        then mrr_su_read h img (firstn (Z.to_nat len) (skipn (Z.to_nat off) blk)) a1
                        else None
          | None => None
          end
      end
  end.
Definition mrr_hops : nat := 4%nat.

Inductive vnode : Type :=
| VFile (iso rr : list Z) (mode links : Z) (target : list Z) (ext len : Z)
| VDir (iso rr : list Z) (mode links : Z) (ext len : Z) (kids : list vnode).

(* Rock Ridge data of one record: (name, mode, links, target); None = no PX entry / broken CE *)
Definition mrr_rec_info (img : image) (skip : Z) (r : drec) : option (list Z * Z * Z * list Z) :=
  match mrr_su_read mrr_hops img (skipn (Z.to_nat skip) (sysuse r)) racc0 with
  | Some a => match ra_px a with
              | Some (mode, links) =>
                  Some (LongNames.nm_join (ra_nm a), mode, links, LongNames.sl_reassemble (ra_sl a))
              | None => None
              end
  | None => None
  end.

Fixpoint mrr_read_kids (rd : Z -> Z -> option (list vnode)) (img : image) (skip : Z) (rs : list drec)
  : option (list vnode) :=
  match rs with
  | [] => Some []
  | r :: rs' =>
      let x := match mrr_rec_info img skip r with
               | Some (nm, mode, links, tg) =>
                   if Master.ms_rec_is_dir r
                   then match rd (extent r) (data_len r) with
                        | Some ks => Some (VDir (Codec.ident r) nm mode links (extent r) (data_len r) ks)
                        | None => None
                        end
                   else Some (VFile (Codec.ident r) nm mode links tg (extent r) (data_len r))
               | None => None
               end in
      match x, mrr_read_kids rd img skip rs' with
      | Some a, Some b => Some (a :: b)
      | _, _ => None
      end
  end.

Fixpoint mrr_read_dir (fuel : nat) (img : image) (skip : Z) (ext len : Z) : option (list vnode) :=
  match fuel with
  | O => None
  | S f =>
      match Master.ms_img_read img ext len with
      | None => None
      | Some data =>
          match Master.ms_scan (S (length data)) data 0 with
          | None => None
          | Some recs => mrr_read_kids (mrr_read_dir f img skip) img skip (skipn 2 recs)
          end
      end
  end.

(* what the reader reports of the whole image *)
Record rr_view := mk_view {
  v_skip : Z;                  (* SP of the root's first record *)
  v_er : list Z;               (* ER extension identifier (via CE) *)
  v_mode : Z; v_links : Z;     (* PX of the root's '.' *)
  v_kids : list vnode }.

(* the first record of the root must carry SP (else: no SUSP on this volume) and PX *)
Definition read_rr (fuel : nat) (img : image) (root_ext root_len : Z) : option rr_view :=
  match Master.ms_img_read img root_ext root_len with
  | None => None
  | Some data =>
      match Master.ms_scan (S (length data)) data 0 with
      | Some (r0 :: _) =>
          match mrr_su_read mrr_hops img (sysuse r0) racc0 with
          | Some a =>
              match ra_sp a, ra_px a, ra_er a with
              | Some skip, Some (mode, links), Some er =>
                  match mrr_read_dir fuel img skip root_ext root_len with
                  | Some ks => Some (mk_view skip er mode links ks)
                  | None => None
                  end
              | _, _, _ => None
              end
          | None => None
          end
      | _ => None
      end
  end.

(* ---- what a reader must find ---------------------------------------------------------------------- *)
Fixpoint mrr_vnode (L : mrr_lay) (q : list nat) (c : rnode) : vnode :=
  match c with
  | RFile m len =>
      VFile (m_name m) (m_rr m) (mrr_mode c) 1 (m_target m)
            (if m_ino m then Master.ms_fext (l_FB L) q len else 0) len
  | RDir m dl kids =>
      VDir (m_name m) (m_rr m) DIR_MODE (mrr_links c) (Master.ms_ext_at (l_DB L) q) dl
        ((fix go (j : nat) (l : list rnode) : list vnode :=
            match l with
            | [] => []
            | k :: r => mrr_vnode L (q ++ [j]) k :: go (S j) r
            end) 0%nat kids)
  end.

Definition mrr_view (s : rstate) : rr_view :=
  let L := mrr_layout s in
  mk_view 0 (er_id (er_of (r_ver s))) DIR_MODE (mrr_links (r_root s))
          (match mrr_vnode L [] (r_root s) with VDir _ _ _ _ _ _ ks => ks | VFile _ _ _ _ _ _ _ => [] end).

Definition mrr_root_extent (s : rstate) : Z := mrr_start s.
Definition mrr_root_len (s : rstate) : Z := mrr_dlen_at (r_root s) [].

Fixpoint mrr_height (n : rnode) : nat :=
  match n with
  | RFile _ _ => 1%nat
  | RDir _ _ kids => S (fold_right (fun c m => Nat.max (mrr_height c) m) 0%nat kids)
  end.
Definition mrr_fuel (s : rstate) : nat := mrr_height (r_root s).

(* ---- well-formed states ---------------------------------------------------------------------------- *)
(* the guard of DirectoryRecord._rr_new: dr_len + 28 <= 254 *)
Definition mrr_name_ok (nm : list Z) : bool := Account.dr_len_of nm + len_ce <=? ALLOWED_DR_SIZE.

(* the record's bookkeeping is what RockRidge.new gives for its names: dr_len, and a CE key iff a CE entry,
   with that length, inside one block *)
Definition mrr_meta_ok (v : rrv) (dt : list Z) (x : rspec) (m : meta) : bool :=
  mrr_name_ok (m_name m) &&
  match place (mrr_pin v dt x) with
  | Some r =>
      (m_rlen m =? new_dr_len_of r) &&
      match m_ce m with
      | Some (_, off, len) =>
          is_some (ce_record (pl_dr r)) && (len =? pl_celen r) && (0 <=? off) && (off + len <=? BS)
      | None => negb (is_some (ce_record (pl_dr r)))
      end
  | None => false
  end.
Definition mrr_spec0 (c : rnode) : rspec :=
  mk_rspec false (m_name (meta_of c)) (m_rr (meta_of c)) (m_target (meta_of c)) (mrr_mode c) 0 0 0 0 0 0.

(* [budget]: recursion fuel (mrr_wf uses the height of the tree: no depth limit); [isroot]: the node is the root *)
Fixpoint mrr_wf_node (v : rrv) (dt : list Z) (budget : nat) (isroot : bool) (n : rnode) : bool :=
  match budget with
  | O => false
  | S f =>
      (isroot || mrr_meta_ok v dt (mrr_spec0 n) (meta_of n)) &&
      (mrr_links n <=? 4294967295) &&            (* struct.pack of the PX link count *)
      match n with
      | RFile m len => (0 <=? len) && (len <=? Account.max_len) && (m_ino m || (len =? 0))
      | RDir m dl kids =>
          Invb BS (rst_of v isroot dl (rlens kids)) && (dl <=? 4294967295) &&
          forallb (mrr_wf_node v dt f false) kids
      end
  end.

(* all continuation keys of the tree, and: two areas in the same block do not overlap *)
Fixpoint mrr_keys (n : rnode) : list ckey :=
  (match m_ce (meta_of n) with Some k => [k] | None => [] end) ++
  match n with
  | RFile _ _ => []
  | RDir _ _ kids => flat_map mrr_keys kids
  end.
Definition mrr_key_apart (a b : ckey) : bool :=
  let '(i, o, l) := a in let '(j, p, q) := b in
  negb (Nat.eqb i j) || (o + l <=? p) || (p + q <=? o).
Fixpoint mrr_keys_apart (l : list ckey) : bool :=
  match l with
  | [] => true
  | k :: r => forallb (mrr_key_apart k) r && mrr_keys_apart r
  end.

Definition mrr_wf (dt : list Z) (s : rstate) : bool :=
  match r_ver s, r_root s with
  | V_unset, _ => false
  | _, RFile _ _ => false
  | v, RDir m _ _ =>
      Account.bytes_eqb (m_name m) [0] && negb (is_some (m_ce m)) &&
      mrr_wf_node v dt (mrr_height (r_root s)) true (r_root s) && mrr_keys_apart (mrr_keys (r_root s)) &&
      (0 <=? r_ptr_ext s) && (mrr_layout_end s <=? 4294967296)
  end.

(* the fields struct.pack checks: link counts, directory lengths, extents (for the statement about edit histories:
   every state rr_run reaches that passes this check is well-formed, Proofs/MasterRRRun.v) *)
Fixpoint mrr_sizes (n : rnode) : bool :=
  (mrr_links n <=? 4294967295) &&
  match n with
  | RFile _ _ => true
  | RDir _ dl kids => (dl <=? 4294967295) && forallb mrr_sizes kids
  end.
Definition mrr_sizes_ok (s : rstate) : bool := mrr_sizes (r_root s) && (mrr_layout_end s <=? 4294967296).

(* ---- harness --------------------------------------------------------------------------------------- *)
Fixpoint mrr_vnode_eqb (a b : vnode) : bool :=
  match a, b with
  | VFile i1 n1 m1 k1 t1 e1 l1, VFile i2 n2 m2 k2 t2 e2 l2 =>
      zlist_eqb i1 i2 && zlist_eqb n1 n2 && (m1 =? m2) && (k1 =? k2) && zlist_eqb t1 t2 && (e1 =? e2) && (l1 =? l2)
  | VDir i1 n1 m1 k1 e1 l1 c1, VDir i2 n2 m2 k2 e2 l2 c2 =>
      zlist_eqb i1 i2 && zlist_eqb n1 n2 && (m1 =? m2) && (k1 =? k2) && (e1 =? e2) && (l1 =? l2) &&
      (fix go (x y : list vnode) : bool :=
         match x, y with
         | [], [] => true
         | a' :: x', b' :: y' => mrr_vnode_eqb a' b' && go x' y'
         | _, _ => false
         end) c1 c2
  | _, _ => false
  end.
Definition mrr_view_eqb (a b : rr_view) : bool :=
  (v_skip a =? v_skip b) && zlist_eqb (v_er a) (v_er b) && (v_mode a =? v_mode b) && (v_links a =? v_links b) &&
  mrr_vnode_eqb (VDir [] [] 0 0 0 0 (v_kids a)) (VDir [] [] 0 0 0 0 (v_kids b)).

(* a case: (version code, the edit history, the 7 date bytes, (root extent, root length) from the PVD,
            [(extent, run-length coded bytes)] : every directory extent in walk order, then every continuation
            block by ascending extent (the ER sector last), the expected view: names / modes / link counts /
            targets as GIVEN to the library, extents as its records carry them) *)
Definition mrr_case : Type :=
  (Z * list rop * list Z * (Z * Z) * list (Z * list (Z * list Z)) * rr_view)%type.

Definition mrr_case_ok (c : mrr_case) : bool :=
  let '(vc, ops, dt, (re, rl), expected, ev) := c in
  let s := rr_run (rr_init (vcode vc)) ops in
  let img := map (fun x : Z * list (Z * list Z) => (fst x, Master.ms_unrle (snd x))) expected in
  mrr_wf dt s && mrr_sizes_ok s &&
  (re =? mrr_root_extent s) && (rl =? mrr_root_len s) &&
  match master_rr dt s with Some m => Master.ms_image_eqb m img | None => false end &&
  match read_rr (mrr_fuel s) img re rl with Some w => mrr_view_eqb w ev | None => false end &&
  mrr_view_eqb (mrr_view s) ev.

Definition bad_masterrr_cases (k : nat) (cs : list mrr_case) : list nat := RRWalk.bad_cases mrr_case_ok k cs.
