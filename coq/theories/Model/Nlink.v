(* Model/Nlink.v -- state-machine model of how pycdlib maintains the Rock Ridge
   POSIX link count (PX.posix_file_links) of DIRECTORIES.  Executable definitions only.

   Python sources modelled (statement by statement, in the code's order):
     rockridge.py  RRPXRecord.new          posix_file_links = 1 for EVERY fresh PX record
                   add_to_file_links       += 1        remove_from_file_links  -= 1
                   copy_file_links(src)    := src's value
     dr.py         _rr_new (isdir branch)  which records are bumped when a directory record,
                                           its '.' and its '..' are constructed
                   remove_child            which records are decremented
     pycdlib.py    new                     root '.' then root '..'
                   add_directory           duplicate-name test (raises BEFORE any record is built),
                                           rec.new_dir ; _add_child_to_dr(rec) ;
                                           _create_dot ; _create_dotdot
                   rm_directory            refusals, then remove_child
                   _reassign_vd_dirrecord_extents   the is_dotdot() branch (copy_file_links)

   A directory is identified by its path (list of small integers, root = []).  Each node
   carries the three records that hold a count for it:
     entry_links   the directory's own record inside its parent (the root's own record has no
                   Rock Ridge: field unused for the root, kept at 0),
     dot_links     its '.' record, dotdot_links its '..' record. *)
From Coq Require Import ZArith List Bool.
Import ListNotations.
Local Open Scope Z_scope.

Record node := mkNode {
  path : list Z;
  entry_links : Z;
  dot_links : Z;
  dotdot_links : Z }.

Definition state := list node.

Inductive op := AddDir (p : list Z) | RmDir (p : list Z).

Definition peq := list_eq_dec Z.eq_dec.

Definition paths (s : state) : list (list Z) := map path s.

(* p is a child of q *)
Definition is_child_of (q p : list Z) : bool :=
  match p with
  | [] => false
  | _ => if peq (removelast p) q then true else false
  end.

Definition nsubp (ps : list (list Z)) (q : list Z) : Z :=
  Z.of_nat (length (filter (is_child_of q) ps)).

(* number of sub-directories of q in s *)
Definition nsub (s : state) (q : list Z) : Z := nsubp (paths s) q.

Definition find_node (s : state) (q : list Z) : option node :=
  find (fun n => if peq (path n) q then true else false) s.

Definition has_node (s : state) (q : list Z) : bool :=
  match find_node s q with Some _ => true | None => false end.

Definition has_subdir (s : state) (q : list Z) : bool :=
  existsb (is_child_of q) (paths s).

(* field updates = the three RockRidge methods applied to one record *)
Definition add_entry (n : node) := mkNode (path n) (entry_links n + 1) (dot_links n) (dotdot_links n).
Definition add_dot (n : node) := mkNode (path n) (entry_links n) (dot_links n + 1) (dotdot_links n).
Definition add_dotdot (n : node) := mkNode (path n) (entry_links n) (dot_links n) (dotdot_links n + 1).
Definition sub_entry (n : node) := mkNode (path n) (entry_links n - 1) (dot_links n) (dotdot_links n).
Definition sub_dot (n : node) := mkNode (path n) (entry_links n) (dot_links n - 1) (dotdot_links n).
Definition sub_dotdot (n : node) := mkNode (path n) (entry_links n) (dot_links n) (dotdot_links n - 1).
Definition set_dotdot (n : node) (v : Z) := mkNode (path n) (entry_links n) (dot_links n) v.

Definition map_node (s : state) (q : list Z) (f : node -> node) : state :=
  map (fun n => if peq (path n) q then f n else n) s.

(* dr.py _rr_new, isdir, file_ident not in (b'\x00', b'\x01'), parent = q:
     parent is root : parent.children[0] += 1 ; parent.children[1] += 1
     otherwise      : parent.rock_ridge += 1 ; parent.children[0] += 1 *)
Definition bump (q : list Z) (n : node) : node :=
  match q with
  | [] => add_dotdot (add_dot n)
  | _ => add_dot (add_entry n)
  end.

(* dr.py remove_child, child.isdir, self = q:
     self.parent is None : children[0] -= 1 ; children[1] -= 1
     otherwise           : self.rock_ridge -= 1 ; children[0] -= 1 *)
Definition unbump (q : list Z) (n : node) : node :=
  match q with
  | [] => sub_dotdot (sub_dot n)
  | _ => sub_dot (sub_entry n)
  end.

(* PX.new *)
Definition px_new : Z := 1.

(* pycdlib.new(rock_ridge=...): root '.' : PX.new then add_to_file_links (parent.is_root and
   file_ident == b'\x00'); root '..' likewise. *)
Definition init : state := [mkNode [] 0 (px_new + 1) (px_new + 1)].

Definition max_depth : nat := 7.

(* The three constructors run by add_directory for the new directory p (parent q, state s1 is
   the state after the parent's counts were bumped):
     new_dir      : own record PX.new = 1
     _create_dot  : parent (= the new directory) is not the root and file_ident = b'\x00':
                    self.parent.rock_ridge += 1 ; self.rock_ridge (PX.new = 1) += 1
     _create_dotdot: copy_file_links(self.parent.parent.children[0]) = the '.' record of q *)
Definition new_node (s1 : state) (p q : list Z) : node :=
  let entry0 := px_new in
  let entry1 := entry0 + 1 in
  let dot1 := px_new + 1 in
  let dotdot1 := match find_node s1 q with Some pn => dot_links pn | None => px_new end in
  mkNode p entry1 dot1 dotdot1.

Definition step (s : state) (o : op) : state :=
  match o with
  | AddDir p =>
      match p with
      | [] => s                                       (* IndexError, nothing touched *)
      | _ =>
        let q := removelast p in
        if (max_depth <? length p)%nat then s         (* OUT OF MODEL: relocation *)
        else if negb (has_node s q) then s            (* 'Could not find path' *)
        else if has_node s p then s                   (* 'Failed adding duplicate name to parent',
                                                         raised before new_dir *)
        else
          let s1 := map_node s q (bump q) in          (* rec.new_dir -> _rr_new *)
          new_node s1 p q :: s1
      end
  | RmDir p =>
      match p with
      | [] => s                                       (* 'Cannot remove base directory' *)
      | _ =>
        let q := removelast p in
        if negb (has_node s p) then s                 (* 'Could not find path' *)
        else if has_subdir s p then s                 (* 'Directory must be empty' *)
        else
          filter (fun n => if peq (path n) p then false else true)
                 (map_node s q (unbump q))            (* remove_child then del children[index] *)
      end
  end.

Definition run (s : state) (ops : list op) : state := fold_left step ops s.

(* the op is performed (a directory appears / disappears) *)
Definition accepts (s : state) (o : op) : bool :=
  match o with
  | AddDir p =>
      match p with
      | [] => false
      | _ => negb (max_depth <? length p)%nat && has_node s (removelast p) && negb (has_node s p)
      end
  | RmDir p =>
      match p with
      | [] => false
      | _ => has_node s p && negb (has_subdir s p)
      end
  end.

(* _reassign_vd_dirrecord_extents, is_dotdot() branch, for the '..' of every non-root directory d
   with parent q:  source_dr = q.children[0] if q is the root else q ;
                   dotdot.copy_file_links(source_dr).
   The walk only writes '..' records of non-root directories and only reads own records and the
   root's '.', so the visiting order is irrelevant: all sources are read from s. *)
Definition refresh (s : state) (n : node) : node :=
  match path n with
  | [] => n
  | _ =>
    let q := removelast (path n) in
    match find_node s q with
    | None => n
    | Some pn => set_dotdot n (match q with [] => dot_links pn | _ => entry_links pn end)
    end
  end.

Definition reshuffle (s : state) : state := map (refresh s) s.

(* ---- probe for the differential harness ---- *)
Fixpoint path_leb (a b : list Z) : bool :=
  match a, b with
  | [], _ => true
  | _ :: _, [] => false
  | x :: a', y :: b' => if x <? y then true else if y <? x then false else path_leb a' b'
  end.

Definition row := (list Z * Z * Z * Z)%type.

Definition row_path (r : row) : list Z := fst (fst (fst r)).

Fixpoint insert_row (r : row) (l : list row) : list row :=
  match l with
  | [] => [r]
  | h :: t => if path_leb (row_path r) (row_path h) then r :: l else h :: insert_row r t
  end.

Definition sort_rows (l : list row) : list row := fold_right insert_row [] l.

Definition probe (s : state) : list row :=
  sort_rows (map (fun n => (path n, entry_links n, dot_links n, dotdot_links n)) s).

Definition run_probe (ops : list op) : list row := probe (reshuffle (run init ops)).

(* without the recomputation pass (what the in-memory records hold before force_consistency) *)
Definition run_probe_raw (ops : list op) : list row := probe (run init ops).
