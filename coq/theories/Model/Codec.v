(* Byte-level models of pycdlib's record() (encode) and parse() (decode) for the core ISO9660
   structures.  Definitions only; proofs are in Proofs/CodecProofs.v.

   Sources modelled (statement by statement):
     /repo/pycdlib/utils.py               swab_32bit, swab_16bit                 -> swab32, swab16
     /repo/pycdlib/dates.py               DirectoryRecordDate.record / .parse    -> enc_date7 / dec_date7
     /repo/pycdlib/dr.py                  DirectoryRecord.record                 -> enc_dr_raw (enc_dr)
     /repo/pycdlib/dr.py                  DirectoryRecord._new (dr_len part)     -> new_dr_len
     /repo/pycdlib/dr.py                  DirectoryRecord.parse (parent given)   -> parse_dr
     /repo/pycdlib/pycdlib.py             _walk_directories (lenbyte slicing)    -> dec_dr
     /repo/pycdlib/path_table_record.py   _record, record_little/big_endian      -> enc_ptr_raw, enc_ptr_le/be
     /repo/pycdlib/path_table_record.py   parse, record_length                   -> parse_ptr, ptr_len
     /repo/pycdlib/pycdlib.py             _parse_path_table (slicing)            -> dec_ptr_le / dec_ptr_be

   bytes = list Z, each element 0..255.  struct.pack/unpack are modelled by a list of fields whose
   byte widths are the GENERATED widths of GenConst.v (fmt_dr_widths, fmt_ptr_widths,
   fmt_dr_date_widths): the decoders split their input with those widths, so a change of an FMT
   string in the source changes these functions and breaks the proofs.  An exception (struct.error,
   PyCdlibInvalidISO, PyCdlibInternalError of the swab functions) is [None].

   TUPLE ORDER of the external differential cases
     dr case  : ((xattr_len, extent, data_len, date(7 bytes), flags, unit_size, gap_size, seqnum,
                  ident, sysuse), expected_bytes)
                type (Z * Z * Z * list Z * Z * Z * Z * Z * list Z * list Z) * list Z
     ptr case : ((xattr, extent, parent, dirid), expected_le_bytes, expected_be_bytes)
                type (Z * Z * Z * list Z) * list Z * list Z
     expected bytes = [] stands for "the Python call raised". *)
From Coq Require Import ZArith List Bool.
From PV.Base Require Import Prim.
From PV.Gen Require Import GenConst GenFun.
Import ListNotations.
Local Open Scope Z_scope.

(* ---- integers <-> bytes ------------------------------------------------------------------ *)

Definition le16 (v : Z) : list Z := [v mod 256; (v / 256) mod 256].
Definition be16 (v : Z) : list Z := [(v / 256) mod 256; v mod 256].
Definition le32 (v : Z) : list Z :=
  [v mod 256; (v / 256) mod 256; (v / 65536) mod 256; (v / 16777216) mod 256].
Definition be32 (v : Z) : list Z :=
  [(v / 16777216) mod 256; (v / 65536) mod 256; (v / 256) mod 256; v mod 256].

Definition dle16 (l : list Z) : Z := nth 0 l 0 + 256 * nth 1 l 0.
Definition dbe16 (l : list Z) : Z := 256 * nth 0 l 0 + nth 1 l 0.
Definition dle32 (l : list Z) : Z :=
  nth 0 l 0 + 256 * nth 1 l 0 + 65536 * nth 2 l 0 + 16777216 * nth 3 l 0.
Definition dbe32 (l : list Z) : Z :=
  16777216 * nth 0 l 0 + 65536 * nth 1 l 0 + 256 * nth 2 l 0 + nth 3 l 0.
Definition d8 (l : list Z) : Z := nth 0 l 0.

(* ISO9660 7.2.3 / 7.3.3 both-byte-order fields *)
Definition both16 (v : Z) : list Z := le16 v ++ be16 v.
Definition both32 (v : Z) : list Z := le32 v ++ be32 v.

Definition u8_ok (v : Z) : bool := (0 <=? v) && (v <=? 255).
Definition u16_ok (v : Z) : bool := (0 <=? v) && (v <=? 65535).
Definition u32_ok (v : Z) : bool := (0 <=? v) && (v <=? 4294967295).
Definition s8_ok (v : Z) : bool := (-128 <=? v) && (v <=? 127).

(* utils.swab_32bit: struct.unpack('<I', struct.pack('>I', x))[0]; the range test (which raises) is
   done by the callers below with u32_ok / u16_ok before the value is used. *)
Definition swab32 (x : Z) : Z := dle32 (be32 x).
Definition swab16 (x : Z) : Z := dle16 (be16 x).

(* struct 'b' (signed char) *)
Definition enc_s8 (v : Z) : Z := v mod 256.
Definition dec_s8 (b : Z) : Z := if b <? 128 then b else b - 256.

(* struct 'Ns' packing of a bytes value: truncated / padded with NUL to N bytes *)
Definition pack_s (n : nat) (b : list Z) : list Z := firstn n b ++ repeat 0 (n - length b)%nat.

(* struct.unpack: cut the buffer into consecutive fields of the given widths; None (struct.error)
   when the buffer is too short.  Returns the fields and the unread remainder. *)
Fixpoint split_widths (ws : list nat) (s : list Z) : option (list (list Z) * list Z) :=
  match ws with
  | [] => Some ([], s)
  | w :: ws' =>
      if (length s <? w)%nat then None
      else match split_widths ws' (skipn w s) with
           | Some (fs, rest) => Some (firstn w s :: fs, rest)
           | None => None
           end
  end.

Definition widths (ws : list Z) : list nat := map Z.to_nat ws.

Fixpoint zlist_eqb (a b : list Z) : bool :=
  match a, b with
  | [], [] => true
  | x :: a', y :: b' => (x =? y) && zlist_eqb a' b'
  | _, _ => false
  end.

(* ---- 7-byte directory record date (dates.py DirectoryRecordDate, FMT '=BBBBBBb') --------- *)

(* record(): struct.pack(FMT, years_since_1900, month, day_of_month, hour, minute, second, gmtoffset) *)
Definition date7_fields (ys m d h mi s off : Z) : list (list Z) :=
  [[ys]; [m]; [d]; [h]; [mi]; [s]; [enc_s8 off]].
Definition enc_date7 (ys m d h mi s off : Z) : option (list Z) :=
  if u8_ok ys && u8_ok m && u8_ok d && u8_ok h && u8_ok mi && u8_ok s && s8_ok off
  then Some (concat (date7_fields ys m d h mi s off)) else None.
(* new(): years_since_1900 = local.tm_year - 1900 *)
Definition enc_date7_year (y m d h mi s off : Z) : option (list Z) :=
  enc_date7 (y - 1900) m d h mi s off.

(* parse(): struct.unpack_from(FMT, datestr, 0) *)
Definition dec_date7 (b : list Z) : option (Z * Z * Z * Z * Z * Z * Z) :=
  match split_widths (widths fmt_dr_date_widths) b with
  | Some ([f0; f1; f2; f3; f4; f5; f6], _) =>
      Some (d8 f0, d8 f1, d8 f2, d8 f3, d8 f4, d8 f5, dec_s8 (d8 f6))
  | _ => None
  end.

(* ---- directory record -------------------------------------------------------------------- *)

Record drec := mk_drec {
  xattr_len : Z; extent : Z; data_len : Z; date : list Z;
  flags : Z; unit_size : Z; gap_size : Z; seqnum : Z;
  ident : list Z; sysuse : list Z }.

(* the 13 arguments of struct.pack(self.FMT, ...) in record(), one byte list per format item *)
Definition dr_fields (dr_len len_fi : Z) (r : drec) : list (list Z) :=
  [ [dr_len]; [xattr_len r];
    le32 (extent r); le32 (swab32 (extent r));
    le32 (data_len r); le32 (swab32 (data_len r));
    pack_s 7 (date r);
    [flags r]; [unit_size r]; [gap_size r];
    le16 (seqnum r); le16 (swab16 (seqnum r));
    [len_fi] ].

(* where struct.pack / swab_* would raise *)
Definition dr_ranges_ok (dr_len len_fi : Z) (r : drec) : bool :=
  u8_ok dr_len && u8_ok (xattr_len r) && u32_ok (extent r) && u32_ok (data_len r) &&
  u8_ok (flags r) && u8_ok (unit_size r) && u8_ok (gap_size r) && u16_ok (seqnum r) &&
  u8_ok len_fi.

(* DirectoryRecord.record() with the object's stored dr_len / len_fi attributes; xa_rec + rr_rec
   is the opaque [sysuse]:
     padlen = calcsize(FMT) + len_fi ; padstr = b'\x00' * (padlen % 2)
     outlist = [pack(...) + file_ident + padstr + xa_rec + rr_rec]
     outlist.append(b'\x00' * (len(outlist[0]) % 2)) *)
Definition enc_dr_raw (dr_len len_fi : Z) (r : drec) : option (list Z) :=
  if dr_ranges_ok dr_len len_fi r then
    let padlen := fmt_dr_size + len_fi in
    let padstr := repeat 0 (Z.to_nat (padlen mod 2)) in
    let out0 := concat (dr_fields dr_len len_fi r) ++ ident r ++ padstr ++ sysuse r in
    Some (out0 ++ repeat 0 (Z.to_nat (zlen out0 mod 2)))
  else None.

(* _new(): dr_len = calcsize(FMT) + len_fi ; if xa: dr_len += XARecord.length() ; dr_len += dr_len % 2 *)
Definition new_dr_len (len_fi xa_len : Z) : Z :=
  let d := fmt_dr_size + len_fi in
  let d := d + xa_len in
  d + d mod 2.

(* the invariant value of the dr_len attribute: the number of bytes record() produces *)
Definition dr_len_of (r : drec) : Z :=
  let len_fi := zlen (ident r) in
  let l := fmt_dr_size + len_fi + (fmt_dr_size + len_fi) mod 2 + zlen (sysuse r) in
  l + l mod 2.

Definition enc_dr (r : drec) : option (list Z) :=
  enc_dr_raw (dr_len_of r) (zlen (ident r)) r.

Definition FILE_FLAG_RECORD_BIT : Z := 3.
Definition FILE_FLAG_PROTECTION_BIT : Z := 4.
Definition flag_set (fl bit : Z) : bool := negb (Z.land fl (Z.shiftl 1 bit) =? 0).

(* DirectoryRecord.parse(vd, record, parent) for parent is not None; what it reads from [record]:
   the fixed header through FMT, the both-endian checks, identifier, pad; the bytes after the pad
   (which parse hands to XARecord.parse / RockRidge.parse) are returned as the opaque system use. *)
Definition parse_dr (record : list Z) : option drec :=
  if 255 <? zlen record then None else
  match split_widths (widths fmt_dr_widths) (firstn 33 record) with
  | Some ([f0; f1; f2; f3; f4; f5; f6; f7; f8; f9; f10; f11; f12], _) =>
      let xattr := d8 f1 in
      let extent_location_le := dle32 f2 in
      let extent_location_be := dle32 f3 in
      let data_length_le := dle32 f4 in
      let fl := d8 f7 in
      let seqnum_le := dle16 f10 in
      let seqnum_be := dle16 f11 in
      let len_fi := d8 f12 in
      if negb (extent_location_le =? swab32 extent_location_be) then None else
      if negb (seqnum_le =? swab16 seqnum_be) then None else
      let record_offset := 33 in
      let file_ident := firstn (Z.to_nat len_fi) (skipn (Z.to_nat record_offset) record) in
      let record_offset := record_offset + len_fi in
      let record_offset := if len_fi mod 2 =? 0 then record_offset + 1 else record_offset in
      if negb (xattr =? 0) && (flag_set fl FILE_FLAG_RECORD_BIT || flag_set fl FILE_FLAG_PROTECTION_BIT)
      then None
      else Some (mk_drec xattr extent_location_le data_length_le f6 fl (d8 f8) (d8 f9) seqnum_le
                         file_ident (skipn (Z.to_nat record_offset) record))
  | _ => None
  end.

(* _walk_directories: lenbyte = data[offset]; if lenbyte == 0: (skip to next extent, no record);
   parse(vd, data[offset:offset + lenbyte], parent); offset += lenbyte *)
Definition dec_dr (s : list Z) : option (drec * list Z) :=
  match s with
  | [] => None
  | lenbyte :: _ =>
      if lenbyte =? 0 then None else
      match parse_dr (firstn (Z.to_nat lenbyte) s) with
      | Some r => Some (r, skipn (Z.to_nat lenbyte) s)
      | None => None
      end
  end.

(* ---- path table record ------------------------------------------------------------------- *)

Record ptrec := mk_ptrec { pt_xattr : Z; pt_extent : Z; pt_parent : Z; pt_dirid : list Z }.

Definition ptr_fields (len_di xattr ext_loc parent_dir_num : Z) : list (list Z) :=
  [[len_di]; [xattr]; le32 ext_loc; le16 parent_dir_num].

(* _record(ext_loc, parent_dir_num) with the stored len_di attribute *)
Definition enc_ptr_raw (len_di xattr ext_loc parent_dir_num : Z) (dirid : list Z) : option (list Z) :=
  if u8_ok len_di && u8_ok xattr && u32_ok ext_loc && u16_ok parent_dir_num then
    Some (concat (ptr_fields len_di xattr ext_loc parent_dir_num) ++ dirid
          ++ repeat 0 (Z.to_nat (len_di mod 2)))
  else None.

(* record_little_endian(); len_di = len(name) as set by _new *)
Definition enc_ptr_le (r : ptrec) : option (list Z) :=
  enc_ptr_raw (zlen (pt_dirid r)) (pt_xattr r) (pt_extent r) (pt_parent r) (pt_dirid r).

(* record_big_endian(): _record(swab_32bit(extent_location), swab_16bit(parent_directory_num)) *)
Definition enc_ptr_be (r : ptrec) : option (list Z) :=
  if u32_ok (pt_extent r) && u16_ok (pt_parent r) then
    enc_ptr_raw (zlen (pt_dirid r)) (pt_xattr r) (swab32 (pt_extent r)) (swab16 (pt_parent r))
                (pt_dirid r)
  else None.

(* record_length(len_di) = struct.calcsize(FMT) + len_di + (len_di % 2) *)
Definition ptr_len (len_di : Z) : Z := fmt_ptr_size + len_di + len_di mod 2.

(* parse(data): unpack_from(FMT, data[:8], 0); identifier = data[8:-1] if len_di odd else data[8:] *)
Definition parse_ptr (data : list Z) : option ptrec :=
  match split_widths (widths fmt_ptr_widths) (firstn 8 data) with
  | Some ([f0; f1; f2; f3], _) =>
      let len_di := d8 f0 in
      let id := if negb (len_di mod 2 =? 0) then removelast (skipn 8 data) else skipn 8 data in
      Some (mk_ptrec (d8 f1) (dle32 f2) (dle16 f3) id)
  | _ => None
  end.

(* _parse_path_table: read_len = record_length(data[offset]); parse(data[offset:offset+read_len]) *)
Definition dec_ptr_le (s : list Z) : option (ptrec * list Z) :=
  match s with
  | [] => None
  | len_di_byte :: _ =>
      let read_len := Z.to_nat (ptr_len len_di_byte) in
      match parse_ptr (firstn read_len s) with
      | Some r => Some (r, skipn read_len s)
      | None => None
      end
  end.

(* a record of the big-endian table is parsed by the same code; its extent/parent attributes hold
   swabbed values, which equal_to_be un-swabs with swab_32bit / swab_16bit *)
Definition dec_ptr_be (s : list Z) : option (ptrec * list Z) :=
  match dec_ptr_le s with
  | Some (r, rest) =>
      Some (mk_ptrec (pt_xattr r) (swab32 (pt_extent r)) (swab16 (pt_parent r)) (pt_dirid r), rest)
  | None => None
  end.

(* ---- executable checkers for the external differential harness --------------------------- *)

Definition dr_tuple : Type := (Z * Z * Z * list Z * Z * Z * Z * Z * list Z * list Z)%type.
Definition drec_of_tuple (t : dr_tuple) : drec :=
  let '(xa, ex, dl, dt, fl, us, gs, sq, id, su) := t in mk_drec xa ex dl dt fl us gs sq id su.

Definition opt_bytes_eqb (o : option (list Z)) (expected : list Z) : bool :=
  match o with
  | Some b => zlist_eqb b expected
  | None => match expected with [] => true | _ => false end
  end.

(* the model's encoding equals the bytes the Python produced *)
Definition check_dr_case (t : dr_tuple) (expected : list Z) : bool :=
  opt_bytes_eqb (enc_dr (drec_of_tuple t)) expected.

(* bytes produced by the Python decode (as one whole record) and re-encode to themselves *)
Definition check_dr_dec_case (expected : list Z) : bool :=
  match expected with
  | [] => true
  | _ => match dec_dr expected with
         | Some (r, []) => opt_bytes_eqb (enc_dr r) expected
         | _ => false
         end
  end.

Definition ptr_tuple : Type := (Z * Z * Z * list Z)%type.
Definition ptrec_of_tuple (t : ptr_tuple) : ptrec :=
  let '(xa, ex, pa, id) := t in mk_ptrec xa ex pa id.

Definition check_ptr_case (t : ptr_tuple) (expected_le expected_be : list Z) : bool :=
  opt_bytes_eqb (enc_ptr_le (ptrec_of_tuple t)) expected_le &&
  opt_bytes_eqb (enc_ptr_be (ptrec_of_tuple t)) expected_be.

(* indices (counted from k) of the cases on which model and Python disagree *)
Fixpoint bad_dr_cases (k : nat) (cs : list (dr_tuple * list Z)) : list nat :=
  match cs with
  | [] => []
  | (t, e) :: r => if check_dr_case t e then bad_dr_cases (S k) r else k :: bad_dr_cases (S k) r
  end.

Fixpoint bad_ptr_cases (k : nat) (cs : list (ptr_tuple * list Z * list Z)) : list nat :=
  match cs with
  | [] => []
  | (t, el, eb) :: r =>
      if check_ptr_case t el eb then bad_ptr_cases (S k) r else k :: bad_ptr_cases (S k) r
  end.

Fixpoint bad_dr_dec_cases (k : nat) (cs : list (dr_tuple * list Z)) : list nat :=
  match cs with
  | [] => []
  | (_, e) :: r => if check_dr_dec_case e then bad_dr_dec_cases (S k) r else k :: bad_dr_dec_cases (S k) r
  end.
