(* Harness for HOSTILE directory areas (C15): the model of _walk_directories (Model/Parse.v) run on the bytes of a
   WHOLE image file that was damaged on purpose, against what the real pycdlib did with the same bytes.
   Definitions only. *)
From Coq Require Import ZArith List Bool.
From PV.Base Require Import Prim.
From PV.Model Require Import Codec Pack PathTable Master Parse.
Import ListNotations.
Local Open Scope Z_scope.

(* what open_fp did: it returned (the object graph read off the opened object, directories numbered in the order
   of their records on disc; the largest end of file data is not observable and not compared), or it raised at
   raise point k of Parse.v (1..8, classified by exception type and message), or -- seen by instrumenting the
   running library, whatever it did afterwards -- the walk first left the modelled fragment: 1 = XARecord.parse
   found an XA record or RockRidge.parse was called, 2 = the duplicate-name retry of a multi-extent file *)
Inductive hexpect := HOk (g : list (list erec) * list (Z * Z) * Z) | HInvalid (k : Z) | HOutside (k : Z).

(* a case: (extents of the L path table records, (root extent, root length) of the PVD,
            the WHOLE file run-length coded, what the library did) *)
Definition ps_hcase : Type := (list Z * (Z * Z) * list (Z * list Z) * hexpect)%type.

Definition ps_hgraph_eqb (g : pgraph) (e : list (list erec) * list (Z * Z) * Z) : bool :=
  let '(dirs, inodes, lvl) := e in
  ps_list_eqb (ps_list_eqb ps_erec_eqb) (map (map ps_erec_of) (g_dirs g)) dirs
  && zz_list_eqb (g_inodes g) inodes && (g_level g =? lvl).

Definition ps_hcase_ok (c : ps_hcase) : bool :=
  let '(ptr, (re, rl), rle, ex) := c in
  let bytes := ms_unrle rle in
  match parse_file (S (length bytes)) bytes ptr re rl, ex with
  | POk g, HOk e => ps_hgraph_eqb g e
  | PInvalid w, HInvalid k => w =? k
  | PUnsupported w, HOutside k => w =? k
  | _, _ => false
  end.

Fixpoint bad_hostile_cases (k : nat) (cs : list ps_hcase) : list nat :=
  match cs with
  | [] => []
  | c :: r => if ps_hcase_ok c then bad_hostile_cases (S k) r else k :: bad_hostile_cases (S k) r
  end.
