(* Proofs about Model/Hybrid.v, part 2: GPT partition entries, GPT header (CRC), GPT.record and
   the placement of the primary / backup GPT.  Part 1 is HybridProofs.v.

   Main results
     gpart_record_length gpart_roundtrip          128 bytes; parse(record p ++ rest) = p
     crc32_range                                  0 <= crc32 data < 2^32 for every list
     ghdr_record_length ghdr_record_crc_fields    512 bytes; bytes 16..19 = CRC32 of the 92 header bytes with
                                                  that field zero; bytes 88..91 = the CRC passed in
     verify_gpt_header_record / _total            a reader's header check passes on everything record() writes
     ghdr_roundtrip
     gpt_record_crc                               PartitionEntryArrayCRC32 = crc32 of the USED entries only
     gpt_parts_crc_over_used_entries_only         witness: 1 used entry of 128 -> differs from the UEFI value,
     gpt_new_fails_uefi_array_crc                 and the UEFI array check fails on GPT.new()'s own output
         real library: g=GPT(True); g.new(False); r=g.record(); struct.unpack('<L', r[88:92])[0]
                       == zlib.crc32(r[512:768]) != zlib.crc32(r[512:512+16384])
     gpt_record_length gpt_placement              where header / array / backup array / backup header are
     backup_gpt_overlap_refuted                   the backup GPT is written over the last 16896 bytes of the
                                                  ISO whenever the padding is shorter than that.
         real library (pycdlib.PyCdlib): new(); add_fp boot file with fb c0 78 70 at 0x40; add_fp EFI image;
         add_eltorito('/BOOT.;1','/BOOT.CAT;1',boot_load_size=4); add_eltorito('/EFI.;1','/BOOT.CAT;1',
         platform_id=0xef, efi=True); add_fp(b'D'*2037760,'/ZZZ.;1') (space_size*2048 = 2 MiB, padding 0);
         add_isohybrid(efi=True); write_fp -> 16893 of the last 16896 bytes of /ZZZ.;1 are not 'D' in the image,
         and get_file_from_iso_fp on the reopened image returns different content.
   All closed under the global context (Print Assumptions at the end). *)
From Coq Require Import ZArith List Bool Lia ZifyBool.
From PV.Base Require Import Prim Sweep ListX.
From PV.Gen Require Import GenConst GenFun.
From PV.Model Require Import Codec Hybrid.
From PV.Proofs Require Import ChecksumsProofs ChecksumsArithProofs CodecProofs HybridProofs.
Import ListNotations.
Local Open Scope Z_scope.
Ltac Zify.zify_post_hook ::= Z.to_euclidean_division_equations.

(* ---- 3. GPT partition entry ---- *)
Lemma gpart_layout p : map (@length Z) (gpart_fields p) = widths fmt_gpt_part_widths.
Proof. cbn [gpart_fields map]. rewrite !pack_s_length. reflexivity. Qed.

Theorem gpart_record_length p b : gpart_record p = Some b -> length b = 128%nat.
Proof.
  unfold gpart_record. destruct (_ && _); [|discriminate]. intros H; apply some_inv in H; subst b.
  rewrite length_concat, gpart_layout. reflexivity.
Qed.

Fixpoint zeros2 (k : nat) : list Z := match k with O => [] | S k' => 0 :: 0 :: zeros2 k' end.
Lemma zeros2_repeat k : repeat 0 (2 * k) = zeros2 k.
Proof.
  induction k as [|k IH]; [reflexivity|]. replace (2 * S k)%nat with (S (S (2 * k))) by lia.
  cbn [repeat zeros2]. rewrite IH. reflexivity.
Qed.
Lemma rstrip16_zeros k : rstrip16 (zeros2 k) = [].
Proof. induction k as [|k IH]; [reflexivity|]. cbn [zeros2 rstrip16]. rewrite IH. reflexivity. Qed.
Lemma rstrip16_app_zeros n : forall l k, length l = (2 * n)%nat -> rstrip16 (l ++ zeros2 k) = rstrip16 l.
Proof.
  induction n as [|n IH]; intros l k Hl.
  - destruct l; [|discriminate]. apply rstrip16_zeros.
  - destruct l as [|a [|c l]]; try (cbn in Hl; lia). cbn [app rstrip16].
    rewrite IH by (cbn in Hl; lia). reflexivity.
Qed.

Definition gpart_wf (p : gpt_part) : Prop :=
  (gp_type_guid p = BASIC_PARTITION \/ gp_type_guid p = HFS_PARTITION) /\ length (gp_guid p) = 16%nat /\
  length (gp_attributes p) = 8%nat /\
  (exists n, length (gp_name p) = (2 * n)%nat /\ (n <= 36)%nat) /\ rstrip16 (gp_name p) = gp_name p.

Theorem gpart_roundtrip p b rest : gpart_wf p -> gpart_record p = Some b -> gpart_parse (b ++ rest) = Some p.
Proof.
  intros (Ht & Hg & Ha & (n & Hn & Hn36) & Hs) H. pose proof (gpart_record_length _ _ H) as Hl.
  unfold gpart_record in H. destruct (u64_ok (gp_first_lba p) && u64_ok (gp_last_lba p)) eqn:Hr; [|discriminate].
  apply some_inv in H. unfold gpart_parse. rewrite (firstn_app_exact 128 b rest Hl). subst b.
  rewrite <- (gpart_layout p), split_concat_nil. unfold gpart_fields.
  rewrite (pack_s_exact 16 (gp_type_guid p)) by (destruct Ht as [-> | ->]; reflexivity).
  replace (negb (zlist_eqb (gp_type_guid p) BASIC_PARTITION) && negb (zlist_eqb (gp_type_guid p) HFS_PARTITION))
    with false by (destruct Ht as [-> | ->]; reflexivity).
  rewrite (pack_s_exact 16 _ Hg), (pack_s_exact 8 _ Ha), (pack_s_pad 72) by lia.
  replace (72 - length (gp_name p))%nat with (2 * (36 - n))%nat by lia.
  rewrite zeros2_repeat, (rstrip16_app_zeros n _ _ Hn), Hs.
  unfold u64_ok in Hr. rewrite !le64_dle64 by lia. destruct p; reflexivity.
Qed.

Lemma gpt_new_parts_wf g : length g = 16%nat -> forall b, gpart_wf (gpart_new b g NAME_ISOHYBRID_ISO) /\
                                                   gpart_wf (gpart_new b g NAME_ISOHYBRID).
Proof.
  intros Hg b. split; (split; [destruct b; [left|right]; reflexivity|]); (split; [exact Hg|]);
  (split; [reflexivity|]); (split; [|reflexivity]); [exists 13%nat|exists 9%nat]; split; cbn; lia.
Qed.

(* ---- 3. GPT header ---- *)
Definition crc32_tab_chk (i : Z) : bool := (0 <=? znth i crc32_table) && (znth i crc32_table <? 4294967296).
Lemma crc32_tab_sweep : sweep crc32_tab_chk 0 256 = true.
Proof. vm_compute. reflexivity. Qed.

Lemma crc32_tstep_range crc x : 0 <= crc32_tstep crc x < 4294967296.
Proof.
  unfold crc32_tstep. change 4294967296 with (2 ^ 32). apply lxor_bound; [lia| |].
  - change 16777215 with (Z.ones 24). rewrite Z.land_ones by lia.
    pose proof (Z.mod_pos_bound (Z.shiftr crc 8) (2 ^ 24) ltac:(lia)). change (2 ^ 24) with 16777216 in *.
    change (2 ^ 32) with 4294967296. lia.
  - pose proof (sweep_sound _ _ _ crc32_tab_sweep (Z.land (Z.lxor crc x) 255)
                  ltac:(pose proof (land_255_range (Z.lxor crc x)); lia)) as H.
    unfold crc32_tab_chk in H. change (2 ^ 32) with 4294967296. lia.
Qed.

(* crc32 of ANY list is a 32-bit value (no hypothesis on the elements) *)
Theorem crc32_range data : 0 <= crc32 data < 4294967296.
Proof.
  rewrite crc32_unfold. change 4294967296 with (2 ^ 32). apply lxor_bound; [lia| |cbn; lia].
  change (2 ^ 32) with 4294967296.
  destruct data as [|x data] using rev_ind; [cbn; lia|].
  rewrite fold_left_app. cbn [fold_left]. apply crc32_tstep_range.
Qed.

Definition hdr_pre : list Z := GPT_SIG ++ GPT_REV ++ GPT_HEADER_SIZE.
Definition hdr_post_a (g : gpt_header) : list Z :=
  le32 0 ++ le64 (gh_current_lba g) ++ le64 (gh_backup_lba g) ++ le64 (gh_first_usable g)
  ++ le64 (gh_last_usable g) ++ pack_s 16 (gh_disk_guid g) ++ le64 (gh_pe_lba g)
  ++ le32 (gh_num_parts g) ++ le32 (gh_size_pe g).
Lemma hdr_post_a_length g : length (hdr_post_a g) = 68%nat.
Proof. unfold hdr_post_a. rewrite !app_length, pack_s_length. reflexivity. Qed.

Lemma ghdr_fields_split g hc c :
  concat (ghdr_fields g hc c) = hdr_pre ++ le32 hc ++ (hdr_post_a g ++ le32 c) ++ repeat 0 420.
Proof.
  unfold ghdr_fields, ghdr_post, hdr_pre, hdr_post_a. cbn [app concat].
  rewrite <- !app_assoc, app_nil_r. reflexivity.
Qed.

(* the header CRC the code stores: CRC32 of the 92 header bytes with the CRC field zero *)
Definition ghdr_crc (g : gpt_header) (c : Z) : Z := crc32 (hdr_pre ++ [0; 0; 0; 0] ++ hdr_post_a g ++ le32 c).

Lemma ghdr_record_eq g c b : ghdr_record g c = Some b ->
  b = hdr_pre ++ le32 (ghdr_crc g c) ++ (hdr_post_a g ++ le32 c) ++ repeat 0 420 /\
  b = concat (ghdr_fields g (ghdr_crc g c) c).
Proof.
  unfold ghdr_record. destruct (ghdr_ranges_ok g c); [|discriminate]. cbv zeta.
  intros H; apply some_inv in H. rewrite ghdr_fields_split in H. rewrite ghdr_fields_split.
  assert (E : b = hdr_pre ++ le32 (ghdr_crc g c) ++ (hdr_post_a g ++ le32 c) ++ repeat 0 420); [|split; exact E].
  subst b. rewrite (firstn_app_exact 16 hdr_pre) by reflexivity. f_equal. f_equal.
  unfold ghdr_crc. do 2 f_equal. rewrite 2!app_assoc.
  rewrite (firstn_app_exact 92); [rewrite <- !app_assoc; reflexivity|].
  rewrite !app_length, hdr_post_a_length. reflexivity.
Qed.

Theorem ghdr_record_length g c b : ghdr_record g c = Some b -> length b = 512%nat.
Proof.
  intros H. destruct (ghdr_record_eq _ _ _ H) as [-> _].
  rewrite !app_length, hdr_post_a_length, repeat_length. reflexivity.
Qed.

(* the stored header CRC and entry-array CRC fields *)
Theorem ghdr_record_crc_fields g c b : ghdr_record g c = Some b ->
  slice 16 20 b = le32 (ghdr_crc g c) /\ slice 88 92 b = le32 c /\
  ghdr_crc g c = crc32 (firstn 16 b ++ [0; 0; 0; 0] ++ slice 20 92 b).
Proof.
  intros H. destruct (ghdr_record_eq _ _ _ H) as [-> _]. split; [|split].
  - apply slice_mid; reflexivity.
  - replace (hdr_pre ++ le32 (ghdr_crc g c) ++ (hdr_post_a g ++ le32 c) ++ repeat 0 420)
      with ((hdr_pre ++ le32 (ghdr_crc g c) ++ hdr_post_a g) ++ le32 c ++ repeat 0 420)
      by (rewrite <- !app_assoc; reflexivity).
    apply slice_mid; [|reflexivity]. rewrite !app_length, hdr_post_a_length. reflexivity.
  - unfold ghdr_crc. f_equal. rewrite (firstn_app_exact 16 hdr_pre) by reflexivity. do 2 f_equal.
    rewrite app_assoc. symmetry. apply slice_mid; [reflexivity|].
    rewrite app_length, hdr_post_a_length. reflexivity.
Qed.

(* a reader's verification of the header passes, for every header the code can write *)
Theorem verify_gpt_header_record g c b : ghdr_record g c = Some b -> verify_gpt_header b = true.
Proof.
  intros H. pose proof (ghdr_record_length _ _ _ H) as Hl.
  destruct (ghdr_record_crc_fields _ _ _ H) as (F1 & _ & F3).
  unfold verify_gpt_header. rewrite <- F3, F1, le32_dle32 by (pose proof (crc32_range (hdr_pre ++ [0; 0; 0; 0] ++ hdr_post_a g ++ le32 c)); unfold ghdr_crc, u32; lia).
  rewrite Z.eqb_refl, andb_true_r. destruct (ghdr_record_eq _ _ _ H) as [E _].
  replace (92 <=? zlen b) with true by (unfold zlen; lia). rewrite E at 1 2.
  reflexivity.
Qed.

Corollary verify_gpt_header_total g c : ghdr_ranges_ok g c = true ->
  exists b, ghdr_record g c = Some b /\ length b = 512%nat /\ verify_gpt_header b = true.
Proof.
  intros Hr. destruct (ghdr_record g c) as [b|] eqn:E.
  - exists b. split; [reflexivity|]. split; [exact (ghdr_record_length _ _ _ E)|exact (verify_gpt_header_record _ _ _ E)].
  - unfold ghdr_record in E. rewrite Hr in E. discriminate.
Qed.

Lemma ghdr_layout g hc c : map (@length Z) (ghdr_fields g hc c) = widths fmt_gpt_header_widths.
Proof. cbn [ghdr_fields ghdr_post app map]. rewrite pack_s_length, repeat_length. reflexivity. Qed.

Theorem ghdr_roundtrip g c b rest : length (gh_disk_guid g) = 16%nat -> ghdr_record g c = Some b ->
  ghdr_parse (b ++ rest) = Some g.
Proof.
  intros Hg H. pose proof (ghdr_record_length _ _ _ H) as Hl. destruct (ghdr_record_eq _ _ _ H) as [_ E].
  unfold ghdr_record in H. destruct (ghdr_ranges_ok g c) eqn:Hr; [|discriminate]. clear H.
  unfold ghdr_parse. rewrite (firstn_app_exact 512 b rest Hl), E.
  rewrite <- (ghdr_layout g (ghdr_crc g c) c), split_concat_nil. cbn [ghdr_fields ghdr_post app].
  change (negb (zlist_eqb GPT_SIG GPT_SIG)) with false. change (negb (zlist_eqb GPT_REV GPT_REV)) with false.
  change (negb (zlist_eqb GPT_HEADER_SIZE GPT_HEADER_SIZE)) with false. cbv iota.
  unfold ghdr_ranges_ok, u64_ok, u32_ok in Hr.
  rewrite !le64_dle64, !le32_dle32, (pack_s_exact 16 _ Hg) by (unfold u32; lia). destruct g; reflexivity.
Qed.

(* ---- 3. GPT.record ---- *)
Lemma parts_data_length ps : forall pd, opt_concat (map gpart_record ps) = Some pd ->
  length pd = (128 * length ps)%nat.
Proof.
  induction ps as [|p ps IH]; intros pd H; cbn [map opt_concat] in H.
  - apply some_inv in H; subst pd. reflexivity.
  - destruct (gpart_record p) as [r|] eqn:Er; [|discriminate].
    destruct (opt_concat (map gpart_record ps)) as [pr|]; [|discriminate].
    apply some_inv in H; subst pd. rewrite app_length, (gpart_record_length _ _ Er), (IH _ eq_refl).
    cbn [length]. lia.
Qed.
Lemma apm_padded_length a r : apm_padded a = Some r -> length r = 2048%nat.
Proof.
  unfold apm_padded. destruct (apm_record a) as [raw|] eqn:E; [|discriminate].
  intros H; apply some_inv in H; subst r. pose proof (apm_record_length _ _ E) as Hl.
  rewrite app_length, repeat_length. unfold zlen. rewrite Hl. reflexivity.
Qed.
Lemma apms_length aps : forall x, opt_concat (map apm_padded aps) = Some x -> length x = (2048 * length aps)%nat.
Proof.
  induction aps as [|a aps IH]; intros x H; cbn [map opt_concat] in H.
  - apply some_inv in H; subst x. reflexivity.
  - destruct (apm_padded a) as [r|] eqn:Er; [|discriminate].
    destruct (opt_concat (map apm_padded aps)) as [xr|]; [|discriminate].
    apply some_inv in H; subst x. rewrite app_length, (apm_padded_length _ _ Er), (IH _ eq_refl).
    cbn [length]. lia.
Qed.

Definition apm_hole (g : gpt) : list Z := match g_apm g with [] => [] | _ => repeat 0 1024 end.

Lemma gpt_record_inv g b : gpt_record g = Some b ->
  exists pd hdr, gpt_part_data g = Some pd /\ ghdr_record (g_header g) (crc32 pd) = Some hdr /\
    length pd = (128 * length (g_parts g))%nat /\ length hdr = 512%nat /\
    if g_primary g
    then exists apms, opt_concat (map apm_padded (g_apm g)) = Some apms /\
                      length apms = (2048 * length (g_apm g))%nat /\
                      b = hdr ++ apm_hole g ++ apms ++ pd ++ gpt_empty_parts g
    else b = pd ++ gpt_empty_parts g ++ hdr.
Proof.
  unfold gpt_record. destruct (gpt_part_data g) as [pd|] eqn:Ep; [|discriminate].
  destruct (ghdr_record (g_header g) (crc32 pd)) as [hdr|] eqn:Eh; [|discriminate].
  intros H. exists pd, hdr. split; [reflexivity|]. split; [exact Eh|].
  split; [exact (parts_data_length _ _ Ep)|]. split; [exact (ghdr_record_length _ _ _ Eh)|].
  destruct (g_primary g).
  - destruct (opt_concat (map apm_padded (g_apm g))) as [apms|] eqn:Ea; [|discriminate].
    exists apms. split; [first [reflexivity|exact Ea]|]. split; [exact (apms_length _ _ Ea)|].
    apply some_inv in H. symmetry. exact H.
  - apply some_inv in H. symmetry. exact H.
Qed.

(* where the header sits in GPT.record(): first 512 bytes (primary) / last 512 bytes (backup) *)
Definition gpt_hdr_of (g : gpt) (b : list Z) : list Z :=
  if g_primary g then firstn 512 b else skipn (length b - 512) b.

(* The PartitionEntryArrayCRC32 field the code writes is the CRC32 of the USED entries only
   (128 * len(parts) bytes), and the header it writes passes the header-CRC check. *)
Theorem gpt_record_crc g b : gpt_record g = Some b ->
  exists pd, gpt_part_data g = Some pd /\ length pd = (128 * length (g_parts g))%nat /\
    slice 88 92 (gpt_hdr_of g b) = le32 (crc32 pd) /\ verify_gpt_header (gpt_hdr_of g b) = true /\
    (g_primary g = true -> g_apm g = [] -> firstn (length pd) (skipn 512 b) = pd).
Proof.
  intros H. destruct (gpt_record_inv _ _ H) as (pd & hdr & Ep & Eh & Lp & Lh & Hb).
  exists pd. split; [exact Ep|]. split; [exact Lp|].
  assert (Ehdr : gpt_hdr_of g b = hdr).
  { unfold gpt_hdr_of. destruct (g_primary g).
    - destruct Hb as (apms & _ & _ & ->). apply firstn_app_exact; exact Lh.
    - subst b. rewrite app_assoc. apply skipn_app_exact. rewrite !app_length, Lh. lia. }
  rewrite Ehdr. destruct (ghdr_record_crc_fields _ _ _ Eh) as (_ & F2 & _).
  split; [exact F2|]. split; [exact (verify_gpt_header_record _ _ _ Eh)|].
  intros Hp Ha. rewrite Hp in Hb. destruct Hb as (apms & Ea & _ & ->).
  unfold apm_hole in *. rewrite Ha in *. cbn [map opt_concat] in Ea. apply some_inv in Ea; subst apms.
  cbn [app]. rewrite (skipn_app_exact 512 hdr _ Lh). apply firstn_length_app.
Qed.

Theorem gpt_record_length g b : gpt_record g = Some b ->
  zlen b = 512 + (if g_primary g then (match g_apm g with [] => 0 | _ => 1024 end) + 2048 * zlen (g_apm g) else 0)
           + 128 * zlen (g_parts g) + 128 * Z.max 0 (gh_num_parts (g_header g) - zlen (g_parts g)).
Proof.
  intros H. destruct (gpt_record_inv _ _ H) as (pd & hdr & _ & _ & Lp & Lh & Hb).
  assert (Le : zlen (gpt_empty_parts g) = 128 * Z.max 0 (gh_num_parts (g_header g) - zlen (g_parts g))).
  { unfold gpt_empty_parts. rewrite zlen_repeat. lia. }
  destruct (g_primary g).
  - destruct Hb as (apms & _ & La & ->). rewrite !zlen_app, Le. unfold zlen, apm_hole. rewrite Lh, La, Lp.
    destruct (g_apm g) as [|a l]; [cbn [length]; lia|rewrite repeat_length; cbn [length]; lia].
  - subst b. rewrite !zlen_app, Le. unfold zlen. rewrite Lh, Lp. lia.
Qed.

(* KNOWN FINDING as a theorem.  UEFI 5.3.2: PartitionEntryArrayCRC32 is "the CRC32 of the GUID
   Partition Entry array ... over NumberOfPartitionEntries * SizeOfPartitionEntry bytes".  The code
   computes it over the used entries only; on a 1-entry array (num_parts = 128) the two values
   differ, the header itself verifies, and the UEFI array check of the bytes record() wrote fails. *)
Definition one_entry_gpt : gpt :=
  mk_gpt true (mk_ghdr 1 4095 34 4062 (repeat 7 16) 2 128 128)
         [mk_gpart BASIC_PARTITION (repeat 9 16) 0 4000 (repeat 0 8) NAME_ISOHYBRID] [].
(* all the facts below as one boolean, evaluated once *)
Definition uefi_facts (g : gpt) (arr_off : Z) : bool :=
  match gpt_record g with
  | None => false
  | Some b =>
      (dle32 (slice 88 92 b) =? crc32 (slice arr_off (arr_off + 128 * zlen (g_parts g)) b)) &&
      negb (dle32 (slice 88 92 b) =? crc32 (slice arr_off (arr_off + 128 * 128) b)) &&
      verify_gpt_header (firstn 512 b) &&
      negb (verify_gpt_array_uefi (firstn 512 b) (skipn (Z.to_nat arr_off) b))
  end.
Lemma uefi_facts_spec g off : uefi_facts g off = true ->
  exists b, gpt_record g = Some b /\
    dle32 (slice 88 92 b) = crc32 (slice off (off + 128 * zlen (g_parts g)) b) /\
    dle32 (slice 88 92 b) <> crc32 (slice off (off + 128 * 128) b) /\
    verify_gpt_header (firstn 512 b) = true /\
    verify_gpt_array_uefi (firstn 512 b) (skipn (Z.to_nat off) b) = false.
Proof.
  unfold uefi_facts. destruct (gpt_record g) as [b|]; [|discriminate]. intros H. exists b.
  repeat (apply andb_prop in H; destruct H as [H ?]). split; [reflexivity|].
  split; [lia|]. split; [lia|]. split; [assumption|]. apply negb_true_iff; assumption.
Qed.

Theorem gpt_parts_crc_over_used_entries_only :
  length (g_parts one_entry_gpt) = 1%nat /\ gh_num_parts (g_header one_entry_gpt) = 128 /\
  exists b, gpt_record one_entry_gpt = Some b /\
    dle32 (slice 88 92 b) = crc32 (slice 512 (512 + 128 * 1) b) /\
    dle32 (slice 88 92 b) <> crc32 (slice 512 (512 + 128 * 128) b) /\
    verify_gpt_header (firstn 512 b) = true /\
    verify_gpt_array_uefi (firstn 512 b) (skipn 512 b) = false.
Proof.
  split; [reflexivity|]. split; [reflexivity|].
  apply (uefi_facts_spec one_entry_gpt 512). vm_compute. reflexivity.
Qed.
(* the same for the objects GPT.new() makes (2 or 3 used entries of 128; the array is at byte 512 of
   GPT.record(), or 7680 with the APM area) *)
Theorem gpt_new_fails_uefi_array_crc : forall mac : bool,
  let g := gpt_new true mac (repeat 1 16) (repeat 2 16) (repeat 3 16) (repeat 4 16) in
  let off := if mac then 7680 else 512 in
  exists b, gpt_record g = Some b /\
    dle32 (slice 88 92 b) = crc32 (slice off (off + 128 * zlen (g_parts g)) b) /\
    dle32 (slice 88 92 b) <> crc32 (slice off (off + 128 * 128) b) /\
    verify_gpt_header (firstn 512 b) = true /\
    verify_gpt_array_uefi (firstn 512 b) (skipn (Z.to_nat off) b) = false.
Proof. intros mac. cbv zeta. apply uefi_facts_spec. destruct mac; vm_compute; reflexivity. Qed.

(* ---- 3. placement of the primary and backup GPT (new + update_efi) ---- *)
Lemma ih_new_inv efi mac pe id po gs gh pt y : ih_new efi mac pe id po gs gh pt = Some y ->
  ih_efi y = efi /\ ih_mac y = mac /\ ih_heads y = gh /\ ih_sectors y = gs /\ 1 <= gs <= 63 /\ 1 <= gh <= 256.
Proof.
  unfold ih_new. destruct ((gs <? 1) || (63 <? gs)) eqn:C1; [discriminate|].
  destruct ((gh <? 1) || (256 <? gh)) eqn:C2; [discriminate|].
  destruct (mac && negb (pt =? 0)); [discriminate|]. cbv zeta.
  intros H; apply some_inv in H; subst y. cbn [ih_efi ih_mac ih_heads ih_sectors]. repeat split; lia.
Qed.

(* sectors of 512 bytes in the padded image *)
Definition padded_sectors (y : isohybrid) (iso : Z) : Z := (iso + ih_padlen y iso) / 512.

Theorem gpt_placement mac pe id po gs gh pt pd p1 p2 p3 sd s1 s2 s3 y0 ext cnt iso y :
  hy_new true mac pe id po gs gh pt (pd, p1, p2, p3) (sd, s1, s2, s3) = Some y0 ->
  hy_update_efi y0 ext cnt iso = Some y -> 0 <= iso ->
  let N := padded_sectors (hy_ih y) iso in
  let fu := if mac then 48 else 34 in
  iso + ih_padlen (hy_ih y) iso = N * 512 /\
  g_header (hy_pri y) = mk_ghdr 1 (N - 1) fu (N - 34) pd (if mac then 16 else 2) 128 128 /\
  g_header (hy_sec y) = mk_ghdr (N - 1) 1 fu (N - 34) pd (N - 33) 128 128 /\
  secondary_write_offset (hy_sec y) = (N - 33) * 512 /\
  (forall b, gpt_record (hy_sec y) = Some b ->
     zlen b = 33 * 512 /\ secondary_write_offset (hy_sec y) + zlen b = iso + ih_padlen (hy_ih y) iso) /\
  (forall b, hy_record y iso = Some b -> zlen b = fu * 512) /\
  (fu * 512 <= secondary_write_offset (hy_sec y) <-> fu + 33 <= N) /\
  (iso <= secondary_write_offset (hy_sec y) <-> 33 * 512 <= ih_padlen (hy_ih y) iso).
Proof.
  unfold hy_new. destruct (ih_new true mac pe id po gs gh pt) as [h|] eqn:En; [|discriminate].
  destruct (ih_new_inv _ _ _ _ _ _ _ _ _ En) as (Hefi & Hmac & Hh & Hs & Rs & Rh).
  intros H0; apply some_inv in H0; subst y0. intros H1 Hiso; revert H1. unfold hy_update_efi. cbn [hy_ih hy_pri hy_sec].
  rewrite Hefi. cbn [negb]. cbv zeta.
  change (ih_padlen (ih_set_efi h ext cnt) iso) with (ih_padlen h iso).
  destruct (record_padding_aligned h iso ltac:(lia) ltac:(lia)) as (Hp & Hz & _ & H512); [lia|].
  rewrite Hz in H512. set (pad := ih_padlen h iso) in *.
  assert (HN : iso + pad = (iso + pad) / 512 * 512) by lia.
  assert (HS : (iso + pad - 512) / 512 = (iso + pad) / 512 - 1) by lia.
  rewrite HS. unfold padded_sectors.
  destruct mac; cbn [gpt_new g_parts parts_update_efi copy_part_guids app]; intros H1; apply some_inv in H1; subst y;
    cbn [hy_ih hy_pri hy_sec g_header g_primary g_parts g_apm];
    change (ih_padlen (ih_set_efi h ext cnt) iso) with pad; fold pad;
    set (N := (iso + pad) / 512) in *; clearbody N; clearbody pad;
    (split; [exact HN|]);
    do 2 (split; [cbv [gpt_new g_header ghdr_new ghdr_set_pe_lba ghdr_set_lbas ghdr_set_last_usable_lba ghdr_set_disk_guid
                      gh_current_lba gh_backup_lba gh_first_usable gh_last_usable gh_disk_guid gh_pe_lba
                      gh_num_parts gh_size_pe];
                 f_equal; try reflexivity; unfold GPT_SIZE, APM_PARTS; lia|]);
    (split; [cbv [secondary_write_offset gpt_new g_header ghdr_new ghdr_set_pe_lba ghdr_set_lbas ghdr_set_disk_guid
                  ghdr_set_last_usable_lba gh_current_lba gh_num_parts]; lia|]).
  all: split; [intros b Hb; apply gpt_record_length in Hb;
               cbv [secondary_write_offset gpt_new g_primary g_header g_parts g_apm ghdr_new ghdr_set_pe_lba ghdr_set_disk_guid
                    ghdr_set_lbas ghdr_set_last_usable_lba gh_current_lba gh_num_parts app] in Hb |- *;
               unfold zlen in Hb at 2 3; cbn [length] in Hb; lia|].
  all: split; [intros b Hb; unfold hy_record in Hb; cbn [hy_ih hy_pri] in Hb;
               destruct (ih_record_mbr (ih_set_efi h ext cnt) iso) as [m|] eqn:Em; [|discriminate];
               change (ih_efi (ih_set_efi h ext cnt)) with (ih_efi h) in Hb; rewrite Hefi in Hb;
               match type of Hb with match ?G with _ => _ end = _ => destruct G as [gb|] eqn:Eg; [|discriminate] end;
               apply some_inv in Hb; subst b; apply gpt_record_length in Eg;
               cbv [gpt_new g_primary g_header g_parts g_apm ghdr_new ghdr_set_pe_lba
                    ghdr_set_lbas ghdr_set_last_usable_lba gh_current_lba gh_num_parts app andb] in Eg;
               rewrite zlen_app, Eg; pose proof (mbr_length _ _ _ Em) as Lm; unfold zlen; rewrite Lm;
               cbn [length]; lia|].
  all: cbv [secondary_write_offset gpt_new g_header ghdr_new ghdr_set_pe_lba ghdr_set_lbas ghdr_set_disk_guid
            ghdr_set_last_usable_lba gh_current_lba gh_num_parts]; split; lia.
Qed.

(* ---- the backup GPT mirrors the primary one (repair "the backup GPT carries the GUIDs of the
   primary GPT": new() copies disk_guid and every part_guid from the primary to the secondary) ---- *)
Definition gpt_mirror (p s : gpt) : Prop :=
  g_primary p = true /\ g_primary s = false /\ g_parts s = g_parts p /\
  g_header s = mk_ghdr (gh_backup_lba (g_header p)) (gh_current_lba (g_header p))
                       (gh_first_usable (g_header p)) (gh_last_usable (g_header p))
                       (gh_disk_guid (g_header p)) (gh_backup_lba (g_header p) - 32)
                       (gh_num_parts (g_header p)) (gh_size_pe (g_header p)).

(* what a mirror pair records: same used-entry bytes, same array CRC field, and the same
   num_parts * 128 byte entry array (the tail of the primary record, the head of the backup record) *)
Lemma gpt_mirror_records p s : gpt_mirror p s ->
  gpt_part_data s = gpt_part_data p /\
  forall bp bs, gpt_record p = Some bp -> gpt_record s = Some bs ->
    slice 88 92 (gpt_hdr_of s bs) = slice 88 92 (gpt_hdr_of p bp) /\
    let n := (length bs - 512)%nat in firstn n bs = skipn (length bp - n) bp.
Proof.
  intros (Pp & Ps & Hparts & Hh).
  assert (Hd : gpt_part_data s = gpt_part_data p) by (unfold gpt_part_data; rewrite Hparts; reflexivity).
  split; [exact Hd|]. intros bp bs Rp Rs.
  destruct (gpt_record_crc _ _ Rp) as (pd & Ep & _ & Cp & _).
  destruct (gpt_record_crc _ _ Rs) as (pd' & Es & _ & Cs & _).
  rewrite Hd, Ep in Es. apply some_inv in Es. subst pd'. split; [rewrite Cp, Cs; reflexivity|].
  destruct (gpt_record_inv _ _ Rp) as (d1 & h1 & E1 & _ & _ & L1 & B1).
  destruct (gpt_record_inv _ _ Rs) as (d2 & h2 & E2 & _ & _ & L2 & B2).
  rewrite Ep in E1. apply some_inv in E1. subst d1.
  rewrite Hd, Ep in E2. apply some_inv in E2. subst d2.
  rewrite Pp in B1. rewrite Ps in B2. destruct B1 as (apms & _ & _ & ->). subst bs.
  assert (He : gpt_empty_parts s = gpt_empty_parts p).
  { unfold gpt_empty_parts. rewrite Hparts, Hh. reflexivity. }
  rewrite He. cbv zeta.
  replace (length (pd ++ gpt_empty_parts p ++ h2) - 512)%nat with (length (pd ++ gpt_empty_parts p))
    by (rewrite !app_length, L2; lia).
  rewrite (app_assoc pd), firstn_length_app.
  rewrite (app_assoc h1), (app_assoc (h1 ++ _)).
  apply eq_sym, skipn_app_exact. rewrite (app_length ((h1 ++ apm_hole p) ++ apms)). lia.
Qed.

Theorem gpt_backup_mirrors_primary mac pe id po gs gh pt pg sg y0 ext cnt iso y :
  hy_new true mac pe id po gs gh pt pg sg = Some y0 -> hy_update_efi y0 ext cnt iso = Some y ->
  let P := g_header (hy_pri y) in let S := g_header (hy_sec y) in
  g_parts (hy_sec y) = g_parts (hy_pri y) /\
  (* header: only current/backup LBA (swapped) and partition_entries_lba differ *)
  gh_current_lba S = gh_backup_lba P /\ gh_backup_lba S = gh_current_lba P /\ gh_current_lba P = 1 /\
  gh_pe_lba S = gh_backup_lba P - 32 /\ gh_pe_lba P = (if mac then 16 else 2) /\
  gh_first_usable S = gh_first_usable P /\ gh_last_usable S = gh_last_usable P /\
  gh_disk_guid S = gh_disk_guid P /\ gh_num_parts S = gh_num_parts P /\ gh_size_pe S = gh_size_pe P /\
  gpt_mirror (hy_pri y) (hy_sec y) /\
  (* recorded bytes *)
  gpt_part_data (hy_sec y) = gpt_part_data (hy_pri y) /\
  forall bp bs, gpt_record (hy_pri y) = Some bp -> gpt_record (hy_sec y) = Some bs ->
    slice 88 92 (gpt_hdr_of (hy_sec y) bs) = slice 88 92 (gpt_hdr_of (hy_pri y) bp) /\
    let n := (length bs - 512)%nat in n = (128 * 128)%nat /\ firstn n bs = skipn (length bp - n) bp.
Proof.
  destruct pg as [[[pd p1] p2] p3]. destruct sg as [[[sd s1] s2] s3].
  unfold hy_new. destruct (ih_new true mac pe id po gs gh pt) as [h|] eqn:En; [|discriminate].
  destruct (ih_new_inv _ _ _ _ _ _ _ _ _ En) as (Hefi & _).
  intros H0; apply some_inv in H0; subst y0. unfold hy_update_efi. cbn [hy_ih hy_pri hy_sec].
  rewrite Hefi. cbn [negb]. cbv zeta.
  assert (M : forall y', Some y' = Some y -> gpt_mirror (hy_pri y') (hy_sec y') ->
              gh_current_lba (g_header (hy_pri y')) = 1 ->
              gh_pe_lba (g_header (hy_pri y')) = (if mac then 16 else 2) ->
              gh_num_parts (g_header (hy_pri y')) = 128 -> (length (g_parts (hy_pri y')) <= 128)%nat ->
    let P := g_header (hy_pri y) in let S := g_header (hy_sec y) in
    g_parts (hy_sec y) = g_parts (hy_pri y) /\
    gh_current_lba S = gh_backup_lba P /\ gh_backup_lba S = gh_current_lba P /\ gh_current_lba P = 1 /\
    gh_pe_lba S = gh_backup_lba P - 32 /\ gh_pe_lba P = (if mac then 16 else 2) /\
    gh_first_usable S = gh_first_usable P /\ gh_last_usable S = gh_last_usable P /\
    gh_disk_guid S = gh_disk_guid P /\ gh_num_parts S = gh_num_parts P /\ gh_size_pe S = gh_size_pe P /\
    gpt_mirror (hy_pri y) (hy_sec y) /\
    gpt_part_data (hy_sec y) = gpt_part_data (hy_pri y) /\
    forall bp bs, gpt_record (hy_pri y) = Some bp -> gpt_record (hy_sec y) = Some bs ->
      slice 88 92 (gpt_hdr_of (hy_sec y) bs) = slice 88 92 (gpt_hdr_of (hy_pri y) bp) /\
      let n := (length bs - 512)%nat in n = (128 * 128)%nat /\ firstn n bs = skipn (length bp - n) bp).
  { intros y' E Hm H1 H2 H3 H4. apply some_inv in E. subst y'. cbv zeta.
    pose proof Hm as (_ & Ps & Hparts & Hh). rewrite Hh.
    cbn [gh_current_lba gh_backup_lba gh_first_usable gh_last_usable gh_disk_guid gh_pe_lba gh_num_parts gh_size_pe].
    repeat (split; [first [reflexivity | assumption]|]).
    destruct (gpt_mirror_records _ _ Hm) as [Hd Hr]. split; [exact Hd|].
    intros bp bs Rp Rs. destruct (Hr _ _ Rp Rs) as [C A]. split; [exact C|]. cbv zeta in A.
    split; [|exact A].
    pose proof (gpt_record_length _ _ Rs) as Ls. rewrite Ps, Hparts, Hh in Ls.
    cbn [gh_num_parts] in Ls. rewrite H3 in Ls. unfold zlen in Ls. lia. }
  destruct mac; cbn [gpt_new g_parts parts_update_efi copy_part_guids app]; intros H1; apply (M _ H1);
    try reflexivity; try (cbn [hy_pri g_parts length]; lia);
    (split; [reflexivity|]); (split; [reflexivity|]); (split; [reflexivity|]);
    cbv [hy_pri hy_sec gpt_new g_header ghdr_new ghdr_set_pe_lba ghdr_set_lbas ghdr_set_last_usable_lba
         ghdr_set_disk_guid gh_current_lba gh_backup_lba gh_first_usable gh_last_usable gh_disk_guid
         gh_pe_lba gh_num_parts gh_size_pe];
    f_equal; lia.
Qed.

(* update_mac (which updates parts[2] of both GPTs) preserves the mirror *)
Theorem gpt_backup_mirrors_primary_mac y ext cnt y' :
  gpt_mirror (hy_pri y) (hy_sec y) -> hy_update_mac y ext cnt = Some y' ->
  gpt_mirror (hy_pri y') (hy_sec y') /\ g_parts (hy_sec y') = g_parts (hy_pri y') /\
  g_header (hy_pri y') = g_header (hy_pri y) /\ g_header (hy_sec y') = g_header (hy_sec y).
Proof.
  intros (Pp & Ps & Hparts & Hh). unfold hy_update_mac. destruct (negb (ih_mac (hy_ih y))); [discriminate|].
  cbv zeta. rewrite Hparts.
  destruct (parts_update_mac (g_parts (hy_pri y)) (ext * 4) (ext * 4 + cnt - 1)) as [pp|]; [|discriminate].
  intros H; apply some_inv in H; subst y'. cbn [hy_pri hy_sec g_primary g_parts g_header].
  repeat split; assumption.
Qed.

(* REFUTED wish "the backup GPT never overlaps the primary structures / the ISO data":
   (a) with a tiny geometry the padded image can be shorter than 67 (81 with mac) sectors;
   (b) for the default geometry, whenever the padding is < 16896 bytes (e.g. the ISO size is a
       multiple of the cylinder size, padding 0) the backup array + header are written over the
       last bytes of the ISO itself. *)
Theorem backup_gpt_overlap_refuted :
  (exists y0 y, hy_new true false 1 1 0 1 1 0 ([], [], [], []) ([], [], [], []) = Some y0 /\
       hy_update_efi y0 10 4 20480 = Some y /\ padded_sectors (hy_ih y) 20480 = 40 /\
       secondary_write_offset (hy_sec y) = 7 * 512 /\ secondary_write_offset (hy_sec y) < 34 * 512) /\
  (exists y0 y, hy_new true false 1 1 0 32 64 0 ([], [], [], []) ([], [], [], []) = Some y0 /\
       hy_update_efi y0 100 2880 10485760 = Some y /\ ih_padlen (hy_ih y) 10485760 = 0 /\
       secondary_write_offset (hy_sec y) = 10485760 - 16896).
Proof.
  split; eexists; eexists; (split; [reflexivity|]); (split; [reflexivity|]); vm_compute; repeat split; reflexivity.
Qed.

(* ---- 6. the harness helpers on real objects (uuid.uuid4 patched to bytes(range(1, 17))) -------- *)
(* g = GPT(True); g.new(False); g.header.set_lbas(1, 4095); set_last_usable_lba(4096*512);
   g.header.record(0xdeadbeef) *)
Definition real_ghdr : list Z :=
  [69; 70; 73; 32; 80; 65; 82; 84; 0; 0; 1; 0; 92; 0; 0; 0; 146; 87; 254; 17; 0; 0; 0; 0; 1; 0; 0; 0;
   0; 0; 0; 0; 255; 15; 0; 0; 0; 0; 0; 0; 34; 0; 0; 0; 0; 0; 0; 0; 222; 15; 0; 0; 0; 0; 0; 0; 1; 2; 3;
   4; 5; 6; 7; 8; 9; 10; 11; 12; 13; 14; 15; 16; 2; 0; 0; 0; 0; 0; 0; 0; 128; 0; 0; 0; 128; 0; 0; 0;
   239; 190; 173; 222] ++ repeat 0 420.
Definition guid16 : list Z := [1; 2; 3; 4; 5; 6; 7; 8; 9; 10; 11; 12; 13; 14; 15; 16].
Example gpt_header_example :
  check_gpt_header_case (1, 4095, 34, 4062, guid16, 2, 128, 128, 3735928559) real_ghdr = true /\
  verify_gpt_header real_ghdr = true /\
  ghdr_parse real_ghdr = Some (mk_ghdr 1 4095 34 4062 guid16 2 128 128) /\
  g_header (gpt_new true false guid16 guid16 guid16 guid16) = mk_ghdr 0 0 34 0 guid16 2 128 128 /\
  bad_gpt_header_cases 0 [((1, 4095, 34, 4062, guid16, 2, 128, 128, 3735928559), real_ghdr);
                          ((1, 4095, 34, 4062, guid16, 2, 128, 128, 3735928558), real_ghdr);
                          ((-1, 4095, 34, 4062, guid16, 2, 128, 128, 0), [])] = [1%nat].
Proof. repeat split; vm_compute; reflexivity. Qed.
(* g.parts[0] with last_lba = 4000: record() *)
Example gpt_part_example :
  let t := (BASIC_PARTITION, guid16, 0, 4000, repeat 0 8, NAME_ISOHYBRID_ISO) in
  let real := BASIC_PARTITION ++ guid16 ++ [0; 0; 0; 0; 0; 0; 0; 0; 160; 15; 0; 0; 0; 0; 0; 0] ++ repeat 0 8
              ++ NAME_ISOHYBRID_ISO ++ repeat 0 46 in
  check_gpt_part_case t real = true /\ length real = 128%nat /\
  gpart_parse real = Some (gpart_of_tuple t) /\
  bad_gpt_part_cases 0 [(t, real); (t, repeat 0 128)] = [1%nat].
Proof. repeat split; vm_compute; reflexivity. Qed.
(* GPT(True).new(False).record() / GPT(False).new(True).record() with the parts of GPT.new():
   the model's bytes have the real lengths, the real (used-entries) CRC, and parse back *)
Example gpt_record_example :
  let g := gpt_new true false guid16 guid16 guid16 guid16 in
  let s := gpt_new false true guid16 guid16 guid16 guid16 in
  (exists b, gpt_record g = Some b /\ zlen b = 16896 /\
             dle32 (slice 88 92 b) = 3882232 (* = zlib.crc32(r[512:768]), the 256 used bytes; full array: 3125694293 *) /\
             gpt_parse_parts 128 (skipn 512 b) = Some (g_parts g)) /\
  (exists b, gpt_record s = Some b /\ zlen b = 16896 /\ gpt_parse_parts 128 b = Some (g_parts s) /\
             ghdr_parse (skipn (Z.to_nat 16384) b) = Some (g_header s)).
Proof.
  split; (eexists; split; [vm_compute; reflexivity|]); repeat split; vm_compute; reflexivity.
Qed.

Print Assumptions gpart_record_length.
Print Assumptions gpart_roundtrip.
Print Assumptions crc32_range.
Print Assumptions ghdr_record_length.
Print Assumptions ghdr_record_crc_fields.
Print Assumptions verify_gpt_header_record.
Print Assumptions verify_gpt_header_total.
Print Assumptions ghdr_roundtrip.
Print Assumptions gpt_record_crc.
Print Assumptions gpt_record_length.
Print Assumptions gpt_parts_crc_over_used_entries_only.
Print Assumptions gpt_new_fails_uefi_array_crc.
Print Assumptions gpt_placement.
Print Assumptions gpt_backup_mirrors_primary.
Print Assumptions gpt_backup_mirrors_primary_mac.
Print Assumptions backup_gpt_overlap_refuted.
Print Assumptions gpt_record_example.
