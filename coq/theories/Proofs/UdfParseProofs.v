(* C10 / C02 -- Model/UdfParse.v: main theorems about what PyCdlib.open builds from the UDF tree that
   PyCdlib.write recorded (the model's parser on the view of the model's layout).
     udf_parse_layout              for every well-formed tree: parse (view (layout t)) = the writer's graph
     udf_parse_rejects_nothing_valid   no raise, nothing outside the fragment, enough fuel
   Sharing, editing after reopen and the layout fixpoint are in UdfParseShapeProofs.v /
   UdfParseReopenProofs.v. *)
From Coq Require Import ZArith List Bool Lia ZifyBool Arith.
From PV.Base Require Import Prim.
From PV.Gen Require Import GenFun.
From PV.Model Require Import Codec Fid UdfDir UdfLayout UdfParse.
From PV.Proofs Require Import ChecksumsArithProofs FidProofs UdfDirProofs UdfLayoutBfsProofs UdfLayoutViewProofs
     UdfLayoutFactsProofs UdfLayoutWalkProofs UdfParseTableProofs UdfParseWalkProofs UdfParseKeysProofs.
Import ListNotations.
Local Open Scope Z_scope.

(* the UDF walk starting from an empty Inode table, on the layout with any ISO9660 side (with ISO9660
   files the real walk starts from the Inodes of the ISO9660 walk: tools/udf_parse_cases.py) *)
Theorem udf_parse_layout_iso ps iso t fuel : wf_utree t = true -> 0 <= ps -> 0 <= iso_meta iso ->
  Forall (fun x => 0 < snd x) (iso_files iso) -> (ul_count_dirs t <= fuel)%nat ->
  let lo := udf_layout_iso ps iso t in
  udf_parse ps fuel (view lo) (fst (view lo)) = POk (ugraph_of lo).
Proof.
  intros Hwf Hps Hmeta Hiso Hfuel lo.
  pose proof (ul_facts_of_wf ps iso t Hwf) as F. fold lo in F.
  pose proof (up_keys_of_wf ps iso t Hwf Hps Hmeta Hiso) as K. fold lo in K.
  destruct (uf_root _ _ _ _ F) as (r0 & Hr0 & (E1 & E2 & E3)).
  pose proof (uf_chain _ _ _ _ F) as Hc.
  pose proof (ul_view_keys _ _ _ _ F) as Hkeys.
  pose proof (nth_error_In _ _ Hr0) as Hin0.
  assert (Hfe0 : dr_fe r0 = ps + 2).
  { destruct (lo_dirs lo) as [|x rs]; [discriminate|]. cbn [nth_error] in Hr0. inversion Hr0; subst x. exact (proj1 Hc). }
  pose proof (ul_view_fe lo 2 Hkeys r0 Hin0) as Hv.
  assert (Hblk : dr_fe r0 - lo_ps lo = 2) by (rewrite (uf_ps _ _ _ _ F), Hfe0; lia).
  rewrite Hblk in Hv.
  unfold udf_parse, udf_parse_from. change (fst (view lo)) with 2. rewrite Hv.
  unfold ugraph_of.
  destruct (ug_dirs lo (lo_dirs lo) [0%nat] 1 []) as [ds wt] eqn:ED.
  pose proof (up_loop_dirs lo 2 (ul_names lo) Hkeys (uf_link _ _ _ _ F) (uf_ok _ _ _ _ F) (uk_files _ _ K)
                (uk_cons _ _ K) (uk_inj _ _ K) (uk_pos _ _ K) (lo_dirs lo) fuel 0%nat (ps + 2)
                [mk_pentry 0 2 true (ul_dir_info (dr_node r0)) [(2 + 1, ul_dir_info (dr_node r0))] None None]
                [] 1%nat [] ds wt) as HL.
  cbn [map pe_obj] in HL. rewrite (uf_ps _ _ _ _ F) in HL. rewrite HL; clear HL.
  - destruct (lo_dirs lo) as [|x rs]; [discriminate|]. cbn [nth_error] in Hr0. inversion Hr0; subst x.
    rewrite Hblk. reflexivity.
  - intros m. reflexivity.
  - intros [|m] e H; [|destruct m; discriminate]. cbn [nth_error] in H. inversion H; subst e.
    exists r0. cbn [pe_block pe_ads]. rewrite Hblk. repeat split. exact Hr0.
  - unfold lo. rewrite up_lo_dirs. exact (up_bfs_kid0 _ 0%nat (ps + 2) [([], ps + 2, ut_children t)]).
  - exact Hc.
  - constructor.
  - constructor.
  - rewrite (uf_ndirs _ _ _ _ F). exact Hfuel.
  - exact ED.
Qed.

(* open (write t) builds the graph the writer had; s = part_start *)
Theorem udf_parse_layout s t fuel : wf_utree t = true -> 0 <= s -> (ul_count_dirs t <= fuel)%nat ->
  udf_parse s fuel (view (udf_layout s t)) (fst (view (udf_layout s t))) = POk (ugraph_of (udf_layout s t)).
Proof.
  intros Hwf Hs Hfuel. apply (udf_parse_layout_iso s iso_none t fuel Hwf Hs); [cbn; lia|constructor|exact Hfuel].
Qed.

(* nothing pycdlib writes for a well-formed tree is refused by its own parser *)
Theorem udf_parse_rejects_nothing_valid s t fuel : wf_utree t = true -> 0 <= s -> (ul_count_dirs t <= fuel)%nat ->
  (forall n, udf_parse s fuel (view (udf_layout s t)) 2 <> PInvalid n) /\
  (forall n, udf_parse s fuel (view (udf_layout s t)) 2 <> PUnsupported n) /\
  udf_parse s fuel (view (udf_layout s t)) 2 <> PFuel.
Proof.
  intros Hwf Hs Hfuel. pose proof (udf_parse_layout s t fuel Hwf Hs Hfuel) as H.
  change (fst (view (udf_layout s t))) with 2 in H. rewrite H. repeat split; intros; discriminate.
Qed.

(* the extra hypothesis 0 <= s is forced by "if ino_key == 0": with part_start + block = 0 a NON-empty
   file would be keyed by its File Entry; pycdlib always writes part_start = 257 *)
Definition up_neg_witness : utree := UDir [] [UFile [97] 5 0; UFile [98] 0 1].
Theorem udf_parse_layout_anystart_refuted :
  exists s t fuel, wf_utree t = true /\ (ul_count_dirs t <= fuel)%nat /\
    udf_parse s fuel (view (udf_layout s t)) 2 <> POk (ugraph_of (udf_layout s t)).
Proof. exists (-11), up_neg_witness, 3%nat. split; [reflexivity|]. split; [cbn; lia|]. vm_compute. discriminate. Qed.

(* whatever open answers on the image of a well-formed tree IS the writer's graph: every statement of
   UdfParseSharesProofs.v / UdfParseReopenProofs.v about ugraph_of is a statement about the opened object *)
Corollary udf_parse_is_writer_graph s t fuel g : wf_utree t = true -> 0 <= s -> (ul_count_dirs t <= fuel)%nat ->
  udf_parse s fuel (view (udf_layout s t)) 2 = POk g -> g = ugraph_of (udf_layout s t).
Proof.
  intros Hwf Hs Hfuel H. pose proof (udf_parse_layout s t fuel Hwf Hs Hfuel) as H2.
  change (fst (view (udf_layout s t))) with 2 in H2. rewrite H2 in H. inversion H. reflexivity.
Qed.

(* ---- images that also have ISO9660 names (the walk starts from the Inodes of the ISO9660 walk) ---- *)
(* a NON-empty file with an ISO9660 name and a UDF name: the UDF File Entry finds the Inode the ISO9660
   walk made (same first data block): one Inode, as in the writer *)
Definition up_mixed_tree (len : Z) : utree := UDir [] [UFile [109] len 0].
Definition up_mixed_parse (len : Z) (isofiles : list (nat * Z)) (ino0 : layout -> list pinode) : presult ugraph :=
  let lo := udf_layout_iso 257 (mk_iso 5 isofiles) (up_mixed_tree len) in
  udf_parse_from 257 (ino0 lo) 3 (snd (view lo)) 2.
Example udf_parse_mixed_nonempty_shares :
  exists g, up_mixed_parse 10 [(0%nat, 10)]
              (fun lo => match ul_find 0 (lo_data lo) with Some d => [mk_pinode (Some d) d 10 []] | None => [] end) = POk g /\
            length (g_inodes g) = 1%nat /\ map pi_links (g_inodes g) = [[1%nat]].
Proof. eexists. split; [vm_compute; reflexivity|]. split; reflexivity. Qed.

(* an EMPTY file with an ISO9660 name and a UDF name is ONE inode in the writer; the ISO9660 walk makes
   an Inode that is entered in no dictionary (extent 0, length 0), so the UDF walk makes a SECOND one:
   after open rm_file(iso_path=...) no longer removes the UDF name (reproduced on pycdlib:
   /var/tmp/udfparse/repro_mixed_empty.py) *)
Theorem udf_parse_shares_mixed_empty_refuted :
  exists g, up_mixed_parse 0 [] (fun _ => [mk_pinode None 0 0 []]) = POk g /\
            length (g_inodes g) = 2%nat /\ map pi_links (g_inodes g) = [[]; [1%nat]].
Proof. eexists. split; [vm_compute; reflexivity|]. split; reflexivity. Qed.

Print Assumptions udf_parse_layout.
Print Assumptions udf_parse_rejects_nothing_valid.
Print Assumptions udf_parse_layout_anystart_refuted.
Print Assumptions udf_parse_is_writer_graph.
Print Assumptions udf_parse_shares_mixed_empty_refuted.
