(* The Rock Ridge continuation blocks of the PVD in Model/AccountRR.v: counting keys (block, offset, length),
   what _update_rr_ce_entry (ce_alloc) and pvd.remove_rr_ce_entry (ce_release) do to the multiset of entries,
   and the number of blocks that _reassign_vd_dirrecord_extents places. *)
From Coq Require Import ZArith List Bool Lia ZifyBool Permutation.
From PV.Base Require Import Prim.
From PV.Model Require Import Alloc CeAlloc RREntries Account AccountRR.
From PV.Proofs Require Import AllocProofs CeAllocProofs AccountLemmas AccountRRLemmas.
Import ListNotations.
Local Open Scope Z_scope.

(* ---- 1. keys and counting ------------------------------------------------------------------------- *)
Lemma arr_key_eqb_spec a b : key_eqb a b = true <-> a = b.
Proof.
  destruct a as [[i o] l], b as [[j p] q]. unfold key_eqb.
  rewrite !andb_true_iff, Nat.eqb_eq, !Z.eqb_eq. split.
  - intros [[-> ->] ->]. reflexivity.
  - intros H. inversion H. auto.
Qed.
Lemma arr_key_eqb_refl a : key_eqb a a = true.
Proof. apply arr_key_eqb_spec. reflexivity. Qed.

Definition kind (x k : key) : Z := if key_eqb x k then 1 else 0.

Lemma arr_kcount_nil k : kcount k [] = 0.
Proof. reflexivity. Qed.
Lemma arr_kcount_cons k x l : kcount k (x :: l) = kind x k + kcount k l.
Proof. reflexivity. Qed.
Lemma arr_kcount_app k l1 l2 : kcount k (l1 ++ l2) = kcount k l1 + kcount k l2.
Proof. unfold kcount. rewrite map_app. apply zsum_app. Qed.
Lemma arr_kcount_nonneg k l : 0 <= kcount k l.
Proof.
  induction l as [|x l IH]; [rewrite arr_kcount_nil; lia|].
  rewrite arr_kcount_cons. unfold kind. destruct (key_eqb x k); lia.
Qed.
Lemma arr_kcount_perm k l1 l2 : Permutation l1 l2 -> kcount k l1 = kcount k l2.
Proof.
  induction 1 as [|x l l' _ IH|x y l|l l' l'' _ IH1 _ IH2]; rewrite ?arr_kcount_cons in *; lia.
Qed.
Lemma arr_kcount_pos k l : 0 < kcount k l <-> In k l.
Proof.
  induction l as [|x l IH]; [rewrite arr_kcount_nil; cbn; lia|].
  rewrite arr_kcount_cons. cbn [In]. unfold kind. pose proof (arr_kcount_nonneg k l).
  destruct (key_eqb x k) eqn:E.
  - apply arr_key_eqb_spec in E. split; [auto|lia].
  - split.
    + intros H0. right. apply IH. lia.
    + intros [->|Hin]; [rewrite arr_key_eqb_refl in E; discriminate|]. apply IH in Hin. lia.
Qed.
Lemma arr_kcount_zero k l : ~ In k l -> kcount k l = 0.
Proof.
  intros H. pose proof (arr_kcount_nonneg k l). destruct (Z.eq_dec (kcount k l) 0) as [E|E]; [exact E|].
  exfalso. apply H. apply arr_kcount_pos. lia.
Qed.

Definition tag (i : nat) (e : entry) : key := (i, fst e, snd e).
Lemma arr_flat_cons b bs : flat (b :: bs) = map (tag (fst b)) (snd b) ++ flat bs.
Proof. reflexivity. Qed.
Lemma arr_flat_app b1 b2 : flat (b1 ++ b2) = flat b1 ++ flat b2.
Proof. unfold flat. apply flat_map_app. Qed.
Lemma arr_in_flat k bs : In k (flat bs) <->
  exists b, In b bs /\ fst (fst k) = fst b /\ In (snd (fst k), snd k) (snd b).
Proof.
  unfold flat. rewrite in_flat_map. split.
  - intros (b & Hb & Hk). apply in_map_iff in Hk. destruct Hk as (e & <- & He).
    exists b. cbn. split; [exact Hb|]. split; [reflexivity|]. destruct e. exact He.
  - intros (b & Hb & Hi & He). exists b. split; [exact Hb|]. apply in_map_iff.
    exists (snd (fst k), snd k). split; [|exact He]. destruct k as [[i o] l]. cbn in *. subst. reflexivity.
Qed.

(* ---- 2. well-formed tracked blocks ------------------------------------------------------------------ *)
Definition block_ok (b : nat * block) : Prop := wf M (snd b) /\ snd b <> [].
Definition blocks_ok (bs : cblocks) : Prop := NoDup (map fst bs) /\ Forall block_ok bs.

Lemma arr_wf_from_count : forall es lo i k, wf_from M lo es -> kcount k (map (tag i) es) <= 1.
Proof.
  induction es as [|e tl IH]; intros lo i k W; [rewrite arr_kcount_nil; lia|].
  cbn [map]. rewrite arr_kcount_cons. destruct W as (A & B & Cc & D).
  specialize (IH _ i k D). unfold kind. destruct (key_eqb (tag i e) k) eqn:E; [|lia].
  apply arr_key_eqb_spec in E. subst k.
  rewrite arr_kcount_zero; [lia|]. intros Hin. apply in_map_iff in Hin.
  destruct Hin as (e' & He & Hin). pose proof (wf_from_bounds _ _ _ D) as HB.
  rewrite Forall_forall in HB. specialize (HB e' Hin). unfold tag in He. inversion He. lia.
Qed.

Lemma arr_flat_other_id k bs : ~ In (fst (fst k)) (map fst bs) -> kcount k (flat bs) = 0.
Proof.
  intros H. apply arr_kcount_zero. intros Hin. apply arr_in_flat in Hin.
  destruct Hin as (b & Hb & Hi & _). apply H. rewrite Hi. apply in_map. exact Hb.
Qed.

Theorem arr_blocks_count bs k : blocks_ok bs -> kcount k (flat bs) <= 1.
Proof.
  intros [Hn Hf]. induction bs as [|b bs IH]; [cbn; lia|].
  rewrite arr_flat_cons, arr_kcount_app. cbn [map] in Hn. inversion Hn as [|? ? Hnotin Hn']; subst.
  inversion Hf as [|? ? Hb Hf']; subst. specialize (IH Hn' Hf').
  destruct Hb as [Hw _]. apply wf_wf_from in Hw.
  pose proof (arr_wf_from_count _ _ (fst b) k Hw) as H1.
  pose proof (arr_kcount_nonneg k (map (tag (fst b)) (snd b))) as H0.
  destruct (Z.eq_dec (kcount k (map (tag (fst b)) (snd b))) 0) as [E|E]; [lia|].
  assert (Hin : In k (map (tag (fst b)) (snd b))) by (apply arr_kcount_pos; lia).
  apply in_map_iff in Hin. destruct Hin as (e & He & _). subst k.
  rewrite (arr_flat_other_id (tag (fst b) e) bs); [lia|exact Hnotin].
Qed.

(* ---- 3. _update_rr_ce_entry ------------------------------------------------------------------------ *)
Lemma arr_combine_fst_snd {A B} (l : list (A * B)) extra : combine (map fst l ++ extra) (map snd l) = l.
Proof. induction l as [|[a b] l IH]; cbn; [destruct extra; reflexivity|]. rewrite IH. reflexivity. Qed.

Lemma arr_combine_app {A B} (a c : list A) (b d : list B) : length a = length b ->
  combine (a ++ c) (b ++ d) = combine a b ++ combine c d.
Proof.
  revert b. induction a as [|x a IH]; intros [|y b] H; cbn in *; try discriminate; [reflexivity|].
  rewrite IH by lia. reflexivity.
Qed.

Lemma arr_add_entry_empty len : len <= M -> add_entry M [] len = (0, [(0, len)]).
Proof.
  intros H. unfold add_entry, add_offset. cbn [add_scan].
  replace (M >=? len) with true by lia. reflexivity.
Qed.

Definition ids_below (bs : cblocks) (n : nat) : Prop := Forall (fun b => (fst b < n)%nat) bs.

Theorem arr_ce_alloc_spec bs nid celen added ky bs' :
  blocks_ok bs -> ids_below bs nid -> 0 < celen <= M ->
  ce_alloc bs nid celen = (added, ky, bs') ->
  blocks_ok bs' /\ ids_below bs' (if added then S nid else nid) /\
  (forall k, kcount k (flat bs') = kcount k (flat bs) + kind ky k) /\
  length bs' = (length bs + (if added then 1 else 0))%nat /\
  snd ky = celen /\ 0 <= snd (fst ky) /\ snd (fst ky) + celen <= M.
Proof.
  intros [Hnd Hok] Hids Hlen. unfold ce_alloc, add_rr_ce_entry. cbv zeta.
  pose proof (add_rr_loop_spec M celen (map snd bs)) as S.
  assert (HM : 0 < M) by (unfold M; lia).
  destruct (fst (add_rr_loop M (map snd bs) celen)) as [[i o]|].
  - destruct S as (Ho & l1 & b & l2 & E1 & E2 & E3 & E4). rewrite E4.
    intros H. inversion H; subst added ky bs'. clear H.
    apply map_eq_app in E1. destruct E1 as (B1 & B2' & -> & <- & E1).
    apply map_eq_cons in E1. destruct E1 as ([id es] & B2 & -> & Eb & <-). cbn [snd] in Eb. subst b.
    set (es' := snd (add_entry M es celen)) in *.
    assert (Hes : block_ok (id, es)).
    { rewrite Forall_forall in Hok. apply Hok. apply in_or_app. right. left. reflexivity. }
    destruct Hes as [Hw _]. cbn [snd] in Hw.
    destruct (add_entry_placed M celen es o Hw E3 Ho) as (Hin & HoM & Hperm & _).
    fold es' in Hin, Hperm.
    assert (Hw' : wf M es') by (apply add_entry_wf; [lia|exact Hw]).
    assert (Ecomb : combine (map fst (B1 ++ (id, es) :: B2) ++ [nid]) (map snd B1 ++ es' :: map snd B2)
                    = B1 ++ (id, es') :: B2).
    { replace (map fst (B1 ++ (id, es) :: B2)) with (map fst (B1 ++ (id, es') :: B2))
        by (rewrite !map_app; reflexivity).
      replace (map snd B1 ++ es' :: map snd B2) with (map snd (B1 ++ (id, es') :: B2))
        by (rewrite !map_app; reflexivity).
      apply arr_combine_fst_snd. }
    rewrite Ecomb. rewrite map_length in E2. subst i.
    assert (Enth : nth (length B1) (map fst (B1 ++ (id, es) :: B2) ++ [nid]) nid = id).
    { rewrite map_app, <- app_assoc. rewrite app_nth2 by (rewrite map_length; lia).
      rewrite map_length, Nat.sub_diag. reflexivity. }
    rewrite Enth. cbn [fst snd].
    split; [|split; [|split; [|split; [|split; [reflexivity|split; [exact Ho|exact HoM]]]]]].
    + split.
      * rewrite map_app in *. exact Hnd.
      * apply Forall_app in Hok. destruct Hok as [H1 H2]. inversion H2; subst.
        apply Forall_app. split; [exact H1|]. constructor; [|assumption].
        split; [exact Hw'|]. cbn [snd]. intros En. rewrite En in Hin. exact Hin.
    + unfold ids_below in *. apply Forall_app in Hids. destruct Hids as [H1 H2]. inversion H2; subst.
      apply Forall_app. split; [exact H1|]. constructor; assumption.
    + intros k. rewrite !arr_flat_app, !arr_flat_cons, !arr_kcount_app. cbn [fst snd].
      rewrite (arr_kcount_perm k _ _ (Permutation_map (tag id) Hperm)). cbn [map].
      rewrite arr_kcount_cons. unfold tag at 1. cbn [fst snd]. lia.
    + rewrite !app_length. cbn [length]. lia.
  - destruct S as [E F]. rewrite E. intros H. inversion H; subst added ky bs'. clear H.
    rewrite arr_add_entry_empty by lia. cbn [fst snd].
    rewrite arr_combine_app by (rewrite !map_length; reflexivity).
    replace (combine (map fst bs) (map snd bs)) with bs
      by (symmetry; rewrite <- (app_nil_r (map fst bs)); apply arr_combine_fst_snd).
    cbn [combine]. rewrite map_length.
    assert (Enth : nth (length bs) (map fst bs ++ [nid]) nid = nid).
    { rewrite app_nth2 by (rewrite map_length; lia). rewrite map_length, Nat.sub_diag. reflexivity. }
    rewrite Enth.
    split; [|split; [|split; [|split; [|split; [reflexivity|split; [lia|lia]]]]]].
    + split.
      * rewrite map_app. cbn [map fst]. apply (Permutation_NoDup (Permutation_cons_append _ _)).
        constructor; [|exact Hnd].
        intros Hin. apply in_map_iff in Hin. destruct Hin as (b & Hb & Hin).
        unfold ids_below in Hids. rewrite Forall_forall in Hids. specialize (Hids b Hin). lia.
      * apply Forall_app. split; [exact Hok|]. constructor; [|constructor].
        split; [|discriminate]. cbn [snd]. apply wfb_iff. unfold wfb. cbn [wfb_from fst snd].
        unfold M in *. lia.
    + unfold ids_below in *. apply Forall_app. split.
      * eapply Forall_impl; [|exact Hids]. intros b Hb. cbn beta in *. lia.
      * constructor; [cbn; lia|constructor].
    + intros k. rewrite arr_flat_app, arr_kcount_app. unfold flat at 2. cbn [flat_map map fst snd app].
      rewrite arr_kcount_cons, arr_kcount_nil. lia.
    + rewrite app_length. cbn [length]. lia.
Qed.

(* ---- 4. pvd.remove_rr_ce_entry --------------------------------------------------------------------- *)
Lemma arr_remove_count i off len : forall es es', remove_entry es off len = Some es' ->
  forall k, kcount k (map (tag i) es) = kcount k (map (tag i) es') + kind (i, off, len) k.
Proof.
  intros es es' H k. destruct (remove_entry_exact _ _ _ _ H) as (l1 & l2 & -> & -> & _).
  rewrite !map_app, !arr_kcount_app. cbn [map]. rewrite arr_kcount_cons. unfold tag at 2. cbn [fst snd]. lia.
Qed.

Theorem arr_ce_release_spec : forall bs id off len, blocks_ok bs -> In (id, off, len) (flat bs) ->
  exists dropped bs', ce_release bs id off len = Some (dropped, bs') /\
    blocks_ok bs' /\ (forall n, ids_below bs n -> ids_below bs' n) /\
    (forall k, kcount k (flat bs') = kcount k (flat bs) - kind (id, off, len) k) /\
    length bs = (length bs' + (if dropped then 1 else 0))%nat.
Proof.
  induction bs as [|[i es] bs IH]; intros id off len [Hnd Hok] Hin; [destruct Hin|].
  cbn [map] in Hnd. inversion Hnd as [|? ? Hnotin Hnd']; subst.
  inversion Hok as [|? ? Hb Hok']; subst. destruct Hb as [Hw Hne]. cbn [snd fst] in *.
  cbn [ce_release]. destruct (Nat.eqb_spec i id) as [->|Hne_id].
  - assert (Hes : In (off, len) es).
    { rewrite arr_flat_cons in Hin. apply in_app_or in Hin. destruct Hin as [Hin|Hin].
      - apply in_map_iff in Hin. destruct Hin as ([o l] & He & Hin). unfold tag in He. cbn in He.
        inversion He; subst. exact Hin.
      - exfalso. apply arr_in_flat in Hin. destruct Hin as (b & Hb & Hi & _). cbn in Hi.
        apply Hnotin. rewrite Hi. apply in_map. exact Hb. }
    destruct (remove_entry es off len) as [es'|] eqn:R;
      [|apply remove_entry_none in R; contradiction].
    pose proof (remove_entry_wf M _ _ _ _ Hw R) as Hw'.
    pose proof (arr_remove_count id off len es es' R) as Hc.
    destruct es' as [|e' es''].
    + exists true, bs. split; [reflexivity|]. split; [split; assumption|].
      split; [intros n Hb; inversion Hb; assumption|]. split.
      * intros k. rewrite arr_flat_cons, arr_kcount_app. cbn [fst snd]. rewrite (Hc k).
        cbn [map]. rewrite arr_kcount_nil. lia.
      * cbn [length]. lia.
    + exists false, ((id, e' :: es'') :: bs). split; [reflexivity|]. split.
      * split; [cbn [map]; constructor; assumption|]. constructor; [|exact Hok'].
        split; [exact Hw'|discriminate].
      * split; [intros n Hb; inversion Hb; subst; constructor; assumption|]. split.
        -- intros k. rewrite !arr_flat_cons, !arr_kcount_app. cbn [fst snd]. rewrite (Hc k). lia.
        -- cbn [length]. lia.
  - assert (Hin' : In (id, off, len) (flat bs)).
    { rewrite arr_flat_cons in Hin. apply in_app_or in Hin. destruct Hin as [Hin|Hin]; [|exact Hin].
      apply in_map_iff in Hin. destruct Hin as (e & He & _). unfold tag in He. cbn in He.
      inversion He. congruence. }
    destruct (IH id off len (conj Hnd' Hok') Hin') as (dropped & bs' & E & [Hnd2 Hok2] & Hids & Hc & Hl).
    rewrite E. exists dropped, ((i, es) :: bs'). split; [reflexivity|]. split.
    + split.
      * cbn [map fst]. constructor; [|exact Hnd2]. intros Hi. apply Hnotin.
        (* ids of bs' are ids of bs *)
        clear - E Hi. revert bs' dropped E Hi. induction bs as [|[j fs] bs IHb]; intros bs' dropped E Hi;
          cbn [ce_release] in E; [discriminate|].
        destruct (Nat.eqb j id).
        -- destruct (remove_entry fs off len) as [[|f fs']|]; inversion E; subst; cbn [map fst] in *;
             [right; exact Hi|destruct Hi as [->|Hi]; [left; reflexivity|right; exact Hi]].
        -- destruct (ce_release bs id off len) as [[d tl']|] eqn:E'; [|discriminate].
           inversion E; subst. cbn [map fst] in *. destruct Hi as [->|Hi]; [left; reflexivity|].
           right. eapply IHb; [reflexivity|exact Hi].
      * constructor; [split; assumption|exact Hok2].
    + split; [intros n Hb; inversion Hb; subst; constructor; [assumption|apply Hids; assumption]|]. split.
      * intros k. rewrite !arr_flat_cons, !arr_kcount_app, (Hc k). lia.
      * cbn [length]. lia.
Qed.

(* ---- 5. the blocks the extent assignment meets ----------------------------------------------------- *)
Definition ce_ids (l : list rnode) : list nat :=
  flat_map (fun n => match ce_id n with Some i => [i] | None => [] end) l.

Lemma arr_mem_nat_spec i l : mem_nat i l = true <-> In i l.
Proof.
  unfold mem_nat. rewrite existsb_exists. split.
  - intros (x & Hx & E). apply Nat.eqb_eq in E. subst. exact Hx.
  - intros H. exists i. split; [exact H|apply Nat.eqb_refl].
Qed.

(* every block B is met, nothing outside seen + B is met: exactly |B| blocks are placed *)
Lemma arr_fresh_count : forall l seen B, NoDup B ->
  (forall i, In i B -> ~ In i seen) ->
  (forall i, In i (ce_ids l) -> In i seen \/ In i B) ->
  (forall i, In i B -> In i (ce_ids l)) ->
  fresh seen l = length B.
Proof.
  induction l as [|n r IH]; intros seen B Hnd Hdis Hsub Hall.
  - cbn [fresh]. destruct B as [|b B]; [reflexivity|]. destruct (Hall b (or_introl eq_refl)).
  - cbn [fresh]. cbn [ce_ids flat_map] in Hsub, Hall. fold (ce_ids r) in Hsub, Hall.
    destruct (ce_id n) as [i|].
    + cbn [app] in Hsub, Hall. destruct (mem_nat i seen) eqn:Em.
      * apply arr_mem_nat_spec in Em. apply IH; [exact Hnd|exact Hdis| |].
        -- intros j Hj. apply Hsub. right. exact Hj.
        -- intros j Hj. destruct (Hall j Hj) as [->|H]; [exfalso; exact (Hdis _ Hj Em)|exact H].
      * assert (Hns : ~ In i seen) by (intros H; apply arr_mem_nat_spec in H; congruence).
        assert (HiB : In i B) by (destruct (Hsub i (or_introl eq_refl)); [contradiction|assumption]).
        destruct (in_split _ _ HiB) as (B1 & B2 & ->).
        apply NoDup_remove in Hnd. destruct Hnd as [Hnd Hni].
        rewrite (IH (i :: seen) (B1 ++ B2) Hnd).
        -- rewrite !app_length. cbn [length]. lia.
        -- intros j Hj [->|Hs]; [exact (Hni Hj)|].
           apply (Hdis j); [|exact Hs]. apply in_app_or in Hj. apply in_or_app.
           destruct Hj; [left|right; right]; assumption.
        -- intros j Hj. destruct (Nat.eq_dec i j) as [->|Hne]; [left; left; reflexivity|].
           destruct (Hsub j (or_intror Hj)) as [H|H]; [left; right; exact H|right].
           apply in_app_or in H. apply in_or_app. destruct H as [H|[H|H]]; [left; exact H|congruence|right; exact H].
        -- intros j Hj. assert (Hj' : In j (B1 ++ i :: B2)).
           { apply in_app_or in Hj. apply in_or_app. destruct Hj; [left|right; right]; assumption. }
           destruct (Hall j Hj') as [->|H]; [contradiction|exact H].
    + cbn [app] in Hsub, Hall. apply IH; assumption.
Qed.
