(* C10 / C02 -- Model/UdfLayout.v seen from Model/UdfParse.v: the layout does not depend on WHICH
   identities the inodes have, only on which names share one: renaming the inode ids of a tree by a
   function that is injective on them changes neither the view nor any extent or counter
   (up_layout_relabel).  Images without ISO9660 files. *)
From Coq Require Import ZArith List Bool Lia ZifyBool Arith.
From PV.Base Require Import Prim.
From PV.Gen Require Import GenFun.
From PV.Model Require Import Codec Fid UdfDir UdfLayout UdfParse.
From PV.Proofs Require Import UdfLayoutBfsProofs UdfLayoutViewProofs UdfLayoutFactsProofs UdfLayoutSpaceProofs.
Import ListNotations.
Local Open Scope Z_scope.

Fixpoint up_relabel (s : nat -> nat) (t : utree) : utree :=
  match t with
  | UFile n l i => UFile n l (s i)
  | UDir n cs => UDir n (map (up_relabel s) cs)
  end.

Definition up_inj_on (s : nat -> nat) (S : list nat) : Prop :=
  forall i j, In i S -> In j S -> s i = s j -> i = j.

Lemma up_flat_map_map {A B C} (f : B -> C) (g : A -> list B) l : flat_map (fun x => map f (g x)) l = map f (flat_map g l).
Proof. induction l as [|x r IH]; [reflexivity|]. cbn [flat_map]. rewrite map_app, IH. reflexivity. Qed.
Lemma up_flat_map_comp {A B C} (f : A -> B) (g : B -> list C) l : flat_map g (map f l) = flat_map (fun x => g (f x)) l.
Proof. induction l as [|x r IH]; [reflexivity|]. cbn [map flat_map]. rewrite IH. reflexivity. Qed.

Lemma up_flat_map_ext_in {A B} (f g : A -> list B) l : (forall x, In x l -> f x = g x) -> flat_map f l = flat_map g l.
Proof.
  induction l as [|x r IH]; intros H; [reflexivity|]. cbn [flat_map]. rewrite (H x (or_introl eq_refl)), IH; [reflexivity|].
  intros y Hy. apply H. right. exact Hy.
Qed.

Section Relabel.
  Variable s : nat -> nat.
  Let rl := up_relabel s.
  Definition up_rlp (x : nat * Z) : nat * Z := (s (fst x), snd x).
  Definition up_rl3 (x : nat * Z * Z) : nat * Z * Z := (s (fst (fst x)), snd (fst x), snd x).
  Definition up_rlq (x : qitem) : qitem := (fst (fst x), snd (fst x), map rl (snd x)).
  Definition up_rlr (r : dirrec) : dirrec :=
    mk_dirrec (dr_path r) (dr_fe r) (dr_parent_fe r) (dr_kid0 r) (map rl (dr_node r)).

  Lemma up_rl_fident c : ut_fident (rl c) = ut_fident c.
  Proof. destruct c; reflexivity. Qed.

  Lemma up_rl_descs cs : ul_dir_descs (map rl cs) = ul_dir_descs cs.
  Proof. unfold ul_dir_descs. rewrite map_map. f_equal. apply map_ext. intros c. rewrite up_rl_fident. reflexivity. Qed.
  Lemma up_rl_state cs : ul_dir_state (map rl cs) = ul_dir_state cs.
  Proof. unfold ul_dir_state. rewrite up_rl_descs. reflexivity. Qed.
  Lemma up_rl_info cs : ul_dir_info (map rl cs) = ul_dir_info cs.
  Proof. unfold ul_dir_info. rewrite up_rl_state. reflexivity. Qed.
  Lemma up_rl_blocks cs : ul_dir_blocks (map rl cs) = ul_dir_blocks cs.
  Proof. unfold ul_dir_blocks. rewrite up_rl_state. reflexivity. Qed.

  Lemma up_rl_dir_kids p fe cs : ul_dir_kids p fe (map rl cs) = map up_rlq (ul_dir_kids p fe cs).
  Proof.
    unfold ul_dir_kids. induction cs as [|c r IH]; [reflexivity|]. cbn [map flat_map]. rewrite map_app, IH.
    destruct c; reflexivity.
  Qed.
  Lemma up_rl_file_kids cs : ul_file_kids (map rl cs) = map up_rlp (ul_file_kids cs).
  Proof.
    unfold ul_file_kids. induction cs as [|c r IH]; [reflexivity|]. cbn [map flat_map]. rewrite map_app, IH.
    destruct c; reflexivity.
  Qed.

  Lemma up_rl_bfs fuel : forall k cur q,
    ul_bfs fuel k cur (map up_rlq q) = (map up_rlr (fst (ul_bfs fuel k cur q)), snd (ul_bfs fuel k cur q)).
  Proof.
    induction fuel as [|f IH]; intros k cur q; [reflexivity|]. destruct q as [|[[p pf] cs] rest]; [reflexivity|].
    cbn [map up_rlq fst snd ul_bfs length]. rewrite up_rl_blocks, up_rl_dir_kids, <- map_app, IH, map_length.
    destruct (ul_bfs f (S k) (cur + 1 + ul_dir_blocks cs) (rest ++ ul_dir_kids p cur cs)) as [rs e]. reflexivity.
  Qed.

  Lemma up_rl_count_dirs t : ul_count_dirs (rl t) = ul_count_dirs t.
  Proof.
    induction t as [n l i|n cs IH] using ul_utree_ind; [reflexivity|].
    change (rl (UDir n cs)) with (UDir n (map rl cs)). rewrite !ul_count_dirs_dir. f_equal. unfold ul_ndirs.
    induction IH as [|c r Hc Hr IH2]; [reflexivity|]. cbn [map ul_nsum]. rewrite Hc, IH2. reflexivity.
  Qed.

  (* ---- the assignments ---- *)
  Variable S : list nat.
  Hypothesis Hinj : up_inj_on s S.

  Lemma up_rl_mem i seen : In i S -> incl seen S -> nat_mem (s i) (map s seen) = nat_mem i seen.
  Proof.
    intros Hi Hs. destruct (nat_mem i seen) eqn:E.
    - apply ul_nat_mem_iff in E. apply ul_nat_mem_iff. apply in_map. exact E.
    - destruct (nat_mem (s i) (map s seen)) eqn:E2; [|reflexivity]. apply ul_nat_mem_iff in E2.
      apply in_map_iff in E2. destruct E2 as (j & Ej & Hj). rewrite (Hinj j i (Hs j Hj) Hi Ej) in Hj.
      apply ul_nat_mem_iff in Hj. congruence.
  Qed.

  Lemma up_rl_assign_fes fs : forall cur seen, incl seen S -> incl (map fst fs) S ->
    ul_assign_fes cur (map s seen) (map up_rlp fs) =
    (map up_rl3 (fst (ul_assign_fes cur seen fs)), snd (ul_assign_fes cur seen fs)).
  Proof.
    induction fs as [|[i l] r IH]; intros cur seen Hs Hf; [reflexivity|]. cbn [map up_rlp fst snd ul_assign_fes].
    assert (Hi : In i S) by (apply Hf; left; reflexivity). assert (Hr : incl (map fst r) S) by (intros x Hx; apply Hf; right; exact Hx).
    rewrite (up_rl_mem i seen Hi Hs). destruct (nat_mem i seen); [exact (IH cur seen Hs Hr)|].
    change (s i :: map s seen) with (map s (i :: seen)). rewrite (IH (cur + 1) (i :: seen)); [|intros x [<-|Hx]; [exact Hi|exact (Hs x Hx)]|exact Hr].
    destruct (ul_assign_fes (cur + 1) (i :: seen) r) as [a e]. reflexivity.
  Qed.

  Lemma up_rl_assign_data fs : forall cur seen, incl seen S -> incl (map fst fs) S ->
    ul_assign_data cur (map s seen) (map up_rlp fs) =
    (map up_rl3 (fst (ul_assign_data cur seen fs)), snd (ul_assign_data cur seen fs)).
  Proof.
    induction fs as [|[i l] r IH]; intros cur seen Hs Hf; [reflexivity|]. cbn [map up_rlp fst snd ul_assign_data].
    assert (Hi : In i S) by (apply Hf; left; reflexivity). assert (Hr : incl (map fst r) S) by (intros x Hx; apply Hf; right; exact Hx).
    rewrite (up_rl_mem i seen Hi Hs). destruct (nat_mem i seen); [exact (IH cur seen Hs Hr)|].
    change (s i :: map s seen) with (map s (i :: seen)).
    rewrite (IH (cur + ceiling_div l 2048) (i :: seen)); [|intros x [<-|Hx]; [exact Hi|exact (Hs x Hx)]|exact Hr].
    destruct (ul_assign_data (cur + ceiling_div l 2048) (i :: seen) r) as [a e]. reflexivity.
  Qed.

  Lemma up_rl_find i l : In i S -> incl (map (fun x => fst (fst x)) l) S -> ul_find (s i) (map up_rl3 l) = ul_find i l.
  Proof.
    intros Hi. induction l as [|[[j x] n] r IH]; intros Hl; [reflexivity|]. cbn [map up_rl3 fst snd ul_find].
    assert (Hj : In j S) by (apply Hl; left; reflexivity).
    destruct (Nat.eqb i j) eqn:E.
    - apply Nat.eqb_eq in E. subst j. rewrite Nat.eqb_refl. reflexivity.
    - replace (Nat.eqb (s i) (s j)) with false.
      + apply IH. intros y Hy. apply Hl. right. exact Hy.
      + symmetry. apply Nat.eqb_neq. intros E2. apply Nat.eqb_neq in E. apply E. exact (Hinj i j Hi Hj E2).
  Qed.

  Lemma up_rl_udf_files fes : ul_udf_files (map up_rl3 fes) = map up_rlp (ul_udf_files fes).
  Proof.
    unfold ul_udf_files. induction fes as [|[[i fe] l] r IH]; [reflexivity|]. cbn [map flat_map up_rl3 fst snd]. rewrite map_app, IH.
    destruct (ul_last_piece l >? 0); reflexivity.
  Qed.
End Relabel.


(* ---- the view of a relabelled layout ---- *)
Section View.
  Variable s : nat -> nat.
  Variable S : list nat.
  Hypothesis Hinj : up_inj_on s S.
  Variable lo : layout.
  Variables (ue e pl nf nd uid : Z).
  Let lo' := mk_layout (lo_ps lo) (map (up_rlr s) (lo_dirs lo)) (map (up_rl3 s) (lo_fes lo)) ue
                       (map (up_rl3 s) (lo_data lo)) e pl nf nd uid.
  Hypothesis Hd : forall r, In r (lo_dirs lo) -> incl (map fst (flat_map ul_inodes (dr_node r))) S.
  Hypothesis Hf : incl (map (fun x => fst (fst x)) (lo_fes lo)) S.
  Hypothesis Hda : incl (map (fun x => fst (fst x)) (lo_data lo)) S.

  Lemma up_rl_kid_icbs : forall cs j, incl (map fst (flat_map ul_inodes cs)) S ->
    ul_kid_icbs lo' j (map (up_relabel s) cs) = ul_kid_icbs lo j cs.
  Proof.
    induction cs as [|c r IH]; intros j Hc; [reflexivity|].
    assert (Hr : incl (map fst (flat_map ul_inodes r)) S).
    { intros x Hx. apply Hc. cbn [flat_map]. rewrite map_app. apply in_or_app. right. exact Hx. }
    destruct c as [n l i|n sub]; cbn [map up_relabel ul_kid_icbs].
    - rewrite (IH j Hr). f_equal. cbn [lo_fes lo' lo_ps]. rewrite (up_rl_find s S Hinj i (lo_fes lo)); [reflexivity| |exact Hf].
      apply Hc. left. reflexivity.
    - rewrite (IH (Datatypes.S j) Hr). f_equal. cbn [lo_dirs lo' lo_ps]. rewrite nth_error_map.
      destruct (nth_error (lo_dirs lo) j); reflexivity.
  Qed.

  Lemma up_rl_dir_entries r : In r (lo_dirs lo) -> ul_dir_entries lo' (up_rlr s r) = ul_dir_entries lo r.
  Proof.
    intros Hin. unfold ul_dir_entries, ul_dir_tags, ul_dir_icbs. cbn [dr_fe dr_node dr_parent_fe dr_kid0 up_rlr].
    rewrite up_rl_info, up_rl_descs, up_rl_state, (up_rl_kid_icbs _ _ (Hd r Hin)). reflexivity.
  Qed.

  Lemma up_rl_file_entry x : In x (lo_fes lo) -> ul_file_entry lo' (up_rl3 s x) = ul_file_entry lo x.
  Proof.
    intros Hin. destruct x as [[i fe] l]. unfold ul_file_entry, up_rl3, ul_data_pos. cbn [fst snd lo_ps lo' lo_data].
    rewrite (up_rl_find s S Hinj i (lo_data lo)); [reflexivity| |exact Hda].
    apply Hf. change i with ((fun x : nat * Z * Z => fst (fst x)) (i, fe, l)). apply in_map. exact Hin.
  Qed.

  Lemma up_rl_view : view lo' = view lo.
  Proof.
    unfold view. f_equal. cbn [lo_dirs lo_fes lo']. f_equal.
    - rewrite up_flat_map_comp. apply up_flat_map_ext_in. exact up_rl_dir_entries.
    - rewrite map_map. apply map_ext_in. exact up_rl_file_entry.
  Qed.
End View.

(* ---- udf_layout_iso, stage by stage ---- *)
Definition up_lay_B (ps : Z) (t : utree) := ul_bfs (Datatypes.S (ul_count_dirs t)) 0 (ps + 2) [([], ps + 2, ut_children t)].
Definition up_lay_names (ps : Z) (t : utree) := flat_map (fun r => ul_file_kids (dr_node r)) (fst (up_lay_B ps t)).
Definition up_lay_A (ps : Z) (t : utree) := ul_assign_fes (snd (up_lay_B ps t)) [] (up_lay_names ps t).
Definition up_lay_D (ps : Z) (iso : iso_side) (t : utree) :=
  ul_assign_data (snd (up_lay_A ps t) + iso_meta iso) [] (iso_files iso ++ ul_udf_files (fst (up_lay_A ps t))).

Lemma up_layout_unfold ps iso t : udf_layout_iso ps iso t =
  mk_layout ps (fst (up_lay_B ps t)) (fst (up_lay_A ps t)) (snd (up_lay_A ps t)) (fst (up_lay_D ps iso t)) (snd (up_lay_D ps iso t))
            (ul_part_length iso (fst (up_lay_B ps t)) (fst (up_lay_A ps t))) (zlen (up_lay_names ps t))
            (zlen (fst (up_lay_B ps t))) (snd (up_lay_A ps t)).
Proof.
  unfold udf_layout_iso, up_lay_D, up_lay_A, up_lay_names, up_lay_B.
  destruct (ul_bfs (Datatypes.S (ul_count_dirs t)) 0 (ps + 2) [([], ps + 2, ut_children t)]) as [dirs cur1]. cbn [fst snd].
  destruct (ul_assign_fes cur1 [] (flat_map (fun r => ul_file_kids (dr_node r)) dirs)) as [fes cur2]. cbn [fst snd].
  destruct (ul_assign_data (cur2 + iso_meta iso) [] (iso_files iso ++ ul_udf_files fes)) as [data cur3]. reflexivity.
Qed.

Lemma up_zlen_map {A B} (f : A -> B) l : zlen (map f l) = zlen l.
Proof. unfold zlen. rewrite map_length. reflexivity. Qed.

Section Main.
  Variables (s : nat -> nat) (ps : Z) (iso : iso_side) (t : utree).
  Hypothesis Hwf : wf_utree t = true.
  Hypothesis Hnofiles : iso_files iso = [].
  Let S := map fst (ul_inodes t).
  Hypothesis Hinj : up_inj_on s S.
  Let t' := up_relabel s t.

  Let F : ul_facts ps iso t (udf_layout_iso ps iso t) := ul_facts_of_wf ps iso t Hwf.

  Lemma up_scope_names : incl (up_lay_names ps t) (ul_inodes t).
  Proof.
    pose proof (ul_names_sub _ _ _ _ F) as H. unfold ul_names in H. rewrite up_layout_unfold in H. exact H.
  Qed.
  Lemma up_scope_names_fst : incl (map fst (up_lay_names ps t)) S.
  Proof. intros x Hx. apply in_map_iff in Hx. destruct Hx as (y & <- & Hy). apply in_map. exact (up_scope_names y Hy). Qed.
  Lemma up_scope_dirs r : In r (fst (up_lay_B ps t)) -> incl (map fst (flat_map ul_inodes (dr_node r))) S.
  Proof.
    intros Hin. pose proof (uf_sub _ _ _ _ F) as H. rewrite up_layout_unfold in H. cbn [lo_dirs] in H.
    pose proof (proj1 (Forall_forall _ _) H r Hin) as Hr. cbv beta in Hr. intros x Hx. apply in_map_iff in Hx.
    destruct Hx as (y & <- & Hy). apply in_map. exact (Hr y Hy).
  Qed.
  Lemma up_scope_fes : incl (map (fun x : nat * Z * Z => fst (fst x)) (fst (up_lay_A ps t))) S.
  Proof.
    intros i Hi. apply in_map_iff in Hi. destruct Hi as (x & <- & Hx). unfold up_lay_A in Hx.
    destruct (ul_assign_fes_fresh _ _ _ _ Hx) as [_ Hn]. apply up_scope_names_fst.
    change (fst (fst x)) with (fst (fst (fst x), snd x)). apply in_map. exact Hn.
  Qed.
  Lemma up_scope_udf_files : incl (map fst (ul_udf_files (fst (up_lay_A ps t)))) S.
  Proof.
    intros i Hi. apply in_map_iff in Hi. destruct Hi as (x & <- & Hx). unfold ul_udf_files in Hx. apply in_flat_map in Hx.
    destruct Hx as ([[j fe] l] & Hj & Hx). destruct (ul_last_piece l >? 0); [|destruct Hx]. destruct Hx as [<-|[]]. cbn [fst].
    apply up_scope_fes. change j with ((fun x : nat * Z * Z => fst (fst x)) (j, fe, l)). apply in_map. exact Hj.
  Qed.
  Lemma up_scope_data : incl (map (fun x : nat * Z * Z => fst (fst x)) (fst (up_lay_D ps iso t))) S.
  Proof.
    intros i Hi. apply in_map_iff in Hi. destruct Hi as (x & <- & Hx). unfold up_lay_D in Hx. rewrite Hnofiles in Hx. cbn [app] in Hx.
    destruct (ul_assign_data_nodup (ul_udf_files (fst (up_lay_A ps t))) (snd (up_lay_A ps t) + iso_meta iso) []) as [_ H].
    destruct (H x Hx) as [_ Hn]. apply up_scope_udf_files. change (fst (fst x)) with (fst (fst (fst x), snd x)). apply in_map. exact Hn.
  Qed.

  (* the stages of the relabelled tree *)
  Lemma up_rl_B : up_lay_B ps t' = (map (up_rlr s) (fst (up_lay_B ps t)), snd (up_lay_B ps t)).
  Proof.
    unfold up_lay_B, t'. rewrite up_rl_count_dirs.
    replace (ut_children (up_relabel s t)) with (map (up_relabel s) (ut_children t)) by (destruct t; reflexivity).
    change [([], ps + 2, map (up_relabel s) (ut_children t))] with (map (up_rlq s) [([], ps + 2, ut_children t)]).
    apply up_rl_bfs.
  Qed.
  Lemma up_rl_names : up_lay_names ps t' = map (up_rlp s) (up_lay_names ps t).
  Proof.
    unfold up_lay_names. rewrite up_rl_B. cbn [fst]. rewrite up_flat_map_comp, <- up_flat_map_map.
    apply up_flat_map_ext_in. intros r _. cbn [dr_node up_rlr]. apply up_rl_file_kids.
  Qed.
  Lemma up_rl_A : up_lay_A ps t' = (map (up_rl3 s) (fst (up_lay_A ps t)), snd (up_lay_A ps t)).
  Proof.
    unfold up_lay_A. rewrite up_rl_names, up_rl_B. cbn [snd]. change (@nil nat) with (map s []).
    apply (up_rl_assign_fes s S Hinj); [intros x []|exact up_scope_names_fst].
  Qed.
  Lemma up_rl_D : up_lay_D ps iso t' = (map (up_rl3 s) (fst (up_lay_D ps iso t)), snd (up_lay_D ps iso t)).
  Proof.
    unfold up_lay_D. rewrite up_rl_A, Hnofiles. cbn [fst snd app]. rewrite up_rl_udf_files. change (@nil nat) with (map s []).
    apply (up_rl_assign_data s S Hinj); [intros x []|exact up_scope_udf_files].
  Qed.
  Lemma up_rl_part_length :
    ul_part_length iso (map (up_rlr s) (fst (up_lay_B ps t))) (map (up_rl3 s) (fst (up_lay_A ps t))) =
    ul_part_length iso (fst (up_lay_B ps t)) (fst (up_lay_A ps t)).
  Proof.
    unfold ul_part_length. rewrite Hnofiles. cbn [app]. rewrite up_zlen_map, !map_map.
    rewrite (map_ext (fun x => 1 + ceiling_div (ul_dir_info (dr_node (up_rlr s x))) 2048)
                     (fun r => 1 + ceiling_div (ul_dir_info (dr_node r)) 2048))
      by (intros r; cbn [dr_node up_rlr]; rewrite up_rl_info; reflexivity).
    rewrite (map_ext (fun x => let '(i, _, l) := up_rl3 s x in (i, l)) (fun x => up_rlp s (let '(i, _, l) := x in (i, l))))
      by (intros [[i fe] l]; reflexivity).
    rewrite <- (map_map (fun x : nat * Z * Z => let '(i, _, l) := x in (i, l)) (up_rlp s)). change (@nil nat) with (map s []).
    rewrite (up_rl_assign_data s S Hinj); [reflexivity|intros x []|].
    intros i Hi. apply in_map_iff in Hi. destruct Hi as (x & <- & Hx). apply in_map_iff in Hx. destruct Hx as ([[j fe] l] & <- & Hj).
    apply up_scope_fes. change (fst (j, l)) with ((fun x : nat * Z * Z => fst (fst x)) (j, fe, l)). apply in_map. exact Hj.
  Qed.

  Theorem up_layout_relabel :
    let lo := udf_layout_iso ps iso t in let lo' := udf_layout_iso ps iso t' in
    view lo' = view lo /\ lo_ps lo' = lo_ps lo /\ lo_udf_end lo' = lo_udf_end lo /\ lo_end lo' = lo_end lo /\
    lo_part_length lo' = lo_part_length lo /\ lo_num_files lo' = lo_num_files lo /\ lo_num_dirs lo' = lo_num_dirs lo /\
    lo_unique_id lo' = lo_unique_id lo /\
    map (fun x => (snd (fst x), snd x)) (lo_fes lo') = map (fun x => (snd (fst x), snd x)) (lo_fes lo) /\
    map (fun x => (snd (fst x), snd x)) (lo_data lo') = map (fun x => (snd (fst x), snd x)) (lo_data lo) /\
    map dr_fe (lo_dirs lo') = map dr_fe (lo_dirs lo).
  Proof.
    cbv zeta. rewrite (up_layout_unfold ps iso t'), (up_layout_unfold ps iso t).
    rewrite up_rl_D, up_rl_A, up_rl_B, up_rl_names. cbn [fst snd]. rewrite up_rl_part_length, !up_zlen_map.
    split.
    - apply (up_rl_view s S Hinj (mk_layout ps (fst (up_lay_B ps t)) (fst (up_lay_A ps t)) (snd (up_lay_A ps t))
               (fst (up_lay_D ps iso t)) (snd (up_lay_D ps iso t)) (ul_part_length iso (fst (up_lay_B ps t)) (fst (up_lay_A ps t)))
               (zlen (up_lay_names ps t)) (zlen (fst (up_lay_B ps t))) (snd (up_lay_A ps t)))); cbn [lo_dirs lo_fes lo_data].
      + exact up_scope_dirs.
      + exact up_scope_fes.
      + exact up_scope_data.
    - cbn [lo_ps lo_udf_end lo_end lo_part_length lo_num_files lo_num_dirs lo_unique_id lo_fes lo_data lo_dirs].
      repeat split; rewrite map_map; apply map_ext; intros x; reflexivity.
  Qed.
End Main.

Print Assumptions up_layout_relabel.
