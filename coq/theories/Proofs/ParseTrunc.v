(* Parse, part 11: files that end beyond the end of the image (the truncation branch of _walk_directories as
   repaired by commit 10cfb30), for ANY image.
     parse_truncation_lengths
        in the opened object every non-directory record c is linked to an Inode that lies at c's extent
        (extent 0 for a zero-length record); c's data_length is either the on-disc one or the bytes that are
        left, image length - extent*2048, and then that is the Inode's length too; and it IS the bytes
        that are left whenever the on-disc record reaches beyond the end of the image. *)
From Coq Require Import ZArith List Bool Lia ZifyBool.
From PV.Base Require Import Prim ListX.
From PV.Model Require Import Codec Pack Master Parse.
From PV.Proofs Require Import ParseShare ParseShareWalk.
Import ListNotations.
Local Open Scope Z_scope.

(* extent_to_use of a record *)
Definition ps_euse (r : drec) : Z := if data_len r =? 0 then 0 else extent r.

Definition ps_T1 (isz : Z) (inodes : list (Z * Z)) (c : prec) : Prop :=
  forall i, p_ino c = Some i ->
  exists l, nth_error inodes i = Some (ps_euse (p_rec c), l) /\
    (p_dlen c = data_len (p_rec c) \/
     (p_dlen c = isz - ps_euse (p_rec c) * BS /\ l = isz - ps_euse (p_rec c) * BS)) /\
    (ps_euse (p_rec c) * BS + data_len (p_rec c) > isz ->
     p_dlen c = isz - ps_euse (p_rec c) * BS /\ l = isz - ps_euse (p_rec c) * BS).

Definition ps_recs (st : pstate) : list prec := concat (s_dirs st) ++ s_cur st.

Record ps_T (isz : Z) (st : pstate) : Prop := {
  t_recs : forall c, In c (ps_recs st) -> ps_T1 isz (s_inodes st) c;
  t_e2i : forall x i, ps_assoc x (s_e2i st) = Some i -> exists l, nth_error (s_inodes st) i = Some (x, l) }.

Lemma ps_T1_ext isz inodes c c' : p_rec c' = p_rec c -> p_ino c' = p_ino c -> p_dlen c' = p_dlen c ->
  ps_T1 isz inodes c -> ps_T1 isz inodes c'.
Proof. unfold ps_T1. intros -> -> ->. exact (fun H => H). Qed.

Lemma ps_T1_mono isz inodes inodes' c :
  (forall j x, nth_error inodes j = Some x -> nth_error inodes' j = Some x) ->
  ps_T1 isz inodes c -> ps_T1 isz inodes' c.
Proof. intros Hm H i Hi. destruct (H i Hi) as (l & Hn & R). exists l. split; [apply Hm; exact Hn|exact R]. Qed.

Lemma ps_nth_error_mid {A} (a b : list A) y y' j : j <> length a ->
  nth_error (a ++ y :: b) j = nth_error (a ++ y' :: b) j.
Proof.
  intros Hj. destruct (Nat.lt_ge_cases j (length a)) as [Hlt|Hge].
  - rewrite !nth_error_app1 by lia. reflexivity.
  - rewrite !nth_error_app2 by lia. destruct (j - length a)%nat as [|k] eqn:Ek; [lia|]. reflexivity.
Qed.

Lemma ps_set_ilen_nth i v l e x : nth_error l i = Some (e, x) ->
  nth_error (ps_set_ilen i v l) i = Some (e, v) /\
  (forall j, j <> i -> nth_error (ps_set_ilen i v l) j = nth_error l j).
Proof.
  intros H. unfold ps_set_ilen. rewrite H.
  assert (Hi : (i < length l)%nat) by (apply nth_error_Some; congruence).
  assert (Hf : length (firstn i l) = i) by (rewrite firstn_length; lia).
  split.
  - rewrite nth_error_app2 by lia. rewrite Hf, Nat.sub_diag. reflexivity.
  - intros j Hj. rewrite <- (set_same i l (e, x) H) at 3. apply ps_nth_error_mid. lia.
Qed.

Lemma ps_in_mapped (f : prec -> prec) dirs cur c' :
  In c' (concat (map (map f) dirs) ++ map f cur) -> exists c, In c (concat dirs ++ cur) /\ c' = f c.
Proof.
  rewrite ps_concat_map, <- map_app. intros H. apply in_map_iff in H. destruct H as (c & <- & Hc).
  exists c. split; [exact Hc|reflexivity].
Qed.

(* ---- the inode of a file record ----------------------------------------------------------------------- *)

Lemma ps_link_T isz st r i d st1 : ps_T isz st ->
  ps_link isz st (extent r) (data_len r) = (i, d, st1) ->
  ps_T isz st1 /\
  (forall c, p_rec c = r -> p_ino c = Some i -> p_dlen c = d -> ps_T1 isz (s_inodes st1) c).
Proof.
  intros [TR TE]. unfold ps_link, ps_link_gen. cbv zeta.
  fold (ps_euse r).
  assert (Hlen : (if data_len r =? 0 then 0 else data_len r) = data_len r) by (destruct (data_len r =? 0) eqn:E; lia).
  rewrite Hlen.
  set (e := ps_euse r). set (dl := data_len r).
  set (found := if negb (dl =? 0) then ps_assoc e (s_e2i st) else None).
  set (i0 := match found with Some k => k | None => length (s_inodes st) end).
  set (inodes1 := match found with Some _ => s_inodes st | None => s_inodes st ++ [(e, dl)] end).
  set (e2i1 := match found with
               | Some _ => s_e2i st
               | None => if negb (dl =? 0) then s_e2i st ++ [(e, i0)] else s_e2i st
               end).
  (* A: the inode chosen lies at e; B: inodes1 extends the list; C: records on it lie at e; D: e2i1 *)
  assert (HB : forall j x, nth_error (s_inodes st) j = Some x -> nth_error inodes1 j = Some x).
  { intros j x Hj. unfold inodes1. destruct found; [exact Hj|]. rewrite nth_error_app1; [exact Hj|].
    apply nth_error_Some. congruence. }
  assert (HA : exists l0, nth_error inodes1 i0 = Some (e, l0)).
  { unfold inodes1, i0. destruct found as [k|] eqn:Ef.
    - unfold found in Ef. destruct (negb (dl =? 0)); [|discriminate]. exact (TE _ _ Ef).
    - exists dl. rewrite nth_error_app2, Nat.sub_diag by lia. reflexivity. }
  assert (HC : forall c, In c (ps_recs st) -> p_ino c = Some i0 -> ps_euse (p_rec c) = e).
  { intros c Hc Hi. destruct (TR c Hc i0 Hi) as (l & Hn & _). unfold i0 in Hn. destruct found as [k|] eqn:Ef.
    - unfold found in Ef. destruct (negb (dl =? 0)); [|discriminate].
      destruct (TE _ _ Ef) as (l' & Hn'). fold i0 in Hn. unfold i0 in Hn. congruence.
    - assert (length (s_inodes st) < length (s_inodes st))%nat by (apply nth_error_Some; congruence). lia. }
  assert (HD : forall x j, ps_assoc x e2i1 = Some j -> exists l, nth_error inodes1 j = Some (x, l)).
  { intros x j Hx. unfold e2i1 in Hx. destruct found as [k|] eqn:Ef.
    - destruct (TE x j Hx) as (l & Hl). exists l. apply HB. exact Hl.
    - destruct (negb (dl =? 0)).
      + rewrite ps_assoc_snoc in Hx. destruct (ps_assoc x (s_e2i st)) as [v|] eqn:Ev.
        * injection Hx as <-. destruct (TE x v Ev) as (l & Hl). exists l. apply HB. exact Hl.
        * destruct (e =? x) eqn:Ee; [|discriminate]. injection Hx as <-. apply Z.eqb_eq in Ee. subst x. exact HA.
      + destruct (TE x j Hx) as (l & Hl). exists l. apply HB. exact Hl. }
  destruct HA as [l0 HA].
  destruct (e * BS + dl >? isz) eqn:Etr; intros H; injection H as <- <- <-.
  - (* truncated *)
    destruct (ps_set_ilen_nth i0 (isz - e * BS) inodes1 e l0 HA) as [Hs1 Hs2].
    split; [constructor|].
    + intros c' Hc'. unfold ps_recs in Hc'. cbn [s_dirs s_cur s_inodes] in *.
      destruct (ps_in_mapped _ _ _ _ Hc') as (c & Hc & ->). intros k Hk.
      assert (Hkc : p_ino c = Some k).
      { revert Hk. unfold ps_set_dlen. destruct (p_ino c) as [k'|] eqn:E; [destruct (Nat.eqb k' i0)|]; cbn [p_ino]; congruence. }
      destruct (Nat.eq_dec k i0) as [->|Hne].
      * assert (Hsd : ps_set_dlen i0 (isz - e * BS) c =
                      mk_prec (p_rec c) (p_drlen c) (p_lenfi c) (isz - e * BS) (p_ino c) (p_dir c) (p_idx c) (p_eth c) (p_oth c)).
        { unfold ps_set_dlen. rewrite Hkc, Nat.eqb_refl. reflexivity. }
        rewrite Hsd. cbn [p_rec p_dlen]. rewrite (HC c Hc Hkc). exists (isz - e * BS).
        split; [exact Hs1|]. split; [right; split; reflexivity|intros _; split; reflexivity].
      * assert (Hsd : ps_set_dlen i0 (isz - e * BS) c = c).
        { unfold ps_set_dlen. rewrite Hkc. replace (Nat.eqb k i0) with false; [reflexivity|].
          symmetry. apply Nat.eqb_neq. exact Hne. }
        rewrite Hsd. destruct (TR c Hc k Hkc) as (l & Hn & R). exists l. split; [|exact R].
        rewrite (Hs2 k Hne). apply HB. exact Hn.
    + cbn [s_e2i s_inodes]. intros x j Hx. destruct (HD x j Hx) as (l & Hl).
      destruct (Nat.eq_dec j i0) as [->|Hne].
      * rewrite HA in Hl. injection Hl as <- _. exists (isz - e * BS). exact Hs1.
      * exists l. rewrite (Hs2 j Hne). exact Hl.
    + cbn [s_inodes]. intros c Hr Hi Hd k Hk. rewrite Hi in Hk. injection Hk as <-. rewrite Hr. fold e. rewrite Hd.
      exists (isz - e * BS). split; [exact Hs1|]. split; [right; split; reflexivity|intros _; split; reflexivity].
  - (* inside the image *)
    split; [constructor|].
    + intros c Hc. cbn [s_inodes]. unfold ps_recs in Hc. cbn [s_dirs s_cur] in Hc.
      apply (ps_T1_mono isz (s_inodes st)); [exact HB|exact (TR c Hc)].
    + exact HD.
    + cbn [s_inodes]. intros c Hr Hi Hd k Hk. rewrite Hi in Hk. injection Hk as <-. rewrite Hr. fold e. fold dl. rewrite Hd.
      exists l0. split; [exact HA|]. split; [left; reflexivity|]. intros Hgt. lia.
Qed.

(* ---- one record, one extent, the walk -------------------------------------------------------------------- *)

Definition ps_key3 (c : prec) : drec * option nat * Z := (p_rec c, p_ino c, p_dlen c).

Lemma ps_track_members cur child last cur2 : ps_track cur child last = POk cur2 ->
  forall c2, In c2 cur2 -> exists c0, (c0 = child \/ In c0 cur) /\ ps_key3 c2 = ps_key3 c0.
Proof.
  unfold ps_track. cbv zeta.
  match goal with |- (if ?d then _ else _) = _ -> _ => destruct d end.
  - match goal with |- (if ?d then _ else _) = _ -> _ => destruct d end; discriminate.
  - intros H. injection H as <-. intros c2 Hc2.
    assert (Hk : forall l i n off c, In c (ps_renum i n off l) -> exists c0, In c0 l /\ ps_key3 c = ps_key3 c0).
    { induction l as [|x l IH]; intros i n off c Hc; [destruct Hc|]. cbn [ps_renum] in Hc. destruct Hc as [<-|Hc].
      - exists x. split; [left; reflexivity|reflexivity].
      - destruct (IH _ _ _ _ Hc) as (c0 & H0 & E). exists c0. split; [right; exact H0|exact E]. }
    unfold ps_recalc in Hc2. apply in_app_or in Hc2.
    assert (Hins : forall c0, In c0 (insert_at
               (ps_bisect (S (length cur)) (fun a => ps_lt (Codec.ident (p_rec a)) (Codec.ident (p_rec child))) cur 0 (length cur))
               child cur) -> c0 = child \/ In c0 cur).
    { intros c0 H0. unfold insert_at in H0. apply in_app_or in H0. destruct H0 as [H0|[H0|H0]].
      - right. eapply In_firstn. exact H0.
      - left. symmetry. exact H0.
      - right. eapply In_skipn. exact H0. }
    destruct Hc2 as [Hc2|Hc2].
    + exists c2. split; [apply Hins; eapply In_firstn; exact Hc2|reflexivity].
    + destruct (Hk _ _ _ _ _ Hc2) as (c0 & H0 & E). exists c0. split; [apply Hins; eapply In_skipn; exact H0|exact E].
Qed.

Lemma ps_T1_key3 isz inodes c c' : ps_key3 c' = ps_key3 c -> ps_T1 isz inodes c -> ps_T1 isz inodes c'.
Proof. unfold ps_key3. intros E. injection E as E1 E2 E3. apply ps_T1_ext; assumption. Qed.

Lemma ps_record_T ptr isz st last b st' last' : ps_T isz st ->
  ps_record ptr isz (st, last) b = POk (st', last') -> ps_T isz st'.
Proof.
  intros T. unfold ps_record.
  destruct (parse_dr b) as [r|]; [|discriminate].
  destruct (ps_outside (sysuse r) (znth 32 b)); [discriminate|].
  destruct (ps_is_dir r) eqn:Hd.
  - cbv beta iota zeta.
    match goal with |- context [if ?c then PInvalid 3 else _] => destruct c; [discriminate|] end.
    destruct (ps_track _ _ last) as [cur2| | |] eqn:Et; try discriminate.
    intros H. injection H as <- _. destruct T as [TR TE]. constructor; [|exact TE].
    cbn [s_inodes]. unfold ps_recs. cbn [s_dirs s_cur]. intros c Hc. apply in_app_or in Hc.
    destruct Hc as [Hc|Hc]; [apply TR; apply in_or_app; left; exact Hc|].
    destruct (ps_track_members _ _ _ _ Et c Hc) as (c0 & [->|H0] & E).
    + apply (ps_T1_key3 _ _ _ _ E). intros i Hi. discriminate Hi.
    + apply (ps_T1_key3 _ _ _ _ E). apply TR. apply in_or_app. right. exact H0.
  - destruct (ps_link isz st (extent r) (data_len r)) as [[i d] st1] eqn:El.
    destruct (ps_link_T isz st r i d st1 T El) as [[TR TE] Tnew].
    cbv beta iota zeta. cbn [andb]. cbv iota.
    destruct (ps_track _ _ last) as [cur2| | |] eqn:Et; try discriminate.
    match goal with |- match ?o with Some _ => _ | None => _ end = _ -> _ => destruct o; [|discriminate] end.
    intros H. injection H as <- _. constructor; [|exact TE].
    cbn [s_inodes]. unfold ps_recs. cbn [s_dirs s_cur]. intros c Hc. apply in_app_or in Hc.
    destruct Hc as [Hc|Hc]; [apply TR; apply in_or_app; left; exact Hc|].
    destruct (ps_track_members _ _ _ _ Et c Hc) as (c0 & [->|H0] & E).
    + apply (ps_T1_key3 _ _ _ _ E). apply Tnew; reflexivity.
    + apply (ps_T1_key3 _ _ _ _ E). apply TR. apply in_or_app. right. exact H0.
Qed.

Lemma ps_walk_T fixed rd ptr isz : forall fuel st st', ps_T isz st -> s_cur st = [] ->
  ps_walk fixed fuel rd ptr isz st = POk st' -> ps_T isz st' /\ s_cur st' = [].
Proof.
  induction fuel as [|f IH]; intros st st' T Hc; [discriminate|]. cbn [ps_walk].
  destruct (s_queue st) as [|[ext len] q]; [intros H; injection H as <-; split; assumption|].
  destruct (ps_enter fixed isz (s_seen st) ext len) as [w|sn]; [discriminate|].
  destruct (rd ext len) as [data|]; [|discriminate].
  destruct (ps_scan _ _ data 0 len _) as [[st2 l2]| | |] eqn:Es; try discriminate.
  apply IH; [|reflexivity].
  assert (T2 : ps_T isz st2).
  { apply (ps_scan_inv (ps_record ptr isz) (fun s => ps_T isz (fst s))
             (fun s b s' Hs H => ltac:(destruct s as [a l]; destruct s' as [a' l'];
                                       exact (ps_record_T ptr isz a l b a' l' Hs H)))
             _ _ _ _ _ (st2, l2)) in Es; [exact Es|].
    cbn [fst]. destruct T as [TR TE]. constructor; [|exact TE].
    unfold ps_recs in *. cbn [ps_begin_dir s_dirs s_cur s_inodes]. rewrite Hc in TR. exact TR. }
  destruct T2 as [TR TE]. constructor; [|exact TE].
  unfold ps_recs in *. cbn [ps_end_dir s_dirs s_cur s_inodes]. rewrite concat_app. cbn [concat].
  rewrite !app_nil_r. exact TR.
Qed.

(* ---- THEOREM ---------------------------------------------------------------------------------------------- *)
Theorem parse_truncation_lengths fuel img ptr isz re rl g :
  parse fuel img ptr isz re rl = POk g ->
  forall c i, In c (ps_all_recs g) -> p_ino c = Some i ->
  let e := ps_euse (p_rec c) in
  exists l, nth_error (g_inodes g) i = Some (e, l) /\
    (p_dlen c = data_len (p_rec c) \/ (p_dlen c = isz - e * BS /\ l = isz - e * BS)) /\
    (e * BS + data_len (p_rec c) > isz -> p_dlen c = isz - e * BS /\ l = isz - e * BS).
Proof.
  unfold parse, ps_parse, ps_parse_gen. destruct ptr as [|e0 pt]; [discriminate|].
  destruct (ps_walk true fuel (ms_img_read img) (e0 :: pt) isz (ps_init re rl)) as [st| | |] eqn:Ew; try discriminate.
  intros H. injection H as <-. intros c i Hc Hi.
  assert (T0 : ps_T isz (ps_init re rl)) by (constructor; [intros c0 []|intros x j Hx; discriminate Hx]).
  destruct (ps_walk_T true (ms_img_read img) (e0 :: pt) isz fuel _ st T0 eq_refl Ew) as [[TR _] Hcur].
  unfold ps_all_recs in Hc. cbn [g_dirs ps_graph g_inodes] in *.
  apply (TR c); [|exact Hi]. unfold ps_recs. rewrite Hcur, app_nil_r. exact Hc.
Qed.

Print Assumptions parse_truncation_lengths.
