(* C11 / C04 -- El Torito edit histories (Model/AccountBoot.v), part 2: the invariant BInv and its
   preservation by the tree operations (add_fp, add_directory, add_hard_link, rm_hard_link, rm_file,
   rm_directory).  add_eltorito / rm_eltorito: AccountBootInv2.v. *)
From Coq Require Import ZArith List Bool Lia ZifyBool Sorted Arith Permutation.
From PV.Base Require Import Prim.
From PV.Gen Require Import GenConst GenFun.
From PV.Model Require Import Names Checksums Pack Alloc Codec Eltorito Account AccountLinks AccountBoot.
From PV.Proofs Require Import PackProofs AllocProofs ChecksumsArithProofs AccountLemmas AccountProofs
     AccountLinksLemmas AccountLinksPurge AccountLinksInv EltoritoBuiltProofs AccountBootLemmas.
Import ListNotations.
Local Open Scope Z_scope.
Ltac Zify.zify_post_hook ::= Z.to_euclidean_division_equations.

(* ---- the invariant ------------------------------------------------------------------------------ *)

(* the catalog: it has at least one record in dirrecords, its records have no inode, it was built by
   new() and add_section(), one inode per entry *)
Definition cat_ok_of (bt : option boot) (nx : nat) (tbl : itable) : Prop :=
  match bt with
  | None => True
  | Some b =>
      cat_recs b <> [] /\
      (forall j, In j (cat_recs b) -> (j < nx)%nat /\ ~ In j (ids tbl)) /\
      (exists ab, built (bcat b) ab) /\
      length (binos b) = S (length (c_sections (bcat b)))
  end.

Definition boot2 (bt : option boot) : Z := match bt with Some _ => 2 | None => 0 end.

Record BInv (s : bstate) : Prop := {
  bi_space : lspace (bl s) = 19 + boot2 (bboot s) + 2 * lptr_ext (bl s)
                             + ltotal lw_dblk (lroot (bl s)) + tbl_sum (linodes (bl s));
  bi_root : lname (lroot (bl s)) = [0] /\ l_is_dir (lroot (bl s)) = true;
  bi_tree : lall_ok (lroot (bl s));
  bi_ptr : PtrInv (lptr_size (bl s)) (lptr_ext (bl s));
  bi_ptr_sum : lptr_size (bl s) = ltotal lw_ptr (lroot (bl s));
  (* self.inodes: distinct, every inode is referenced by a record or by an El Torito entry, and
     every El Torito entry's inode is there *)
  bi_live : live s;
  bi_fresh : forall i, (lnext (bl s) <= i)%nat ->
             lrefcount i (lroot (bl s)) = 0 /\ ~ In i (ids (linodes (bl s)));
  bi_cat : cat_ok_of (bboot s) (lnext (bl s)) (linodes (bl s));
  bi_len : Forall (fun e => 0 <= snd e <= max_len) (linodes (bl s))
}.

Lemma ab_boot2_has s : boot2 (bboot s) = if has_boot s then 2 else 0.
Proof. unfold boot2, has_boot. destruct (bboot s); reflexivity. Qed.

(* THE key equation *)
Theorem ab_inv_layout s : BInv s -> lspace (bl s) = blayout_end s.
Proof.
  intros HI. rewrite (ab_layout_end_closed s (bi_live s HI)), <- ab_boot2_has. apply (bi_space s HI).
Qed.

Theorem ab_init_ok : BInv binit.
Proof.
  constructor; cbn [binit bl bboot linit lroot linodes lnext lptr_size lptr_ext lspace boot2].
  - vm_compute. reflexivity.
  - split; reflexivity.
  - apply lall_ok_dir. split; [apply dir_ok_new|constructor].
  - destruct ptr_init as (_ & H & _). exact H.
  - vm_compute. reflexivity.
  - unfold live. cbn [binit bl bboot linit linodes erefs ids map]. split; [constructor|].
    split; [intros i []|]. intros i H. lia.
  - intros i _. split; [|intros []]. unfold lrefcount. rewrite ltotal_dir, ltotals_nil. reflexivity.
  - exact I.
  - constructor.
Qed.

(* the boot-info-table set and the wreck flag are not part of the invariant *)
Lemma ab_inv_bits s bits wr : BInv s ->
  BInv {| bl := bl s; bboot := bboot s; bbits := bits; bwreck := wr |}.
Proof. intros [H1 H2 H3 H4 H5 H6 H7 H8 H9]. constructor; assumption. Qed.

Lemma ab_found_dir s p dn dl kids : BInv s -> lsubtree p (lroot (bl s)) = Some (LDir dn dl kids) ->
  dir_ok dl (map lname kids) /\ Forall lall_ok kids.
Proof.
  intros HI H. apply (lall_ok_dir dn). eapply lsubtree_all_ok; [apply (bi_tree s HI)|exact H].
Qed.

(* ---- one generic update of the directory found at p ------------------------------------------------ *)

Lemma ab_update_inv s p dn dl kids dl' kids' ps' pe' sp' tbl' nx' bt' bits' wr' :
  BInv s -> lsubtree p (lroot (bl s)) = Some (LDir dn dl kids) ->
  lall_ok (LDir dn dl' kids') ->
  PtrInv ps' pe' ->
  ps' = lptr_size (bl s) + (ltotals lw_ptr kids' - ltotals lw_ptr kids) ->
  sp' = lspace (bl s) + 2 * (pe' - lptr_ext (bl s)) + (blocks_of dl' - blocks_of dl)
        + (ltotals lw_dblk kids' - ltotals lw_dblk kids) + (tbl_sum tbl' - tbl_sum (linodes (bl s)))
        + (boot2 bt' - boot2 (bboot s)) ->
  NoDup (ids tbl') ->
  (forall i, In i (ids tbl') ->
     0 < lrefcount i (lroot (bl s)) + (ltotals (lw_ref i) kids' - ltotals (lw_ref i) kids) + erefs i bt') ->
  (forall i, 0 < erefs i bt' -> In i (ids tbl')) ->
  (forall i, (nx' <= i)%nat ->
     lrefcount i (lroot (bl s)) + (ltotals (lw_ref i) kids' - ltotals (lw_ref i) kids) <= 0 /\
     ~ In i (ids tbl')) ->
  cat_ok_of bt' nx' tbl' ->
  Forall (fun e => 0 <= snd e <= max_len) tbl' ->
  BInv {| bl := {| lroot := lreplace p (LDir dn dl' kids') (lroot (bl s)); linodes := tbl'; lnext := nx';
                   lptr_size := ps'; lptr_ext := pe'; lspace := sp' |};
          bboot := bt'; bbits := bits'; bwreck := wr' |}.
Proof.
  intros HI Hsub Hok Hptr Hps Hsp HN HL HE HFr HC HLen.
  constructor; cbn [bl bboot lroot linodes lnext lptr_size lptr_ext lspace].
  - rewrite (ltotal_replace _ p _ _ _ Hsub), !ltotal_dir.
    pose proof (bi_space s HI) as E.
    change (lw_dblk (LDir dn ?d [])) with (blocks_of d). lia.
  - destruct (bi_root s HI) as [Hn Hd]. split.
    + rewrite (lreplace_name p _ _ _ Hsub); [exact Hn|reflexivity].
    + rewrite (lreplace_is_dir p _ _ _ Hsub); [exact Hd|reflexivity].
  - apply (lall_ok_replace p _ _ _ Hsub); [reflexivity|apply (bi_tree s HI)|exact Hok].
  - exact Hptr.
  - rewrite (ltotal_replace _ p _ _ _ Hsub), !ltotal_dir, Hps, (bi_ptr_sum s HI).
    change (lw_ptr (LDir dn ?d [])) with (ptr_record_length (zlen dn)). lia.
  - split; [exact HN|]. unfold live; cbn [bl bboot lroot linodes]. split.
    + intros i Hi. rewrite (lrefcount_replace i p _ _ _ _ _ _ Hsub). apply HL, Hi.
    + exact HE.
  - intros i Hi. destruct (HFr i Hi) as [H1 H2]. split; [|exact H2].
    pose proof (lrefcount_nonneg i (lreplace p (LDir dn dl' kids') (lroot (bl s)))) as N.
    rewrite (lrefcount_replace i p _ _ _ _ _ _ Hsub) in *. lia.
  - exact HC.
  - exact HLen.
Qed.

(* ---- adding a record (add_fp, add_hard_link, the catalog's names) ------------------------------------ *)

Lemma ab_add_record_inv s dirp nm ino tbl extra bt' bits' wr' :
  BInv s -> snd (add_record (bl s) dirp nm ino tbl extra) = true ->
  tbl_sum tbl + boot2 bt' = tbl_sum (linodes (bl s)) + boot2 (bboot s) + blocks_of extra ->
  NoDup (ids tbl) ->
  (forall j, In j (ids tbl) ->
     0 < lrefcount j (lroot (bl s)) + lw_ref j (LFile nm ino (lnext (bl s))) + erefs j bt') ->
  (forall j, 0 < erefs j bt' -> In j (ids tbl)) ->
  (ino <= lnext (bl s))%nat ->
  (forall j, (S (lnext (bl s)) <= j)%nat -> ~ In j (ids tbl)) ->
  cat_ok_of bt' (S (lnext (bl s))) tbl ->
  Forall (fun e => 0 <= snd e <= max_len) tbl ->
  BInv {| bl := fst (add_record (bl s) dirp nm ino tbl extra); bboot := bt'; bbits := bits'; bwreck := wr' |}.
Proof.
  intros HI Hacc Hsum HN HL HE Hino HFr HC HLen. revert Hacc. unfold add_record, lrefuse. cbv zeta.
  destruct (too_deep dirp); [discriminate|].
  destruct (lsubtree dirp (lroot (bl s))) as [[fn fi fs|dn dl kids]|] eqn:Hsub; try discriminate.
  destruct (check_iso9660_filename nm 3) eqn:Hchk; try discriminate.
  destruct (dr_len_of nm >? 255) eqn:Hx; [discriminate|].
  destruct (llookup nm kids) as [[k c]|] eqn:Hl; [discriminate|].
  intros _. cbn [fst]. destruct (ab_found_dir s dirp dn dl kids HI Hsub) as [Hd HF].
  assert (Hnm : name_ok nm) by (apply name_ok_of; [apply file_name_nonempty, Hchk|exact Hx]).
  unfold ldir_st. set (names := map lname kids) in *.
  apply (ab_update_inv s dirp dn dl kids _ _ _ _ _ _ _ _ _ _ HI Hsub).
  - apply lall_ok_dir. split.
    + rewrite map_insert_at. cbn [lname]. fold names.
      apply dir_ok_add; [exact Hd|exact Hnm|apply llookup_none, Hl].
    + apply Forall_insert_at; [exact HF|exact I].
  - apply (bi_ptr s HI).
  - rewrite ltotals_insert_at, ltotal_file. cbn [lw_ptr]. lia.
  - rewrite !ltotals_insert_at, ltotal_file, dlen_add. cbn [lw_dblk st_of dlen].
    destruct (grow_cases (add_overflows (st_of dl names) (2 + pos nm names) (dr_len_of nm))) as [E|E];
      rewrite E; unfold blocks_of, ceiling_div, C in *; lia.
  - exact HN.
  - intros j Hj. rewrite ltotals_insert_at, ltotal_file. specialize (HL j Hj). lia.
  - exact HE.
  - intros j Hj. split; [|apply HFr, Hj]. rewrite ltotals_insert_at, ltotal_file, lw_ref_file.
    destruct (bi_fresh s HI j) as [H0 _]; [lia|]. destruct (Nat.eqb_spec ino j); lia.
  - exact HC.
  - exact HLen.
Qed.

Lemma ab_cat_ok_weaken bt nx tbl : cat_ok_of bt nx tbl -> cat_ok_of bt (S nx) tbl.
Proof.
  destruct bt as [b|]; [|trivial]. intros (H1 & H2 & H3 & H4). split; [exact H1|].
  split; [|split; assumption]. intros j Hj. destruct (H2 j Hj). split; [lia|assumption].
Qed.

Lemma ab_add_file_inv s dirp nm len : BInv s -> BInv (fst (lift s (lstep_add_file (bl s) dirp nm len))).
Proof.
  intros HI. unfold lift. destruct (snd (lstep_add_file (bl s) dirp nm len)) eqn:Hacc; [|exact HI].
  cbn [fst]. revert Hacc. unfold lstep_add_file, lrefuse, with_l.
  destruct (negb ((0 <=? len) && (len <=? max_len))) eqn:Hr; [discriminate|]. intros Hacc.
  destruct (bi_live s HI) as (HN & HL & HE).
  destruct (bi_fresh s HI (lnext (bl s)) (Nat.le_refl _)) as [Hf0 Hfr].
  apply ab_add_record_inv; try assumption.
  - rewrite tbl_sum_app. unfold tbl_sum at 2. cbn. lia.
  - unfold ids. rewrite map_app. cbn [map fst]. apply NoDup_snoc; assumption.
  - intros j. unfold ids. rewrite map_app, in_app_iff. cbn [map fst In]. fold (ids (linodes (bl s))).
    rewrite lw_ref_file. pose proof (ab_erefs_nonneg j (bboot s)). pose proof (lrefcount_nonneg j (lroot (bl s))).
    destruct (Nat.eqb_spec (lnext (bl s)) j); intros [H1|[H1|[]]]; try lia; specialize (HL j H1); lia.
  - intros j Hj. unfold ids. rewrite map_app, in_app_iff. left. apply HE, Hj.
  - lia.
  - intros j Hj. unfold ids. rewrite map_app, in_app_iff. cbn [map fst In].
    intros [H|[H|[]]]; [destruct (bi_fresh s HI j) as [_ H']; [lia|tauto]|lia].
  - pose proof (ab_cat_ok_weaken _ _ _ (bi_cat s HI)) as HC. pose proof (bi_cat s HI) as HC0.
    destruct (bboot s) as [b|]; [|exact I]. destruct HC as (C1 & C2 & C3 & C4).
    split; [exact C1|]. split; [|split; assumption]. intros j Hj. destruct (C2 j Hj) as [Hlt Hn].
    split; [exact Hlt|]. unfold ids. rewrite map_app, in_app_iff. cbn [map fst In].
    intros [H|[H|[]]]; [tauto|]. destruct HC0 as (_ & C2' & _). destruct (C2' j Hj). lia.
  - apply Forall_app. split; [apply (bi_len s HI)|]. constructor; [cbn [snd]; lia|constructor].
Qed.

(* a record that shares an existing inode, or a record without inode (ino = lnext, not in the table) *)
Lemma ab_add_name_inv s dirp nm ino bt' bits' wr' :
  BInv s -> snd (add_record (bl s) dirp nm ino (linodes (bl s)) 0) = true ->
  (ino <= lnext (bl s))%nat ->
  boot2 bt' = boot2 (bboot s) ->
  (forall j, erefs j bt' = erefs j (bboot s)) ->
  cat_ok_of bt' (S (lnext (bl s))) (linodes (bl s)) ->
  BInv {| bl := fst (add_record (bl s) dirp nm ino (linodes (bl s)) 0); bboot := bt'; bbits := bits'; bwreck := wr' |}.
Proof.
  intros HI Hacc Hino Hb2 Her HC. destruct (bi_live s HI) as (HN & HL & HE).
  apply ab_add_record_inv; try assumption.
  - rewrite blocks_of_0. lia.
  - intros j Hj. rewrite Her. specialize (HL j Hj). pose proof (lw_ref_nonneg j (LFile nm ino (lnext (bl s)))). lia.
  - intros j. rewrite Her. apply HE.
  - intros j Hj. destruct (bi_fresh s HI j) as [_ H']; [lia|exact H'].
  - apply (bi_len s HI).
Qed.

Lemma ab_add_cat_name_inv s b dirp nm : BInv s -> bboot s = Some b -> BInv (fst (add_cat_name s b dirp nm)).
Proof.
  intros HI Hb. unfold add_cat_name, brefuse. cbv zeta.
  destruct (snd (add_record (bl s) dirp nm (lnext (bl s)) (linodes (bl s)) 0)) eqn:Hacc; [|exact HI].
  cbn [fst]. apply ab_add_name_inv; [exact HI|exact Hacc|lia|rewrite Hb; reflexivity|rewrite Hb; reflexivity|].
  pose proof (bi_cat s HI) as HC. rewrite Hb in HC. destruct HC as (C1 & C2 & C3 & C4).
  cbn [cat_ok_of cat_recs bcat binos]. split; [destruct (cat_recs b); [tauto|discriminate]|].
  split; [|split; assumption]. intros j Hj. apply in_app_or in Hj.
  destruct Hj as [Hj|[<-|[]]].
  - destruct (C2 j Hj). split; [lia|assumption].
  - split; [lia|]. destruct (bi_fresh s HI (lnext (bl s))) as [_ H]; [lia|exact H].
Qed.

Lemma ab_add_link_inv fx s src dirp nm : BInv s -> BInv (fst (bstep_add_link fx s src dirp nm)).
Proof.
  intros HI. unfold bstep_add_link, brefuse, lift, with_l.
  destruct (lsubtree src (lroot (bl s))) as [[on i ost|on odl okids]|] eqn:Hsrc; try exact HI.
  assert (Hi : (i < lnext (bl s))%nat).
  { destruct (le_lt_dec (lnext (bl s)) i) as [H|H]; [|exact H].
    destruct (bi_fresh s HI i H) as [H0 _]. pose proof (lsubtree_ref i src _ _ _ Hsrc). lia. }
  assert (Hplain : forall ino, (ino <= lnext (bl s))%nat ->
    BInv (fst (if snd (add_record (bl s) dirp nm ino (linodes (bl s)) 0)
               then ({| bl := fst (add_record (bl s) dirp nm ino (linodes (bl s)) 0); bboot := bboot s;
                        bbits := bbits s; bwreck := bwreck s |}, Acc)
               else (s, Ref)))).
  { intros ino Hino. destruct (snd (add_record (bl s) dirp nm ino (linodes (bl s)) 0)) eqn:Hacc; [|exact HI].
    cbn [fst]. apply ab_add_name_inv; [exact HI|exact Hacc|exact Hino|reflexivity|reflexivity|
                                       apply ab_cat_ok_weaken, (bi_cat s HI)]. }
  destruct (has_ino i (linodes (bl s))); [apply Hplain; lia|].
  destruct (bboot s) as [b|] eqn:Hb; [|apply Hplain; lia].
  destruct (fx && mem i (cat_recs b)); [apply ab_add_cat_name_inv; assumption|].
  apply Hplain. lia.
Qed.

Lemma ab_add_cat_link_inv s dirp nm : BInv s -> BInv (fst (bstep_add_cat_link s dirp nm)).
Proof.
  intros HI. unfold bstep_add_cat_link, brefuse.
  destruct (bboot s) as [b|] eqn:Hb; [|exact HI].
  destruct (cat_recs b) as [|c0 cr] eqn:Hc; [exact HI|]. apply ab_add_cat_name_inv; assumption.
Qed.

(* ---- add_directory / rm_directory --------------------------------------------------------------------- *)

Lemma ab_add_dir_inv s parent nm : BInv s -> BInv (fst (lift s (lstep_add_dir (bl s) parent nm))).
Proof.
  intros HI. unfold lift. destruct (snd (lstep_add_dir (bl s) parent nm)) eqn:Hacc; [|exact HI].
  cbn [fst]. revert Hacc. unfold lstep_add_dir, lrefuse, with_l. cbv zeta.
  destruct (too_deep parent); [discriminate|].
  destruct (lsubtree parent (lroot (bl s))) as [[fn fi fs|dn dl kids]|] eqn:Hsub; try discriminate.
  destruct (check_iso9660_directory nm 3) eqn:Hchk; try discriminate.
  destruct (dr_len_of nm >? 255) eqn:Hx; [discriminate|].
  destruct (llookup nm kids) as [[k c]|] eqn:Hl; [discriminate|].
  destruct (ab_found_dir s parent dn dl kids HI Hsub) as [Hd HF].
  assert (Hnm : name_ok nm) by (apply name_ok_of; [apply dir_name_nonempty, Hchk|exact Hx]).
  pose proof (add_to_ptr_size_inv _ _ _ (bi_ptr s HI) (name_ok_ptr nm Hnm)) as Hp.
  destruct (add_to_ptr_size (lptr_size (bl s)) (lptr_ext (bl s)) (ptr_record_length (zlen nm))) as [[b ps] pe].
  destruct Hp as (Hp1 & Hp2 & Hp3 & Hp4). destruct (bi_live s HI) as (HN & HL & HE).
  intros _. cbn [fst]. unfold ldir_st. set (names := map lname kids) in *.
  apply (ab_update_inv s parent dn dl kids _ _ _ _ _ _ _ _ _ _ HI Hsub).
  - apply lall_ok_dir. split.
    + rewrite map_insert_at. cbn [lname]. fold names.
      apply dir_ok_add; [exact Hd|exact Hnm|apply llookup_none, Hl].
    + apply Forall_insert_at; [exact HF|]. apply lall_ok_dir. split; [apply dir_ok_new|constructor].
  - exact Hp1.
  - rewrite ltotals_insert_at, ltotal_leaf_dir. cbn [lw_ptr]. lia.
  - rewrite !ltotals_insert_at, !ltotal_leaf_dir, dlen_add. cbn [lw_dblk st_of dlen].
    destruct (grow_cases (add_overflows (st_of dl names) (2 + pos nm names) (dr_len_of nm))) as [E|E];
      rewrite E; destruct b; unfold blocks_of, ceiling_div, C; lia.
  - exact HN.
  - intros j Hj. rewrite ltotals_insert_at, ltotal_leaf_dir. change (lw_ref j (LDir nm C [])) with 0.
    specialize (HL j Hj). lia.
  - exact HE.
  - intros j Hj. rewrite ltotals_insert_at, ltotal_leaf_dir. change (lw_ref j (LDir nm C [])) with 0.
    destruct (bi_fresh s HI j Hj). split; [lia|assumption].
  - apply (bi_cat s HI).
  - apply (bi_len s HI).
Qed.

Lemma ab_rm_dir_ptr_ok s q dn dl kids k cn cdl ckids :
  BInv s -> lsubtree q (lroot (bl s)) = Some (LDir dn dl kids) ->
  nth_error kids k = Some (LDir cn cdl ckids) ->
  exists b pe,
    remove_from_ptr_size (lptr_size (bl s)) (lptr_ext (bl s)) (ptr_record_length (zlen cn)) =
      Some (b, lptr_size (bl s) - ptr_record_length (zlen cn), pe) /\
    PtrInv (lptr_size (bl s) - ptr_record_length (zlen cn)) pe /\
    (pe = lptr_ext (bl s) \/ pe = lptr_ext (bl s) - 2) /\ (b = true <-> pe <> lptr_ext (bl s)).
Proof.
  intros HI Hsub Hk. destruct (ab_found_dir s q dn dl kids HI Hsub) as [(_ & _ & Hn) _].
  assert (Hcn : name_ok cn).
  { rewrite Forall_forall in Hn. apply Hn.
    change cn with (lname (LDir cn cdl ckids)). apply in_map. eapply nth_error_In. exact Hk. }
  apply remove_from_ptr_size_inv; [apply (bi_ptr s HI)|apply name_ok_ptr, Hcn|].
  rewrite (bi_ptr_sum s HI).
  pose proof (ltotal_replace lw_ptr q (lroot (bl s)) (LDir dn dl (remove_at k kids)) _ Hsub) as E.
  pose proof (ltotal_nonneg lw_ptr lw_ptr_nonneg (lreplace q (LDir dn dl (remove_at k kids)) (lroot (bl s)))) as N.
  rewrite !ltotal_dir, (ltotals_remove_at _ kids k _ Hk), ltotal_dir in E.
  pose proof (ltotals_nonneg lw_ptr lw_ptr_nonneg ckids) as N'.
  change (lw_ptr (LDir cn cdl [])) with (ptr_record_length (zlen cn)) in E. lia.
Qed.

Lemma ab_rm_dir_inv s p : BInv s -> BInv (fst (lift s (lstep_rm_dir (bl s) p))).
Proof.
  intros HI. unfold lift. destruct (snd (lstep_rm_dir (bl s) p)) eqn:Hacc; [|exact HI].
  cbn [fst]. revert Hacc. unfold lstep_rm_dir, lrefuse, with_l. cbv zeta.
  destruct (unsnoc p) as [[q y]|]; [|discriminate].
  destruct (lsubtree q (lroot (bl s))) as [[fn fi fs|dn dl kids]|] eqn:Hsub; try discriminate.
  destruct (llookup y kids) as [[k [cn ci cs|cn cdl [|c0 ckids]]]|] eqn:Hl; try discriminate.
  apply llookup_spec in Hl. destruct Hl as (Hk & _ & _).
  destruct (ab_rm_dir_ptr_ok s q dn dl kids k cn cdl [] HI Hsub Hk) as (b & pe & Hr & Hp1 & Hp3 & Hp4).
  rewrite Hr. destruct (ab_found_dir s q dn dl kids HI Hsub) as [Hd HF].
  destruct (bi_live s HI) as (HN & HL & HE).
  intros _. cbn [fst]. unfold ldir_st. set (names := map lname kids) in *.
  apply (ab_update_inv s q dn dl kids _ _ _ _ _ _ _ _ _ _ HI Hsub).
  - apply lall_ok_dir. split.
    + rewrite map_remove_at. fold names. apply dir_ok_remove, Hd.
    + apply Forall_remove_at, HF.
  - exact Hp1.
  - rewrite (ltotals_remove_at _ kids k _ Hk), ltotal_leaf_dir. cbn [lw_ptr]. lia.
  - rewrite !(ltotals_remove_at _ kids k _ Hk), !ltotal_leaf_dir, dlen_remove.
    cbn [lw_dblk st_of dlen].
    destruct (grow_cases (rm_underflows (st_of dl names) (2 + k))) as [E|E];
      rewrite E; destruct b; unfold blocks_of, ceiling_div, C; lia.
  - exact HN.
  - intros j Hj. rewrite (ltotals_remove_at _ kids k _ Hk), ltotal_leaf_dir.
    change (lw_ref j (LDir cn cdl [])) with 0. specialize (HL j Hj). lia.
  - exact HE.
  - intros j Hj. rewrite (ltotals_remove_at _ kids k _ Hk), ltotal_leaf_dir.
    change (lw_ref j (LDir cn cdl [])) with 0. destruct (bi_fresh s HI j Hj). split; [lia|assumption].
  - apply (bi_cat s HI).
  - apply (bi_len s HI).
Qed.

(* ---- removing one record (rm_hard_link, rm_file on a record without inode) ---------------------------- *)

Lemma ab_rm_record_inv s dirp dn dl kids k cn ino st tbl data bt' bits' wr' :
  BInv s -> lsubtree dirp (lroot (bl s)) = Some (LDir dn dl kids) ->
  nth_error kids k = Some (LFile cn ino st) ->
  tbl_sum tbl = tbl_sum (linodes (bl s)) - blocks_of data ->
  boot2 bt' = boot2 (bboot s) ->
  NoDup (ids tbl) ->
  (forall j, In j (ids tbl) ->
     0 < lrefcount j (lroot (bl s)) - lw_ref j (LFile cn ino st) + erefs j bt') ->
  (forall j, 0 < erefs j bt' -> In j (ids tbl)) ->
  (forall j, In j (ids tbl) -> In j (ids (linodes (bl s)))) ->
  cat_ok_of bt' (lnext (bl s)) tbl ->
  Forall (fun e => 0 <= snd e <= max_len) tbl ->
  BInv {| bl := rm_record (bl s) dirp dn dl kids k tbl data; bboot := bt'; bbits := bits'; bwreck := wr' |}.
Proof.
  intros HI Hsub Hk Hsum Hb2 HN HL HE Hsubset HC HLen. unfold rm_record. cbv zeta.
  destruct (ab_found_dir s dirp dn dl kids HI Hsub) as [Hd HF].
  unfold ldir_st. set (names := map lname kids) in *.
  apply (ab_update_inv s dirp dn dl kids _ _ _ _ _ _ _ _ _ _ HI Hsub).
  - apply lall_ok_dir. split.
    + rewrite map_remove_at. fold names. apply dir_ok_remove, Hd.
    + apply Forall_remove_at, HF.
  - apply (bi_ptr s HI).
  - rewrite (ltotals_remove_at _ kids k _ Hk), ltotal_file. cbn [lw_ptr]. lia.
  - rewrite !(ltotals_remove_at _ kids k _ Hk), ltotal_file, dlen_remove, Hsum.
    cbn [lw_dblk st_of dlen].
    destruct (grow_cases (rm_underflows (st_of dl names) (2 + k))) as [E|E];
      rewrite E; unfold blocks_of, ceiling_div, C; lia.
  - exact HN.
  - intros j Hj. rewrite (ltotals_remove_at _ kids k _ Hk), ltotal_file. specialize (HL j Hj). lia.
  - exact HE.
  - intros j Hj. rewrite (ltotals_remove_at _ kids k _ Hk), ltotal_file.
    destruct (bi_fresh s HI j Hj) as [H0 Hn]. pose proof (lw_ref_nonneg j (LFile cn ino st)) as Hw.
    split; [lia|]. intros Hin. apply Hn, Hsubset, Hin.
  - exact HC.
  - exact HLen.
Qed.

Lemma ab_erefs_forget j i bt : erefs j (forget i bt) = erefs j bt.
Proof.
  destruct bt as [b|]; [|reflexivity]. cbn [forget].
  destruct (mem i (cat_recs b) && (1 <? Z.of_nat (length (cat_recs b)))); reflexivity.
Qed.

Lemma ab_boot2_forget i bt : boot2 (forget i bt) = boot2 bt.
Proof.
  destruct bt as [b|]; [|reflexivity]. cbn [forget].
  destruct (mem i (cat_recs b) && (1 <? Z.of_nat (length (cat_recs b)))); reflexivity.
Qed.

Lemma ab_remove1_in i : forall l j, In j (remove1 i l) -> In j l.
Proof.
  induction l as [|a r IH]; intros j; cbn [remove1 In]; [tauto|].
  destruct (Nat.eqb a i); cbn [In]; [tauto|]. intros [H|H]; [tauto|right; apply IH, H].
Qed.

Lemma ab_remove1_length i : forall l, (length l <= S (length (remove1 i l)))%nat.
Proof. induction l as [|a r IH]; cbn [remove1 length]; [lia|]. destruct (Nat.eqb a i); cbn [length]; lia. Qed.

Lemma ab_cat_ok_forget i bt nx tbl tbl' :
  cat_ok_of bt nx tbl -> (forall j, In j (ids tbl') -> In j (ids tbl)) -> cat_ok_of (forget i bt) nx tbl'.
Proof.
  destruct bt as [b|]; [|trivial]. intros (C1 & C2 & C3 & C4) Hsub. cbn [forget].
  destruct (mem i (cat_recs b) && (1 <? Z.of_nat (length (cat_recs b)))) eqn:E; cbn [cat_ok_of cat_recs bcat binos].
  - apply andb_prop in E. destruct E as [_ E]. apply Z.ltb_lt in E.
    split; [|split; [|split; assumption]].
    + pose proof (ab_remove1_length i (cat_recs b)). destruct (remove1 i (cat_recs b)); [cbn [length] in *; lia|discriminate].
    + intros j Hj. apply ab_remove1_in in Hj. destruct (C2 j Hj) as [Hlt Hn]. split; [exact Hlt|].
      intros H. apply Hn, Hsub, H.
  - split; [exact C1|]. split; [|split; assumption]. intros j Hj. destruct (C2 j Hj) as [Hlt Hn].
    split; [exact Hlt|]. intros H. apply Hn, Hsub, H.
Qed.

Lemma ab_rm_record_root l dirp dn dl kids k tbl data :
  lroot (rm_record l dirp dn dl kids k tbl data) =
  lreplace dirp (LDir dn (dlen (dir_remove C (ldir_st dl kids) (2 + k))) (remove_at k kids)) (lroot l).
Proof. reflexivity. Qed.

Lemma ab_rm_link_inv s dirp nm : BInv s -> BInv (fst (bstep_rm_link s dirp nm)).
Proof.
  intros HI. unfold bstep_rm_link, brefuse. cbv zeta.
  destruct (lsubtree dirp (lroot (bl s))) as [[fn fi fs|dn dl kids]|] eqn:Hsub; try exact HI.
  destruct (llookup nm kids) as [[k [cn i st|cn cdl ckids]]|] eqn:Hl; try exact HI.
  apply llookup_spec in Hl. destruct Hl as (Hk & _ & _).
  destruct (bi_live s HI) as (HN & HL & HE). cbn [fst].
  rewrite ab_rm_record_root.
  rewrite (rm_record_refcount i (bl s) dirp dn dl kids k _ _ Hsub Hk), ltotal_file, lw_ref_file, Nat.eqb_refl.
  pose proof (ab_erefs_nonneg i (bboot s)) as Hq.
  assert (Hrc : 0 <= lrefcount i (lroot (bl s)) - 1).
  { pose proof (lrefcount_nonneg i (lreplace dirp (LDir dn dl (remove_at k kids)) (lroot (bl s)))) as N.
    rewrite (rm_record_refcount i (bl s) dirp dn dl kids k _ _ Hsub Hk), ltotal_file, lw_ref_file, Nat.eqb_refl in N.
    exact N. }
  destruct (has_ino i (linodes (bl s)) && (lrefcount i (lroot (bl s)) - 1 + erefs i (bboot s) =? 0)) eqn:Hlast.
  - apply andb_prop in Hlast. destruct Hlast as [Hin Hz]. apply Z.eqb_eq in Hz.
    destruct (ids_del i (linodes (bl s)) HN) as (D1 & D2 & D3).
    apply (ab_rm_record_inv s dirp dn dl kids k cn i st); try assumption.
    + rewrite tbl_sum_del. lia.
    + apply ab_boot2_forget.
    + intros j Hj. rewrite ab_erefs_forget, lw_ref_file. destruct (Nat.eqb_spec i j) as [<-|Hne]; [tauto|].
      apply D3 in Hj; [|congruence]. specialize (HL j Hj). lia.
    + intros j. rewrite ab_erefs_forget. intros Hj. destruct (Nat.eq_dec j i) as [->|Hne]; [lia|].
      apply D3; [exact Hne|apply HE, Hj].
    + intros j. apply ids_del_in.
    + apply (ab_cat_ok_forget i _ _ _ _ (bi_cat s HI)). intros j. apply ids_del_in.
    + apply Forall_del, (bi_len s HI).
  - apply (ab_rm_record_inv s dirp dn dl kids k cn i st); try assumption.
    + rewrite blocks_of_0. lia.
    + apply ab_boot2_forget.
    + intros j Hj. rewrite ab_erefs_forget, lw_ref_file. destruct (Nat.eqb_spec i j) as [<-|Hne].
      * apply ab_has_ino_in in Hj. rewrite Hj in Hlast. cbn [andb] in Hlast. apply Z.eqb_neq in Hlast. lia.
      * specialize (HL j Hj). lia.
    + intros j. rewrite ab_erefs_forget. apply HE.
    + tauto.
    + apply (ab_cat_ok_forget i _ _ _ _ (bi_cat s HI)). tauto.
    + apply (bi_len s HI).
Qed.

(* ---- rm_file ------------------------------------------------------------------------------------------- *)

Lemma ab_purge_state_inv s i : BInv s -> erefs i (bboot s) = 0 ->
  BInv {| bl := {| lroot := purge_node i (lroot (bl s)); linodes := del_ino i (linodes (bl s));
                   lnext := lnext (bl s); lptr_size := lptr_size (bl s); lptr_ext := lptr_ext (bl s);
                   lspace := lspace (bl s) -
                             ceiling_div (purge_bytes i (lroot (bl s)) + len_of i (linodes (bl s))) C |};
          bboot := bboot s; bbits := bbits s; bwreck := bwreck s |}.
Proof.
  intros HI He. destruct (bi_live s HI) as (HN & HL & HE). destruct (bi_root s HI) as [Hn Hd].
  destruct (ids_del i (linodes (bl s)) HN) as (D1 & D2 & D3).
  constructor; cbn [bl bboot lroot linodes lnext lptr_size lptr_ext lspace].
  - pose proof (purge_dblk i (lroot (bl s))) as E. pose proof (bi_space s HI) as E'.
    rewrite tbl_sum_del. unfold blocks_of, ceiling_div, C in *. lia.
  - rewrite lname_purge, ab_purge_is_dir. split; assumption.
  - apply purge_all_ok, (bi_tree s HI).
  - apply (bi_ptr s HI).
  - rewrite purge_ptr. apply (bi_ptr_sum s HI).
  - split; [exact D1|]. unfold live; cbn [bl bboot lroot linodes]. split.
    + intros j Hj. destruct (Nat.eq_dec j i) as [->|Hne]; [tauto|].
      rewrite (purge_refcount_other i j _ Hne). apply HL, D3; assumption.
    + intros j Hj. destruct (Nat.eq_dec j i) as [->|Hne]; [lia|]. apply D3; [exact Hne|apply HE, Hj].
  - intros j Hj. destruct (bi_fresh s HI j Hj) as [H0 Hnin]. split.
    + destruct (Nat.eq_dec j i) as [->|Hne]; [apply purge_refcount_self, Hd|].
      rewrite (purge_refcount_other i j _ Hne). exact H0.
    + intros H. apply Hnin, (ids_del_in j i), H.
  - pose proof (bi_cat s HI) as HC. destruct (bboot s) as [b|]; [|exact I].
    destruct HC as (C1 & C2 & C3 & C4). split; [exact C1|]. split; [|split; assumption].
    intros j Hj. destruct (C2 j Hj) as [Hlt Hnj]. split; [exact Hlt|]. intros H. apply Hnj, (ids_del_in j i), H.
  - apply Forall_del, (bi_len s HI).
Qed.

Lemma ab_rm_file_inv s dirp nm : BInv s -> BInv (fst (bstep_rm_file s dirp nm)).
Proof.
  intros HI. unfold bstep_rm_file, brefuse. cbv zeta.
  destruct (lsubtree dirp (lroot (bl s))) as [[fn fi fs|dn dl kids]|] eqn:Hsub; try exact HI.
  destruct (llookup nm kids) as [[k [cn i st|cn cdl ckids]]|] eqn:Hl; try exact HI.
  destruct (in_cat i (bboot s)); [exact HI|].
  destruct (has_ino i (linodes (bl s))) eqn:Hin.
  - destruct (0 <? erefs i (bboot s)) eqn:Her; [exact HI|]. apply Z.ltb_ge in Her.
    pose proof (ab_erefs_nonneg i (bboot s)) as Hq.
    unfold lift, lstep_rm_file, with_l. rewrite Hsub, Hl. cbn [snd fst].
    apply ab_purge_state_inv; [exact HI|lia].
  - cbn [fst]. unfold with_l. apply llookup_spec in Hl. destruct Hl as (Hk & _ & _).
    destruct (bi_live s HI) as (HN & HL & HE).
    assert (Hnin : ~ In i (ids (linodes (bl s)))).
    { intros H. apply ab_has_ino_in in H. congruence. }
    apply (ab_rm_record_inv s dirp dn dl kids k cn i st); try assumption.
    + rewrite blocks_of_0. lia.
    + reflexivity.
    + intros j Hj. rewrite lw_ref_file. destruct (Nat.eqb_spec i j) as [<-|Hne]; [tauto|].
      specialize (HL j Hj). lia.
    + tauto.
    + apply (bi_cat s HI).
    + apply (bi_len s HI).
Qed.

Print Assumptions ab_init_ok.
Print Assumptions ab_inv_layout.
Print Assumptions ab_rm_link_inv.
Print Assumptions ab_rm_file_inv.
