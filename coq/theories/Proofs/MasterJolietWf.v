(* MasterJoliet, part 1: positions in a tree of records (AccountLinks.lnode) and what mj_tree_ok says.
     mj_subtree_dtree      mj_node_at against PathTable.subtree of the walk over every record
     mj_node_at_snoc(_inv) children, mj_parent_dir: the directory above
     mj_ok_at / mj_ok_dir / mj_ok_kid_name   mj_tree_ok is inherited; one directory; names
     mj_blocks_ok          block counts of the walk are non-negative
     mj_tree_blocks        the walk takes ltotal lw_dblk extents (the closed form of AccountNs)
     mj_of_lall_ok         the invariant of AccountNs (lall_ok) implies mj_tree_ok *)
From Coq Require Import ZArith List Bool Lia ZifyBool Sorted.
From PV.Base Require Import Prim ListX.
From PV.Gen Require Import GenConst GenFun.
From PV.Model Require Import Codec Pack PathTable Master MasterJoliet.
From PV.Model Require Alloc Account AccountLinks AccountNs.
From PV.Proofs Require Import CodecProofs PackProofs PathTableLemmas PathTableProofs.
From PV.Proofs Require AccountLemmas AccountLinksLemmas.
From PV.Proofs Require Import MasterPack MasterBfs MasterWf.
Import ListNotations.
Local Open Scope Z_scope.
Ltac Zify.zify_post_hook ::= Z.to_euclidean_division_equations.

Notation lkids := AccountLinks.lkids.
Notation lname := AccountLinks.lname.

(* ---- positions ---------------------------------------------------------------------------------- *)

Lemma mj_tkids_dtree n : tkids (mj_dtree n) = map mj_dtree (lkids n).
Proof. destruct n; reflexivity. Qed.

Lemma mj_subtree_dtree p : forall n, subtree (mj_dtree n) p = option_map mj_dtree (mj_node_at n p).
Proof.
  induction p as [|i p IH]; intros n; cbn [subtree mj_node_at]; [reflexivity|].
  rewrite mj_tkids_dtree, nth_error_map.
  destruct (nth_error (lkids n) i) as [c|]; cbn [option_map]; [apply IH|reflexivity].
Qed.

Lemma mj_node_at_snoc p j : forall n c, mj_node_at n p = Some c ->
  mj_node_at n (p ++ [j]) = nth_error (lkids c) j.
Proof.
  induction p as [|i p IH]; intros n c H; cbn [mj_node_at app] in *.
  - injection H as <-. destruct (nth_error (lkids n) j); reflexivity.
  - destruct (nth_error (lkids n) i) as [k|]; [|discriminate]. apply (IH k c H).
Qed.

Lemma mj_node_at_snoc_inv p j : forall n c, mj_node_at n (p ++ [j]) = Some c ->
  exists nm dl kids, mj_node_at n p = Some (LDir nm dl kids) /\ nth_error kids j = Some c.
Proof.
  induction p as [|i p IH]; intros n c H; cbn [mj_node_at app] in *.
  - destruct n as [nm ino st|nm dl kids]; cbn [AccountLinks.lkids] in H.
    + destruct j; discriminate.
    + exists nm, dl, kids. split; [reflexivity|].
      destruct (nth_error kids j) as [k|]; [injection H as <-; reflexivity|discriminate].
  - destruct (nth_error (lkids n) i) as [k|]; [|discriminate]. apply (IH k c H).
Qed.

Lemma mj_parent_dir t p c : mj_is_dir_at t [] = true -> mj_node_at t p = Some c ->
  mj_is_dir_at t (removelast p) = true.
Proof.
  intros Hroot. revert c. pattern p. apply rev_ind.
  - intros c _. exact Hroot.
  - intros j q _ c H. rewrite removelast_last.
    destruct (mj_node_at_snoc_inv q j t c H) as (nm & dl & kids & Hq & _).
    unfold mj_is_dir_at. rewrite Hq. reflexivity.
Qed.

Lemma mj_is_dir_node t p : mj_is_dir_at t p = true ->
  exists nm dl kids, mj_node_at t p = Some (LDir nm dl kids).
Proof.
  unfold mj_is_dir_at. destruct (mj_node_at t p) as [[n i st|nm dl kids]|]; try discriminate.
  intros _. exists nm, dl, kids. reflexivity.
Qed.

Lemma mj_dlen_at_dir t p nm dl kids : mj_node_at t p = Some (LDir nm dl kids) -> mj_dlen_at t p = dl.
Proof. intros H. unfold mj_dlen_at. rewrite H. reflexivity. Qed.

(* ---- mj_tree_ok ---------------------------------------------------------------------------------- *)

Lemma mj_ok_dir nm dl kids : mj_tree_ok (LDir nm dl kids) = true ->
  dl mod BS = 0 /\
  num_extents BS (34 :: 34 :: map Account.dr_len_of (map lname kids)) * BS <= dl /\
  BS <= dl <= 4294967295 /\ ms_sorted (map lname kids) = true /\
  (forall c, In c kids -> mj_tree_ok c = true).
Proof.
  cbn [mj_tree_ok]. intros H. repeat (apply andb_prop in H; destruct H as [H ?]).
  match goal with Hi : Invb _ _ = true |- _ =>
    unfold Invb, AccountLinks.ldir_st, Account.st_of in Hi;
    cbn [recs dlen] in Hi; apply andb_prop in Hi; destruct Hi as [Hm Hn] end.
  assert (Hge : 1 <= num_extents BS (34 :: 34 :: map Account.dr_len_of (map lname kids))).
  { unfold num_extents. change (nf BS 1 0 (34 :: 34 :: ?l)) with (nf BS 1 68 l).
    set (l := map Account.dr_len_of (map lname kids)).
    assert (G : forall l n o, n <= fst (nf BS n o l)).
    { clear. induction l as [|x l IH]; intros n o; cbn [nf fst]; [lia|].
      destruct (o + x >? BS); [specialize (IH (n + 1) (0 + x)); lia|apply IH]. }
    apply G. }
  rewrite ms_BS in *. repeat split; try lia; try assumption.
  intros c Hc. match goal with Hk : forallb _ kids = true |- _ =>
    rewrite forallb_forall in Hk; exact (Hk c Hc) end.
Qed.

Lemma mj_ok_at p : forall n c, mj_tree_ok n = true -> mj_node_at n p = Some c -> mj_tree_ok c = true.
Proof.
  induction p as [|i p IH]; intros n c Hw H; cbn [mj_node_at] in H.
  - injection H as <-. exact Hw.
  - destruct (nth_error (lkids n) i) as [k|] eqn:Ek; [|discriminate].
    destruct n as [nm ino st|nm dl kids]; cbn [AccountLinks.lkids] in Ek.
    + destruct i; discriminate.
    + destruct (mj_ok_dir _ _ _ Hw) as (_ & _ & _ & _ & Hk).
      apply (IH k c); [|exact H]. apply Hk. eapply nth_error_In. exact Ek.
Qed.

Lemma mj_ok_name c : mj_tree_ok c = true -> 34 <= Account.dr_len_of (lname c) <= 254.
Proof.
  intros H. assert (Hn : mj_name_ok (lname c) = true).
  { destruct c as [nm i st|nm dl kids]; cbn [mj_tree_ok AccountLinks.lname] in *; [exact H|].
    repeat (apply andb_prop in H; destruct H as [H ?]). exact H. }
  unfold mj_name_ok in Hn. unfold Account.dr_len_of in *. pose proof (zlen_nonneg (lname c)). lia.
Qed.

Lemma mj_ok_kid nm dl kids j c : mj_tree_ok (LDir nm dl kids) = true -> nth_error kids j = Some c ->
  mj_tree_ok c = true.
Proof.
  intros Hw Hj. destruct (mj_ok_dir _ _ _ Hw) as (_ & _ & _ & _ & Hk). apply Hk.
  eapply nth_error_In. exact Hj.
Qed.

Lemma mj_blocks_ok : forall n, mj_tree_ok n = true -> blocks_okb (mj_dtree n) = true.
Proof.
  apply (AccountLinksLemmas.lnode_ind' (fun n => mj_tree_ok n = true -> blocks_okb (mj_dtree n) = true)).
  - intros nm i st _. reflexivity.
  - intros nm dl kids IH Hw. destruct (mj_ok_dir _ _ _ Hw) as (_ & _ & Hr & _ & Hk).
    cbn [mj_dtree blocks_okb]. rewrite ms_BS in Hr. pose proof (ms_ceil_nonneg dl ltac:(lia)).
    apply andb_true_intro. split; [lia|]. apply forallb_forall. intros x Hx.
    apply in_map_iff in Hx. destruct Hx as (c & <- & Hc). rewrite Forall_forall in IH.
    apply (IH c Hc (Hk c Hc)).
Qed.

(* ---- the walk takes ltotal lw_dblk extents ------------------------------------------------------- *)

Lemma mj_tree_blocks : forall n,
  tree_blocks (mj_dtree n) = AccountLinks.ltotal AccountLinks.lw_dblk n.
Proof.
  apply AccountLinksLemmas.lnode_ind'.
  - intros nm i st. reflexivity.
  - intros nm dl kids IH. rewrite AccountLinksLemmas.ltotal_dir. cbn [mj_dtree tree_blocks].
    unfold AccountLinks.lw_dblk at 1. change Account.C with BS. f_equal.
    unfold AccountLinksLemmas.ltotals. rewrite map_map.
    induction IH as [|c r Hc _ IHr]; [reflexivity|].
    cbn [map]. rewrite sumZ_cons, Hc, IHr. reflexivity.
Qed.

Lemma mj_assign_end start n :
  assign_end start (mj_dtree n) = start + AccountLinks.ltotal AccountLinks.lw_dblk n.
Proof.
  destruct (extents_disjoint_consecutive start (mj_dtree n)) as (_ & _ & He & _).
  rewrite He, mj_tree_blocks. reflexivity.
Qed.

(* ---- from the invariant of AccountNs ------------------------------------------------------------- *)

Lemma mj_sorted_of_SS names : StronglySorted AccountLemmas.blt names -> ms_sorted names = true.
Proof.
  induction 1 as [|a l HS IH HF]; [reflexivity|]. cbn [ms_sorted]. rewrite IH.
  destruct l as [|b l']; [reflexivity|]. inversion HF as [|? ? Hab _]; subst.
  unfold AccountLemmas.blt in Hab. rewrite Hab. reflexivity.
Qed.

Lemma mj_of_lall_ok : forall n, mj_name_ok (lname n) = true -> mj_dl_ok n = true ->
  AccountLinksLemmas.lall_ok n -> mj_tree_ok n = true.
Proof.
  apply (AccountLinksLemmas.lnode_ind' (fun n => mj_name_ok (lname n) = true -> mj_dl_ok n = true ->
           AccountLinksLemmas.lall_ok n -> mj_tree_ok n = true)).
  - intros nm i st Hn _ _. exact Hn.
  - intros nm dl kids IH Hn Hdl Hok. apply AccountLinksLemmas.lall_ok_dir in Hok.
    destruct Hok as [(Hinv & Hss & Hnames) Hkids].
    cbn [mj_dl_ok] in Hdl. apply andb_prop in Hdl. destruct Hdl as [Hdl Hdk].
    cbn [mj_tree_ok]. cbn [AccountLinks.lname] in Hn. rewrite Hn, Hdl. cbn [andb]. rewrite andb_true_r.
    apply andb_true_intro. split; [apply andb_true_intro; split|].
    + apply Invb_spec. exact Hinv.
    + apply mj_sorted_of_SS. exact Hss.
    + apply forallb_forall. intros c Hc. rewrite Forall_forall in IH, Hkids, Hnames.
      rewrite forallb_forall in Hdk.
      apply (IH c Hc); [|apply Hdk; exact Hc|apply Hkids; exact Hc].
      assert (Hin : In (lname c) (map lname kids)) by (apply in_map; exact Hc).
      destruct (Hnames _ Hin) as [Hr _]. unfold mj_name_ok. lia.
Qed.

Print Assumptions mj_ok_dir.
Print Assumptions mj_blocks_ok.
Print Assumptions mj_assign_end.
Print Assumptions mj_of_lall_ok.
