(* C12 -- theorems about Model/HybridHist.v (isohybrid over edit histories). *)
From Coq Require Import ZArith List Bool Arith Lia ZifyBool.
From PV.Base Require Import Prim.
From PV.Gen Require Import GenConst GenFun.
From PV.Model Require Import Names Pack Alloc Codec Eltorito Account AccountLinks AccountBoot Hybrid HybridHist.
From PV.Proofs Require Import HybridProofs AccountBootProofs.
Import ListNotations.
Local Open Scope Z_scope.

(* ---- refusals ----------------------------------------------------------------------------------- *)

Lemma hh_with_b_id s : with_b s (hb s) = s.
Proof. destruct s; reflexivity. Qed.

Lemma hh_add_hybrid_ref fp s pe id po gs gh pt mac efi g :
  snd (hstep_add_hybrid_gen fp s pe id po gs gh pt mac efi g) = Ref ->
  fst (hstep_add_hybrid_gen fp s pe id po gs gh pt mac efi g) = s.
Proof.
  unfold hstep_add_hybrid_gen.
  destruct (bboot (hb s)) as [b|]; [|reflexivity].
  destruct (negb _); [reflexivity|].
  destruct (match efi with Some e => if negb e && mac then None else Some e | None => Some mac end) as [e|];
    [|reflexivity].
  destruct (e && _); [reflexivity|]. destruct (mac && _); [reflexivity|].
  destruct (fp && _); [reflexivity|].
  destruct (binos b) as [|i r]; [reflexivity|].
  destruct (negb (mem i (hsigs s))); [reflexivity|].
  destruct (fp && _); [reflexivity|].
  destruct (hy_new _ _ _ _ _ _ _ _ _ _); [discriminate|reflexivity].
Qed.

(* a refused call (outcome Ref) leaves the whole state as it was, for every operation (both trees) *)
Theorem hh_refused_unchanged_gen fx fp s o : snd (hstep_gen fx fp s o) = Ref -> fst (hstep_gen fx fp s o) = s.
Proof.
  destruct o as [o|d n len|pe id po gs gh pt mac efi g| |]; cbn [hstep_gen].
  - destruct (bstep (hb s) o) as [b' oc] eqn:E. cbn [fst snd]. intros H. subst oc.
    apply ab_refused_unchanged in E. subst b'. apply hh_with_b_id.
  - destruct (bstep (hb s) (BAddFile d n len)) as [b' oc] eqn:E. cbn [fst snd].
    destruct oc; cbn [fst snd]; intros H; try discriminate.
    apply ab_refused_unchanged in E. subst b'. apply hh_with_b_id.
  - destruct (bwreck (hb s)); [reflexivity|]. apply hh_add_hybrid_ref.
  - discriminate.
  - unfold hstep_write_gen. destruct (bwreck (hb s)); [reflexivity|].
    destruct (hhyb s); [|discriminate]. destruct (_ && _); discriminate.
Qed.
Theorem hh_refused_unchanged s o : snd (hstep s o) = Ref -> fst (hstep s o) = s.
Proof. apply hh_refused_unchanged_gen. Qed.

(* ---- rm_isohybrid ------------------------------------------------------------------------------- *)

(* rm_isohybrid is never refused, touches nothing but the hybrid object, and the next written
   image carries no MBR / GPT / APM (hybrid_view = None; _write_fp writes none of them) *)
Theorem hh_rm_hybrid_exact s :
  hstep s HRmHybrid = (with_hyb s None, Acc) /\
  hb (fst (hstep s HRmHybrid)) = hb s /\ hsigs (fst (hstep s HRmHybrid)) = hsigs s /\
  hybrid_view (fst (hstep s HRmHybrid)) = None /\
  (bwreck (hb s) = false ->
   hstep (with_hyb s None) HWrite = (with_hyb s None, Acc) /\
   hybrid_view (fst (hstep (with_hyb s None) HWrite)) = None).
Proof.
  split; [reflexivity|]. split; [reflexivity|]. split; [reflexivity|]. split; [reflexivity|].
  intros Hw. unfold hstep. cbn [hstep_gen]. unfold hstep_write_gen. cbn [with_hyb hb hhyb]. rewrite Hw. split; reflexivity.
Qed.

(* edits other than add_isohybrid / rm_isohybrid / rm_eltorito / write never touch the hybrid
   object: the values in it are those of the last reshuffle *)
Theorem hh_edits_keep_hybrid s o : is_rm_eltorito o = false -> hhyb (fst (hstep s (HBase o))) = hhyb s.
Proof.
  intros H. unfold hstep. cbn [hstep_gen fst]. rewrite H, andb_false_r.
  destruct (snd (bstep (hb s) o)); reflexivity.
Qed.
(* 09176f7: an accepted rm_eltorito removes the hybridization with it *)
Theorem hh_rm_eltorito_removes_hybrid s :
  snd (hstep s (HBase BRmEltorito)) = Acc ->
  hhyb (fst (hstep s (HBase BRmEltorito))) = None /\ hybrid_view (fst (hstep s (HBase BRmEltorito))) = None.
Proof.
  unfold hstep. cbn [hstep_gen fst snd]. intros H. rewrite H. cbn. split; reflexivity.
Qed.

(* ---- the MBR partition covers the padded image --------------------------------------------------- *)

Definition geom_ok (y : hybrid) : Prop := 0 < ih_heads (hy_ih y) /\ 0 < ih_sectors (hy_ih y).

(* for ANY hybrid object and volume size: the active entry (when it is in the table) starts at the
   requested offset, its sector count is the padded image minus the offset EXACTLY WHEN the padded
   image has at most 1024 cylinders (known finding c12:cylinders-clamped otherwise), and the padded
   length is a whole number of cylinders and of 512-byte sectors *)
Theorem hh_mbr_covers_image y iso :
  geom_ok y -> 0 <= iso ->
  let h := hy_ih y in
  let v := view_of y iso in
  let padded := iso + ih_padlen h iso in
  padded mod (ih_heads h * ih_sectors h * 512) = 0 /\ padded mod 512 = 0 /\
  (ih_efi h = false -> v_len v = padded) /\
  v_rba v = ih_rba h /\
  (active_visible h = true ->
   exists bh bs bc es ec,
     v_active v = [ih_part_entry h; ih_part_offset h; ih_psize h iso; bh; bs; bc; ih_ptype h;
                   ih_heads h - 1 + (ih_ehead h - (ih_heads h - 1)); es; ec] /\
     (padded / (ih_heads h * ih_sectors h * 512) <= 1024 ->
      ih_psize h iso * 512 = padded - ih_part_offset h * 512)).
Proof.
  intros [Hh Hs] Hiso h v padded.
  pose proof (record_padding_aligned h iso Hh Hs Hiso) as (Hp & Hz & Hc & H5).
  rewrite Hz in Hc, H5.
  split; [exact Hc|]. split; [exact H5|]. split.
  - intros He. subst v. unfold view_of, image_len. cbn [v_len]. fold h. rewrite He.
    subst padded. rewrite Z.max_r by lia. reflexivity.
  - split; [reflexivity|]. intros Hv. subst v. unfold view_of. cbn [v_active]. fold h. rewrite Hv.
    do 5 eexists. split.
    + replace (ih_heads h - 1 + (ih_ehead h - (ih_heads h - 1))) with (ih_ehead h) by lia. reflexivity.
    + intros Hsmall. rewrite (psize_when_not_clamped h iso Hh Hs Hiso Hsmall).
      subst padded. apply Z.mod_divide in H5; [|lia]. destruct H5 as [k Hk]. rewrite Hk.
      rewrite Z.div_mul by lia. lia.
Qed.

(* ---- the backup GPT and the volume tail ----------------------------------------------------------- *)

(* what update_efi (the only writer of the GPT headers) stores, with the sizes of the reshuffle *)
Theorem hh_update_efi_gpt y ext sc iso y' :
  geom_ok y -> 0 <= iso -> iso mod 512 = 0 -> hy_update_efi y ext sc iso = Some y' ->
  let padded := iso + ih_padlen (hy_ih y) iso in
  gh_current_lba (g_header (hy_pri y')) = 1 /\
  gh_backup_lba (g_header (hy_pri y')) = gh_current_lba (g_header (hy_sec y')) /\
  gh_backup_lba (g_header (hy_sec y')) = 1 /\
  gh_current_lba (g_header (hy_sec y')) * 512 + 512 = padded /\
  gh_pe_lba (g_header (hy_sec y')) = gh_current_lba (g_header (hy_sec y')) - 32 /\
  gh_last_usable (g_header (hy_pri y')) = padded / 512 - 34 /\
  gh_last_usable (g_header (hy_sec y')) = padded / 512 - 34 /\
  ih_efi_lba (hy_ih y') = ext /\ ih_efi_count (hy_ih y') = sc /\
  parts_view (firstn 2 (g_parts (hy_pri y'))) = [gp_first_lba (hd (gpart_new true [] []) (g_parts (hy_pri y))); iso / 512 - 1; ext * 4; ext * 4 + sc - 1] /\
  parts_view (firstn 2 (g_parts (hy_sec y'))) = [gp_first_lba (hd (gpart_new true [] []) (g_parts (hy_sec y))); iso / 512 - 1; ext * 4; ext * 4 + sc - 1].
Proof.
  intros [Hh Hs] Hiso H512 H. unfold hy_update_efi in H.
  destruct (negb (ih_efi (hy_ih y))); [discriminate|].
  destruct (g_parts (hy_pri y)) as [|p0 [|p1 pr]]; try discriminate.
  destruct (g_parts (hy_sec y)) as [|q0 [|q1 qr]]; try discriminate.
  cbn [parts_update_efi] in H. injection H as <-.
  pose proof (record_padding_aligned (hy_ih y) iso Hh Hs Hiso) as (Hp & Hz & _ & H5).
  rewrite Hz in H5.
  change (ih_padlen (ih_set_efi (hy_ih y) ext sc) iso) with (ih_padlen (hy_ih y) iso).
  cbn -[Z.div Z.mul Z.add Z.sub ih_padlen].
  set (padded := iso + ih_padlen (hy_ih y) iso) in *.
  assert (Hk : exists k, padded = k * 512) by (apply Z.mod_divide in H5; [exact H5|lia]).
  destruct Hk as [k Hk].
  assert (Hcur : (padded - 512) / 512 * 512 + 512 = padded).
  { rewrite Hk. replace (k * 512 - 512) with ((k - 1) * 512) by ring. rewrite Z.div_mul by lia. ring. }
  unfold GPT_SIZE. change (128 / 4) with 32. change (32 + 2) with 34.
  repeat split; try reflexivity; try exact Hcur.
Qed.

(* the backup array is written at current_lba*512 - 128*128: it stays clear of the volume exactly
   when the cylinder padding holds the 33 sectors of the backup GPT *)
Theorem hh_gpt_inside_image_partial y ext sc iso y' :
  geom_ok y -> 0 <= iso -> iso mod 512 = 0 -> hy_update_efi y ext sc iso = Some y' ->
  gh_num_parts (g_header (hy_sec y)) = 128 ->
  (iso <= secondary_write_offset (hy_sec y') <-> 16896 <= ih_padlen (hy_ih y) iso) /\
  secondary_write_offset (hy_sec y') + sec_len y' = iso + ih_padlen (hy_ih y) iso.
Proof.
  intros Hg Hiso H512 H Hn.
  pose proof (hh_update_efi_gpt y ext sc iso y' Hg Hiso H512 H) as (_ & _ & _ & Hc & _).
  assert (Hn' : gh_num_parts (g_header (hy_sec y')) = 128).
  { unfold hy_update_efi in H. destruct (negb _); [discriminate|].
    destruct (parts_update_efi (g_parts (hy_pri y)) _ _ _); [|discriminate].
    destruct (parts_update_efi (g_parts (hy_sec y)) _ _ _); [|discriminate].
    injection H as <-. exact Hn. }
  unfold secondary_write_offset, sec_len. rewrite Hn'. cbv zeta in Hc. lia.
Qed.

(* ---- concrete histories: the library's behaviour the model reproduces (and the tool confirmed) ---- *)

Definition n_boot : ident := [66; 79; 79; 84; 46; 59; 49].            (* BOOT.;1 *)
Definition n_cat : ident := [66; 79; 79; 84; 46; 67; 65; 84; 59; 49]. (* BOOT.CAT;1 *)
Definition n_efi : ident := [69; 70; 73; 46; 73; 77; 71; 59; 49].     (* EFI.IMG;1 *)
Definition n_efi2 : ident := [69; 70; 73; 50; 46; 73; 77; 71; 59; 49]. (* EFI2.IMG;1 *)
Definition n_a : ident := [65; 46; 59; 49].                            (* A.;1 *)

Definition h_boot : list hop :=
  [HAddSigFile [] n_boot 2048;
   HBase (BAddEltorito [n_boot] [] n_cat (Some 4) 0 false false 0 true 0)].
Definition h_efi (nm : ident) : list hop :=
  [HBase (BAddFile [] nm 4096); HBase (BAddEltorito [nm] [] n_cat None 0 false true 0 true 0)].

(* every history leaves the backup GPT clear of the volume: FALSE (geometry 1x1: no padding) *)
Theorem hh_gpt_inside_image_refuted :
  exists ops v, hybrid_view (hrun hinit ops) = Some v /\
                0 <= v_sec_at v /\ ~ (iso_size_of (hrun hinit ops) <= v_sec_at v).
Proof.
  exists (h_boot ++ h_efi n_efi ++ [HAddHybrid 1 7 0 1 1 None false (Some true) hh_noguid; HWrite]).
  eexists. split; [vm_compute; reflexivity|]. vm_compute. split; [intros H; discriminate H | intros H; apply H; reflexivity].
Qed.

(* BEFORE 07829f6 / 09176f7 an accepted history could end in an image that write_fp refuses:
   (a) plain hybrid + an EFI section; (b) efi hybrid + two EFI sections (no mac);
   (c) efi hybrid, then rm_eltorito (negative seek).  The same histories are written now. *)
Definition all_acc_but_last (fx fp : bool) (ops : list hop) : bool :=
  (fix go (s : hstate) (l : list hop) : bool :=
     match l with
     | [] => false
     | [o] => negb (out_code (snd (hstep_gen fx fp s o)) =? 1)
     | o :: r => (out_code (snd (hstep_gen fx fp s o)) =? 1) && go (fst (hstep_gen fx fp s o)) r
     end) hinit ops.
Definition all_acc (ops : list hop) : bool :=
  (fix go (s : hstate) (l : list hop) : bool :=
     match l with
     | [] => true
     | o :: r => (out_code (snd (hstep s o)) =? 1) && go (fst (hstep s o)) r
     end) hinit ops.

Definition w_plain_efi := h_boot ++ h_efi n_efi ++ [HAddHybrid 1 7 0 32 64 None false None hh_noguid; HWrite].
Definition w_two_efi := h_boot ++ h_efi n_efi ++ h_efi n_efi2 ++
                        [HAddHybrid 1 7 0 32 64 None false (Some true) hh_noguid; HWrite].
Definition w_rm_eltorito := h_boot ++ h_efi n_efi ++ [HAddHybrid 1 7 0 32 64 None false (Some true) hh_noguid;
                                                     HBase BRmEltorito; HWrite].

Theorem hh_write_succeeds_old_refuted :
  all_acc_but_last false false w_plain_efi = true /\ all_acc_but_last false false w_two_efi = true /\
  all_acc_but_last false false w_rm_eltorito = true.
Proof. vm_compute. repeat split. Qed.
Theorem hh_write_succeeds_fixed_witnesses :
  all_acc w_plain_efi = true /\ all_acc w_two_efi = true /\ all_acc w_rm_eltorito = true.
Proof. vm_compute. repeat split. Qed.

(* BEFORE b44c076 (after the two repairs above): the only EFI entry shares the inode of the initial
   entry, its enc was skipped (`id(enc.entry.inode) in linked_inodes: continue`), update_efi was
   never called, the backup GPT header kept current_lba = 0: ValueError (negative seek).  Now the
   enc runs update_efi with the inode's extent and the image is written: the EFI partition and
   the boot file rba both point at the one boot file (4 * load_rba). *)
Definition w_shared_inode :=
  h_boot ++ [HBase (BAddEltorito [n_boot] [] n_cat (Some 4) 0 false true 0 true 0);
             HAddHybrid 1 7 0 32 64 None false (Some true) hh_noguid; HWrite].
Theorem hh_write_succeeds_old2_refuted : all_acc_but_last true false w_shared_inode = true.
Proof. vm_compute. reflexivity. Qed.
Theorem hh_shared_inode_written :
  all_acc w_shared_inode = true /\
  let s := hrun hinit w_shared_inode in
  entry_rbas (hb s) = [26; 26] /\
  option_map v_efi (hybrid_view s) = Some [104; 4] /\ option_map v_rba (hybrid_view s) = Some 104.
Proof. vm_compute. repeat split. Qed.

(* ed6ec41: an EFI image with two names (EA.;1, EB.;1: two encs of ONE entry) and a Mac image, then
   add_isohybrid(efi=True, mac=True): the EFI slot describes the EFI image (load_rba 27, 8
   sectors) and the Mac slot the Mac image (load_rba 29, 12 sectors), in the MBR and in both GPT
   arrays.  Reproduction: /var/tmp/hh_two_names.py prints [108, 8] [116, 12] ... *)
Definition n_ea : ident := [69; 65; 46; 59; 49].        (* EA.;1 *)
Definition n_eb : ident := [69; 66; 46; 59; 49].        (* EB.;1 *)
Definition n_mac : ident := [77; 65; 67; 46; 59; 49].   (* MAC.;1 *)
Definition w_two_names :=
  h_boot ++ [HBase (BAddFile [] n_ea 4096); HBase (BAddLink [n_ea] [] n_eb);
             HBase (BAddEltorito [n_ea] [] n_cat None 0 false true 0 true 0);
             HBase (BAddFile [] n_mac 6144);
             HBase (BAddEltorito [n_mac] [] n_cat None 0 false true 0 true 0);
             HAddHybrid 1 7 0 32 64 None true (Some true) hh_noguid; HWrite].
Theorem hh_two_names_mac :
  all_acc w_two_names = true /\
  let s := hrun hinit w_two_names in
  entry_rbas (hb s) = [26; 27; 29] /\
  option_map v_efi (hybrid_view s) = Some [108; 8] /\
  option_map v_mac (hybrid_view s) = Some [116; 12] /\
  option_map (fun v => skipn 2 (v_pri_parts v)) (hybrid_view s) = Some [108; 115; 116; 127] /\
  option_map (fun v => skipn 2 (v_sec_parts v)) (hybrid_view s) = Some [108; 115; 116; 127].
Proof. vm_compute. repeat split. Qed.

(* what still makes write_fp raise after accepted calls (current tree): struct.error -- the
   partition offset lies beyond the (clamped) cylinders, psize < 0 *)
Definition w_struct_error := h_boot ++ [HAddHybrid 1 7 100000 32 64 None false None hh_noguid; HWrite].
Theorem hh_write_succeeds_refuted : all_acc_but_last true true w_struct_error = true.
Proof. vm_compute. reflexivity. Qed.

(* the EFI partition and the boot file rba follow the El Torito images when a later edit moves
   them (a new directory takes an extent before the data area: load_rba 26,27 -> 27,28); both
   written values are 4 * the entry's current load_rba, the count is the entry's sector_count *)
Theorem hh_efi_follows_moved_file :
  let pre := h_boot ++ h_efi n_efi ++ [HAddHybrid 1 7 0 32 64 None false (Some true) hh_noguid] in
  let s1 := hrun hinit (pre ++ [HWrite]) in
  let s2 := hrun hinit (pre ++ [HWrite; HBase (BAddDir [] [68]); HWrite]) in
  option_map v_efi (hybrid_view s1) = Some [4 * nth 1 (entry_rbas (hb s1)) 0; 8] /\
  option_map v_efi (hybrid_view s2) = Some [4 * nth 1 (entry_rbas (hb s2)) 0; 8] /\
  option_map v_rba (hybrid_view s2) = Some (4 * nth 0 (entry_rbas (hb s2)) 0) /\
  entry_rbas (hb s1) = [26; 27] /\ entry_rbas (hb s2) = [27; 28].
Proof. vm_compute. repeat split. Qed.

Print Assumptions hh_refused_unchanged.
Print Assumptions hh_rm_hybrid_exact.
Print Assumptions hh_mbr_covers_image.
Print Assumptions hh_update_efi_gpt.
Print Assumptions hh_gpt_inside_image_partial.
Print Assumptions hh_gpt_inside_image_refuted.
Print Assumptions hh_write_succeeds_refuted.
Print Assumptions hh_write_succeeds_old_refuted.
Print Assumptions hh_write_succeeds_old2_refuted.
Print Assumptions hh_shared_inode_written.
Print Assumptions hh_write_succeeds_fixed_witnesses.
Print Assumptions hh_rm_eltorito_removes_hybrid.
Print Assumptions hh_efi_follows_moved_file.
Print Assumptions hh_two_names_mac.
