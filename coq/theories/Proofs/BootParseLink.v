(* C11 / C02 -- Model/BootParse.v, part 4: _link_eltorito and the boot info tables on the written summary
   of a state of AccountBoot: an entry finds the inode of its boot file back by its extent; a boot file
   without directory record gets [bp_newlen]. *)
From Coq Require Import ZArith List Bool Lia ZifyBool Sorted Arith Permutation.
From PV.Base Require Import Prim.
From PV.Gen Require Import GenConst GenFun.
From PV.Model Require Import Names Checksums Pack Alloc Codec Eltorito Account AccountLinks AccountBoot BootParse.
From PV.Proofs Require Import PackProofs AllocProofs ChecksumsArithProofs AccountLemmas AccountProofs
     AccountLinksLemmas AccountLinksPurge AccountLinksInv EltoritoCatalogProofs EltoritoBuiltProofs
     AccountBootLemmas AccountBootInv AccountBootInv2 AccountBootFix AccountBootProofs BootParseLayout
     BootParseWalk.
Import ListNotations.
Local Open Scope Z_scope.
Ltac Zify.zify_post_hook ::= Z.to_euclidean_division_equations.

(* ---- relabelling a tree: two functions that agree on the records met by the walk -------------------- *)

Definition bp_wdiff (f g : nat -> nat -> nat) (n : lnode) : Z :=
  match n with LFile _ i st => if Nat.eqb (f i st) (g i st) then 0 else 1 | _ => 0 end.

Lemma bp_wdiff_nonneg f g n : 0 <= bp_wdiff f g n.
Proof. destruct n as [nm i st|nm dl kids]; cbn [bp_wdiff]; [destruct (Nat.eqb (f i st) (g i st))|]; lia. Qed.

Lemma bp_lmap_ext_total f g : forall n, ltotal (bp_wdiff f g) n = 0 -> lmap_ino f n = lmap_ino g n.
Proof.
  apply (lnode_ind' (fun n => ltotal (bp_wdiff f g) n = 0 -> lmap_ino f n = lmap_ino g n)).
  - intros nm i st H. rewrite ltotal_file in H. cbn [bp_wdiff] in H. cbn [lmap_ino].
    destruct (Nat.eqb_spec (f i st) (g i st)) as [E|E]; [rewrite E; reflexivity|discriminate].
  - intros nm dl kids HF H. rewrite ltotal_dir in H. cbn [bp_wdiff] in H. cbn [lmap_ino]. f_equal.
    assert (H0 : ltotals (bp_wdiff f g) kids = 0) by lia. clear H.
    induction HF as [|c r Hc Hr IH]; [reflexivity|]. rewrite ltotals_cons in H0.
    pose proof (ltotal_nonneg _ (bp_wdiff_nonneg f g) c). pose proof (ltotals_nonneg _ (bp_wdiff_nonneg f g) r).
    cbn [map]. f_equal; [apply Hc; lia|apply IH; lia].
Qed.

Lemma bp_lmap_ext_visit f g l :
  (forall nm i st, In (LFile nm i st) (lvisit l) -> f i st = g i st) ->
  lmap_ino f (lroot l) = lmap_ino g (lroot l).
Proof.
  intros H. apply bp_lmap_ext_total. rewrite <- (lvisit_sum (bp_wdiff f g) l).
  assert (E : map (fun n => bp_wdiff f g (hdr n)) (lvisit l) = map (fun _ => 0) (lvisit l)).
  { apply map_ext_in. intros [nm i st|nm dl kids] Hn; cbn [hdr bp_wdiff]; [|reflexivity].
    rewrite (H nm i st Hn), Nat.eqb_refl. reflexivity. }
  rewrite E. clear E H. induction (lvisit l) as [|a r IH]; [reflexivity|]. cbn [map]. rewrite zsum_cons, IH. reflexivity.
Qed.

(* ---- lists -------------------------------------------------------------------------------------------- *)

Lemma bp_combine3 {A} (f : nat -> A) : forall (l : list nat) (scs : list Z),
  combine (combine (map f l) scs) l = map (fun p => (f (fst p), snd p, fst p)) (combine l scs).
Proof.
  induction l as [|i r IH]; intros scs; [reflexivity|]. destruct scs as [|sc scs]; [reflexivity|].
  cbn [map combine fst snd]. rewrite IH. reflexivity.
Qed.

Lemma bp_map_fst_combine {A B} : forall (l : list A) (m : list B), (length l <= length m)%nat ->
  map fst (combine l m) = l.
Proof.
  induction l as [|a r IH]; intros m H; [reflexivity|]. destruct m as [|b m]; [cbn in H; lia|].
  cbn [combine map fst]. rewrite IH; [reflexivity|cbn in H; lia].
Qed.

Section Link.
  Variable s : bstate.
  Hypothesis HI : BInv s.
  Hypothesis HF : BFix s.
  Let l := bl s.
  Let tbl := linodes (bl s).
  Let w := boot_view s.

  (* a dictionary keyed by the extents of placed inodes *)
  Lemma bp_zassoc_rba_g {A} (g : nat -> A) i : forall ks, Forall (bp_placed s) ks -> bp_placed s i ->
    zassoc (rba_of s i) (map (fun j => (rba_of s j, g j)) ks) = if mem i ks then Some (g i) else None.
  Proof.
    induction ks as [|j r IH]; intros HFk Hi; [reflexivity|]. inversion HFk as [|? ? Hj HF']; subst.
    cbn [map zassoc]. unfold mem. cbn [existsb]. fold (mem i r).
    destruct (Z.eqb_spec (rba_of s j) (rba_of s i)) as [E|E].
    - rewrite (bp_rba_inj s j i HI Hj Hi E), Nat.eqb_refl. reflexivity.
    - destruct (Nat.eqb_spec i j) as [->|Hne]; [congruence|]. cbn [orb]. apply IH; assumption.
  Qed.

  Lemma bp_entry_placed i : 0 < erefs i (bboot s) -> bp_placed s i.
  Proof.
    intros H. destruct (bi_live s HI) as (_ & _ & HE). destruct HF as [F1 _].
    split; [apply HE, H|apply F1, H].
  Qed.

  Lemma bp_bits_placed : Forall (bp_placed s) (bbits s).
  Proof. destruct HF as [_ F2]. apply Forall_forall. intros i Hi. apply bp_entry_placed, F2, Hi. Qed.

  (* bytes 8..23 at the extent of inode i: the table write_fp patched in, or the file's own bytes *)
  Lemma bp_tabs_at i : bp_placed s i ->
    zassoc (rba_of s i) (w_tabs w) =
    if mem i (bbits s) then Some (mk_bitab 16 (rba_of s i) (len_of i tbl) (len_of i tbl)) else None.
  Proof.
    intros Hi. unfold w, boot_view, boot_view_gen, view_tabs_gen. cbn [w_tabs].
    assert (Hfl : filter (fun j => has_ino j (linodes (bl s)) && negb (len_of j (linodes (bl s)) =? 0)) (bbits s) = bbits s).
    { apply filter_all. eapply Forall_impl; [|apply bp_bits_placed]. intros j [Hj1 Hj2]. cbv beta.
      apply ab_has_ino_in in Hj1. rewrite Hj1. destruct (Z.eqb_spec (len_of j (linodes (bl s))) 0); [contradiction|reflexivity]. }
    rewrite Hfl. unfold own_len. cbn [fst snd].
    apply (bp_zassoc_rba_g (fun j => mk_bitab 16 (rba_of s j) (len_of j (linodes (bl s))) (len_of j (linodes (bl s)))) i);
      [apply bp_bits_placed|exact Hi].
  Qed.

  Lemma bp_csum_ok_refl x : 0 <= x -> bp_csum_ok x x = true.
  Proof. intros H. unfold bp_csum_ok, ceiling_div, C. lia. Qed.

  (* _hidden_boot_file_length *)
  Lemma bp_hidden_len_view i sc : bp_placed s i ->
    bp_hidden_len w (rba_of s i) sc =
    if mem i (bbits s) && (64 <=? len_of i tbl) then (len_of i tbl, true) else (sc * 512, false).
  Proof.
    intros Hi. unfold bp_hidden_len. rewrite (bp_tabs_at i Hi). unfold tbl.
    destruct (bp_rba_spec s i HI Hi) as (_ & _ & Hb & Hsp).
    pose proof (bp_len_nonneg s i HI) as Hn.
    assert (Hlen : len_of i (linodes (bl s)) <= blk_of s i * C) by (unfold blk_of, ceiling_div, C in *; lia).
    change (w_size w) with (lspace (bl s) * C).
    destruct (rba_of s i * C + 24 <=? lspace (bl s) * C) eqn:E24; [|unfold C in *; lia]. cbn [negb].
    destruct (mem i (bbits s)); [|reflexivity]. cbn [bt_pvd bt_ext bt_len bt_cover andb].
    rewrite !Z.eqb_refl, (bp_csum_ok_refl _ (proj1 Hn)).
    destruct (rba_of s i * C + len_of i (linodes (bl s)) <=? lspace (bl s) * C) eqn:Ef; [|unfold C in *; lia].
    cbn [Z.eqb andb]. rewrite !andb_true_r. destruct (64 <=? len_of i (linodes (bl s))); reflexivity.
  Qed.

  Definition bp_hsrc (t : itable) : list (nat * (Z * Z)) := map (fun e => (fst e, (rba_of s (fst e), snd e))) t.

  Lemma bp_link_sim fx ents : forall es known st2,
    Forall (fun p => bp_placed s (fst p)) es -> Forall (bp_placed s) known ->
    l2_e2i st2 = bp_e2i s known ->
    fold_left (bp_link1 fx w (lspace l) (map (rba_of s) ents))
              (map (fun p : nat * Z => (rba_of s (fst p), snd p, fst p)) es) st2 =
    mk_lstate2 (l2_tbl st2 ++ bp_hsrc (bp_hidden fx s ents es known))
               (bp_e2i s (known ++ map fst (bp_hidden fx s ents es known)))
               (l2_inos st2 ++ map fst es).
  Proof.
    induction es as [|[i sc] r IH]; intros known st2 Hes Hk He.
    - cbn [map fold_left bp_hidden bp_hsrc]. rewrite !app_nil_r, <- He. destruct st2; reflexivity.
    - inversion Hes as [|? ? Hi Hr]; subst. cbn [fst] in Hi.
      cbn [map fold_left fst snd bp_hidden]. unfold bp_link1 at 2. rewrite He.
      rewrite (bp_zassoc_rba s HI i known Hk Hi).
      destruct (mem i known) eqn:Hm.
      + rewrite (IH known); [|exact Hr|exact Hk|reflexivity]. cbn [l2_tbl l2_inos]. rewrite <- app_assoc. reflexivity.
      + rewrite (bp_hidden_len_view i sc Hi).
        assert (Hmf : map fst (bp_e2i s known) = map (rba_of s) known).
        { unfold bp_e2i. rewrite map_map. reflexivity. }
        rewrite Hmf. fold tbl. fold (bp_newlen fx s ents known i sc).
        rewrite (IH (known ++ [i])); [|exact Hr|apply Forall_app; split; [exact Hk|constructor; [exact Hi|constructor]]|].
        * cbn [l2_tbl l2_inos bp_hsrc map fst snd]. rewrite <- !app_assoc. reflexivity.
        * cbn [l2_e2i]. unfold bp_e2i. rewrite map_app. reflexivity.
  Qed.

  Lemma bp_link_view fx : forall es known st2,
    Forall (fun p => bp_placed s (fst p)) es -> Forall (bp_placed s) known ->
    l2_e2i st2 = bp_e2i s known ->
    bp_link fx w (lspace l) (map (fun p : nat * Z => (rba_of s (fst p), snd p, fst p)) es) st2 =
    mk_lstate2 (l2_tbl st2 ++ bp_hsrc (bp_hidden fx s (map fst es) es known))
               (bp_e2i s (known ++ map fst (bp_hidden fx s (map fst es) es known)))
               (l2_inos st2 ++ map fst es).
  Proof.
    intros es known st2 H1 H2 H3. unfold bp_link. rewrite map_map. cbn [fst].
    rewrite <- (map_map fst (rba_of s)). apply bp_link_sim; assumption.
  Qed.

  (* every entry's inode is known after the loop *)
  Lemma bp_hidden_covers fx ents i : forall es known, In i (map fst es) ->
    mem i known = true \/ In i (map fst (bp_hidden fx s ents es known)).
  Proof.
    induction es as [|[j sc] r IH]; intros known H; [destruct H|]. cbn [map fst In] in H. cbn [bp_hidden].
    destruct H as [->|H].
    - destruct (mem i known) eqn:Hm; [left; reflexivity|right; left; reflexivity].
    - destruct (mem j known) eqn:Hm; [apply IH, H|].
      destruct (IH (known ++ [j]) H) as [H1|H1]; [|right; right; exact H1].
      unfold mem in H1. rewrite existsb_app in H1. apply orb_prop in H1. destruct H1 as [H1|H1]; [left; exact H1|].
      cbn [existsb] in H1. rewrite orb_false_r in H1. apply Nat.eqb_eq in H1. subst. right. left. reflexivity.
  Qed.

  Lemma bp_hidden_ids fx ents : forall es known j, In j (map fst (bp_hidden fx s ents es known)) -> In j (map fst es).
  Proof.
    induction es as [|[i sc] r IH]; intros known j H; [destruct H|]. cbn [bp_hidden] in H. cbn [map fst In].
    destruct (mem i known); [right; eapply IH; exact H|].
    destruct H as [H|H]; [left; exact H|right; eapply IH; exact H].
  Qed.
End Link.
