(* ParseRR, part 8: the whole walk.
     prr_walk_ok    _walk_directories on the image of a well-formed state follows, directory by directory, the walk over
                    the writer's objects (ParseRRSpec.prr_gwalk): no exception, nothing leaves the fragment, and the state
                    reached is the one the writer's objects give; the block table holds only keys of records *)
From Coq Require Import ZArith List Bool Lia ZifyBool.
From PV.Base Require Import Prim.
From PV.Gen Require Import GenConst GenFun.
From PV.Model Require Import Codec Pack PathTable CeAlloc RREntries RRWalk RRPlace.
From PV.Model Require Master Account LongNames.
From PV.Model Require Import ParseCore AccountRR MasterRR ParseRR ParseRRSpec.
From PV.Proofs Require Import CodecProofs PackProofs PathTableLemmas PathTableProofs MasterPack MasterImage MasterBfs.
From PV.Proofs Require Import MasterRRWalk MasterRRRec MasterRRBlock MasterRRTree MasterRRLayout MasterRRDir
                              MasterRRImage MasterRRRead MasterRRProofs.
From PV.Proofs Require Import ParseScan ParseTrack ParseDir ParseWalk.
From PV.Proofs Require Import ParseRRTable ParseRRDir ParseRRDir2 ParseRRDir3.
Import ListNotations.
Local Open Scope Z_scope.
Ltac Zify.zify_post_hook ::= Z.to_euclidean_division_equations.

Definition prr_dq (items : list (list nat * rnode)) : list (dtree * list nat) :=
  map (fun it => (mrr_dtree [] (snd it), fst it)) items.
Definition prr_item_is_dir (it : list nat * rnode) : bool := r_is_dir (snd it).
Definition prr_kid_positions (p : list nat) (j n : nat) : list (list nat) := map (fun i => p ++ [i]) (seq j n).

Lemma prr_dq_items p : forall kids j, prr_dq (prr_items p j kids) = child_pos_from j (map (mrr_dtree []) kids) p.
Proof.
  induction kids as [|c r IH]; intros j; [reflexivity|].
  cbn [prr_items prr_dq map child_pos_from fst snd]. f_equal. apply IH.
Qed.
Lemma prr_items_fst p : forall kids j, map fst (prr_items p j kids) = prr_kid_positions p j (length kids).
Proof.
  induction kids as [|c r IH]; intros j; [reflexivity|].
  cbn [prr_items map fst length]. unfold prr_kid_positions in *. cbn [seq map]. rewrite IH. reflexivity.
Qed.
Lemma prr_items_in p kids : forall kids' j,
  (forall i c, nth_error kids' i = Some c -> nth_error kids (j + i) = Some c) ->
  forall p' n', In (p', n') (prr_items p j kids') -> exists i, p' = p ++ [i] /\ nth_error kids i = Some n'.
Proof.
  induction kids' as [|c r IH]; intros j Hsub p' n' Hin; [destruct Hin|].
  cbn [prr_items] in Hin. destruct Hin as [Hin|Hin].
  - injection Hin as <- <-. exists j. split; [reflexivity|].
    specialize (Hsub 0%nat c eq_refl). rewrite Nat.add_0_r in Hsub. exact Hsub.
  - apply (IH (S j)); [|exact Hin]. intros i c' Hi. specialize (Hsub (S i) c' Hi).
    replace (S j + i)%nat with (j + S i)%nat by lia. exact Hsub.
Qed.

Section Walk.
  Variable dt : list Z.
  Variable s : rstate.
  Hypothesis Hdt : length dt = 7%nat.
  Hypothesis Hwf : mrr_wf dt s = true.
  Hypothesis Hsorted : prr_tree_ok s = true.
  Variable img' : Master.image.
  Hypothesis Hok : ms_img_ok img'.
  Hypothesis Hincl : incl (mrr_img dt s) img'.

  Local Notation t := (r_root s).
  Local Notation v := (r_ver s).
  Local Notation L := (mrr_layout s).
  Local Notation DB := (l_DB L).

  Definition prr_qof (it : list nat * rnode) : qdir :=
    mk_qdir (Master.ms_ext_at DB (fst it)) (match snd it with RDir _ dl _ => dl | RFile _ _ => 0 end)
            (mrr_is_root (fst it)) (rname (snd it)) (if mrr_is_root (fst it) then None else Some 0).

  Record prr_inv (f : nat) (st : wstate) (items : list (list nat * rnode)) (popped : list (list nat)) : Prop := {
    iv_queue : w_queue st = map prr_qof (filter prr_item_is_dir items);
    iv_nodes : forall p n, In (p, n) items -> mrr_node_at t p = Some n;
    iv_seen : forall b, In b (w_seen st) ->
              exists p m dl kids, In p popped /\ mrr_node_at t p = Some (RDir m dl kids) /\
                                  Master.ms_ext_at DB p <= b < Master.ms_ext_at DB p + dl / BS;
    iv_nodup : NoDup (popped ++ wgo f (prr_dq items));
    iv_size : (ps_wsize (prr_dq items) <= f)%nat;
    iv_tbl : prr_tinv s (w_blocks st) (popped ++ map fst items);
    iv_ver : w_ver st = V_unset \/ w_ver st = prr_ver_of v }.

  Lemma prr_range_in ext dl b : dl mod BS = 0 -> BS <= dl -> In b (prr_range ext dl) <-> ext <= b < ext + dl / BS.
  Proof.
    intros Hm Hd. unfold prr_range, ceiling_div, PBS. rewrite in_map_iff. unfold BS in *. split.
    - intros (k & <- & Hk). apply in_seq in Hk. lia.
    - intros H. exists (Z.to_nat (b - ext)). split; [lia|]. apply in_seq. lia.
  Qed.

  Lemma prr_dir_blocks_disjoint p1 m1 d1 k1 p2 m2 d2 k2 b :
    mrr_node_at t p1 = Some (RDir m1 d1 k1) -> mrr_node_at t p2 = Some (RDir m2 d2 k2) -> p1 <> p2 ->
    Master.ms_ext_at DB p1 <= b < Master.ms_ext_at DB p1 + d1 / BS ->
    Master.ms_ext_at DB p2 <= b < Master.ms_ext_at DB p2 + d2 / BS -> False.
  Proof.
    intros N1 N2 Hne B1 B2.
    destruct (mrr_chunk_range dt s Hdt Hwf p1 m1 d1 k1 N1) as (r1 & R1 & Q1 & _ & X1 & _ & L1 & _ & _).
    destruct (mrr_chunk_range dt s Hdt Hwf p2 m2 d2 k2 N2) as (r2 & R2 & Q2 & _ & X2 & _ & L2 & _ & _).
    destruct (mrr_dir_dl dt s Hdt Hwf p1 m1 d1 k1 N1) as (M1 & G1 & _).
    destruct (mrr_dir_dl dt s Hdt Hwf p2 m2 d2 k2 N2) as (M2 & G2 & _).
    cbn [mrr_dblocks] in L1, L2. unfold ceiling_div, BS in *.
    destruct (mrr_ranges_disjoint dt s Hwf p1 p2 r1 r2 R1 R2 Q1 Q2 Hne); lia.
  Qed.

  Lemma prr_mem_false x l : (forall e, In e l -> e <> x) -> ps_mem x l = false.
  Proof.
    intros H. unfold ps_mem. destruct (existsb (Z.eqb x) l) eqn:E; [|reflexivity].
    apply existsb_exists in E. destruct E as (e & He & Hx). apply Z.eqb_eq in Hx. subst e.
    exfalso. exact (H x He eq_refl).
  Qed.

  Lemma prr_spec_kids_fields p : forall kids j st,
    w_queue (prr_spec_kids v dt t L p j kids st) = w_queue st ++ map prr_qof (filter prr_item_is_dir (prr_items p j kids)) /\
    w_seen (prr_spec_kids v dt t L p j kids st) = w_seen st /\
    w_ver (prr_spec_kids v dt t L p j kids st) = w_ver st.
  Proof.
    induction kids as [|c r IH]; intros j st; [cbn; rewrite app_nil_r; repeat split|].
    cbn [prr_spec_kids prr_items filter prr_item_is_dir snd].
    set (P := match m_ce (meta_of c) with
              | Some (i, off, len) => let '(k, b) := prr_track_u (w_blocks st) (mrr_ce_ext t L i) off len in (Some k, b)
              | None => (None, w_blocks st)
              end).
    destruct P as [blk bs1]. destruct (IH (S j) (mk_wst (w_dirs st)
        (w_cur st ++ [prr_spec_rec v dt (mrr_kid_spec t L (p ++ [j]) c)
                        (if r_is_dir c then Some (length (w_dirs st) + 1 + length (w_queue st))%nat else None) blk])
        (prr_rrk_add (prr_spec_rec v dt (mrr_kid_spec t L (p ++ [j]) c)
                        (if r_is_dir c then Some (length (w_dirs st) + 1 + length (w_queue st))%nat else None) blk) (w_rrk st))
        (if r_is_dir c then w_queue st ++ [mk_qdir (rs_ext (mrr_kid_spec t L (p ++ [j]) c)) (rs_len (mrr_kid_spec t L (p ++ [j]) c))
                                                    false (rs_nm (mrr_kid_spec t L (p ++ [j]) c)) (Some 0)] else w_queue st)
        (w_seen st) bs1 (w_ver st))) as (I1 & I2 & I3).
    rewrite I1, I2, I3. cbn [w_queue w_seen w_ver]. split; [|split; reflexivity].
    destruct c as [cm len|cm cdl ck]; cbn [r_is_dir].
    - change (prr_item_is_dir (p ++ [j], RFile cm len)) with false. cbv iota. reflexivity.
    - change (prr_item_is_dir (p ++ [j], RDir cm cdl ck)) with true. cbv iota.
      cbn [map]. rewrite <- app_assoc. cbn [app]. do 2 f_equal.
      unfold prr_qof. cbn [fst snd mrr_kid_spec rs_ext rs_len rs_nm meta_of rname].
      replace (mrr_is_root (p ++ [j])) with false by (destruct p; reflexivity). reflexivity.
  Qed.

  Theorem prr_walk_ok : forall f items st popped F,
    prr_inv f st items popped -> (f < F)%nat ->
    prr_walk F img' st = POk (prr_gwalk f v dt t L items st) /\
    exists done, prr_tinv s (w_blocks (prr_gwalk f v dt t L items st)) done.
  Proof.
    induction f as [|f IH]; intros items st popped F Inv HF.
    - destruct items as [|[p n] q].
      + destruct F as [|F]; [lia|]. unfold prr_walk. cbn [prr_walk_gen prr_gwalk]. rewrite (iv_queue _ _ _ _ Inv).
        split; [reflexivity|]. eexists. exact (iv_tbl _ _ _ _ Inv).
      + pose proof (iv_size _ _ _ _ Inv) as Hs. cbn [prr_dq map fst snd] in Hs. rewrite ps_wsize_cons in Hs.
        pose proof (tsize_pos (mrr_dtree [] n)). lia.
    - destruct items as [|[p n] q].
      + destruct F as [|F]; [lia|]. unfold prr_walk. cbn [prr_walk_gen prr_gwalk]. rewrite (iv_queue _ _ _ _ Inv).
        split; [reflexivity|]. eexists. exact (iv_tbl _ _ _ _ Inv).
      + destruct Inv as [Hq Hn Hseen Hnd Hs Htb Hver].
        assert (Hpn : mrr_node_at t p = Some n) by (apply Hn; left; reflexivity).
        destruct n as [fm len|m dl kids].
        * (* a file record: nothing to walk *)
          cbn [prr_gwalk]. apply (IH q st (popped ++ [p]) F); [|lia].
          cbn [prr_dq map fst snd mrr_dtree wgo child_pos_from] in Hnd. rewrite app_nil_r in Hnd.
          cbn [prr_dq map fst snd mrr_dtree] in Hs. rewrite ps_wsize_cons in Hs. fold (prr_dq q) in Hs.
          cbn [tsize map list_sum] in Hs.
          constructor; try assumption.
          -- intros p' n' Hin. apply Hn. right. exact Hin.
          -- intros b Hin. destruct (Hseen b Hin) as (p' & m' & d' & k' & Hp' & R). exists p', m', d', k'.
             split; [apply in_or_app; left; exact Hp'|exact R].
          -- rewrite <- app_assoc. exact Hnd.
          -- lia.
          -- rewrite <- app_assoc. exact Htb.
        * (* a directory *)
          cbn [prr_gwalk]. destruct F as [|F]; [lia|]. unfold prr_walk. cbn [prr_walk_gen]. fold prr_walk.
          cbn [filter prr_item_is_dir snd r_is_dir map] in Hq. rewrite Hq.
          set (d := prr_qof (p, RDir m dl kids)).
          assert (Ed : qd_ext d = Master.ms_ext_at DB p /\ qd_len d = dl /\ qd_root d = mrr_is_root p /\
                       (qd_root d = false -> qd_rr d = Some 0)).
          { unfold d, prr_qof. cbn [fst snd qd_ext qd_len qd_root qd_rr]. repeat split. intros ->. reflexivity. }
          destruct Ed as (E1 & E2 & E3 & E4).
          cbn [prr_dq map fst snd mrr_dtree wgo] in Hnd. fold (prr_dq q) in Hnd.
          rewrite <- (prr_dq_items p kids 0) in Hnd.
          assert (Hsz : (ps_wsize (prr_dq q ++ prr_dq (prr_items p 0 kids)) <= f)%nat).
          { rewrite ps_wsize_app, prr_dq_items, ps_wsize_child.
            cbn [prr_dq map fst snd mrr_dtree] in Hs. rewrite ps_wsize_cons in Hs. fold (prr_dq q) in Hs.
            cbn [tsize] in Hs. lia. }
          destruct (ps_wgo_prefix f _ Hsz) as [rest Hrest].
          pose proof Hnd as Hnd0.
          rewrite Hrest, map_app in Hnd.
          assert (Hfst : forall l, map snd (prr_dq l) = map fst l).
          { intros l. unfold prr_dq. rewrite map_map. reflexivity. }
          rewrite !Hfst, prr_items_fst in Hnd.
          assert (Hnew : ~ In p popped).
          { apply NoDup_remove_2 in Hnd. intros Hin. apply Hnd. apply in_or_app. left. exact Hin. }
          destruct (mrr_dir_dl dt s Hdt Hwf p m dl kids Hpn) as (Hmod & Hge & _).
          assert (Henter : prr_enter (w_seen st) (qd_ext d) (qd_len d) = Some (prr_range (qd_ext d) (qd_len d) ++ w_seen st)).
          { unfold prr_enter. cbv zeta.
            replace (existsb (fun b => ps_mem b (w_seen st)) (prr_range (qd_ext d) (qd_len d))) with false; [reflexivity|].
            symmetry. apply not_true_is_false. intros Hex. apply existsb_exists in Hex. destruct Hex as (b & Hb & Hmem).
            rewrite E1, E2 in Hb. apply (prr_range_in _ _ _ Hmod ltac:(lia)) in Hb.
            unfold ps_mem in Hmem. apply existsb_exists in Hmem. destruct Hmem as (b' & Hb' & E). apply Z.eqb_eq in E. subst b'.
            destruct (Hseen _ Hb') as (p' & m' & d' & k' & Hp' & Hn' & Hr').
            apply (prr_dir_blocks_disjoint p m dl kids p' m' d' k' b Hpn Hn'); [|exact Hb|exact Hr'].
            intros ->. exact (Hnew Hp'). }
          rewrite Henter.
          assert (HX : forall j, (j < length kids)%nat -> ~ In (p ++ [j]) (popped ++ map fst ((p, RDir m dl kids) :: q))).
          { intros j Hj Hin. cbn [map fst] in Hin.
            assert (Hk : In (p ++ [j]) (prr_kid_positions p 0 (length kids))).
            { unfold prr_kid_positions. apply in_map_iff. exists j. split; [reflexivity|]. apply in_seq. lia. }
            apply in_split in Hk. destruct Hk as (l1 & l2 & Hk). rewrite Hk in Hnd.
            replace (popped ++ p :: (map fst q ++ l1 ++ (p ++ [j]) :: l2) ++ rest)
              with ((popped ++ p :: map fst q ++ l1) ++ (p ++ [j]) :: (l2 ++ rest)) in Hnd
              by (rewrite <- !app_assoc; cbn [app]; rewrite <- !app_assoc; reflexivity).
            apply NoDup_remove_2 in Hnd. apply Hnd. apply in_or_app. left.
            apply in_app_or in Hin. destruct Hin as [Hin|Hin]; [apply in_or_app; left; exact Hin|].
            apply in_or_app. right. destruct Hin as [Hin|Hin]; [left; exact Hin|right].
            apply in_or_app. left. exact Hin. }
          destruct (prr_dir_scan dt s Hdt Hwf Hsorted img' Hok Hincl p m dl kids st (map prr_qof (filter prr_item_is_dir q)) d _
                      Hpn E1 E2 E3 E4 Hq Htb HX Hver) as (data & st2 & last' & Hread & Hscan & Hend & Htb2).
          rewrite Hread. change (prr_record_gen true) with prr_record. rewrite Hscan, Hend.
          apply (IH _ _ (popped ++ [p]) F); [|lia].
          constructor.
          -- unfold prr_spec_dir, mrr_dir_specs. rewrite Hpn. cbn [prr_end_dir w_queue].
             rewrite (proj1 (prr_spec_kids_fields p kids 0 _)). cbn [w_queue]. rewrite Hq. cbn [tl].
             rewrite filter_app, map_app. reflexivity.
          -- intros p' n' Hin. apply in_app_or in Hin. destruct Hin as [Hin|Hin]; [apply Hn; right; exact Hin|].
             destruct (prr_items_in p kids kids 0 (fun i c H => H) p' n' Hin) as (i & -> & Hi).
             rewrite (mrr_node_at_snoc p i t _ Hpn). exact Hi.
          -- unfold prr_spec_dir, mrr_dir_specs. rewrite Hpn. cbn [prr_end_dir w_seen].
             rewrite (proj1 (proj2 (prr_spec_kids_fields p kids 0 _))). cbn [w_seen].
             intros b Hin. apply in_app_or in Hin. destruct Hin as [Hin|Hin].
             ++ exists p, m, dl, kids. split; [apply in_or_app; right; left; reflexivity|]. split; [exact Hpn|].
                apply (prr_range_in _ _ _ Hmod ltac:(lia)). exact Hin.
             ++ destruct (Hseen b Hin) as (p' & m' & d' & k' & Hp' & R). exists p', m', d', k'.
                split; [apply in_or_app; left; exact Hp'|exact R].
          -- unfold prr_dq at 1. rewrite map_app. fold (prr_dq q). fold (prr_dq (prr_items p 0 kids)).
             rewrite <- app_assoc. exact Hnd0.
          -- unfold prr_dq at 1. rewrite map_app. exact Hsz.
          -- apply (prr_tinv_mono s _ _ _ Htb2). rewrite map_app, prr_items_fst. cbn [map fst].
             intros x Hx. apply in_app_or in Hx. destruct Hx as [Hx|Hx].
             ++ apply in_app_or in Hx. destruct Hx as [Hx|[<-|Hx]].
                ** apply in_or_app. left. apply in_or_app. left. exact Hx.
                ** apply in_or_app. left. apply in_or_app. right. left. reflexivity.
                ** apply in_or_app. right. apply in_or_app. left. exact Hx.
             ++ apply in_or_app. right. apply in_or_app. right. exact Hx.
          -- right. unfold prr_spec_dir, mrr_dir_specs. rewrite Hpn. cbn [prr_end_dir w_ver]. rewrite (proj2 (proj2 (prr_spec_kids_fields p kids 0 _))). reflexivity.
  Qed.
End Walk.
Print Assumptions prr_walk_ok.
