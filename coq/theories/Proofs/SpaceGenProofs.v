(* The space counters of Model/VolDesc.v (and hence every theorem about add_to_space_size /
   remove_from_space_size: add_remove_same, the non-additivity witness) are the TRANSLATED source of
   PrimaryOrSupplementaryVD.add_to_space_size / remove_from_space_size (Gen/GenObj.v, regenerated
   from /repo on every run). *)
From Coq Require Import ZArith List.
From PV.Gen Require Import GenFun.
From PV.Gen Require GenObj.
From PV.Model Require VolDesc.
Local Open Scope Z_scope.

Theorem add_to_space_size_is_the_source : forall s l n,
  GenObj.vd_add_to_space_size s l n = VolDesc.add_to_space_size s l n.
Proof. reflexivity. Qed.

Theorem remove_from_space_size_is_the_source : forall s l n,
  GenObj.vd_remove_from_space_size s l n = VolDesc.remove_from_space_size s l n.
Proof. reflexivity. Qed.

Print Assumptions add_to_space_size_is_the_source.
Print Assumptions remove_from_space_size_is_the_source.
