(* C10 -- Model/UdfLayout.v: what is known about udf_layout_iso ps iso t for a well-formed tree t,
   collected once (ul_facts) for the theorems in UdfLayoutSpaceProofs.v and UdfLayoutProofs.v. *)
From Coq Require Import ZArith List Bool Lia ZifyBool Arith.
From PV.Base Require Import Prim.
From PV.Gen Require Import GenFun.
From PV.Model Require Import Codec Fid UdfDir UdfLayout.
From PV.Proofs Require Import ChecksumsArithProofs FidProofs UdfDirProofs UdfLayoutBfsProofs UdfLayoutViewProofs.
Import ListNotations.
Local Open Scope Z_scope.

Definition ul_names (lo : layout) : list (nat * Z) := flat_map (fun r => ul_file_kids (dr_node r)) (lo_dirs lo).

Record ul_facts (ps : Z) (iso : iso_side) (t : utree) (lo : layout) : Prop := {
  uf_ps : lo_ps lo = ps;
  uf_chain : ul_chain (ps + 2) (lo_dirs lo);
  uf_root : exists r0, nth_error (lo_dirs lo) 0 = Some r0 /\ ul_is_rec r0 [] (ps + 2) (ut_children t);
  uf_link : ul_linked 0 (lo_dirs lo);
  uf_ok : Forall (fun r => ul_node_ok (dr_node r)) (lo_dirs lo);
  uf_sub : Forall (fun r => incl (flat_map ul_inodes (dr_node r)) (ul_inodes t)) (lo_dirs lo);
  uf_ndirs : length (lo_dirs lo) = ul_count_dirs t;
  uf_nfiles : length (ul_names lo) = ul_count_files t;
  uf_fes : lo_fes lo = fst (ul_assign_fes (ul_chain_end (ps + 2) (lo_dirs lo)) [] (ul_names lo));
  uf_udf_end : lo_udf_end lo = snd (ul_assign_fes (ul_chain_end (ps + 2) (lo_dirs lo)) [] (ul_names lo));
  uf_data : lo_data lo = fst (ul_assign_data (lo_udf_end lo + iso_meta iso) [] (iso_files iso ++ ul_udf_files (lo_fes lo)));
  uf_end : lo_end lo = snd (ul_assign_data (lo_udf_end lo + iso_meta iso) [] (iso_files iso ++ ul_udf_files (lo_fes lo)));
  uf_part : lo_part_length lo = ul_part_length iso (lo_dirs lo) (lo_fes lo);
  uf_num_files : lo_num_files lo = zlen (ul_names lo);
  uf_num_dirs : lo_num_dirs lo = zlen (lo_dirs lo);
  uf_unique : lo_unique_id lo = lo_udf_end lo }.

Lemma ul_wf_is_dir t : wf_utree t = true -> exists n cs, t = UDir n cs /\ ul_node_ok cs /\ ul_consistent (ul_inodes t) = true.
Proof.
  unfold wf_utree. intros H. apply andb_prop in H. destruct H as [H H4]. apply andb_prop in H. destruct H as [H H3].
  apply andb_prop in H. destruct H as [H1 H2]. destruct t as [n l i|n cs]; [discriminate|].
  exists n, cs. cbn [ut_children] in *. repeat split; assumption.
Qed.

Lemma ul_incl_child t cs n cs' : incl (flat_map ul_inodes cs) (ul_inodes t) -> In (UDir n cs') cs ->
  incl (flat_map ul_inodes cs') (ul_inodes t).
Proof.
  intros H Hin x Hx. apply H. apply in_flat_map. exists (UDir n cs'). split; [exact Hin|]. rewrite ul_inodes_dir. exact Hx.
Qed.

Theorem ul_facts_of_wf ps iso t : wf_utree t = true -> ul_facts ps iso t (udf_layout_iso ps iso t).
Proof.
  intros Hwf. destruct (ul_wf_is_dir t Hwf) as (n & cs & -> & Hnok & Hcons).
  unfold udf_layout_iso. cbn [ut_children].
  match goal with |- context [ul_bfs _ _ _ ?q0] => set (q := q0) end.
  assert (Hforest : ul_forest q = ul_count_dirs (UDir n cs)).
  { rewrite ul_count_dirs_dir. unfold q, ul_forest, ul_qdirs. cbn [map ul_nsum snd]. lia. }
  assert (Hfuel : (ul_forest q <= S (ul_count_dirs (UDir n cs)))%nat) by lia.
  pose proof (ul_bfs_chain (S (ul_count_dirs (UDir n cs))) 0 (ps + 2) q) as [Hch Hend].
  pose proof (ul_bfs_length _ 0%nat (ps + 2) q Hfuel) as Hlen.
  pose proof (ul_bfs_files _ 0%nat (ps + 2) q Hfuel) as Hfiles.
  pose proof (ul_bfs_linked _ 0%nat (ps + 2) q Hfuel) as [Hq Hlink].
  pose proof (ul_bfs_forall ul_node_ok ul_node_ok_child (S (ul_count_dirs (UDir n cs))) 0%nat (ps + 2) q
                ltac:(constructor; [exact Hnok|constructor])) as Hok.
  pose proof (ul_bfs_forall (fun c => incl (flat_map ul_inodes c) (ul_inodes (UDir n cs))) (ul_incl_child (UDir n cs))
                (S (ul_count_dirs (UDir n cs))) 0%nat (ps + 2) q
                ltac:(constructor; [cbn [snd]; rewrite ul_inodes_dir; apply incl_refl|constructor])) as Hsub.
  destruct (ul_bfs (S (ul_count_dirs (UDir n cs))) 0 (ps + 2) q) as [dirs cur1]. cbn [fst snd] in *. subst cur1.
  destruct (ul_assign_fes (ul_chain_end (ps + 2) dirs) [] (flat_map (fun r => ul_file_kids (dr_node r)) dirs)) as [fes cur2] eqn:EF.
  destruct (ul_assign_data (cur2 + iso_meta iso) [] (iso_files iso ++ ul_udf_files fes)) as [data cur3] eqn:ED.
  constructor; cbn [lo_ps lo_dirs lo_fes lo_udf_end lo_data lo_end lo_part_length lo_num_files lo_num_dirs lo_unique_id];
    unfold ul_names; cbn [lo_dirs]; try reflexivity; try assumption.
  - destruct (Hq 0%nat [] (ps + 2) cs eq_refl) as (r0 & H1 & H2). exists r0. split; assumption.
  - rewrite Hlen. exact Hforest.
  - rewrite Hfiles, ul_count_files_dir. unfold q, ul_forest_files, ul_qfiles. cbn [map ul_nsum snd]. lia.
  - rewrite EF. reflexivity.
  - rewrite EF. reflexivity.
  - rewrite ED. reflexivity.
  - rewrite ED. reflexivity.
Qed.

(* ---- keys of the view ---- *)
Lemma ul_incr_shift ks : forall c d, ul_incr c ks -> ul_incr (c - d) (map (fun k => k - d) ks).
Proof.
  induction ks as [|k r IH]; intros c d H; [exact I|]. cbn [map ul_incr] in *. destruct H as [H1 H2]. split; [lia|].
  replace (k - d + 1) with (k + 1 - d) by lia. exact (IH _ _ H2).
Qed.

Lemma ul_dir_keys lo : forall rs cur tail, ul_chain cur rs -> Forall (fun r => ul_node_ok (dr_node r)) rs ->
  ul_incr (ul_chain_end cur rs - lo_ps lo) tail ->
  ul_incr (cur - lo_ps lo) (map fst (flat_map (ul_dir_entries lo) rs) ++ tail).
Proof.
  induction rs as [|r rs IH]; intros cur tail Hc Hok Ht; [exact Ht|].
  cbn [ul_chain ul_chain_end] in *. destruct Hc as [Hfe Hc]. inversion Hok as [|? ? Hr Hrs]; subst.
  cbn [flat_map ul_dir_entries app map fst ul_incr]. pose proof (ul_blocks_pos _ Hr) as Hb.
  split; [lia|]. split; [lia|]. eapply ul_incr_weaken; [|exact (IH _ _ Hc Hrs Ht)]. lia.
Qed.

Lemma ul_file_keys lo fs cur seen :
  ul_incr (cur - lo_ps lo) (map fst (map (ul_file_entry lo) (fst (ul_assign_fes cur seen fs)))).
Proof.
  rewrite map_map.
  rewrite (map_ext _ (fun x => snd (fst x) - lo_ps lo)) by (intros [[i fe] l]; reflexivity).
  rewrite <- (map_map (fun x => snd (fst x)) (fun k => k - lo_ps lo)). apply ul_incr_shift, ul_assign_fes_incr.
Qed.

Lemma ul_view_keys ps iso t lo : ul_facts ps iso t lo -> ul_incr 2 (map fst (snd (view lo))).
Proof.
  intros F. unfold view. cbn [snd]. rewrite map_app. replace 2 with (ps + 2 - lo_ps lo) by (rewrite (uf_ps _ _ _ _ F); lia).
  apply ul_dir_keys; [exact (uf_chain _ _ _ _ F)|exact (uf_ok _ _ _ _ F)|]. rewrite (uf_fes _ _ _ _ F). apply ul_file_keys.
Qed.

(* ---- every file name finds the File Entry of its inode, with its own length ---- *)
Lemma ul_wf_file cs n l i : ul_node_ok cs -> In (UFile n l i) cs -> 0 <= l <= ul_max_piece.
Proof.
  intros [_ Hw] Hin. rewrite forallb_forall in Hw. specialize (Hw _ Hin). cbn [ul_wf_node] in Hw. lia.
Qed.

Lemma ul_names_in lo r n l i : In r (lo_dirs lo) -> In (UFile n l i) (dr_node r) -> In (i, l) (ul_names lo).
Proof.
  intros Hr Hin. unfold ul_names. apply in_flat_map. exists r. split; [exact Hr|]. exact (ul_file_kids_in _ n l i Hin).
Qed.

Lemma ul_names_sub ps iso t lo : ul_facts ps iso t lo -> incl (ul_names lo) (ul_inodes t).
Proof.
  intros F x Hx. unfold ul_names in Hx. apply in_flat_map in Hx. destruct Hx as (r & Hr & Hx).
  pose proof (proj1 (Forall_forall _ _) (uf_sub _ _ _ _ F) r Hr) as Hs. apply Hs. exact (ul_file_kids_inodes _ _ Hx).
Qed.

Lemma ul_facts_files ps iso t lo : wf_utree t = true -> ul_facts ps iso t lo ->
  forall r n l i, In r (lo_dirs lo) -> In (UFile n l i) (dr_node r) ->
    exists fe, ul_find i (lo_fes lo) = Some fe /\ In (i, fe, l) (lo_fes lo) /\ 0 <= l.
Proof.
  intros Hwf F r n l i Hr Hin. destruct (ul_wf_is_dir t Hwf) as (n0 & cs0 & _ & _ & Hcons).
  pose proof (ul_names_in lo r n l i Hr Hin) as Hn.
  destruct (ul_assign_fes_find (ul_names lo) (ul_chain_end (ps + 2) (lo_dirs lo)) [] i l Hn ltac:(intros [])) as (fe & l' & H1 & H2).
  rewrite <- (uf_fes _ _ _ _ F) in H1, H2. exists fe. split; [exact H1|].
  assert (l' = l).
  { rewrite (uf_fes _ _ _ _ F) in H2. destruct (ul_assign_fes_fresh _ _ _ _ H2) as [_ H3]. cbn [fst snd] in H3.
    apply (ul_consistent_spec _ Hcons i); apply (ul_names_sub _ _ _ _ F); assumption. }
  subst l'. split; [exact H2|].
  pose proof (proj1 (Forall_forall _ _) (uf_ok _ _ _ _ F) r Hr) as Hnok. exact (proj1 (ul_wf_file _ n l i Hnok Hin)).
Qed.

Print Assumptions ul_facts_of_wf.
Print Assumptions ul_view_keys.
Print Assumptions ul_facts_files.
