(* MasterRR, part 5: where everything lies, for a well-formed state.
     mrr_first_*     the first users of the continuation blocks: sound, one per block identity, complete
     mrr_ext_spec    every record has its range in the walk; a directory's extents are the head of its range
     mrr_ce_spec     the continuation block of a record lies right after the extents of its first user, inside that
                     record's range: so it meets no directory extent, no other block, and not the ER sector
     mrr_ce_inj      different block identities: different extents *)
From Coq Require Import ZArith List Bool Lia ZifyBool.
From PV.Base Require Import Prim.
From PV.Gen Require Import GenConst GenFun.
From PV.Model Require Import Pack PathTable RREntries RRWalk RRPlace.
From PV.Model Require Master Account.
From PV.Proofs Require AccountLemmas.
From PV.Model Require Import AccountRR MasterRR.
From PV.Proofs Require Import PathTableLemmas PathTableProofs MasterBfs MasterRRTree.
Import ListNotations.
Local Open Scope Z_scope.

(* ---- first users ------------------------------------------------------------------------------------- *)
Lemma mrr_mem_nat_spec i l : mem_nat i l = true <-> In i l.
Proof.
  unfold mem_nat. rewrite existsb_exists. split.
  - intros (x & Hx & E). apply Nat.eqb_eq in E. subst. exact Hx.
  - intros H. exists i. split; [exact H|apply Nat.eqb_refl].
Qed.

Lemma mrr_first_sound t : forall ps seen q k, In (q, k) (mrr_first t seen ps) ->
  In q ps /\ (exists n, mrr_node_at t q = Some n /\ m_ce (meta_of n) = Some k) /\ ~ In (mrr_key_id k) seen.
Proof.
  induction ps as [|p ps IH]; intros seen q k H; [destruct H|]. cbn [mrr_first] in H.
  assert (R : forall sn, In (q, k) (mrr_first t sn ps) -> (forall i, In i seen -> In i sn) ->
              In q (p :: ps) /\ (exists n, mrr_node_at t q = Some n /\ m_ce (meta_of n) = Some k) /\
              ~ In (mrr_key_id k) seen).
  { intros sn Hin Hs. destruct (IH sn q k Hin) as (A & B & D). split; [right; exact A|]. split; [exact B|].
    intros X. apply D. apply Hs. exact X. }
  destruct (mrr_node_at t p) as [n|] eqn:En; [|apply (R seen H); auto].
  destruct (m_ce (meta_of n)) as [k0|] eqn:Ek; [|apply (R seen H); auto].
  destruct (mem_nat (mrr_key_id k0) seen) eqn:Em; [apply (R seen H); auto|].
  destruct H as [H|H].
  - injection H as <- <-. split; [left; reflexivity|]. split; [exists n; split; assumption|].
    intros X. apply mrr_mem_nat_spec in X. congruence.
  - apply (R _ H). intros i Hi. right. exact Hi.
Qed.

Lemma mrr_first_nodup t : forall ps seen, NoDup (map (fun x => mrr_key_id (snd x)) (mrr_first t seen ps)).
Proof.
  induction ps as [|p ps IH]; intros seen; [constructor|]. cbn [mrr_first].
  destruct (mrr_node_at t p) as [n|]; [|apply IH]. destruct (m_ce (meta_of n)) as [k0|]; [|apply IH].
  destruct (mem_nat (mrr_key_id k0) seen); [apply IH|]. cbn [map snd]. constructor; [|apply IH].
  intros X. apply in_map_iff in X. destruct X as ([q k] & E & Hin). cbn [snd] in E.
  destruct (mrr_first_sound t ps _ q k Hin) as (_ & _ & D). apply D. left. symmetry. exact E.
Qed.

Lemma mrr_first_complete t : forall ps seen q n k, In q ps -> mrr_node_at t q = Some n ->
  m_ce (meta_of n) = Some k ->
  In (mrr_key_id k) seen \/ exists q' k', In (q', k') (mrr_first t seen ps) /\ mrr_key_id k' = mrr_key_id k.
Proof.
  induction ps as [|p ps IH]; intros seen q n k Hin Hn Hk; [destruct Hin|]. cbn [mrr_first].
  destruct Hin as [->|Hin].
  - rewrite Hn, Hk. destruct (mem_nat (mrr_key_id k) seen) eqn:Em; [left; apply mrr_mem_nat_spec; exact Em|].
    right. exists q, k. split; [left; reflexivity|reflexivity].
  - destruct (mrr_node_at t p) as [n0|] eqn:En; [|exact (IH seen q n k Hin Hn Hk)].
    destruct (m_ce (meta_of n0)) as [k0|] eqn:Ek; [|exact (IH seen q n k Hin Hn Hk)].
    destruct (mem_nat (mrr_key_id k0) seen) eqn:Em; [exact (IH seen q n k Hin Hn Hk)|].
    destruct (IH (mrr_key_id k0 :: seen) q n k Hin Hn Hk) as [[E|X]|(q' & k' & A & B)].
    + right. exists p, k0. split; [left; reflexivity|exact E].
    + left. exact X.
    + right. exists q', k'. split; [right; exact A|exact B].
Qed.

Lemma mrr_find_id {A} (g : A -> nat) (l : list A) x : NoDup (map g l) -> In x l ->
  find (fun y => Nat.eqb (g y) (g x)) l = Some x.
Proof.
  induction l as [|y l IH]; intros Hnd Hin; [destruct Hin|]. cbn [map] in Hnd. inversion Hnd as [|? ? Hn Hnd']; subst.
  cbn [find]. destruct Hin as [->|Hin]; [rewrite Nat.eqb_refl; reflexivity|].
  destruct (Nat.eqb (g y) (g x)) eqn:E; [|exact (IH Hnd' Hin)].
  apply Nat.eqb_eq in E. exfalso. apply Hn. rewrite E. apply in_map. exact Hin.
Qed.

Lemma mrr_key_mem_in k l : In k l -> mrr_key_mem k l = true.
Proof.
  intros H. unfold mrr_key_mem. apply existsb_exists. exists k. split; [exact H|].
  destruct k as [[i o] n]. unfold key_eqb. rewrite Nat.eqb_refl, !Z.eqb_refl. reflexivity.
Qed.

Lemma mrr_flag_range fk m : 0 <= mrr_flag fk m <= 1.
Proof. unfold mrr_flag. destruct (m_ce m); [destruct (mrr_key_mem _ _)|]; lia. Qed.

Lemma mrr_ceil_nonneg x : 0 <= x -> 0 <= ceiling_div x BS.
Proof. unfold ceiling_div, BS. lia. Qed.

Lemma mrr_blocks_ok v dt fk b : forall isroot n, mrr_wf_node v dt b isroot n = true ->
  blocks_okb (mrr_dtree fk n) = true /\ blocks_okb (mrr_ftree n) = true.
Proof.
  induction b as [|f IH]; intros isroot n Hw; [discriminate|].
  destruct n as [m len|m dl kids]; cbn [mrr_wf_node] in Hw; apply andb_prop in Hw; destruct Hw as [_ Hw].
  - cbn [mrr_dtree mrr_ftree blocks_okb forallb]. pose proof (mrr_flag_range fk m).
    assert (0 <= len) by lia. pose proof (mrr_ceil_nonneg len H0). destruct (m_ino m); split; lia.
  - apply andb_prop in Hw. destruct Hw as [Hw Hk]. apply andb_prop in Hw. destruct Hw as [Hi _].
    destruct (mrr_invb_ge _ _ _ _ Hi) as [_ Hge]. rewrite forallb_forall in Hk.
    cbn [mrr_dtree mrr_ftree blocks_okb]. pose proof (mrr_flag_range fk m).
    assert (H0 : 0 <= dl) by (unfold BS in Hge; lia). pose proof (mrr_ceil_nonneg dl H0).
    split; apply andb_true_intro; (split; [lia|]); apply forallb_forall; intros x Hx;
      apply in_map_iff in Hx; destruct Hx as (c & <- & Hc); apply (IH false c (Hk c Hc)).
Qed.

(* ---- the layout of a well-formed state ------------------------------------------------------------------ *)
Section Layout.
  Variable dt : list Z.
  Variable s : rstate.
  Hypothesis Hwf : mrr_wf dt s = true.

  Local Notation t := (r_root s).
  Local Notation v := (r_ver s).
  Local Notation L := (mrr_layout s).
  Local Notation fu := (mrr_first t [] (mrr_order t)).
  Local Notation fk := (map snd fu).
  Local Notation T := (mrr_dtree fk t).
  Local Notation st := (mrr_start s).

  Lemma mrr_l_fu : l_fu L = fu. Proof. reflexivity. Qed.
  Lemma mrr_l_DB : l_DB L = bfs st T. Proof. reflexivity. Qed.
  Lemma mrr_l_er : l_er L = assign_end st T. Proof. reflexivity. Qed.
  Lemma mrr_l_FB : l_FB L = bfs (l_er L + 1) (mrr_ftree t). Proof. reflexivity. Qed.

  Lemma mrr_wf_root : v <> V_unset /\ exists m dl kids, t = RDir m dl kids /\ m_name m = [0] /\ m_ce m = None /\
    (exists b, mrr_wf_node v dt b true t = true) /\ ForallOrdPairs mrr_apartP (mrr_keys t) /\
    0 <= r_ptr_ext s /\ mrr_layout_end s <= 4294967296.
  Proof.
    pose proof Hwf as Hw. unfold mrr_wf in Hw.
    assert (Hv : v <> V_unset) by (intros E; rewrite E in Hw; discriminate Hw).
    split; [exact Hv|].
    destruct t as [m len|m dl kids] eqn:Et; [destruct v; discriminate Hw|].
    assert (Hw' : Account.bytes_eqb (m_name m) [0] && negb (is_some (m_ce m)) &&
                  mrr_wf_node v dt (mrr_height (RDir m dl kids)) true (RDir m dl kids) && mrr_keys_apart (mrr_keys (RDir m dl kids)) &&
                  (0 <=? r_ptr_ext s) && (mrr_layout_end s <=? 4294967296) = true)
      by (destruct v; [congruence|exact Hw..]).
    repeat (apply andb_prop in Hw'; destruct Hw' as [Hw' ?]).
    exists m, dl, kids. split; [reflexivity|].
    split; [apply AccountLemmas.bytes_eqb_eq; exact Hw'|].
    split; [destruct (m_ce m); [discriminate|reflexivity]|].
    split; [eexists; eassumption|]. split; [apply mrr_keys_apart_fop; assumption|]. lia.
  Qed.

  Lemma mrr_root_is_dir : r_is_dir t = true.
  Proof. destruct mrr_wf_root as (_ & m & dl & kids & -> & _). reflexivity. Qed.

  Lemma mrr_wf_at p c : mrr_node_at t p = Some c ->
    exists b, mrr_wf_node v dt b (mrr_is_root p) c = true.
  Proof.
    destruct mrr_wf_root as (_ & m & dl & kids & _ & _ & _ & (b0 & Hw) & _). intros H.
    destruct (mrr_wf_node_at v dt p b0 true t c Hw H) as [b Hb]. exists b. destruct p; exact Hb.
  Qed.

  Lemma mrr_T_ok : blocks_okb T = true /\ blocks_okb (mrr_ftree t) = true.
  Proof. destruct mrr_wf_root as (_ & m & dl & kids & _ & _ & _ & (b0 & Hw) & _). exact (mrr_blocks_ok v dt fk b0 true t Hw). Qed.

  Lemma mrr_start_nonneg : 19 <= st.
  Proof. destruct mrr_wf_root as (_ & _ & _ & _ & _ & _ & _ & _ & _ & H & _). unfold mrr_start. lia. Qed.

  (* the walk order: every position, once *)
  Lemma mrr_order_complete p n : mrr_node_at t p = Some n -> In p (mrr_order t).
  Proof.
    intros H. unfold mrr_order. rewrite (write_order_is_bfs 0).
    destruct (ms_bfs_complete 0 (mrr_dtree [] t) p (mrr_dtree [] n)) as (r & Hr & Hp);
      [rewrite mrr_subtree_dtree, H; reflexivity|].
    rewrite <- Hp. apply in_map. exact Hr.
  Qed.
  Lemma mrr_order_nodup : NoDup (mrr_order t).
  Proof. unfold mrr_order. rewrite (write_order_is_bfs 0). apply ms_bfs_nodup. Qed.

  (* every record: its range in the walk *)
  Lemma mrr_ext_spec p n : mrr_node_at t p = Some n ->
    exists r, In r (l_DB L) /\ d_pos r = p /\ Master.ms_ext_at (l_DB L) p = d_extent r /\
              d_blocks r = mrr_dblocks n + mrr_flag fk (meta_of n) /\
              st <= d_extent r /\ d_extent r + d_blocks r <= l_er L /\ 0 <= mrr_dblocks n.
  Proof.
    intros H. rewrite mrr_l_DB, mrr_l_er.
    destruct (ms_ext_at_spec st T p (mrr_dtree fk n)) as (r & Hr & Hp & He & _ & Hb);
      [rewrite mrr_subtree_dtree, H; reflexivity|].
    destruct (ms_bfs_bounds st T r (proj1 mrr_T_ok) Hr) as (B1 & B2 & B3).
    exists r. split; [exact Hr|]. split; [exact Hp|]. split; [exact He|].
    assert (Hbl : d_blocks r = mrr_dblocks n + mrr_flag fk (meta_of n)).
    { rewrite Hb. destruct n; cbn [mrr_dtree tblocks mrr_dblocks meta_of]; lia. }
    split; [exact Hbl|]. split; [exact B1|]. split; [exact B2|].
    pose proof (mrr_flag_range fk (meta_of n)). destruct n as [m len|m dl kids]; cbn [mrr_dblocks]; [lia|].
    destruct (mrr_wf_at p _ H) as [b Hw]. destruct b as [|f]; [discriminate|]. cbn [mrr_wf_node] in Hw.
    apply andb_prop in Hw. destruct Hw as [_ Hw]. apply andb_prop in Hw. destruct Hw as [Hw _].
    apply andb_prop in Hw. destruct Hw as [Hi _]. destruct (mrr_invb_ge _ _ _ _ Hi) as [_ Hge].
    apply mrr_ceil_nonneg. unfold BS in Hge. lia.
  Qed.

  Lemma mrr_ranges_disjoint p1 p2 r1 r2 : In r1 (l_DB L) -> In r2 (l_DB L) -> d_pos r1 = p1 -> d_pos r2 = p2 ->
    p1 <> p2 -> d_extent r1 + d_blocks r1 <= d_extent r2 \/ d_extent r2 + d_blocks r2 <= d_extent r1.
  Proof.
    intros H1 H2 E1 E2 Hne. rewrite mrr_l_DB in H1, H2.
    apply (ms_bfs_disjoint st T r1 r2 (proj1 mrr_T_ok) H1 H2). congruence.
  Qed.

  Lemma mrr_er_bounds : st <= l_er L /\ l_er L + 1 <= mrr_layout_end s /\ mrr_layout_end s <= 4294967296.
  Proof.
    destruct mrr_wf_root as (_ & m & dl & kids & Et & _ & _ & _ & _ & _ & Hend).
    destruct (mrr_ext_spec [] t eq_refl) as (r & _ & _ & _ & Hb & B1 & B2 & B3).
    pose proof (mrr_flag_range fk (meta_of t)).
    assert (H2 : exists r2, In r2 (l_FB L)).
    { rewrite mrr_l_FB, Et. cbn [mrr_ftree]. rewrite bfs_unfold. eexists. left. reflexivity. }
    destruct H2 as [r2 H2]. rewrite mrr_l_FB in H2.
    pose proof (ms_bfs_bounds _ _ r2 (proj2 mrr_T_ok) H2) as B. fold (mrr_layout_end s) in B.
    split; [lia|]. split; [lia|exact Hend].
  Qed.

  (* a file with data *)
  Lemma mrr_fext_range p m len : mrr_node_at t p = Some (RFile m len) -> 0 <= len ->
    0 <= (if m_ino m then Master.ms_fext (l_FB L) p len else 0) <= 4294967295.
  Proof.
    intros H Hl. destruct (m_ino m) eqn:Ei; [|lia]. unfold Master.ms_fext. destruct (len =? 0) eqn:E0; [lia|].
    rewrite mrr_l_FB.
    destruct (ms_ext_at_spec (l_er L + 1) (mrr_ftree t) p (mrr_ftree (RFile m len))) as (r & Hr & _ & He & _ & Hb);
      [rewrite mrr_subtree_ftree, H; reflexivity|].
    pose proof (ms_bfs_bounds _ _ r (proj2 mrr_T_ok) Hr) as B. fold (mrr_layout_end s) in B.
    destruct mrr_er_bounds as (E1 & E2 & E3). pose proof mrr_start_nonneg.
    rewrite He. cbn [mrr_ftree tblocks] in Hb. rewrite Ei in Hb. rewrite Hb in B.
    unfold ceiling_div, BS in B. lia.
  Qed.

  (* ---- continuation blocks ---------------------------------------------------------------------------- *)
  Lemma mrr_fu_sound q k : In (q, k) fu ->
    exists n, mrr_node_at t q = Some n /\ m_ce (meta_of n) = Some k /\ mrr_flag fk (meta_of n) = 1.
  Proof.
    intros H. destruct (mrr_first_sound t _ _ q k H) as (_ & (n & Hn & Hk) & _).
    exists n. split; [exact Hn|]. split; [exact Hk|]. unfold mrr_flag. rewrite Hk.
    rewrite mrr_key_mem_in; [reflexivity|]. apply in_map_iff. exists (q, k). split; [reflexivity|exact H].
  Qed.

  Lemma mrr_fu_find q k : In (q, k) fu ->
    find (fun x => Nat.eqb (mrr_key_id (snd x)) (mrr_key_id k)) fu = Some (q, k).
  Proof.
    intros H. apply (mrr_find_id (fun x : list nat * ckey => mrr_key_id (snd x)) fu (q, k));
      [apply mrr_first_nodup|exact H].
  Qed.

  (* the block of a record that has a continuation area *)
  Theorem mrr_ce_spec p n k : mrr_node_at t p = Some n -> m_ce (meta_of n) = Some k ->
    exists q k' n' r, In (q, k') fu /\ mrr_key_id k' = mrr_key_id k /\ mrr_node_at t q = Some n' /\
      In r (l_DB L) /\ d_pos r = q /\ d_blocks r = mrr_dblocks n' + 1 /\
      mrr_ce_ext t L (mrr_key_id k) = d_extent r + mrr_dblocks n' /\
      Master.ms_ext_at (l_DB L) q = d_extent r /\
      st <= d_extent r /\ d_extent r + d_blocks r <= l_er L /\ 0 <= mrr_dblocks n'.
  Proof.
    intros Hn Hk.
    destruct (mrr_first_complete t (mrr_order t) [] p n k (mrr_order_complete p n Hn) Hn Hk)
      as [[]|(q & k' & Hin & Eid)].
    destruct (mrr_fu_sound q k' Hin) as (n' & Hn' & Hk' & Hfl).
    destruct (mrr_ext_spec q n' Hn') as (r & Hr & Hp & He & Hb & B1 & B2 & B3).
    exists q, k', n', r. split; [exact Hin|]. split; [exact Eid|]. split; [exact Hn'|]. split; [exact Hr|].
    split; [exact Hp|]. split; [lia|]. split.
    - unfold mrr_ce_ext. rewrite mrr_l_fu, <- Eid, (mrr_fu_find q k' Hin), Hn', He. reflexivity.
    - split; [exact He|]. split; [exact B1|]. split; [exact B2|exact B3].
  Qed.

  Lemma mrr_ce_range p n k : mrr_node_at t p = Some n -> m_ce (meta_of n) = Some k ->
    st <= mrr_ce_ext t L (mrr_key_id k) < l_er L.
  Proof.
    intros Hn Hk. destruct (mrr_ce_spec p n k Hn Hk) as (q & k' & n' & r & _ & _ & _ & _ & _ & Hb & He & _ & B1 & B2 & B3).
    lia.
  Qed.

  (* different identities: different extents *)
  Theorem mrr_ce_inj p1 n1 k1 p2 n2 k2 : mrr_node_at t p1 = Some n1 -> m_ce (meta_of n1) = Some k1 ->
    mrr_node_at t p2 = Some n2 -> m_ce (meta_of n2) = Some k2 -> mrr_key_id k1 <> mrr_key_id k2 ->
    mrr_ce_ext t L (mrr_key_id k1) <> mrr_ce_ext t L (mrr_key_id k2).
  Proof.
    intros H1 K1 H2 K2 Hne.
    destruct (mrr_ce_spec p1 n1 k1 H1 K1) as (q1 & k1' & n1' & r1 & I1 & E1 & N1 & R1 & P1 & B1 & X1 & _ & _ & _ & D1).
    destruct (mrr_ce_spec p2 n2 k2 H2 K2) as (q2 & k2' & n2' & r2 & I2 & E2 & N2 & R2 & P2 & B2 & X2 & _ & _ & _ & D2).
    assert (Hq : q1 <> q2).
    { intros ->. destruct (mrr_fu_sound q2 k1' I1) as (a & Ha & Ka & _).
      destruct (mrr_fu_sound q2 k2' I2) as (b & Hb & Kb & _). congruence. }
    destruct (mrr_ranges_disjoint q1 q2 r1 r2 R1 R2 P1 P2 Hq); lia.
  Qed.
End Layout.

Print Assumptions mrr_ext_spec.
Print Assumptions mrr_ce_spec.
Print Assumptions mrr_ce_inj.
