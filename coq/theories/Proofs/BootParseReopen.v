(* C11 / C02 -- Model/BootParse.v, part 6: the reopened state satisfies AccountBoot's invariant again
   (so every AccountBoot theorem holds for every edit history that continues from it), PROVIDED every
   boot file without directory record keeps its number of blocks ([bp_blocks_kept]); without that
   proviso the statement is false (Proofs/BootParseRefuted.v). *)
From Coq Require Import ZArith List Bool Lia ZifyBool Sorted Arith Permutation.
From PV.Base Require Import Prim.
From PV.Gen Require Import GenConst GenFun.
From PV.Model Require Import Names Checksums Pack Alloc Codec Eltorito Account AccountLinks AccountBoot BootParse.
From PV.Proofs Require Import PackProofs AllocProofs ChecksumsArithProofs AccountLemmas AccountProofs
     AccountLinksLemmas AccountLinksPurge AccountLinksInv EltoritoCatalogProofs EltoritoBuiltProofs
     AccountBootLemmas AccountBootInv AccountBootInv2 AccountBootFix AccountBootProofs BootParseLayout
     BootParseCat BootParseWalk BootParseLink BootParseTable.
Import ListNotations.
Local Open Scope Z_scope.
Ltac Zify.zify_post_hook ::= Z.to_euclidean_division_equations.

(* every boot file comes back with the number of blocks it was written with *)
Definition bp_blocks_kept_gen (fx : bp_code) (s : bstate) : Prop :=
  forall i, 0 < erefs i (bboot s) ->
    blocks_of (len_of i (linodes (bl (reopened_gen fx s)))) = blocks_of (len_of i (linodes (bl s))).
Definition bp_blocks_kept : bstate -> Prop := bp_blocks_kept_gen Cur.

(* ---- tables ---------------------------------------------------------------------------------------------- *)

Lemma bp_len_of_in k v : forall t, NoDup (ids t) -> In (k, v) t -> len_of k t = v.
Proof.
  induction t as [|[j l] r IH]; intros HN H; [destruct H|]. cbn [ids map fst] in HN. inversion HN as [|? ? Hj HN']; subst.
  cbn [len_of]. destruct H as [H|H].
  - inversion H; subst. rewrite Nat.eqb_refl. reflexivity.
  - destruct (Nat.eqb_spec j k) as [->|Hne]; [|apply IH; assumption].
    exfalso. apply Hj. change k with (fst (k, v)). apply in_map, H.
Qed.

Lemma bp_sum_nz : forall t, NoDup (ids t) ->
  tbl_sum t = Alloc.zsum (map (fun i => blocks_of (len_of i t)) (bp_nonempty_ids t)).
Proof.
  induction t as [|[k v] r IH]; intros HN; [reflexivity|]. cbn [ids map fst] in HN. inversion HN as [|? ? Hk HN']; subst.
  unfold tbl_sum in *. cbn [map snd]. rewrite zsum_cons, (IH HN'). unfold bp_nonempty_ids. cbn [filter snd].
  assert (E : forall l, (forall i, In i l -> In i (ids r)) ->
              map (fun i => blocks_of (len_of i ((k, v) :: r))) l = map (fun i => blocks_of (len_of i r)) l).
  { intros l Hl. apply map_ext_in. intros i Hi. cbn [len_of]. destruct (Nat.eqb_spec k i) as [->|_]; [|reflexivity].
    exfalso. apply Hk, Hl, Hi. }
  assert (Hsub : forall i, In i (map fst (filter (fun e => negb (snd e =? 0)) r)) -> In i (ids r)).
  { intros i Hi. apply in_map_iff in Hi. destruct Hi as (e & <- & He). apply filter_In in He. apply in_map, He. }
  destruct (Z.eqb_spec v 0) as [->|Hv]; cbn [negb].
  - rewrite (E _ Hsub), blocks_of_0. lia.
  - cbn [map fst]. rewrite zsum_cons, (E _ Hsub). cbn [len_of]. rewrite Nat.eqb_refl. reflexivity.
Qed.

Lemma bp_nonempty_in i t : In i (bp_nonempty_ids t) <-> exists v, In (i, v) t /\ v <> 0.
Proof.
  unfold bp_nonempty_ids. rewrite in_map_iff. split.
  - intros ([k v] & <- & H). apply filter_In in H. destruct H as [H1 H2]. exists v. split; [exact H1|].
    cbn [snd] in H2. destruct (Z.eqb_spec v 0); [discriminate|assumption].
  - intros (v & H1 & H2). exists (i, v). split; [reflexivity|]. apply filter_In. split; [exact H1|].
    cbn [snd]. destruct (Z.eqb_spec v 0); [contradiction|reflexivity].
Qed.

Lemma bp_nonempty_nodup t : NoDup (ids t) -> NoDup (bp_nonempty_ids t).
Proof.
  unfold bp_nonempty_ids, ids. induction t as [|[k v] r IH]; intros HN; [constructor|].
  cbn [map fst] in HN. inversion HN as [|? ? Hk HN']; subst. cbn [filter snd].
  destruct (negb (v =? 0)); [|apply IH, HN']. cbn [map fst]. constructor; [|apply IH, HN'].
  intros H. apply Hk. apply in_map_iff in H. destruct H as (e & <- & He). apply filter_In in He. apply in_map, He.
Qed.

Lemma bp_in_ids {A} (k : nat) (v : A) (t : list (nat * A)) : In (k, v) t -> In k (map fst t).
Proof. intros H. change k with (fst (k, v)). apply in_map, H. Qed.

Lemma bp_ref_visit l i : 0 < lrefcount i (lroot l) -> exists nm st, In (LFile nm i st) (lvisit l).
Proof.
  unfold lrefcount. rewrite <- (lvisit_sum (lw_ref i) l).
  rewrite (zsum_pos_iff _ _ (fun n => lw_ref_nonneg i (hdr n))). intros (n & Hn & Hp).
  rewrite lw_ref_hdr in Hp. unfold lw_ref in Hp. destruct (is_ref i n) eqn:E; [|lia].
  apply is_ref_spec in E. destruct E as (nm & st & ->). exists nm, st. exact Hn.
Qed.

(* ---- the invariant ---------------------------------------------------------------------------------------- *)

Section Reopen.
  Variable fx : bp_code.
  Variable s : bstate.
  Hypothesis HI : BInv s.
  Hypothesis HF : BFix s.
  Hypothesis HS : bp_stamps_ok s.
  Hypothesis HK : bp_blocks_kept_gen fx s.
  Let l := bl s.
  Let tbl := linodes (bl s).
  Let nx := lnext (bl s).
  Let t1 := bp_named_tbl nx tbl (lvisit l) [].
  Let ks := bp_nonempty_ids t1.
  Let r := reopened_gen fx s.
  Let t := linodes (bl r).
  Let t2 := match bboot s with
            | Some b => bp_hidden fx s (binos b) (combine (binos b) (cat_scs (bcat b))) ks
            | None => []
            end.

  Lemma bp_t_split : t = t1 ++ t2.
  Proof. unfold t, r, reopened_gen, t2. destruct (bboot s); cbn [bl linodes]; [reflexivity|rewrite app_nil_r; reflexivity]. Qed.

  Lemma bp_t_some b : bboot s = Some b ->
    t = t1 ++ bp_hidden fx s (binos b) (combine (binos b) (cat_scs (bcat b))) (bp_nonempty_ids t1).
  Proof. intros Hb. rewrite bp_t_split. unfold t2. rewrite Hb. reflexivity. Qed.

  Lemma bp_lt j : In j (ids tbl) -> (j < nx)%nat.
  Proof.
    intros Hj. destruct (Nat.lt_ge_cases j nx) as [H|H]; [exact H|]. destruct (bi_fresh s HI j H) as [_ Hn]. contradiction.
  Qed.

  Lemma bp_binos_of b : bboot s = Some b -> map fst (combine (binos b) (cat_scs (bcat b))) = binos b.
  Proof.
    intros Hb. pose proof (bi_cat s HI) as H. rewrite Hb in H. destruct H as (_ & _ & (ab & Hab) & Hlen).
    apply bp_map_fst_combine. unfold cat_scs. rewrite map_length, (bp_built_nent _ _ Hab). lia.
  Qed.

  Lemma bp_t2_entry j : In j (ids t2) -> 0 < erefs j (bboot s) /\ mem j ks = false.
  Proof.
    unfold t2. destruct (bboot s) as [b|] eqn:Hb; [|intros []]. intros Hj. split.
    - cbn [erefs]. apply ab_count_pos. rewrite <- (bp_binos_of b Hb). eapply bp_hidden_ids. exact Hj.
    - apply (proj2 (bp_hidden_nodup fx s (binos b) (combine (binos b) (cat_scs (bcat b))) ks)), Hj.
  Qed.

  (* what is in the walk's table *)
  Lemma bp_t1_in k v : In (k, v) t1 ->
    (v = 0 /\ exists nm i st, In (LFile nm i st) (lvisit l) /\ has_ino i tbl = true /\ len_of i tbl = 0 /\ k = bp_fresh nx i st)
    \/ (v <> 0 /\ v = len_of k tbl /\ bp_placed s k /\ 0 < lrefcount k (lroot l)).
  Proof.
    intros H. destruct (bp_named_in nx tbl k v _ _ H) as [(nm & i & st & H1 & H2 & H3 & H4 & H5)|(H1 & H2 & H3 & _ & nm & st & H5)].
    - left. split; [exact H5|]. exists nm, i, st. tauto.
    - right. split; [exact H3|]. split; [exact H2|]. split; [split; [apply ab_has_ino_in, H1|intros E; apply H3; rewrite H2; exact E]|].
      eapply bp_visit_ref. exact H5.
  Qed.

  Lemma bp_t_nodup : NoDup (ids t).
  Proof.
    rewrite bp_t_split. unfold ids. rewrite map_app. destruct HS as [S1 S2]. apply ab_nodup_app.
    - apply (bp_named_nodup nx tbl bp_lt); assumption.
    - unfold t2. destruct (bboot s); [apply bp_hidden_nodup|constructor].
    - intros k Hk1 Hk2. destruct (bp_t2_entry k Hk2) as [He Hm].
      destruct (bp_entry_placed s HI HF k He) as [Hp1 Hp2].
      apply in_map_iff in Hk1. destruct Hk1 as ([k' v] & Hk & Hin). cbn [fst] in Hk. subst k'.
      destruct (bp_t1_in k v Hin) as [(_ & nm & i & st & _ & _ & H0 & Hf)|(Hv & _ & _ & _)].
      + symmetry in Hf. revert Hf. apply (bp_fresh_not_real nx tbl i st k H0 Hp2), bp_lt, Hp1.
      + assert (In k ks) by (apply bp_nonempty_in; exists v; tauto). apply ab_mem_in in H. congruence.
  Qed.

  Lemma bp_t_len k v : In (k, v) t -> len_of k t = v.
  Proof. apply bp_len_of_in, bp_t_nodup. Qed.

  (* a placed inode of s is in the new table, with the same number of blocks *)
  Lemma bp_placed_in_t i : bp_placed s i -> exists v, In (i, v) t /\ blocks_of v = blocks_of (len_of i tbl).
  Proof.
    intros [Hp1 Hp2]. destruct (bi_live s HI) as (_ & HL & _). specialize (HL i Hp1).
    destruct (Z_lt_le_dec 0 (lrefcount i (lroot l))) as [Hr|Hr].
    - destruct (bp_ref_visit l i Hr) as (nm & st & Hv). exists (len_of i tbl). split; [|reflexivity].
      rewrite bp_t_split. apply in_or_app. left.
      apply (bp_named_covers nx tbl nm i st); [exact Hv|apply ab_has_ino_in, Hp1|exact Hp2|reflexivity].
    - assert (He : 0 < erefs i (bboot s)) by (unfold l in *; lia).
      assert (Hin : In i (ids t)).
      { rewrite bp_t_split. unfold ids. rewrite map_app. apply in_or_app. unfold t2.
        destruct (bboot s) as [b|] eqn:Hb; [|cbn in He; lia]. cbn [erefs] in He. apply ab_count_pos in He.
        destruct (bp_hidden_covers s fx (binos b) i (combine (binos b) (cat_scs (bcat b))) ks) as [H|H];
          [rewrite (bp_binos_of b Hb); exact He| |right; exact H].
        left. apply ab_mem_in in H. apply bp_nonempty_in in H. destruct H as (v & H & _). eapply bp_in_ids, H. }
      apply in_map_iff in Hin. destruct Hin as ([k v] & Hk & Hin). cbn [fst] in Hk. subst k.
      exists v. split; [exact Hin|]. rewrite <- (bp_t_len i v Hin). apply HK, He.
  Qed.

  (* a non-empty entry of the new table is a placed inode of s *)
  Lemma bp_t_nz_placed i v : In (i, v) t -> v <> 0 -> bp_placed s i.
  Proof.
    rewrite bp_t_split. intros H Hv. apply in_app_or in H. destruct H as [H|H].
    - destruct (bp_t1_in i v H) as [[H0 _]|(_ & _ & Hp & _)]; [contradiction|exact Hp].
    - apply (bp_entry_placed s HI HF). apply bp_t2_entry. eapply bp_in_ids, H.
  Qed.

  Lemma bp_tbl_placed i v : NoDup (ids tbl) -> In (i, v) tbl -> v <> 0 -> bp_placed s i.
  Proof.
    intros HN H1 H2. split; [eapply bp_in_ids, H1|]. pose proof (bp_len_of_in i v tbl HN H1) as E. unfold tbl in E.
    rewrite E. exact H2.
  Qed.

  Lemma bp_tbl_sum : tbl_sum t = tbl_sum tbl.
  Proof.
    destruct (bi_live s HI) as (HN & _ & _). rewrite (bp_sum_nz t bp_t_nodup), (bp_sum_nz tbl HN).
    assert (HP : Permutation (bp_nonempty_ids t) (bp_nonempty_ids tbl)).
    { apply NoDup_Permutation; [apply bp_nonempty_nodup, bp_t_nodup|apply bp_nonempty_nodup, HN|].
      intros i. rewrite !bp_nonempty_in. split.
      - intros (v & H1 & H2). destruct (bp_t_nz_placed i v H1 H2) as [P1 P2].
        apply in_map_iff in P1. destruct P1 as ([k w] & Hk & Hin). cbn [fst] in Hk. subst k.
        exists w. split; [exact Hin|]. pose proof (bp_len_of_in i w tbl HN Hin) as E. unfold tbl in E.
        rewrite <- E. exact P2.
      - intros (v & H1 & H2). assert (Hp : bp_placed s i) by (apply (bp_tbl_placed i v HN H1 H2)).
        destruct (bp_placed_in_t i Hp) as (v' & Hin & Hb). exists v'. split; [exact Hin|].
        intros ->. rewrite blocks_of_0 in Hb. destruct Hp as [_ Hp2].
        pose proof (bp_len_nonneg s i HI) as Hn. unfold blocks_of, ceiling_div, C, tbl in *. lia. }
    rewrite (zsum_perm _ _ (Permutation_map _ HP)). f_equal. apply map_ext_in. intros i Hi.
    apply bp_nonempty_in in Hi. destruct Hi as (v & H1 & H2).
    assert (Hp : bp_placed s i) by (apply (bp_tbl_placed i v HN H1 H2)).
    destruct (bp_placed_in_t i Hp) as (v' & Hin & Hb). rewrite (bp_t_len i v' Hin). exact Hb.
  Qed.

  (* ---- the fields of the reopened state ---- *)
  Lemma bp_r_bl : bl r = {| lroot := lmap_ino (bp_relabel nx tbl) (lroot l); linodes := t; lnext := S (bp_fake nx);
                            lptr_size := lptr_size l; lptr_ext := lptr_ext l; lspace := lspace l |}.
  Proof. unfold t, r, reopened_gen. destruct (bboot s); reflexivity. Qed.

  Lemma bp_r_erefs k : erefs k (bboot r) = erefs k (bboot s).
  Proof. unfold r, reopened_gen. destruct (bboot s); reflexivity. Qed.

  Lemma bp_r_boot2 : boot2 (bboot r) = boot2 (bboot s).
  Proof. unfold r, reopened_gen. destruct (bboot s); reflexivity. Qed.

  Lemma bp_rec_lt nm i st : In (LFile nm i st) (lvisit l) -> (i < nx)%nat /\ (st < nx)%nat.
  Proof.
    intros H. split.
    - destruct (Nat.lt_ge_cases i nx) as [Hl|Hl]; [exact Hl|]. destruct (bi_fresh s HI i Hl) as [H0 _].
      pose proof (bp_visit_ref l nm i st H). unfold l in *. lia.
    - destruct HS as [_ S2]. rewrite Forall_forall in S2. apply S2. eapply bp_stamps_in. exact H.
  Qed.

  Lemma bp_relabel_lt nm i st : In (LFile nm i st) (lvisit l) -> (bp_relabel nx tbl i st < nx + nx)%nat.
  Proof.
    intros H. destruct (bp_rec_lt nm i st H) as [H1 H2]. unfold bp_relabel, bp_fresh.
    destruct (has_ino i tbl && (len_of i tbl =? 0)); [destruct (Nat.eqb st i)|]; lia.
  Qed.

  Lemma bp_t_ids_lt k : In k (ids t) -> (k < nx + nx)%nat.
  Proof.
    rewrite bp_t_split. unfold ids. rewrite map_app. intros H. apply in_app_or in H. destruct H as [H|H].
    - apply in_map_iff in H. destruct H as ([k' v] & Hk & Hin). cbn [fst] in Hk. subst k'.
      destruct (bp_t1_in k v Hin) as [(_ & nm & i & st & Hv & Hh & H0 & ->)|(_ & _ & [Hp _] & _)].
      + pose proof (bp_relabel_lt nm i st Hv) as Hr. unfold bp_relabel in Hr. rewrite Hh, H0 in Hr. exact Hr.
      + pose proof (bp_lt k Hp). lia.
    - destruct (bp_t2_entry k H) as [He _]. destruct (bp_entry_placed s HI HF k He) as [Hp _]. pose proof (bp_lt k Hp). lia.
  Qed.

  Lemma bp_noino_in_rec j : forall recs, In j (noino_labels tbl recs) ->
    exists nm st, In (LFile nm j st) recs /\ has_ino j tbl = false.
  Proof.
    intros recs H. unfold noino_labels in H. apply in_flat_map in H. destruct H as (n & Hn & Hj).
    destruct n as [nm i st|nm dl kids]; [|destruct Hj]. destruct (has_ino i tbl) eqn:Hh; [destruct Hj|].
    destruct Hj as [<-|[]]. exists nm, st. split; assumption.
  Qed.

  (* a name without inode is not the name of an Inode of the reopened object *)
  Lemma bp_noino_not_in_t j : has_ino j tbl = false -> (j < nx)%nat -> ~ In j (ids t).
  Proof.
    intros Hh Hj. rewrite bp_t_split. unfold ids. rewrite map_app. intros H. apply in_app_or in H. destruct H as [H|H].
    - apply in_map_iff in H. destruct H as ([k' v] & Hk & Hin). cbn [fst] in Hk. subst k'.
      destruct (bp_t1_in j v Hin) as [(_ & nm & i & st & Hv & Hi & H0 & E)|(_ & _ & [Hp _] & _)].
      + unfold bp_fresh in E. destruct (Nat.eqb_spec st i); [congruence|lia].
      + apply ab_has_ino_in in Hp. unfold tbl in *. congruence.
    - destruct (bp_t2_entry j H) as [He _]. destruct (bp_entry_placed s HI HF j He) as [Hp _].
      apply ab_has_ino_in in Hp. unfold tbl in *. congruence.
  Qed.

  Theorem bp_reopened_inv : BInv r.
  Proof.
    pose proof bp_r_bl as Hbl.
    constructor; rewrite ?Hbl; cbn [lroot linodes lnext lptr_size lptr_ext lspace].
    - rewrite bp_r_boot2, bp_tbl_sum, (bp_ltotal_lmap_same lw_dblk); [apply (bi_space s HI)|intros [? ? ?|? ? ?]; reflexivity].
    - rewrite bp_lname_lmap, bp_is_dir_lmap. apply (bi_root s HI).
    - apply bp_lall_ok_lmap, (bi_tree s HI).
    - apply (bi_ptr s HI).
    - rewrite (bp_ltotal_lmap_same lw_ptr); [apply (bi_ptr_sum s HI)|intros [? ? ?|? ? ?]; reflexivity].
    - unfold live. rewrite Hbl. cbn [lroot linodes]. split; [exact bp_t_nodup|]. split.
      + intros k Hk. rewrite bp_r_erefs. pose proof (ab_erefs_nonneg k (bboot s)) as Hq.
        pose proof (lrefcount_nonneg k (lmap_ino (bp_relabel nx tbl) (lroot l))) as Hrn.
        rewrite bp_t_split in Hk. unfold ids in Hk. rewrite map_app in Hk. apply in_app_or in Hk. destruct Hk as [Hk|Hk].
        * apply in_map_iff in Hk. destruct Hk as ([k' v] & Hkk & Hin). cbn [fst] in Hkk. subst k'.
          assert (0 < lrefcount k (lmap_ino (bp_relabel nx tbl) (lroot l))); [|lia].
          apply bp_refcount_lmap_pos.
          destruct (bp_t1_in k v Hin) as [(_ & nm & i & st & Hv & Hh & H0 & ->)|(Hv & _ & [Hp1 Hp2] & Hr)].
          -- exists nm, i, st. split; [exact Hv|]. unfold bp_relabel. rewrite Hh, H0. reflexivity.
          -- destruct (bp_ref_visit l k Hr) as (nm & st & Hvis). exists nm, k, st. split; [exact Hvis|].
             unfold bp_relabel. fold tbl in Hp2. destruct (Z.eqb_spec (len_of k tbl) 0); [contradiction|].
             rewrite andb_false_r. reflexivity.
        * destruct (bp_t2_entry k Hk) as [He _]. lia.
      + intros k. rewrite bp_r_erefs. intros He. destruct (bp_placed_in_t k (bp_entry_placed s HI HF k He)) as (v & Hin & _).
        eapply bp_in_ids, Hin.
    - intros k Hk. unfold bp_fake in Hk. split.
      + pose proof (lrefcount_nonneg k (lmap_ino (bp_relabel nx tbl) (lroot l))) as Hrn.
        destruct (Z_lt_le_dec 0 (lrefcount k (lmap_ino (bp_relabel nx tbl) (lroot l)))) as [Hp|Hp]; [|lia].
        apply bp_refcount_lmap_pos in Hp. destruct Hp as (nm & i & st & Hv & <-).
        pose proof (bp_relabel_lt nm i st Hv). lia.
      + intros Hin. pose proof (bp_t_ids_lt k Hin). lia.
    - pose proof (bi_cat s HI) as HC.
      assert (Hcase : bboot s = None \/ exists b, bboot s = Some b) by (destruct (bboot s) as [b|]; [right; exists b|left]; reflexivity).
      destruct Hcase as [Hb|(b & Hb)].
      { unfold r, reopened_gen. rewrite Hb. exact I. }
      pose proof (bp_t_some b Hb) as Ht. rewrite Hb in HC. destruct HC as (_ & _ & C3 & C4).
      unfold r, reopened_gen. rewrite Hb. fold l tbl nx t1. cbn [bboot cat_ok_of cat_recs bcat binos].
      clear Ht. split; [|split; [|split; assumption]].
      + change (linodes l) with tbl. destruct (noino_labels tbl (lvisit l)); discriminate.
      + change (linodes l) with tbl. change (lnext l) with nx. intros j Hj. destruct (noino_labels tbl (lvisit l)) as [|a ns] eqn:En.
        * destruct Hj as [<-|[]]. unfold bp_fake. split; [lia|]. intros Hin. pose proof (bp_t_ids_lt _ Hin). lia.
        * rewrite <- En in Hj. destruct (bp_noino_in_rec j _ Hj) as (nm & st & Hv & Hh).
          destruct (bp_rec_lt nm j st Hv) as [Hjl _]. unfold bp_fake. split; [lia|].
          apply bp_noino_not_in_t; assumption.
    - apply Forall_forall. intros [k v] Hin. cbn [snd]. rewrite bp_t_split in Hin. apply in_app_or in Hin.
      destruct Hin as [Hin|Hin].
      + destruct (bp_t1_in k v Hin) as [[-> _]|(_ & -> & _ & _)]; [unfold max_len; lia|apply (bp_len_nonneg s k HI)].
      + assert (Hk : In k (ids t2)) by (eapply bp_in_ids, Hin). destruct (bp_t2_entry k Hk) as [He _].
        pose proof (HK k He) as Hb. fold r t in Hb.
        assert (Hint : In (k, v) t) by (rewrite bp_t_split; apply in_or_app; right; exact Hin).
        rewrite (bp_t_len k v Hint) in Hb. pose proof (bp_len_nonneg s k HI) as Hn.
        destruct (bp_entry_placed s HI HF k He) as [_ Hp2].
        unfold blocks_of, ceiling_div, C, max_len in *. lia.
  Qed.
End Reopen.

Print Assumptions bp_reopened_inv.
