(* Lemmas for Proofs/AccountRR*.v: path lookups and updates on the Rock Ridge record tree, additive measures,
   the per-directory invariant (Pack's Inv on '.' + '..' + the children's record lengths), the BFS traversal
   and the closed form of rr_layout_end. *)
From Coq Require Import ZArith List Bool Lia ZifyBool.
From PV.Base Require Import Prim.
From PV.Gen Require Import GenConst GenFun.
From PV.Model Require Import Names Pack Alloc CeAlloc RREntries RRPlace Account AccountRR.
From PV.Proofs Require Import PackProofs AllocProofs AccountLemmas AccountRRPlace.
Import ListNotations.
Local Open Scope Z_scope.
Ltac Zify.zify_post_hook ::= Z.to_euclidean_division_equations.

(* ---- 1. lookup, subtree, replace --------------------------------------------------------------- *)
Lemma arr_lookup_spec nm kids k c : rlookup nm kids = Some (k, c) ->
  nth_error kids k = Some c /\ rname c = nm /\ k = pos nm (map rname kids).
Proof.
  unfold rlookup. destruct (nth_error kids (pos nm (map rname kids))) as [c'|] eqn:E; [|discriminate].
  destruct (bytes_eqb (rname c') nm) eqn:B; [|discriminate].
  intros H. inversion H. subst. apply bytes_eqb_eq in B. tauto.
Qed.

Lemma arr_subtree_snoc : forall q y n c, rsubtree (q ++ [y]) n = Some c <->
  exists m dl kids k, rsubtree q n = Some (RDir m dl kids) /\ rlookup y kids = Some (k, c).
Proof.
  induction q as [|x q IH]; intros y n c; cbn [app rsubtree].
  - split.
    + destruct n as [m len|m dl kids]; [discriminate|].
      destruct (rlookup y kids) as [[k c']|] eqn:L; [|discriminate].
      intros H. inversion H. subst. exists m, dl, kids, k. split; [reflexivity|exact L].
    + intros (m & dl & kids & k & H & L). inversion H. subst. rewrite L. reflexivity.
  - destruct n as [m len|m dl kids].
    + split; [discriminate|]. intros (? & ? & ? & ? & H & _). discriminate.
    + destruct (rlookup x kids) as [[k c']|].
      * apply IH.
      * split; [discriminate|]. intros (? & ? & ? & ? & H & _). discriminate.
Qed.

(* ---- 2. additive measures ----------------------------------------------------------------------- *)
Section NodeInd.
  Variable P : rnode -> Prop.
  Hypothesis HF : forall m len, P (RFile m len).
  Hypothesis HD : forall m dl kids, Forall P kids -> P (RDir m dl kids).
  Fixpoint arr_node_ind (n : rnode) : P n :=
    match n with
    | RFile m len => HF m len
    | RDir m dl kids =>
        HD m dl kids
           ((fix go (l : list rnode) : Forall P l :=
               match l with
               | [] => Forall_nil P
               | c :: r => Forall_cons c (arr_node_ind c) (go r)
               end) kids)
    end.
End NodeInd.

Definition rtotals (w : bool -> meta -> Z -> Z) (l : list rnode) : Z := Alloc.zsum (map (rtotal w) l).

Lemma arr_total_dir w m dl kids : rtotal w (RDir m dl kids) = w true m dl + rtotals w kids.
Proof.
  unfold rtotals, Alloc.zsum. cbn [rtotal]. f_equal.
  induction kids as [|c r IH]; cbn [map fold_right]; [reflexivity|]. rewrite IH. reflexivity.
Qed.
Lemma arr_totals_app w l1 l2 : rtotals w (l1 ++ l2) = rtotals w l1 + rtotals w l2.
Proof. unfold rtotals. rewrite map_app. apply zsum_app. Qed.
Lemma arr_totals_cons w c l : rtotals w (c :: l) = rtotal w c + rtotals w l.
Proof. reflexivity. Qed.
Lemma arr_totals_nil w : rtotals w [] = 0.
Proof. reflexivity. Qed.

Lemma arr_totals_set_at w kids k c c' : nth_error kids k = Some c ->
  rtotals w (set_at k c' kids) = rtotals w kids - rtotal w c + rtotal w c'.
Proof.
  intros H. destruct (nth_error_decomp kids k c H) as (l1 & l2 & -> & _ & Hs & _).
  rewrite Hs, !arr_totals_app, !arr_totals_cons. lia.
Qed.
Lemma arr_totals_remove_at w kids k c : nth_error kids k = Some c ->
  rtotals w (remove_at k kids) = rtotals w kids - rtotal w c.
Proof.
  intros H. destruct (nth_error_decomp kids k c H) as (l1 & l2 & -> & _ & _ & Hr).
  rewrite Hr, !arr_totals_app, !arr_totals_cons. lia.
Qed.
Lemma arr_totals_insert_at w kids k c : rtotals w (insert_at k c kids) = rtotals w kids + rtotal w c.
Proof.
  destruct (insert_at_decomp k c kids) as (l1 & l2 & E & ->). subst kids.
  rewrite !arr_totals_app, !arr_totals_cons. lia.
Qed.

Lemma arr_total_replace w : forall p n t old, rsubtree p n = Some old ->
  rtotal w (rreplace p t n) = rtotal w n - rtotal w old + rtotal w t.
Proof.
  induction p as [|x q IH]; intros n t old H; cbn [rsubtree rreplace] in *.
  - inversion H. subst. lia.
  - destruct n as [m len|m dl kids]; [discriminate|].
    destruct (rlookup x kids) as [[k c]|] eqn:L; [|discriminate].
    apply arr_lookup_spec in L. destruct L as (Hn & _ & _).
    rewrite !arr_total_dir, (arr_totals_set_at w kids k c _ Hn), (IH c t old H). lia.
Qed.

Lemma arr_total_nonneg w : (forall d m v, 0 <= w d m v) -> forall n, 0 <= rtotal w n.
Proof.
  intros Hw. apply arr_node_ind.
  - intros m len. cbn [rtotal]. apply Hw.
  - intros m dl kids HF. rewrite arr_total_dir. specialize (Hw true m dl).
    assert (0 <= rtotals w kids); [|lia].
    unfold rtotals. induction HF as [|c r Hc Hr IH]; cbn [map]; [cbn; lia|].
    rewrite zsum_cons. lia.
Qed.
Lemma arr_totals_nonneg w : (forall d m v, 0 <= w d m v) -> forall l, 0 <= rtotals w l.
Proof.
  intros Hw l. induction l as [|c r IH]; [unfold rtotals; cbn; lia|].
  rewrite arr_totals_cons. pose proof (arr_total_nonneg w Hw c). lia.
Qed.

Definition rshallow (w : bool -> meta -> Z -> Z) (n : rnode) : Z :=
  match n with RFile m len => w false m len | RDir m dl _ => w true m dl end.

Lemma arr_total_shallow w n : rtotal w n = rshallow w n + rtotals w (rkids n).
Proof.
  destruct n as [m len|m dl kids]; [cbn [rtotal rshallow rkids]; rewrite arr_totals_nil; lia|].
  rewrite arr_total_dir. reflexivity.
Qed.

(* a record found below n counts in every non-negative measure of n *)
Lemma arr_total_subtree_ge w : (forall d m v, 0 <= w d m v) ->
  forall p n c, rsubtree p n = Some c -> rshallow w c <= rtotal w n.
Proof.
  intros Hw. induction p as [|x q IH]; intros n c H; cbn [rsubtree] in H.
  - inversion H. subst. rewrite arr_total_shallow. pose proof (arr_totals_nonneg w Hw (rkids c)). lia.
  - destruct n as [m len|m dl kids]; [discriminate|].
    destruct (rlookup x kids) as [[k c']|] eqn:L; [|discriminate].
    apply arr_lookup_spec in L. destruct L as (Hn & _ & _).
    destruct (nth_error_decomp kids k c' Hn) as (l1 & l2 & -> & _ & _ & _).
    rewrite arr_total_dir, arr_totals_app, arr_totals_cons.
    pose proof (IH c' c H). pose proof (Hw true m dl).
    pose proof (arr_totals_nonneg w Hw l1). pose proof (arr_totals_nonneg w Hw l2). lia.
Qed.

(* ---- 3. the records of a directory ------------------------------------------------------------- *)
Definition lens_ok (lens : list Z) : Prop := Forall len_ok lens.
Definition rdir_ok (v : rrv) (isroot : bool) (dl : Z) (lens : list Z) : Prop :=
  PackProofs.Inv C (rst_of v isroot dl lens) /\ lens_ok lens.
(* a record without inode (add_symlink) has no data *)
Definition rfile_ok (m : meta) (len : Z) : Prop := 0 <= len <= max_len /\ (m_ino m = false -> len = 0).

Fixpoint rall_ok (v : rrv) (isroot : bool) (n : rnode) : Prop :=
  match n with
  | RFile m len => rfile_ok m len
  | RDir m dl kids =>
      zlen (m_name m) <= 255 /\ rdir_ok v isroot dl (rlens kids) /\
      (fix go (l : list rnode) : Prop :=
         match l with [] => True | c :: r => rall_ok v false c /\ go r end) kids
  end.

Lemma arr_all_ok_dir v ir m dl kids :
  rall_ok v ir (RDir m dl kids) <->
  zlen (m_name m) <= 255 /\ rdir_ok v ir dl (rlens kids) /\ Forall (rall_ok v false) kids.
Proof.
  cbn [rall_ok]. apply and_iff_compat_l. apply and_iff_compat_l.
  induction kids as [|c r IH]; [split; [constructor|trivial]|].
  rewrite IH. split.
  - intros [H1 H2]. constructor; assumption.
  - intros H. inversion H. tauto.
Qed.

Definition sub_root (ir : bool) (p : path) : bool := match p with [] => ir | _ => false end.

Lemma arr_subtree_all_ok v : forall p ir n old, rall_ok v ir n -> rsubtree p n = Some old ->
  rall_ok v (sub_root ir p) old.
Proof.
  induction p as [|x q IH]; intros ir n old Hn H; cbn [rsubtree] in H.
  - inversion H. subst. exact Hn.
  - destruct n as [m len|m dl kids]; [discriminate|].
    destruct (rlookup x kids) as [[k c]|] eqn:L; [|discriminate].
    apply arr_lookup_spec in L. destruct L as (Hk & _ & _).
    apply arr_all_ok_dir in Hn. destruct Hn as (_ & _ & HF). rewrite Forall_forall in HF.
    cbn [sub_root]. replace false with (sub_root false q) by (destruct q; reflexivity).
    apply (IH false c old); [apply HF; eapply nth_error_In; exact Hk|exact H].
Qed.

Lemma arr_rlens_set_at kids k c c' : nth_error kids k = Some c ->
  m_rlen (meta_of c') = m_rlen (meta_of c) -> rlens (set_at k c' kids) = rlens kids.
Proof.
  intros H E. destruct (nth_error_decomp kids k c H) as (l1 & l2 & -> & _ & Hs & _).
  unfold rlens. rewrite Hs, !map_app. cbn [map]. rewrite E. reflexivity.
Qed.

Lemma arr_replace_meta : forall p n t old, rsubtree p n = Some old -> meta_of t = meta_of old ->
  meta_of (rreplace p t n) = meta_of n.
Proof.
  intros [|x q] n t old H E; cbn [rsubtree rreplace] in *.
  - inversion H. subst. exact E.
  - destruct n as [m len|m dl kids]; [reflexivity|].
    destruct (rlookup x kids) as [[k c]|]; reflexivity.
Qed.
Lemma arr_replace_is_dir : forall p n t old, rsubtree p n = Some old -> r_is_dir t = r_is_dir old ->
  r_is_dir (rreplace p t n) = r_is_dir n.
Proof.
  intros [|x q] n t old H E; cbn [rsubtree rreplace] in *.
  - inversion H. subst. exact E.
  - destruct n as [m len|m dl kids]; [reflexivity|].
    destruct (rlookup x kids) as [[k c]|]; reflexivity.
Qed.

Lemma arr_all_ok_replace v : forall p ir n t old, rsubtree p n = Some old -> meta_of t = meta_of old ->
  rall_ok v ir n -> rall_ok v (sub_root ir p) t -> rall_ok v ir (rreplace p t n).
Proof.
  induction p as [|x q IH]; intros ir n t old H E Hn Ht; cbn [rsubtree rreplace] in *.
  - exact Ht.
  - destruct n as [m len|m dl kids]; [discriminate|].
    destruct (rlookup x kids) as [[k c]|] eqn:L; [|discriminate].
    apply arr_lookup_spec in L. destruct L as (Hk & _ & _).
    apply arr_all_ok_dir in Hn. destruct Hn as (Hz & Hd & HF). apply arr_all_ok_dir.
    split; [exact Hz|]. split.
    + rewrite (arr_rlens_set_at kids k c _ Hk); [exact Hd|].
      rewrite (arr_replace_meta q c t old H E). reflexivity.
    + apply (Forall_set_at (rall_ok v false) kids k c _ Hk HF).
      apply (IH false c t old H E).
      * rewrite Forall_forall in HF. apply HF. eapply nth_error_In. exact Hk.
      * cbn [sub_root] in Ht. replace (sub_root false q) with false by (destruct q; reflexivity). exact Ht.
Qed.

Lemma arr_len_ok_nonneg x : len_ok x -> 0 <= x /\ 2 * x <= C.
Proof. unfold len_ok, C. lia. Qed.

Lemma arr_recs_nonneg v ir dl lens : lens_ok lens -> nonneg (recs (rst_of v ir dl lens)).
Proof.
  intros H. cbn [rst_of recs].
  constructor; [pose proof (arr_dot_len_ok v ir); unfold len_ok in *; lia|].
  constructor; [pose proof (arr_dotdot_len_ok v); unfold len_ok in *; lia|].
  eapply Forall_impl; [|exact H]. intros x Hx. unfold len_ok in Hx. lia.
Qed.

Lemma arr_st_add v ir dl lens k x :
  dir_add C (rst_of v ir dl lens) (2 + k) x =
  rst_of v ir (dlen (dir_add C (rst_of v ir dl lens) (2 + k) x)) (insert_at k x lens).
Proof.
  unfold dir_add, rst_of. cbn [recs dlen]. change (2 + k)%nat with (S (S k)).
  rewrite insert_at_SS. reflexivity.
Qed.
Lemma arr_st_remove v ir dl lens k :
  dir_remove C (rst_of v ir dl lens) (2 + k) =
  rst_of v ir (dlen (dir_remove C (rst_of v ir dl lens) (2 + k))) (remove_at k lens).
Proof.
  unfold dir_remove, rst_of. cbn [recs dlen]. change (2 + k)%nat with (S (S k)).
  rewrite remove_at_SS. reflexivity.
Qed.

Lemma arr_dir_ok_add v ir dl lens k x : rdir_ok v ir dl lens -> len_ok x ->
  rdir_ok v ir (dlen (dir_add C (rst_of v ir dl lens) (2 + k) x)) (insert_at k x lens).
Proof.
  intros (Hi & Hf) Hx. split.
  - rewrite <- arr_st_add. destruct (arr_len_ok_nonneg x Hx).
    apply dir_inv_add; [unfold C; lia|apply arr_recs_nonneg, Hf|lia|lia|exact Hi].
  - apply Forall_insert_at; assumption.
Qed.
Lemma arr_dir_ok_remove v ir dl lens k : rdir_ok v ir dl lens ->
  rdir_ok v ir (dlen (dir_remove C (rst_of v ir dl lens) (2 + k))) (remove_at k lens).
Proof.
  intros (Hi & Hf). split.
  - rewrite <- arr_st_remove. apply dir_inv_remove; [unfold C; lia|apply arr_recs_nonneg, Hf|exact Hi].
  - apply Forall_remove_at, Hf.
Qed.
Lemma arr_dir_ok_new v ir : rdir_ok v ir C [].
Proof.
  split; [|constructor].
  change (rst_of v ir C []) with (dir_init_gen C [dot_len v ir; dotdot_len v]).
  pose proof (arr_dot_len_ok v ir) as [H1 _]. pose proof (arr_dotdot_len_ok v) as [H2 _].
  apply dir_inv_init_gen; [unfold C; lia|repeat constructor; lia|].
  unfold Pack.zsum, C. cbn [fold_right]. lia.
Qed.

(* every directory has at least one block *)
Lemma arr_dir_ok_dlen v ir dl lens : rdir_ok v ir dl lens -> C <= dl.
Proof.
  intros ((_ & Hle) & Hn).
  assert (HS : sized C (recs (rst_of v ir dl lens))).
  { cbn [rst_of recs]. unfold sized, C.
    pose proof (arr_dot_len_ok v ir) as [H1 _]. pose proof (arr_dotdot_len_ok v) as [H2 _].
    constructor; [lia|]. constructor; [lia|].
    eapply Forall_impl; [|exact Hn]. intros x [H _]. lia. }
  pose proof (num_extents_lower C _ ltac:(unfold C; lia) HS) as (H1 & _).
  cbn [rst_of dlen recs] in *. unfold C in *. lia.
Qed.

(* ---- 4. the BFS traversal ----------------------------------------------------------------------- *)
Definition rsizes (l : list rnode) : nat := fold_right (fun c acc => (rsize c + acc)%nat) O l.

Lemma arr_rsize_dir m dl kids : rsize (RDir m dl kids) = S (rsizes kids).
Proof. reflexivity. Qed.
Lemma arr_rsize_pos n : (1 <= rsize n)%nat.
Proof. destruct n as [m len|m dl kids]; [cbn; lia|rewrite arr_rsize_dir; lia]. Qed.
Lemma arr_rsizes_app l1 l2 : rsizes (l1 ++ l2) = (rsizes l1 + rsizes l2)%nat.
Proof.
  induction l1 as [|c r IH]; cbn [app rsizes fold_right]; [reflexivity|].
  fold (rsizes (r ++ l2)). fold (rsizes r). lia.
Qed.

Lemma arr_bfs_fuel n q f : (rsizes (n :: q) <= S f)%nat -> (rsizes (q ++ rkids n) <= f)%nat.
Proof.
  intros Hq. rewrite arr_rsizes_app. cbn [rsizes fold_right] in Hq. fold (rsizes q) in Hq.
  destruct n as [m len|m dl kids]; cbn [rkids].
  - cbn [rsizes fold_right]. cbn [rsize] in Hq. lia.
  - rewrite arr_rsize_dir in Hq. lia.
Qed.

Lemma arr_bfs_sum w : forall fuel queue, (rsizes queue <= fuel)%nat ->
  Alloc.zsum (map (rshallow w) (rbfs fuel queue)) = rtotals w queue.
Proof.
  induction fuel as [|f IH]; intros queue Hq.
  - destruct queue as [|n q]; [reflexivity|].
    cbn [rsizes fold_right] in Hq. pose proof (arr_rsize_pos n). lia.
  - destruct queue as [|n q]; [reflexivity|]. cbn [rbfs map]. rewrite zsum_cons, arr_totals_cons.
    rewrite IH by (apply arr_bfs_fuel, Hq).
    rewrite arr_totals_app, (arr_total_shallow w n). lia.
Qed.

Lemma arr_visit_sum w s : Alloc.zsum (map (rshallow w) (rvisit s)) = rtotal w (r_root s).
Proof.
  unfold rvisit. rewrite arr_bfs_sum.
  - rewrite arr_totals_cons, arr_totals_nil. lia.
  - cbn [rsizes fold_right]. lia.
Qed.

Lemma arr_bfs_all_ok v : forall fuel queue, Forall (fun n => exists ir, rall_ok v ir n) queue ->
  Forall (fun n => exists ir, rall_ok v ir n) (rbfs fuel queue).
Proof.
  induction fuel as [|f IH]; intros queue HQ; cbn [rbfs]; [constructor|].
  destruct queue as [|n q]; [constructor|]. inversion HQ as [|? ? Hn Hq]; subst.
  constructor; [exact Hn|]. apply IH, Forall_app. split; [exact Hq|].
  destruct n as [m len|m dl kids]; cbn [rkids]; [constructor|].
  destruct Hn as [ir Hn]. apply arr_all_ok_dir in Hn. destruct Hn as (_ & _ & HF).
  eapply Forall_impl; [|exact HF]. intros c Hc. exists false. exact Hc.
Qed.

(* ---- 5. the directory area: directories + the continuation blocks met for the first time -------- *)
Fixpoint fresh (seen : list nat) (l : list rnode) : nat :=
  match l with
  | [] => O
  | n :: r => match ce_id n with
              | Some i => if mem_nat i seen then fresh seen r else S (fresh (i :: seen) r)
              | None => fresh seen r
              end
  end.

Lemma arr_dir_area_sum : forall l seen,
  Alloc.zsum (map dobj_size (dir_area seen l)) =
  Alloc.zsum (map (rshallow rw_dblk) l) + Z.of_nat (fresh seen l).
Proof.
  induction l as [|n r IH]; intros seen; [reflexivity|].
  cbn [dir_area fresh map]. rewrite zsum_cons.
  assert (Hd : Alloc.zsum (map dobj_size (match n with RDir _ dl _ => [ODir (ceiling_div dl C)] | RFile _ _ => [] end))
               = rshallow rw_dblk n).
  { destruct n as [m len|m dl kids]; cbn [map rshallow rw_dblk dobj_size]; [reflexivity|].
    rewrite zsum_cons. cbn. lia. }
  destruct (ce_id n) as [i|].
  - destruct (mem_nat i seen).
    + rewrite map_app, zsum_app, Hd, IH. lia.
    + rewrite map_app, zsum_app, Hd. cbn [map]. rewrite zsum_cons, IH. cbn [dobj_size]. lia.
  - rewrite map_app, zsum_app, Hd, IH. lia.
Qed.

Theorem arr_layout_end_closed s :
  rr_layout_end s = 19 + 2 * r_ptr_ext s + rtotal rw_dblk (r_root s)
                    + Z.of_nat (fresh [] (rvisit s)) + 1 + rtotal rw_fblk (r_root s).
Proof.
  unfold rr_layout_end, bump_end, robjects. rewrite !zsum_app, arr_dir_area_sum, zsum_map_filter.
  rewrite (map_ext (fun x => if rin_file_list x then robj_size x else 0) (rshallow rw_fblk)).
  - rewrite !arr_visit_sum. unfold Alloc.zsum. cbn [fold_right]. lia.
  - intros [m len|m dl kids]; cbn [rin_file_list robj_size rshallow rw_fblk]; [|reflexivity].
    destruct (Z.eqb_spec len 0) as [->|Hne]; cbn [negb andb]; [destruct (m_ino m); reflexivity|].
    destruct (m_ino m); reflexivity.
Qed.
