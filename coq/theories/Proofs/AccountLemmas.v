(* Lemmas for Proofs/AccountProofs.v: byte-string order, list surgery, additive measures over the
   directory tree, path updates, the BFS traversal, and the closed form of layout_end. *)
From Coq Require Import ZArith List Bool Lia ZifyBool Sorted.
From PV.Base Require Import Prim.
From PV.Gen Require Import GenConst GenFun.
From PV.Model Require Import Names Pack Alloc Account.
From PV.Proofs Require Import PackProofs AllocProofs.
Import ListNotations.
Local Open Scope Z_scope.
Ltac Zify.zify_post_hook ::= Z.to_euclidean_division_equations.

(* ---- 1. bytes order --------------------------------------------------------------------- *)

Lemma bytes_eqb_eq a : forall b, bytes_eqb a b = true <-> a = b.
Proof.
  induction a as [|x a IH]; intros [|y b]; cbn [bytes_eqb]; try (split; discriminate); [tauto|].
  rewrite andb_true_iff, Z.eqb_eq, IH. split.
  - intros [-> ->]. reflexivity.
  - intros E. inversion E. tauto.
Qed.

Lemma bytes_eqb_refl a : bytes_eqb a a = true.
Proof. apply bytes_eqb_eq. reflexivity. Qed.

Lemma bytes_ltb_irrefl a : bytes_ltb a a = false.
Proof.
  induction a as [|x a IH]; cbn [bytes_ltb]; [reflexivity|].
  rewrite Z.ltb_irrefl, Z.eqb_refl. exact IH.
Qed.

Lemma bytes_ltb_trans a : forall b c,
  bytes_ltb a b = true -> bytes_ltb b c = true -> bytes_ltb a c = true.
Proof.
  induction a as [|x a IH]; intros b c H1 H2; destruct b as [|y b]; destruct c as [|z c];
    cbn [bytes_ltb] in *; try discriminate; try reflexivity.
  destruct (Z.ltb_spec x y), (Z.ltb_spec y z), (Z.ltb_spec x z),
    (Z.eqb_spec x y), (Z.eqb_spec y z), (Z.eqb_spec x z);
    try discriminate; try reflexivity; try lia.
  all: eapply IH; eassumption.
Qed.

(* the order is total: this is what makes bisect_left's index the unique insertion point *)
Lemma bytes_ltb_total a : forall b,
  bytes_ltb a b = false -> bytes_eqb a b = false -> bytes_ltb b a = true.
Proof.
  induction a as [|x a IH]; intros [|y b] H1 H2; cbn [bytes_ltb bytes_eqb] in *;
    try discriminate; try reflexivity.
  destruct (Z.ltb_spec x y), (Z.ltb_spec y x), (Z.eqb_spec x y), (Z.eqb_spec y x);
    try discriminate; try reflexivity; try lia.
  cbn [andb] in H2. apply IH; assumption.
Qed.

(* ---- 2. list surgery -------------------------------------------------------------------- *)

Lemma zsum_app l1 l2 : Alloc.zsum (l1 ++ l2) = Alloc.zsum l1 + Alloc.zsum l2.
Proof.
  unfold Alloc.zsum. induction l1 as [|x l1 IH]; cbn [app fold_right]; [lia|]. rewrite IH. lia.
Qed.

Lemma zsum_cons x l : Alloc.zsum (x :: l) = x + Alloc.zsum l.
Proof. reflexivity. Qed.

Lemma firstn_length_app {A} (l1 l2 : list A) : firstn (length l1) (l1 ++ l2) = l1.
Proof. induction l1 as [|x l1 IH]; cbn [length firstn app]; [destruct l2; reflexivity|]. rewrite IH. reflexivity. Qed.

Lemma skipn_length_app {A} (l1 l2 : list A) : skipn (length l1) (l1 ++ l2) = l2.
Proof. induction l1 as [|x l1 IH]; cbn [length skipn app]; [reflexivity|exact IH]. Qed.

Lemma nth_error_decomp {A} (l : list A) k a : nth_error l k = Some a ->
  exists l1 l2, l = l1 ++ a :: l2 /\ length l1 = k /\
                (forall x, set_at k x l = l1 ++ x :: l2) /\ remove_at k l = l1 ++ l2.
Proof.
  intros H. destruct (nth_error_split l k H) as (l1 & l2 & -> & <-).
  exists l1, l2. split; [reflexivity|]. split; [reflexivity|].
  assert (E : skipn (S (length l1)) (l1 ++ a :: l2) = l2).
  { clear H. induction l1 as [|x l1 IH]; cbn [length app skipn]; [reflexivity|exact IH]. }
  unfold set_at, remove_at. rewrite firstn_length_app, E. split; [intros x|]; reflexivity.
Qed.

Lemma insert_at_decomp {A} k (x : A) l :
  exists l1 l2, l = l1 ++ l2 /\ insert_at k x l = l1 ++ x :: l2.
Proof.
  exists (firstn k l), (skipn k l). split; [symmetry; apply firstn_skipn|reflexivity].
Qed.

Lemma insert_at_SS {A} k (x a b : A) l :
  insert_at (S (S k)) x (a :: b :: l) = a :: b :: insert_at k x l.
Proof. reflexivity. Qed.

Lemma remove_at_SS {A} k (a b : A) l : remove_at (S (S k)) (a :: b :: l) = a :: b :: remove_at k l.
Proof. reflexivity. Qed.

Lemma map_insert_at {A B} (f : A -> B) k x l : map f (insert_at k x l) = insert_at k (f x) (map f l).
Proof. unfold insert_at. rewrite map_app, firstn_map, skipn_map. reflexivity. Qed.

Lemma map_remove_at {A B} (f : A -> B) k l : map f (remove_at k l) = remove_at k (map f l).
Proof. unfold remove_at. rewrite map_app, firstn_map, skipn_map. reflexivity. Qed.

Lemma Forall_insert_at {A} (P : A -> Prop) k x l : Forall P l -> P x -> Forall P (insert_at k x l).
Proof.
  intros Hl Hx. destruct (insert_at_decomp k x l) as (l1 & l2 & E & ->). subst l.
  apply Forall_app in Hl. destruct Hl as [H1 H2]. apply Forall_app. split; [exact H1|].
  constructor; assumption.
Qed.

Lemma Forall_remove_at {A} (P : A -> Prop) k l : Forall P l -> Forall P (remove_at k l).
Proof.
  intros Hl. unfold remove_at. apply Forall_app. split.
  - apply (Forall_split P k l Hl).
  - apply (Forall_split P (S k) l Hl).
Qed.

Lemma SS_remove_at {A} (R : A -> A -> Prop) l : StronglySorted R l ->
  forall k, StronglySorted R (remove_at k l).
Proof.
  induction 1 as [|a l HS IH HF]; intros k.
  - destruct k; constructor.
  - destruct k as [|k].
    + exact HS.
    + change (remove_at (S k) (a :: l)) with (a :: remove_at k l).
      constructor; [apply IH|apply Forall_remove_at, HF].
Qed.

(* ---- 3. bisect_left on a sorted list of names --------------------------------------------- *)

Definition blt (a b : ident) : Prop := bytes_ltb a b = true.

Lemma pos_le nm names : (pos nm names <= length names)%nat.
Proof.
  induction names as [|a r IH]; cbn [pos length]; [lia|]. destruct (bytes_ltb a nm); lia.
Qed.

(* inserting at the bisect_left index keeps the list strictly sorted, provided the entry found
   there (if any) is not the same name: this is the duplicate test of _add_child *)
Lemma SS_insert_pos nm : forall names, StronglySorted blt names ->
  (forall y, nth_error names (pos nm names) = Some y -> bytes_eqb y nm = false) ->
  StronglySorted blt (insert_at (pos nm names) nm names).
Proof.
  induction names as [|a r IH]; intros HS Hd.
  - cbn. constructor; constructor.
  - apply StronglySorted_inv in HS. destruct HS as [HSr HFa]. cbn [pos] in *.
    destruct (bytes_ltb a nm) eqn:E.
    + change (insert_at (S (pos nm r)) nm (a :: r)) with (a :: insert_at (pos nm r) nm r).
      constructor; [apply IH; [exact HSr|exact Hd]|].
      apply Forall_insert_at; [exact HFa|exact E].
    + change (insert_at 0 nm (a :: r)) with (nm :: a :: r).
      specialize (Hd a eq_refl).
      assert (Hna : blt nm a) by (apply bytes_ltb_total; assumption).
      constructor; [constructor; assumption|].
      constructor; [exact Hna|].
      eapply Forall_impl; [|exact HFa]. intros b Hb. eapply bytes_ltb_trans; eassumption.
Qed.

(* in a strictly sorted list no name occurs twice *)
Lemma SS_blt_NoDup names : StronglySorted blt names -> NoDup names.
Proof.
  induction 1 as [|a l HS IH HF]; constructor; [|exact IH].
  intros Hin. rewrite Forall_forall in HF. specialize (HF a Hin).
  unfold blt in HF. rewrite bytes_ltb_irrefl in HF. discriminate.
Qed.

(* bisect_left's contract: everything before the index is < nm, the entry at the index is not *)
Lemma pos_spec nm names :
  Forall (fun a => blt a nm) (firstn (pos nm names) names) /\
  (forall y, nth_error names (pos nm names) = Some y -> bytes_ltb y nm = false).
Proof.
  induction names as [|a r [IH1 IH2]]; cbn [pos].
  - split; [constructor|]. intros y H. discriminate.
  - destruct (bytes_ltb a nm) eqn:E.
    + split; [cbn [firstn]; constructor; assumption|exact IH2].
    + split; [constructor|]. intros y H. cbn in H. inversion H. subst y. exact E.
Qed.

(* ---- 4. lookup, subtree, replace ---------------------------------------------------------- *)

Lemma lookup_spec nm kids k c : lookup nm kids = Some (k, c) ->
  nth_error kids k = Some c /\ name_of c = nm /\ k = pos nm (map name_of kids).
Proof.
  unfold lookup. destruct (nth_error kids (pos nm (map name_of kids))) as [c'|] eqn:E; [|discriminate].
  destruct (bytes_eqb (name_of c') nm) eqn:B; [|discriminate].
  intros H. inversion H. subst. apply bytes_eqb_eq in B. tauto.
Qed.

Lemma lookup_none nm kids : lookup nm kids = None ->
  forall y, nth_error (map name_of kids) (pos nm (map name_of kids)) = Some y -> bytes_eqb y nm = false.
Proof.
  unfold lookup. intros H y Hy. rewrite nth_error_map in Hy.
  destruct (nth_error kids (pos nm (map name_of kids))) as [c'|]; [|discriminate].
  cbn in Hy. inversion Hy. subst y.
  destruct (bytes_eqb (name_of c') nm); [discriminate|reflexivity].
Qed.

Lemma names_set_at kids k c c' : nth_error kids k = Some c -> name_of c' = name_of c ->
  map name_of (set_at k c' kids) = map name_of kids.
Proof.
  intros H E. destruct (nth_error_decomp kids k c H) as (l1 & l2 & -> & _ & Hs & _).
  rewrite Hs, !map_app. cbn [map]. rewrite E. reflexivity.
Qed.

Lemma replace_name : forall p n t old, subtree p n = Some old -> name_of t = name_of old ->
  name_of (replace p t n) = name_of n.
Proof.
  intros [|x q] n t old H E; cbn [subtree replace] in *.
  - inversion H. subst. exact E.
  - destruct n as [nm len|nm dl kids]; [reflexivity|].
    destruct (lookup x kids) as [[k c]|]; reflexivity.
Qed.

(* the path to a child is the path to its parent followed by one lookup: "every directory's
   parent exists" is structural in this representation *)
Lemma subtree_snoc : forall q y n c, subtree (q ++ [y]) n = Some c <->
  exists nm dl kids k, subtree q n = Some (Dir nm dl kids) /\ lookup y kids = Some (k, c).
Proof.
  induction q as [|x q IH]; intros y n c; cbn [app subtree].
  - split.
    + destruct n as [nm len|nm dl kids]; [discriminate|].
      destruct (lookup y kids) as [[k c']|] eqn:L; [|discriminate].
      intros H. inversion H. subst. exists nm, dl, kids, k. split; [reflexivity|exact L].
    + intros (nm & dl & kids & k & H & L). inversion H. subst. rewrite L. reflexivity.
  - destruct n as [nm len|nm dl kids].
    + split; [discriminate|]. intros (? & ? & ? & ? & H & _). discriminate.
    + destruct (lookup x kids) as [[k c']|].
      * apply IH.
      * split; [discriminate|]. intros (? & ? & ? & ? & H & _). discriminate.
Qed.

Lemma unsnoc_none {A} (l : list A) : unsnoc l = None -> l = [].
Proof.
  destruct l as [|x r]; [reflexivity|]. cbn [unsnoc]. destruct (unsnoc r) as [[q y]|]; discriminate.
Qed.

Lemma unsnoc_spec {A} (l : list A) : forall q y, unsnoc l = Some (q, y) -> l = q ++ [y].
Proof.
  induction l as [|x r IH]; intros q y H; cbn [unsnoc] in H; [discriminate|].
  destruct (unsnoc r) as [[q' y']|] eqn:E.
  - inversion H. subst. cbn [app]. f_equal. apply IH. reflexivity.
  - inversion H. subst. apply unsnoc_none in E. subst r. reflexivity.
Qed.

(* ---- 5. additive measures over the tree --------------------------------------------------- *)

Section NodeInd.
  Variable P : node -> Prop.
  Hypothesis HF : forall nm len, P (File nm len).
  Hypothesis HD : forall nm dl kids, Forall P kids -> P (Dir nm dl kids).
  Fixpoint node_ind' (n : node) : P n :=
    match n with
    | File nm len => HF nm len
    | Dir nm dl kids =>
        HD nm dl kids
           ((fix go (l : list node) : Forall P l :=
               match l with
               | [] => Forall_nil P
               | c :: r => Forall_cons c (node_ind' c) (go r)
               end) kids)
    end.
End NodeInd.

Definition totals (w : bool -> ident -> Z -> Z) (l : list node) : Z :=
  Alloc.zsum (map (total w) l).

Lemma total_dir w nm dl kids : total w (Dir nm dl kids) = w true nm dl + totals w kids.
Proof.
  unfold totals, Alloc.zsum. cbn [total]. f_equal.
  induction kids as [|c r IH]; cbn [map fold_right]; [reflexivity|]. rewrite IH. reflexivity.
Qed.

Lemma totals_app w l1 l2 : totals w (l1 ++ l2) = totals w l1 + totals w l2.
Proof. unfold totals. rewrite map_app. apply zsum_app. Qed.

Lemma totals_cons w c l : totals w (c :: l) = total w c + totals w l.
Proof. reflexivity. Qed.

Lemma totals_set_at w kids k c c' : nth_error kids k = Some c ->
  totals w (set_at k c' kids) = totals w kids - total w c + total w c'.
Proof.
  intros H. destruct (nth_error_decomp kids k c H) as (l1 & l2 & -> & _ & Hs & _).
  rewrite Hs, !totals_app, !totals_cons. lia.
Qed.

Lemma totals_remove_at w kids k c : nth_error kids k = Some c ->
  totals w (remove_at k kids) = totals w kids - total w c.
Proof.
  intros H. destruct (nth_error_decomp kids k c H) as (l1 & l2 & -> & _ & _ & Hr).
  rewrite Hr, !totals_app, !totals_cons. lia.
Qed.

Lemma totals_insert_at w kids k c : totals w (insert_at k c kids) = totals w kids + total w c.
Proof.
  destruct (insert_at_decomp k c kids) as (l1 & l2 & E & ->). subst kids.
  rewrite !totals_app, !totals_cons. lia.
Qed.

(* the effect of mutating the object found at path p on any additive measure *)
Lemma total_replace w : forall p n t old, subtree p n = Some old ->
  total w (replace p t n) = total w n - total w old + total w t.
Proof.
  induction p as [|x q IH]; intros n t old H; cbn [subtree replace] in *.
  - inversion H. subst. lia.
  - destruct n as [nm len|nm dl kids]; [discriminate|].
    destruct (lookup x kids) as [[k c]|] eqn:L; [|discriminate].
    apply lookup_spec in L. destruct L as (Hn & _ & _).
    rewrite !total_dir, (totals_set_at w kids k c _ Hn), (IH c t old H). lia.
Qed.

Lemma total_nonneg w : (forall d nm v, 0 <= w d nm v) -> forall n, 0 <= total w n.
Proof.
  intros Hw. apply node_ind'.
  - intros nm len. cbn [total]. apply Hw.
  - intros nm dl kids HF. rewrite total_dir. specialize (Hw true nm dl).
    assert (0 <= totals w kids); [|lia].
    unfold totals. induction HF as [|c r Hc Hr IH]; cbn [map]; [cbn; lia|].
    rewrite zsum_cons. lia.
Qed.

(* ---- 6. the tree invariant ---------------------------------------------------------------- *)

Definition name_ok (nm : ident) : Prop := 34 <= dr_len_of nm <= 254 /\ dr_len_of nm mod 2 = 0.

Definition dir_ok (dl : Z) (names : list ident) : Prop :=
  PackProofs.Inv C (st_of dl names) /\ StronglySorted blt names /\ Forall name_ok names.

Definition file_ok (len : Z) : Prop := 0 <= len <= max_len.

Fixpoint all_ok (n : node) : Prop :=
  match n with
  | File _ len => file_ok len
  | Dir _ dl kids =>
      dir_ok dl (map name_of kids) /\
      (fix go (l : list node) : Prop := match l with [] => True | c :: r => all_ok c /\ go r end) kids
  end.

Lemma all_ok_dir nm dl kids :
  all_ok (Dir nm dl kids) <-> dir_ok dl (map name_of kids) /\ Forall all_ok kids.
Proof.
  cbn [all_ok]. apply and_iff_compat_l.
  induction kids as [|c r IH]; [split; [constructor|trivial]|].
  rewrite IH. split.
  - intros [H1 H2]. constructor; assumption.
  - intros H. inversion H. tauto.
Qed.

Lemma subtree_all_ok : forall p n old, all_ok n -> subtree p n = Some old -> all_ok old.
Proof.
  induction p as [|x q IH]; intros n old Hn H; cbn [subtree] in H.
  - inversion H. subst. exact Hn.
  - destruct n as [nm len|nm dl kids]; [discriminate|].
    destruct (lookup x kids) as [[k c]|] eqn:L; [|discriminate].
    apply lookup_spec in L. destruct L as (Hk & _ & _).
    apply all_ok_dir in Hn. destruct Hn as [_ HF]. rewrite Forall_forall in HF.
    apply (IH c old); [apply HF; eapply nth_error_In; exact Hk|exact H].
Qed.

Lemma Forall_set_at {A} (P : A -> Prop) kids k c c' : nth_error kids k = Some c ->
  Forall P kids -> P c' -> Forall P (set_at k c' kids).
Proof.
  intros H HF Hc. destruct (nth_error_decomp kids k c H) as (l1 & l2 & -> & _ & Hs & _).
  rewrite Hs. apply Forall_app in HF. destruct HF as [H1 H2]. inversion H2. subst.
  apply Forall_app. split; [exact H1|]. constructor; assumption.
Qed.

Lemma all_ok_replace : forall p n t old, subtree p n = Some old -> name_of t = name_of old ->
  all_ok n -> all_ok t -> all_ok (replace p t n).
Proof.
  induction p as [|x q IH]; intros n t old H E Hn Ht; cbn [subtree replace] in *.
  - exact Ht.
  - destruct n as [nm len|nm dl kids]; [discriminate|].
    destruct (lookup x kids) as [[k c]|] eqn:L; [|discriminate].
    apply lookup_spec in L. destruct L as (Hk & _ & _).
    apply all_ok_dir in Hn. destruct Hn as [Hd HF]. apply all_ok_dir. split.
    + rewrite (names_set_at kids k c _ Hk); [exact Hd|]. eapply replace_name; eassumption.
    + apply (Forall_set_at all_ok kids k c _ Hk HF).
      apply (IH c t old H E); [|exact Ht].
      rewrite Forall_forall in HF. apply HF. eapply nth_error_In. exact Hk.
Qed.

(* ---- 7. the records of a directory under insert / remove ---------------------------------- *)

Lemma dr_len_of_nonneg nm : 0 <= dr_len_of nm.
Proof. unfold dr_len_of. pose proof (zlen_nonneg nm). cbv zeta. lia. Qed.

Lemma dr_len_of_even nm : dr_len_of nm mod 2 = 0.
Proof. unfold dr_len_of. cbv zeta. lia. Qed.

Lemma recs_nonneg dl names : nonneg (recs (st_of dl names)).
Proof.
  cbn [st_of recs]. constructor; [lia|]. constructor; [lia|].
  apply Forall_map, Forall_forall. intros nm _. apply dr_len_of_nonneg.
Qed.

Lemma st_of_add dl names k nm :
  dir_add C (st_of dl names) (2 + k) (dr_len_of nm) =
  st_of (dlen (dir_add C (st_of dl names) (2 + k) (dr_len_of nm))) (insert_at k nm names).
Proof.
  unfold dir_add, st_of. cbn [recs dlen]. change (2 + k)%nat with (S (S k)).
  rewrite insert_at_SS, map_insert_at. reflexivity.
Qed.

Lemma st_of_remove dl names k :
  dir_remove C (st_of dl names) (2 + k) =
  st_of (dlen (dir_remove C (st_of dl names) (2 + k))) (remove_at k names).
Proof.
  unfold dir_remove, st_of. cbn [recs dlen]. change (2 + k)%nat with (S (S k)).
  rewrite remove_at_SS, map_remove_at. reflexivity.
Qed.

Lemma dlen_add d k x : dlen (dir_add C d k x) = dlen d + (if add_overflows d k x then C else 0).
Proof. unfold dir_add, add_overflows. cbn [dlen]. destruct (_ >? _); lia. Qed.

Lemma dlen_remove d k : dlen (dir_remove C d k) = dlen d - (if rm_underflows d k then C else 0).
Proof. unfold dir_remove, rm_underflows. cbn [dlen]. cbv zeta. destruct (_ >? _); lia. Qed.

(* the duplicate test of _add_child, on the names *)
Definition no_dup_at (nm : ident) (names : list ident) : Prop :=
  forall y, nth_error names (pos nm names) = Some y -> bytes_eqb y nm = false.

Lemma dir_ok_add dl names nm : dir_ok dl names -> name_ok nm -> no_dup_at nm names ->
  dir_ok (dlen (dir_add C (st_of dl names) (2 + pos nm names) (dr_len_of nm)))
         (insert_at (pos nm names) nm names).
Proof.
  intros (Hi & Hs & Hf) Hn Hd. split; [|split].
  - rewrite <- st_of_add. destruct Hn as [Hn _].
    apply dir_inv_add; [unfold C; lia|apply recs_nonneg|lia|unfold C; lia|exact Hi].
  - apply SS_insert_pos; assumption.
  - apply Forall_insert_at; assumption.
Qed.

Lemma dir_ok_remove dl names k : dir_ok dl names ->
  dir_ok (dlen (dir_remove C (st_of dl names) (2 + k))) (remove_at k names).
Proof.
  intros (Hi & Hs & Hf). split; [|split].
  - rewrite <- st_of_remove. apply dir_inv_remove; [unfold C; lia|apply recs_nonneg|exact Hi].
  - apply SS_remove_at, Hs.
  - apply Forall_remove_at, Hf.
Qed.

Lemma dir_ok_new : dir_ok C [].
Proof.
  split; [|split; constructor]. change (st_of C []) with (dir_init C).
  apply dir_inv_init. unfold C. lia.
Qed.

(* ---- 8. the BFS traversal and the closed form of layout_end ------------------------------- *)

Definition shallow (w : bool -> ident -> Z -> Z) (n : node) : Z :=
  match n with File nm len => w false nm len | Dir nm dl _ => w true nm dl end.

Definition nsizes (l : list node) : nat := fold_right (fun c acc => (nsize c + acc)%nat) O l.

Lemma nsize_dir nm dl kids : nsize (Dir nm dl kids) = S (nsizes kids).
Proof.
  reflexivity.
Qed.

Lemma nsize_pos n : (1 <= nsize n)%nat.
Proof. destruct n as [nm len|nm dl kids]; [cbn; lia|rewrite nsize_dir; lia]. Qed.

Lemma nsizes_app l1 l2 : nsizes (l1 ++ l2) = (nsizes l1 + nsizes l2)%nat.
Proof. induction l1 as [|c r IH]; cbn [app nsizes fold_right]; [reflexivity|]. fold (nsizes (r ++ l2)). fold (nsizes r). lia. Qed.

Lemma total_shallow w n : total w n = shallow w n + totals w (kids_of n).
Proof.
  destruct n as [nm len|nm dl kids]; [cbn [total shallow kids_of totals map]; cbn; lia|].
  rewrite total_dir. reflexivity.
Qed.

Lemma bfs_sum w : forall fuel queue, (nsizes queue <= fuel)%nat ->
  Alloc.zsum (map (shallow w) (bfs fuel queue)) = totals w queue.
Proof.
  induction fuel as [|f IH]; intros queue Hq.
  - destruct queue as [|n q]; [reflexivity|].
    cbn [nsizes fold_right] in Hq. pose proof (nsize_pos n). lia.
  - destruct queue as [|n q]; [reflexivity|]. cbn [bfs map]. rewrite zsum_cons, totals_cons.
    rewrite IH.
    + rewrite totals_app, (total_shallow w n). lia.
    + rewrite nsizes_app. cbn [nsizes fold_right] in Hq. fold (nsizes q) in Hq.
      destruct n as [nm len|nm dl kids]; cbn [kids_of].
      * cbn [nsizes fold_right]. cbn [nsize] in Hq. lia.
      * rewrite nsize_dir in Hq. lia.
Qed.

Lemma zsum_map_filter {A} (f : A -> Z) (P : A -> bool) l :
  Alloc.zsum (map f (filter P l)) = Alloc.zsum (map (fun x => if P x then f x else 0) l).
Proof.
  induction l as [|x l IH]; [reflexivity|]. cbn [filter map]. destruct (P x).
  - cbn [map]. rewrite !zsum_cons, IH. reflexivity.
  - rewrite zsum_cons, IH. lia.
Qed.

Lemma visit_sum w s : Alloc.zsum (map (shallow w) (visit s)) = total w (root s).
Proof.
  unfold visit. rewrite bfs_sum.
  - rewrite totals_cons. unfold totals. cbn. lia.
  - cbn [nsizes fold_right]. lia.
Qed.

(* the end of the from-scratch assignment, in closed form: 16 + PVD + VDST + version block +
   L and M path tables + directory blocks + file blocks *)
Theorem layout_end_closed s :
  layout_end s = 19 + 2 * ptr_ext s + total w_dblk (root s) + total w_fblk (root s).
Proof.
  unfold layout_end, bump_end, objects. rewrite !zsum_app, !zsum_map_filter.
  rewrite (map_ext (fun x => if is_dir x then obj_size x else 0) (shallow w_dblk)),
    (map_ext (fun x => if in_file_list x then obj_size x else 0) (shallow w_fblk)).
  - rewrite !visit_sum. unfold Alloc.zsum. cbn [fold_right]. lia.
  - intros [nm len|nm dl kids]; cbn [in_file_list obj_size shallow w_fblk]; [|reflexivity].
    destruct (Z.eqb_spec len 0) as [->|Hne]; reflexivity.
  - intros [nm len|nm dl kids]; reflexivity.
Qed.
