(* Proofs/RelocPath.v -- children lists and path updates of Model/RelocCore.v:
   [ins]/[del_kid]/[find_kid] as permutations, and the relation [rl_upd] that describes what
   [at_path] does (the one node reached by the path is replaced, every ancestor is rebuilt with
   unchanged fields), with the facts the invariant proofs need. *)
From Coq Require Import ZArith List Bool Lia Permutation.
From PV.Model Require Import RelocCore.
From PV.Proofs Require Import RelocBase.
Import ListNotations.
Local Open Scope Z_scope.

Fixpoint ndirs (l : list node) : Z :=
  match l with [] => 0 | h :: t => b2z (is_dir h) + ndirs t end.

Lemma rl_ndirs_app a b : ndirs (a ++ b) = ndirs a + ndirs b.
Proof. induction a as [|h a IH]; cbn [app ndirs]; lia. Qed.

Lemma rl_ndirs_perm a b : Permutation a b -> ndirs a = ndirs b.
Proof. induction 1; cbn [ndirs]; lia. Qed.

Lemma rl_ndirs_nonneg l : 0 <= ndirs l.
Proof. induction l as [|h l IH]; cbn [ndirs]; [lia|]. destruct (is_dir h); cbn [b2z]; lia. Qed.

Lemma rl_mnames_app a b : mnames (a ++ b) = mnames a ++ mnames b.
Proof. unfold mnames. apply flat_map_app. Qed.

Lemma rl_mnames_cons k l : mnames (k :: l) = mnames_n k ++ mnames l.
Proof. reflexivity. Qed.

Lemma rl_mnames_perm a b : Permutation a b -> Permutation (mnames a) (mnames b).
Proof. apply rl_flat_map_perm. Qed.

(* ---- children lists ------------------------------------------------------------------------ *)
Lemma rl_has_name_false c l : has_name c l = false <-> ~ In c (map niso l).
Proof.
  induction l as [|h l IH]; cbn [has_name map In]; [tauto|].
  rewrite orb_false_iff, IH, rl_neqb_neq. tauto.
Qed.

Lemma rl_find_kid_some c l k : find_kid c l = Some k -> In k l /\ niso k = c.
Proof.
  induction l as [|h l IH]; cbn [find_kid]; [discriminate|].
  destruct (neqb (niso h) c) eqn:E.
  - intros H; injection H as <-. apply rl_neqb_eq in E. split; [left; reflexivity|exact E].
  - intros H. destruct (IH H). split; [right; assumption|assumption].
Qed.

Lemma rl_find_kid_app c a k b :
  (forall x, In x a -> niso x <> c) -> niso k = c -> find_kid c (a ++ k :: b) = Some k.
Proof.
  intros Ha Hk. induction a as [|h a IH]; cbn [app find_kid].
  - rewrite Hk, rl_neqb_refl. reflexivity.
  - assert (neqb (niso h) c = false) as -> by (apply rl_neqb_neq, Ha; left; reflexivity).
    apply IH. intros x Hx. apply Ha. right. exact Hx.
Qed.

Lemma rl_find_kid_none c l : find_kid c l = None <-> has_name c l = false.
Proof.
  induction l as [|h l IH]; cbn [find_kid has_name]; [tauto|].
  destruct (neqb (niso h) c); cbn [orb]; [split; discriminate|exact IH].
Qed.

Lemma rl_ins_perm n l : Permutation (ins n l) (n :: l).
Proof.
  induction l as [|h l IH]; cbn [ins]; [apply Permutation_refl|].
  destruct (nlt (niso h) (niso n)); [|apply Permutation_refl].
  eapply Permutation_trans; [apply perm_skip, IH|apply perm_swap].
Qed.

Lemma rl_del_kid_perm c l k : find_kid c l = Some k -> Permutation l (k :: del_kid c l).
Proof.
  induction l as [|h l IH]; cbn [find_kid del_kid]; [discriminate|].
  destruct (neqb (niso h) c).
  - intros H; injection H as <-. apply Permutation_refl.
  - intros H. eapply Permutation_trans; [apply perm_skip, (IH H)|apply perm_swap].
Qed.

(* ---- what at_path does --------------------------------------------------------------------- *)
Definition rl_sim (k k' : node) : Prop := niso k' = niso k /\ is_dir k' = is_dir k.

Lemma rl_sim_refl k : rl_sim k k.
Proof. split; reflexivity. Qed.

Lemma rl_sim_list_refl l : Forall2 rl_sim l l.
Proof. induction l; constructor; [apply rl_sim_refl|assumption]. Qed.

Lemma rl_sim_names a b : Forall2 rl_sim a b -> map niso b = map niso a.
Proof. induction 1 as [|x y a b [H _] _ IH]; cbn [map]; [reflexivity|]. rewrite H, IH. reflexivity. Qed.

Lemma rl_sim_ndirs a b : Forall2 rl_sim a b -> ndirs b = ndirs a.
Proof. induction 1 as [|x y a b [_ H] _ IH]; cbn [ndirs]; [reflexivity|]. rewrite H, IH. reflexivity. Qed.

Inductive rl_upd (g : node -> option node)
  : list name -> list node -> list node -> node -> node -> Prop :=
| rl_upd_here c a k b k' :
    (forall x, In x a -> niso x <> c) -> niso k = c -> g k = Some k' ->
    rl_upd g [c] (a ++ k :: b) (a ++ k' :: b) k k'
| rl_upd_down c p a i r e d m sub sub' b t t' :
    (forall x, In x a -> niso x <> c) -> i = c -> p <> [] ->
    rl_upd g p sub sub' t t' ->
    rl_upd g (c :: p) (a ++ Dir i r e d m sub :: b) (a ++ Dir i r e d m sub' :: b) t t'.

Lemma rl_on_kid_inv c g l l' : on_kid c g l = Some l' ->
  exists a k b k', l = a ++ k :: b /\ l' = a ++ k' :: b /\
    (forall x, In x a -> niso x <> c) /\ niso k = c /\ g k = Some k'.
Proof.
  revert l'. induction l as [|h l IH]; cbn [on_kid]; intros l' H; [discriminate|].
  destruct (neqb (niso h) c) eqn:E.
  - destruct (g h) as [h'|] eqn:G; [|discriminate]. injection H as <-.
    exists [], h, l, h'. apply rl_neqb_eq in E. repeat split; try assumption. intros x [].
  - destruct (on_kid c g l) as [l0|] eqn:O; [|discriminate]. injection H as <-.
    destruct (IH _ eq_refl) as (a & k & b & k' & -> & -> & Ha & Hk & G).
    exists (h :: a), k, b, k'. repeat split; try assumption.
    intros x [<-|Hx]; [apply rl_neqb_neq; exact E|apply Ha; exact Hx].
Qed.

Lemma rl_at_path_upd g p : forall ks ks', at_path p g ks = Some ks' ->
  exists t t', rl_upd g p ks ks' t t'.
Proof.
  induction p as [|c p IH]; intros ks ks' H; [discriminate|].
  destruct p as [|c2 p].
  - cbn [at_path] in H. apply rl_on_kid_inv in H.
    destruct H as (a & k & b & k' & -> & -> & Ha & Hk & G).
    exists k, k'. constructor; assumption.
  - change (at_path (c :: c2 :: p) g ks)
      with (on_kid c (fun k => match k with
                               | Dir i r e d m sub => option_map (Dir i r e d m) (at_path (c2 :: p) g sub)
                               | Leaf _ _ _ => None
                               end) ks) in H.
    apply rl_on_kid_inv in H. destruct H as (a & k & b & k' & -> & -> & Ha & Hk & G).
    destruct k as [i r e d m sub|]; [|discriminate].
    destruct (at_path (c2 :: p) g sub) as [sub'|] eqn:A; [|discriminate].
    injection G as <-. destruct (IH _ _ A) as (t & t' & U).
    exists t, t'. apply rl_upd_down; [exact Ha|exact Hk|discriminate|exact U].
Qed.

Lemma rl_upd_sim g p ks ks' t t' : rl_upd g p ks ks' t t' -> rl_sim t t' -> Forall2 rl_sim ks ks'.
Proof.
  induction 1 as [c a k b k' Ha Hk G|c p a i r e d m sub sub' b t t' Ha Hi Hp U IH]; intros S.
  - apply Forall2_app; [apply rl_sim_list_refl|]. constructor; [exact S|apply rl_sim_list_refl].
  - apply Forall2_app; [apply rl_sim_list_refl|]. constructor; [split; reflexivity|apply rl_sim_list_refl].
Qed.

(* the target is a node of the tree: a predicate that holds below every node holds for it *)
Lemma rl_upd_mnames_add g p ks ks' t t' z : rl_upd g p ks ks' t t' ->
  Permutation (mnames_n t') (z ++ mnames_n t) -> Permutation (mnames ks') (z ++ mnames ks).
Proof.
  induction 1 as [c a k b k' Ha Hk G|c p a i r e d m sub sub' b t t' Ha Hi Hp U IH]; intros P.
  - rewrite !rl_mnames_app, !rl_mnames_cons.
    eapply Permutation_trans; [apply Permutation_app_head, Permutation_app_tail, P|].
    rewrite <- !app_assoc. rewrite (app_assoc (mnames a) z). rewrite (app_assoc z (mnames a)).
    apply Permutation_app_tail. apply Permutation_app_comm.
  - specialize (IH P). rewrite !rl_mnames_app, !rl_mnames_cons. cbn [mnames_n].
    fold (mnames sub) (mnames sub').
    set (mo := match m with Some x => [x] | None => [] end).
    eapply Permutation_trans;
      [apply Permutation_app_head, Permutation_app_tail, Permutation_app_head, IH|].
    rewrite <- !app_assoc.
    rewrite (app_assoc (mnames a) mo), (app_assoc (mnames a ++ mo) z).
    rewrite (app_assoc z (mnames a)), (app_assoc (z ++ mnames a) mo), <- (app_assoc z (mnames a) mo).
    apply Permutation_app_tail. apply Permutation_app_comm.
Qed.

Lemma rl_upd_mnames_del g p ks ks' t t' z : rl_upd g p ks ks' t t' ->
  Permutation (mnames_n t) (z ++ mnames_n t') -> Permutation (mnames ks) (z ++ mnames ks').
Proof.
  induction 1 as [c a k b k' Ha Hk G|c p a i r e d m sub sub' b t t' Ha Hi Hp U IH]; intros P.
  - rewrite !rl_mnames_app, !rl_mnames_cons.
    eapply Permutation_trans; [apply Permutation_app_head, Permutation_app_tail, P|].
    rewrite <- !app_assoc. rewrite (app_assoc (mnames a) z). rewrite (app_assoc z (mnames a)).
    apply Permutation_app_tail. apply Permutation_app_comm.
  - specialize (IH P). rewrite !rl_mnames_app, !rl_mnames_cons. cbn [mnames_n].
    fold (mnames sub) (mnames sub').
    set (mo := match m with Some x => [x] | None => [] end).
    eapply Permutation_trans;
      [apply Permutation_app_head, Permutation_app_tail, Permutation_app_head, IH|].
    rewrite <- !app_assoc.
    rewrite (app_assoc (mnames a) mo), (app_assoc (mnames a ++ mo) z).
    rewrite (app_assoc z (mnames a)), (app_assoc (z ++ mnames a) mo), <- (app_assoc z (mnames a) mo).
    apply Permutation_app_tail. apply Permutation_app_comm.
Qed.

Lemma rl_split_last_app p q c : split_last p = Some (q, c) -> p = q ++ [c].
Proof.
  revert q. induction p as [|x p IH]; cbn [split_last]; intros q H; [discriminate|].
  destruct (split_last p) as [[q0 c0]|] eqn:E.
  - injection H as <- <-. rewrite (IH _ eq_refl). reflexivity.
  - injection H as <- <-. destruct p as [|y p]; [reflexivity|].
    cbn [split_last] in E. destruct (split_last p) as [[? ?]|]; discriminate.
Qed.

(* the node [get] finds below the parent path is a child of the node [at_path] rewrites *)
Lemma rl_upd_get g p ks ks' t t' c k : rl_upd g p ks ks' t t' -> get (p ++ [c]) ks = Some k ->
  exists i r e d m sub, t = Dir i r e d m sub /\ find_kid c sub = Some k.
Proof.
  induction 1 as [c1 a k1 b k' Ha Hk G|c1 p a i r e d m sub sub' b t t' Ha Hi Hp U IH]; intros H.
  - cbn [app get] in H. rewrite (rl_find_kid_app _ _ _ _ Ha Hk) in H.
    destruct k1 as [i r e d m sub|]; [|discriminate]. exists i, r, e, d, m, sub.
    split; [reflexivity|]. cbn [get] in H. destruct (find_kid c sub); [exact H|discriminate].
  - destruct p as [|c2 p]; [contradiction|].
    cbn [app get] in H. rewrite (rl_find_kid_app c1 a (Dir i r e d m sub) b Ha Hi) in H.
    apply IH. exact H.
Qed.
