(* Refinement of Spec/FsSpec.v by Model/AccountNs.v, part 2: the two-namespace state machine.
   Rel c a: the ISO9660 and Joliet hierarchies of the concrete state c have, up to order, the entry
   lists of the specification state a (no UDF, no boot).  For every operation the outcomes agree
   (accepted <-> Ok) and an accepted operation leads to related states; refused operations -- early
   or late -- are refused by the specification. *)
From Coq Require Import ZArith List Bool Lia ZifyBool Sorted Arith Permutation.
From PV.Base Require Import Prim.
From PV.Gen Require Import GenConst GenFun.
From PV.Spec Require FsSpec.
From PV.Model Require Import Names Checksums Pack Alloc Account AccountLinks AccountNs.
From PV.Proofs Require FsSpecProofs.
From PV.Proofs Require Import PackProofs AllocProofs ChecksumsArithProofs AccountLemmas AccountProofs
     AccountLinksLemmas AccountLinksPurge AccountNsLemmas AccountNsInv AccountNsProofs
     AccountNsRefineLemmas AccountNsRefineTree.
Import ListNotations.
Local Open Scope Z_scope.

Definition Rel (c : nstate) (a : F.fs) : Prop :=
  FP.wf_fs a /\ tinv (niso c) /\ tinv (njol c) /\
  Permutation (abs_tree (niso c)) (F.f_iso a) /\ Permutation (abs_tree (njol c)) (F.f_jol a) /\
  F.f_udf a = [] /\ F.f_boot a = None.

(* the abstraction function satisfies the relation: Rel c a says that a is abs c up to the order
   of the two entry lists *)
Lemma Rel_abs c a : Rel c a ->
  Permutation (F.f_iso (abs c)) (F.f_iso a) /\ Permutation (F.f_jol (abs c)) (F.f_jol a) /\
  F.f_udf (abs c) = F.f_udf a /\ F.f_boot (abs c) = F.f_boot a.
Proof. intros (_ & _ & _ & P1 & P2 & U & B). cbn [abs F.f_iso F.f_jol F.f_udf F.f_boot]. auto. Qed.

Lemma Rel_iso c a : Rel c a -> trel (niso c) (F.f_iso a).
Proof. intros ((W & _) & T & _ & P & _). split; [exact T|]. split; assumption. Qed.

Lemma Rel_jol c a : Rel c a -> trel (njol c) (F.f_jol a).
Proof. intros ((_ & W & _) & _ & T & _ & P & _). split; [exact T|]. split; assumption. Qed.

Lemma tinv_root : tinv (LDir [0] C []).
Proof.
  split; [apply lall_ok_dir; split; [apply dir_ok_new|constructor]|]. split; [split; reflexivity|].
  vm_compute. reflexivity.
Qed.

Theorem Rel_init : Rel ninit F.empty_fs.
Proof.
  split; [apply FP.wf_empty|]. split; [apply tinv_root|]. split; [apply tinv_root|].
  repeat split; constructor.
Qed.

(* ---- one namespace's part of an addition ---------------------------------------------------------- *)

Lemma t_add_node_drlen t d c r : t_add_node t d c = Some r -> drlen_ok (lname c) = true.
Proof.
  unfold t_add_node, drlen_ok. destruct (lsubtree d t) as [[? ? ?|dn dl kids]|]; try discriminate.
  cbv zeta. destruct (dr_len_of (lname c) >? 255); [discriminate|reflexivity].
Qed.

Lemma phase_add t l d c : trel t l -> bytesp d -> bytes (lname c) -> leaf c -> lall_ok c ->
  match t_add_node t d c with
  | Some (t', _) =>
      F.can_add l (encp (d ++ [lname c])) = true /\ tinv t' /\
      Permutation (abs_tree t') (l ++ [F.mk (encp (d ++ [lname c])) (kind_of c) 0])
  | None => drlen_ok (lname c) = true -> F.can_add l (encp (d ++ [lname c])) = false
  end.
Proof.
  intros HR Hd Hb Hl Hc. pose proof (t_add_node_can t l d c HR Hd Hb) as H1.
  destruct (t_add_node t d c) as [[t' g]|] eqn:E; [|exact H1].
  destruct HR as (HT & _ & HP).
  destruct (t_add_node_perm t d c t' g HT Hc Hl Hb E) as [HT' HP'].
  split; [exact H1|]. split; [exact HT'|].
  eapply Permutation_trans; [exact HP'|]. apply Permutation_app_tail, HP.
Qed.

Lemma jol_drlen n : jol_legal n = true -> drlen_ok (utf16 n) = true.
Proof.
  unfold jol_legal, drlen_ok, dr_len_of. intros H. pose proof (zlen_utf16 n). pose proof (zlen_nonneg n).
  cbv zeta. apply negb_true_iff. lia.
Qed.

Lemma jpath_snoc d n : jpath (d ++ [n]) = jpath d ++ [utf16 n].
Proof. unfold jpath. rewrite map_app. reflexivity. Qed.

Lemma bytes_pn_spec d n : bytes_pn (d, n) = true -> bytesp d /\ bytes n.
Proof.
  unfold bytes_pn. cbn [fst snd]. intros H. apply andb_prop in H. destruct H as [H1 H2].
  split; [apply bytes_path_spec, H1|apply bytes_ident_spec, H2].
Qed.

(* the specification's state after an accepted two-namespace addition *)
Lemma spec_add_shape (a : F.fs) k (iso : option (F.path * Z)) (jol : option F.path) :
  let s1 := match iso with Some (p, rr) => F.set_ns a F.NsIso (F.f_iso a ++ [F.mk p k rr]) | None => a end in
  let s2 := match jol with Some p => F.set_ns s1 F.NsJoliet (F.f_jol s1 ++ [F.mk p k 0]) | None => s1 end in
  F.f_iso s2 = match iso with Some (p, rr) => F.f_iso a ++ [F.mk p k rr] | None => F.f_iso a end /\
  F.f_jol s2 = match jol with Some p => F.f_jol a ++ [F.mk p k 0] | None => F.f_jol a end /\
  F.f_udf s2 = F.f_udf a /\ F.f_boot s2 = F.f_boot a.
Proof. destruct iso as [[p rr]|]; destruct jol as [q|]; cbn; auto. Qed.

(* ---- add_fp ------------------------------------------------------------------------------------------ *)

Ltac is_refused :=
  split; [split; intros X; [discriminate X|cbn in X; try discriminate X]|intros X; discriminate X].

Theorem sim_add_file k c a iso jol len : Rel c a -> bytes_op (NAddFile iso jol len) = true ->
  let r := nstep k c (NAddFile iso jol len) in
  let r' := F.step a (tr k (NAddFile iso jol len)) in
  (snd r = NOk <-> snd r' = F.Ok) /\ (snd r = NOk -> Rel (fst r) (fst r')).
Proof.
  intros HR Hb. pose proof (FP.step_preserves_wf a (tr k (NAddFile iso jol len)) (proj1 HR)) as HW.
  pose proof (Rel_iso c a HR) as RI. pose proof (Rel_jol c a HR) as RJ.
  destruct HR as (_ & TI & TJ & PI & PJ & HU & HB).
  cbn [nstep]. unfold nstep_add_file. cbn [tr] in *. cbn [bytes_op] in Hb.
  apply andb_prop in Hb. destruct Hb as [Hbi Hbj].
  destruct ((0 <=? len) && (len <=? max_len)) eqn:Hrange; cbn [negb andb] in *;
    [|destruct iso as [[? ?]|]; destruct jol as [[? ?]|]; is_refused].
  destruct iso as [[di ni]|]; destruct jol as [[dj nj]|]; cbn [opt_legal fst snd option_map] in *;
    try (is_refused; fail).
  - (* both namespaces *)
    destruct (bytes_pn_spec _ _ Hbi) as [Bdi Bni]. destruct (bytes_pn_spec _ _ Hbj) as [Bdj Bnj].
    pose proof (phase_add (niso c) (F.f_iso a) di (LFile ni k (stamp_i k)) RI Bdi Bni eq_refl I) as Qi.
    pose proof (phase_add (njol c) (F.f_jol a) (jpath dj) (LFile (utf16 nj) k (stamp_j k)) RJ
                  (jpath_bytes dj Bdj) (utf16_bytes nj Bnj) eq_refl I) as Qj.
    cbn [lname kind_of] in Qi, Qj. unfold t_add_rec. rewrite jpath_snoc in *.
    destruct (iso_file_legal di ni) eqn:Li; cbn [andb] in *; [|is_refused].
    destruct (t_add_node (niso c) di (LFile ni k (stamp_i k))) as [[t1 g1]|] eqn:E1.
    + pose proof (t_add_node_drlen _ _ _ _ E1) as Dn. cbn [lname] in Dn. rewrite Dn in *.
      cbn [andb] in *. destruct Qi as (Ci & Ti & Pi).
      destruct (jol_legal nj) eqn:Lj; cbn [andb] in *; [|is_refused].
      destruct (t_add_node (njol c) (jpath dj) (LFile (utf16 nj) k (stamp_j k))) as [[t2 g2]|] eqn:E2.
      * destruct Qj as (Cj & Tj & Pj). cbn [F.step F.opt_ok fst snd] in *. rewrite Ci, Cj in *. cbn [andb fst snd] in *.
        split; [tauto|]. intros _.
        destruct (spec_add_shape a (F.KFile (blob_of_ino k)) (Some (encp (di ++ [ni]), 0))
                    (Some (encp (jpath dj ++ [utf16 nj])))) as (S1 & S2 & S3 & S4).
        cbv zeta in *. split; [exact HW|]. cbn [set_trees niso njol].
        split; [exact Ti|]. split; [exact Tj|]. rewrite S1, S2, S3, S4. auto.
      * specialize (Qj (jol_drlen nj Lj)). cbn [F.step F.opt_ok fst snd]. rewrite Ci, Qj. is_refused.
    + destruct (drlen_ok ni) eqn:Dn; cbn [andb] in *; [|is_refused].
      specialize (Qi eq_refl). destruct (jol_legal nj); cbn [andb]; [|is_refused].
      cbn [F.step F.opt_ok fst snd]. rewrite Qi. is_refused.
  - (* ISO9660 only *)
    destruct (bytes_pn_spec _ _ Hbi) as [Bdi Bni].
    pose proof (phase_add (niso c) (F.f_iso a) di (LFile ni k (stamp_i k)) RI Bdi Bni eq_refl I) as Qi.
    cbn [lname kind_of] in Qi. unfold t_add_rec.
    destruct (iso_file_legal di ni) eqn:Li; cbn [andb] in *; [|is_refused].
    destruct (t_add_node (niso c) di (LFile ni k (stamp_i k))) as [[t1 g1]|] eqn:E1.
    + pose proof (t_add_node_drlen _ _ _ _ E1) as Dn. cbn [lname] in Dn. rewrite Dn in *.
      cbn [andb] in *. destruct Qi as (Ci & Ti & Pi).
      cbn [F.step F.opt_ok fst snd] in *. rewrite Ci in *. cbn [andb fst snd] in *.
      split; [tauto|]. intros _.
      destruct (spec_add_shape a (F.KFile (blob_of_ino k)) (Some (encp (di ++ [ni]), 0)) None) as (S1 & S2 & S3 & S4).
      cbv zeta in *. split; [exact HW|]. cbn [set_trees niso njol].
      split; [exact Ti|]. split; [exact TJ|]. rewrite S1, S2, S3, S4. auto.
    + destruct (drlen_ok ni) eqn:Dn; cbn [andb] in *; [|is_refused].
      specialize (Qi eq_refl). cbn [F.step F.opt_ok fst snd]. rewrite Qi. is_refused.
  - (* Joliet only *)
    destruct (bytes_pn_spec _ _ Hbj) as [Bdj Bnj].
    pose proof (phase_add (njol c) (F.f_jol a) (jpath dj) (LFile (utf16 nj) k (stamp_j k)) RJ
                  (jpath_bytes dj Bdj) (utf16_bytes nj Bnj) eq_refl I) as Qj.
    cbn [lname kind_of] in Qj. unfold t_add_rec. rewrite jpath_snoc in *.
    destruct (jol_legal nj) eqn:Lj; cbn [andb] in *; [|is_refused].
    destruct (t_add_node (njol c) (jpath dj) (LFile (utf16 nj) k (stamp_j k))) as [[t2 g2]|] eqn:E2.
    + destruct Qj as (Cj & Tj & Pj). cbn [F.step F.opt_ok fst snd] in *. rewrite Cj in *. cbn [andb fst snd] in *.
      split; [tauto|]. intros _.
      destruct (spec_add_shape a (F.KFile (blob_of_ino k)) None (Some (encp (jpath dj ++ [utf16 nj])))) as (S1 & S2 & S3 & S4).
      cbv zeta in *. split; [exact HW|]. cbn [set_trees niso njol].
      split; [exact TI|]. split; [exact Tj|]. rewrite S1, S2, S3, S4. auto.
    + specialize (Qj (jol_drlen nj Lj)). cbn [F.step F.opt_ok fst snd]. rewrite Qj. is_refused.
Qed.

(* ---- add_directory ----------------------------------------------------------------------------------- *)

Lemma lall_ok_newdir n : lall_ok (LDir n C []).
Proof. apply lall_ok_dir. split; [apply dir_ok_new|constructor]. Qed.

Theorem sim_add_dir k c a iso jol : Rel c a -> bytes_op (NAddDir iso jol) = true ->
  let r := nstep k c (NAddDir iso jol) in
  let r' := F.step a (tr k (NAddDir iso jol)) in
  (snd r = NOk <-> snd r' = F.Ok) /\ (snd r = NOk -> Rel (fst r) (fst r')).
Proof.
  intros HR Hb. pose proof (FP.step_preserves_wf a (tr k (NAddDir iso jol)) (proj1 HR)) as HW.
  pose proof (Rel_iso c a HR) as RI. pose proof (Rel_jol c a HR) as RJ.
  destruct HR as (_ & TI & TJ & PI & PJ & HU & HB).
  cbn [nstep]. unfold nstep_add_dir. cbn [tr] in *. cbn [bytes_op] in Hb.
  apply andb_prop in Hb. destruct Hb as [Hbi Hbj].
  destruct iso as [[di ni]|]; destruct jol as [[dj nj]|]; cbn [opt_legal fst snd option_map] in *;
    try (is_refused; fail).
  - destruct (bytes_pn_spec _ _ Hbi) as [Bdi Bni]. destruct (bytes_pn_spec _ _ Hbj) as [Bdj Bnj].
    pose proof (phase_add (niso c) (F.f_iso a) di (LDir ni C []) RI Bdi Bni eq_refl (lall_ok_newdir ni)) as Qi.
    pose proof (phase_add (njol c) (F.f_jol a) (jpath dj) (LDir (utf16 nj) C []) RJ
                  (jpath_bytes dj Bdj) (utf16_bytes nj Bnj) eq_refl (lall_ok_newdir _)) as Qj.
    cbn [lname kind_of] in Qi, Qj. unfold t_add_dir. rewrite jpath_snoc in *.
    destruct (iso_dir_legal di ni) eqn:Li; cbn [andb] in *; [|is_refused].
    destruct (t_add_node (niso c) di (LDir ni C [])) as [[t1 g1]|] eqn:E1.
    + pose proof (t_add_node_drlen _ _ _ _ E1) as Dn. cbn [lname] in Dn. rewrite Dn in *.
      cbn [andb] in *. destruct Qi as (Ci & Ti & Pi).
      destruct (add_to_ptr_size (ips c) (ipe c) (ptr_record_length (zlen ni))) as [[b1 ps] pe].
      destruct (jol_legal nj) eqn:Lj; cbn [andb] in *; [|is_refused].
      destruct (t_add_node (njol c) (jpath dj) (LDir (utf16 nj) C [])) as [[t2 g2]|] eqn:E2.
      * destruct Qj as (Cj & Tj & Pj).
        destruct (add_to_ptr_size (jps c) (jpe c) (ptr_record_length (zlen (utf16 nj)))) as [[b2 qs] qe].
        cbn [F.step F.opt_ok fst snd] in *. rewrite Ci, Cj in *. cbn [andb fst snd] in *.
        split; [tauto|]. intros _.
        destruct (spec_add_shape a F.KDir (Some (encp (di ++ [ni]), 0))
                    (Some (encp (jpath dj ++ [utf16 nj])))) as (S1 & S2 & S3 & S4).
        cbv zeta in *. split; [exact HW|]. cbn [set_all niso njol].
        split; [exact Ti|]. split; [exact Tj|]. rewrite S1, S2, S3, S4. auto.
      * specialize (Qj (jol_drlen nj Lj)). cbn [F.step F.opt_ok fst snd]. rewrite Ci, Qj. is_refused.
    + destruct (drlen_ok ni) eqn:Dn; cbn [andb] in *; [|is_refused].
      specialize (Qi eq_refl). destruct (jol_legal nj); cbn [andb]; [|is_refused].
      cbn [F.step F.opt_ok fst snd]. rewrite Qi. is_refused.
  - destruct (bytes_pn_spec _ _ Hbi) as [Bdi Bni].
    pose proof (phase_add (niso c) (F.f_iso a) di (LDir ni C []) RI Bdi Bni eq_refl (lall_ok_newdir ni)) as Qi.
    cbn [lname kind_of] in Qi. unfold t_add_dir.
    destruct (iso_dir_legal di ni) eqn:Li; cbn [andb] in *; [|is_refused].
    destruct (t_add_node (niso c) di (LDir ni C [])) as [[t1 g1]|] eqn:E1.
    + pose proof (t_add_node_drlen _ _ _ _ E1) as Dn. cbn [lname] in Dn. rewrite Dn in *.
      cbn [andb] in *. destruct Qi as (Ci & Ti & Pi).
      destruct (add_to_ptr_size (ips c) (ipe c) (ptr_record_length (zlen ni))) as [[b1 ps] pe].
      cbn [F.step F.opt_ok fst snd] in *. rewrite Ci in *. cbn [andb fst snd] in *.
      split; [tauto|]. intros _.
      destruct (spec_add_shape a F.KDir (Some (encp (di ++ [ni]), 0)) None) as (S1 & S2 & S3 & S4).
      cbv zeta in *. split; [exact HW|]. cbn [set_all niso njol].
      split; [exact Ti|]. split; [exact TJ|]. rewrite S1, S2, S3, S4. auto.
    + destruct (drlen_ok ni) eqn:Dn; cbn [andb] in *; [|is_refused].
      specialize (Qi eq_refl). cbn [F.step F.opt_ok fst snd]. rewrite Qi. is_refused.
  - destruct (bytes_pn_spec _ _ Hbj) as [Bdj Bnj].
    pose proof (phase_add (njol c) (F.f_jol a) (jpath dj) (LDir (utf16 nj) C []) RJ
                  (jpath_bytes dj Bdj) (utf16_bytes nj Bnj) eq_refl (lall_ok_newdir _)) as Qj.
    cbn [lname kind_of] in Qj. unfold t_add_dir. rewrite jpath_snoc in *.
    destruct (jol_legal nj) eqn:Lj; cbn [andb] in *; [|is_refused].
    destruct (t_add_node (njol c) (jpath dj) (LDir (utf16 nj) C [])) as [[t2 g2]|] eqn:E2.
    + destruct Qj as (Cj & Tj & Pj).
      destruct (add_to_ptr_size (jps c) (jpe c) (ptr_record_length (zlen (utf16 nj)))) as [[b2 qs] qe].
      cbn [F.step F.opt_ok fst snd] in *. rewrite Cj in *. cbn [andb fst snd] in *.
      split; [tauto|]. intros _.
      destruct (spec_add_shape a F.KDir None (Some (encp (jpath dj ++ [utf16 nj])))) as (S1 & S2 & S3 & S4).
      cbv zeta in *. split; [exact HW|]. cbn [set_all niso njol].
      split; [exact TI|]. split; [exact Tj|]. rewrite S1, S2, S3, S4. auto.
    + specialize (Qj (jol_drlen nj Lj)). cbn [F.step F.opt_ok fst snd]. rewrite Qj. is_refused.
Qed.

(* ---- one namespace's part of a lookup / removal ------------------------------------------------------ *)

Lemma Rel_ns c a n : Rel c a -> trel (tree_of c n) (F.get_ns a (spec_ns n)).
Proof. destruct n; [apply Rel_iso|apply Rel_jol]. Qed.

Lemma ns_path_bytes n p : bytesp p -> bytesp (ns_path n p).
Proof. destruct n; [tauto|apply jpath_bytes]. Qed.

Lemma ns_name_bytes n nm : bytes nm -> bytes (ns_name n nm).
Proof. destruct n; [tauto|apply utf16_bytes]. Qed.

Lemma ns_path_snoc n d nm : ns_path n (d ++ [nm]) = ns_path n d ++ [ns_name n nm].
Proof. destruct n; [reflexivity|apply jpath_snoc]. Qed.

Lemma t_find_sub t d nm :
  lsubtree (d ++ [nm]) t = match t_find t d nm with Some (_, _, _, _, c) => Some c | None => None end.
Proof.
  rewrite lsubtree_app. unfold t_find. destruct (lsubtree d t) as [[fn fi fs|dn dl kids]|]; try reflexivity.
  cbn [lsubtree]. destruct (llookup nm kids) as [[k c]|]; reflexivity.
Qed.

Lemma phase_find t l d nm : trel t l -> bytesp d -> bytes nm ->
  match t_find t d nm with
  | Some (dn, dl, kids, k, c) =>
      F.lookup l (encp (d ++ [nm])) = Some (entry_of (encp (d ++ [nm])) c) /\ lname c = nm /\
      (leaf c -> forall t' sh, t_remove t d dn dl kids k = (t', sh) ->
                 tinv t' /\ Permutation (abs_tree t') (F.remove_path l (encp (d ++ [nm]))))
  | None => F.lookup l (encp (d ++ [nm])) = None
  end.
Proof.
  intros HR Hd Hn.
  assert (Hb : bytesp (d ++ [nm])) by (apply bytesp_app; split; [exact Hd|constructor; [exact Hn|constructor]]).
  rewrite (trel_lookup t l _ HR Hb), (t_find_sub t d nm).
  destruct (d ++ [nm]) as [|y Y] eqn:EQ; [exfalso; eapply snoc_nonnil; exact EQ|]. rewrite <- EQ.
  destruct (t_find t d nm) as [[[[[dn dl] kids] k] c]|] eqn:Hf; [|reflexivity].
  split; [reflexivity|]. apply t_find_spec in Hf. destruct Hf as (Hsub & _ & Hk & Hx).
  split; [exact Hx|]. intros Hl t' sh Hr. destruct HR as (HT & (HN & _) & HP).
  destruct (t_remove_perm t d dn dl kids k c t' sh HT Hsub Hk Hl Hr) as [HT' HP']. split; [exact HT'|].
  rewrite Hx in HP'.
  apply (perm_remove_path l (abs_tree t') (entry_of (encp (d ++ [nm])) c) HN).
  eapply Permutation_trans; [apply Permutation_sym, HP|exact HP'].
Qed.

Lemma trel_blob_of t l q : trel t l -> bytesp q ->
  F.blob_of l (encp q) = match q, lsubtree q t with
                         | _ :: _, Some (LFile _ i _) => Some (blob_of_ino i)
                         | _, _ => None
                         end.
Proof.
  intros HR Hq. unfold F.blob_of. rewrite (trel_lookup t l q HR Hq). destruct q as [|x q0]; [reflexivity|].
  destruct (lsubtree (x :: q0) t) as [[nm i st|nm dl kids]|]; reflexivity.
Qed.

(* ---- add_hard_link ------------------------------------------------------------------------------------ *)

Lemma set_ns_shape a n l :
  F.f_iso (F.set_ns a (spec_ns n) l) = (match n with NIso => l | NJol => F.f_iso a end) /\
  F.f_jol (F.set_ns a (spec_ns n) l) = (match n with NIso => F.f_jol a | NJol => l end) /\
  F.f_udf (F.set_ns a (spec_ns n) l) = F.f_udf a /\ F.f_boot (F.set_ns a (spec_ns n) l) = F.f_boot a.
Proof. destruct n; cbn; auto. Qed.

Theorem sim_add_link k c a sns src dns d n : Rel c a -> bytes_op (NAddLink sns src dns d n) = true ->
  let r := nstep k c (NAddLink sns src dns d n) in
  let r' := F.step a (tr k (NAddLink sns src dns d n)) in
  (snd r = NOk <-> snd r' = F.Ok) /\ (snd r = NOk -> Rel (fst r) (fst r')).
Proof.
  intros HR Hb. pose proof (FP.step_preserves_wf a (tr k (NAddLink sns src dns d n)) (proj1 HR)) as HW.
  pose proof (Rel_ns c a sns HR) as RS. pose proof (Rel_ns c a dns HR) as RD.
  pose proof HR as (_ & TI & TJ & PI & PJ & HU & HB).
  cbn [nstep]. unfold nstep_add_link. cbn [tr] in *. cbn [bytes_op] in Hb.
  apply andb_prop in Hb. destruct Hb as [Hb Hbn]. apply andb_prop in Hb. destruct Hb as [Hbs Hbd].
  apply bytes_path_spec in Hbs. apply bytes_path_spec in Hbd. apply bytes_ident_spec in Hbn.
  pose proof (trel_blob_of _ _ _ RS (ns_path_bytes sns src Hbs)) as EB.
  pose proof (phase_add (tree_of c dns) (F.get_ns a (spec_ns dns)) (ns_path dns d)
                (LFile (ns_name dns n) 0 0) RD (ns_path_bytes dns d Hbd) (ns_name_bytes dns n Hbn) eq_refl I) as Q0.
  rewrite ns_path_snoc in *.
  assert (Hleg : ns_file_legal dns d n = true -> drlen_ok (ns_name dns n) = false ->
                 forall ino, t_add_rec (tree_of c dns) (ns_path dns d) (ns_name dns n) ino (stamp_i k) = None).
  { intros _ Hd ino. destruct (t_add_rec _ _ _ ino _) as [r0|] eqn:E; [|reflexivity].
    apply t_add_node_drlen in E. cbn [lname] in E. congruence. }
  assert (Hcat : forall p, F.is_catalog_name a (spec_ns sns) p = false).
  { intros p. unfold F.is_catalog_name. rewrite HB. reflexivity. }
  destruct (ns_file_legal dns d n) eqn:Lg; cbn [andb];
    [|destruct (lsubtree (ns_path sns src) (tree_of c sns)) as [[? ? ?|? ? ?]|]; is_refused].
  destruct (drlen_ok (ns_name dns n)) eqn:Dn.
  2:{ destruct (lsubtree (ns_path sns src) (tree_of c sns)) as [[? ino ?|? ? ?]|]; try is_refused.
      rewrite (Hleg eq_refl eq_refl ino). is_refused. }
  cbn [F.step]. rewrite Hcat, EB.
  destruct (ns_path sns src) as [|x q0] eqn:Esrc.
  { cbn [lsubtree]. destruct RS as ((_ & (_ & Hdir) & _) & _). destruct (tree_of c sns); [discriminate|]. is_refused. }
  rewrite <- Esrc in *.
  destruct (lsubtree (ns_path sns src) (tree_of c sns)) as [[on ino ost|on odl okids]|]; try is_refused.
  pose proof (phase_add (tree_of c dns) (F.get_ns a (spec_ns dns)) (ns_path dns d)
                (LFile (ns_name dns n) ino (stamp_i k)) RD (ns_path_bytes dns d Hbd) (ns_name_bytes dns n Hbn) eq_refl I) as Q.
  cbn [lname kind_of] in Q. unfold t_add_rec.
  destruct (t_add_node (tree_of c dns) (ns_path dns d) (LFile (ns_name dns n) ino (stamp_i k))) as [[t' g]|] eqn:E.
  - destruct Q as (Cd & Td & Pd). rewrite Cd.
    destruct (set_tree c dns t') as [ti tj] eqn:Est. cbn [fst snd]. split; [tauto|]. intros _.
    cbn [andb] in HW. cbn [F.step] in HW. rewrite Hcat, EB, Cd in HW. cbn [fst] in HW.
    destruct (set_ns_shape a dns (F.get_ns a (spec_ns dns) ++ [F.mk (encp (ns_path dns d ++ [ns_name dns n])) (F.KFile (blob_of_ino ino)) 0]))
      as (S1 & S2 & S3 & S4).
    split; [exact HW|].
    destruct dns; cbn [set_tree tree_of spec_ns F.get_ns] in *; injection Est as <- <-;
      cbn [set_trees niso njol]; rewrite S1, S2, S3, S4; do 5 (split; [assumption|]); assumption.
  - specialize (Q Dn). rewrite Q. is_refused.
Qed.

(* ---- rm_hard_link ------------------------------------------------------------------------------------- *)

Theorem sim_rm_link k c a n d nm : Rel c a -> bytes_op (NRmLink n d nm) = true ->
  let r := nstep k c (NRmLink n d nm) in
  let r' := F.step a (tr k (NRmLink n d nm)) in
  (snd r = NOk <-> snd r' = F.Ok) /\ (snd r = NOk -> Rel (fst r) (fst r')).
Proof.
  intros HR Hb. pose proof (FP.step_preserves_wf a (tr k (NRmLink n d nm)) (proj1 HR)) as HW.
  pose proof (Rel_ns c a n HR) as RN. pose proof HR as (_ & TI & TJ & PI & PJ & HU & HB).
  cbn [nstep]. unfold nstep_rm_link, t_rm_rec. cbn [tr] in *. cbn [bytes_op] in Hb.
  apply andb_prop in Hb. destruct Hb as [Hbd Hbn]. apply bytes_path_spec in Hbd. apply bytes_ident_spec in Hbn.
  rewrite ns_path_snoc in *.
  pose proof (phase_find _ _ _ _ RN (ns_path_bytes n d Hbd) (ns_name_bytes n nm Hbn)) as Q.
  cbn [F.step] in *.
  destruct (t_find (tree_of c n) (ns_path n d) (ns_name n nm)) as [[[[[dn dl] kids] k0] cc]|] eqn:Hf.
  2:{ rewrite Q. is_refused. }
  destruct Q as (Ql & Qn & Qr). rewrite Ql in *.
  destruct cc as [cn i st|cn cdl ck]; cbn [entry_of kind_of F.mk F.e_kind] in *; [|is_refused].
  destruct (t_remove (tree_of c n) (ns_path n d) dn dl kids k0) as [t' sh] eqn:Hr.
  destruct (Qr eq_refl t' sh eq_refl) as [Tt Pt].
  destruct (set_tree c n t') as [ti tj] eqn:Est.
  assert (Hshape : forall tbl sp, Rel (set_trees c ti tj tbl sp)
            (F.set_ns a (spec_ns n) (F.remove_path (F.get_ns a (spec_ns n)) (encp (ns_path n d ++ [ns_name n nm]))))).
  { intros tbl sp. destruct (set_ns_shape a n (F.remove_path (F.get_ns a (spec_ns n)) (encp (ns_path n d ++ [ns_name n nm]))))
      as (S1 & S2 & S3 & S4).
    split; [exact HW|].
    destruct n; cbn [set_tree tree_of spec_ns F.get_ns] in *; injection Est as <- <-;
      cbn [set_trees niso njol]; rewrite S1, S2, S3, S4; do 5 (split; [assumption|]); assumption. }
  destruct (nrefcount i ti tj =? 0); cbn [fst snd]; (split; [tauto|]); intros _; apply Hshape.
Qed.

(* ---- rm_file -------------------------------------------------------------------------------------------- *)

Theorem sim_rm_file k c a n d nm : Rel c a -> bytes_op (NRmFile n d nm) = true ->
  let r := nstep k c (NRmFile n d nm) in
  let r' := F.step a (tr k (NRmFile n d nm)) in
  (snd r = NOk <-> snd r' = F.Ok) /\ (snd r = NOk -> Rel (fst r) (fst r')).
Proof.
  intros HR Hb. pose proof (FP.step_preserves_wf a (tr k (NRmFile n d nm)) (proj1 HR)) as HW.
  pose proof (Rel_ns c a n HR) as RN. pose proof HR as (_ & TI & TJ & PI & PJ & HU & HB).
  cbn [nstep]. unfold nstep_rm_file. cbn [tr] in *. cbn [bytes_op] in Hb.
  apply andb_prop in Hb. destruct Hb as [Hbd Hbn]. apply bytes_path_spec in Hbd. apply bytes_ident_spec in Hbn.
  rewrite ns_path_snoc in *.
  pose proof (phase_find _ _ _ _ RN (ns_path_bytes n d Hbd) (ns_name_bytes n nm Hbn)) as Q.
  cbn [F.step] in *.
  destruct (t_find (tree_of c n) (ns_path n d) (ns_name n nm)) as [[[[[dn dl] kids] k0] cc]|] eqn:Hf.
  2:{ rewrite Q. is_refused. }
  destruct Q as (Ql & _ & _). rewrite Ql in *.
  destruct cc as [cn i st|cn cdl ck]; cbn [entry_of kind_of F.mk F.e_kind] in *; [|is_refused].
  assert (Hcat : F.is_catalog_name a (spec_ns n) (encp (ns_path n d ++ [ns_name n nm])) = false)
    by (unfold F.is_catalog_name; rewrite HB; reflexivity).
  assert (Hboot : F.is_boot_blob a (blob_of_ino i) = false) by (unfold F.is_boot_blob; rewrite HB; reflexivity).
  assert (Hnz : (blob_of_ino i =? 0) = false) by (apply Z.eqb_neq; unfold blob_of_ino; lia).
  rewrite Hcat, Hboot, Hnz in *. cbn [negb andb orb fst snd] in *. split; [tauto|]. intros _.
  destruct (purge_perm _ _ i TI PI) as [Ti Pi]. destruct (purge_perm _ _ i TJ PJ) as [Tj Pj].
  split; [exact HW|]. cbn [set_trees niso njol F.f_iso F.f_jol F.f_udf F.f_boot].
  do 4 (split; [assumption|]). split; [rewrite HU; reflexivity|exact HB].
Qed.

(* ---- rm_directory ---------------------------------------------------------------------------------------- *)

(* the specification's test for removing a directory, seen in the tree *)
Lemma rm_dir_ok1 t l p : trel t l -> bytesp p ->
  (match p with [] => false | _ => F.is_dir_at l (encp p) && negb (F.has_children l (encp p)) end) =
  match t_rm_dir t p with Some _ => true | None => false end.
Proof.
  intros HR Hp. unfold t_rm_dir. destruct (unsnoc p) as [[q y]|] eqn:Eu.
  - apply unsnoc_spec in Eu. subst p. destruct (q ++ [y]) as [|z Z] eqn:EQ; [exfalso; eapply snoc_nonnil; exact EQ|].
    rewrite <- EQ in *. rewrite (trel_is_dir t l _ HR Hp).
    pose proof (t_find_sub t q y) as Es.
    destruct (t_find t q y) as [[[[[dn dl] kids] k0] cc]|]; rewrite Es; [|reflexivity].
    destruct cc as [cn i st|cn cdl ck]; [reflexivity|].
    rewrite (trel_has_children t l _ cn cdl ck HR Hp Es).
    destruct (t_remove t q dn dl kids k0). destruct ck; reflexivity.
  - apply unsnoc_none in Eu. subst p. reflexivity.
Qed.

Lemma encp_nil_iff p : (match encp p with [] => false | _ => true end) = (match p with [] => false | _ => true end).
Proof. destruct p; reflexivity. Qed.

Lemma spec_ok1 l p :
  (match encp p with [] => false | _ => F.is_dir_at l (encp p) && negb (F.has_children l (encp p)) end) =
  (match p with [] => false | _ => F.is_dir_at l (encp p) && negb (F.has_children l (encp p)) end).
Proof. destruct p; reflexivity. Qed.

Lemma t_rm_dir_perm t l p t' sh cdl cn : trel t l -> bytesp p ->
  t_rm_dir t p = Some (t', sh, cdl, cn) ->
  tinv t' /\ Permutation (abs_tree t') (F.remove_path l (encp p)).
Proof.
  intros HR Hp H. unfold t_rm_dir in H. destruct (unsnoc p) as [[q y]|] eqn:Eu; [|discriminate].
  apply unsnoc_spec in Eu. subst p. apply bytesp_app in Hp. destruct Hp as [Hq Hy]. inversion Hy; subst.
  pose proof (phase_find t l q y HR Hq H2) as Q.
  destruct (t_find t q y) as [[[[[dn dl] kids] k0] cc]|]; [|discriminate].
  destruct cc as [? ? ?|cn' cdl' [|c0 ck]]; try discriminate.
  destruct (t_remove t q dn dl kids k0) as [t1 sh1] eqn:Hr. injection H as <- _ _ _.
  destruct Q as (_ & _ & Qr). apply (Qr eq_refl t1 sh1 eq_refl).
Qed.
