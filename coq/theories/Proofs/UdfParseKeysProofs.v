(* C10 / C02 -- Model/UdfParse.v: the key under which open files an Inode (first data block, or minus the
   File Entry block for an empty file) tells the inodes of a well-formed tree apart: up_keys_of_wf
   collects what Proofs/UdfParseWalkProofs.v assumes about a layout. *)
From Coq Require Import ZArith List Bool Lia ZifyBool Arith.
From PV.Base Require Import Prim.
From PV.Gen Require Import GenFun.
From PV.Model Require Import Codec Fid UdfDir UdfLayout UdfParse.
From PV.Proofs Require Import ChecksumsArithProofs FidProofs UdfDirProofs UdfLayoutBfsProofs UdfLayoutViewProofs
     UdfLayoutFactsProofs UdfLayoutSpaceProofs.
Import ListNotations.
Local Open Scope Z_scope.

Lemma up_incr_inj {A} (f : A -> Z) l : forall c x y, ul_incr c (map f l) -> In x l -> In y l -> f x = f y -> x = y.
Proof.
  induction l as [|a r IH]; intros c x y H Hx Hy E; [destruct Hx|]. cbn [map ul_incr] in H. destruct H as [H1 H2].
  destruct Hx as [<-|Hx], Hy as [<-|Hy]; [reflexivity| | |exact (IH _ _ _ H2 Hx Hy E)].
  - pose proof (ul_incr_lb _ _ _ H2 (in_map f _ _ Hy)). lia.
  - pose proof (ul_incr_lb _ _ _ H2 (in_map f _ _ Hx)). lia.
Qed.

Lemma up_find_in i l : forall d, ul_find i l = Some d -> exists n, In (i, d, n) l.
Proof.
  induction l as [|[[j x] n] r IH]; intros d H; [discriminate|]. cbn [ul_find] in H.
  destruct (Nat.eqb i j) eqn:E.
  - apply Nat.eqb_eq in E. inversion H; subst. exists n. left. reflexivity.
  - destruct (IH d H) as (m & Hm). exists m. right. exact Hm.
Qed.

(* every stored inode takes at least one block: the data extents increase strictly *)
Lemma up_data_incr fs : forall cur seen, Forall (fun x => 0 < snd x) fs ->
  ul_incr cur (map (fun x => snd (fst x)) (fst (ul_assign_data cur seen fs))).
Proof.
  induction fs as [|[i l] r IH]; intros cur seen Hf; cbn [ul_assign_data]; [exact I|].
  pose proof (Forall_inv Hf) as Hl. pose proof (Forall_inv_tail Hf) as Hr. cbn [snd] in Hl.
  destruct (nat_mem i seen); [exact (IH _ _ Hr)|]. specialize (IH (cur + ceiling_div l 2048) (i :: seen) Hr).
  destruct (ul_assign_data (cur + ceiling_div l 2048) (i :: seen) r) as [a e]. cbn [fst snd map ul_incr] in *.
  split; [lia|]. eapply ul_incr_weaken; [|exact IH].
  pose proof (ceiling_div_spec l 2048 ltac:(lia)). lia.
Qed.

Lemma up_lo_dirs ps iso t : lo_dirs (udf_layout_iso ps iso t) =
  fst (ul_bfs (S (ul_count_dirs t)) 0 (ps + 2) [([], ps + 2, ut_children t)]).
Proof.
  unfold udf_layout_iso. destruct (ul_bfs (S (ul_count_dirs t)) 0 (ps + 2) [([], ps + 2, ut_children t)]) as [dirs cur1].
  destruct (ul_assign_fes cur1 [] (flat_map (fun r => ul_file_kids (dr_node r)) dirs)) as [fes cur2].
  destruct (ul_assign_data (cur2 + iso_meta iso) [] (iso_files iso ++ ul_udf_files fes)) as [data cur3]. reflexivity.
Qed.

Record up_keys (lo : layout) (N : list (nat * Z)) : Prop := {
  uk_files : forall r n l i, In r (lo_dirs lo) -> In (UFile n l i) (dr_node r) ->
    exists fe, ul_find i (lo_fes lo) = Some fe /\ In (i, fe, l) (lo_fes lo) /\ 0 <= l /\ In (i, l) N;
  uk_cons : forall i l l', In (i, l) N -> In (i, l') N -> l = l';
  uk_inj : forall i l j l', In (i, l) N -> In (j, l') N -> ug_key lo i l = ug_key lo j l' -> i = j;
  uk_pos : forall i l, In (i, l) N -> 0 < l -> 0 < lo_ps lo + ul_data_pos lo i }.

Section Keys.
  Variables (ps : Z) (iso : iso_side) (t : utree).
  Let lo := udf_layout_iso ps iso t.
  Hypothesis Hwf : wf_utree t = true.
  Hypothesis Hps : 0 <= ps.
  Hypothesis Hmeta : 0 <= iso_meta iso.
  Hypothesis Hiso : Forall (fun x => 0 < snd x) (iso_files iso).
  Let F : ul_facts ps iso t lo := ul_facts_of_wf ps iso t Hwf.
  Let cur1 := ul_chain_end (ps + 2) (lo_dirs lo).

  Lemma up_cur1_lb : ps + 2 <= cur1.
  Proof.
    pose proof (ul_dirs_tiled _ _ (uf_chain _ _ _ _ F) (uf_ok _ _ _ _ F)) as H. exact (ul_tiled_le _ _ _ H).
  Qed.

  Lemma up_names_file i l : In (i, l) (ul_names lo) ->
    exists fe, ul_find i (lo_fes lo) = Some fe /\ In (i, fe, l) (lo_fes lo) /\ 0 <= l <= ul_max_piece /\ cur1 <= fe.
  Proof.
    intros Hin. unfold ul_names in Hin. apply in_flat_map in Hin. destruct Hin as (r & Hr & Hk).
    destruct (ul_file_kids_inv _ _ _ Hk) as (n & Hc).
    destruct (ul_facts_files _ _ _ _ Hwf F r n l i Hr Hc) as (fe & H1 & H2 & H3). exists fe.
    split; [exact H1|]. split; [exact H2|]. split.
    - exact (ul_wf_file _ n l i (proj1 (Forall_forall _ _) (uf_ok _ _ _ _ F) r Hr) Hc).
    - pose proof (ul_assign_fes_incr (ul_names lo) cur1 []) as Hi. unfold cur1 in Hi. rewrite <- (uf_fes _ _ _ _ F) in Hi.
      apply (ul_incr_lb _ _ _ Hi). change fe with ((fun x : nat * Z * Z => snd (fst x)) (i, fe, l)). apply in_map. exact H2.
  Qed.

  Lemma up_udf_end_lb : cur1 <= lo_udf_end lo.
  Proof.
    rewrite (uf_udf_end _ _ _ _ F). fold cur1. rewrite ul_assign_fes_end. pose proof (zlen_nonneg (fst (ul_assign_fes cur1 [] (ul_names lo)))). lia.
  Qed.

  Lemma up_data_all_pos : Forall (fun x : nat * Z => 0 < snd x) (iso_files iso ++ ul_udf_files (lo_fes lo)).
  Proof.
    apply Forall_app. split; [exact Hiso|]. rewrite (ul_udf_files_filter _ (ul_fes_bounds _ _ _ _ F)).
    apply Forall_forall. intros x Hx. apply filter_In in Hx. lia.
  Qed.

  Lemma up_names_data i l : In (i, l) (ul_names lo) -> 0 < l ->
    exists d n, ul_find i (lo_data lo) = Some d /\ In (i, d, n) (lo_data lo) /\ cur1 <= d.
  Proof.
    intros Hin Hl. destruct (up_names_file i l Hin) as (fe & _ & H2 & H3 & _).
    assert (Hu : In (i, l) (iso_files iso ++ ul_udf_files (lo_fes lo))).
    { apply in_or_app. right. rewrite (ul_udf_files_filter _ (ul_fes_bounds _ _ _ _ F)). apply filter_In. split.
      - change (i, l) with ((fun '(i, _, l) => (i, l)) (i, fe, l)). apply in_map. exact H2.
      - cbn [snd]. lia. }
    destruct (ul_assign_data_find _ (lo_udf_end lo + iso_meta iso) [] i l Hu ltac:(intros [])) as (d & n & H4 & H5).
    rewrite <- (uf_data _ _ _ _ F) in H4, H5. exists d, n. split; [exact H4|]. split; [exact H5|].
    pose proof (up_data_incr _ (lo_udf_end lo + iso_meta iso) [] up_data_all_pos) as Hi. rewrite <- (uf_data _ _ _ _ F) in Hi.
    pose proof (ul_incr_lb _ _ _ Hi (in_map (fun x : nat * Z * Z => snd (fst x)) _ _ H5)) as Hlb. cbn [fst snd] in Hlb.
    pose proof up_udf_end_lb. lia.
  Qed.

  Lemma up_key_pos i l : In (i, l) (ul_names lo) -> 0 < l ->
    exists d n, ug_key lo i l = d /\ In (i, d, n) (lo_data lo) /\ 0 < d.
  Proof.
    intros Hin Hl. destruct (up_names_data i l Hin Hl) as (d & n & H1 & H2 & H3). exists d, n.
    unfold ug_key, ul_data_pos. replace (l >? 0) with true by lia. rewrite H1, (uf_ps _ _ _ _ F).
    pose proof up_cur1_lb. split; [lia|]. split; [exact H2|lia].
  Qed.

  Lemma up_key_zero i : In (i, 0) (ul_names lo) ->
    exists fe, ug_key lo i 0 = - fe /\ In (i, fe, 0) (lo_fes lo) /\ 0 < fe.
  Proof.
    intros Hin. destruct (up_names_file i 0 Hin) as (fe & H1 & H2 & _ & H4). exists fe.
    unfold ug_key, ug_fe_block. cbn [Z.gtb Z.compare]. rewrite H1, (uf_ps _ _ _ _ F).
    pose proof up_cur1_lb. split; [lia|]. split; [exact H2|lia].
  Qed.

  Theorem up_keys_of_wf : up_keys lo (ul_names lo).
  Proof.
    destruct (ul_wf_is_dir t Hwf) as (n0 & cs0 & _ & _ & Hcons). constructor.
    - intros r n l i Hr Hc. destruct (ul_facts_files _ _ _ _ Hwf F r n l i Hr Hc) as (fe & H1 & H2 & H3).
      exists fe. repeat split; try assumption. exact (ul_names_in lo r n l i Hr Hc).
    - intros i l l' H1 H2. apply (ul_consistent_spec _ Hcons i); apply (ul_names_sub _ _ _ _ F); assumption.
    - intros i l j l' Hi Hj E.
      destruct (up_names_file i l Hi) as (_ & _ & _ & [Hl _] & _). destruct (up_names_file j l' Hj) as (_ & _ & _ & [Hl' _] & _).
      destruct (Z.eq_dec l 0) as [->|Hnz]; destruct (Z.eq_dec l' 0) as [->|Hnz'].
      + destruct (up_key_zero i Hi) as (fe & K1 & I1 & _). destruct (up_key_zero j Hj) as (fe' & K2 & I2 & _).
        pose proof (ul_assign_fes_incr (ul_names lo) cur1 []) as Hinc. unfold cur1 in Hinc. rewrite <- (uf_fes _ _ _ _ F) in Hinc.
        pose proof (up_incr_inj (fun x : nat * Z * Z => snd (fst x)) _ _ _ _ Hinc I1 I2 ltac:(cbn [fst snd]; lia)) as Ex. inversion Ex. reflexivity.
      + destruct (up_key_zero i Hi) as (fe & K1 & _ & P1). destruct (up_key_pos j l' Hj ltac:(lia)) as (d & n & K2 & _ & P2). lia.
      + destruct (up_key_pos i l Hi ltac:(lia)) as (d & n & K1 & _ & P1). destruct (up_key_zero j Hj) as (fe & K2 & _ & P2). lia.
      + destruct (up_key_pos i l Hi ltac:(lia)) as (d & n & K1 & I1 & _). destruct (up_key_pos j l' Hj ltac:(lia)) as (d' & n' & K2 & I2 & _).
        pose proof (up_data_incr _ (lo_udf_end lo + iso_meta iso) [] up_data_all_pos) as Hinc. rewrite <- (uf_data _ _ _ _ F) in Hinc.
        pose proof (up_incr_inj (fun x : nat * Z * Z => snd (fst x)) _ _ _ _ Hinc I1 I2 ltac:(cbn [fst snd]; lia)) as Ex. inversion Ex. reflexivity.
    - intros i l Hi Hl. destruct (up_key_pos i l Hi Hl) as (d & n & K & _ & P). unfold ug_key in K.
      replace (l >? 0) with true in K by lia. lia.
  Qed.
End Keys.

Print Assumptions up_keys_of_wf.
