(* Per-step facts for Model/InPlace.v under wf_state: the volume descriptor step, one element of
   linked_records, and the plumbing between "position inside a record" and "byte of the file".
     ip_vds_after_wf        the in-memory size update leaves every volume descriptor as it was
     ip_vd_writes_ok        all volume descriptors are re-recorded; each write keeps every byte but the date
     ip_lrec_step           a linked record is skipped (El Torito) or re-recorded at its cached position with
                            bytes that differ from the recorded ones only at lrec_changed
     ip_lrec_changed_allowed  lrec_changed positions are inside Model.lrec_len_fields
     ip_compat_writes       two linked records give disjoint or identical writes *)
From Coq Require Import ZArith List Bool Lia ZifyBool.
From PV.Base Require Import Prim.
From PV.Gen Require Import GenConst GenFun.
From PV.Model Require Import Codec Checksums Udf InPlace.
From PV.Proofs Require Import CodecProofs UdfProofs UdfFeProofs InPlaceImgProofs InPlaceBytesProofs.
Import ListNotations.
Local Open Scope Z_scope.
Ltac Zify.zify_post_hook ::= Z.to_euclidean_division_equations.

(* ---- outside / allowed plumbing ---- *)
Lemma ip_outside_app a l1 l2 : outside a (l1 ++ l2) = outside a l1 && outside a l2.
Proof. unfold outside. rewrite existsb_app, negb_orb. reflexivity. Qed.
Lemma ip_outside_cons a i l : outside a (i :: l) = negb (in_ival a i) && outside a l.
Proof. unfold outside. cbn [existsb]. rewrite negb_orb. reflexivity. Qed.
Lemma ip_outside_In a l i : outside a l = true -> In i l -> in_ival a i = false.
Proof.
  unfold outside. intros H Hi. destruct (in_ival a i) eqn:E; [|reflexivity].
  assert (existsb (in_ival a) l = true) by (apply existsb_exists; exists i; split; assumption).
  rewrite H0 in H. discriminate.
Qed.
Lemma ip_outside_flat_map {A} a (f : A -> list ival) ls x :
  In x ls -> outside a (flat_map f ls) = true -> outside a (f x) = true.
Proof.
  intros Hx H. unfold outside in *. destruct (existsb (in_ival a) (f x)) eqn:E; [|reflexivity].
  apply existsb_exists in E. destruct E as (i & Hi & Hin).
  assert (existsb (in_ival a) (flat_map f ls) = true).
  { apply existsb_exists. exists i. split; [|exact Hin]. apply in_flat_map. exists x. split; assumption. }
  rewrite H0 in H. discriminate.
Qed.

(* ---- volume descriptors ---- *)
Lemma ip_vd_resize_same lbs v n : vd_resize lbs v n n = v.
Proof. unfold vd_resize, vd_with_space. destruct v as [e p s mi po]. cbn. f_equal. lia. Qed.

Lemma ip_vds_after_wf st n :
  match st_enhanced st with Some v => vd_space v =? vd_space (st_pvd st) | None => true end = true ->
  vds_after st n = vds st.
Proof.
  intros H. unfold vds_after, vds. cbv zeta. rewrite ip_vd_resize_same. f_equal. f_equal.
  destruct (st_enhanced st) as [v|]; [|reflexivity]. cbn [option_map opt_list]. f_equal.
  apply Z.eqb_eq in H. destruct v as [e p s mi po]. unfold vd_with_space. cbn in *. subst s. reflexivity.
Qed.

Lemma ip_vd_ok_inv m lbs v : vd_ok m lbs v = true ->
  0 <= vd_extent v /\ length (vd_pre v) = 80%nat /\ length (vd_mid v) = 742%nat /\ length (vd_post v) = 1201%nat /\
  u32_ok (vd_space v) = true /\
  on_disk m (vd_extent v * lbs)
          (vd_pre v ++ le32 (vd_space v) ++ le32 (swab32 (vd_space v)) ++ vd_mid v
           ++ read m (vd_extent v * lbs + 830) 17 ++ vd_post v) = true.
Proof.
  unfold vd_ok. intros H.
  repeat (apply andb_prop in H; let H2 := fresh "R" in destruct H as [H H2]).
  apply Nat.eqb_eq in R2, R1, R3. repeat split; try assumption. lia.
Qed.

Lemma ip_vd_record_some m lbs v now : vd_ok m lbs v = true -> exists b, vd_record v now = Some b.
Proof.
  intros H. destruct (ip_vd_ok_inv _ _ _ H) as (_ & _ & _ & _ & Hs & _). unfold vd_record. rewrite Hs.
  eexists. reflexivity.
Qed.

Lemma ip_vd_write_keeps m lbs v now b a : vd_ok m lbs v = true -> length now = 17%nat ->
  vd_record v now = Some b -> in_ival a (vd_date_field lbs v) = false ->
  keeps (m a) a (vd_extent v * lbs, b).
Proof.
  intros Hok Hn Hrec Ha. destruct (ip_vd_ok_inv _ _ _ Hok) as (_ & Hp & Hm & Hq & _ & Hd).
  pose proof (ip_vd_record_length v now b Hp Hm Hn Hq Hrec) as Hlen.
  destruct (ip_vd_diff v now (read m (vd_extent v * lbs + 830) 17) b Hp Hm Hn (ip_read_length _ _ _) Hrec) as [Hl Hse].
  unfold keeps. cbn [fst snd]. unfold in_range. intros Hr.
  rewrite (ip_on_disk_at m _ _ a Hd) by (unfold zlen in *; rewrite Hl; lia).
  symmetry. apply Hse. unfold in_ival, vd_date_field in Ha. cbn [fst snd] in Ha. lia.
Qed.

(* the volume descriptor step under wf: one write per descriptor, at its sector, 2048 bytes *)
Lemma ip_vd_writes_ok m lbs now vs : forallb (vd_ok m lbs) vs = true -> length now = 17%nat ->
  exists wv, vd_writes lbs now vs = (wv, true) /\
    (forall a, outside a (map (vd_date_field lbs) vs) = true -> Forall (keeps (m a) a) wv) /\
    (forall w, In w wv -> exists v, In v vs /\ fst w = vd_extent v * lbs /\ zlen (snd w) = 2048).
Proof.
  intros H Hn. induction vs as [|v r IH]; [exists []; repeat split; [constructor|intros w []]|].
  cbn [forallb] in H. apply andb_prop in H. destruct H as [Hv Hr].
  destruct (IH Hr) as (wr & Ew & Hk & Hw). destruct (ip_vd_record_some m lbs v now Hv) as [b Hb].
  cbn [vd_writes]. rewrite Hb, Ew. eexists. split; [reflexivity|]. split.
  - intros a Ha. cbn [map] in Ha. rewrite ip_outside_cons in Ha. apply andb_prop in Ha. destruct Ha as [Ha1 Ha2].
    constructor; [|apply Hk; exact Ha2]. apply (ip_vd_write_keeps m lbs v now b a Hv Hn Hb).
    destruct (in_ival a (vd_date_field lbs v)); [discriminate|reflexivity].
  - intros w [<-|Hin].
    + exists v. split; [left; reflexivity|]. split; [reflexivity|]. cbn [snd].
      destruct (ip_vd_ok_inv _ _ _ Hv) as (_ & Hp & Hm & Hq & _ & _).
      apply (ip_vd_record_length v now b Hp Hm Hn Hq Hb).
    + destruct (Hw w Hin) as (v' & Hv' & E1 & E2). exists v'. split; [right; exact Hv'|]. split; assumption.
Qed.

(* ---- one linked record ---- *)
Definition lrec_changed (l : lrec) (i : nat) : Prop :=
  match l with
  | LDr _ _ _ _ _ _ _ => (10 <= i < 18)%nat
  | LFe _ e => i = 4%nat \/ (8 <= i < 10)%nat \/ (56 <= i < 64)%nat \/
               (176 + length (fe_ea e) <= i)%nat /\ ad_len_pos (length (fe_ads e)) (i - (176 + length (fe_ea e)))
  | _ => False
  end.

Lemma ip_fe_ok_inv e blen : fe_ok e blen = true ->
  fe_wf e /\ forallb short_ok (fe_ads e) = true /\ tg_crclen (fe_tag e) = blen - 16 /\ fe_len_ea e = zlen (fe_ea e).
Proof.
  unfold fe_ok. intros H.
  repeat (apply andb_prop in H; let H2 := fresh "R" in destruct H as [H H2]).
  apply Nat.eqb_eq in R8, R7, R6, R5, R4.
  split; [|repeat split; [exact R2|lia|lia]].
  unfold fe_wf. repeat split; try assumption; try lia.
  apply Forall_forall. intros d Hd. pose proof (proj1 (forallb_forall _ _) R2 d Hd) as Hs.
  destruct d as [a|a|x y z]; cbn [short_ok] in Hs; try discriminate.
  exists a. split; [reflexivity|]. lia.
Qed.

Lemma ip_ceil_bound old n : 0 <= old <= MAX_INODE_LEN -> ceiling_div old 2048 = ceiling_div n 2048 -> n <= MAX_INODE_LEN.
Proof. unfold ceiling_div, MAX_INODE_LEN. lia. Qed.

Lemma ip_lrec_step m ext old n l : lrec_ok m 2048 ext old l = true ->
  0 <= old <= MAX_INODE_LEN -> 0 <= n -> ceiling_div old 2048 = ceiling_div n 2048 ->
  (l = LEt /\ relink_one 2048 n l = StSkip) \/
  exists b b', lrec_bytes l = Some b /\ relink_one 2048 n l = StWrite (lrec_pos 2048 l, b') /\
               same_except (lrec_changed l) b b' /\ on_disk m (lrec_pos 2048 l) b = true /\ 0 < zlen b /\
               lrec_ival 2048 l = [(lrec_pos 2048 l, lrec_pos 2048 l + zlen b)].
Proof.
  intros Hok Hold Hn Hc. pose proof (ip_ceil_bound old n Hold Hc) as Hnb. unfold MAX_INODE_LEN in *.
  destruct l as [j [pe|] eth oth dl lf r|x e| |]; cbn [lrec_ok] in Hok; try discriminate.
  - right. destruct (enc_dr_raw dl lf r) as [b|] eqn:Eb; [|discriminate].
    repeat (apply andb_prop in Hok; let H2 := fresh "R" in destruct Hok as [Hok H2]).
    destruct (ip_dr_set_len_some dl lf r n b Eb ltac:(lia)) as [b' Eb'].
    exists b, b'. cbn [lrec_bytes relink_one lrec_pos]. rewrite Eb'.
    split; [exact Eb|]. split; [reflexivity|]. split; [apply (ip_dr_diff dl lf r n b b' Eb Eb')|].
    split; [exact R|].
    pose proof (enc_dr_raw_zlen _ _ _ _ Eb) as Hz. pose proof (zlen_nonneg (ident r)). pose proof (zlen_nonneg (sysuse r)).
    split; [lia|]. unfold lrec_ival. cbn [lrec_bytes lrec_pos]. rewrite Eb. reflexivity.
  - right. destruct (fe_record e) as [b|] eqn:Eb; [|discriminate].
    repeat (apply andb_prop in Hok; let H2 := fresh "R" in destruct Hok as [Hok H2]).
    destruct (ip_fe_ok_inv _ _ R0) as (Hwf & Hshort & Hcrc & Hlea).
    apply ip_zlist_eqb_eq in R1.
    destruct (ip_fe_set_len_wf e old n ltac:(lia) R1 Hshort ltac:(unfold UDF_MAX_AD in *; lia) Hn Hc)
      as (ds' & Eset & HF & _ & _).
    destruct (ip_fe_record_some e n ds' b Eb HF ltac:(lia)) as (b' & Eb' & Hse).
    exists b, b'. cbn [lrec_bytes relink_one lrec_pos]. rewrite Eset, Eb'.
    split; [exact Eb|]. split; [reflexivity|]. split; [exact Hse|]. split; [exact R|].
    destruct (fe_record_zlen _ _ Eb) as (adrec & _ & Hz). pose proof (zlen_nonneg (fe_ea e)). pose proof (zlen_nonneg adrec).
    split; [lia|]. unfold lrec_ival. cbn [lrec_bytes lrec_pos]. rewrite Eb. reflexivity.
  - left. split; reflexivity.
Qed.

(* a changed position lies in one of the length fields listed by the model *)
Lemma ip_lrec_changed_allowed m ext old l i a : lrec_ok m 2048 ext old l = true -> lrec_changed l i ->
  a = lrec_pos 2048 l + Z.of_nat i -> outside a (lrec_len_fields 2048 l) = false.
Proof.
  intros Hok Hch Ha. unfold outside. apply negb_false_iff. apply existsb_exists.
  destruct l as [j [pe|] eth oth dl lf r|x e| |]; cbn [lrec_ok] in Hok; try discriminate; cbn [lrec_changed] in Hch;
    try contradiction.
  - eexists. split; [left; reflexivity|]. unfold in_ival. cbn [fst snd]. lia.
  - destruct (fe_record e) as [b|] eqn:Eb; [|discriminate].
    repeat (apply andb_prop in Hok; let H2 := fresh "R" in destruct Hok as [Hok H2]).
    destruct (ip_fe_ok_inv _ _ R0) as (_ & _ & _ & Hlea).
    cbn [lrec_len_fields]. cbv zeta. unfold zlen in Hlea.
    destruct Hch as [H|[H|[H|[H1 [H2 H3]]]]].
    + eexists. split; [left; reflexivity|]. unfold in_ival. cbn [fst snd]. lia.
    + eexists. split; [right; left; reflexivity|]. unfold in_ival. cbn [fst snd]. lia.
    + eexists. split; [right; right; left; reflexivity|]. unfold in_ival. cbn [fst snd]. lia.
    + set (i' := (i - (176 + length (fe_ea e)))%nat) in *.
      pose proof (Nat.div_mod i' 8 ltac:(lia)) as Hdm.
      assert (Hk : (i' / 8 < length (fe_ads e))%nat) by (apply Nat.div_lt_upper_bound; lia).
      exists (lrec_pos 2048 (LFe x e) + 176 + fe_len_ea e + 8 * Z.of_nat (i' / 8),
              lrec_pos 2048 (LFe x e) + 176 + fe_len_ea e + 8 * Z.of_nat (i' / 8) + 4).
      split.
      * right; right; right. apply in_map_iff. exists (i' / 8)%nat. split; [reflexivity|]. apply in_seq. lia.
      * unfold in_ival. cbn [fst snd]. unfold i' in *. lia.
Qed.

(* ---- two linked records: disjoint or the same File Entry ---- *)
Lemma ip_disjointb_wdisj p1 b1 p2 b2 :
  disjointb (p1, p1 + zlen b1) (p2, p2 + zlen b2) = true -> wdisj (p1, b1) (p2, b2).
Proof. unfold disjointb, wdisj. cbn [fst snd]. lia. Qed.

Lemma ip_compat_writes m ext old n l1 l2 w1 w2 :
  lrec_ok m 2048 ext old l1 = true -> lrec_ok m 2048 ext old l2 = true ->
  0 <= old <= MAX_INODE_LEN -> 0 <= n -> ceiling_div old 2048 = ceiling_div n 2048 ->
  lrec_compat 2048 l1 l2 = true ->
  relink_one 2048 n l1 = StWrite w1 -> relink_one 2048 n l2 = StWrite w2 -> wdisj w1 w2 \/ w2 = w1.
Proof.
  intros Ok1 Ok2 Hold Hn Hc Hcompat E1 E2.
  destruct (ip_lrec_step m ext old n l1 Ok1 Hold Hn Hc) as [[_ S1]|(b1 & b1' & B1 & S1 & [L1 _] & _ & _ & I1)];
    [rewrite S1 in E1; discriminate|].
  destruct (ip_lrec_step m ext old n l2 Ok2 Hold Hn Hc) as [[_ S2]|(b2 & b2' & B2 & S2 & [L2 _] & _ & _ & I2)];
    [rewrite S2 in E2; discriminate|].
  rewrite S1 in E1. rewrite S2 in E2. injection E1 as <-. injection E2 as <-.
  unfold lrec_compat in Hcompat. apply orb_prop in Hcompat. destruct Hcompat as [Hd|Hs].
  - left. rewrite I1, I2 in Hd. cbn [ivals_disjoint forallb] in Hd. rewrite !andb_true_r in Hd.
    unfold zlen in *. rewrite L1, L2 in Hd. apply (ip_disjointb_wdisj _ b1' _ b2'). exact Hd.
  - right. destruct l1 as [| x1 e1 | |]; try discriminate. destruct l2 as [| x2 e2 | |]; try discriminate.
    cbn [lrec_bytes] in B1, B2. rewrite B1, B2 in Hs.
    repeat (apply andb_prop in Hs; let H2 := fresh "R" in destruct Hs as [Hs H2]).
    apply ip_zlist_eqb_eq in R. subst b2. apply Z.eqb_eq in Hs. subst x2.
    cbn [lrec_ok] in Ok1, Ok2. rewrite B1 in Ok1. rewrite B2 in Ok2.
    repeat (apply andb_prop in Ok1; let H2 := fresh "P" in destruct Ok1 as [Ok1 H2]).
    repeat (apply andb_prop in Ok2; let H2 := fresh "Q" in destruct Ok2 as [Ok2 H2]).
    destruct (ip_fe_ok_inv _ _ P0) as (W1 & _ & C1 & _). destruct (ip_fe_ok_inv _ _ Q0) as (W2 & _ & C2 & _).
    pose proof (fe_roundtrip_exact e1 b1 [] 0 W1 B1 C1) as F1.
    pose proof (fe_roundtrip_exact e2 b1 [] 0 W2 B2 C2) as F2.
    assert (e2 = e1) by (replace (tg_location (fe_tag e2)) with (tg_location (fe_tag e1)) in F2 by lia; congruence).
    subst e2. rewrite S1 in S2. injection S2 as <-. reflexivity.
Qed.

(* ---- the record loop as a flat list ---- *)
Definition lrec_write (lbs n : Z) (l : lrec) : list write :=
  match relink_one lbs n l with StWrite w => [w] | _ => [] end.

Lemma ip_relink_flat lbs n ls : (forall l, In l ls -> relink_one lbs n l <> StStop) ->
  relink lbs n ls = (flat_map (lrec_write lbs n) ls, true).
Proof.
  induction ls as [|l r IH]; intros H; [reflexivity|].
  cbn [relink flat_map]. unfold lrec_write at 1.
  pose proof (H l (or_introl eq_refl)) as Hl.
  rewrite IH by (intros l' Hl'; apply H; right; exact Hl').
  destruct (relink_one lbs n l); [reflexivity|contradiction|reflexivity].
Qed.

(* from [pairwise f l]: any two members are the same element or related one way round *)
Lemma ip_pairwise_In {A} (f : A -> A -> bool) l : pairwise f l = true ->
  forall x y, In x l -> In y l -> x = y \/ f x y = true \/ f y x = true.
Proof.
  induction l as [|a r IH]; intros H x y Hx Hy; [destruct Hx|].
  cbn [pairwise] in H. apply andb_prop in H. destruct H as [Ha Hr].
  pose proof (proj1 (forallb_forall _ _) Ha) as Hall.
  destruct Hx as [<-|Hx], Hy as [<-|Hy].
  - left. reflexivity.
  - right. left. apply Hall. exact Hy.
  - right. right. apply Hall. exact Hx.
  - apply IH; assumption.
Qed.

Print Assumptions ip_vd_writes_ok.
Print Assumptions ip_lrec_step.
Print Assumptions ip_lrec_changed_allowed.
Print Assumptions ip_compat_writes.
