(* Parse, part 12: _walk_directories on ANY bytes, ANY root pointer -- no well-formedness at all (C15).
   [rd] is any reader of the medium that hands out non-empty data only at the extents of a finite list U and
   never more than M bytes at once (ParseTotalInst.v: the whole-file reader and the Master.image reader).
     ps_scan_nofuel / ps_scan_bound   the record loop of one extent terminates (every round consumes at
                                      least one byte of the data read) and creates at most one record per byte
     ps_walk_total                    the walk terminates: each extent is entered at most once ('Directory
                                      loop'), and an entered extent queues at most M further directories;
                                      fuel length U * (M + 1) + 2 is never exhausted
     ps_walk_bounded                  records and inodes created: at most length U * M
   The failure codes are classified in ParseTotalInst.v (parse_only_documented_errors). *)
From Coq Require Import ZArith List Bool Lia ZifyBool.
From PV.Base Require Import Prim ListX.
From PV.Gen Require Import GenConst GenFun.
From PV.Model Require Import Codec Pack Master Parse.
From PV.Proofs Require Import MasterPack MasterChecker ParseShare ParseShareWalk.
Import ListNotations.
Local Open Scope Z_scope.

Definition ps_rd_bounded (rd : Z -> Z -> option (list Z)) (U : list Z) (M : nat) : Prop :=
  forall ext len data, rd ext len = Some data -> data <> [] -> In ext U /\ (length data <= M)%nat.

(* ---- one record ------------------------------------------------------------------------------------------ *)

Definition ps_nrec (st : pstate) : nat := (length (concat (s_dirs st)) + length (s_cur st))%nat.

Lemma ps_record_empty ptr isz s : ps_record ptr isz s [] = PInvalid 2.
Proof. destruct s as [st l]. reflexivity. Qed.

Lemma ps_recalc_length k l : length (ps_recalc k l) = length l.
Proof.
  unfold ps_recalc. rewrite app_length.
  assert (H : forall l i n off, length (ps_renum i n off l) = length l).
  { induction l0 as [|c r IH]; intros; [reflexivity|]. cbn [ps_renum length]. rewrite IH. reflexivity. }
  rewrite H, <- app_length, firstn_skipn. reflexivity.
Qed.

Lemma ps_track_length cur child last cur2 : ps_track cur child last = POk cur2 -> length cur2 = S (length cur).
Proof.
  unfold ps_track. cbv zeta.
  match goal with |- (if ?d then _ else _) = _ -> _ => destruct d end.
  - match goal with |- (if ?d then _ else _) = _ -> _ => destruct d end; discriminate.
  - intros H. injection H as <-. rewrite ps_recalc_length. unfold insert_at. rewrite app_length. cbn [length].
    rewrite firstn_length, skipn_length. lia.
Qed.

Lemma ps_link_sizes isz st ext dl i d st1 : ps_link isz st ext dl = (i, d, st1) ->
  ps_nrec st1 = ps_nrec st /\ s_queue st1 = s_queue st /\ s_seen st1 = s_seen st /\
  length (s_cur st1) = length (s_cur st) /\ length (concat (s_dirs st1)) = length (concat (s_dirs st)) /\
  (length (s_inodes st1) <= S (length (s_inodes st)))%nat.
Proof.
  unfold ps_link, ps_link_gen, ps_nrec. cbv zeta.
  match goal with |- (if ?c then _ else _) = _ -> _ => destruct c end; intros H; injection H as <- <- <-;
    cbn [s_dirs s_cur s_queue s_seen s_inodes]; rewrite ?ps_concat_map, ?map_length, ?ps_set_ilen_length;
    (repeat split; try reflexivity);
    match goal with |- context [match ?f with Some _ => _ | None => _ end] => destruct f end;
    rewrite ?app_length; cbn [length]; lia.
Qed.

(* what one record adds *)
Lemma ps_record_sizes ptr isz st l b st' l' : ps_record ptr isz (st, l) b = POk (st', l') ->
  ps_nrec st' = S (ps_nrec st) /\ (length (s_queue st') <= S (length (s_queue st)))%nat /\
  s_seen st' = s_seen st /\ (length (s_inodes st') <= S (length (s_inodes st)))%nat /\
  length (concat (s_dirs st')) = length (concat (s_dirs st)).
Proof.
  unfold ps_record.
  destruct (parse_dr b) as [r|]; [|discriminate].
  destruct (ps_outside (sysuse r) (znth 32 b)); [discriminate|].
  destruct (ps_is_dir r) eqn:Hd.
  - cbv beta iota zeta.
    match goal with |- context [if ?c then PInvalid 3 else _] => destruct c; [discriminate|] end.
    destruct (ps_track _ _ l) as [cur2| | |] eqn:Et; try discriminate.
    intros H. injection H as <- _. unfold ps_nrec. cbn [s_dirs s_cur s_queue s_seen s_inodes].
    rewrite (ps_track_length _ _ _ _ Et).
    repeat split; try lia.
    match goal with |- context [if ?c then _ else _] => destruct c end; rewrite ?app_length; cbn [length]; lia.
  - destruct (ps_link isz st (extent r) (data_len r)) as [[i d] st1] eqn:El.
    destruct (ps_link_sizes _ _ _ _ _ _ _ El) as (A & B & C & D & E & F).
    cbv beta iota zeta. cbn [andb]. cbv iota.
    destruct (ps_track _ _ l) as [cur2| | |] eqn:Et; try discriminate.
    match goal with |- match ?o with Some _ => _ | None => _ end = _ -> _ => destruct o; [|discriminate] end.
    intros H. injection H as <- _. unfold ps_nrec in *. cbn [s_dirs s_cur s_queue s_seen s_inodes].
    rewrite (ps_track_length _ _ _ _ Et), B, C. repeat split; lia.
Qed.

Lemma ps_record_nofuel ptr isz s b : ps_record ptr isz s b <> PFuel.
Proof.
  destruct s as [st l]. unfold ps_record.
  destruct (parse_dr b) as [r|]; [|discriminate].
  destruct (ps_outside (sysuse r) (znth 32 b)); [discriminate|].
  assert (Ht : forall cur child, ps_track cur child l <> PFuel).
  { intros cur child. unfold ps_track. cbv zeta.
    match goal with |- (if ?d then _ else _) <> _ => destruct d end; [|discriminate].
    match goal with |- (if ?d then _ else _) <> _ => destruct d end; discriminate. }
  destruct (ps_is_dir r).
  - cbv beta iota zeta.
    match goal with |- context [if ?c then PInvalid 3 else _] => destruct c; [discriminate|] end.
    destruct (ps_track _ _ l) as [cur2| | |] eqn:Et; try discriminate. exfalso. exact (Ht _ _ Et).
  - destruct (ps_link isz st (extent r) (data_len r)) as [[i d] st1].
    cbv beta iota zeta. cbn [andb]. cbv iota.
    destruct (ps_track _ _ l) as [cur2| | |] eqn:Et; try discriminate; [|exfalso; exact (Ht _ _ Et)].
    match goal with |- match ?o with Some _ => _ | None => _ end <> _ => destruct o; discriminate end.
Qed.

(* ---- the record loop of one extent -------------------------------------------------------------------------- *)

Lemma ps_padsize_pos off : 1 <= BS - off mod BS.
Proof. rewrite ms_BS. pose proof (Z.mod_pos_bound off 2048 ltac:(lia)). lia. Qed.

Lemma ps_zlist_eqb_length a b : zlist_eqb a b = true -> length a = length b.
Proof. intros H. apply ms_zlist_eqb_eq in H. subst. reflexivity. Qed.

Section ScanAny.
  Context {S : Type}.
  Variable step : S -> list Z -> presult S.
  Hypothesis step_empty : forall s s', step s [] <> POk s'.

  Lemma ps_scan_nofuel : (forall s b, step s b <> PFuel) ->
    forall fuel data off len s, (length data < fuel)%nat -> ps_scan step fuel data off len s <> PFuel.
  Proof.
    intros Hnf. induction fuel as [|f IH]; intros data off len s Hf; [lia|]. cbn [ps_scan].
    destruct (off <? len); [|discriminate]. destruct data as [|x data']; [discriminate|].
    destruct (x =? 0) eqn:Ex.
    - match goal with |- (if ?c then _ else _) <> _ => destruct c; [|discriminate] end.
      apply IH. rewrite skipn_length. pose proof (ps_padsize_pos off). cbn [length] in *. lia.
    - destruct (step s (firstn (Z.to_nat x) (x :: data'))) as [s1| | |] eqn:E; try discriminate.
      + apply IH. rewrite skipn_length. destruct (Z.to_nat x) as [|k] eqn:Ek.
        * exfalso. cbn [firstn] in E. exact (step_empty _ _ E).
        * cbn [length] in *. lia.
      + exfalso. exact (Hnf _ _ E).
  Qed.

  Variable m : S -> nat.
  Hypothesis step_one : forall s b s', step s b = POk s' -> (m s' <= m s + 1)%nat.

  Lemma ps_scan_bound : forall fuel data off len s s',
    ps_scan step fuel data off len s = POk s' -> (m s' <= m s + length data)%nat.
  Proof.
    induction fuel as [|f IH]; intros data off len s s'; [discriminate|]. cbn [ps_scan].
    destruct (off <? len); [|intros H; injection H as <-; lia].
    destruct data as [|x data']; [discriminate|].
    destruct (x =? 0).
    - match goal with |- (if ?c then _ else _) = _ -> _ => destruct c; [|discriminate] end.
      intros H. apply IH in H. rewrite skipn_length in H. lia.
    - destruct (step s (firstn (Z.to_nat x) (x :: data'))) as [s1| | |] eqn:E; try discriminate.
      intros H. apply IH in H. rewrite skipn_length in H. pose proof (step_one _ _ _ E).
      destruct (Z.to_nat x) as [|k] eqn:Ek.
      + exfalso. cbn [firstn] in E. exact (step_empty _ _ E).
      + cbn [length] in *. lia.
  Qed.
End ScanAny.

(* ---- the walk ------------------------------------------------------------------------------------------------ *)

Section WalkAny.
  Variable rd : Z -> Z -> option (list Z).
  Variable U : list Z.
  Variable M : nat.
  Hypothesis Hrd : ps_rd_bounded rd U M.
  Variable ptr : list Z.
  Variable isz : Z.

  (* the directory extents entered so far that carried data *)
  Definition ps_seenU (st : pstate) : list Z := filter (fun e => ps_mem e U) (s_seen st).

  Lemma ps_seenU_bound st : NoDup (s_seen st) -> (length (ps_seenU st) <= length U)%nat.
  Proof.
    intros Hnd. apply NoDup_incl_length; [apply NoDup_filter; exact Hnd|].
    intros e He. apply filter_In in He. destruct He as [_ He]. unfold ps_mem in He.
    apply existsb_exists in He. destruct He as (u & Hu & E). apply Z.eqb_eq in E. subst u. exact Hu.
  Qed.

  Definition ps_phi (st : pstate) : nat :=
    (length (s_queue st) + (length U - length (ps_seenU st)) * (M + 1))%nat.

  Lemma ps_mem_in x l : ps_mem x l = true <-> In x l.
  Proof.
    unfold ps_mem. rewrite existsb_exists. split.
    - intros (e & He & E). apply Z.eqb_eq in E. subst e. exact He.
    - intros H. exists x. split; [exact H|apply Z.eqb_refl].
  Qed.

  (* one directory: what the scan of its extent leaves *)
  Lemma ps_scan_dir_sizes st q ext len data st' l' :
    ps_scan (ps_record ptr isz) (S (length data)) data 0 len (ps_begin_dir st q ext, None) = POk (st', l') ->
    s_cur st = [] ->
    (length (s_queue st') <= length q + length data)%nat /\ s_seen st' = ext :: s_seen st /\
    (ps_nrec st' <= ps_nrec st + length data)%nat /\
    (length (s_inodes st') <= length (s_inodes st) + length data)%nat.
  Proof.
    intros Hs Hc.
    assert (He : forall s s', ps_record ptr isz s [] <> POk s') by (intros s s'; rewrite ps_record_empty; discriminate).
    split; [|split; [|split]].
    - apply (ps_scan_bound (ps_record ptr isz) He (fun s => length (s_queue (fst s)))) in Hs; [exact Hs|].
      intros [a la] b [a' la'] H. cbn [fst]. destruct (ps_record_sizes _ _ _ _ _ _ _ H) as (_ & Q & _). lia.
    - apply (ps_scan_inv (ps_record ptr isz) (fun s => s_seen (fst s) = ext :: s_seen st)) in Hs; [exact Hs| |reflexivity].
      intros [a la] b [a' la'] Hp H. cbn [fst] in *. destruct (ps_record_sizes _ _ _ _ _ _ _ H) as (_ & _ & Sn & _). congruence.
    - apply (ps_scan_bound (ps_record ptr isz) He (fun s => ps_nrec (fst s))) in Hs.
      + cbn [fst] in Hs. unfold ps_nrec in *. cbn [ps_begin_dir s_dirs s_cur length] in Hs. rewrite Hc. cbn [length]. lia.
      + intros [a la] b [a' la'] H. cbn [fst]. destruct (ps_record_sizes _ _ _ _ _ _ _ H) as (N & _). lia.
    - apply (ps_scan_bound (ps_record ptr isz) He (fun s => length (s_inodes (fst s)))) in Hs; [exact Hs|].
      intros [a la] b [a' la'] H. cbn [fst]. destruct (ps_record_sizes _ _ _ _ _ _ _ H) as (_ & _ & _ & I & _). lia.
  Qed.

  Theorem ps_walk_total : forall fuel st, NoDup (s_seen st) -> s_cur st = [] -> (ps_phi st < fuel)%nat ->
    ps_walk fuel rd ptr isz st <> PFuel.
  Proof.
    induction fuel as [|f IH]; intros st Hnd Hc Hphi; [lia|]. cbn [ps_walk].
    destruct (s_queue st) as [|[ext len] q] eqn:Eq; [discriminate|].
    destruct (ps_mem ext (s_seen st)) eqn:Em; [discriminate|].
    destruct (rd ext len) as [data|] eqn:Er; [|discriminate].
    destruct (ps_scan _ _ data 0 len _) as [[st' l']| | |] eqn:Es; try discriminate.
    - destruct (ps_scan_dir_sizes st q ext len data st' l' Es Hc) as (Hq & Hs & _).
      assert (Hnin : ~ In ext (s_seen st)) by (rewrite <- ps_mem_in; congruence).
      assert (Hnd' : NoDup (s_seen (ps_end_dir st'))) by (cbn [ps_end_dir s_seen]; rewrite Hs; constructor; assumption).
      apply IH; [exact Hnd'|reflexivity|].
      pose proof (ps_seenU_bound _ Hnd') as Hb.
      unfold ps_phi in *. unfold ps_seenU in *. cbn [ps_end_dir s_queue s_seen] in *. rewrite Hs in *. rewrite Eq in Hphi.
      cbn [filter length] in *.
      destruct data as [|x data'].
      + cbn [length] in Hq. destruct (ps_mem ext U); cbn [length] in *; nia.
      + destruct (Hrd ext len (x :: data') Er ltac:(discriminate)) as [HinU HM].
        apply ps_mem_in in HinU. rewrite HinU in *. cbn [length] in *. nia.
    - exfalso. revert Es. apply ps_scan_nofuel; [|apply ps_record_nofuel|lia].
      intros s s'. rewrite ps_record_empty. discriminate.
  Qed.

  (* size of what a successful walk built *)
  Record ps_szinv (st : pstate) : Prop := {
    z_nodup : NoDup (s_seen st);
    z_cur : s_cur st = [];
    z_recs : (ps_nrec st <= length (ps_seenU st) * M)%nat;
    z_inodes : (length (s_inodes st) <= length (ps_seenU st) * M)%nat }.

  Theorem ps_walk_bounded : forall fuel st st', ps_szinv st -> ps_walk fuel rd ptr isz st = POk st' ->
    ps_szinv st'.
  Proof.
    induction fuel as [|f IH]; intros st st' Z; [discriminate|]. cbn [ps_walk].
    destruct (s_queue st) as [|[ext len] q] eqn:Eq; [intros H; injection H as <-; exact Z|].
    destruct (ps_mem ext (s_seen st)) eqn:Em; [discriminate|].
    destruct (rd ext len) as [data|] eqn:Er; [|discriminate].
    destruct (ps_scan _ _ data 0 len _) as [[st1 l1]| | |] eqn:Es; try discriminate.
    apply IH. destruct Z as [Hnd Hc Hr Hi].
    destruct (ps_scan_dir_sizes st q ext len data st1 l1 Es Hc) as (_ & Hs & Hn & Hino).
    assert (Hnin : ~ In ext (s_seen st)) by (rewrite <- ps_mem_in; congruence).
    constructor.
    - cbn [ps_end_dir s_seen]. rewrite Hs. constructor; assumption.
    - reflexivity.
    - unfold ps_nrec, ps_seenU in *. cbn [ps_end_dir s_dirs s_cur s_seen length] in *. rewrite Hs.
      rewrite concat_app, app_length. cbn [concat filter]. rewrite app_nil_r.
      destruct data as [|x data'].
      + cbn [length] in *. destruct (ps_mem ext U); cbn [length]; nia.
      + destruct (Hrd ext len (x :: data') Er ltac:(discriminate)) as [HinU HM].
        apply ps_mem_in in HinU. rewrite HinU. cbn [length] in *. nia.
    - unfold ps_seenU in *. cbn [ps_end_dir s_inodes s_seen] in *. rewrite Hs. cbn [filter].
      destruct data as [|x data'].
      + cbn [length] in *. destruct (ps_mem ext U); cbn [length]; nia.
      + destruct (Hrd ext len (x :: data') Er ltac:(discriminate)) as [HinU HM].
        apply ps_mem_in in HinU. rewrite HinU. cbn [length] in *. nia.
  Qed.
End WalkAny.

(* ---- for ps_parse ---------------------------------------------------------------------------------------------- *)

Definition ps_fuel_any (U : list Z) (M : nat) : nat := (length U * (M + 1) + 2)%nat.

Theorem ps_parse_total rd U M ptr isz re rl : ps_rd_bounded rd U M ->
  ps_parse (ps_fuel_any U M) rd ptr isz re rl <> PFuel.
Proof.
  intros Hrd. unfold ps_parse. destruct ptr as [|e0 pt]; [discriminate|].
  destruct (ps_walk _ rd (e0 :: pt) isz (ps_init re rl)) eqn:E; try discriminate.
  exfalso. revert E. apply (ps_walk_total rd U M Hrd); [constructor|reflexivity|].
  unfold ps_phi, ps_seenU, ps_fuel_any. cbn [ps_init s_queue s_seen filter length]. lia.
Qed.

Theorem ps_parse_bounded rd U M fuel ptr isz re rl g : ps_rd_bounded rd U M ->
  ps_parse fuel rd ptr isz re rl = POk g ->
  (length (ps_all_recs g) <= length U * M)%nat /\ (length (g_inodes g) <= length U * M)%nat.
Proof.
  intros Hrd. unfold ps_parse. destruct ptr as [|e0 pt]; [discriminate|].
  destruct (ps_walk fuel rd (e0 :: pt) isz (ps_init re rl)) as [st| | |] eqn:E; try discriminate.
  intros H. injection H as <-.
  assert (Z0 : ps_szinv U M (ps_init re rl)) by (constructor; cbn; try constructor; lia).
  destruct (ps_walk_bounded rd U M Hrd (e0 :: pt) isz fuel _ st Z0 E) as [Hnd Hc Hr Hi].
  pose proof (ps_seenU_bound U st Hnd) as Hb.
  unfold ps_all_recs, ps_nrec in *. cbn [ps_graph g_dirs g_inodes]. rewrite Hc in Hr. cbn [length] in Hr. nia.
Qed.

Print Assumptions ps_parse_total.
Print Assumptions ps_parse_bounded.
