(* Parse, part 12: _walk_directories (as repaired by commit 863c802: directories may not share blocks) on ANY
   bytes, ANY root pointer -- no well-formedness at all (C15).
   [rd] is any reader of the medium such that the data handed out for a directory is covered by the blocks of its
   dir_block_range that lie in a finite list U, w bytes per block (ParseTotalInst.v: the whole-file reader with
   w = 2048, the Master.image reader).
     ps_parse_dr_len / ps_scan_nofuel / ps_scan_bound33
                          every record that parses takes at least 33 bytes of the data read; the record loop of
                          one extent terminates and creates at most (bytes read)/33 records
     ps_walk_total        the walk terminates: the ranges of the walked directories are disjoint, so the data
                          read in total is at most w * length U; fuel w * length U / 33 + 3 is never exhausted
     ps_walk_bounded      33 * records (and inodes) created <= w * length U
   The failure codes are classified in ParseTotalInst.v (parse_only_documented_errors). *)
From Coq Require Import ZArith List Bool Lia ZifyBool FinFun.
From PV.Base Require Import Prim ListX.
From PV.Gen Require Import GenConst GenFun.
From PV.Model Require Import Codec Pack Master Parse.
From PV.Proofs Require Import MasterPack MasterChecker ParseShare ParseShareWalk.
Import ListNotations.
Local Open Scope Z_scope.

Definition ps_inU (U : list Z) (l : list Z) : list Z := filter (fun b => ps_mem b U) l.

Definition ps_rd_ok (rd : Z -> Z -> option (list Z)) (isz : Z) (U : list Z) (w : nat) : Prop :=
  forall ext len data, rd ext len = Some data -> data <> [] ->
  (length data <= w * length (ps_inU U (ps_range isz ext len)))%nat.

(* ---- one record ------------------------------------------------------------------------------------------ *)

Definition ps_nrec (st : pstate) : nat := (length (concat (s_dirs st)) + length (s_cur st))%nat.

Lemma ps_record_empty ptr isz s : ps_record ptr isz s [] = PInvalid 2.
Proof. destruct s as [st l]. reflexivity. Qed.

Lemma ps_recalc_length k l : length (ps_recalc k l) = length l.
Proof.
  unfold ps_recalc. rewrite app_length.
  assert (H : forall l i n off, length (ps_renum i n off l) = length l).
  { induction l0 as [|c r IH]; intros; [reflexivity|]. cbn [ps_renum length]. rewrite IH. reflexivity. }
  rewrite H, <- app_length, firstn_skipn. reflexivity.
Qed.

Lemma ps_track_length cur child last cur2 : ps_track cur child last = POk cur2 -> length cur2 = S (length cur).
Proof.
  unfold ps_track. cbv zeta.
  match goal with |- (if ?d then _ else _) = _ -> _ => destruct d end.
  - match goal with |- (if ?d then _ else _) = _ -> _ => destruct d end; discriminate.
  - intros H. injection H as <-. rewrite ps_recalc_length. unfold insert_at. rewrite app_length. cbn [length].
    rewrite firstn_length, skipn_length. lia.
Qed.

Lemma ps_link_sizes isz st ext dl i d st1 : ps_link isz st ext dl = (i, d, st1) ->
  ps_nrec st1 = ps_nrec st /\ s_queue st1 = s_queue st /\ s_seen st1 = s_seen st /\
  length (s_cur st1) = length (s_cur st) /\ length (concat (s_dirs st1)) = length (concat (s_dirs st)) /\
  (length (s_inodes st1) <= S (length (s_inodes st)))%nat.
Proof.
  unfold ps_link, ps_link_gen, ps_nrec. cbv zeta.
  match goal with |- (if ?c then _ else _) = _ -> _ => destruct c end; intros H; injection H as <- <- <-;
    cbn [s_dirs s_cur s_queue s_seen s_inodes]; rewrite ?ps_concat_map, ?map_length, ?ps_set_ilen_length;
    (repeat split; try reflexivity);
    match goal with |- context [match ?f with Some _ => _ | None => _ end] => destruct f end;
    rewrite ?app_length; cbn [length]; lia.
Qed.

Lemma ps_split_widths_len ws : forall s fs rest, split_widths ws s = Some (fs, rest) ->
  (list_sum ws <= length s)%nat.
Proof.
  induction ws as [|w ws IH]; intros s fs rest H; [cbn; lia|]. cbn [split_widths] in H.
  destruct (length s <? w)%nat eqn:E; [discriminate|]. apply Nat.ltb_ge in E.
  destruct (split_widths ws (skipn w s)) as [[fs' r']|] eqn:E2; [|discriminate].
  apply IH in E2. rewrite skipn_length in E2. change (list_sum (w :: ws)) with (w + list_sum ws)%nat. lia.
Qed.

Lemma ps_parse_dr_len b r : parse_dr b = Some r -> (33 <= length b)%nat.
Proof.
  unfold parse_dr. destruct (255 <? zlen b); [discriminate|].
  destruct (split_widths (widths fmt_dr_widths) (firstn 33 b)) as [[fs rest]|] eqn:E; [|discriminate].
  intros _. apply ps_split_widths_len in E. rewrite firstn_length in E.
  change (list_sum (widths fmt_dr_widths)) with 33%nat in E. lia.
Qed.

(* what one record adds *)
Lemma ps_record_sizes ptr isz st l b st' l' : ps_record ptr isz (st, l) b = POk (st', l') ->
  ps_nrec st' = S (ps_nrec st) /\ (length (s_queue st') <= S (length (s_queue st)))%nat /\
  s_seen st' = s_seen st /\ (length (s_inodes st') <= S (length (s_inodes st)))%nat /\
  length (concat (s_dirs st')) = length (concat (s_dirs st)) /\ (33 <= length b)%nat.
Proof.
  unfold ps_record.
  destruct (parse_dr b) as [r|] eqn:Ep; [|discriminate]. apply ps_parse_dr_len in Ep.
  destruct (ps_outside (sysuse r) (znth 32 b)); [discriminate|].
  destruct (ps_is_dir r) eqn:Hd.
  - cbv beta iota zeta.
    match goal with |- context [if ?c then PInvalid 3 else _] => destruct c; [discriminate|] end.
    destruct (ps_track _ _ l) as [cur2| | |] eqn:Et; try discriminate.
    intros H. injection H as <- _. unfold ps_nrec. cbn [s_dirs s_cur s_queue s_seen s_inodes].
    rewrite (ps_track_length _ _ _ _ Et).
    repeat split; try lia.
    match goal with |- context [if ?c then _ else _] => destruct c end; rewrite ?app_length; cbn [length]; lia.
  - destruct (ps_link isz st (extent r) (data_len r)) as [[i d] st1] eqn:El.
    destruct (ps_link_sizes _ _ _ _ _ _ _ El) as (A & B & C & D & E & F).
    cbv beta iota zeta. cbn [andb]. cbv iota.
    destruct (ps_track _ _ l) as [cur2| | |] eqn:Et; try discriminate.
    match goal with |- match ?o with Some _ => _ | None => _ end = _ -> _ => destruct o; [|discriminate] end.
    intros H. injection H as <- _. unfold ps_nrec in *. cbn [s_dirs s_cur s_queue s_seen s_inodes].
    rewrite (ps_track_length _ _ _ _ Et), B, C. repeat split; lia.
Qed.

Lemma ps_record_nofuel ptr isz s b : ps_record ptr isz s b <> PFuel.
Proof.
  destruct s as [st l]. unfold ps_record.
  destruct (parse_dr b) as [r|]; [|discriminate].
  destruct (ps_outside (sysuse r) (znth 32 b)); [discriminate|].
  assert (Ht : forall cur child, ps_track cur child l <> PFuel).
  { intros cur child. unfold ps_track. cbv zeta.
    match goal with |- (if ?d then _ else _) <> _ => destruct d end; [|discriminate].
    match goal with |- (if ?d then _ else _) <> _ => destruct d end; discriminate. }
  destruct (ps_is_dir r).
  - cbv beta iota zeta.
    match goal with |- context [if ?c then PInvalid 3 else _] => destruct c; [discriminate|] end.
    destruct (ps_track _ _ l) as [cur2| | |] eqn:Et; try discriminate. exfalso. exact (Ht _ _ Et).
  - destruct (ps_link isz st (extent r) (data_len r)) as [[i d] st1].
    cbv beta iota zeta. cbn [andb]. cbv iota.
    destruct (ps_track _ _ l) as [cur2| | |] eqn:Et; try discriminate; [|exfalso; exact (Ht _ _ Et)].
    match goal with |- match ?o with Some _ => _ | None => _ end <> _ => destruct o; discriminate end.
Qed.

(* ---- the record loop of one extent -------------------------------------------------------------------------- *)

Lemma ps_padsize_pos off : 1 <= BS - off mod BS.
Proof. rewrite ms_BS. pose proof (Z.mod_pos_bound off 2048 ltac:(lia)). lia. Qed.

Lemma ps_zlist_eqb_length a b : zlist_eqb a b = true -> length a = length b.
Proof. intros H. apply ms_zlist_eqb_eq in H. subst. reflexivity. Qed.

Section ScanAny.
  Context {S : Type}.
  Variable step : S -> list Z -> presult S.
  Hypothesis step_empty : forall s s', step s [] <> POk s'.

  Lemma ps_scan_nofuel : (forall s b, step s b <> PFuel) ->
    forall fuel data off len s, (length data < fuel)%nat -> ps_scan step fuel data off len s <> PFuel.
  Proof.
    intros Hnf. induction fuel as [|f IH]; intros data off len s Hf; [lia|]. cbn [ps_scan].
    destruct (off <? len); [|discriminate]. destruct data as [|x data']; [discriminate|].
    destruct (x =? 0) eqn:Ex.
    - match goal with |- (if ?c then _ else _) <> _ => destruct c; [|discriminate] end.
      apply IH. rewrite skipn_length. pose proof (ps_padsize_pos off). cbn [length] in *. lia.
    - destruct (step s (firstn (Z.to_nat x) (x :: data'))) as [s1| | |] eqn:E; try discriminate.
      + apply IH. rewrite skipn_length. destruct (Z.to_nat x) as [|k] eqn:Ek.
        * exfalso. cbn [firstn] in E. exact (step_empty _ _ E).
        * cbn [length] in *. lia.
      + exfalso. exact (Hnf _ _ E).
  Qed.

  Variable m : S -> nat.
  Hypothesis step_one : forall s b s', step s b = POk s' -> (33 <= length b)%nat /\ (m s' <= m s + 1)%nat.

  Lemma ps_scan_bound33 : forall fuel data off len s s',
    ps_scan step fuel data off len s = POk s' -> (33 * m s' <= 33 * m s + length data)%nat.
  Proof.
    induction fuel as [|f IH]; intros data off len s s'; [discriminate|]. cbn [ps_scan].
    destruct (off <? len); [|intros H; injection H as <-; lia].
    destruct data as [|x data']; [discriminate|].
    destruct (x =? 0).
    - match goal with |- (if ?c then _ else _) = _ -> _ => destruct c; [|discriminate] end.
      intros H. apply IH in H. rewrite skipn_length in H. lia.
    - destruct (step s (firstn (Z.to_nat x) (x :: data'))) as [s1| | |] eqn:E; try discriminate.
      intros H. apply IH in H. rewrite skipn_length in H. destruct (step_one _ _ _ E) as [H33 H1].
      rewrite firstn_length in H33. lia.
  Qed.
End ScanAny.

(* ---- the walk ------------------------------------------------------------------------------------------------ *)

Lemma ps_mem_in x l : ps_mem x l = true <-> In x l.
Proof.
  unfold ps_mem. rewrite existsb_exists. split.
  - intros (e & He & E). apply Z.eqb_eq in E. subst e. exact He.
  - intros H. exists x. split; [exact H|apply Z.eqb_refl].
Qed.

Lemma ps_range_nodup isz ext len : NoDup (ps_range isz ext len).
Proof. unfold ps_range. apply FinFun.Injective_map_NoDup; [intros a b H; lia|apply seq_NoDup]. Qed.

Lemma ps_nodup_app {A} (a b : list A) : NoDup a -> NoDup b -> (forall x, In x a -> ~ In x b) -> NoDup (a ++ b).
Proof.
  induction a as [|x a IH]; intros Ha Hb Hd; [exact Hb|]. inversion Ha as [|? ? Hx Ha']; subst. cbn [app]. constructor.
  - intros Hin. apply in_app_or in Hin. destruct Hin as [Hin|Hin]; [exact (Hx Hin)|]. exact (Hd x (or_introl eq_refl) Hin).
  - apply IH; [exact Ha'|exact Hb|]. intros y Hy. apply Hd. right. exact Hy.
Qed.

Lemma ps_enter_true isz seen ext len sn : ps_enter true isz seen ext len = inr sn ->
  sn = ps_range isz ext len ++ seen /\ (NoDup seen -> NoDup sn).
Proof.
  unfold ps_enter. cbv zeta. destruct (existsb _ (ps_range isz ext len)) eqn:E; [discriminate|].
  intros H. injection H as <-. split; [reflexivity|]. intros Hnd.
  apply ps_nodup_app; [apply ps_range_nodup|exact Hnd|].
  intros b Hb Hs. assert (existsb (fun b => ps_mem b seen) (ps_range isz ext len) = true); [|congruence].
  apply existsb_exists. exists b. split; [exact Hb|apply ps_mem_in; exact Hs].
Qed.

Section WalkAny.
  Variable rd : Z -> Z -> option (list Z).
  Variable isz : Z.
  Variable U : list Z.
  Variable w : nat.
  Hypothesis Hrd : ps_rd_ok rd isz U w.
  Variable ptr : list Z.

  (* the blocks of the directories entered so far that count *)
  Definition ps_seenU (st : pstate) : list Z := ps_inU U (s_seen st).

  Lemma ps_seenU_bound st : NoDup (s_seen st) -> (length (ps_seenU st) <= length U)%nat.
  Proof.
    intros Hnd. apply NoDup_incl_length; [apply NoDup_filter; exact Hnd|].
    intros e He. apply filter_In in He. destruct He as [_ He]. apply ps_mem_in in He. exact He.
  Qed.

  Definition ps_phi (st : pstate) : nat :=
    (33 * length (s_queue st) + w * (length U - length (ps_seenU st)))%nat.

  (* one directory: what the scan of its extent leaves *)
  Lemma ps_scan_dir_sizes st q sn len data st' l' :
    ps_scan (ps_record ptr isz) (S (length data)) data 0 len (ps_begin_dir st q sn, None) = POk (st', l') ->
    s_cur st = [] ->
    (33 * length (s_queue st') <= 33 * length q + length data)%nat /\ s_seen st' = sn /\
    (33 * ps_nrec st' <= 33 * ps_nrec st + length data)%nat /\
    (33 * length (s_inodes st') <= 33 * length (s_inodes st) + length data)%nat.
  Proof.
    intros Hs Hc.
    assert (He : forall s s', ps_record ptr isz s [] <> POk s') by (intros s s'; rewrite ps_record_empty; discriminate).
    split; [|split; [|split]].
    - apply (ps_scan_bound33 (ps_record ptr isz) He (fun s => length (s_queue (fst s)))) in Hs; [exact Hs|].
      intros [a la] b [a' la'] H. cbn [fst]. destruct (ps_record_sizes _ _ _ _ _ _ _ H) as (_ & Q & _ & _ & _ & L). lia.
    - apply (ps_scan_inv (ps_record ptr isz) (fun s => s_seen (fst s) = sn)) in Hs; [exact Hs| |reflexivity].
      intros [a la] b [a' la'] Hp H. cbn [fst] in *. destruct (ps_record_sizes _ _ _ _ _ _ _ H) as (_ & _ & Sn & _). congruence.
    - apply (ps_scan_bound33 (ps_record ptr isz) He (fun s => ps_nrec (fst s))) in Hs.
      + cbn [fst] in Hs. unfold ps_nrec in *. cbn [ps_begin_dir s_dirs s_cur length] in Hs. rewrite Hc. cbn [length]. lia.
      + intros [a la] b [a' la'] H. cbn [fst]. destruct (ps_record_sizes _ _ _ _ _ _ _ H) as (N & _ & _ & _ & _ & L). lia.
    - apply (ps_scan_bound33 (ps_record ptr isz) He (fun s => length (s_inodes (fst s)))) in Hs; [exact Hs|].
      intros [a la] b [a' la'] H. cbn [fst]. destruct (ps_record_sizes _ _ _ _ _ _ _ H) as (_ & _ & _ & I & _ & L). lia.
  Qed.

  (* the blocks that count, after a directory was entered *)
  Lemma ps_seenU_enter st ext len data sn : ps_enter true isz (s_seen st) ext len = inr sn ->
    rd ext len = Some data ->
    (length (ps_inU U sn) >= length (ps_seenU st))%nat /\
    (length data <= w * (length (ps_inU U sn) - length (ps_seenU st)))%nat.
  Proof.
    intros He Hr. destruct (ps_enter_true _ _ _ _ _ He) as [-> _]. unfold ps_seenU, ps_inU.
    rewrite filter_app, app_length. split; [lia|].
    destruct data as [|x d]; [cbn [length]; lia|].
    pose proof (Hrd ext len (x :: d) Hr ltac:(discriminate)) as H. unfold ps_inU in H.
    replace (length (filter (fun b => ps_mem b U) (ps_range isz ext len)) + length (filter (fun b => ps_mem b U) (s_seen st))
             - length (filter (fun b => ps_mem b U) (s_seen st)))%nat
      with (length (filter (fun b => ps_mem b U) (ps_range isz ext len))) by lia.
    exact H.
  Qed.

  Theorem ps_walk_total : forall fuel st, NoDup (s_seen st) -> s_cur st = [] -> (ps_phi st < 33 * fuel)%nat ->
    ps_walk true fuel rd ptr isz st <> PFuel.
  Proof.
    induction fuel as [|f IH]; intros st Hnd Hc Hphi; [lia|]. cbn [ps_walk].
    destruct (s_queue st) as [|[ext len] q] eqn:Eq; [discriminate|].
    destruct (ps_enter true isz (s_seen st) ext len) as [e|sn] eqn:Ee; [discriminate|].
    destruct (rd ext len) as [data|] eqn:Er; [|discriminate].
    destruct (ps_scan _ _ data 0 len _) as [[st' l']| | |] eqn:Es; try discriminate.
    - destruct (ps_scan_dir_sizes st q sn len data st' l' Es Hc) as (Hq & Hs & _).
      destruct (ps_enter_true _ _ _ _ _ Ee) as [_ Hnd1]. specialize (Hnd1 Hnd).
      assert (Hnd' : NoDup (s_seen (ps_end_dir st'))) by (cbn [ps_end_dir s_seen]; rewrite Hs; exact Hnd1).
      apply IH; [exact Hnd'|reflexivity|].
      pose proof (ps_seenU_bound _ Hnd') as Hb.
      destruct (ps_seenU_enter st ext len data sn Ee Er) as [G1 G2].
      unfold ps_phi in *. unfold ps_seenU in *. cbn [ps_end_dir s_queue s_seen] in *. rewrite Hs in *. rewrite Eq in Hphi.
      cbn [length] in Hphi. nia.
    - exfalso. revert Es. apply ps_scan_nofuel; [|apply ps_record_nofuel|lia].
      intros s s'. rewrite ps_record_empty. discriminate.
  Qed.

  (* size of what a successful walk built *)
  Record ps_szinv (st : pstate) : Prop := {
    z_nodup : NoDup (s_seen st);
    z_cur : s_cur st = [];
    z_recs : (33 * ps_nrec st <= w * length (ps_seenU st))%nat;
    z_inodes : (33 * length (s_inodes st) <= w * length (ps_seenU st))%nat }.

  Theorem ps_walk_bounded : forall fuel st st', ps_szinv st -> ps_walk true fuel rd ptr isz st = POk st' ->
    ps_szinv st'.
  Proof.
    induction fuel as [|f IH]; intros st st' Z; [discriminate|]. cbn [ps_walk].
    destruct (s_queue st) as [|[ext len] q] eqn:Eq; [intros H; injection H as <-; exact Z|].
    destruct (ps_enter true isz (s_seen st) ext len) as [e|sn] eqn:Ee; [discriminate|].
    destruct (rd ext len) as [data|] eqn:Er; [|discriminate].
    destruct (ps_scan _ _ data 0 len _) as [[st1 l1]| | |] eqn:Es; try discriminate.
    apply IH. destruct Z as [Hnd Hc Hr Hi].
    destruct (ps_scan_dir_sizes st q sn len data st1 l1 Es Hc) as (_ & Hs & Hn & Hino).
    destruct (ps_enter_true _ _ _ _ _ Ee) as [_ Hnd1]. specialize (Hnd1 Hnd).
    destruct (ps_seenU_enter st ext len data sn Ee Er) as [G1 G2].
    constructor.
    - cbn [ps_end_dir s_seen]. rewrite Hs. exact Hnd1.
    - reflexivity.
    - unfold ps_nrec, ps_seenU in *. cbn [ps_end_dir s_dirs s_cur s_seen length] in *. rewrite Hs.
      rewrite concat_app, app_length. cbn [concat]. rewrite app_nil_r. nia.
    - unfold ps_seenU in *. cbn [ps_end_dir s_inodes s_seen] in *. rewrite Hs. nia.
  Qed.
End WalkAny.

(* ---- for ps_parse ---------------------------------------------------------------------------------------------- *)

Definition ps_fuel_any (U : list Z) (w : nat) : nat := (w * length U / 33 + 3)%nat.

Theorem ps_parse_total rd isz U w ptr re rl : ps_rd_ok rd isz U w ->
  ps_parse (ps_fuel_any U w) rd ptr isz re rl <> PFuel.
Proof.
  intros Hrd. unfold ps_parse, ps_parse_gen. destruct ptr as [|e0 pt]; [discriminate|].
  destruct (ps_walk true _ rd (e0 :: pt) isz (ps_init re rl)) eqn:E; try discriminate.
  exfalso. revert E. apply (ps_walk_total rd isz U w Hrd); [constructor|reflexivity|].
  unfold ps_phi, ps_seenU, ps_inU, ps_fuel_any. cbn [ps_init s_queue s_seen filter length].
  pose proof (Nat.div_mod (w * length U) 33 ltac:(lia)) as D.
  pose proof (Nat.mod_upper_bound (w * length U) 33 ltac:(lia)). lia.
Qed.

Theorem ps_parse_bounded rd isz U w fuel ptr re rl g : ps_rd_ok rd isz U w ->
  ps_parse fuel rd ptr isz re rl = POk g ->
  (33 * length (ps_all_recs g) <= w * length U)%nat /\ (33 * length (g_inodes g) <= w * length U)%nat.
Proof.
  intros Hrd. unfold ps_parse, ps_parse_gen. destruct ptr as [|e0 pt]; [discriminate|].
  destruct (ps_walk true fuel rd (e0 :: pt) isz (ps_init re rl)) as [st| | |] eqn:E; try discriminate.
  intros H. injection H as <-.
  assert (Z0 : ps_szinv U w (ps_init re rl)) by (constructor; cbn; try constructor; lia).
  destruct (ps_walk_bounded rd isz U w Hrd (e0 :: pt) fuel _ st Z0 E) as [Hnd Hc Hr Hi].
  pose proof (ps_seenU_bound U st Hnd) as Hb.
  unfold ps_all_recs, ps_nrec in *. cbn [ps_graph g_dirs g_inodes]. rewrite Hc in Hr. cbn [length] in Hr. nia.
Qed.

Print Assumptions ps_parse_total.
Print Assumptions ps_parse_bounded.
