(* Parse, part 6: the whole walk.
     ps_wgo_prefix   the breadth-first walk visits the records waiting in its queue first
     ps_walk_ok      _walk_directories on a mastered image follows, directory by directory, the walk over
                     the writer's objects (Parse.ps_gwalk): no exception is raised, and the state reached
                     is the one the writer's objects give *)
From Coq Require Import ZArith List Bool Lia ZifyBool.
From PV.Base Require Import Prim ListX.
From PV.Gen Require Import GenConst GenFun.
From PV.Model Require Import Codec Pack PathTable Names Master Parse.
From PV.Proofs Require Import CodecProofs PackProofs PathTableLemmas PathTableProofs AccountLemmas.
From PV.Proofs Require Import MasterPack MasterImage MasterBfs MasterWf MasterDir MasterChecker.
From PV.Proofs Require Import ParseScan ParseTrack ParseRecord ParseDir ParseDirAll.
Import ListNotations.
Local Open Scope Z_scope.

(* the queue of PathTable.wgo that corresponds to a queue of record objects *)
Definition ps_dq (items : list (list nat * node)) : list (dtree * list nat) :=
  map (fun it => (ms_dtree (snd it), fst it)) items.

Definition ps_wsize (q : list (dtree * list nat)) : nat := list_sum (map (fun it => tsize (fst it)) q).

Lemma ps_wsize_app a b : ps_wsize (a ++ b) = (ps_wsize a + ps_wsize b)%nat.
Proof. unfold ps_wsize. rewrite map_app, list_sum_app. reflexivity. Qed.

Lemma ps_wsize_cons k pos q : ps_wsize ((k, pos) :: q) = (tsize k + ps_wsize q)%nat.
Proof. reflexivity. Qed.

Lemma ps_wsize_child i ks pos : ps_wsize (child_pos_from i ks pos) = list_sum (map tsize ks).
Proof.
  revert i; induction ks as [|k ks IH]; intros i; [reflexivity|].
  cbn [child_pos_from].
  change (ps_wsize ((k, pos ++ [i]) :: child_pos_from (S i) ks pos))
    with (tsize k + ps_wsize (child_pos_from (S i) ks pos))%nat.
  rewrite IH. reflexivity.
Qed.

Lemma ps_child_pos_snd i ks pos :
  map snd (child_pos_from i ks pos) = map (fun j => pos ++ [j]) (seq i (length ks)).
Proof.
  revert i; induction ks as [|k ks IH]; intros i; [reflexivity|].
  cbn [child_pos_from map length seq snd]. rewrite IH. reflexivity.
Qed.

Lemma ps_dq_items p : forall kids j, ps_dq (ps_items p j kids) = child_pos_from j (map ms_dtree kids) p.
Proof.
  induction kids as [|c r IH]; intros j; [reflexivity|].
  cbn [ps_items ps_dq map child_pos_from fst snd]. f_equal. apply IH.
Qed.

Lemma ps_items_fst p : forall kids j, map fst (ps_items p j kids) = ps_kid_positions p j (length kids).
Proof.
  induction kids as [|c r IH]; intros j; [reflexivity|].
  cbn [ps_items map fst length]. unfold ps_kid_positions in *. cbn [seq map]. rewrite IH. reflexivity.
Qed.

Lemma ps_items_in p kids : forall kids' j,
  (forall i c, nth_error kids' i = Some c -> nth_error kids (j + i) = Some c) ->
  forall p' n', In (p', n') (ps_items p j kids') -> exists i, p' = p ++ [i] /\ nth_error kids i = Some n'.
Proof.
  induction kids' as [|c r IH]; intros j Hsub p' n' Hin; [destruct Hin|].
  cbn [ps_items] in Hin. destruct Hin as [Hin|Hin].
  - injection Hin as <- <-. exists j. split; [reflexivity|].
    specialize (Hsub 0%nat c eq_refl). rewrite Nat.add_0_r in Hsub. exact Hsub.
  - apply (IH (S j)); [|exact Hin]. intros i c' Hi. specialize (Hsub (S i) c' Hi).
    replace (S j + i)%nat with (j + S i)%nat by lia. exact Hsub.
Qed.

Lemma ps_wgo_prefix : forall f q, (ps_wsize q <= f)%nat -> exists rest, wgo f q = map snd q ++ rest.
Proof.
  induction f as [|f IH]; intros q Hs.
  - destruct q as [|[k pos] q]; [exists []; reflexivity|].
    rewrite ps_wsize_cons in Hs. pose proof (tsize_pos k). lia.
  - destruct q as [|[[nm bl ks] pos] q]; [exists []; reflexivity|]. cbn [wgo map snd].
    destruct (IH (q ++ child_pos_from 0 ks pos)) as [rest Hr].
    { rewrite ps_wsize_app, ps_wsize_child. rewrite ps_wsize_cons in Hs.
      cbn [tsize] in Hs. lia. }
    rewrite Hr, map_app, <- app_assoc. eexists. reflexivity.
Qed.

Section Walk.
  Variable dt : list Z.
  Hypothesis Hdt : length dt = 7%nat.
  Variable t : node.
  Hypothesis Hwf : wf_tree t = true.
  Hypothesis Hnm : forallb ps_names_ok (Account.kids_of t) = true.
  Variable ptr : list Z.
  Hypothesis Hptr : forall p, ms_is_dir_at t p = true -> ps_mem (ms_ext_at (ms_DB t) p) ptr = true.
  Variable isz : Z.
  Hypothesis Hisz : ms_layout_end t * BS <= isz.
  Variable img' : image.
  Hypothesis Hok : ms_img_ok img'.
  Hypothesis Hincl : incl (map (ms_chunk dt t (ms_DB t) (ms_FB t)) (ms_dir_positions t)) img'.

  Local Notation DB := (ms_DB t).
  Local Notation FB := (ms_FB t).

  Record ps_inv (f : nat) (st : pstate) (items : list (list nat * node)) (popped : list (list nat)) : Prop := {
    iv_queue : s_queue st = map (ps_qof DB) (filter ps_item_is_dir items);
    iv_nodes : forall p n, In (p, n) items -> ms_node_at t p = Some n;
    iv_e2i : ps_e2i_ok t st (popped ++ map fst items);
    iv_seen : forall b, In b (s_seen st) ->
              exists p nm dl kids, In p popped /\ ms_node_at t p = Some (Dir nm dl kids) /\
                                   ms_ext_at DB p <= b < ms_ext_at DB p + dl / BS;
    iv_nodup : NoDup (popped ++ wgo f (ps_dq items));
    iv_size : (ps_wsize (ps_dq items) <= f)%nat;
    iv_cur : s_cur st = [];
    iv_level : s_level st <= 3 }.

  Lemma ps_mem_false x l : (forall e, In e l -> e <> x) -> ps_mem x l = false.
  Proof.
    intros H. unfold ps_mem. destruct (existsb (Z.eqb x) l) eqn:E; [|reflexivity].
    apply existsb_exists in E. destruct E as (e & He & Hx). apply Z.eqb_eq in Hx. subst e.
    exfalso. exact (H x He eq_refl).
  Qed.

  Lemma ps_blocks_of_in ext dl b : dl mod BS = 0 -> BS <= dl ->
    In b (ps_blocks_of ext dl) <-> ext <= b < ext + dl / BS.
  Proof.
    intros Hm Hd. unfold ps_blocks_of, ceiling_div. rewrite in_map_iff. rewrite ms_BS in *.
    Ltac Zify.zify_post_hook ::= Z.to_euclidean_division_equations.
    split.
    - intros (k & <- & Hk). apply in_seq in Hk. lia.
    - intros H. exists (Z.to_nat (b - ext)). split; [lia|]. apply in_seq. lia.
  Qed.

  (* the blocks of two different directories *)
  Lemma ps_dir_blocks_disjoint p1 n1 d1 k1 p2 n2 d2 k2 b :
    ms_node_at t p1 = Some (Dir n1 d1 k1) -> ms_node_at t p2 = Some (Dir n2 d2 k2) -> p1 <> p2 ->
    ms_ext_at DB p1 <= b < ms_ext_at DB p1 + d1 / BS -> ms_ext_at DB p2 <= b < ms_ext_at DB p2 + d2 / BS -> False.
  Proof.
    intros N1 N2 Hne B1 B2.
    assert (H1 : ms_is_dir_at t p1 = true) by (unfold ms_is_dir_at; rewrite N1; reflexivity).
    assert (H2 : ms_is_dir_at t p2 = true) by (unfold ms_is_dir_at; rewrite N2; reflexivity).
    pose proof (ms_chunks_disjoint dt Hdt t Hwf p1 p2 H1 H2 Hne) as Hd.
    destruct (ms_chunk_facts dt Hdt t Hwf p1 n1 d1 k1 N1) as (F1 & _ & M1 & G1 & C1 & _).
    destruct (ms_chunk_facts dt Hdt t Hwf p2 n2 d2 k2 N2) as (F2 & _ & M2 & G2 & C2 & _).
    unfold ms_disjoint in Hd. rewrite F1, F2, C1, C2 in Hd. unfold ceiling_div in Hd.
    rewrite ms_BS in *. lia.
  Qed.

  (* a directory of the mastered image lies inside the image: its dir_block_range is all its blocks *)
  Lemma ps_range_dir p nm dl kids : ms_node_at t p = Some (Dir nm dl kids) ->
    ps_range isz (ms_ext_at DB p) dl = ps_blocks_of (ms_ext_at DB p) dl /\ dl mod BS = 0 /\ BS <= dl.
  Proof.
    intros Hp. destruct (ms_chunk_facts dt Hdt t Hwf p nm dl kids Hp) as (_ & _ & Hm & Hg & _).
    destruct (ms_dext_range t Hwf p nm dl kids Hp) as (_ & He & H0).
    pose proof (ms_dir_end_le t Hwf) as Hle. split; [|split; assumption].
    unfold ps_range, ps_blocks_of. rewrite ms_BS in *.
    replace (Z.min dl (Z.max (isz - ms_ext_at DB p * 2048) 0)) with dl by lia. reflexivity.
  Qed.

  Theorem ps_walk_ok : forall f items st popped F,
    ps_inv f st items popped -> (f < F)%nat ->
    ps_walk true F (ms_img_read img') ptr isz st = POk (ps_gwalk f dt t DB FB items st).
  Proof.
    induction f as [|f IH]; intros items st popped F Inv HF.
    - destruct items as [|[p n] q].
      + destruct F as [|F]; [lia|]. cbn [ps_walk ps_gwalk]. rewrite (iv_queue _ _ _ _ Inv). reflexivity.
      + pose proof (iv_size _ _ _ _ Inv) as Hs. cbn [ps_dq map fst snd] in Hs. rewrite ps_wsize_cons in Hs.
        pose proof (tsize_pos (ms_dtree n)). lia.
    - destruct items as [|[p n] q].
      + destruct F as [|F]; [lia|]. cbn [ps_walk ps_gwalk]. rewrite (iv_queue _ _ _ _ Inv). reflexivity.
      + destruct Inv as [Hq Hn He Hseen Hnd Hs Hcur Hlv].
        assert (Hpn : ms_node_at t p = Some n) by (apply Hn; left; reflexivity).
        destruct n as [fn len|nm dl kids].
        * (* a file record: nothing to walk *)
          cbn [ps_gwalk]. apply (IH q st (popped ++ [p]) F); [|lia].
          cbn [ps_dq map fst snd ms_dtree wgo child_pos_from] in Hnd. rewrite app_nil_r in Hnd.
          cbn [ps_dq map fst snd ms_dtree] in Hs. rewrite ps_wsize_cons in Hs. fold (ps_dq q) in Hs.
          change (tsize (Node fn 0 [])) with 1%nat in Hs.
          constructor; try assumption.
          -- intros p' n' Hin. apply Hn. right. exact Hin.
          -- rewrite <- app_assoc. exact He.
          -- intros b Hin. destruct (Hseen b Hin) as (p' & n' & d' & k' & Hp' & R). exists p', n', d', k'.
             split; [apply in_or_app; left; exact Hp'|exact R].
          -- rewrite <- app_assoc. exact Hnd.
          -- lia.
        * (* a directory *)
          cbn [ps_gwalk]. destruct F as [|F]; [lia|]. cbn [ps_walk].
          cbn [filter ps_item_is_dir snd Account.is_dir map ps_qof] in Hq. rewrite Hq.
          set (ext := ms_ext_at DB p).
          assert (Hpd : ms_is_dir_at t p = true) by (unfold ms_is_dir_at; rewrite Hpn; reflexivity).
          cbn [ps_dq map fst snd ms_dtree wgo] in Hnd. fold (ps_dq q) in Hnd.
          rewrite <- (ps_dq_items p kids 0) in Hnd.
          assert (Hsz : (ps_wsize (ps_dq q ++ ps_dq (ps_items p 0 kids)) <= f)%nat).
          { rewrite ps_wsize_app, ps_dq_items, ps_wsize_child.
            cbn [ps_dq map fst snd ms_dtree] in Hs. rewrite ps_wsize_cons in Hs. fold (ps_dq q) in Hs.
            cbn [tsize] in Hs. lia. }
          destruct (ps_wgo_prefix f _ Hsz) as [rest Hrest].
          pose proof Hnd as Hnd0.
          rewrite Hrest, map_app in Hnd.
          assert (Hfst : forall l, map snd (ps_dq l) = map fst l).
          { intros l. unfold ps_dq. rewrite map_map. reflexivity. }
          rewrite !Hfst, ps_items_fst in Hnd.
          (* the directory was not walked before *)
          assert (Hnew : ~ In p popped).
          { apply NoDup_remove_2 in Hnd. intros Hin. apply Hnd. apply in_or_app. left. exact Hin. }
          destruct (ps_range_dir p nm dl kids Hpn) as (Hrange & Hmod & Hge).
          assert (Henter : ps_enter true isz (s_seen st) ext dl = inr (ps_blocks_of ext dl ++ s_seen st)).
          { unfold ps_enter, ext. rewrite Hrange. cbv zeta.
            replace (existsb (fun b => ps_mem b (s_seen st)) (ps_blocks_of (ms_ext_at DB p) dl)) with false; [reflexivity|].
            symmetry. apply not_true_is_false. intros Hex. apply existsb_exists in Hex. destruct Hex as (b & Hb & Hmem).
            apply (ps_blocks_of_in _ _ _ Hmod Hge) in Hb.
            unfold ps_mem in Hmem. apply existsb_exists in Hmem. destruct Hmem as (b' & Hb' & E). apply Z.eqb_eq in E. subst b'.
            destruct (Hseen _ Hb') as (p' & n' & d' & k' & Hp' & Hn' & Hr').
            apply (ps_dir_blocks_disjoint p nm dl kids p' n' d' k' b Hpn Hn'); [|exact Hb|exact Hr'].
            intros ->. exact (Hnew Hp'). }
          rewrite Henter.
          (* its children were not created before *)
          assert (HX : forall j, (j < length kids)%nat -> ~ In (p ++ [j]) (popped ++ map fst ((p, Dir nm dl kids) :: q))).
          { intros j Hj Hin. cbn [map fst] in Hin.
            assert (Hk : In (p ++ [j]) (ps_kid_positions p 0 (length kids))).
            { unfold ps_kid_positions. apply in_map_iff. exists j. split; [reflexivity|]. apply in_seq. lia. }
            apply in_split in Hk. destruct Hk as (l1 & l2 & Hk). rewrite Hk in Hnd.
            replace (popped ++ p :: (map fst q ++ l1 ++ (p ++ [j]) :: l2) ++ rest)
              with ((popped ++ p :: map fst q ++ l1) ++ (p ++ [j]) :: (l2 ++ rest)) in Hnd
              by (rewrite <- !app_assoc; cbn [app]; rewrite <- !app_assoc; reflexivity).
            apply NoDup_remove_2 in Hnd. apply Hnd. apply in_or_app. left.
            apply in_app_or in Hin. destruct Hin as [Hin|Hin]; [apply in_or_app; left; exact Hin|].
            apply in_or_app. right. destruct Hin as [Hin|Hin]; [left; exact Hin|right].
            apply in_or_app. left. exact Hin. }
          destruct (ps_dir_scan dt Hdt t Hwf Hnm ptr Hptr isz Hisz img' Hok Hincl p nm dl kids st _ _
                      Hpn Hq Hcur Hlv He HX) as (data & st2 & last' & Hread & Hscan & Hend & HE2).
          fold ext in Hread, Hscan. rewrite Hread, Hscan, Hend.
          apply (IH _ _ (popped ++ [p]) F); [|lia].
          assert (Hcache : length (skipn 2 (cached BS (34 :: 34 :: map Account.dr_len_of (map Account.name_of kids))))
                           = length kids).
          { rewrite skipn_length, cached_length. cbn [length]. rewrite !map_length. lia. }
          destruct (ps_spec_kids_fields dt DB FB p kids 0
                      (skipn 2 (cached BS (34 :: 34 :: map Account.dr_len_of (map Account.name_of kids))))
                      (mk_pstate (s_dirs st)
                         [ps_dot_prec (ms_rec dt (ms_ext_at DB p) dl 2 [0]) 0 1 34;
                          ps_dot_prec (ms_rec dt (ms_ext_at DB (removelast p)) (ms_dlen_at t (removelast p)) 2 [1]) 1 1 68]
                         (tl (s_queue st)) (s_inodes st) (s_e2i st) (ps_blocks_of (ms_ext_at DB p) dl ++ s_seen st) 3 (s_lastbyte st)))
            as (_ & Fseen & Flevel).
          constructor.
          -- unfold ps_spec_dir. cbn [ps_end_dir s_queue]. rewrite ps_spec_queue by exact Hcache.
             cbn [s_queue]. rewrite Hq. cbn [tl]. rewrite filter_app, map_app. reflexivity.
          -- intros p' n' Hin. apply in_app_or in Hin. destruct Hin as [Hin|Hin]; [apply Hn; right; exact Hin|].
             destruct (ps_items_in p kids kids 0 (fun i c H => H) p' n' Hin) as (i & -> & Hi).
             rewrite (ms_node_at_snoc p i t _ Hpn). exact Hi.
          -- rewrite map_app, ps_items_fst. cbn [map fst] in HE2.
             replace ((popped ++ [p]) ++ map fst q ++ ps_kid_positions p 0 (length kids))
               with ((popped ++ p :: map fst q) ++ ps_kid_positions p 0 (length kids))
               by (rewrite <- !app_assoc; reflexivity).
             exact HE2.
          -- unfold ps_spec_dir. cbn [ps_end_dir s_seen]. rewrite Fseen. cbn [s_seen].
             intros b Hin. apply in_app_or in Hin. destruct Hin as [Hin|Hin].
             ++ exists p, nm, dl, kids. split; [apply in_or_app; right; left; reflexivity|]. split; [exact Hpn|].
                apply (ps_blocks_of_in _ _ _ Hmod Hge). exact Hin.
             ++ destruct (Hseen b Hin) as (p' & n' & d' & k' & Hp' & R). exists p', n', d', k'.
                split; [apply in_or_app; left; exact Hp'|exact R].
          -- unfold ps_dq at 1. rewrite map_app. fold (ps_dq q). fold (ps_dq (ps_items p 0 kids)).
             rewrite <- app_assoc. exact Hnd0.
          -- unfold ps_dq at 1. rewrite map_app. exact Hsz.
          -- reflexivity.
          -- unfold ps_spec_dir. cbn [ps_end_dir s_level]. rewrite Flevel. cbn [s_level]. lia.
  Qed.
End Walk.

Print Assumptions ps_walk_ok.
